import AsyncFix.Lemmas.SchedAsc
import AsyncFix.Lemmas.SchedSeq
import AsyncFix.Lemmas.SchedEval
import AsyncFix.Lemmas.SchedWitness

/-!
# C14 – concurrent senders never corrupt the outbound sequence

Model: `Model/Sched*.lean` – the coroutines of asyncfix/connection.py as resumptions (a yield at every
`await` that can suspend), interleaved by a scheduler under an ARBITRARY schedule (any list of letters
`run i` / `pause` / `resume`, any number of tasks of the three kinds: application sender, watchdog tick,
reader processing one inbound frame of any class).  `Lemmas/SchedSeq.lean`: a resumption that is never
interleaved is the sequential session handler (`Task.body_seq` below).

* `atomic_send_prefix_*`  – in `send_msg` the state checks (from the last `on_state_change` on), the number
  allocation, the journal write and the transport write are ONE segment: no other task can run between them.
* `concurrent_senders_consecutive_partial` – sender tasks send new messages, or messages of any kind (also
  PossDupFlag=Y / SequenceReset with their own number) whose text is outside latin-1 (`Task.wf`); for every
  schedule in which no `_process_resend` has rewound
  the outbound counter (`everRewound = false`, a decidable predicate of the schedule prefix) and no acceptor
  Logon reply was lost for want of a transport / a free journal slot (`everWaived = false`, likewise
  decidable; since fix a9dbd9f that failure is re-raised only after `disconnect()`): the new-message
  frames carry strictly increasing numbers in wire order, none below the initial counter; nothing but new
  messages is written; every frame is in the journal under its number; no DuplicateSeqNoError is swallowed
  and none escapes a sender / the watchdog; `stored + 1 = next_num_out` at EVERY point of the schedule;
  and `next_num_out` = initial + frames written + sends that found the transport gone (`lost`).
* `concurrent_senders_gapless_partial` – with `lost = 0` the numbers are consecutive and
  `next_num_out = highest number + 1`.
* `concurrent_full` – the property as stated (no hypothesis on the schedule); refuted in
  `Findings/C14.lean` by the known finding D21 (send inside the resend rewind window) and by the
  connection-revived-after-concurrent-disconnect race.
-/
namespace AsyncFix.Sched.C14

open AsyncFix.Session AsyncFix.Sched AsyncFix.Generated AsyncFix.Generated.ConnEnum

/-! ### 1. atomicity of the send prefix -/

/-- `send_msg` after its state checks: checks, allocation, journal write and transport write are the
sequential function `sendCore` applied ONCE to the connection of that moment – a single segment – and only
then comes the `drain` yield (nothing follows it).  When `sendCore` raises there is no yield at all. -/
theorem atomic_send_prefix_core (env : Env) (m : Msg) (c : Conn) :
    sendCoreR env m c =
      (match sendCore env m c with
       | ⟨.ok _, c1, e⟩ => .yield c1 e [] .drain fun c' => .done c' [] [] (.ok ())
       | ⟨.error ex, c1, e⟩ => .done c1 e [] (.error ex)) := by
  simp only [sendCoreR, R.bind_apply, R.liftM_apply]
  rcases sendCore env m c with ⟨r, c1, e⟩
  cases r with
  | ok a => simp [Res.bind, Res.prepend, R.yield]
  | error ex => rfl

/-- past the Logon exchange (`state > NETWORK_CONN_ESTABLISHED`) the state checks of `send_msg` contain no
await: they are the sequential `sendGate`, in the same segment as what follows -/
theorem gate_no_yield (m : Msg) (c : Conn) (h : st_NETWORK_CONN_ESTABLISHED < c.state) :
    sendGateR m c = .done (sendGate m c).conn (sendGate m c).eff [] (sendGate m c).res := by
  have h1 : ¬ c.state < st_NETWORK_CONN_ESTABLISHED := by omega
  have h2 : (c.state == st_NETWORK_CONN_ESTABLISHED) = false := by
    simp only [beq_eq_false_iff_ne, ne_eq]; omega
  simp only [sendGateR, sendGate, R.bind_apply, R.get_apply, Res.bind, Res.prepend_nil, M.bind_apply,
    M.get_apply, h1, h2, if_false, Bool.false_eq_true, R.ite_apply]
  split <;> rfl

/-- past the Logon exchange the whole `send_msg` up to the drain is one segment: the sequential `sendMsg`
applied to the connection on which the task runs. -/
theorem atomic_send_prefix (env : Env) (m : Msg) (c : Conn) (h : st_NETWORK_CONN_ESTABLISHED < c.state) :
    sendMsgR env m c =
      (match sendMsg env m c with
       | ⟨.ok _, c1, e⟩ => .yield c1 e [] .drain fun c' => .done c' [] [] (.ok ())
       | ⟨.error ex, c1, e⟩ => .done c1 e [] (.error ex)) := by
  simp only [sendMsgR, sendMsg, R.bind_apply, gate_no_yield m c h, M.bind_apply]
  rcases sendGate m c with ⟨r, c1, e⟩
  cases r with
  | error ex => rfl
  | ok a =>
    simp only [Res.bind, atomic_send_prefix_core]
    rcases sendCore env m c1 with ⟨r2, c2, e2⟩
    cases r2 <;> simp [Res.prepend]

/-- the initiator's first message: the only await before the allocation is the `on_state_change` hook of
`_state_set(LOGON_INITIAL_SENT)`; resumed on ANY connection `c'`, role assignment + checks + allocation +
journal + write are again one segment (`atomic_send_prefix_core`). -/
theorem atomic_send_prefix_logon (env : Env) (m : Msg) (c : Conn)
    (h : c.state = st_NETWORK_CONN_ESTABLISHED) (hm : m.mtype = mLogon ∨ m.mtype = mLogout) :
    sendMsgR env m c =
      .yield ({ c with state := st_LOGON_INITIAL_SENT, wasActive := c.wasActive || st_LOGON_INITIAL_SENT == st_ACTIVE })
        [.onState st_LOGON_INITIAL_SENT] [] .onStateChange
        (fun c' => sendCoreR env m ({ c' with role := roleInitiator })) := by
  have h1 : ¬ c.state < st_NETWORK_CONN_ESTABLISHED := by omega
  have h2 : (c.state == st_NETWORK_CONN_ESTABLISHED) = true := by simp [h]
  have h3 : (m.mtype != mLogon && m.mtype != mLogout) = false := by
    rcases hm with hm | hm <;> simp [hm]
  simp only [sendMsgR, sendGateR, stateSetR, stateSet, R.bind_apply, R.get_apply, Res.bind,
    Res.prepend_nil, h1, h2, h3, if_false, if_true, Bool.false_eq_true, R.ite_apply, R.liftM_apply,
    M.bind_apply, M.modify_apply, M.emit_apply, R.yield_apply, Res.prepend, R.modify_apply,
    List.nil_append, List.append_nil]
  congr 1
  funext c'
  cases sendCoreR env m { c' with role := roleInitiator } <;> rfl

/-- non-vacuity: an established session; the first segment of an application send ends in the `drain`
yield with the frame written and journaled under the number it allocated (7) -/
example : st_NETWORK_CONN_ESTABLISHED < Witness.c0.state ∧
    (sendMsgR Witness.env1 (Witness.appMsg "a") Witness.c0).isYield = true ∧
    (writes (sendMsgR Witness.env1 (Witness.appMsg "a") Witness.c0).effs).map seqOf = [some 7] ∧
    ((Rows.find 7 (sendMsgR Witness.env1 (Witness.appMsg "a") Witness.c0).conn.journal.out).isSome = true) := by
  decide +kernel

/-- non-vacuity of the Logon case -/
example : Witness.cA.state = st_NETWORK_CONN_ESTABLISHED ∧
    (Msg.mk' mLogon [(tEncryptMethod, "0"), (tHeartBtInt, "30")]).mtype = mLogon := by decide

/-! ### 2. every schedule without a rewind -/

/-- the state after a schedule -/
abbrev run (sr : Msg → Bool) (c0 : Conn) (ts : List Task) (paused : Bool) (sched : List Letter) : SState :=
  (SState.init sr c0 ts paused).exec sched

/-- what C14 claims about a run `s` that started from `c0` with the tasks `ts`; `exact = true` is the
property as stated, `exact = false` counts the sends that found the transport gone separately -/
structure Holds (exact : Bool) (ts : List Task) (c0 : Conn) (s : SState) : Prop where
  /-- new messages: every one carries a readable number; strictly increasing in wire order; none below the
  initial counter (never a number of an earlier message), none at or above the current counter -/
  increasing : ∃ ns : List Int, (newWrites s.effects).map seqOf = ns.map some ∧ ns.Pairwise (· < ·) ∧
    ∀ n ∈ ns, c0.sess.nextOut ≤ n ∧ n < s.conn.sess.nextOut
  /-- nothing but new messages is written: outside a resend no number is reused at all -/
  onlyNew : writes s.effects = newWrites s.effects
  /-- each frame is journaled under its number -/
  journaled : ∀ f ∈ newWrites s.effects, ∃ n, seqOf f = some n ∧ Rows.find n s.conn.journal.out = some f
  /-- `persist` never reports a duplicate: none is swallowed, none escapes a sender or the watchdog
  (an escaping one from a reader task is its INBOUND journal write, not C14's) -/
  noDuplicate : (∀ p ∈ s.log, p.2 ≠ .caught .duplicateSeqNo) ∧
    ∀ p ∈ s.log, p.2 = .raised .duplicateSeqNo → ∃ env m, ts[p.1]? = some (.recv env m)
  /-- the stored counter follows the session's counter -/
  stored : s.conn.journal.outSeq + 1 = s.conn.sess.nextOut
  /-- … which advanced by exactly the number of frames written -/
  counter : s.conn.sess.nextOut =
    c0.sess.nextOut + (newWrites s.effects).length + (if exact then 0 else (lost s.effects : Int))

/-- **C14, partial**: every schedule (any length) of any number of sender / tick / reader tasks in which
no resend rewind window was opened and no acceptor Logon reply was lost for want of a transport or of a
free journal slot (`everWaived`: since fix a9dbd9f such a failure is re-raised only after `disconnect()`, so
at the prefixes in between a number is consumed that no effect accounts for yet). -/
theorem concurrent_senders_consecutive_partial (sr : Msg → Bool) (c0 : Conn) (ts : List Task) (paused : Bool)
    (sched : List Letter) (hJ : J c0) (hT : ∀ t ∈ ts, t.wf = true)
    (hW : (run sr c0 ts paused sched).everRewound = false)
    (hV : (run sr c0 ts paused sched).everWaived = false) :
    Holds false ts c0 (run sr c0 ts paused sched) := by
  have ho : (run sr c0 ts paused sched).blocked = 0 := by
    simp only [SState.everRewound, SState.everWaived, decide_eq_false_iff_not] at hW hV
    unfold SState.blocked; omega
  have inv := exec_inv sched (init_inv sr c0 ts paused hJ hT) ho
  have seg := inv.seg
  refine ⟨seg.asc.numbers, ?_, seg.fresh, ⟨?_, ?_⟩, seg.inv.counter, ?_⟩
  · have h := seg.allNew
    unfold newWrites
    rw [List.filter_eq_self.mpr h]
  · intro p hp hc
    have : p.2 ∈ (run sr c0 ts paused sched).effects := List.mem_map_of_mem hp
    rw [hc] at this
    exact caught_dup_not_mem seg.nodup this
  · intro p hp hr
    have h := inv.strict p hp hr
    unfold flagOf at h
    cases ht : ts[p.1]? with
    | none => simp [ht] at h
    | some t =>
      cases t with
      | recv env m => exact ⟨env, m, rfl⟩
      | send env m => simp [ht, Task.inb] at h
      | tick env => simp [ht, Task.inb] at h
  · simpa using seg.cnt

/-- non-vacuity: three senders, the watchdog and a reader answering a TestRequest, interleaved under
back-pressure (`Witness.schedPlain`): the hypotheses hold, all tasks finish, four frames go out numbered
7, 8, 9, 10 in wire order -/
example : J Witness.c0 ∧ (∀ t ∈ Witness.tsPlain, t.wf = true) ∧
    (run Witness.all Witness.c0 Witness.tsPlain false Witness.schedPlain).everRewound = false ∧
    (run Witness.all Witness.c0 Witness.tsPlain false Witness.schedPlain).everWaived = false ∧
    (run Witness.all Witness.c0 Witness.tsPlain false Witness.schedPlain).allDone = true ∧
    lost (run Witness.all Witness.c0 Witness.tsPlain false Witness.schedPlain).effects = 0 ∧
    (newWrites (run Witness.all Witness.c0 Witness.tsPlain false Witness.schedPlain).effects).map seqOf
      = [some 7, some 8, some 9, some 10] ∧
    (run Witness.all Witness.c0 Witness.tsPlain false Witness.schedPlain).log.map (·.1) = [0, 3, 1, 4] :=
  ⟨Witness.J_c0, by decide, by decide +kernel, by decide +kernel, by decide +kernel, by decide +kernel,
    by decide +kernel⟩

/-- non-vacuity of the widened sender class: a PossDupFlag=Y message with its own number and text outside
latin-1 is not a new message, yet a well-formed sender task (it is refused) -/
example : (Task.send Witness.env1 (Msg.mk' "D" [(tPossDupFlag, "Y"), (tMsgSeqNum, "3"), (tText, "\u20ac")])).wf = true ∧
    isNew (Msg.mk' "D" [(tPossDupFlag, "Y"), (tMsgSeqNum, "3"), (tText, "\u20ac")]) = false := by
  decide +kernel

/-- … and when no send found the transport gone, the numbers are consecutive from the initial counter and
the counter (hence the stored one) is the highest number sent plus one -/
theorem concurrent_senders_gapless_partial (sr : Msg → Bool) (c0 : Conn) (ts : List Task) (paused : Bool)
    (sched : List Letter) (hJ : J c0) (hT : ∀ t ∈ ts, t.wf = true)
    (hW : (run sr c0 ts paused sched).everRewound = false)
    (hV : (run sr c0 ts paused sched).everWaived = false)
    (hL : lost (run sr c0 ts paused sched).effects = 0) :
    Holds true ts c0 (run sr c0 ts paused sched) ∧
      numbered c0.sess.nextOut (newWrites (run sr c0 ts paused sched).effects) ∧
      ∀ f, (newWrites (run sr c0 ts paused sched).effects).getLast? = some f →
        seqOf f = some ((run sr c0 ts paused sched).conn.sess.nextOut - 1) ∧
        (run sr c0 ts paused sched).conn.journal.outSeq = (run sr c0 ts paused sched).conn.sess.nextOut - 1 := by
  generalize hs : run sr c0 ts paused sched = s at *
  have h : Holds false ts c0 s := by
    rw [← hs] at hW hV ⊢; exact concurrent_senders_consecutive_partial sr c0 ts paused sched hJ hT hW hV
  have ho : s.blocked = 0 := by
    simp only [SState.everRewound, SState.everWaived, decide_eq_false_iff_not] at hW hV
    unfold SState.blocked; omega
  have seg : Seg true c0 s.conn s.effects := by
    rw [← hs] at ho ⊢; exact (exec_inv sched (init_inv sr c0 ts paused hJ hT) ho).seg
  have hc : s.conn.sess.nextOut = c0.sess.nextOut + (newWrites s.effects).length := by
    have := h.counter; simp only [Bool.false_eq_true, if_false] at this; rw [hL] at this; simpa using this
  have hn : numbered c0.sess.nextOut (newWrites s.effects) := seg.asc.numbered (by omega)
  refine ⟨⟨h.increasing, h.onlyNew, h.journaled, h.noDuplicate, h.stored, by simpa using hc⟩, hn, ?_⟩
  intro f hf
  refine ⟨?_, ?_⟩
  · rw [numbered_last hn f hf, hc]
  · have := h.stored; omega

/-- **the property as stated** – no hypothesis on the schedule.  Refuted for the current code in
`Findings/C14.lean`. -/
def concurrent_full : Prop :=
  ∀ (sr : Msg → Bool) (c0 : Conn) (ts : List Task) (paused : Bool) (sched : List Letter),
    J c0 → (∀ t ∈ ts, t.wf = true) → Holds true ts c0 (run sr c0 ts paused sched)

/-! ### 3. tie to the sequential model -/

/-- a task that is never interleaved IS its sequential entry point (`appSend` / `tick` / `recv`) -/
theorem never_interleaved_is_sequential (sr : Msg → Bool) (t : Task) (c : Conn) :
    M.run (t.body sr).runSeq c =
      (match t with
       | .send env m => Session.appSend env c m
       | .tick env => Session.tick env c
       | .recv env m => Session.recv sr env c m) :=
  Task.body_seq sr t c

end AsyncFix.Sched.C14
