import AsyncFix.Lemmas.LinkRun
import AsyncFix.Lemmas.LinkLive

/-!
# C07 – no application message is lost, duplicated or reordered across connection loss

Model: `AsyncFix.Link` (`Model/Link.lean`): two endpoints of the library (`Session.Conn`, initiator `i` and
acceptor `a`, each with its own journal), two FIFO queues of frames in flight, events `appSend`, `deliverNext`,
`breakConn`, `reconnect`.  All theorems are about `run (Link.init hb) evs` for an ARBITRARY event list `evs`
(no bound on its length, on the number of breaks or on the interleaving), under two explicit, decidable
side conditions:

* `Wf evs`      – the application sends application messages (type outside `0 1 2 4 5 A`, no header / trailer tags;
                  an explicit PossDupFlag(43) other than `Y` and an OrigSendingTime(122) are allowed)
                  and the clock text (`SendingTime`) is single-byte;
* `InRange l`   – the outbound counters of the final state are `≤ sys.maxsize + 1` (they never decrease, so this
                  bounds the whole run): beyond that the journal (SQLite INTEGER) cannot store a row and
                  `ResendRequest(n, 0)` – served up to `sys.maxsize` – would skip messages.

Proof architecture (`Lemmas/Link*.lean`): the executable model is abstracted (`absLink`) to a small pure protocol
model (`Model/LinkAbs.lean`); `step_sim` proves that the abstraction commutes with the step functions on
well-formed states by evaluating `_process_message`, `_process_resend`, `send_msg`, `disconnect`, … on every kind
of frame an endpoint can write; the invariants S1–S4 (`SafeInv`) and G1–G3 + handshake phases (`SyncInv'`) of
DESIGN Appendix A.2 are proved inductive on the abstract model.

`own_requests_in_range` (DESIGN): under the invariant the only ResendRequests in flight are `(e, 0)` with
`e ≤ w < o` of the peer (`DirSync`), which is how the open C06 findings (bounded EndSeqNo, out-of-range requests)
are never triggered by the library's own endpoints.
-/
namespace AsyncFix.Link

open AsyncFix.Session AsyncFix.Generated AsyncFix.Generated.ConnEnum

/-- MsgSeqNum of a delivered message / written frame -/
def seqNo (f : Msg) : Int := (seqOf f).getD 0

/-- an application frame: not one of the session-level types -/
def isAppFrame (f : Msg) : Bool :=
  f.mtype != mLogon && f.mtype != mResendRequest && f.mtype != mSequenceReset && f.mtype != mLogout

theorem absLink_delA (l : Link) : (absLink l).delA = l.delA.map absDelivered := rfl
theorem absLink_delI (l : Link) : (absLink l).delI = l.delI.map absDelivered := rfl
theorem absLink_accI (l : Link) : (absLink l).accI = l.accI.map payloadOf := rfl
theorem absLink_accA (l : Link) : (absLink l).accA = l.accA.map payloadOf := rfl

theorem map_absDelivered_payload (ms : List Msg) : (ms.map absDelivered).map (·.2) = ms.map payloadOf := by
  simp [absDelivered, List.map_map, Function.comp_def]

theorem map_absDelivered_seq (ms : List Msg) : (ms.map absDelivered).map (·.1) = ms.map seqNo := by
  simp [absDelivered, seqNo, List.map_map, Function.comp_def]

/-- **link_safety.**  At every moment each side's delivered sequence is, in order, a PREFIX (hence a
subsequence) of the application payloads the other side's `send_msg` accepted, and the delivered MsgSeqNums
strictly increase (nothing is delivered twice). -/
theorem link_safety (hb : Int) (evs : List Ev) (hwf : Wf evs) (hr : InRange (run (Link.init hb) evs)) :
    let l := run (Link.init hb) evs
    (l.delA.map payloadOf <+: l.accI.map payloadOf) ∧ (l.delI.map payloadOf <+: l.accA.map payloadOf) ∧
    (l.delA.map seqNo).Pairwise (· < ·) ∧ (l.delI.map seqNo).Pairwise (· < ·) := by
  obtain ⟨_, ⟨hIA, hAI⟩, _⟩ := reach_inv hb evs hwf hr
  refine ⟨?_, ?_, ?_, ?_⟩
  · have := safe_prefix hIA; rwa [absLink_delA, absLink_accI, map_absDelivered_payload] at this
  · have := safe_prefix hAI; rwa [absLink_delI, absLink_accA, map_absDelivered_payload] at this
  · have := safe_seq_increasing hIA
    rw [← map_absDelivered_seq, List.pairwise_map]; exact this
  · have := safe_seq_increasing hAI
    rw [← map_absDelivered_seq, List.pairwise_map]; exact this

/-- the property's wording: an in-order subsequence -/
theorem link_safety_sublist (hb : Int) (evs : List Ev) (hwf : Wf evs) (hr : InRange (run (Link.init hb) evs)) :
    let l := run (Link.init hb) evs
    (l.delA.map payloadOf).Sublist (l.accI.map payloadOf) ∧ (l.delI.map payloadOf).Sublist (l.accA.map payloadOf) :=
  let h := link_safety hb evs hwf hr
  ⟨h.1.sublist, h.2.1.sublist⟩

/-- **S1** (DESIGN A.2): what A's application has received is exactly the application rows of I's outbound
journal numbered below A's next expected number – nothing below it was skipped – and symmetrically. -/
theorem link_S1 (hb : Int) (evs : List Ev) (hwf : Wf evs) (hr : InRange (run (Link.init hb) evs)) :
    let l := run (Link.init hb) evs
    l.delA.map absDelivered = (appView (l.i.journal.out.map absRow)).filter (fun r => r.1 < l.a.sess.nextIn) ∧
    l.delI.map absDelivered = (appView (l.a.journal.out.map absRow)).filter (fun r => r.1 < l.i.sess.nextIn) ∧
    l.a.sess.nextIn ≤ l.i.sess.nextOut ∧ l.i.sess.nextIn ≤ l.a.sess.nextOut := by
  obtain ⟨_, ⟨hIA, hAI⟩, _⟩ := reach_inv hb evs hwf hr
  exact ⟨hIA.s1, hAI.s1, hIA.s2, hAI.s2⟩

/-- **number_payload_stable.**  A MsgSeqNum once written with an application payload is never written with a
different one by the same endpoint (retransmissions carry the original body). -/
theorem number_payload_stable (hb : Int) (evs : List Ev) (hwf : Wf evs) (hr : InRange (run (Link.init hb) evs))
    (s : Side) (f g : Msg) (hf : f ∈ (run (Link.init hb) evs).wire s) (hg : g ∈ (run (Link.init hb) evs).wire s)
    (haf : isAppFrame f = true) (hag : isAppFrame g = true) (hs : seqNo f = seqNo g) :
    payloadOf f = payloadOf g := by
  obtain ⟨_, ⟨hIA, hAI⟩, _⟩ := reach_inv hb evs hwf hr
  have key : ∀ (h : Msg), isAppFrame h = true →
      (absFrame h).kind = .app (payloadOf h) (h.get? tPossDupFlag == some "Y") := by
    intro h hh
    simp only [isAppFrame, Bool.and_eq_true, bne_iff_ne, ne_eq] at hh
    exact absFrame_app hh.1.1.1 hh.1.1.2 hh.1.2 hh.2
  have hseq : (absFrame f).seq = (absFrame g).seq := hs
  cases s with
  | I => exact safe_number_stable hIA (List.mem_map_of_mem hf) (List.mem_map_of_mem hg) hseq (key f haf) (key g hag)
  | A => exact safe_number_stable hAI (List.mem_map_of_mem hf) (List.mem_map_of_mem hg) hseq (key f haf) (key g hag)

/-- **link_sync** – the property's conclusion.  Whenever both connections are ACTIVE and nothing is in flight,
each side's next expected inbound number equals the other side's next outbound number, and each side's
application has received every application message the other side's `send_msg` accepted, exactly once and in
sending order. -/
theorem link_sync (hb : Int) (evs : List Ev) (hwf : Wf evs) (hr : InRange (run (Link.init hb) evs))
    (hq : (run (Link.init hb) evs).quiescent = true) :
    let l := run (Link.init hb) evs
    l.a.sess.nextIn = l.i.sess.nextOut ∧ l.i.sess.nextIn = l.a.sess.nextOut ∧
    l.delA.map payloadOf = l.accI.map payloadOf ∧ l.delI.map payloadOf = l.accA.map payloadOf := by
  obtain ⟨hg, ⟨hIA, hAI⟩, hsync⟩ := reach_inv hb evs hwf hr
  simp only [Link.quiescent, Bool.and_eq_true, beq_iff_eq, List.isEmpty_iff] at hq
  obtain ⟨⟨⟨hi, ha⟩, hqa⟩, hqi⟩ := hq
  have haq : (absLink (run (Link.init hb) evs)).quiescent = true := by
    simp only [ALink.quiescent, Bool.and_eq_true, decide_eq_true_eq, List.isEmpty_iff]
    exact ⟨⟨⟨absSt_active hi, absSt_active ha⟩, by simp [absLink, hqa]⟩, by simp [absLink, hqi]⟩
  obtain ⟨h1, h2⟩ := sync_counters' _ hsync haq
  refine ⟨h1, h2, ?_, ?_⟩
  · have := safe_complete hIA h1
    rwa [absLink_delA, absLink_accI, map_absDelivered_payload] at this
  · have := safe_complete hAI h2
    rwa [absLink_delI, absLink_accA, map_absDelivered_payload] at this

/-- the invariants G1–G3 and the handshake phases hold in every reachable state (stated on the abstraction) -/
theorem link_coverage_invariant (hb : Int) (evs : List Ev) (hwf : Wf evs) (hr : InRange (run (Link.init hb) evs)) :
    SyncInv (absLink (run (Link.init hb) evs)) ∧ SafeInv (absLink (run (Link.init hb) evs)) :=
  let h := reach_inv hb evs hwf hr
  ⟨h.2.2.syncInv, h.2.1⟩

/-- no exception path is needed: every reachable state is well-formed (`LinkGood`), in particular no endpoint ever
rests in a transient state and every frame in flight is one the peer can parse -/
theorem link_wellformed (hb : Int) (evs : List Ev) (hwf : Wf evs) : LinkGood (run (Link.init hb) evs) :=
  (run_sim evs (Link.init hb) (linkGood_init hb) hwf).2

/-! ### quiescence is reachable (termination of the recovery handshake) -/

theorem run_append (l : Link) (a b : List Ev) : run l (a ++ b) = run (run l a) b := by
  induction a generalizing l with
  | nil => rfl
  | cons e r ih => simp only [List.cons_append, run]; exact ih _

/-- a clock value for the recovery events (any single-byte text will do) -/
def env0 : Env := { now := 0, stamp := "" }

/-- the concrete event of an abstract delivery -/
def concEv : AEv → Ev
  | .deliverNext s => .deliverNext s env0
  | _ => .breakConn env0

/-- the events of a recovery: break, reconnect, deliveries -/
def isRecoveryEv : Ev → Bool
  | .appSend _ _ _ => false
  | _ => true

theorem quiescent_of_abs {l : Link} (hg : LinkGood l) (h : (absLink l).quiescent = true) : l.quiescent = true := by
  simp only [ALink.quiescent, Bool.and_eq_true, decide_eq_true_eq, List.isEmpty_iff] at h
  obtain ⟨⟨⟨hi, ha⟩, hqa⟩, hqi⟩ := h
  have st17 : ∀ {s : Side} {c : Conn}, ConnGood s c → (absConn c).st = .active → c.state = st_ACTIVE := by
    intro s c hc hst
    rcases hc.st with h | h | h | h | h | h | h
    · simp [absConn, absSt, h, st_DISCONNECTED_NOCONN_TODAY, st_DISCONNECTED_BROKEN_CONN] at hst
    · simp [absConn, absSt, h, st_DISCONNECTED_WCONN_TODAY, st_DISCONNECTED_BROKEN_CONN] at hst
    · simp [absConn, absSt, h, st_DISCONNECTED_BROKEN_CONN] at hst
    · rw [absSt_conn h] at hst; exact absurd hst (by decide)
    · rw [absSt_sent h] at hst; exact absurd hst (by decide)
    · rw [absSt_awaiting h] at hst; exact absurd hst (by decide)
    · exact h
  simp only [Link.quiescent, Bool.and_eq_true, beq_iff_eq, List.isEmpty_iff]
  refine ⟨⟨⟨st17 hg.i hi, st17 hg.a ha⟩, ?_⟩, ?_⟩
  · have : (absLink l).toA = l.toA.map absFrame := rfl
    rw [this] at hqa; simpa using hqa
  · have : (absLink l).toI = l.toI.map absFrame := rfl
    rw [this] at hqi; simpa using hqi

/-- **Quiescence reachability.**  From every reachable state (with two numbers of head-room below `sys.maxsize` on
each side), a break, a reconnect and delivery of the frames in flight – no further application sends – lead to both
connections ACTIVE with nothing in flight: the recovery handshake terminates, and by `link_sync` everything accepted
so far has then been delivered. -/
theorem link_recovery (hb : Int) (evs : List Ev) (hwf : Wf evs)
    (hr : (run (Link.init hb) evs).i.sess.nextOut + 2 ≤ sysMaxsize + 1 ∧
      (run (Link.init hb) evs).a.sess.nextOut + 2 ≤ sysMaxsize + 1) :
    ∃ rec : List Ev, Wf rec ∧ (∀ e ∈ rec, isRecoveryEv e = true) ∧
      (run (Link.init hb) (evs ++ rec)).quiescent = true := by
  obtain ⟨hg, hsafe, _⟩ := reach_inv hb evs hwf ⟨by have := hr.1; omega, by have := hr.2; omega⟩
  obtain ⟨ea, hod, hq⟩ := recover_quiescent_safe (absLink (run (Link.init hb) evs)) hsafe hr
  have hmap : (ea.map concEv).map absEv = ea := by
    rw [List.map_map]
    conv => rhs; rw [← List.map_id ea]
    apply List.map_congr_left
    intro e he
    rcases hod e he with h | h <;> subst h <;> rfl
  refine ⟨[.breakConn env0, .reconnect env0] ++ ea.map concEv, ?_, ?_, ?_⟩
  · intro e he
    simp only [List.cons_append, List.nil_append, List.mem_cons, List.mem_map] at he
    rcases he with h | h | ⟨x, hx, h⟩
    · subst h; decide
    · subst h; decide
    · subst h; rcases hod x hx with h | h <;> subst h <;> decide
  · intro e he
    simp only [List.cons_append, List.nil_append, List.mem_cons, List.mem_map] at he
    rcases he with h | h | ⟨x, hx, h⟩
    · subst h; rfl
    · subst h; rfl
    · subst h; rcases hod x hx with h | h <;> subst h <;> rfl
  · have hwf' : Wf ([.breakConn env0, .reconnect env0] ++ ea.map concEv) := by
      intro e he
      simp only [List.cons_append, List.nil_append, List.mem_cons, List.mem_map] at he
      rcases he with h | h | ⟨x, hx, h⟩
      · subst h; decide
      · subst h; decide
      · subst h; rcases hod x hx with h | h <;> subst h <;> decide
    obtain ⟨h1, h2⟩ := run_sim _ (run (Link.init hb) evs) hg hwf'
    rw [run_append]
    apply quiescent_of_abs h2
    rw [h1]
    simp only [List.map_append, List.map_cons, List.map_nil, hmap, absEv, List.cons_append, List.nil_append, arun]
    exact hq

/-! ### non-vacuity -/

/-- the abstract events of a run with a break in the middle of the recovery of an earlier break -/
def demoEvents : List AEv :=
  [.reconnect, .deliverNext .A, .deliverNext .I, .appSend .I ("D", [(58, "one")]) true,
   .appSend .A ("D", [(58, "uno")]) true, .breakConn, .reconnect, .deliverNext .A, .breakConn,
   .reconnect, .deliverNext .A, .deliverNext .I, .deliverNext .I, .deliverNext .A, .deliverNext .A,
   .deliverNext .I, .deliverNext .I, .deliverNext .A]

/-- the hypotheses of `link_sync` are satisfiable by a non-trivial state: after two breaks (the second one
during the recovery from the first) the abstract model reaches quiescence with both messages delivered -/
example : (arun ainit demoEvents).quiescent = true ∧ (arun ainit demoEvents).delA = [(2, ("D", [(58, "one")]))] ∧
    (arun ainit demoEvents).delI = [(2, ("D", [(58, "uno")]))] ∧ Bounded (arun ainit demoEvents) ∧
    SyncInv' (arun ainit demoEvents) ∧ SafeInv (arun ainit demoEvents) := by decide

/-- well-formed events exist and the initial state is in range -/
example : Wf [Ev.reconnect ⟨0, "20240102-00:00:00.000"⟩, Ev.appSend .I ⟨0, "x"⟩ (Msg.mk' "D" [(58, "hi")]),
      Ev.appSend .A ⟨0, "x"⟩ (Msg.mk' "8" [(37, "o1"), (43, "N"), (122, "20240101-23:59:00.000")])] ∧
    ¬ Wf [Ev.appSend .I ⟨0, "x"⟩ (Msg.mk' "D" [(43, "Y")])] ∧
    InRange (Link.init 30) := by decide

end AsyncFix.Link
