/-
C15 — schema validation accepts exactly the messages the FIX dictionary allows.

`validate` (Model/Schema.lean) mirrors `FIXSchema.validate` / `_validate_header` /
`SchemaGroup.validate_group` of asyncfix/protocol/schema.py as it is now; `Allowed`
(Model/SchemaSpec.lean) is the specification, written independently of it.  Everything is for
ALL dictionaries `sch` with `schemaWF sch` (evaluated by the driver on tests/FIX44.xml and
tests/TT-FIX44.xml every run), ALL value verdicts `vv` (C19's subject) and ALL messages `m`
(any number of nodes, any nesting depth): structural induction over the message tree.
Order-independence of `<components>` is in Props/C15Resolve.lean.
-/
import AsyncFix.Lemmas.SchemaMain
namespace AsyncFix.Props.C15
open AsyncFix.Model.Schema

variable {vv : Tag → String → Bool} {sch : Schema} {m : Msg}

/-! ## 1. accepts exactly the allowed messages -/

theorem validate_iff_allowed (hwf : schemaWF sch = true) :
    validate vv sch m = .ok ↔ Allowed vv sch m :=
  validate_iff_of_WF (schemaWF_WF hwf) m

/-! ## 2. every rejection is the library's message error -/

theorem validate_error_kind {k : Kind} (h : validate vv sch m = .raised k) : k = .msgError :=
  validate_kind h

theorem validate_ok_or_msgError : validate vv sch m = .ok ∨ validate vv sch m = .raised .msgError := by
  cases h : validate vv sch m with
  | ok => exact Or.inl rfl
  | raised k => rw [validate_kind h]; exact Or.inr rfl

/-- anything the dictionary does not allow is rejected with `FIXMessageError` -/
theorem reject_of_not_allowed (hwf : schemaWF sch = true) (h : ¬ Allowed vv sch m) :
    validate vv sch m = .raised .msgError := by
  rcases validate_ok_or_msgError (vv := vv) (sch := sch) (m := m) with h' | h'
  · exact absurd ((validate_iff_allowed hwf).mp h') h
  · exact h'

/-! ## 3. single-fault rejection, message level -/

theorem reject_unknown_msgtype (hwf : schemaWF sch = true)
    (h : ∀ ms, (m.msgType, ms) ∉ sch.messages) : validate vv sch m = .raised .msgError :=
  reject_of_not_allowed hwf (fun ⟨ms, hms, _⟩ => h ms hms)

/-- the message's member list is unique, so faults can be stated relative to it -/
theorem allowed_members (hwf : schemaWF sch = true) {ms : List Member}
    (hms : (m.msgType, ms) ∈ sch.messages) (h : Allowed vv sch m) :
    (∀ mem, mem ∈ ms → mem.req = true → mem.tag ∈ nodeTags m.tags) ∧
    ("8" ∈ nodeTags m.tags → ∀ mem, mem ∈ sch.header → mem.req = true → mem.tag ∈ nodeTags m.tags) ∧
    (∀ n, n ∈ m.tags → n.tag ≠ "10" →
      sch.declares n.tag ∧ ∃ mem, mem ∈ sch.header ++ sch.trailer ++ ms ∧ NodeOk vv mem n) := by
  obtain ⟨ms', hms', h⟩ := h
  have hw := schemaWF_WF hwf
  have e : ms' = ms := by
    have a := (lookupMsg_iff hw.types).mpr hms'
    have b := (lookupMsg_iff hw.types).mpr hms
    rw [a] at b; exact Option.some.inj b
  exact e ▸ h

/-- missing required field or group -/
theorem reject_missing_required (hwf : schemaWF sch = true) {ms : List Member}
    (hms : (m.msgType, ms) ∈ sch.messages) {mem : Member} (hmem : mem ∈ ms) (hreq : mem.req = true)
    (habs : mem.tag ∉ nodeTags m.tags) : validate vv sch m = .raised .msgError :=
  reject_of_not_allowed hwf fun h => habs ((allowed_members hwf hms h).1 mem hmem hreq)

/-- a message that carries BeginString but lacks a required header member -/
theorem reject_missing_header_member (hwf : schemaWF sch = true) {ms : List Member}
    (hms : (m.msgType, ms) ∈ sch.messages) (h8 : "8" ∈ nodeTags m.tags) {mem : Member}
    (hmem : mem ∈ sch.header) (hreq : mem.req = true) (habs : mem.tag ∉ nodeTags m.tags) :
    validate vv sch m = .raised .msgError :=
  reject_of_not_allowed hwf fun h => habs ((allowed_members hwf hms h).2.1 h8 mem hmem hreq)

/-- tag unknown to the dictionary -/
theorem reject_unknown_tag (hwf : schemaWF sch = true) {n : Node} (hn : n ∈ m.tags)
    (h10 : n.tag ≠ "10") (hun : ¬ sch.declares n.tag) : validate vv sch m = .raised .msgError :=
  reject_of_not_allowed hwf fun ⟨_, _, _, _, h⟩ => hun (h n hn h10).1

/-- tag not allowed in this message (neither header, trailer nor message member) -/
theorem reject_not_allowed_tag (hwf : schemaWF sch = true) {ms : List Member}
    (hms : (m.msgType, ms) ∈ sch.messages) {n : Node} (hn : n ∈ m.tags) (h10 : n.tag ≠ "10")
    (hno : n.tag ∉ memberTags (sch.header ++ sch.trailer ++ ms)) :
    validate vv sch m = .raised .msgError :=
  reject_of_not_allowed hwf fun h => by
    obtain ⟨_, mem, hmem, hok⟩ := (allowed_members hwf hms h).2.2 n hn h10
    exact hno (hok.tag_eq ▸ List.mem_map.mpr ⟨mem, hmem, rfl⟩)

/-- a node that is not an acceptable instance of the member with its tag: covers an invalid or
    empty value, a non-string value, a plain field given as a group and a group given as a
    plain value – for message, header and trailer members alike -/
theorem reject_bad_node (hwf : schemaWF sch = true) {ms : List Member}
    (hms : (m.msgType, ms) ∈ sch.messages) {n : Node} (hn : n ∈ m.tags) (h10 : n.tag ≠ "10")
    {mem : Member} (hmem : mem ∈ sch.header ++ sch.trailer ++ ms) (ht : mem.tag = n.tag)
    (hbad : ¬ NodeOk vv mem n) : validate vv sch m = .raised .msgError :=
  reject_of_not_allowed hwf fun h => by
    obtain ⟨_, mem', hmem', hok⟩ := (allowed_members hwf hms h).2.2 n hn h10
    have hnd := (schemaWF_WF hwf).members _ hms
    exact hbad (membersND_unique hnd hmem hmem' (ht.trans hok.tag_eq.symm) ▸ hok)

theorem not_nodeOk_invalid_value {t t' : Tag} {r : Bool} {s : String} (h : vv t s = false) :
    ¬ NodeOk vv (.field t r) (.plain t' s) := by
  intro hok; cases hok with | field _ h2 => simp [h] at h2

theorem not_nodeOk_empty_value {t t' : Tag} {r : Bool} : ¬ NodeOk vv (.field t r) (.plain t' "") := by
  intro hok; cases hok with | field h1 _ => exact h1 rfl

theorem not_nodeOk_class_value {mem : Member} {t : Tag} {k : ClsKind} : ¬ NodeOk vv mem (.cls t k) := by
  intro hok; cases hok

theorem not_nodeOk_plain_as_group {t t' : Tag} {r : Bool} {items : List (List Node)} :
    ¬ NodeOk vv (.field t r) (.group t' items) := by
  intro hok; cases hok

theorem not_nodeOk_group_as_plain {t t' : Tag} {r : Bool} {gm : List Member} {s : String} :
    ¬ NodeOk vv (.group t r gm) (.plain t' s) := by
  intro hok; cases hok

/-! ## 4. single-fault rejection inside group items, at every nesting depth -/

/-- every item of every group, however deeply nested, of an accepted message is `ItemOk` -/
theorem validate_ok_items (hwf : schemaWF sch = true) {ms : List Member}
    (hms : (m.msgType, ms) ∈ sch.messages) (hok : validate vv sch m = .ok)
    {gm : List Member} {it : List Node}
    (hin : ItemIn (sch.header ++ sch.trailer ++ ms) (m.tags.filter (fun n => n.tag ≠ "10")) gm it) :
    ItemOk vv gm it := by
  have h := (allowed_members hwf hms ((validate_iff_allowed hwf).mp hok)).2.2
  refine itemOk_of_itemIn hin ((schemaWF_WF hwf).members _ hms) ?_
  intro n hn
  obtain ⟨hn1, hn2⟩ := List.mem_filter.mp hn
  exact (h n hn1 (by simpa using hn2)).2

/-- a faulty item anywhere in the message makes the whole message rejected -/
theorem reject_bad_item (hwf : schemaWF sch = true) {ms : List Member}
    (hms : (m.msgType, ms) ∈ sch.messages) {gm : List Member} {it : List Node}
    (hin : ItemIn (sch.header ++ sch.trailer ++ ms) (m.tags.filter (fun n => n.tag ≠ "10")) gm it)
    (hbad : ¬ ItemOk vv gm it) : validate vv sch m = .raised .msgError := by
  rcases validate_ok_or_msgError (vv := vv) (sch := sch) (m := m) with h | h
  · exact absurd (validate_ok_items hwf hms h hin) hbad
  · exact h

/-- foreign member (known or unknown to the dictionary) in a group item -/
theorem not_itemOk_foreign {gm : List Member} {it : List Node} {n : Node} (hn : n ∈ it)
    (hf : n.tag ∉ memberTags gm) : ¬ ItemOk vv gm it := by
  intro h; cases h with | mk h1 _ _ _ _ => exact hf (h1 n hn)

/-- members out of dictionary order: some node precedes a node of a strictly earlier member -/
theorem not_itemOk_order {gm : List Member} {pre mid post : List Node} {a b : Node}
    (hlt : idxOf gm b.tag < idxOf gm a.tag) : ¬ ItemOk vv gm (pre ++ a :: mid ++ b :: post) := by
  intro h
  cases h with
  | mk _ _ h3 _ _ =>
    have h3' : (pre ++ (a :: (mid ++ b :: post))).Pairwise
        (fun a b => idxOf gm a.tag ≤ idxOf gm b.tag) := by simpa using h3
    have := (List.pairwise_cons.mp (List.pairwise_append.mp h3').2.1).1 b (by simp)
    omega

/-- the group's first member is missing from the item -/
theorem not_itemOk_first_missing {m0 : Member} {rest : List Member} {it : List Node}
    (habs : m0.tag ∉ nodeTags it) : ¬ ItemOk vv (m0 :: rest) it := by
  intro h
  cases h with
  | mk _ _ _ h4 _ =>
    obtain ⟨m0', rest', e, hmem⟩ := h4
    cases e; exact habs hmem

/-- an item of a group without members can never be valid -/
theorem not_itemOk_no_members {it : List Node} : ¬ ItemOk vv [] it := by
  intro h; cases h with | mk _ _ _ h4 _ => obtain ⟨_, _, e, _⟩ := h4; cases e

/-- a required member (field or nested group) is missing from the item -/
theorem not_itemOk_required_missing {gm : List Member} {it : List Node} {mem : Member}
    (hmem : mem ∈ gm) (hreq : mem.req = true) (habs : mem.tag ∉ nodeTags it) : ¬ ItemOk vv gm it := by
  intro h; cases h with | mk _ _ _ _ h5 => exact habs (h5 mem hmem hreq)

/-- a node of the item that is not an acceptable instance of its member (invalid / empty /
    non-string value, plain ↔ group confusion, or a faulty nested item) -/
theorem not_itemOk_bad_node {gm : List Member} {it : List Node} {n : Node} {mem : Member}
    (hn : n ∈ it) (hmem : mem ∈ gm) (ht : mem.tag = n.tag) (hbad : ¬ NodeOk vv mem n) :
    ¬ ItemOk vv gm it := by
  intro h; cases h with | mk _ h2 _ _ _ => exact hbad (h2 n hn mem hmem ht)

/-! ## 5. non-vacuity: a small dictionary with a doubly nested group -/

def toy : Schema :=
  { fields := [⟨"8", "BeginString", "STRING", false⟩, ⟨"35", "MsgType", "STRING", true⟩,
               ⟨"10", "CheckSum", "STRING", false⟩, ⟨"93", "SignatureLength", "LENGTH", false⟩,
               ⟨"11", "ClOrdID", "STRING", false⟩, ⟨"55", "Symbol", "STRING", false⟩,
               ⟨"453", "NoPartyIDs", "NUMINGROUP", false⟩, ⟨"448", "PartyID", "STRING", false⟩,
               ⟨"452", "PartyRole", "INT", true⟩, ⟨"802", "NoPartySubIDs", "NUMINGROUP", false⟩,
               ⟨"523", "PartySubID", "STRING", false⟩, ⟨"803", "PartySubIDType", "INT", false⟩,
               ⟨"58", "Text", "STRING", false⟩]
    header := [.field "8" true, .field "35" true]
    trailer := [.field "93" false, .field "10" true]
    messages := [("D", [.field "11" true, .field "55" false,
                        .group "453" true [.field "448" false, .field "452" true,
                                           .group "802" false [.field "523" false, .field "803" true]]]),
                 ("0", [.field "58" false])] }

/-- every non-empty value is valid except the literal `"bad"` -/
def vvToy : Tag → String → Bool := fun _ s => s != "bad"

def good : Msg :=
  ⟨"D", [.plain "8" "FIX.4.4", .plain "35" "D", .plain "11" "c1",
         .group "453" [[.plain "448" "p", .plain "452" "1",
                        .group "802" [[.plain "523" "s", .plain "803" "4"], [.plain "523" "t", .plain "803" "5"]]],
                       [.plain "448" "q", .plain "452" "3"]],
         .plain "93" "3", .plain "10" "123"]⟩

example : schemaWF toy = true := by decide
example : validate vvToy toy good = .ok := by decide
example : Allowed vvToy toy good := (validate_iff_allowed (by decide)).mp (by decide)

/-- depth-2 fault (nested item without the nested group's first member … here: wrong order) -/
def badDeep : Msg :=
  ⟨"D", [.plain "11" "c1",
         .group "453" [[.plain "452" "1", .group "802" [[.plain "803" "4", .plain "523" "s"]]]]]⟩

example : validate vvToy toy badDeep = .raised .msgError := by decide
example : ¬ Allowed vvToy toy badDeep := fun h =>
  absurd ((validate_iff_allowed (by decide)).mpr h) (by decide)

end AsyncFix.Props.C15
