/-
C02 — every frame put on the wire is a well-formed FIX frame.

`RefFrame` is the spec, written without reference to the encoder (the Python oracle
`harness/codec_common.ref_parse` is the same definition as a parser).  The theorems say that every
successful result of the model encoder – and hence, after the latin-1 step of `send_msg`, every
byte string handed to the transport – satisfies it, for every message, session and clock value;
and that text outside latin-1 is refused.
-/
import AsyncFix.Model.Codec.Encode
import AsyncFix.Model.Codec.Frame
namespace AsyncFix.Props.C02
open AsyncFix.Model.Codec

/-- `8=<bs>|9=<n>|<body>10=<ddd>|` with `body` starting with `35=`, ending with SOH, `n` bytes long,
`ddd` = exactly three digits = sum of all preceding bytes mod 256. -/
def RefFrame (f : Bytes) : Prop :=
  ∃ (bs body : Bytes) (ck : Nat),
    f = ([56, 61] ++ bs ++ [SOH]) ++ ([57, 61] ++ natToDec body.length ++ [SOH]) ++ body
          ++ ([49, 48, 61] ++ dec3 ck ++ [SOH]) ∧
    SOH ∉ bs ∧
    [51, 53, 61] <+: body ∧ body.getLast? = some SOH ∧
    ck = sum (([56, 61] ++ bs ++ [SOH]) ++ ([57, 61] ++ natToDec body.length ++ [SOH]) ++ body) % 256 ∧
    (dec3 ck).length = 3 ∧ (∀ d ∈ dec3 ck, isDigit d = true)

theorem natToDec_digits (n : Nat) : ∀ d ∈ natToDec n, isDigit d = true := by
  induction n using Nat.strongRecOn with
  | _ n ih =>
    unfold natToDec
    split
    · intro d hd
      simp only [List.mem_singleton] at hd
      subst hd; simp [isDigit]; omega
    · intro d hd
      simp only [List.mem_append, List.mem_singleton] at hd
      rcases hd with hd | hd
      · exact ih (n / 10) (by omega) d hd
      · subst hd; simp [isDigit]; omega

theorem natToDec_length_lt (n : Nat) (h : n < 1000) :
    (natToDec n).length = if n < 10 then 1 else if n < 100 then 2 else 3 := by
  unfold natToDec
  by_cases h1 : n < 10
  · simp [h1]
  · simp only [h1, if_false, List.length_append, List.length_singleton]
    unfold natToDec
    by_cases h2 : n / 10 < 10
    · have : n < 100 := by omega
      simp [h2, this]
    · have h3 : ¬ n < 100 := by omega
      simp only [h2, if_false, List.length_append, List.length_singleton, h3]
      unfold natToDec
      have : n / 10 / 10 < 10 := by omega
      simp [this]

theorem dec3_length (n : Nat) (h : n < 1000) : (dec3 n).length = 3 := by
  unfold dec3
  simp only [List.length_append, List.length_replicate, natToDec_length_lt n h]
  split
  · omega
  · split <;> omega

theorem dec3_digits (n : Nat) : ∀ d ∈ dec3 n, isDigit d = true := by
  intro d hd
  unfold dec3 at hd
  simp only [List.mem_append, List.mem_replicate] at hd
  rcases hd with ⟨_, rfl⟩ | hd
  · simp [isDigit]
  · exact natToDec_digits n d hd

theorem join3 (a b c : Bytes) : join SOH [a, b, c] = a ++ SOH :: (b ++ SOH :: c) := rfl

/-- Everything `assemble` returns is a `RefFrame` (given a BeginString without SOH). -/
theorem assemble_refframe (bs : Bytes) (m : Msg) (s : Session) (seq now f : Bytes)
    (hbs : SOH ∉ bs) (h : assemble bs m s seq now = .ok f) : RefFrame f := by
  unfold assemble at h
  simp only [bind, Except.bind, pure, Except.pure] at h
  split at h
  · cases h
  · rename_i rest _
    simp only [Except.ok.injEq] at h
    generalize hB : join SOH ([field tag49 s.sender, field tag56 s.target, field tag34 seq,
      field tag52 now] ++ rest) ++ [SOH] = B at h
    have hBlast : B.getLast? = some SOH := by rw [← hB]; simp
    refine ⟨bs, field tag35e m.mtype ++ [SOH] ++ B, _, ?_, hbs, ?_, ?_, rfl, ?_, dec3_digits _⟩
    · rw [← h, join3]
      have hl : (field tag35e m.mtype ++ [SOH] ++ B).length = B.length + (field tag35e m.mtype).length + 1 := by
        simp only [List.length_append, List.length_singleton]; omega
      rw [hl]
      simp only [field, EQS, SOH, List.append_assoc, List.cons_append, List.nil_append,
        List.singleton_append]
    · simp [field, tag35e, EQS]
    · simp only [List.append_assoc, List.singleton_append]
      rw [List.getLast?_append, List.getLast?_cons]
      cases B with
      | nil => simp at hBlast
      | cons x xs => simp [hBlast]
    · exact dec3_length _ (by omega)

/-- **C02, encoder part**: every string the encoder produces is a well-formed FIX frame. -/
theorem encode_refframe (bs : Bytes) (m : Msg) (s : Session) (rawSeq : Bool) (now f : Bytes)
    (hbs : SOH ∉ bs) (h : (encode bs m s rawSeq now).1 = .ok f) : RefFrame f := by
  unfold encode at h
  split at h
  · cases h
  · exact assemble_refframe bs m _ _ now f hbs h

/-- `send_msg`'s `.encode("latin-1")`: identity on code points when all are < 256 … -/
theorem toWire_ok (f w : Bytes) (h : toWire f = .ok w) : w = f ∧ ∀ c ∈ f, c < 256 := by
  unfold toWire at h
  split at h
  · rename_i hall
    simp only [Except.ok.injEq] at h
    exact ⟨h.symm, by simpa using hall⟩
  · cases h

/-- … and a refusal (`UnicodeEncodeError`, turned into `EncodingError` by `send_msg`) otherwise:
a message that cannot be represented is never transmitted. -/
theorem unrepresentable_refused (f : Bytes) (c : Nat) (hc : c ∈ f) (h256 : 256 ≤ c) :
    toWire f = .error .unicodeEncode := by
  unfold toWire
  have : ¬ (f.all (· < 256)) = true := by
    intro hall
    simp only [List.all_eq_true, decide_eq_true_eq] at hall
    have := hall c hc
    omega
  simp [this]

/-- **C02, transport part**: the bytes handed to the transport for an encoded message. -/
theorem wire_refframe (bs : Bytes) (m : Msg) (s : Session) (rawSeq : Bool) (now f w : Bytes)
    (hbs : SOH ∉ bs) (h : (encode bs m s rawSeq now).1 = .ok f) (hw : toWire f = .ok w) :
    RefFrame w ∧ ∀ b ∈ w, b < 256 := by
  obtain ⟨rfl, hlt⟩ := toWire_ok f w hw
  exact ⟨encode_refframe bs m s rawSeq now _ hbs h, hlt⟩

/-- **C02, `send_msg` part**: whatever `send_msg` hands to the transport for a message is a
well-formed frame of single bytes … -/
theorem encodeWire_refframe (bs : Bytes) (m : Msg) (s : Session) (now w : Bytes) (hbs : SOH ∉ bs)
    (h : (encodeWire bs m s now).1 = .ok w) : RefFrame w ∧ ∀ b ∈ w, b < 256 := by
  unfold encodeWire at h
  split at h
  · rename_i f s' he
    split at h
    · rename_i w' hw
      simp only [Except.ok.injEq] at h
      subst h
      exact wire_refframe bs m s false now f _ hbs (by rw [he]) hw
    · cases h
  · cases h

/-- … and a message that is not representable in single bytes is refused with `EncodingError`,
the sequence number it had been given is handed back (session unchanged). -/
theorem encodeWire_refused_unchanged (bs : Bytes) (m : Msg) (s : Session) (now f : Bytes)
    (he : (encode bs m s false now).1 = .ok f) (c : Nat) (hc : c ∈ f) (h256 : 256 ≤ c) :
    (encodeWire bs m s now).1 = .error .encodingError ∧ (encodeWire bs m s now).2.nextOut = s.nextOut := by
  unfold encodeWire
  split
  · rename_i f' s' he'
    have : f' = f := by rw [he'] at he; simpa using he
    subst this
    rw [unrepresentable_refused f' c hc h256]
    simp
  · rename_i k s' he'
    rw [he'] at he; cases he

/-- the session of `encode` only ever changes by consuming exactly one number -/
theorem encode_session (bs : Bytes) (m : Msg) (s : Session) (rawSeq : Bool) (now : Bytes) :
    (encode bs m s rawSeq now).2 = s ∨
    (encode bs m s rawSeq now).2 = { s with nextOut := s.nextOut + 1 } := by
  unfold encode
  split
  · left; rfl
  · rename_i seq s' hsel
    simp only
    unfold selectSeq at hsel
    simp only [bind, Except.bind, pure, Except.pure, throw, throwThe, MonadExceptOf.throw] at hsel
    repeat' (split at hsel)
    all_goals (try cases hsel)
    all_goals simp

/-- non-vacuity: a concrete message (`35=D|55=A`, session S→T, next number 7) does encode -/
example : ∃ f, (encode [70, 73, 88, 46, 52, 46, 52] ⟨[68], [.leaf [53, 53] [65]]⟩ ⟨[83], [84], 7⟩ false [50, 48]).1
    = .ok f := ⟨_, rfl⟩

end AsyncFix.Props.C02
