/-
C04 — inbound application messages are delivered in order, once, never past a gap.

All theorems are about the session model `AsyncFix.Session` (Model/Session*.lean, which mirrors
asyncfix/connection.py branch for branch and is compared with the real connection step by step by
harness/c04.py) and are symbolic in every counter, the clock, the `should_replay` filter, the frame
and the whole connection state.

Vocabulary (Lemmas/SessionInCore.lean, SessionInMsg.lean, SessionInHist.lean, SessionInGap.lean):
* `seqOf m` / `newSeqOf m` – MsgSeqNum(34) / NewSeqNo(36) as Python's `int()` reads them;
* `isApp m` – "application message": `m.mtype` is none of the types the dispatch of
  `_process_message` handles itself (ResendRequest, SequenceReset, Logon, TestRequest, Heartbeat);
  only such a frame can reach `on_message` (a Logout never does: it disconnects first);
* `deliveries es` – the messages handed to `on_message` in the effect list `es`, in order;
* `HonouredTo c m k` – `m` is a SequenceReset the receiver acts on, moving the expectation to its
  NewSeqNo `k`: Reset mode – always; GapFill mode – only if its own MsgSeqNum is the expected number
  and `k` is beyond it;
* `backwardReset c m` – the excluded class of the `_partial` theorems (known finding D6).
-/
import AsyncFix.Lemmas.SessionInHist
import AsyncFix.Lemmas.SessionInGap
import AsyncFix.Lemmas.SessionInAwaitMsg
namespace AsyncFix.Props.C04
open AsyncFix.Session AsyncFix.Generated AsyncFix.Generated.ConnEnum

/-! ## 1. `on_message` only for the expected number -/

/-- If `on_message(m')` is called while frame `m` is processed then `m'` is `m` itself, `m` is an
application message (no session-level type, not a Logout), its MsgSeqNum is exactly the number that
was expected BEFORE the frame, a Logon has been received on this connection (state past
LOGON_INITIAL_SENT), it is the only delivery of the step and the expectation has advanced by one. -/
theorem deliver_only_expected (sr : Msg → Bool) (env : Env) (c : Conn) (m m' : Msg)
    (h : Effect.deliver m' ∈ (recv sr env c m).2) :
    m' = m ∧ seqOf m = some c.sess.nextIn ∧ isApp m = true ∧ m.mtype ≠ mLogout ∧
    st_LOGON_INITIAL_RECV ≤ c.state ∧
    deliveries (recv sr env c m).2 = [m] ∧ (recv sr env c m).1.sess.nextIn = c.sess.nextIn + 1 := by
  have hm := mem_deliveries.2 h
  obtain ⟨hd, -⟩ := recv_msgOk sr env c m
  rcases hd with hd | ⟨hd, hs, happ, hlo, hst, hk⟩
  · rw [hd] at hm; cases hm
  · rw [hd] at hm
    exact ⟨by simpa using hm, hs, happ, hlo, hst, hd, hk⟩

/-- a SequenceReset (either mode) is never handed to the application -/
theorem seqreset_never_delivered (sr : Msg → Bool) (env : Env) (c : Conn) (m m' : Msg)
    (hm : m.mtype = mSequenceReset) : Effect.deliver m' ∉ (recv sr env c m).2 := by
  intro h
  have := (deliver_only_expected sr env c m m' h).2.2.1
  simp [isApp, sessionTypes, hm] at this

/-- at most one `on_message` call per frame -/
theorem deliver_at_most_once (sr : Msg → Bool) (env : Env) (c : Conn) (m : Msg) :
    deliveries (recv sr env c m).2 = [] ∨ deliveries (recv sr env c m).2 = [m] := by
  obtain ⟨hd, -⟩ := recv_msgOk sr env c m
  rcases hd with hd | ⟨hd, -⟩
  · exact Or.inl hd
  · exact Or.inr hd

/-! ## 2. how the expected number moves -/

/-- After one frame the expected number is unchanged, or one higher (then the frame is not a
SequenceReset and carried exactly the expected number), or the NewSeqNo of an honoured SequenceReset
(`HonouredTo`: Reset mode – any NewSeqNo, also a lower one; GapFill mode – only when the GapFill's own
MsgSeqNum is the expected number and NewSeqNo is beyond it). -/
theorem nextIn_moves (sr : Msg → Bool) (env : Env) (c : Conn) (m : Msg) :
    Moves c m (recv sr env c m).1.sess.nextIn :=
  (recv_msgOk sr env c m).2

/-- Full statement: the expected number never goes back. -/
def nextIn_forward_full : Prop :=
  ∀ (sr : Msg → Bool) (env : Env) (c : Conn) (m : Msg), c.sess.nextIn ≤ (recv sr env c m).1.sess.nextIn

/-- Proved part.  Excluded: `backwardReset c m` – a Reset-mode SequenceReset whose NewSeqNo is below
the expected number (known finding C04-backward-reset-moves-counter-back, pinned by
test_sequence_reset_request__incoming_seq_num_toolow_ignored; `Findings/C04.lean` refutes the full
statement). -/
theorem nextIn_forward_partial (sr : Msg → Bool) (env : Env) (c : Conn) (m : Msg)
    (hb : backwardReset c m = false) : c.sess.nextIn ≤ (recv sr env c m).1.sess.nextIn :=
  moves_forward (nextIn_moves sr env c m) hb

/-- a GapFill never moves the expectation unless it is numbered as expected, and then only forward -/
theorem gapfill_moves (sr : Msg → Bool) (env : Env) (c : Conn) (m : Msg)
    (hm : m.mtype = mSequenceReset) (hg : isGapFill m = true) :
    (recv sr env c m).1.sess.nextIn = c.sess.nextIn ∨
    (seqOf m = some c.sess.nextIn ∧ newSeqOf m = some (recv sr env c m).1.sess.nextIn ∧
      c.sess.nextIn < (recv sr env c m).1.sess.nextIn) := by
  rcases nextIn_moves sr env c m with h | ⟨h, -⟩ | ⟨-, n, hn, hk, hgf⟩
  · exact Or.inl h
  · exact absurd hm h
  · obtain ⟨rfl, hlt⟩ := hgf hg
    exact Or.inr ⟨hn, hk, hlt⟩

/-! ## 3. a number above the expectation -/

/-- Frame `m` passes `_validate_integrity`, carries number `n` above the expectation, is no Logon /
Logout / Reset-mode SequenceReset (a GapFill is allowed), a Logon has been received, the state is not
RESENDREQ_AWAITING and the ResendRequest can be sent (`CanSend`).  Then the effects START with exactly
one ResendRequest(BeginSeqNo = expected, EndSeqNo = 0) and the state change to RESENDREQ_AWAITING with
watermark `n`; whatever the dispatch of a session-level message adds afterwards (`rest`) delivers
nothing and leaves the expected number alone; for an application message or a GapFill there is nothing
else and the new connection is exactly `gapConn`. -/
theorem gap_one_resend (sr : Msg → Bool) (env : Env) (c : Conn) (m : Msg) (n : Int) (j : Journal)
    (hgood : (validateIntegrity m c).res = .ok .good)
    (hst : st_LOGON_INITIAL_RECV ≤ c.state) (hna : c.state ≠ st_RESENDREQ_AWAITING)
    (hs : seqOf m = some n) (hn : c.sess.nextIn < n)
    (hA : m.mtype ≠ mLogon) (h5 : m.mtype ≠ mLogout)
    (h4 : m.mtype = mSequenceReset → isGapFill m = true) (hsend : CanSend env c j) :
    ∃ rest, (recv sr env c m).2 = .write (rrFrame env c) :: .onState st_RESENDREQ_AWAITING :: rest ∧
      deliveries (recv sr env c m).2 = [] ∧
      (recv sr env c m).1.sess.nextIn = c.sess.nextIn ∧
      ((isApp m = true ∨ m.mtype = mSequenceReset) →
        rest = [] ∧ (recv sr env c m).1 = gapConn c n j) := by
  have := (processMessage_gap env sr m c n j hgood hst hna hs hn hA h5 h4 hsend).elim
  obtain ⟨rest, he, hq, hx⟩ := this
  unfold recv M.run
  rcases hp : processMessage env sr m c with ⟨r, c1, e1⟩
  rw [hp] at he hq hx
  simp only at he hq hx
  cases r with
  | ok a =>
    refine ⟨rest, by simp [he, gapEffects], by simp [he, gapEffects, deliveries, hq.2], by simpa [gapConn] using hq.1, ?_⟩
    intro h
    obtain ⟨-, h2, h3⟩ := hx h
    exact ⟨h3, h2⟩
  | error ex =>
    refine ⟨rest ++ [.raised ex], by simp [he, gapEffects], by simp [he, gapEffects, deliveries, hq.2],
      by simpa [gapConn] using hq.1, ?_⟩
    intro h
    obtain ⟨h1, -⟩ := hx h
    cases h1

/-- the frame written on a gap is a ResendRequest from the expected number to "everything" -/
theorem rrFrame_fields (env : Env) (c : Conn) :
    (rrFrame env c).mtype = mResendRequest ∧
    (rrFrame env c).get? tBeginSeqNo = some (pyStr c.sess.nextIn) ∧
    (rrFrame env c).get? tEndSeqNo = some "0" ∧
    (rrFrame env c).get? tMsgSeqNum = some (pyStr c.sess.nextOut) := by
  simp [rrFrame, rrMsg, buildFrame, bodyFields, Msg.mk', Msg.get?, Msg.lookup, tBeginSeqNo, tEndSeqNo,
    tMsgSeqNum, tBeginString, tBodyLength, tMsgType, tSenderCompID, tTargetCompID, tSendingTime, tCheckSum]

/-- while RESENDREQ_AWAITING `_check_seqnum_gaps` – the only place that builds a ResendRequest – sends
nothing and changes nothing, whatever the number -/
theorem awaiting_gapcheck_silent (env : Env) (n : Int) (c : Conn) (h : c.state = st_RESENDREQ_AWAITING) :
    (checkSeqnumGaps env n c).conn = c ∧ (checkSeqnumGaps env n c).eff = [] :=
  ((checkSeqnumGaps_spec env n c).elim).2 (Or.inr h)

/-- While RESENDREQ_AWAITING no inbound frame (any type but a Logon, any number, any flags) makes the
receiver write a ResendRequest, and afterwards the connection is still RESENDREQ_AWAITING, or
disconnected, or ACTIVE – the latter only through `_finalize_message` with the watermark reached:
the watermark was positive, is cleared, and the expected number is now beyond it.
(`journalWf`: outbound journal rows are as the encoder wrote them – needed only when the frame is
itself a ResendRequest, whose servicing replays journal rows under their own message type.) -/
theorem awaiting_no_second_resend (sr : Msg → Bool) (env : Env) (c : Conn) (m : Msg)
    (h12 : c.state = st_RESENDREQ_AWAITING) (hA : m.mtype ≠ mLogon)
    (hwf : m.mtype = mResendRequest → journalWf c) :
    (∀ f, Effect.write f ∈ (recv sr env c m).2 → f.mtype ≠ mResendRequest) ∧
    ((recv sr env c m).1.state = st_RESENDREQ_AWAITING ∨
     (recv sr env c m).1.state ≤ st_DISCONNECTED_BROKEN_CONN ∨
     ((recv sr env c m).1.state = st_ACTIVE ∧ (recv sr env c m).1.maxResend = 0 ∧
       0 < c.maxResend ∧ c.maxResend ≤ (recv sr env c m).1.sess.nextIn - 1)) := by
  have := (processMessage_aw12 env sr m c h12 hA hwf).elim
  unfold recv M.run
  rcases hp : processMessage env sr m c with ⟨r, c1, e1⟩
  rw [hp] at this
  obtain ⟨hn, hs⟩ := this
  cases r with
  | ok a => exact ⟨hn, hs⟩
  | error ex =>
    refine ⟨fun f hf => ?_, hs⟩
    rcases List.mem_append.1 hf with h | h
    · exact hn f h
    · simp at h

/-- RESENDREQ_AWAITING is left for ACTIVE exactly when `_finalize_message` sees a (positive) number
that has reached the (positive) watermark; `acceptedNum` is the number it sees: the frame's MsgSeqNum
when that is the expected one, NewSeqNo − 1 for a SequenceReset.  Otherwise the state stays. -/
theorem awaiting_left_exactly (env : Env) (c : Conn) (m : Msg) (h12 : c.state = st_RESENDREQ_AWAITING) :
    ((finalizeMessage env m c).conn.state = st_ACTIVE ↔
      ∃ k, acceptedNum c m = some k ∧ 0 < k ∧ c.maxResend ≤ k ∧ 0 < c.maxResend) ∧
    ((finalizeMessage env m c).conn.state = st_ACTIVE ∨
     (finalizeMessage env m c).conn.state = st_RESENDREQ_AWAITING) :=
  (finalizeMessage_awaiting env m c h12).elim

/-! ## 4. histories -/

/-- Full statement: along EVERY history of events (frames from an arbitrary peer interleaved with
sends, timer ticks, disconnects, reconnects; only the application's own `reset_seq_num()` excluded)
the delivered MsgSeqNums are strictly increasing. -/
def delivered_strictly_increasing_full : Prop :=
  ∀ (sr : Msg → Bool) (c : Conn) (hist : List Event),
    (hist.all fun ev => match ev with | .resetSeq => false | _ => true) = true →
    ∃ ns : List Int, deliveredNums (run sr c hist).2 = ns.map some ∧ ns.Pairwise (· < ·)

/-- Proved part: histories without a backward Reset-mode SequenceReset (`noBackward`, a decidable
condition evaluated along the run; finding C04-backward-reset-moves-counter-back).  Every delivered
message has a proper MsgSeqNum; the numbers are strictly increasing (so nothing is delivered twice and
nothing after a higher number), each is at least the initial expectation and below the final one, and
the expectation never went back. -/
theorem delivered_strictly_increasing_partial (sr : Msg → Bool) (c : Conn) (hist : List Event)
    (h : noBackward sr c hist = true) :
    c.sess.nextIn ≤ (run sr c hist).1.sess.nextIn ∧
    ∃ ns : List Int, deliveredNums (run sr c hist).2 = ns.map some ∧ ns.Pairwise (· < ·) ∧
      ∀ n ∈ ns, c.sess.nextIn ≤ n ∧ n < (run sr c hist).1.sess.nextIn :=
  run_ok sr hist c h

/-- one step of such a history: a delivered number is the expectation before the step, and the
expectation afterwards is past it (this is the induction step, stated for the oracle's per-event
clause) -/
theorem step_delivers_expected (sr : Msg → Bool) (c : Conn) (ev : Event) (h : okEvent c ev = true) :
    c.sess.nextIn ≤ (step sr c ev).1.sess.nextIn ∧
    (deliveries (step sr c ev).2 = [] ∨
      ∃ m, deliveries (step sr c ev).2 = [m] ∧ seqOf m = some c.sess.nextIn ∧
        (step sr c ev).1.sess.nextIn = c.sess.nextIn + 1) :=
  step_ok sr c ev h

/-! ## non-vacuity: concrete states and frames satisfy the hypotheses and show the effects -/
namespace Witness

def env0 : Env := { now := 1700000000000, stamp := "20240102-00:00:01.000" }

/-- an ACTIVE initiator expecting inbound number 5 -/
def active : Conn :=
  { state := st_ACTIVE, role := roleInitiator, wasActive := true, sock := true,
    sess := { sender := "S", target := "T", nextIn := 5, nextOut := 9 } }

def frame (mtype n : String) (extra : List (Nat × String)) : Msg :=
  Msg.ofFields ([(8, "FIX.4.4"), (9, "50"), (35, mtype), (49, "T"), (56, "S"), (34, n), (52, "t")]
    ++ extra ++ [(10, "000")])

def app (n : String) : Msg := frame "D" n [(58, "hi")]
def reset (n nw : String) : Msg := frame "4" n [(36, nw)]
def gapFill (n nw : String) : Msg := frame "4" n [(123, "Y"), (36, nw)]
def dup (n : String) : Msg := frame "D" n [(43, "Y"), (58, "hi")]
def all : Msg → Bool := fun _ => true

-- 1: an in-sequence application frame in ACTIVE is delivered, exactly once, and the counter advances
example : (recv all env0 active (app "5")).2 = [.deliver (app "5")] := by decide +kernel
example : (recv all env0 active (app "5")).1.sess.nextIn = 6 := by decide +kernel
-- below / above the expectation: nothing is delivered
example : deliveries (recv all env0 active (app "4")).2 = [] := by decide +kernel
example : deliveries (recv all env0 active (app "7")).2 = [] := by decide +kernel
-- 2: an honoured GapFill moves to NewSeqNo; one numbered too high / not forward does not
example : (recv all env0 active (gapFill "5" "9")).1.sess.nextIn = 9 := by decide +kernel
example : (recv all env0 active (gapFill "7" "9")).1.sess.nextIn = 5 := by decide +kernel
example : (recv all env0 active (gapFill "5" "5")).1.sess.nextIn = 5 := by decide +kernel
example : backwardReset active (reset "5" "9") = false ∧ backwardReset active (reset "5" "3") = true := by
  decide +kernel
-- 3: the hypotheses of `gap_one_resend` hold for an application frame and a GapFill numbered 7
def gapJournal : Journal := { out := [(9, rrFrame env0 active)], outSeq := 9 }
example : (validateIntegrity (app "7") active).res = .ok .good := by rfl
example : CanSend env0 active gapJournal := ⟨rfl, by decide +kernel, by decide +kernel⟩
example : (recv all env0 active (app "7")).2 = [.write (rrFrame env0 active), .onState st_RESENDREQ_AWAITING] ∧
    (recv all env0 active (app "7")).1 = gapConn active 7 gapJournal := by decide +kernel
example : (recv all env0 active (gapFill "7" "9")).2 =
    [.write (rrFrame env0 active), .onState st_RESENDREQ_AWAITING] := by decide +kernel
-- … and the gap is closed (state back to ACTIVE) exactly by the frame that reaches the watermark
example : (run all active [.recv env0 (app "7"), .recv env0 (app "5"), .recv env0 (app "6")]).1.state
    = st_RESENDREQ_AWAITING := by decide +kernel
example : (run all active [.recv env0 (app "7"), .recv env0 (app "5"), .recv env0 (app "6"),
    .recv env0 (app "7")]).1.state = st_ACTIVE := by decide +kernel
-- the journal rows of the witness states are well-formed (vacuously here; the harness states carry encoder-made rows)
example : journalWf active := by intro p hp; cases hp
example : acceptedNum { active with state := st_RESENDREQ_AWAITING, maxResend := 5 } (app "5") = some 5 := by
  decide +kernel
-- 4: a history with a gap, a PossDup duplicate, a forward reset: hypothesis holds, numbers 5 6 7 20 delivered
def hist : List Event :=
  [.recv env0 (app "7"), .recv env0 (app "5"), .recv env0 (dup "5"), .recv env0 (app "6"), .tick env0,
   .recv env0 (app "7"), .recv env0 (reset "8" "20"), .recv env0 (app "20")]
example : noBackward all active hist = true := by decide +kernel
example : deliveredNums (run all active hist).2 = [some 5, some 6, some 7, some 20] := by decide +kernel

end Witness

end AsyncFix.Props.C04
