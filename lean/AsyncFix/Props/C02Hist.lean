import AsyncFix.Lemmas.BridgeFrame
import AsyncFix.Lemmas.BridgeTrace

/-!
C02, history part — every byte string a connection hands to its transport during an arbitrary
session history (logon, heartbeats, test requests, resend replays, gap fills, logout, …) is a
well-formed FIX frame of single bytes.

The session model (`AsyncFix.Session`) records a transport write as `Effect.write f` with `f` the
abstract field list of the frame; the codec model (`AsyncFix.Model.Codec`) produces byte strings.
`AsyncFix.Bridge.render` is the bridge: the wire bytes of a field list.

* `render_buildFrame` – the session model's frame, rendered, IS the codec's `mkFrame`;
* `render_buildFrame_assemble` / `render_buildFrame_encode` – … and IS what the codec's encoder
  returns for the corresponding codec message (`toCodec`) and session (`toCodecSession`);
* `write_effects_built` – in every history every `write` is `buildFrame …` that passed latin-1;
* `write_effects_refframe` – hence its bytes are a `RefFrame` (Props/C02) and all `< 256`;
* `write_effects_codec` – … and are the output of the codec model's `assemble`.

`harness/bridge_check.py` ties `render` to the implementation: bytes at the real transport =
rendering of the model's write-effect frame.
-/
namespace AsyncFix.Props.C02Hist

open AsyncFix AsyncFix.Bridge AsyncFix.Generated
open AsyncFix.Model
open AsyncFix.Session (Conn Event Effect Env Msg buildFrame frameLatin1 run)

/-- **Bridge, frame level.**  For every session, clock text, message (plain tags – the session model
has no groups) and number, the wire bytes of the session model's frame are the codec's `mkFrame` of
the protocol's BeginString and the wire fields `sessFlds` = `35, 49, 56, 34, 52`, then the message's
tags except 34 / 52 / 49 / 56. -/
theorem render_buildFrame (s : Session.Session) (stamp : String) (m : Msg) (seq : Int) :
    render (buildFrame s stamp m seq) = Codec.mkFrame Proto.beginStringBytes (sessFlds s stamp m seq) :=
  Bridge.render_buildFrame s stamp m seq

/-- the session model's tag filter is the codec's (`bodyOf`, i.e. `skipTags` = 34/52/49/56) -/
theorem bodyOf_toCodec (m : Msg) :
    Codec.bodyOf (toCodec m) = (m.tags.filter fun p => keepTag p.1).map toLeaf :=
  Bridge.bodyOf_toCodec m

/-- **Bridge, encoder level.**  The codec model's `assemble` on the corresponding codec message /
session with the same number and clock text succeeds and returns exactly those bytes: the two models
produce the same frame. -/
theorem render_buildFrame_assemble (s : Session.Session) (stamp : String) (m : Msg) (seq : Int) :
    Codec.assemble Proto.beginStringBytes (toCodec m) (toCodecSession s) (Codec.intToDec seq) (cps stamp) =
      .ok (render (buildFrame s stamp m seq)) :=
  Bridge.render_buildFrame_assemble s stamp m seq

/-- … and so does the whole `Codec.encode` for a message that is given a fresh number (not a
SequenceReset, no PossDupFlag=Y): same bytes, same counter afterwards. -/
theorem render_buildFrame_encode (s : Session.Session) (stamp : String) (m : Msg)
    (hm : m.mtype ≠ Session.mSequenceReset) (hpd : m.get? Session.tPossDupFlag ≠ some "Y") :
    Codec.encode Proto.beginStringBytes (toCodec m) (toCodecSession s) false (cps stamp) =
      (.ok (render (buildFrame { s with nextOut := s.nextOut + 1 } stamp m s.nextOut)),
       toCodecSession { s with nextOut := s.nextOut + 1 }) :=
  Bridge.render_buildFrame_encode s stamp m hm hpd

/-- **every transport write of every history is an encoder result that passed latin-1**:
for every `should_replay` predicate, start connection and event history, a `write f` effect has
`f = buildFrame s stamp m seq` for some session / clock text / message / number, and
`frameLatin1 f`. -/
theorem write_effects_built (sr : Msg → Bool) (c : Conn) (evs : List Event) (f : Msg)
    (h : Effect.write f ∈ (run sr c evs).2) :
    (∃ (s : Session.Session) (stamp : String) (m : Msg) (seq : Int), f = buildFrame s stamp m seq) ∧
      frameLatin1 f = true :=
  Session.run_hist_W sr c evs _ h

/-- **C02 over histories.**  Every byte string a connection hands to its transport during an
arbitrary session history is a well-formed FIX frame (`RefFrame` of Props/C02: BeginString,
BodyLength = byte count of the body starting with `35=`, CheckSum = byte sum mod 256 as three
digits) and consists of single bytes. -/
theorem write_effects_refframe (sr : Msg → Bool) (c : Conn) (evs : List Event) (f : Msg)
    (h : Effect.write f ∈ (run sr c evs).2) :
    C02.RefFrame (render f) ∧ ∀ b ∈ render f, b < 256 := by
  obtain ⟨⟨s, stamp, m, seq, rfl⟩, hl⟩ := write_effects_built sr c evs f h
  exact ⟨buildFrame_refframe s stamp m seq, render_lt_256 _ hl⟩

/-- … and is an output of the codec model's encoder that its latin-1 step (`toWire`) lets through. -/
theorem write_effects_codec (sr : Msg → Bool) (c : Conn) (evs : List Event) (f : Msg)
    (h : Effect.write f ∈ (run sr c evs).2) :
    ∃ (s : Session.Session) (stamp : String) (m : Msg) (seq : Int),
      Codec.assemble Proto.beginStringBytes (toCodec m) (toCodecSession s) (Codec.intToDec seq) (cps stamp)
        = .ok (render f) ∧ Codec.toWire (render f) = .ok (render f) := by
  obtain ⟨⟨s, stamp, m, seq, rfl⟩, hl⟩ := write_effects_built sr c evs f h
  refine ⟨s, stamp, m, seq, Bridge.render_buildFrame_assemble s stamp m seq, ?_⟩
  have h256 := render_lt_256 _ hl
  unfold Codec.toWire
  rw [if_pos]
  simpa using h256

/-! ### non-vacuity -/

/-- the two generated BeginString constants agree -/
example : cps Proto.beginString = Proto.beginStringBytes := beginString_agree

/-- a concrete frame: `35=D|55=A` from S to T, number 7, clock text `20` – the message of the
non-vacuity example of Props/C02 – renders to `8=FIX.4.4|9=31|35=D|49=S|56=T|34=7|52=20|55=A|10=173|` -/
example : render (buildFrame { sender := "S", target := "T" } "20" ⟨"D", [(55, "A")]⟩ 7) =
    [56, 61, 70, 73, 88, 46, 52, 46, 52, 1, 57, 61, 51, 49, 1, 51, 53, 61, 68, 1, 52, 57, 61, 83, 1,
     53, 54, 61, 84, 1, 51, 52, 61, 55, 1, 53, 50, 61, 50, 48, 1, 53, 53, 61, 65, 1,
     49, 48, 61, 49, 55, 51, 1] := by rw [render_eq_renderC]; decide +kernel

/-- … which is `toCodec` of it, and the codec model's encoder gives the same bytes (`#eval` of the
example of Props/C02) -/
example : toCodec ⟨"D", [(55, "A")]⟩ = ⟨[68], [.leaf [53, 53] [65]]⟩ := by
  have h : Codec.natToDec 55 = [53, 53] := by simp [Codec.natToDec]
  have h1 : cps "D" = [68] := by decide +kernel
  have h2 : cps "A" = [65] := by decide +kernel
  simp only [toCodec, List.map_cons, List.map_nil, h, h1, h2]

def exConn : Conn := Session.Conn.create "INIT" "ACPT" {} 30 Session.roleInitiator
def exEnv : Env := { now := 1700000000000, stamp := "20240102-00:00:00.000" }
def exLogon : Msg := Msg.mk' Session.mLogon [(Session.tEncryptMethod, "0"), (Session.tHeartBtInt, "30")]
def exPeer (mtype : String) (seq : Int) (body : List (Nat × String)) : Msg :=
  Msg.ofFields ([(8, "FIX.4.4"), (9, "0"), (35, mtype), (49, "ACPT"), (56, "INIT"), (34, toString seq),
    (52, "20240102-00:00:01.000")] ++ body ++ [(10, "000")])

/-- logon, logon reply, two application sends, a ResendRequest (replays + gap fill), a TestRequest
(heartbeat), a watchdog tick, a refused non-latin-1 send, logout -/
def exHist : List Event := [
  .connected .initiator,
  .appSend exEnv exLogon,
  .recv exEnv (exPeer "A" 1 [(98, "0"), (108, "30")]),
  .appSend exEnv (Msg.mk' "D" [(11, "c1"), (58, "one")]),
  .appSend exEnv (Msg.mk' "D" [(11, "c2"), (58, "hé")]),
  .recv exEnv (exPeer "2" 2 [(7, "1"), (16, "0")]),
  .recv exEnv (exPeer "1" 3 [(112, "T")]),
  .tick exEnv,
  .appSend exEnv (Msg.mk' "D" [(58, "€")]),
  .appDisconnect exEnv 1 (some "bye") ]

def isWrite : Effect → Bool
  | .write _ => true
  | _ => false

/-- the history does hand frames to the transport (eight of them) … -/
example : ((run (fun _ => true) exConn exHist).2.filter isWrite).length = 8 := by decide +kernel

/-- … the first being the Logon frame numbered 1 -/
example : Effect.write (buildFrame exConn.sess exEnv.stamp exLogon 1) ∈ (run (fun _ => true) exConn exHist).2 := by
  decide +kernel

end AsyncFix.Props.C02Hist
