import AsyncFix.Lemmas.RestartKill
import AsyncFix.Lemmas.RestartSeg
import AsyncFix.Lemmas.RestartQuiet
import AsyncFix.Lemmas.RestartInboundC

/-!
# C09 – restarting an endpoint is transparent to the session

Model: `AsyncFix/Model/Session*.lean` (one endpoint) and `AsyncFix/Model/Restart.lean`
(`restart`, the segmented `send_msg` / `_process_message`, crash states).

Scope of the history theorems (explicit, decidable hypotheses):
* `admissible`: the application does not call `reset_seq_num()` and does not send frames that carry
  their own MsgSeqNum (SequenceReset, PossDupFlag=Y) – those overwrite the stored outbound counter by design;
* `excFree`: no exception was swallowed or escaped during the run (an exception inside resend
  servicing leaves the outbound counter rewound – property C06's findings; a duplicate journal key leaves
  a counter advanced without its row).
Nothing is assumed about the counterparty: the inbound frames of a history are arbitrary.
-/
namespace AsyncFix.Props.C09

open AsyncFix.Session AsyncFix.Restart AsyncFix.Generated.ConnEnum

/-! ## the segmented handlers are the sequential ones -/

theorem send_segments_compose (env : Env) (m : Msg) : sendSeq env m = sendMsg env m := sendSeq_eq env m

theorem recv_segments_compose (sr : Msg → Bool) (env : Env) (m : Msg) :
    recvSeq sr env m = processMessage env sr m := recvSeq_eq sr env m

/-- killing after the last segment is completing the handler -/
theorem kill_after_last_segment_send (env : Env) (c : Conn) (m : Msg) :
    ((sendPrefix 5 env m >>= fun _ => pure ()).run c) = appSend env c m := by
  have : sendPrefix 5 env m >>= (fun _ => pure ()) = sendMsg env m := by
    rw [← sendSeq_eq]; rfl
  rw [this]; rfl

/-! ## 1. stored counters = live counters at every quiescent point -/

/-- a new object over ANY journal with a non-negative inbound counter starts quiescent -/
theorem create_stored_eq_live (s t : String) (j : Journal) (hb : Int) (role : Nat) :
    StoredEqLive (Conn.create s t j hb role) := ⟨rfl, rfl⟩

/-- FULL statement (false on the current code, D13 – refuted in `Findings/C09.lean`) -/
def stored_eq_live_full : Prop :=
  ∀ (sr : Msg → Bool) (c : Conn) (evs : List Event),
    StoredEqLive c → 0 < c.sess.nextIn → (∀ ev ∈ evs, admissible ev = true) →
    excFree (run sr c evs).2 = true → StoredEqLive (run sr c evs).1

/-- PARTIAL, with the exact lag: after every admissible, exception-free history from a quiescent state,
the stored outbound counter is one behind the live one, and the stored inbound counter is one behind
the live one UNLESS the inbound row stored under it is a SequenceReset `m` (the last inbound frame that was
journaled), in which case the stored counter is `m`'s own MsgSeqNum and the live one is `m`'s NewSeqNo. -/
theorem stored_eq_live_partial (sr : Msg → Bool) (c : Conn) (evs : List Event)
    (hq : Quiet c) (hadm : ∀ ev ∈ evs, admissible ev = true) (hex : excFree (run sr c evs).2 = true) :
    let c' := (run sr c evs).1
    c'.journal.outSeq + 1 = c'.sess.nextOut ∧
    (c'.journal.inSeq + 1 = c'.sess.nextIn ∨
      ∃ m, c'.journal.inb.find c'.journal.inSeq = some m ∧ m.mtype = mSequenceReset ∧
        seqOf m = some c'.journal.inSeq ∧ newSeqOf m = some c'.sess.nextIn) := by
  intro c'
  have hq' : Quiet c' := (run_goodH sr evs c hadm hex hq).quiet hq
  refine ⟨hq'.1, ?_⟩
  rcases hq'.2.2 with hi | hl
  · exact Or.inl hi
  · right
    unfold inLag at hl
    split at hl
    · rename_i m hm
      simp only [lagBy, Bool.and_eq_true, beq_iff_eq] at hl
      exact ⟨m, hm, hl.1.1.1, hl.1.2, hl.2⟩
    · cases hl

/-- the invariant itself is inductive (so it holds at EVERY quiescent point of the history) -/
theorem quiet_invariant (sr : Msg → Bool) (c : Conn) (ev : Event) (hq : Quiet c)
    (hadm : admissible ev = true) (hex : excFree (step sr c ev).2 = true) : Quiet (step sr c ev).1 :=
  (step_goodH sr c ev hadm hex hq.2.1).quiet hq

/-- PARTIAL, classical form: excluded class = histories containing a SequenceReset whose NewSeqNo is not
its MsgSeqNum + 1 (`jumpReset`, decidable).  Without one, stored = live exactly. -/
theorem stored_eq_live_without_jump_resets (sr : Msg → Bool) (c : Conn) (evs : List Event)
    (hs : StoredEqLive c) (hpos : 0 < c.sess.nextIn) (hadm : ∀ ev ∈ evs, admissible ev = true)
    (hnj : ∀ ev ∈ evs, jumpReset ev = false) (hex : excFree (run sr c evs).2 = true) :
    StoredEqLive (run sr c evs).1 :=
  ⟨((run_goodH sr evs c hadm hex ⟨hs.1, hpos, Or.inl hs.2⟩).quiet ⟨hs.1, hpos, Or.inl hs.2⟩).1,
   run_exact sr evs c hadm hnj hex ⟨hs.1, hpos, Or.inl hs.2⟩ hs.2⟩

/-- hence: a restart at such a point hands the new object exactly the old counters -/
theorem restart_counters_eq (c : Conn) (role : Nat) (hs : StoredEqLive c) :
    (restart c role).sess.nextOut = c.sess.nextOut ∧ (restart c role).sess.nextIn = c.sess.nextIn :=
  ⟨hs.1, hs.2⟩

/-- non-vacuity: a logged-on session with traffic satisfies the hypotheses -/
example : Quiet (Conn.create "S" "T" { outSeq := 6, inSeq := 4 } 30 1) := by decide

/-! ## 2. no outbound number is reused after a kill inside a send -/

/-- For every admissible exception-free history of the old incarnation and EVERY crash point `k` of a
following send of a message taking a new number: every new frame the old incarnation ever handed to the
transport (history + the killed send) carries a number below the restarted connection's `nextOut`. -/
theorem restart_no_number_reuse (sr : Msg → Bool) (c : Conn) (evs : List Event) (hq : Quiet c)
    (hadm : ∀ ev ∈ evs, admissible ev = true) (hex : excFree (run sr c evs).2 = true)
    (env : Env) (m : Msg) (hnew : ownSeq m = false) (k role : Nat) :
    NewWritesBelow ((run sr c evs).2 ++ (sendKilled k env (run sr c evs).1 m).2)
      (restart (sendKilled k env (run sr c evs).1 m).1 role).sess.nextOut := by
  have hh := run_goodH sr evs c hadm hex hq
  have hq' : Quiet (run sr c evs).1 := hh.quiet hq
  generalize run sr c evs = old at hh hq'
  obtain ⟨oc, oe⟩ := old
  simp only at hh hq' ⊢
  have hcs := sendPrefix_crash k env m hnew oc
  -- sendKilled = run of the prefix: same connection, same writes
  have hconn : (sendKilled k env oc m).1 = (sendPrefix k env m oc).conn := by
    show ((sendPrefix k env m).run oc).1 = _
    unfold M.run; split <;> simp_all
  have hwr : ∀ f, Effect.write f ∈ (sendKilled k env oc m).2 → Effect.write f ∈ (sendPrefix k env m oc).eff := by
    intro f hf
    have : (sendKilled k env oc m).2 = ((sendPrefix k env m).run oc).2 := rfl
    rw [this] at hf
    unfold M.run at hf
    split at hf
    · simp_all
    · rename_i ex c1 e1 heq
      simp only [heq]
      simp only [List.mem_append, List.mem_singleton] at hf
      rcases hf with h | h
      · exact h
      · cases h
  show NewWritesBelow (oe ++ (sendKilled k env oc m).2) ((sendKilled k env oc m).1.journal.outSeq + 1)
  rw [hconn]
  have hout : oc.journal.outSeq + 1 = oc.sess.nextOut := hq'.1
  cases hcs with
  | untouched hj hw =>
    rw [hj, hout]
    apply NewWritesBelow.append hh.writes
    intro f n hf _ _; exact absurd (hwr f hf) (hw f)
  | journaled fr hs hn hp hw =>
    have ho := (persist_out_fields hp).1
    rw [ho]
    apply NewWritesBelow.append
    · exact hh.writes.mono (by omega)
    · intro f n hf _ hsn
      have := hw f (hwr f hf)
      subst this
      rw [hs] at hsn
      have := pyStr_inj (Option.some.inj hsn)
      omega

/-- the crash states of a send, spelled out: either nothing durable happened and nothing reached the
transport (the number may be used again – for the same or another message, nobody saw it), or the frame
is in the journal under the number it carries (retransmittable on a ResendRequest), the stored counter
is that number, and nothing but this frame was written. -/
theorem send_crash_states (env : Env) (c : Conn) (m : Msg) (hnew : ownSeq m = false) (k : Nat) :
    let o := sendPrefix k env m c
    (o.conn.journal = c.journal ∧ ∀ f, Effect.write f ∉ o.eff) ∨
    (∃ fr, fr.get? tMsgSeqNum = some (pyStr c.sess.nextOut) ∧
       o.conn.journal.out.find c.sess.nextOut = some fr ∧ o.conn.journal.outSeq = c.sess.nextOut ∧
       ∀ f, Effect.write f ∈ o.eff → f = fr) := by
  intro o
  cases sendPrefix_crash k env m hnew c with
  | untouched hj hw => exact Or.inl ⟨hj, hw⟩
  | journaled fr hs _ hp hw =>
    exact Or.inr ⟨fr, hs, persist_out_find hp, (persist_out_fields hp).1, hw⟩

/-- non-vacuity: an application message takes a new number -/
example : ownSeq (Msg.mk' "D" [(11, "id1"), (58, "text")]) = false := by decide

/-! ## 3. a kill inside inbound processing: counted ⇒ delivered and journaled; otherwise still expected -/

/-- For EVERY crash point `k` of the processing of an application frame `m` (any state, any frame content,
exceptions included): after the restart either
* the frame is NOT counted – the new object expects the same number as the old one did before the frame,
  and the inbound rows of the journal are what they were (the frame will be asked for / sent again), or
* it IS counted – then it carries exactly the number the old object expected, it is in the journal under
  that number, the new object expects the next number, and `on_message(m)` had been called before the kill.
Never counted-but-undelivered. -/
theorem restart_inbound (k : Nat) (sr : Msg → Bool) (env : Env) (m : Msg) (happ : isApp m = true)
    (c : Conn) (hs : InExact c) (role : Nat) :
    ((restart (recvKilled k sr env c m).1 role).sess.nextIn = c.sess.nextIn ∧
      (recvKilled k sr env c m).1.journal.inb = c.journal.inb) ∨
    (seqOf m = some c.sess.nextIn ∧
      (restart (recvKilled k sr env c m).1 role).sess.nextIn = c.sess.nextIn + 1 ∧
      (recvKilled k sr env c m).1.journal.inb.find c.sess.nextIn = some m ∧
      Effect.deliver m ∈ (recvKilled k sr env c m).2) := by
  have hconn : (recvKilled k sr env c m).1 = (recvPrefix k sr env m c).conn := by
    show ((recvPrefix k sr env m).run c).1 = _
    unfold M.run; split <;> simp_all
  have heff : ∀ x, x ∈ (recvPrefix k sr env m c).eff → x ∈ (recvKilled k sr env c m).2 := by
    intro x hx
    show x ∈ ((recvPrefix k sr env m).run c).2
    unfold M.run; split <;> simp_all
  rw [hconn]
  rcases recv_crash_app k sr env m happ c with ⟨h1, h2⟩ | ⟨hq, h1, h2, h3⟩
  · left
    refine ⟨?_, h2⟩
    show (recvPrefix k sr env m c).conn.journal.inSeq + 1 = c.sess.nextIn
    rw [h1]; exact hs
  · right
    refine ⟨hq, ?_, h2, heff _ h3⟩
    show (recvPrefix k sr env m c).conn.journal.inSeq + 1 = c.sess.nextIn + 1
    rw [h1]

/-- never counted-but-undelivered -/
theorem counted_implies_delivered (k : Nat) (sr : Msg → Bool) (env : Env) (m : Msg) (happ : isApp m = true)
    (c : Conn) (hs : InExact c) (role : Nat)
    (h : (restart (recvKilled k sr env c m).1 role).sess.nextIn ≠ c.sess.nextIn) :
    Effect.deliver m ∈ (recvKilled k sr env c m).2 := by
  rcases restart_inbound k sr env m happ c hs role with ⟨h1, _⟩ | ⟨_, _, _, h4⟩
  · exact absurd h1 h
  · exact h4

/-- FULL statement (false: D15, inherent – callback and commit are not atomic): delivered ⇒ counted, i.e.
exactly-once across a kill.  Refuted in `Findings/C09.lean` with the kill between callback and journal. -/
def exactly_once_full : Prop :=
  ∀ (k : Nat) (sr : Msg → Bool) (env : Env) (m : Msg) (c : Conn) (role : Nat),
    isApp m = true → InExact c → Effect.deliver m ∈ (recvKilled k sr env c m).2 →
    (restart (recvKilled k sr env c m).1 role).sess.nextIn = c.sess.nextIn + 1

/-- non-vacuity -/
example : isApp (Msg.ofFields [(8, "FIX.4.4"), (35, "D"), (34, "5")]) = true := by decide

/-! ## 4. a restart at a quiescent point only loses the volatile fields -/

theorem restart_quiescent_transparent (c : Conn) (role : Nat) (hs : StoredEqLive c) :
    restart c role =
      { c with state := st_DISCONNECTED_NOCONN_TODAY, role := role, wasActive := false, maxResend := 0,
               testReqId := none, lastTime := 0, sock := false } := by
  obtain ⟨ho, hi⟩ := hs
  unfold OutOk at ho
  unfold InExact at hi
  obtain ⟨st, rl, wa, ⟨snd, tgt, ni, no⟩, mr, tr, lt, hb, sk, j⟩ := c
  simp only [restart, Conn.create, Conn.mk.injEq, Session.mk.injEq, true_and, and_true]
  exact ⟨hi, ho⟩

/-- … so that after the transport comes up again the restarted endpoint is the merely disconnected one
(EOF on the old object, then reconnect), except that it does not remember having been ACTIVE – which the
next `_state_set(ACTIVE)` restores. -/
theorem restart_then_connect_eq_disconnect_then_connect (env : Env) (c : Conn) (hs : StoredEqLive c)
    (hsock : c.sock = true) (hst : c.state > st_DISCONNECTED_BROKEN_CONN) (k : ConnKind) :
    (connected (restart c c.role) k).1 =
      { (connected (eof env c).1 k).1 with wasActive := false } := by
  rw [restart_quiescent_transparent c c.role hs, eof_apply env c hsock hst, connected_apply _ _ rfl,
    connected_apply _ _ rfl]
  cases k <;> rfl

example : StoredEqLive { (Conn.create "S" "T" { outSeq := 6, inSeq := 4 } 30 1) with
    state := st_ACTIVE, sock := true, wasActive := true } := by decide

end AsyncFix.Props.C09
