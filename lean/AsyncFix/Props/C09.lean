import AsyncFix.Lemmas.RestartSeg

namespace AsyncFix.Props.C09
open AsyncFix.Session AsyncFix.Restart

/-- the segmented `send_msg` is the sequential one -/
theorem send_segments_compose (env : Env) (m : Msg) : sendSeq env m = sendMsg env m := sendSeq_eq env m

/-- the segmented `_process_message` is the sequential one -/
theorem recv_segments_compose (sr : Msg → Bool) (env : Env) (m : Msg) :
    recvSeq sr env m = processMessage env sr m := recvSeq_eq sr env m

end AsyncFix.Props.C09
