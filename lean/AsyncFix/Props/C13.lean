/-
C13 — the journal is a faithful per-session, per-direction message store.

Model: `Model/Journal.lean` (tables as SQLite holds them, the public methods of
`asyncfix/journaler.py` branch for branch).  Specification: `Lemmas/JournalSpec.lean`
(`JSpec` = map (session, direction, number) ↦ bytes + two counters per session; `abs`; `JInv`).

Everything is proved for *all* journals satisfying the invariant `JInv`, and `JInv` is proved for
every journal reachable from the empty file by *any* list of calls with *any* arguments
(`jinv_reachable`), so the statements hold after arbitrary histories – no bound on the number of
sessions, messages, or the size of numbers.
-/
import AsyncFix.Lemmas.JournalQuery
namespace AsyncFix.Props.C13
open AsyncFix.Model.Journal

/-! ## 1. invariant -/

/-- the invariant holds initially and after every list of calls (arbitrary arguments, including
the ones that raise) -/
theorem jinv_reachable (ops : List Op) : JInv (applyOps {} ops) :=
  applyOps_inv ops jinv_empty

/-- every single call preserves it -/
theorem jinv_step (j : Journal) (op : Op) (h : JInv j) : JInv (applyOp j op).1 :=
  applyOp_inv op h

/-! ## 2. refinement: the journal behaves like the abstract map -/

/-- create_or_load: state and returned session agree with the abstract journal -/
theorem createOrLoad_refines (j : Journal) (hinv : JInv j) (t s : String) :
    (abs (createOrLoad j t s).1, (createOrLoad j t s).2) = (abs j).createOrLoad t s :=
  AsyncFix.Model.Journal.createOrLoad_refines hinv t s

/-- persist_msg: state and result (None / duplicate error / FIXMessageError / OverflowError) agree -/
theorem persist_refines (j : Journal) (hinv : JInv j) (msg : Bytes) (h : Handle) (dir : Dir) :
    (abs (persist j msg h dir).1, (persist j msg h dir).2) = (abs j).persist msg h dir :=
  AsyncFix.Model.Journal.persist_refines hinv msg h dir

/-- set_seq_num: for every call (assertion failures and numbers SQLite cannot hold included – the
call is all or nothing since fix 493a9a7) the tables change as the abstract journal does -/
theorem setSeqNum_refines (j : Journal) (h : Handle) (out inn : Option Int) :
    abs (setSeqNum j h out inn).1 = (abs j).setSeqNum h out inn :=
  AsyncFix.Model.Journal.setSeqNum_refines h out inn

/-- after any history (any calls, any arguments) the journal is the abstract journal after the same
history -/
theorem refinement (ops : List Op) : abs (applyOps {} ops) = (abs {}).applyOps ops :=
  applyOps_refines jinv_empty ops

/-- a `set_seq_num` that raises (assertion or OverflowError) leaves the tables unchanged -/
theorem setSeqNum_raise_unchanged (j : Journal) (h h' : Handle) (out inn : Option Int) (k : Kind)
    (hres : (setSeqNum j h out inn).2 = .set h' (some k)) : (setSeqNum j h out inn).1 = j := by
  rcases setSeqNum_cases j h out inn with he | he | he | ⟨-, -, -, -, -, he⟩ <;> rw [he] at hres ⊢
  simp at hres

/-- a history with two mirror-image sessions, both directions, a duplicate and a renumbering ends
in a non-trivial state -/
def exampleOps : List Op :=
  [ .createOrLoad "T" "S", .createOrLoad "S" "T",
    .persist [1, 51, 52, 61, 53, 1] ⟨1, "T", "S", 1, 1⟩ .outbound,
    .persist [1, 51, 52, 61, 53, 1] ⟨1, "T", "S", 1, 1⟩ .outbound,
    .persist [1, 51, 52, 61, 57, 1] ⟨2, "S", "T", 1, 1⟩ .inbound,
    .setSeqNum ⟨1, "T", "S", 1, 1⟩ (some 3) none ]
example : (applyOps {} exampleOps).msgs.length = 1 ∧ (applyOps {} exampleOps).sessions.length = 2 := by
  decide

/-! ## 3. range queries -/

/-- `recover_messages` returns exactly the stored messages of that session and direction whose
numbers lie within the bounds, unchanged, in ascending number order – for all bounds (ints, text
that SQLite reads as an integer, text that is no number; empty, inverted, open-ended). -/
theorem recover_returns_stored (j : Journal) (hinv : JInv j) (h : Handle) (dir : Dir) (lo hi : Bound)
    (ms : List Bytes) (hres : recoverMessages j h dir lo hi = .msgs ms) :
    (abs j).IsRange h.key dir lo.eval hi.eval ms := by
  unfold recoverMessages at hres
  split at hres
  · cases hres
  · split at hres
    all_goals (cases hres <;> exact selRange_isRange hinv h.key dir _ _)

/-- it never raises and never leaves the model when key and int bounds fit 64 bits and text bounds
are not floating point literals -/
theorem recover_total (j : Journal) (h : Handle) (dir : Dir) (lo hi : Bound)
    (hk : fits h.key = true ∧ fits lo.param = true ∧ fits hi.param = true)
    (hlo : lo.eval ≠ .unmodelled) (hhi : hi.eval ≠ .unmodelled) :
    ∃ ms, recoverMessages j h dir lo hi = .msgs ms := by
  unfold recoverMessages
  simp only [hk.1, hk.2.1, hk.2.2, Bool.and_self, Bool.not_true, Bool.false_eq_true, if_false]
  cases hl : lo.eval <;> cases hu : hi.eval <;> simp_all

/-- a stored message is returned by every range query that includes its number … -/
theorem recover_contains_stored (j : Journal) (hinv : JInv j) (h : Handle) (dir : Dir) (lo hi : Bound)
    (ms : List Bytes) (hres : recoverMessages j h dir lo hi = .msgs ms)
    (n : Int) (m : Bytes) (hst : (abs j).store h.key dir n = some m)
    (hlo : lo.eval.le n = true) (hhi : hi.eval.ge n = true) : m ∈ ms := by
  obtain ⟨seqs, -, hmem, rfl⟩ := recover_returns_stored j hinv h dir lo hi ms hres
  rw [List.mem_filterMap]
  exact ⟨n, (hmem n).mpr ⟨hlo, hhi, by simp [hst]⟩, hst⟩

/-- … and only messages of its own session and direction, within the bounds, are returned -/
theorem recover_only_own (j : Journal) (hinv : JInv j) (h : Handle) (dir : Dir) (lo hi : Bound)
    (ms : List Bytes) (hres : recoverMessages j h dir lo hi = .msgs ms) (m : Bytes) (hm : m ∈ ms) :
    ∃ n, lo.eval.le n = true ∧ hi.eval.ge n = true ∧ (abs j).store h.key dir n = some m := by
  obtain ⟨seqs, -, hmem, rfl⟩ := recover_returns_stored j hinv h dir lo hi ms hres
  obtain ⟨n, hn, hst⟩ := List.mem_filterMap.mp hm
  obtain ⟨h1, h2, -⟩ := (hmem n).mp hn
  exact ⟨n, h1, h2, hst⟩

/-- an inverted range is empty -/
theorem recover_inverted_empty (j : Journal) (hinv : JInv j) (h : Handle) (dir : Dir) (a b : Int)
    (hab : b < a) (ms : List Bytes)
    (hres : recoverMessages j h dir (.int a) (.int b) = .msgs ms) : ms = [] := by
  cases ms with
  | nil => rfl
  | cons m rest =>
    obtain ⟨n, h1, h2, -⟩ := recover_only_own j hinv h dir _ _ _ hres m (List.mem_cons_self ..)
    simp only [Bound.eval, BVal.le, BVal.ge, decide_eq_true_eq] at h1 h2
    omega

/-- the abstract range determines the answer: two answers to the same query are equal -/
theorem isRange_unique (S : JSpec) (key : Int) (dir : Dir) (lo hi : BVal) (ms ms' : List Bytes)
    (h1 : S.IsRange key dir lo hi ms) (h2 : S.IsRange key dir lo hi ms') : ms = ms' := by
  obtain ⟨s1, p1, m1, rfl⟩ := h1
  obtain ⟨s2, p2, m2, rfl⟩ := h2
  have hmem : ∀ n, n ∈ s1 ↔ n ∈ s2 := fun n => (m1 n).trans (m2 n).symm
  suffices s1 = s2 by rw [this]
  clear m1 m2
  induction s1 generalizing s2 with
  | nil =>
    cases s2 with
    | nil => rfl
    | cons y ys => exact absurd ((hmem y).mpr (List.mem_cons_self ..)) (by simp)
  | cons x xs ih =>
    cases s2 with
    | nil => exact absurd ((hmem x).mp (List.mem_cons_self ..)) (by simp)
    | cons y ys =>
      rw [List.pairwise_cons] at p1 p2
      have hxy : x = y := by
        have hx := (hmem x).mp (List.mem_cons_self ..)
        have hy := (hmem y).mpr (List.mem_cons_self ..)
        rcases List.mem_cons.mp hx with hx | hx
        · exact hx
        · rcases List.mem_cons.mp hy with hy | hy
          · exact hy.symm
          · have := p1.1 y hy; have := p2.1 x hx; omega
      subst hxy
      congr 1
      apply ih p1.2 ys p2.2
      intro n
      constructor
      · intro hn
        have hne : n ≠ x := by have := p1.1 n hn; omega
        rcases List.mem_cons.mp ((hmem n).mp (List.mem_cons_of_mem _ hn)) with h | h
        · exact absurd h hne
        · exact h
      · intro hn
        have hne : n ≠ x := by have := p2.1 n hn; omega
        rcases List.mem_cons.mp ((hmem n).mpr (List.mem_cons_of_mem _ hn)) with h | h
        · exact absurd h hne
        · exact h

/-- `get_all_msgs()` lists exactly the stored map -/
theorem getAll_complete (j : Journal) (hinv : JInv j) (key : Int) (d : Dir) (n : Int) (m : Bytes) :
    ∃ rs, getAllMsgs j none none = .rows rs ∧
      ((n, m, d.val, key) ∈ rs ↔ (abs j).store key d n = some m) :=
  ⟨selAll j none none, by simp [getAllMsgs, normKeys], selAll_complete hinv key d n m⟩

/-! ## 4. storing -/

/-- storing number n makes n+1 that direction's next number, as reported by *both* loading paths,
and leaves the other direction's number alone -/
theorem persist_sets_next (j : Journal) (hinv : JInv j) (r : SessRow) (hr : r ∈ j.sessions)
    (msg : Bytes) (h : Handle) (hk : h.key = r.sid) (dir : Dir) (n : Int)
    (hn : findSeqNo msg = some n) (hres : (persist j msg h dir).2 = .none) :
    let j' := (persist j msg h dir).1
    let h' : Handle := ⟨r.sid, r.target, r.sender,
      (match dir with | .outbound => n + 1 | .inbound => r.outSeq + 1),
      (match dir with | .outbound => r.inSeq + 1 | .inbound => n + 1)⟩
    createOrLoad j' r.target r.sender = (j', .handle h') ∧
    ((r.target, r.sender), h') ∈ sessions j' := by
  intro j' h'
  have hinv' : JInv j' := persist_inv msg h dir hinv
  -- the updated row
  let r' : SessRow := match dir with
    | .outbound => { r with outSeq := n } | .inbound => { r with inSeq := n }
  have hmem : r' ∈ j'.sessions := by
    show r' ∈ (persist j msg h dir).1.sessions
    rw [(persist_ok hn hres).2.2.2]
    simp only [updCounter, List.mem_map]
    exact ⟨r, hr, by rw [if_pos hk.symm]; cases dir <;> rfl⟩
  have ht : r'.target = r.target ∧ r'.sender = r.sender ∧ handleOf r' = h' := by
    cases dir <;> simp [r', h', handleOf]
  have h1 := createOrLoad_existing hinv' hmem
  rw [ht.1, ht.2.1, ht.2.2] at h1
  refine ⟨h1, ?_⟩
  rw [sessions_eq_map hinv', List.mem_map]
  exact ⟨r', hmem, by rw [ht.1, ht.2.1, ht.2.2]⟩

/-- storing a number twice fails with the duplicate error and changes nothing; and (numbers within
64 bits) the duplicate error is raised only then -/
theorem persist_dup_noop (j : Journal) (msg : Bytes) (h : Handle) (dir : Dir) (n : Int)
    (hn : findSeqNo msg = some n) (hfit : fits n = true ∧ fits h.key = true) :
    ((abs j).store h.key dir n ≠ none ↔ (persist j msg h dir).2 = .raised .duplicateSeqNo) ∧
    ((persist j msg h dir).2 = .raised .duplicateSeqNo → (persist j msg h dir).1 = j) := by
  unfold persist
  simp only [hn, hfit.1, hfit.2, Bool.and_self, Bool.not_true, Bool.false_eq_true, if_false]
  by_cases hany : j.msgs.any (·.isKey n h.key dir) = true
  · have : (abs j).store h.key dir n ≠ none := by
      rw [Ne, store_none_iff, hany]; simp
    simp [insMsg, hany, this]
  · have hany' : j.msgs.any (·.isKey n h.key dir) = false := by simpa using hany
    have : (abs j).store h.key dir n = none := store_none_iff.mpr hany'
    simp [insMsg, hany', this]

/-- every raising outcome of persist_msg leaves the tables unchanged -/
theorem persist_raise_unchanged (j : Journal) (msg : Bytes) (h : Handle) (dir : Dir) (k : Kind)
    (hres : (persist j msg h dir).2 = .raised k) : (persist j msg h dir).1 = j := by
  unfold persist at hres ⊢
  cases hn : findSeqNo msg with
  | none => rfl
  | some n =>
    rw [hn] at hres
    simp only at hres ⊢
    by_cases hf : (!(fits n && fits h.key)) = true
    · simp only [hf, if_true]
    · simp only [hf, if_false, Bool.false_eq_true] at hres ⊢
      cases hi : insMsg j n h.key dir msg with
      | none => rfl
      | some j1 => rw [hi] at hres; cases hres

/-! ## 5. renumbering -/

/-- a completed `set_seq_num` sets the session object and the stored counters to the effective next
numbers and removes exactly the messages of that session numbered at or above them -/
theorem setSeqNum_truncates_exactly (j : Journal) (h h' : Handle) (out inn : Option Int)
    (hres : (setSeqNum j h out inn).2 = .set h' none) :
    h'.nextOut = effOut h out ∧ h'.nextIn = effIn h inn ∧
    (∀ k d n, (abs (setSeqNum j h out inn).1).store k d n =
        if k = h.key ∧ d.pick h'.nextOut h'.nextIn ≤ n then none else (abs j).store k d n) ∧
    (∀ id, (abs (setSeqNum j h out inn).1).counters id =
        if (id : Int) = h.key then ((abs j).counters id).map (fun _ => (h'.nextOut - 1, h'.nextIn - 1))
        else (abs j).counters id) ∧
    (abs (setSeqNum j h out inn).1).ident = (abs j).ident := by
  rcases setSeqNum_cases j h out inn with he | he | he | ⟨-, -, -, -, -, he⟩ <;>
    rw [he] at hres ⊢ <;> simp only [Res.set.injEq, reduceCtorEq, and_false] at hres
  simp only [and_true] at hres
  subst hres
  simp only [setNext_refines, JSpec.setNext, true_and]
  exact ⟨fun _ _ _ => trivial, fun _ => trivial, trivial⟩

/-- an assertion failure (a next number ≤ 0) changes nothing in the tables; the session object may
already carry the new outbound number -/
theorem setSeqNum_assert_unchanged (j : Journal) (h h' : Handle) (out inn : Option Int)
    (hres : (setSeqNum j h out inn).2 = .set h' (some .assertion)) :
    (setSeqNum j h out inn).1 = j ∧ h'.nextIn = h.nextIn := by
  rcases setSeqNum_cases j h out inn with he | he | he | ⟨-, -, -, -, -, he⟩ <;>
    rw [he] at hres ⊢ <;> simp only [Res.set.injEq, reduceCtorEq, and_false, Option.some.injEq, and_true] at hres
  · subst hres; exact ⟨rfl, rfl⟩
  · subst hres; exact ⟨rfl, rfl⟩

/-! ## 6. loading paths -/

/-- every way of loading a session reports the same next numbers: an entry of `sessions()` is what
`create_or_load` returns for that pair, and vice versa (including the session it just created) -/
theorem load_paths_agree (j : Journal) (hinv : JInv j) (t s : String) (h : Handle) :
    (((t, s), h) ∈ sessions j → createOrLoad j t s = (j, .handle h)) ∧
    ((createOrLoad j t s).2 = .handle h → ((t, s), h) ∈ sessions (createOrLoad j t s).1) := by
  constructor
  · intro hm
    rw [sessions_eq_map hinv, List.mem_map] at hm
    obtain ⟨r, hr, heq⟩ := hm
    simp only [Prod.mk.injEq] at heq
    obtain ⟨⟨rfl, rfl⟩, rfl⟩ := heq
    exact createOrLoad_existing hinv hr
  · intro hres
    have hinv' := createOrLoad_inv t s hinv
    rw [sessions_eq_map hinv', List.mem_map]
    by_cases hany : j.sessions.any (·.isPair t s) = true
    · obtain ⟨r, hr, hp⟩ := List.any_eq_true.mp hany
      obtain ⟨rfl, rfl⟩ := (isPair_iff ..).mp hp
      rw [createOrLoad_existing hinv hr] at hres ⊢
      simp only [Res.handle.injEq] at hres
      exact ⟨r, hr, by rw [hres]⟩
    · have hany' : j.sessions.any (·.isPair t s) = false := by simpa using hany
      rw [createOrLoad_new hany'] at hres ⊢
      simp only [Res.handle.injEq] at hres
      refine ⟨⟨j.nextSid, t, s, 0, 0⟩, by simp, ?_⟩
      rw [← hres]; simp [handleOf]

/-- `sessions()` never merges or loses a session: one entry per row, in id order -/
theorem sessions_lists_rows (j : Journal) (hinv : JInv j) :
    sessions j = j.sessions.map fun r => ((r.target, r.sender), handleOf r) :=
  sessions_eq_map hinv

/-! ## 7. find_seq_no (first `\x0134=` wins; `int()` leniency) – evaluated examples -/

example : findSeqNo [56, 1, 51, 52, 61, 55, 1, 51, 52, 61, 57, 1] = some 7 := by decide
example : findSeqNo [1, 51, 52, 61, 32, 43, 49, 95, 48, 9, 1] = some 10 := by decide      -- b" +1_0\t"
example : findSeqNo [1, 51, 52, 61, 49, 95, 95, 48, 1] = none := by decide                -- b"1__0"
example : findSeqNo [51, 52, 61, 55, 1] = none := by decide                               -- no SOH before 34=
example : findSeqNo [1, 51, 52, 61, 55] = none := by decide                               -- no SOH after

end AsyncFix.Props.C13
