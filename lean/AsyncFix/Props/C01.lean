/-
C01 — encode/decode round trip preserves every well-formed message.

Statement (`encode_decode`): for every message `m`, session, encoding mode and clock value such that
the container the decoder is expected to rebuild is well-formed w.r.t. the group table (`wfTop`, the
explicit decidable predicate – evaluated by the compiled model on every generated message of the
correspondence run), the encoder succeeds and decoding its bytes returns exactly that container
(same type, same fields in the same order with the same values, same group nesting / item count /
item order, header carrying the session's CompIDs and the selected sequence number), reports the
whole frame as consumed and returns the frame bytes unchanged.

Layers: encoder shape (Lemmas/CodecEncodeShape) – framing (Lemmas/CodecFrame*, agent c01f) –
group reconstruction (Lemmas/CodecGroups*, agent c01g).
-/
import AsyncFix.Lemmas.CodecGroupsF
import AsyncFix.Lemmas.CodecFlat
import AsyncFix.Lemmas.CodecEncodeShape
import AsyncFix.Generated.Proto
namespace AsyncFix.Props.C01
open AsyncFix.Model.Codec

/-- all fields the encoder emits between BodyLength and CheckSum -/
def wireFlds (m : Msg) (s : Session) (seq now : Bytes) : List Fld :=
  hdrFlds m.mtype s.sender s.target seq now ++ flatCont (bodyOf m)

/-- the container the decoder must return, without its final CheckSum entry:
`8, 9, 35, 49, 56, 34, 52`, then the message's own entries (minus 34/52/49/56) unchanged -/
def expectedCont (bs : Bytes) (m : Msg) (s : Session) (seq now : Bytes) : Cont :=
  ((preFlds bs (wireFlds m s seq now)).take 7).map (fun f => Node.leaf f.tag f.val) ++ bodyOf m

theorem expectedCont_eq (bs : Bytes) (m : Msg) (s : Session) (seq now : Bytes) :
    expectedCont bs m s seq now =
      ((preFlds bs (wireFlds m s seq now)).take 7).map (fun f => Node.leaf f.tag f.val) ++ bodyOf m := rfl

theorem flat_expectedCont (bs : Bytes) (m : Msg) (s : Session) (seq now : Bytes) :
    flatCont (expectedCont bs m s seq now) = preFlds bs (wireFlds m s seq now) := by
  rw [expectedCont_eq, flatCont_append, flatCont_leaves]
  simp [preFlds, wireFlds, hdrFlds]

theorem wfNodes_drop {tbl : Tbl} {ms? : Option (List Tag)} (xs : List Node) :
    ∀ {seen : List Tag} {ys : List Node}, wfNodes tbl ms? seen (xs ++ ys) = true →
      ∃ seen', wfNodes tbl ms? seen' ys = true := by
  induction xs with
  | nil => intro seen ys h; exact ⟨seen, h⟩
  | cons x xs ih => intro seen ys h; exact ih (wfNodes_tail h)

theorem ckParse_dec3 (k : Nat) (h : k < 1000) : ckParse (dec3 k) = some k := by
  have hl := dec3_length k h
  have hd := dec3_all_digit k
  have hv := decVal_dec3 k
  match hk : dec3 k, hl with
  | [a, b, c], _ =>
    rw [hk] at hd hv
    simp only [List.all_cons, List.all_nil, Bool.and_true, Bool.and_eq_true] at hd
    simp only [decVal, List.foldl_cons, List.foldl_nil] at hv
    simp only [ckParse, hd.1, hd.2.1, hd.2.2, Bool.and_self, if_true, Option.some.injEq]
    omega

/-- **Round trip, core statement**: once the sequence number text is fixed. -/
theorem assemble_decode (bs : Bytes) (tbl : Tbl) (m : Msg) (s : Session) (seq now : Bytes)
    (hb : okBegin bs = true) (h10 : tblNo10 tbl = true)
    (hwf : wfTop tbl (expectedCont bs m s seq now) = true)
    (hd : (natToDec (bodyBytes (wireFlds m s seq now)).length).length ≤ maxStrDigits) :
    assemble bs m s seq now = .ok (mkFrame bs (wireFlds m s seq now)) ∧
    decode bs tbl (mkFrame bs (wireFlds m s seq now)) =
      .msg { mtype := lastMtype (preFlds bs (wireFlds m s seq now)),
             body := expectedCont bs m s seq now ++
               [.leaf tag10 (dec3 (frameCk bs (wireFlds m s seq now)))] }
        (mkFrame bs (wireFlds m s seq now)).length (mkFrame bs (wireFlds m s seq now)) := by
  -- the body part of the expected container is well formed, so `_addTag` emits its wire order
  have hw := hwf
  simp only [wfTop, Bool.and_eq_true] at hw
  have hnodes := hw.1.1.1
  rw [expectedCont_eq] at hnodes
  obtain ⟨seen', hbody⟩ := wfNodes_drop _ hnodes
  have hflat := addCont_wf hbody
  refine ⟨assemble_eq_mkFrame bs m s seq now _ hflat, ?_⟩
  -- framing
  have hok : okFields (preFlds bs (wireFlds m s seq now)) = true := by
    rw [← flat_expectedCont]; exact okFields_flatCont_wfTop hwf h10
  have hokw : okFields (wireFlds m s seq now) = true := by
    simp only [preFlds, okFields, List.all_cons, Bool.and_eq_true] at hok
    exact hok.2.2
  rw [decode_mkFrame_F bs tbl _ hb hokw hd]
  -- field loop = group reconstruction on the expected container
  have hloop := fieldLoopF_wfTop tbl (frameCk bs (wireFlds m s seq now)) (expectedCont bs m s seq now)
    (dec3 (frameCk bs (wireFlds m s seq now))) hwf
  rw [flat_expectedCont] at hloop
  have hfl : frameFlds bs (wireFlds m s seq now) =
      preFlds bs (wireFlds m s seq now) ++ [⟨tag10, dec3 (frameCk bs (wireFlds m s seq now))⟩] := rfl
  rw [hfl, hloop]
  simp [ckParse_dec3 _ (Nat.lt_trans (frameCk_lt bs _) (by decide))]

/-- **C01**: `Codec.encode` followed by `Codec.decode`.  `seq`/`s'` are what the encoder's
sequence-number selection yields: the allocated number (session counter + 1 afterwards), or the number
the message already carried (PossDup / SequenceReset / raw mode; session unchanged). -/
theorem encode_decode (bs : Bytes) (tbl : Tbl) (m : Msg) (s s' : Session) (rawSeq : Bool) (seq now : Bytes)
    (hb : okBegin bs = true) (h10 : tblNo10 tbl = true)
    (hsel : selectSeq m s rawSeq = .ok (seq, s'))
    (hwf : wfTop tbl (expectedCont bs m s' seq now) = true)
    (hd : (natToDec (bodyBytes (wireFlds m s' seq now)).length).length ≤ maxStrDigits) :
    encode bs m s rawSeq now = (.ok (mkFrame bs (wireFlds m s' seq now)), s') ∧
    decode bs tbl (mkFrame bs (wireFlds m s' seq now)) =
      .msg { mtype := lastMtype (preFlds bs (wireFlds m s' seq now)),
             body := expectedCont bs m s' seq now ++
               [.leaf tag10 (dec3 (frameCk bs (wireFlds m s' seq now)))] }
        (mkFrame bs (wireFlds m s' seq now)).length (mkFrame bs (wireFlds m s' seq now)) := by
  obtain ⟨ha, hdec⟩ := assemble_decode bs tbl m s' seq now hb h10 hwf hd
  refine ⟨?_, hdec⟩
  unfold encode
  rw [hsel]
  simp [ha]

/-- the decoded header carries the session's CompIDs and exactly the selected sequence number -/
theorem expected_header (bs : Bytes) (m : Msg) (s : Session) (seq now : Bytes) :
    (expectedCont bs m s seq now).take 7 =
      [.leaf [56] bs, .leaf [57] (natToDec (bodyBytes (wireFlds m s seq now)).length),
       .leaf tag35 m.mtype, .leaf tag49 s.sender, .leaf tag56 s.target, .leaf tag34 seq,
       .leaf tag52 now] := by
  simp [expectedCont_eq, preFlds, wireFlds, hdrFlds]

/-- … and the body entries follow unchanged -/
theorem expected_body (bs : Bytes) (m : Msg) (s : Session) (seq now : Bytes) :
    (expectedCont bs m s seq now).drop 7 = bodyOf m := by
  simp [expectedCont_eq, preFlds, wireFlds, hdrFlds]

/-- sequence number selection: a new message gets the session's next number, which is consumed -/
theorem selectSeq_alloc (m : Msg) (s : Session)
    (hm : (m.mtype == mtSeqReset) = false) (hpd : m.body.find? tag43 = none) :
    selectSeq m s false = .ok (intToDec s.nextOut, { s with nextOut := s.nextOut + 1 }) := by
  simp [selectSeq, hm, hpd, bind, Except.bind, pure, Except.pure]

/-- … a message that keeps its number (raw mode) leaves the session alone -/
theorem selectSeq_raw (m : Msg) (s : Session) (n : Int) (h : seqOf m.body = .ok n) :
    selectSeq m s true = .ok (intToDec n, s) := by
  simp [selectSeq, h, bind, Except.bind, pure, Except.pure]

/-- the type the decoder reports is the message's own, when no body field is tagged 35 -/
theorem lastMtype_expected (bs : Bytes) (m : Msg) (s : Session) (seq now : Bytes)
    (h35 : ∀ f ∈ flatCont (bodyOf m), (f.tag == tag35) = false) :
    lastMtype (preFlds bs (wireFlds m s seq now)) = m.mtype := by
  have key : ∀ (l : List Fld) (init : Bytes), (∀ f ∈ l, (f.tag == tag35) = false) →
      l.foldl (fun acc f => if f.tag == tag35 then f.val else acc) init = init := by
    intro l
    induction l with
    | nil => intro init _; rfl
    | cons f rest ih =>
      intro init h
      simp only [List.foldl_cons, h f (by simp), Bool.false_eq_true, if_false]
      exact ih init (fun g hg => h g (by simp [hg]))
  simp only [lastMtype, preFlds, wireFlds, hdrFlds, List.cons_append, List.nil_append, List.foldl_cons]
  have e1 : (([56] : Bytes) == tag35) = false := by decide
  have e2 : (([57] : Bytes) == tag35) = false := by decide
  have e3 : (tag35 == tag35) = true := by decide
  have e4 : (tag49 == tag35) = false := by decide
  have e5 : (tag56 == tag35) = false := by decide
  have e6 : (tag34 == tag35) = false := by decide
  have e7 : (tag52 == tag35) = false := by decide
  simp only [e1, e2, e3, e4, e5, e6, e7, Bool.false_eq_true, if_false, if_true]
  exact key _ _ h35

/-! ### side conditions on the generated protocol data (re-checked against /repo every run) -/

def protoBegin : Bytes := AsyncFix.Generated.Proto.beginStringBytes
def protoTbl : Tbl := AsyncFix.Generated.Proto.groupsBytes

theorem okBegin_proto : okBegin protoBegin = true := by decide +kernel
theorem tblNo10_proto : tblNo10 protoTbl = true := by decide +kernel
/-- no group of the table has MsgType(35) as a member: the decoder reports the message's own type -/
theorem tblNo35_proto : (protoTbl.all fun p => !p.2.contains tag35) = true := by decide +kernel
/-- the FIX 4.4 table is a function: no group tag is listed twice -/
theorem tbl_nodup_proto : (protoTbl.map (·.1)).Nodup := by decide +kernel

/-! ### non-vacuity: a NewOrderSingle with a 2-item NoPartyIDs(453) group whose first item holds a
nested NoPartySubIDs(802) group, a value that looks like framing, on the GENERATED FIX 4.4 table -/

def exMsg : Msg :=
  { mtype := [68],
    body := [.leaf [53, 53] [65],
             .group [52, 53, 51]
               [[.leaf [52, 52, 56] [88], .leaf [52, 52, 55] [68],
                 .group [56, 48, 50] [[.leaf [53, 50, 51] [115]], [.leaf [53, 50, 51] [116], .leaf [56, 48, 51] [49]]]],
                [.leaf [52, 52, 56] [89]]],
             .leaf [53, 56] [56, 61, 70, 73, 88, 46, 52, 46, 52, 32, 49, 48, 61]] }

def exSess : Session := { sender := [83], target := [84], nextOut := 7 }

set_option maxRecDepth 4000 in
theorem ex_wf : wfTop protoTbl (expectedCont protoBegin exMsg { exSess with nextOut := 8 } [55] [50, 48]) = true := by
  simp [wfTop, expectedCont, preFlds, wireFlds, hdrFlds, bodyOf, skipTags, exMsg, exSess, protoTbl, protoBegin,
    AsyncFix.Generated.Proto.groupsBytes, AsyncFix.Generated.Proto.beginStringBytes,
    wfNodes, wfNode, wfItems, wfItem, Tbl.members?, okTag, isDigit,
    maxStrDigits, SOH, notOpen, openMembersNode, openMembersItems, openMembersCont, contTags,
    Node.tag, tag10, tag34, tag35, tag49, tag52, tag56]
  simpa [SOH] using natToDec_no_SOH _

end AsyncFix.Props.C01
