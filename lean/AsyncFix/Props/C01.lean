/-
C01 — encode/decode round trip (work in progress: framing layer + encoder shape are proved;
the group layer `stepAll_wfTop` is composed in when Lemmas/CodecGroups lands).
-/
import AsyncFix.Lemmas.CodecFrameB
import AsyncFix.Lemmas.CodecEncodeShape
namespace AsyncFix.Props.C01
open AsyncFix.Model.Codec

/-- the decoder on a structurally valid frame is exactly its field loop over the frame's fields:
whole frame consumed, raw bytes returned unchanged -/
theorem decode_valid_frame (bs : Bytes) (tbl : Tbl) (fs : List Fld)
    (hb : okBegin bs = true) (hf : okFields fs = true)
    (hd : (natToDec (bodyBytes fs).length).length ≤ maxStrDigits) :
    decode bs tbl (mkFrame bs fs) = decodeViaLoop bs tbl fs :=
  decode_mkFrame bs tbl fs hb hf hd

/-- the encoder's output is the valid frame of header fields + the body's wire-order fields -/
theorem encode_is_mkFrame (bs : Bytes) (m : Msg) (s : Session) (seq now : Bytes) (flat : List Fld)
    (hflat : addCont (bodyOf m) = .ok (flat.map fun f => fieldBytes f.tag f.val)) :
    assemble bs m s seq now = .ok (mkFrame bs (hdrFlds m.mtype s.sender s.target seq now ++ flat)) :=
  assemble_eq_mkFrame bs m s seq now flat hflat

end AsyncFix.Props.C01
