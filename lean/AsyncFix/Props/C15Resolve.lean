/-
C15, last sentence: "The outcome does not depend on the order in which components are declared
in the XML."  Theorems about the model of `FIXSchema._parse`'s deferred resolution loop
(Model/SchemaResolve.lean: `resolve` = the `while all_components:` sweeps, `expandBody` =
`_parse_msg_set`, incl. the `RuntimeError` for unresolvable references and the
`AssertionError`s of `SchemaSet.add` / `_parse_component`).

No acyclicity hypothesis is needed: success of ONE order is the hypothesis (it implies that the
references are acyclic and resolvable, that names are distinct and that no expansion adds a
field twice); conversely failure of one order is failure of every order.
-/
import AsyncFix.Lemmas.SchemaResolveC
namespace AsyncFix.Props.C15
open AsyncFix.Model.SchemaResolve

/-- If the declarations resolve in one order, they resolve in every order, to the same set of
    components with the same members (only the insertion order of `_components` may differ). -/
theorem resolve_perm {ds ds' : List CDecl} {E : Env} (hp : ds'.Perm ds) (h : resolve ds = .ok E) :
    ∃ E', resolve ds' = .ok E' ∧ ∀ n, E'.get n = E.get n :=
  resolve_perm_aux hp h

/-- … and if they fail (RuntimeError or AssertionError) in one order, they fail in every order. -/
theorem resolve_fail_perm {ds ds' : List CDecl} (hp : ds'.Perm ds)
    (h : ∀ E, resolve ds ≠ .ok E) : ∀ E', resolve ds' ≠ .ok E' := by
  intro E' h'
  obtain ⟨E, hE, _⟩ := resolve_perm_aux hp.symm h'
  exact h E hE

/-- What a successful resolution computes: every declared component is present and its members
    are the complete (undeferred, assertion-free) expansion of its declaration in the final
    environment itself – the denotation of the declarations, which mentions no order. -/
theorem resolve_fixpoint {ds : List CDecl} {E : Env} (h : resolve ds = .ok E) {n : String}
    {body : List Decl} (hm : (n, body) ∈ ds) :
    ∃ ms, E.get n = some ms ∧ expandBody E body [] false = .done ms false := by
  obtain ⟨ms, h1, h2, _⟩ := (resolve_ref h).full hm
  exact ⟨ms, h1, h2⟩

/-- message / header bodies expand identically after resolution in either order -/
theorem expandTop_perm {ds ds' : List CDecl} {E E' : Env} (hp : ds'.Perm ds)
    (h : resolve ds = .ok E) (h' : resolve ds' = .ok E') (body : List Decl) :
    expandTop E' body = expandTop E body := by
  obtain ⟨E'', hE'', hag⟩ := resolve_perm_aux hp h
  rw [h'] at hE''
  cases hE''
  unfold expandTop
  rw [expand_congr (env := E') (env2 := E) (fun c _ => hag c)]

/-! non-vacuity: `A` refers to `B` and (inside a group) to `C`, both declared later; `C` refers to `B` -/

def demo : List CDecl :=
  [("A", [.field "a" true, .comp "B", .group "NoG" false [.field "g" true, .comp "C"]]),
   ("C", [.comp "B", .field "c" false]),
   ("B", [.field "b" true])]

def demoEnv : Env :=
  [("B", [.field "b" true]),
   ("C", [.field "b" true, .field "c" false]),
   ("A", [.field "a" true, .field "b" true,
          .group "NoG" false [.field "g" true, .field "b" true, .field "c" false]])]

example : ∃ E, resolve demo = .ok E ∧ ∀ n, E.get n = demoEnv.get n := by
  have h : resolve demo.reverse = .ok demoEnv := by
    simp [resolve, resolveLoop, sweep, expandBody, demo, demoEnv, Env.get, addMem, mergeAll, RMem.name]
  exact resolve_perm (List.reverse_perm _).symm h

end AsyncFix.Props.C15
