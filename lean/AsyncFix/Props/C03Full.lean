/-
C03 without the "each valid frame decodes on its own" hypothesis.

Props/C03.lean states the chunk-independence theorems under
`hv : ∀ f ∈ frames, WFFrame bs f ∧ ∃ m, decode bs tbl f = .msg m f.length f`.
The second conjunct is a theorem (`wfframe_decodes`, Lemmas/CodecWFDecodes.lean: every structurally
valid frame decodes to a message that consumes exactly the frame, for every group table and every
`okFields` field list), so here the theorems are restated with the structural hypothesis
`hv : ∀ f ∈ frames, WFFrame bs f` ONLY: the stream is `g0 f1 g1 … fn gn` with `WFFrame` frames and
marker-free blocks between them; nothing else is assumed.
-/
import AsyncFix.Props.C03
import AsyncFix.Lemmas.CodecWFDecodes
namespace AsyncFix.Props.C03
open AsyncFix.Model.Codec

/-- the hypothesis of Props/C03.lean from the structural one -/
theorem hv_of_wf {bs : Bytes} {tbl : Tbl} {frames : List Bytes} (hb : okBegin bs = true)
    (hv : ∀ f ∈ frames, WFFrame bs f) :
    ∀ f ∈ frames, WFFrame bs f ∧ ∃ m, decode bs tbl f = .msg m f.length f :=
  fun f hf => ⟨hv f hf, wfframe_decodes bs tbl f hb (hv f hf)⟩

/-- **C03, full.**  Whatever the reads are, the reader hands over exactly the valid frames that
were sent, in order, each with the message the decoder produces for that frame alone. -/
theorem reader_chunk_independent_full (bs : Bytes) (tbl : Tbl) (frames : List Bytes) (gs : List Bytes)
    (chunks : List Bytes)
    (hb : okBegin bs = true)
    (hv : ∀ f ∈ frames, WFFrame bs f)
    (hg : ∀ g ∈ gs, NoMarker g) (hlen : gs.length = frames.length + 1)
    (hc : chunks.flatten = interleave gs frames) :
    (feedAll bs tbl [] chunks []).2 = frames.map (fun f => (msgOf bs tbl f, f)) :=
  reader_chunk_independent bs tbl frames gs chunks hb (hv_of_wf hb hv) hg hlen hc

/-- … and each delivered pair is a genuine decode result of its frame (not the `default` of `msgOf`). -/
theorem reader_delivers_decoded_full (bs : Bytes) (tbl : Tbl) (frames : List Bytes) (gs : List Bytes)
    (chunks : List Bytes)
    (hb : okBegin bs = true)
    (hv : ∀ f ∈ frames, WFFrame bs f)
    (hg : ∀ g ∈ gs, NoMarker g) (hlen : gs.length = frames.length + 1)
    (hc : chunks.flatten = interleave gs frames) :
    ((feedAll bs tbl [] chunks []).2.map (·.2) = frames) ∧
    ∀ p ∈ (feedAll bs tbl [] chunks []).2, decode bs tbl p.2 = .msg p.1 p.2.length p.2 := by
  rw [reader_chunk_independent_full bs tbl frames gs chunks hb hv hg hlen hc]
  refine ⟨by rw [List.map_map]; exact List.map_id' _, ?_⟩
  intro p hp
  obtain ⟨f, hf, rfl⟩ := List.mem_map.mp hp
  obtain ⟨m, hm⟩ := wfframe_decodes bs tbl f hb (hv f hf)
  simp only [msgOf_eq hm, hm]

/-- After all reads the buffer holds a (possibly empty) proper prefix of the marker that is a
suffix of the last junk block. -/
theorem reader_residual_buffer_full (bs : Bytes) (tbl : Tbl) (frames : List Bytes) (gs : List Bytes)
    (chunks : List Bytes)
    (hb : okBegin bs = true)
    (hv : ∀ f ∈ frames, WFFrame bs f)
    (hg : ∀ g ∈ gs, NoMarker g) (hlen : gs.length = frames.length + 1)
    (hc : chunks.flatten = interleave gs frames) :
    ∃ k, k < 6 ∧ (feedAll bs tbl [] chunks []).1 = marker.take k ∧
      (feedAll bs tbl [] chunks []).1 <:+ lastG gs :=
  reader_residual_buffer bs tbl frames gs chunks hb (hv_of_wf hb hv) hg hlen hc

/-- Two ways of cutting the same stream give the same deliveries. -/
theorem reader_chunkings_agree_full (bs : Bytes) (tbl : Tbl) (frames : List Bytes) (gs : List Bytes)
    (chunks₁ chunks₂ : List Bytes)
    (hb : okBegin bs = true)
    (hv : ∀ f ∈ frames, WFFrame bs f)
    (hg : ∀ g ∈ gs, NoMarker g) (hlen : gs.length = frames.length + 1)
    (hc₁ : chunks₁.flatten = interleave gs frames) (hc₂ : chunks₂.flatten = interleave gs frames) :
    (feedAll bs tbl [] chunks₁ []).2 = (feedAll bs tbl [] chunks₂ []).2 :=
  reader_chunkings_agree bs tbl frames gs chunks₁ chunks₂ hb (hv_of_wf hb hv) hg hlen hc₁ hc₂

/-- The degenerate chunking: one byte per read. -/
theorem reader_one_byte_reads_full (bs : Bytes) (tbl : Tbl) (frames : List Bytes) (gs : List Bytes)
    (hb : okBegin bs = true)
    (hv : ∀ f ∈ frames, WFFrame bs f)
    (hg : ∀ g ∈ gs, NoMarker g) (hlen : gs.length = frames.length + 1) :
    (feedAll bs tbl [] ((interleave gs frames).map fun b => [b]) []).2 =
      frames.map (fun f => (msgOf bs tbl f, f)) :=
  reader_one_byte_reads bs tbl frames gs hb (hv_of_wf hb hv) hg hlen

/-- The reader neither raises nor stalls on such a stream, for any buffer content that is a prefix
of it (in particular after every read). -/
theorem reader_no_raise_no_stall_full (bs : Bytes) (tbl : Tbl) (frames : List Bytes) (gs : List Bytes)
    (X R : Bytes)
    (hb : okBegin bs = true)
    (hv : ∀ f ∈ frames, WFFrame bs f)
    (hg : ∀ g ∈ gs, NoMarker g) (hlen : gs.length = frames.length + 1)
    (hs : X ++ R = interleave gs frames) :
    (readLoop bs tbl X []).raised = none ∧ (readLoop bs tbl X []).stalled = false :=
  reader_no_raise_no_stall bs tbl frames gs X R hb (hv_of_wf hb hv) hg hlen hs

/-! ### non-vacuity

The stream of Props/C03.lean (two frames, junk blocks ending in partial markers, reads ending
inside the marker / `9=` / `10=`, an empty read) satisfies the hypotheses – now without evaluating
`decode` on the frames – for the generated table and, equally, for a table under which the body
fields of the frames are NOT a well-formed group structure (34 a group with member 58: the second
frame's `34=2|55=A` opens a group whose count says 2 and that has no item). -/

def exTblOdd : Tbl := [([51, 52], [[53, 56]])]

example (tbl : Tbl) :
    okBegin protoBegin = true ∧
    (∀ f ∈ [exF1, exF2], WFFrame protoBegin f) ∧
    (∀ g ∈ exGs, NoMarker g) ∧ exGs.length = [exF1, exF2].length + 1 ∧
    exChunks.flatten = interleave exGs [exF1, exF2] ∧ exChunks.length = 7 ∧ [] ∈ exChunks ∧
    (feedAll protoBegin tbl [] exChunks []).2 =
      [(msgOf protoBegin tbl exF1, exF1), (msgOf protoBegin tbl exF2, exF2)] := by
  have hv : ∀ f ∈ [exF1, exF2], WFFrame protoBegin f := by
    intro f hf
    simp only [List.mem_cons, List.not_mem_nil, or_false] at hf
    rcases hf with rfl | rfl
    · exact ⟨exFs1, by decide +kernel, by decide +kernel, by decide +kernel⟩
    · exact ⟨exFs2, by decide +kernel, by decide +kernel, by decide +kernel⟩
  have hg : ∀ g ∈ exGs, NoMarker g := by
    intro g hg
    simp only [exGs, List.mem_cons, List.not_mem_nil, or_false] at hg
    rcases hg with rfl | rfl | rfl <;> (unfold NoMarker; decide +kernel)
  have hc : exChunks.flatten = interleave exGs [exF1, exF2] := by decide +kernel
  exact ⟨okBegin_proto, hv, hg, rfl, hc, rfl, by decide +kernel,
    reader_chunk_independent_full protoBegin tbl [exF1, exF2] exGs exChunks okBegin_proto hv hg rfl hc⟩

/-- the instance with the odd table: both frames are delivered as messages -/
example : ∃ m1 m2, (feedAll protoBegin exTblOdd [] exChunks []).2 = [(m1, exF1), (m2, exF2)] ∧
    decode protoBegin exTblOdd exF1 = .msg m1 exF1.length exF1 ∧
    decode protoBegin exTblOdd exF2 = .msg m2 exF2.length exF2 := by
  have h1 : WFFrame protoBegin exF1 := ⟨exFs1, by decide +kernel, by decide +kernel, by decide +kernel⟩
  have h2 : WFFrame protoBegin exF2 := ⟨exFs2, by decide +kernel, by decide +kernel, by decide +kernel⟩
  obtain ⟨m1, hm1⟩ := wfframe_decodes protoBegin exTblOdd exF1 okBegin_proto h1
  obtain ⟨m2, hm2⟩ := wfframe_decodes protoBegin exTblOdd exF2 okBegin_proto h2
  refine ⟨m1, m2, ?_, hm1, hm2⟩
  have hv : ∀ f ∈ [exF1, exF2], WFFrame protoBegin f := by
    intro f hf
    simp only [List.mem_cons, List.not_mem_nil, or_false] at hf
    rcases hf with rfl | rfl
    · exact h1
    · exact h2
  have hg : ∀ g ∈ exGs, NoMarker g := by
    intro g hg
    simp only [exGs, List.mem_cons, List.not_mem_nil, or_false] at hg
    rcases hg with rfl | rfl | rfl <;> (unfold NoMarker; decide +kernel)
  rw [reader_chunk_independent_full protoBegin exTblOdd [exF1, exF2] exGs exChunks okBegin_proto hv hg
    rfl (by decide +kernel)]
  simp only [List.map_cons, List.map_nil, msgOf_eq hm1, msgOf_eq hm2]

/-- **Cut-off stream, full.**  `reader_truncated_stream` with the structural hypothesis only. -/
theorem reader_truncated_stream_full (bs : Bytes) (tbl : Tbl) (frames : List Bytes) (gs : List Bytes)
    (chunks : List Bytes) (R : Bytes)
    (hb : okBegin bs = true)
    (hv : ∀ f ∈ frames, WFFrame bs f)
    (hg : ∀ g ∈ gs, NoMarker g) (hlen : gs.length = frames.length + 1)
    (hc : chunks.flatten ++ R = interleave gs frames) :
    ∃ j, j ≤ frames.length ∧
      (feedAll bs tbl [] chunks []).2 = (frames.take j).map (fun f => (msgOf bs tbl f, f)) ∧
      R.length ≤ (interleave (gs.drop j) (frames.drop j)).length ∧
      (j < frames.length → (interleave (gs.drop (j + 1)) (frames.drop (j + 1))).length < R.length) :=
  reader_truncated_stream bs tbl frames gs chunks R hb (hv_of_wf hb hv) hg hlen hc

end AsyncFix.Props.C03
