/-
C16 — the order status transition function is total, closed and lifecycle-safe.

All theorems are about `changeStatus spec`, where `spec` is the table GENERATED
from asyncfix/protocol/order_single.py on every run, and quantify over *all
strings* for status / kind / ExecType / reported status (enum members are their
values; anything else, including the `0` "omitted" marker and `None`, behaves
as a string that is no key).  They are reduced by `cellOf_norm` to a finite check
over (keys ∪ {fresh})⁴ that the kernel evaluates (`decide +kernel`).
-/
import AsyncFix.Generated.OrderTable
import AsyncFix.Lemmas.OrderTable
namespace AsyncFix.Props.C16
open AsyncFix.Model.OrderTable AsyncFix.Generated.OrderTable

def stVals : List String := ordStatus.map (·.2)
def exVals : List String := execType.map (·.2)

/-- key universes: every key of the generated tables plus every enum value -/
def U : Universe :=
  { K := spec.map (·.1)
    S := (spec.flatMap (·.2.statusKeys) ++ stVals).eraseDups
    E := (spec.flatMap (·.2.execKeys) ++ exVals).eraseDups
    R := (spec.flatMap (·.2.repKeys) ++ stVals).eraseDups
    fresh := "<other>" }

theorem spec_ok : spec.ok U.K U.S U.E U.R U.fresh = true := by decide +kernel

/-- no duplicate keys anywhere (a Python dict literal would keep the last, `lookup` the first) -/
def nodupKeys : Bool :=
  (spec.map (·.1)).Nodup && spec.all fun p =>
    (p.2.rows.map (·.1)).Nodup

theorem spec_nodup : nodupKeys = true := by decide +kernel

def finished : List String := ["2", "4", "8", "C"]       -- FILLED CANCELED REJECTED EXPIRED
def reportKinds : List String := ["8", "9"]               -- ExecutionReport, OrderCancelReject
def requestKinds : List String := ["F", "G"]              -- OrderCancelRequest, OrderCancelReplaceRequest
def live : List String := ["0", "1", "9"]                 -- NEW PARTIALLY_FILLED SUSPENDED
def pendingReq : List String := ["6", "E"]                -- PENDING_CANCEL PENDING_REPLACE

theorem finished_sub : ∀ x ∈ finished, x ∈ U.S := by decide +kernel
theorem live_sub : ∀ x ∈ live, x ∈ U.S := by decide +kernel
theorem pendingReq_sub : ∀ x ∈ pendingReq, x ∈ U.S := by decide +kernel
theorem reportKinds_sub : ∀ x ∈ reportKinds, x ∈ U.K := by decide +kernel
theorem requestKinds_sub : ∀ x ∈ requestKinds, x ∈ U.K := by decide +kernel
theorem fresh_K : U.fresh ∉ U.K := by decide +kernel
theorem fresh_S : U.fresh ∉ U.S := by decide +kernel
theorem fresh_R : U.fresh ∉ U.R := by decide +kernel
theorem Z_S : "Z" ∈ U.S := by decide +kernel
theorem Z_R : "Z" ∈ U.R := by decide +kernel
theorem A_R : "A" ∈ U.R := by decide +kernel
theorem r8_R : "8" ∈ U.R := by decide +kernel
theorem k8_K : "8" ∈ U.K := by decide +kernel

/-! ## 1. closed result set (trichotomy) -/

/-- Full statement of the first sentence of C16 (for *every* kind). -/
def trichotomy_full : Prop :=
  ∀ status kind exec rep raise,
    changeStatus spec status kind exec rep raise = .to rep ∨
    changeStatus spec status kind exec rep raise = .none ∨
    (changeStatus spec status kind exec rep raise = .raised ∧ raise = true)

/-- Proved part: for every kind that has a table (8, 9, F, G on the current tree).  Excluded:
unsupported kinds, for which `change_status` raises even with `raise_on_err=False`
(known finding C16-unsupported-kind-raises; `Findings/C16.lean` refutes `trichotomy_full`). -/
theorem trichotomy_partial (status kind exec rep : String) (raise : Bool)
    (hk : kind ∈ spec.map Prod.fst) :
    changeStatus spec status kind exec rep raise = .to rep ∨
    changeStatus spec status kind exec rep raise = .none ∨
    (changeStatus spec status kind exec rep raise = .raised ∧ raise = true) := by
  obtain ⟨t, ht⟩ := lookup_isSome_of_mem hk
  unfold changeStatus cellOf
  rw [ht]
  simp only
  cases t.eval status exec rep <;> cases raise <;> simp

/-- the error mode never changes a non-error answer -/
theorem raise_mode_only_affects_errors (status kind exec rep : String) :
    changeStatus spec status kind exec rep false = .raised ∨
    changeStatus spec status kind exec rep false = changeStatus spec status kind exec rep true ∨
    (changeStatus spec status kind exec rep false = .none ∧
     changeStatus spec status kind exec rep true = .raised) := by
  unfold changeStatus
  cases cellOf spec kind status exec rep with
  | noTable => simp
  | cell c => cases c <;> simp

/-! ## 2. finished statuses are absorbing -/

theorem finished_tbl : checkAll spec U (fun _ s _ _ o => !finished.contains s || o != .cell .go) = true := by
  decide +kernel

theorem finished_absorbing (status kind exec rep x : String) (raise : Bool)
    (hs : status ∈ finished) : changeStatus spec status kind exec rep raise ≠ .to x := by
  have h := checkAll_spec spec_ok finished_tbl kind status exec rep
  simp only [contains_norm finished_sub fresh_S] at h
  have hc : finished.contains status = true := by simpa using hs
  simp only [hc, Bool.not_true, Bool.false_or, bne_iff_ne, ne_eq] at h
  unfold changeStatus
  cases hco : cellOf spec kind status exec rep with
  | noTable => simp
  | cell c => cases c <;> cases raise <;> simp_all

/-! ## 3. no report moves an order back to CREATED -/

theorem created_tbl : checkAll spec U
    (fun k _ _ r o => !(reportKinds.contains k && r == "Z") || o != .cell .go) = true := by
  decide +kernel

theorem never_back_to_created (status kind exec rep : String) (raise : Bool)
    (hk : kind ∈ reportKinds) : changeStatus spec status kind exec rep raise ≠ .to "Z" := by
  intro hres
  have hrep : rep = "Z" := by
    unfold changeStatus at hres
    cases hco : cellOf spec kind status exec rep with
    | noTable => simp [hco] at hres
    | cell c => cases c <;> (try cases raise) <;> simp_all
  subst hrep
  have h := checkAll_spec spec_ok created_tbl kind status exec "Z"
  simp only [contains_norm reportKinds_sub fresh_K, beq_norm Z_R fresh_R] at h
  have hc : reportKinds.contains kind = true := by simpa using hk
  simp only [hc, beq_self_eq_true, Bool.and_self, Bool.not_true, Bool.false_or, bne_iff_ne, ne_eq] at h
  unfold changeStatus at hres
  cases hco : cellOf spec kind status exec "Z" with
  | noTable => simp [hco] at hres
  | cell c => cases c <;> (try cases raise) <;> simp_all

/-! ## 4. no report moves an acknowledged order back to PENDING_NEW -/

/-- Full statement: for both report kinds only a CREATED order can become PENDING_NEW. -/
def never_ack_to_pending_new_full : Prop :=
  ∀ status kind exec rep raise, kind ∈ reportKinds →
    changeStatus spec status kind exec rep raise = .to "A" → status = "Z"

theorem pending_new_tbl : checkAll spec U
    (fun k s _ r o => !(k == "8" && r == "A" && !(s == "Z")) || o != .cell .go) = true := by
  decide +kernel

/-- Proved part: execution reports.  Excluded: OrderCancelReject (kind 9) reporting PENDING_NEW,
which the unchanged code accepts from every non-finished status other than CREATED and which two
existing tests assert (known finding C16-kind9-pending-new). -/
theorem never_ack_to_pending_new_partial (status exec rep : String) (raise : Bool)
    (hres : changeStatus spec status "8" exec rep raise = .to "A") : status = "Z" := by
  have hrep : rep = "A" := by
    unfold changeStatus at hres
    cases hco : cellOf spec "8" status exec rep with
    | noTable => simp [hco] at hres
    | cell c => cases c <;> (try cases raise) <;> simp_all
  subst hrep
  have h := checkAll_spec spec_ok pending_new_tbl "8" status exec "A"
  simp only [beq_norm k8_K fresh_K, beq_norm A_R fresh_R, beq_norm Z_S fresh_S] at h
  unfold changeStatus at hres
  cases hco : cellOf spec "8" status exec "A" with
  | noTable => simp [hco] at hres
  | cell c => cases c <;> (try cases raise) <;> simp_all

/-! ## 5. a just-created order accepts only PENDING_NEW or REJECTED -/

theorem created_accepts_tbl : checkAll spec U
    (fun _ s _ r o => !(s == "Z") || r == "A" || r == "8" || o != .cell .go) = true := by
  decide +kernel

theorem created_accepts_only (kind exec rep x : String) (raise : Bool)
    (hres : changeStatus spec "Z" kind exec rep raise = .to x) : x = "A" ∨ x = "8" := by
  have hx : x = rep ∧ cellOf spec kind "Z" exec rep = .cell .go := by
    unfold changeStatus at hres
    cases hco : cellOf spec kind "Z" exec rep with
    | noTable => simp [hco] at hres
    | cell c => cases c <;> (try cases raise) <;> simp_all
  obtain ⟨rfl, hgo⟩ := hx
  have h := checkAll_spec spec_ok created_accepts_tbl kind "Z" exec x
  simp only [beq_norm Z_S fresh_S, beq_norm A_R fresh_R, beq_norm r8_R fresh_R, hgo] at h
  simpa using h

/-- … and both are indeed accepted from an execution report (non-vacuity of the above). -/
example : changeStatus spec "Z" "8" "A" "A" true = .to "A" := by decide +kernel
example : changeStatus spec "Z" "8" "8" "8" true = .to "8" := by decide +kernel

/-! ## 6. cancel / replace requests -/

theorem gate_tbl : checkAll spec U
    (fun k s _ _ o => !requestKinds.contains k ||
      (if live.contains s then o == .cell .go
       else if pendingReq.contains s then o == .cell .stay
       else o == .cell .err)) = true := by
  decide +kernel

theorem gate_cell (status kind exec rep : String) (hk : kind ∈ requestKinds) :
    cellOf spec kind status exec rep =
      if status ∈ live then .cell .go else if status ∈ pendingReq then .cell .stay else .cell .err := by
  have h := checkAll_spec spec_ok gate_tbl kind status exec rep
  simp only [contains_norm requestKinds_sub fresh_K, contains_norm live_sub fresh_S,
    contains_norm pendingReq_sub fresh_S] at h
  have hc : requestKinds.contains kind = true := by simpa using hk
  simp only [hc, Bool.not_true, Bool.false_or] at h
  by_cases h1 : status ∈ live
  · have : live.contains status = true := by simpa using h1
    simp only [this, if_true] at h
    simp [h1, beq_iff_eq.mp h]
  · have n1 : live.contains status = false := by simpa using h1
    by_cases h2 : status ∈ pendingReq
    · have : pendingReq.contains status = true := by simpa using h2
      simp only [n1, this, if_true, Bool.false_eq_true, if_false] at h
      simp [h1, h2, beq_iff_eq.mp h]
    · have n2 : pendingReq.contains status = false := by simpa using h2
      simp only [n1, n2, Bool.false_eq_true, if_false] at h
      simp [h1, h2, beq_iff_eq.mp h]

/-- permitted exactly for NEW / PARTIALLY_FILLED / SUSPENDED, ignored while a request is pending,
refused otherwise (an error, surfaced as an exception only in raising mode) -/
theorem cancel_replace_gate (status kind exec rep : String) (raise : Bool) (hk : kind ∈ requestKinds) :
    changeStatus spec status kind exec rep raise =
      if status ∈ live then .to rep
      else if status ∈ pendingReq then .none
      else if raise then .raised else .none := by
  unfold changeStatus
  rw [gate_cell status kind exec rep hk]
  by_cases h1 : status ∈ live
  · simp [h1]
  · by_cases h2 : status ∈ pendingReq
    · simp [h1, h2]
    · cases raise <;> simp [h1, h2]

/-- `can_cancel()` / `can_replace()` as the library computes them -/
def canRequest (status kind : String) : Bool :=
  changeStatus spec status kind "0" (if kind = "F" then "6" else "E") false != .none

theorem canRequest_iff (status kind : String) (hk : kind ∈ requestKinds) :
    canRequest status kind = true ↔ status ∈ live := by
  unfold canRequest
  rw [cancel_replace_gate _ _ _ _ _ hk]
  by_cases h1 : status ∈ live
  · simp [h1]
  · by_cases h2 : status ∈ pendingReq <;> simp [h1, h2]

end AsyncFix.Props.C16
