import AsyncFix.Lemmas.SessionResendMain
import AsyncFix.Lemmas.SessionResendWitness
import AsyncFix.Lemmas.SessionResendShared

/-!
# C06 – a ResendRequest is answered completely, in order and without side effects

Code: asyncfix/connection.py `_process_resend` (+ `send_msg`, `should_replay`, `Codec.encode`,
journaler `recover_messages` / `set_seq_num` / `persist_msg`); model: `Model/SessionResend.lean`
(`processResend`), entry point `recv` (`Model/Session.lean`).

The SPEC of a correct reply is `C06.ReplyChain` (`Lemmas/SessionResendSpec.lean`, definitions only):
the written frames cover `[b, last]` exactly once, ascending and abutting; each frame is either the
retransmission of the replayable journal row of that number (same MsgSeqNum, PossDupFlag=Y,
OrigSendingTime = first sending time, same content fields in the same order, same type) or a
SequenceReset-GapFill `[a, a')` over numbers none of which is a replayable row.

All theorems are for ALL journals (any length), ALL `should_replay` predicates `sr`, ALL counters.

* `resend_full`                   – ALL (BeginSeqNo, EndSeqNo): served up to `min(EndSeqNo, last sent)` with
                                    the rows after it untouched, or ignored (numbers never sent)
* `resend_reply_chain`            – the open-ended case (EndSeqNo = 0, or ≥ last sent) spelled out
* `invalid_request_no_side_effect`– BeginSeqNo < 1 or ≥ next outbound number: exact post-state
* `no_session_message_retransmitted`, `reply_numbers_ascending` – what every chain implies

History: until /repo da179c4 a bounded EndSeqNo below the last sent number (class D9) gap-filled and
deleted the journal rows after EndSeqNo; `resend_full` was then only a `def` with a refutation.
-/
namespace AsyncFix.Session.C06
open Msg AsyncFix.Generated AsyncFix.Generated.ConnEnum

/-- what the theorems assume about the connection, the clock and the frame around the request -/
structure Hyp (env : Env) (c : Conn) (m : Msg) (b e : Int) : Prop where
  /-- ACTIVE, or the receiver itself awaits a resend (and this request does not close its own gap) -/
  state : c.state = st_ACTIVE ∨ (c.state = st_RESENDREQ_AWAITING ∧ c.sess.nextIn < c.maxResend)
  /-- a transport is there -/
  sock : c.sock = true
  /-- CompIDs and the clock text are single-byte (else `send_msg` refuses with EncodingError) -/
  lsender : isLatin1 c.sess.sender = true
  ltarget : isLatin1 c.sess.target = true
  lstamp : isLatin1 env.stamp = true
  /-- property C05: rows ascending, row `n` is a complete frame numbered `n`, rows `< nextOut`,
  stored counter = `nextOut − 1` -/
  inv : OutInv c
  /-- the frame passes `_validate_integrity` and carries the expected MsgSeqNum -/
  envelope : Envelope c m
  /-- it is a ResendRequest(BeginSeqNo = b, EndSeqNo = e) -/
  req : Req m b e
  /-- journal numbers fit SQLite's INTEGER (`EndSeqNo = 0` is replaced by `sys.maxsize`) -/
  fits : c.sess.nextOut - 1 ≤ sysMaxsize

/-- the request was served up to `last`: reply chain, no side effects outside `[b, last]` -/
def Served (sr : Msg → Bool) (env : Env) (c : Conn) (m : Msg) (b last : Int) : Prop :=
  ∃ sent : Rows,
    writes (recv sr env c m).2 = sent.map (·.2) ∧
    ReplyChain c.sess c.journal.out sr b last (sent.map (·.2)) ∧
    Quiet (recv sr env c m).2 ∧
    (recv sr env c m).1.sess.nextOut = c.sess.nextOut ∧
    (recv sr env c m).1.journal.outSeq = c.journal.outSeq ∧
    (recv sr env c m).1.state = c.state ∧
    (recv sr env c m).1.journal.out =
      c.journal.out.below b ++ sent ++ c.journal.out.filter (fun p => last < p.1) ∧
    (∀ p ∈ sent, b ≤ p.1 ∧ p.1 ≤ last ∧ RowOK p.1 p.2) ∧
    (∀ n, n < b → (recv sr env c m).1.journal.out.find n = c.journal.out.find n) ∧
    OutInv (recv sr env c m).1

/-- the request was ignored: nothing written, outbound side and state untouched -/
def Ignored (sr : Msg → Bool) (env : Env) (c : Conn) (m : Msg) : Prop :=
  writes (recv sr env c m).2 = [] ∧
  (recv sr env c m).1.sess.nextOut = c.sess.nextOut ∧
  (recv sr env c m).1.journal.outSeq = c.journal.outSeq ∧
  (recv sr env c m).1.journal.out = c.journal.out ∧
  (recv sr env c m).1.state = c.state ∧
  (Rows.AllLt c.sess.nextIn c.journal.inb → Quiet (recv sr env c m).2)

/-- **Invalid request** (`BeginSeqNo < 1` or `≥ nextOut`: numbers never sent).  `_process_resend`
returns normally, writes nothing, and leaves the connection exactly as it was except that ACTIVE is
(re-)recorded in `wasActive`; the only effects are the two state notifications of the excursion
RESENDREQ_HANDLING → ACTIVE (none while awaiting).  Through `recv`: no frame written; `nextOut`, the
stored counter, all outbound rows and the state unchanged. -/
theorem invalid_request_no_side_effect (sr : Msg → Bool) (env : Env) (c : Conn) (m : Msg) (b e : Int)
    (hst : c.state = st_ACTIVE ∨ (c.state = st_RESENDREQ_AWAITING ∧ c.sess.nextIn < c.maxResend))
    (henv : Envelope c m) (hreq : Req m b e) (hbad : b < 1 ∨ c.sess.nextOut ≤ b) :
    processResend env sr m c = ⟨.ok (), ignored c, pre c ++ post c⟩ ∧ Ignored sr env c m := by
  have hst' : c.state = st_ACTIVE ∨ c.state = st_RESENDREQ_AWAITING := by
    rcases hst with h1 | ⟨h1, _⟩
    · exact Or.inl h1
    · exact Or.inr h1
  have epr := processResend_invalid env sr m c b e hst' hreq hbad
  refine ⟨epr, ?_⟩
  obtain ⟨v, h34, hv⟩ := henv.seq
  obtain ⟨f1, f2, _, _, f5, f6, f7, f8⟩ := finalize_req env m (ignored c) v hreq.mtype h34 hv
    (by
      intro haw
      rcases hst with h1 | ⟨_, h2⟩
      · have : c.state = st_RESENDREQ_AWAITING := haw
        rw [h1] at this; exact absurd this (by decide)
      · exact h2)
  have hrecv := recv_of_resend sr env c (ignored c) m _ hreq.mtype henv hst' epr
  rw [f7] at hrecv
  refine ⟨?_, ?_, ?_, ?_, ?_, ?_⟩
  · rw [hrecv]
    simp only [writes_append, writes_pre, writes_post, writes_raisedOf, List.append_nil]
  · rw [hrecv]; exact f2
  · rw [hrecv]; exact f6
  · rw [hrecv]; exact f5
  · rw [hrecv]; exact f1
  · intro hl
    rw [hrecv, f8 hl]
    simp only [raisedOf, List.append_nil]
    exact quiet_append (quiet_pre c) (quiet_post c)

/-- Session-level messages (`noreply_msgs`) are never retransmitted: every frame of a reply chain is a
SequenceReset-GapFill or the PossDupFlag=Y copy of a message whose type is not in that set. -/
theorem no_session_message_retransmitted {s : Session} {J : Rows} {sr : Msg → Bool} {b last : Int}
    {frames : List Msg} (h : ReplyChain s J sr b last frames) :
    ∀ g ∈ frames, (g.mtype = mSequenceReset ∧ g.get? tGapFillFlag = some "Y") ∨
      (ConnEnum.noReplay.contains g.mtype = false ∧ g.get? tPossDupFlag = some "Y") :=
  chain_frames h

/-- The MsgSeqNums of a reply chain are strictly ascending numbers of `[b, last]`, starting at `b`. -/
theorem reply_numbers_ascending {s : Session} {J : Rows} {sr : Msg → Bool} {b last : Int}
    {frames : List Msg} (h : ReplyChain s J sr b last frames) :
    ∃ ns : List Int, frames.map (·.get? tMsgSeqNum) = ns.map (fun n => some (pyStr n)) ∧
      ns.Pairwise (· < ·) ∧ (∀ n ∈ ns, b ≤ n ∧ n ≤ last) ∧
      (∀ g ∈ frames.head?, g.get? tMsgSeqNum = some (pyStr b)) := by
  obtain ⟨ns, h1, h2, h3, h4⟩ := chain_seqs h
  exact ⟨ns, h1, h2, fun n hn => ⟨(h3 n hn).1, by have := (h3 n hn).2; omega⟩, h4⟩

/-- the last number a request `(b, e)` asks for: `e = 0` means "everything", an `e` beyond the last
sent number is cut there, `e < b` asks for nothing -/
def reqLast (c : Conn) (b e : Int) : Int :=
  if e = 0 ∨ c.sess.nextOut - 1 ≤ e then c.sess.nextOut - 1 else if e < b then b - 1 else e

theorem chainEnd_eq (c : Conn) (b e : Int) (hb2 : b < c.sess.nextOut)
    (hfits : c.sess.nextOut - 1 ≤ sysMaxsize) : chainEnd c b e = reqLast c b e + 1 := by
  unfold chainEnd effEnd reqLast
  by_cases h0 : e = 0
  · subst h0; simp only [beq_self_eq_true, if_true, true_or]; omega
  · have : (e == 0) = false := by simpa using h0
    simp only [this, Bool.false_eq_true, if_false, h0, false_or]
    split
    · omega
    · split <;> omega

theorem tailRows_eq (c : Conn) (b e : Int)
    (hfits : c.sess.nextOut - 1 ≤ sysMaxsize) (hlt : Rows.AllLt c.sess.nextOut c.journal.out) :
    tailRows c b e = c.journal.out.filter (fun p => reqLast c b e < p.1) := by
  unfold tailRows Rows.range
  rw [List.filter_filter]
  apply List.filter_congr
  intro p hp
  have hp' := hlt p hp
  unfold effEnd reqLast
  by_cases h0 : e = 0
  · subst h0
    simp only [beq_self_eq_true, if_true, true_or]
    have : ¬ (sysMaxsize < p.1) := by omega
    have h2 : ¬ (c.sess.nextOut - 1 < p.1) := by omega
    simp [this, h2]
  · have : (e == 0) = false := by simpa using h0
    simp only [this, Bool.false_eq_true, if_false, h0, false_or]
    split
    · have h1 : ¬ (e < p.1) := by omega
      have h2 : ¬ (c.sess.nextOut - 1 < p.1) := by omega
      simp [h1, h2]
    · split
      · by_cases hb : b ≤ p.1
        · have h1 : e < p.1 := by omega
          have h2 : b - 1 < p.1 := by omega
          have h3 : p.1 ≤ sysMaxsize := by omega
          simp [h1, h2, hb, h3]
        · have h2 : ¬ (b - 1 < p.1) := by omega
          simp [h2, hb]
      · by_cases he : e < p.1
        · have hb : b ≤ p.1 := by omega
          have h3 : p.1 ≤ sysMaxsize := by omega
          simp [he, hb, h3]
        · simp [he]

/-- **Every request.**  For every journal satisfying the outbound invariant (any length), every replay
filter, all counters, every `(BeginSeqNo, EndSeqNo)`, in ACTIVE or RESENDREQ_AWAITING: a request for
numbers that were sent (`1 ≤ b < nextOut`) is served up to `last = reqLast` – the frames written by
`recv` form a `ReplyChain` covering exactly `[b, last]`, nothing else happens (`Quiet`), `nextOut`, the
stored counter and the state are what they were, the journal is the old rows `< b`, then exactly the
frames written (each under its own number), then the old rows `> last` untouched, and `OutInv` holds
again; any other request is ignored without a trace. -/
theorem resend_full (sr : Msg → Bool) (env : Env) (c : Conn) (m : Msg) (b e : Int)
    (h : Hyp env c m b e) :
    if 1 ≤ b ∧ b < c.sess.nextOut then Served sr env c m b (reqLast c b e) else Ignored sr env c m := by
  split
  · rename_i hb
    obtain ⟨hb1, hb2⟩ := hb
    have hst : c.state = st_ACTIVE ∨ c.state = st_RESENDREQ_AWAITING := by
      rcases h.state with h1 | ⟨h1, _⟩
      · exact Or.inl h1
      · exact Or.inr h1
    obtain ⟨sent, epr, ch, so, lt, ltz, ok⟩ :=
      processResend_valid env sr m c b e hst h.sock h.lsender h.ltarget h.lstamp h.req h.inv hb1 hb2
        h.fits
    rw [chainEnd_eq c b e hb2 h.fits] at ch ltz
    rw [tailRows_eq c b e h.fits h.inv.lt] at epr so lt
    obtain ⟨v, h34, hv⟩ := h.envelope.seq
    have hfin := finalize_req env m
      (answered c b sent (c.journal.out.filter fun p => reqLast c b e < p.1)) v h.req.mtype h34 hv
      (by
        intro haw
        rcases h.state with h1 | ⟨_, h2⟩
        · have : c.state = st_RESENDREQ_AWAITING := haw
          rw [h1] at this; exact absurd this (by decide)
        · exact h2)
    obtain ⟨f1, f2, _, _, f5, f6, f7, f8⟩ := hfin
    have hok := f8 (Rows.allLt_below _ _)
    have hrecv := recv_of_resend sr env c _ m _ h.req.mtype h.envelope hst epr
    rw [f7, hok] at hrecv
    simp only [raisedOf, List.append_nil] at hrecv
    have hout : (recv sr env c m).1.journal.out =
        c.journal.out.below b ++ sent ++ c.journal.out.filter (fun p => reqLast c b e < p.1) := by
      rw [hrecv]; exact f5
    have htail : ∀ p ∈ c.journal.out.filter (fun p => decide (reqLast c b e < p.1)),
        p ∈ c.journal.out ∧ b ≤ p.1 := by
      intro p hp
      obtain ⟨h1, h2⟩ := List.mem_filter.mp hp
      have hz := chain_le ch
      simp only [decide_eq_true_eq] at h2
      exact ⟨h1, by omega⟩
    refine ⟨sent, ?_, ch, ?_, ?_, ?_, ?_, hout, ?_, ?_, ?_⟩
    · rw [hrecv]
      simp only [writes_append, writes_pre, writes_post, writes_map_write, List.nil_append,
        List.append_nil]
    · rw [hrecv]
      refine quiet_append (quiet_append (quiet_pre c) ?_) (quiet_post c)
      intro x hx
      obtain ⟨p, _, rfl⟩ := List.mem_map.mp hx
      exact Or.inl ⟨_, rfl⟩
    · rw [hrecv]; exact f2
    · rw [hrecv]
      exact f6.trans (by show c.sess.nextOut - 1 = c.journal.outSeq; have := h.inv.stored; omega)
    · rw [hrecv]; exact f1
    · intro p hp
      have := ltz p (List.mem_append.mpr (Or.inr hp))
      exact ⟨(ok p hp).2, by omega, (ok p hp).1⟩
    · intro n hn
      rw [hout, List.append_assoc]
      refine find_below_append h.inv.sorted (by rw [← List.append_assoc]; exact so) ?_ hn
      intro p hp
      rcases List.mem_append.mp hp with h1 | h1
      · exact (ok p h1).2
      · exact (htail p h1).2
    · refine ⟨by rw [hout]; exact so, ?_, ?_, ?_⟩
      · rw [hout, hrecv]; simp only [f2]; exact lt
      · rw [hout]
        intro p hp
        rcases List.mem_append.mp hp with h1 | h1
        · rcases List.mem_append.mp h1 with h2 | h2
          · exact h.inv.rows p (Rows.mem_below.mp h2).1
          · exact (ok p h2).1
        · exact h.inv.rows p (htail p h1).1
      · rw [hrecv]
        show (finalizeMessage env m _).conn.journal.outSeq + 1 = (finalizeMessage env m _).conn.sess.nextOut
        rw [f6, f2]
        show c.sess.nextOut - 1 + 1 = c.sess.nextOut
        omega
  · rename_i hb
    exact (invalid_request_no_side_effect sr env c m b e h.state h.envelope h.req (by omega)).2

/-- **Open-ended request** (EndSeqNo `0` or `≥` the last sent number), spelled out: the chain covers
exactly `[b, nextOut − 1]` and the journal is the old rows `< b` followed by exactly the frames written. -/
theorem resend_reply_chain (sr : Msg → Bool) (env : Env) (c : Conn) (m : Msg) (b e : Int)
    (h : Hyp env c m b e) (hb1 : 1 ≤ b) (hb2 : b < c.sess.nextOut)
    (he : e = 0 ∨ c.sess.nextOut - 1 ≤ e) :
    ∃ sent : Rows,
      writes (recv sr env c m).2 = sent.map (·.2) ∧
      ReplyChain c.sess c.journal.out sr b (c.sess.nextOut - 1) (sent.map (·.2)) ∧
      Quiet (recv sr env c m).2 ∧
      (recv sr env c m).1.sess.nextOut = c.sess.nextOut ∧
      (recv sr env c m).1.journal.outSeq = c.journal.outSeq ∧
      (recv sr env c m).1.state = c.state ∧
      (recv sr env c m).1.journal.out = c.journal.out.below b ++ sent ∧
      (∀ p ∈ sent, b ≤ p.1 ∧ p.1 < c.sess.nextOut ∧ RowOK p.1 p.2) ∧
      (∀ n, n < b → (recv sr env c m).1.journal.out.find n = c.journal.out.find n) ∧
      OutInv (recv sr env c m).1 := by
  have hf := resend_full sr env c m b e h
  rw [if_pos ⟨hb1, hb2⟩] at hf
  have hlast : reqLast c b e = c.sess.nextOut - 1 := by unfold reqLast; rw [if_pos he]
  rw [hlast] at hf
  obtain ⟨sent, g1, g2, g3, g4, g5, g6, g7, g8, g9, g10⟩ := hf
  have hnil : c.journal.out.filter (fun p => decide (c.sess.nextOut - 1 < p.1)) = [] := by
    rw [List.filter_eq_nil_iff]
    intro p hp
    have := h.inv.lt p hp
    simp only [decide_eq_true_eq]; omega
  rw [hnil, List.append_nil] at g7
  refine ⟨sent, g1, g2, g3, g4, g5, g6, g7, ?_, g9, g10⟩
  intro p hp
  obtain ⟨a1, a2, a3⟩ := g8 p hp
  exact ⟨a1, by omega, a3⟩

/-! ### a journal shared with other sessions

The session model holds the journal of one session; `Served` / `Ignored` speak about its rows.  When the
same `Journaler` also serves other sessions, nothing of theirs may change either.  `_process_resend`
calls the journaler only through `recover_messages`, `set_seq_num` and `persist_msg` with its own
session object (`OnSession k`); for the multi-session journal model of property C13: -/

/-- Any sequence of journaler calls made with session `k`'s object, on any journal satisfying C13's
invariant (i.e. after any history, `C13.jinv_reachable`), leaves every OTHER session's rows (inbound and
outbound, every number), stored counters and CompID registration exactly as they were. -/
theorem journal_calls_leave_other_sessions (j : AsyncFix.Model.Journal.Journal)
    (hinv : AsyncFix.Model.Journal.JInv j) (ops : List AsyncFix.Model.Journal.Op) (k : Int)
    (h : ∀ op ∈ ops, OnSession k op) :
    SameElsewhere k (AsyncFix.Model.Journal.abs j)
      (AsyncFix.Model.Journal.abs (AsyncFix.Model.Journal.applyOps j ops)) :=
  other_sessions_untouched j hinv ops k h

/-! ### non-vacuity: a concrete journal satisfies the hypotheses and yields the expected chain

Journal (next outbound number 7): 1 application message, 2 Heartbeat (session level), 3 application
message the filter declines, 4 missing, 5 application message, 6 missing.  ResendRequest(1, 0) is
answered by exactly four frames: copy of 1, GapFill 2 → 5, copy of 5, GapFill 6 → 7. -/
section NonVacuity
open Witness

def J4 : Rows := [app 1, row 2 "0" [], app 3, app 5]
def c4 : Conn := conn 7 J4
/-- the application declines MsgSeqNum 3 -/
def sr3 : Msg → Bool := fun m => m.get? tMsgSeqNum != some "3"

theorem outInv4 : OutInv c4 where
  sorted := by simp [c4, conn, J4, Rows.Sorted, app, row]
  lt := by
    intro p hp
    simp [c4, conn, J4, app, row] at hp
    rcases hp with h|h|h|h <;> subst h <;> decide
  rows := by
    intro p hp
    simp only [c4, conn, J4, List.mem_cons, List.not_mem_nil, or_false] at hp
    rcases hp with h|h|h|h <;> subst h <;>
      exact rowOK_row _ _ _ (by decide) (by decide) (by decide +kernel) (by decide +kernel)
  stored := by decide

theorem hyp4 (b e : Int) (hb : 0 ≤ b) (he : 0 ≤ e) : Hyp envW c4 (req b e) b e where
  state := Or.inl rfl
  sock := rfl
  lsender := by decide
  ltarget := by decide
  lstamp := by decide
  inv := outInv4
  envelope := envelope_req _ _ _ _
  req := req_req b e hb he
  fits := by decide

/-- the hypotheses of `resend_reply_chain` are satisfiable by a journal with a session message, a
declined message and two holes … -/
example : ∃ sent : Rows,
    writes (recv sr3 envW c4 (req 1 0)).2 = sent.map (·.2) ∧
    ReplyChain c4.sess c4.journal.out sr3 1 6 (sent.map (·.2)) := by
  obtain ⟨sent, h1, h2, _⟩ :=
    resend_reply_chain sr3 envW c4 (req 1 0) 1 0 (hyp4 1 0 (by decide) (by decide)) (by decide)
      (by decide) (Or.inl rfl)
  exact ⟨sent, h1, h2⟩

/-- … and the chain is the expected one: (type, MsgSeqNum, PossDupFlag, NewSeqNo) of the 4 frames -/
example :
    (writes (recv sr3 envW c4 (req 1 0)).2).map
      (fun g => (g.mtype, g.get? tMsgSeqNum, g.get? tPossDupFlag, g.get? tNewSeqNo)) =
    [("D", some "1", some "Y", none), ("4", some "2", none, some "5"),
     ("D", some "5", some "Y", none), ("4", some "6", none, some "7")] := by
  decide +kernel

/-- the same journal while the receiver itself awaits a resend (watermark 9): hypotheses hold too -/
example : Hyp envW { c4 with state := st_RESENDREQ_AWAITING, maxResend := 9 } (req 2 0) 2 0 :=
  { hyp4 2 0 (by decide) (by decide) with
    state := Or.inr ⟨rfl, by decide⟩
    inv := ⟨outInv4.sorted, outInv4.lt, outInv4.rows, outInv4.stored⟩
    envelope := ⟨(envelope_req 7 J4 2 0).begin_, (envelope_req 7 J4 2 0).sender,
      (envelope_req 7 J4 2 0).target, (envelope_req 7 J4 2 0).seq⟩ }

/-- an invalid request (BeginSeqNo = 7 = next outbound number) on the same connection: ignored -/
example : Ignored sr3 envW c4 (req 7 0) :=
  (invalid_request_no_side_effect sr3 envW c4 (req 7 0) 7 0 (Or.inl rfl) (envelope_req _ _ _ _)
    (req_req 7 0 (by decide) (by decide)) (Or.inr (by decide))).2

/-! #### the former finding D9 (repaired by /repo da179c4): bounded and inverted ranges

Journal: application messages 1..5, next outbound number 6.  ResendRequest(2, 3) is answered by the copies
of 2 and 3 only, and 4, 5 stay in the journal; ResendRequest(4, 2) writes nothing and changes nothing. -/

def J5 : Rows := [app 1, app 2, app 3, app 4, app 5]
def c5 : Conn := conn 6 J5

theorem outInv5 : OutInv c5 where
  sorted := by simp [c5, conn, J5, Rows.Sorted, app, row]
  lt := by
    intro p hp
    simp [c5, conn, J5, app, row] at hp
    rcases hp with h|h|h|h|h <;> subst h <;> decide
  rows := by
    intro p hp
    simp only [c5, conn, J5, List.mem_cons, List.not_mem_nil, or_false] at hp
    rcases hp with h|h|h|h|h <;> subst h <;>
      exact rowOK_row _ _ _ (by decide) (by decide) (by decide +kernel) (by decide +kernel)
  stored := by decide

theorem hyp5 (b e : Int) (hb : 0 ≤ b) (he : 0 ≤ e) : Hyp envW c5 (req b e) b e where
  state := Or.inl rfl
  sock := rfl
  lsender := by decide
  ltarget := by decide
  lstamp := by decide
  inv := outInv5
  envelope := envelope_req _ _ _ _
  req := req_req b e hb he
  fits := by decide

/-- `resend_full` applies to the bounded request (2, 3): served up to 3 -/
example : Served (fun _ => true) envW c5 (req 2 3) 2 3 := by
  have := resend_full (fun _ => true) envW c5 (req 2 3) 2 3 (hyp5 2 3 (by decide) (by decide))
  rw [if_pos (by decide)] at this
  exact this

/-- … and this is what happens: two copies, rows 4 and 5 still there (all five rows are type D) -/
example :
    (writes (recv (fun _ => true) envW c5 (req 2 3)).2).map
      (fun g => (g.mtype, g.get? tMsgSeqNum, g.get? tPossDupFlag, g.get? tNewSeqNo)) =
      [("D", some "2", some "Y", none), ("D", some "3", some "Y", none)] ∧
    (recv (fun _ => true) envW c5 (req 2 3)).1.journal.out.map (fun p => (p.1, p.2.mtype)) =
      [(1, "D"), (2, "D"), (3, "D"), (4, "D"), (5, "D")] ∧
    (recv (fun _ => true) envW c5 (req 2 3)).1.journal.out.find 5 = c5.journal.out.find 5 := by
  decide +kernel

/-- EndSeqNo < BeginSeqNo asks for nothing: nothing written, journal identical -/
example :
    writes (recv (fun _ => true) envW c5 (req 4 2)).2 = [] ∧
    (recv (fun _ => true) envW c5 (req 4 2)).1.journal.out = c5.journal.out := by
  decide +kernel

/-- bounded request over the mixed journal `J4`: (1, 4) ends with GapFill 2 → 5, row 5 untouched -/
example :
    (writes (recv sr3 envW c4 (req 1 4)).2).map
      (fun g => (g.mtype, g.get? tMsgSeqNum, g.get? tNewSeqNo)) =
      [("D", some "1", none), ("4", some "2", some "5")] ∧
    (recv sr3 envW c4 (req 1 4)).1.journal.out.find 5 = c4.journal.out.find 5 := by
  decide +kernel

/-! #### rows that already carry PossDupFlag / OrigSendingTime without being copies

Row 2 was sent by the application with an explicit header field `43=N` (in the middle of its own tags),
row 3 carries a stale `122` and no `43`.  Both are ordinary `RowOK` rows, so `resend_full` covers them:
`IsRetransmission` demands `43=Y` under the ORIGINAL number whatever the row had (`prepareReplay` sets 43
with `replace`), and OrigSendingTime = the row's 122 when it has one, else its SendingTime. -/

def J3n : Rows :=
  [app 1, row 2 "D" [(11, "o2"), (43, "N"), (58, "x")],
   row 3 "D" [(11, "o3"), (58, "x"), (122, "20231231-23:59:59.000")]]
def c3n : Conn := conn 4 J3n

theorem outInv3n : OutInv c3n where
  sorted := by simp [c3n, conn, J3n, Rows.Sorted, app, row]
  lt := by
    intro p hp
    simp [c3n, conn, J3n, app, row] at hp
    rcases hp with h|h|h <;> subst h <;> decide
  rows := by
    intro p hp
    simp only [c3n, conn, J3n, List.mem_cons, List.not_mem_nil, or_false] at hp
    rcases hp with h|h|h <;> subst h <;>
      exact rowOK_row _ _ _ (by decide) (by decide) (by decide +kernel) (by decide +kernel)
  stored := by decide

theorem hyp3n (b e : Int) (hb : 0 ≤ b) (he : 0 ≤ e) : Hyp envW c3n (req b e) b e where
  state := Or.inl rfl
  sock := rfl
  lsender := by decide
  ltarget := by decide
  lstamp := by decide
  inv := outInv3n
  envelope := envelope_req _ _ _ _
  req := req_req b e hb he
  fits := by decide

/-- the theorem applies: all three rows are retransmitted in a chain over `[1, 3]` -/
example : Served (fun _ => true) envW c3n (req 1 0) 1 3 := by
  have := resend_full (fun _ => true) envW c3n (req 1 0) 1 0 (hyp3n 1 0 (by decide) (by decide))
  rw [if_pos (by decide)] at this
  exact this

/-- … each under its own number with 43=Y (replaced IN PLACE for row 2, appended for row 3) and the right
OrigSendingTime; (type, 34, 43, 122) and the content fields of the copy of row 2 -/
example :
    (writes (recv (fun _ => true) envW c3n (req 1 0)).2).map
      (fun g => (g.mtype, g.get? tMsgSeqNum, g.get? tPossDupFlag, g.get? tOrigSendingTime)) =
      [("D", some "1", some "Y", some stamp0), ("D", some "2", some "Y", some stamp0),
       ("D", some "3", some "Y", some "20231231-23:59:59.000")] ∧
    ((writes (recv (fun _ => true) envW c3n (req 1 0)).2).map appBody)[1]? =
      some [(11, "o2"), (58, "x")] ∧
    (recv (fun _ => true) envW c3n (req 1 0)).1.sess.nextOut = 4 := by
  decide +kernel

/-! #### magnitudes: the counter has passed 999999 and EndSeqNo is exactly 999999

`resend_full` has no special numbers: EndSeqNo = 999999 (the "infinity" of FIX 4.0 / 4.1) is a bound like
any other once more than a million messages were sent. -/

def J1M : Rows := [app 999998, app 999999, app 1000000, app 1000001]
def c1M : Conn := conn 1000002 J1M

theorem outInv1M : OutInv c1M where
  sorted := by simp [c1M, conn, J1M, Rows.Sorted, app, row]
  lt := by
    intro p hp
    simp [c1M, conn, J1M, app, row] at hp
    rcases hp with h|h|h|h <;> subst h <;> decide
  rows := by
    intro p hp
    simp only [c1M, conn, J1M, List.mem_cons, List.not_mem_nil, or_false] at hp
    rcases hp with h|h|h|h <;> subst h <;>
      exact rowOK_row _ _ _ (by decide) (by decide) (by decide +kernel) (by decide +kernel)
  stored := by decide

theorem hyp1M (b e : Int) (hb : 0 ≤ b) (he : 0 ≤ e) : Hyp envW c1M (req b e) b e where
  state := Or.inl rfl
  sock := rfl
  lsender := by decide
  ltarget := by decide
  lstamp := by decide
  inv := outInv1M
  envelope := envelope_req _ _ _ _
  req := req_req b e hb he
  fits := by decide

example : Served (fun _ => true) envW c1M (req 999998 999999) 999998 999999 := by
  have := resend_full (fun _ => true) envW c1M (req 999998 999999) 999998 999999
    (hyp1M _ _ (by decide) (by decide))
  rw [if_pos (by decide)] at this
  exact this

example :
    (writes (recv (fun _ => true) envW c1M (req 999998 999999)).2).map
      (fun g => (g.mtype, g.get? tMsgSeqNum, g.get? tPossDupFlag)) =
      [("D", some "999998", some "Y"), ("D", some "999999", some "Y")] ∧
    (recv (fun _ => true) envW c1M (req 999998 999999)).1.journal.out.find 1000000 =
      c1M.journal.out.find 1000000 ∧
    (recv (fun _ => true) envW c1M (req 999998 999999)).1.journal.out.find 1000001 =
      c1M.journal.out.find 1000001 := by
  decide +kernel

/-! #### the clock: `resend_full` holds for EVERY `env`, also one whose time text is EARLIER than the rows'

`IsRetransmission.orig` ties OrigSendingTime to the row (its 122, else its SendingTime), never to the clock of
the retransmission. -/

/-- the wall clock stepped back: the request is served "the day before" the rows were stamped -/
def envBack : Env := { now := 500, stamp := "20240101-23:59:59.999" }

theorem hyp5back (b e : Int) (hb : 0 ≤ b) (he : 0 ≤ e) : Hyp envBack c5 (req b e) b e where
  state := Or.inl rfl
  sock := rfl
  lsender := by decide
  ltarget := by decide
  lstamp := by decide
  inv := outInv5
  envelope := envelope_req _ _ _ _
  req := req_req b e hb he
  fits := by decide

example : Served (fun _ => true) envBack c5 (req 2 3) 2 3 := by
  have := resend_full (fun _ => true) envBack c5 (req 2 3) 2 3 (hyp5back 2 3 (by decide) (by decide))
  rw [if_pos (by decide)] at this
  exact this

/-- SendingTime is the (earlier) clock, OrigSendingTime the original SendingTime byte for byte -/
example :
    (writes (recv (fun _ => true) envBack c5 (req 2 3)).2).map
      (fun g => (g.get? tMsgSeqNum, g.get? tSendingTime, g.get? tOrigSendingTime)) =
      [(some "2", some "20240101-23:59:59.999", some stamp0),
       (some "3", some "20240101-23:59:59.999", some stamp0)] := by
  decide +kernel

end NonVacuity

end AsyncFix.Session.C06
