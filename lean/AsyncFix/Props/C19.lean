/-
C19 — field value validation matches the FIX datatype lexical spaces.

`validateValue` (Model/Lexical.lean) mirrors `SchemaField.validate_value` of /repo @ 31078f3 on top of
models of CPython's int() / float() / re / strptime; `LexSpec` holds the lexical spaces of the FIX 4.4
datatype table, written independently.  All theorems quantify over ALL strings (lists of code
points) and all interpreter settings `cfg`; they are proved by structural reasoning about the
recognisers and the backtracking matcher (Lemmas/Lex*.lean), not by enumeration.

  impl_iff               accepted ↔ (in the lexical space ∧ ¬ narrow) ∨ deviation      every datatype
  spec_accepted_partial  in the lexical space → ¬ narrow → accepted
  boolean_exact, code_exact, data_exact      plain ↔ where implementation = spec
  enum_exact             enumerated fields accept exactly the enumerators (value not split)
  multi_enum_exact       enumerated MultipleValueString: exactly the blank-delimited lists of enumerators
  error_kind             nothing but the library's FIXMessageError ever escapes

`narrow` / `deviation` (Model/LexClass.lean) are explicit decidable predicates = the open findings:
digit limit of int(), float overflow, '=' in String/char, year 0000, second 60 (too narrow);
six fraction digits, unvalidated Length (too wide).  The full-strength statement `C19_full` is kept
as a `def`; `Findings/C19.lean` refutes it with the witnesses the harness replays.
-/
import AsyncFix.Lemmas.LexInt
import AsyncFix.Lemmas.LexFloatPy
import AsyncFix.Lemmas.LexStr
import AsyncFix.Lemmas.LexMonthYear
import AsyncFix.Lemmas.LexTimestamp
namespace AsyncFix.Props.C19
open AsyncFix.Py AsyncFix.Model AsyncFix.Model.Lexical AsyncFix.Model.LexClass
open AsyncFix.Model.LexSpec hiding Str
open AsyncFix.Lemmas

/-- a schema field without enumerators -/
def plain (tag16 : Bool) (t : FType) : Field := { tag16 := tag16, ftype := t, values := [] }

/-- `validate_value` returns True -/
def accepted (cfg : Cfg) (tag16 : Bool) (t : FType) (s : Str) : Prop :=
  validateValue cfg (plain tag16 t) (.str s) = .ok

/-- the FIX datatype a dispatch branch of `validate_value` implements (DATA and LENGTH share the
unchecked branch and are treated separately; unsupported type names have no SPEC) -/
def specOf : FType → Option DType
  | .int => some .int | .posInt => some .posInt | .dayOfMonth => some .dayOfMonth
  | .float => some .float | .string => some .string | .char => some .char | .boolean => some .boolean
  | .code n => if n = 0 then none else some (.code n)
  | .date => some .date | .timestamp => some .timestamp | .timeOnly => some .timeOnly
  | .monthYear => some .monthYear
  | .unchecked => none | .unsupported => none

/-- the type dispatch, per branch: passes ↔ (lexical ∧ ¬ narrow) ∨ deviation -/
theorem typed_iff (cfg : Cfg) {t : FType} {dt : DType} (h : specOf t = some dt) (s : Str) :
    validateTyped cfg t s = .pass ↔
      (lexical dt s = true ∧ narrow cfg t s = false) ∨ deviation cfg t s = true := by
  cases t <;> simp only [specOf, Option.some.injEq, reduceCtorEq] at h
  case int => subst h; simpa [lexical, narrow, deviation] using LexInt.int_pass_iff cfg s
  case posInt => subst h; simpa [lexical, narrow, deviation] using LexInt.posInt_pass_iff cfg s
  case dayOfMonth => subst h; simpa [lexical, narrow, deviation] using LexInt.dayOfMonth_pass_iff cfg s
  case float => subst h; simpa [lexical, narrow, deviation] using LexFloatPy.float_pass_iff cfg s
  case string => subst h; simpa [lexical, narrow, deviation] using LexStr.string_pass_iff cfg s
  case char => subst h; simpa [lexical, narrow, deviation] using LexStr.char_pass_iff cfg s
  case boolean => subst h; simpa [lexical, narrow, deviation] using LexStr.boolean_pass_iff cfg s
  case code n =>
    by_cases hn : n = 0
    · simp [hn] at h
    · simp only [hn, ↓reduceIte, Option.some.injEq] at h
      subst h; simpa [lexical, narrow, deviation] using LexStr.code_pass_iff cfg n hn s
  case date => subst h; simpa [validateTyped, lexical, narrow, deviation] using LexDate.date_pass_iff s
  case timestamp =>
    subst h
    have := LexTimestamp.timestamp_pass_iff cfg s
    simpa [validateTyped, lexical, narrow] using this
  case timeOnly =>
    subst h
    have := LexTimeOnly.timeOnly_pass_iff cfg s
    simpa [validateTyped, lexical, narrow] using this
  case monthYear => subst h; simpa [validateTyped, lexical, narrow, deviation] using LexMonthYear.monthYear_pass_iff s

theorem lexical_ne_nil {dt : DType} {s : Str} (h : lexical dt s = true) : s ≠ [] := by
  rintro rfl
  cases dt <;> simp [lexical, isInt, isPositiveInt, isDayOfMonth, digits, isFloat, isUnsignedFloat, isString,
    isChar, isBoolean, isCode, isDate, isTimestamp, isTimeOnly, isHMS, isMonthYear, isYearMonth, isData] at h

theorem deviation_ne_nil {cfg : Cfg} {t : FType} {s : Str} (h : deviation cfg t s = true) : s ≠ [] := by
  rintro rfl
  cases t <;> simp [deviation, sixFractionDigits] at h

/-- "0" is in nobody's too-narrow set (needed for EndSeqNo = 0) -/
theorem narrow_zero (cfg : Cfg) (t : FType) : narrow cfg t [48] = false := by
  cases t <;> first | rfl | simp [narrow, overDigitLimit, digitLimitOk, dropMinus, hasEquals, year0000, second60]

/-- **C19, main theorem.**  For every datatype branch with a SPEC, every interpreter setting, tag
(16 or not) and string: validation accepts ↔ the string is in the field's lexical space and not in
the explicit too-narrow set, or it is in the explicit too-wide set. -/
theorem impl_iff (cfg : Cfg) (tag16 : Bool) {t : FType} {dt : DType} (h : specOf t = some dt) (s : Str) :
    accepted cfg tag16 t s ↔
      (fieldLexical tag16 dt s = true ∧ narrow cfg t s = false) ∨ deviation cfg t s = true := by
  unfold accepted plain
  rw [LexStr.validateValue_typed, typed_iff cfg h]
  unfold fieldLexical
  constructor
  · rintro ⟨-, (⟨rfl, rfl⟩ | h1)⟩
    · exact Or.inl ⟨by simp, narrow_zero cfg t⟩
    · rcases h1 with ⟨h1, h2⟩ | h1
      · exact Or.inl ⟨by simp [h1], h2⟩
      · exact Or.inr h1
  · rintro (⟨h1, h2⟩ | h1)
    · simp only [Bool.or_eq_true, Bool.and_eq_true, beq_iff_eq] at h1
      rcases h1 with ⟨rfl, rfl⟩ | h1
      · exact ⟨by simp, Or.inl ⟨rfl, rfl⟩⟩
      · exact ⟨lexical_ne_nil h1, Or.inr (Or.inl ⟨h1, h2⟩)⟩
    · exact ⟨deviation_ne_nil h1, Or.inr (Or.inr h1)⟩

/-- code points of an ASCII literal (for the examples) -/
def cps (s : String) : Str := s.toList.map Char.toNat

/- non-vacuity of `impl_iff`: all three situations occur (accepted in the space; in the space but
too narrow; outside but too wide), and EndSeqNo = "0" is accepted through the tag-16 clause -/
example : specOf .timestamp = some .timestamp ∧
    fieldLexical false .timestamp (cps "20240229-23:59:59.123") = true ∧
    narrow {} .timestamp (cps "20240229-23:59:59.123") = false ∧
    accepted {} false .timestamp (cps "20240229-23:59:59.123") := by
  refine ⟨rfl, ?_, ?_, ?_⟩ <;> first | (unfold accepted; decide +kernel) | decide +kernel
example : fieldLexical false .timestamp (cps "20240229-23:59:60") = true ∧
    narrow {} .timestamp (cps "20240229-23:59:60") = true := by decide +kernel
example : deviation {} .timeOnly (cps "14:00:00.123456") = true := by decide +kernel
example : fieldLexical true .posInt (cps "0") = true ∧ fieldLexical false .posInt (cps "0") = false ∧
    accepted {} true .posInt (cps "0") := by
  refine ⟨?_, ?_, ?_⟩ <;> first | (unfold accepted; decide +kernel) | decide +kernel

/-- every member of the lexical space is accepted, except the explicit too-narrow set -/
theorem spec_accepted_partial (cfg : Cfg) (tag16 : Bool) {t : FType} {dt : DType} (h : specOf t = some dt)
    (s : Str) (hs : fieldLexical tag16 dt s = true) (hn : narrow cfg t s = false) :
    accepted cfg tag16 t s :=
  (impl_iff cfg tag16 h s).2 (Or.inl ⟨hs, hn⟩)

/- non-vacuity of `spec_accepted_partial`: a leap day -/
example : fieldLexical false .date (cps "20240229") = true ∧ narrow {} .date (cps "20240229") = false := by
  decide +kernel

/-- everything accepted is in the lexical space, except the explicit too-wide set -/
theorem accepted_spec_partial (cfg : Cfg) (tag16 : Bool) {t : FType} {dt : DType} (h : specOf t = some dt)
    (s : Str) (ha : accepted cfg tag16 t s) (hd : deviation cfg t s = false) :
    fieldLexical tag16 dt s = true := by
  rcases (impl_iff cfg tag16 h s).1 ha with ⟨h1, -⟩ | h1
  · exact h1
  · rw [hd] at h1; cases h1

/-- Full statement of C19's first sentence (false on the current tree: see Findings/C19.lean). -/
def C19_full : Prop :=
  ∀ (cfg : Cfg) (tag16 : Bool) (t : FType) (dt : DType), specOf t = some dt →
    ∀ s, accepted cfg tag16 t s ↔ fieldLexical tag16 dt s = true

/-! ### families where implementation = spec -/

theorem boolean_exact (cfg : Cfg) (tag16 : Bool) (s : Str) :
    accepted cfg tag16 .boolean s ↔ fieldLexical tag16 .boolean s = true := by
  rw [impl_iff cfg tag16 (dt := .boolean) rfl]
  simp [narrow, deviation]

/-- Country (2), Currency (3), Exchange (4) -/
theorem code_exact (cfg : Cfg) (tag16 : Bool) (n : Nat) (hn : n ≠ 0) (s : Str) :
    accepted cfg tag16 (.code n) s ↔ fieldLexical tag16 (.code n) s = true := by
  rw [impl_iff cfg tag16 (dt := .code n) (by simp [specOf, hn])]
  simp [narrow, deviation]

/-- data: anything non-empty -/
theorem data_exact (cfg : Cfg) (tag16 : Bool) (s : Str) :
    accepted cfg tag16 .unchecked s ↔ fieldLexical tag16 .data s = true := by
  unfold accepted plain
  rw [LexStr.validateValue_typed]
  cases s <;> simp [validateTyped, fieldLexical, lexical, isData]

/-- Length (same branch as data): NOT validated — accepted ↔ non-empty (finding C19-length:unvalidated) -/
theorem length_accepts_everything (cfg : Cfg) (tag16 : Bool) (s : Str) :
    accepted cfg tag16 .unchecked s ↔ s ≠ [] := by
  unfold accepted plain
  rw [LexStr.validateValue_typed]
  cases s <;> simp [validateTyped]

/-- the too-wide set is empty except for times -/
theorem deviation_only_times (cfg : Cfg) (t : FType) (s : Str) (h : deviation cfg t s = true) :
    t = .timeOnly ∨ t = .timestamp := by
  cases t <;> simp [deviation] at h ⊢

/-! ### enumerated fields -/

/-- an enumerated field of any type other than MultipleValueString accepts exactly its enumerators (whatever
its type and tag); the value is NOT split -/
theorem enum_exact (cfg : Cfg) (tag16 : Bool) (t : FType) (values : List Str) (hv : values ≠ [])
    (hne : [] ∉ values) (s : Str) :
    validateValue cfg { tag16 := tag16, ftype := t, multi := false, values := values } (.str s) = .ok ↔
      s ∈ values := by
  unfold validateValue
  cases s with
  | nil => simp [hne]
  | cons c cs =>
    have : values.isEmpty = false := by cases values <;> simp_all
    simp [this]

theorem splitBlank_cons (s : Str) : ∃ t ts, splitBlank s = t :: ts := by
  induction s with
  | nil => exact ⟨[], [], rfl⟩
  | cons c cs ih =>
    obtain ⟨t, ts, h⟩ := ih
    by_cases hc : c = 32
    · exact ⟨[], splitBlank cs, by simp [splitBlank, hc]⟩
    · exact ⟨c :: t, ts, by simp [splitBlank, hc, h]⟩

/-- `value.split(" ")` with every token tested = the SPEC's walk over the value (accumulator version) -/
theorem memberList_split (members : List Str) (s : Str) :
    ∀ cur t ts, splitBlank s = t :: ts →
      LexSpec.memberList members s cur = (members.contains (cur.reverse ++ t) && ts.all members.contains) := by
  induction s with
  | nil =>
    intro cur t ts h
    simp only [splitBlank, List.cons.injEq] at h
    obtain ⟨rfl, rfl⟩ := h
    simp [LexSpec.memberList]
  | cons c cs ih =>
    intro cur t ts h
    obtain ⟨t', ts', h'⟩ := splitBlank_cons cs
    by_cases hc : c = 32
    · subst hc
      simp only [splitBlank, ↓reduceIte, List.cons.injEq] at h
      obtain ⟨rfl, rfl⟩ := h
      simp only [LexSpec.memberList, beq_self_eq_true, ↓reduceIte, List.append_nil]
      rw [ih [] t' ts' h', h']
      simp
    · have hb : (c == 32) = false := by simpa using hc
      simp only [splitBlank, hc, ↓reduceIte, h', List.cons.injEq] at h
      obtain ⟨rfl, rfl⟩ := h
      simp only [LexSpec.memberList, hb, Bool.false_eq_true, ↓reduceIte]
      rw [ih (c :: cur) t' ts' h']
      simp

/-- an enumerated MultipleValueString field accepts exactly the lists of enumerators delimited by
single blanks (no empty value: leading, trailing or doubled blanks are rejected) -/
theorem multi_enum_exact (cfg : Cfg) (tag16 : Bool) (t : FType) (values : List Str) (hv : values ≠ [])
    (hne : [] ∉ values) (s : Str) :
    validateValue cfg { tag16 := tag16, ftype := t, multi := true, values := values } (.str s) = .ok ↔
      LexSpec.isMemberList values s = true := by
  have hspec : LexSpec.isMemberList values s = (splitBlank s).all values.contains := by
    obtain ⟨t', ts', h'⟩ := splitBlank_cons s
    unfold LexSpec.isMemberList
    rw [memberList_split values s [] t' ts' h', h']
    simp
  rw [hspec]
  unfold validateValue
  cases s with
  | nil => simp [splitBlank, hne]
  | cons c cs =>
    have : values.isEmpty = false := by cases values <;> simp_all
    simp [this]

example : ([[49], [50]] : List Str) ≠ [] ∧ ([] : Str) ∉ ([[49], [50]] : List Str) ∧
    validateValue {} { tag16 := false, ftype := .char, values := [[49], [50]] } (.str [50]) = .ok ∧
    validateValue {} { tag16 := false, ftype := .char, values := [[49], [50]] } (.str [51]) = .fme ∧
    -- "1 2" : accepted by the MultipleValueString field, rejected (not split) by the char field; "1  2" rejected
    validateValue {} { tag16 := false, ftype := .string, multi := true, values := [[49], [50]] } (.str [49, 32, 50]) = .ok ∧
    validateValue {} { tag16 := false, ftype := .string, multi := false, values := [[49], [50]] } (.str [49, 32, 50]) = .fme ∧
    validateValue {} { tag16 := false, ftype := .string, multi := true, values := [[49], [50]] } (.str [49, 32, 32, 50]) = .fme ∧
    LexSpec.isMemberList [[49], [50]] [49, 32, 50] = true := by
  decide +kernel

/-! ### error kind -/

theorem specialCases_cases (b : Bool) (s : Str) (prev : VRes) :
    specialCases b s prev = .pass ∨ specialCases b s prev = prev := by
  unfold specialCases; split <;> simp

/-- whatever the field, the setting and the argument (also a non-string): no exception other than
the library's FIXMessageError escapes -/
theorem error_kind (cfg : Cfg) (f : Field) (v : PyVal) (k : String) : validateValue cfg f v ≠ .raised k := by
  unfold validateValue
  cases v with
  | other => simp
  | str s =>
    cases s with
    | nil => simp
    | cons c cs =>
      simp only [List.isEmpty_cons, Bool.false_eq_true, ↓reduceIte]
      split
      · repeat' split
        all_goals simp
      · have hnr := LexStr.validateTyped_not_raised cfg f.ftype (c :: cs) (by simp)
        cases hv : validateTyped cfg f.ftype (c :: cs) with
        | raised k' => exact absurd hv (hnr k')
        | pass => rcases specialCases_cases f.tag16 (c :: cs) .pass with h | h <;> simp [h]
        | err => rcases specialCases_cases f.tag16 (c :: cs) .err with h | h <;> simp [h]

/-- every rejection is the library's message error -/
theorem rejection_is_fme (cfg : Cfg) (f : Field) (v : PyVal) (h : validateValue cfg f v ≠ .ok) :
    validateValue cfg f v = .fme := by
  cases hr : validateValue cfg f v with
  | ok => exact absurd hr h
  | fme => rfl
  | raised k => exact absurd hr (error_kind cfg f v k)

end AsyncFix.Props.C19
