import AsyncFix.Model.LexClass
namespace AsyncFix.Props.C19
theorem placeholder : True := trivial
end AsyncFix.Props.C19
