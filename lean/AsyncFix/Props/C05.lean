import AsyncFix.Lemmas.SessionOutExamples

/-!
# C05 — outbound messages are numbered consecutively and journaled under that number

Model: `AsyncFix.Session` (`send_msg`, `Codec.encode` number selection, `allocate_next_num_out`,
`persist_msg`, every handler that sends, `_process_resend`).  Definitions used by the statements:

* `OutInv c`   (Lemmas/SessionOutDefs) – stored next-outbound + 1 = session counter; every outbound row
  `(n, frame)` is a well-formed frame whose MsgSeqNum(34) reads `n`, `n < counter`; rows ascending;
  CompIDs single-byte; a connection outside the disconnected states has its transport.
* `isNew f` – not a SequenceReset and no PossDupFlag=Y: exactly the messages `encode` allocates a
  number for.  `newWrites es` – the `write` effects that are new messages, in order; `numbered b l` –
  `l` carries MsgSeqNum `b, b+1, …`.
* `Event.ok` – side conditions on an event: SendingTime text of a `recv` is single-byte (the real
  clock prints ASCII), an application `send_msg` is a NEW message.  (An application that hand-crafts a
  SequenceReset / PossDupFlag=Y message bypasses the numbering: finding `C05-app-own-number`.)
* `Slot sr c n f` – what the journal holds under `n` for a frame `f` once sent under `n`: `f` or a
  retransmitted copy of it (`Copy`), or – only when `f` is `Declined` (session-level type, or
  `should_replay` refused it or a copy of it) – a SequenceReset-GapFill row or nothing.
* `boundedResend ev` – ResendRequest with EndSeqNo ≠ 0 (open C06 finding D9: rows above the range are
  deleted).  `OutInv` and the numbering hold across those too; only the journal-content claim excludes
  them.
-/
namespace AsyncFix.Props.C05

open AsyncFix.Session AsyncFix.Generated AsyncFix.Generated.ConnEnum

/-! ## 1. the invariant -/

/-- a fresh connection object over ANY stored counter and any journal of well-formed rows below it -/
theorem outInv_create (sender target : String) (j : Journal) (hb : Int) (role : Nat)
    (hl : isLatin1 sender = true ∧ isLatin1 target = true) (hs : Rows.Sorted j.out)
    (hrows : ∀ p ∈ j.out, RowOk p.2 p.1 ∧ p.1 ≤ j.outSeq) :
    OutInv (Conn.create sender target j hb role) :=
  ⟨rfl, fun p hp => ⟨(hrows p hp).1, by have := (hrows p hp).2; simp only [Conn.create]; omega⟩, hs, hl,
    fun h => absurd (show st_DISCONNECTED_BROKEN_CONN < st_DISCONNECTED_NOCONN_TODAY from h) (by decide)⟩

/-- `OutInv` is preserved by EVERY event: all message types and shapes, ResendRequests of every class
(bounded, inverted, out of range), `reset_seq_num()`, ticks, transport events. -/
theorem outInv_step (sr : Msg → Bool) (c : Conn) (ev : Event) (hI : OutInv c) (hok : ev.ok) :
    OutInv (step sr c ev).1 := step_inv sr c ev hI hok

/-- … hence by every history -/
theorem outInv_run (sr : Msg → Bool) (c : Conn) (evs : List Event) (hI : OutInv c)
    (hok : ∀ ev ∈ evs, ev.ok) : OutInv (run sr c evs).1 := run_inv sr evs c hI hok

/-- what `OutInv` says about reading back: the frame stored under `n` reads MsgSeqNum `n`, and the
stored next-outbound number is the last allocated number + 1 -/
theorem outInv_readback (c : Conn) (hI : OutInv c) (n : Int) (f : Msg)
    (h : Rows.find n c.journal.out = some f) :
    seqOf f = some n ∧ n < c.sess.nextOut ∧ c.journal.outSeq + 1 = c.sess.nextOut :=
  ⟨(hI.rows _ (Rows.find_mem h)).1.seqOf, (hI.rows _ (Rows.find_mem h)).2, hI.counter⟩

/-- the full statement without the side condition on application sends; refuted in Findings/C05 -/
def outInv_step_full : Prop :=
  ∀ (sr : Msg → Bool) (c : Conn) (env : Env) (m : Msg), OutInv c → OutInv (step sr c (.appSend env m)).1

/-! ## 2. an accepted send -/

/-- **send_numbered**: a NEW message accepted for sending leaves in exactly one `write`, numbered with
the session counter, carrying the session's CompIDs; the counter moves by one; the journal gains
exactly that frame under that number (the bytes sent can be read back), the stored counter is that
number; nothing is raised. -/
theorem send_numbered (env : Env) (c : Conn) (m : Msg) (hI : OutInv c) (hnew : isNew m = true)
    (hacc : sendRefused c m = false)
    (hlat : frameLatin1 (buildFrame c.sess env.stamp m c.sess.nextOut) = true) :
    let f := buildFrame c.sess env.stamp m c.sess.nextOut
    let r := appSend env c m
    r.2 = gateEff c ++ [.write f] ∧ allWrites r.2 = [f] ∧
    seqOf f = some c.sess.nextOut ∧ f.get? tSenderCompID = some c.sess.sender ∧
    f.get? tTargetCompID = some c.sess.target ∧
    r.1.sess.nextOut = c.sess.nextOut + 1 ∧
    r.1.journal.out = c.journal.out ++ [(c.sess.nextOut, f)] ∧
    r.1.journal.outSeq = c.sess.nextOut ∧
    r.1.journal.recoverOut c.sess.nextOut c.sess.nextOut = [f] ∧ OutInv r.1 := by
  intro f r
  simp only [sendRefused, Bool.or_eq_false_iff] at hacc
  obtain ⟨hg, ht⟩ := hacc
  have hge := not_gateRefuses_ge (c := c) (m := m) (by simp [hg])
  have hlive : st_DISCONNECTED_BROKEN_CONN < (afterGate c).state :=
    afterGate_alive c (Nat.lt_of_lt_of_le (by decide) hge)
  have hI' := hI.afterGate
  have hsock : (afterGate c).sock = true := hI'.sock hlive
  have hsess : (afterGate c).sess = c.sess := by unfold afterGate; split <;> rfl
  have hjour : (afterGate c).journal = c.journal := by unfold afterGate; split <;> rfl
  have htid : (afterGate c).testReqId = c.testReqId := by unfold afterGate; split <;> rfl
  have hrun : sendMsg env m c = ⟨.ok (),
      { bump (afterGate c) with journal :=
          { (afterGate c).journal with out := c.journal.out ++ [(c.sess.nextOut, f)],
                                       outSeq := c.sess.nextOut } },
      gateEff c ++ [.write f]⟩ := by
    rw [sendMsg_eq, hg, sendCore_new env m _ hnew, htid, ht, hsess]
    simp only [Bool.false_eq_true, if_false, hlat, Bool.not_true]
    have hp := persist_out_of_allLt (afterGate c).journal c.sess.nextOut f
      (by rw [hjour]; exact hI.allLt)
    rw [hp, hsock, hjour]
    rfl
  have hr : r = ({ bump (afterGate c) with journal :=
          { (afterGate c).journal with out := c.journal.out ++ [(c.sess.nextOut, f)],
                                       outSeq := c.sess.nextOut } },
      gateEff c ++ [.write f]) := by
    show (sendMsg env m).run c = _
    unfold M.run; rw [hrun]
  have hgw : allWrites (gateEff c) = [] := by unfold gateEff; split <;> rfl
  have hinv : OutInv r.1 := by
    have := (sendMsg_hold (sr := fun _ => true) (U := False) (X := False) env m c hI hnew).run
    exact this.inv
  refine ⟨by rw [hr], ?_, buildFrame_seqOf _ _ _ _, buildFrame_get_sender _ _ _ _,
    buildFrame_get_target _ _ _ _, by rw [hr]; simp [bump, hsess], by rw [hr],
    by rw [hr], ?_, hinv⟩
  · rw [hr]
    have : ∀ a b, allWrites (a ++ b) = allWrites a ++ allWrites b := by
      intro a b; induction a with
      | nil => rfl
      | cons e r ih => cases e <;> simp [allWrites, ih]
    rw [this, hgw]; rfl
  · rw [hr]
    simp only [Journal.recoverOut, Rows.range, List.filter_append, List.map_append]
    have : (c.journal.out.filter fun p => decide (c.sess.nextOut ≤ p.1) && decide (p.1 ≤ c.sess.nextOut)) = [] := by
      rw [List.filter_eq_nil_iff]
      intro p hp
      have := hI.allLt p hp
      simp only [Bool.and_eq_true, decide_eq_true_eq, not_and]
      omega
    simp [this]

/-! ## 3. refused sends -/

/-- **refused_send_unchanged**: a state refusal (not connected; first message not Logon / Logout;
initiator waiting for the Logon reply; TestRequest not via `send_test_req`) leaves the connection
EXACTLY as it was – counter, journal, stored counter, state, everything – and writes nothing. -/
theorem refused_send_unchanged (env : Env) (c : Conn) (m : Msg) (hnew : isNew m = true)
    (h : sendRefused c m = true) : appSend env c m = (c, [.raised .connection]) := by
  show (sendMsg env m).run c = _
  unfold M.run
  rw [sendMsg_eq]
  by_cases hg : gateRefuses c m = true
  · rw [if_pos hg]; rfl
  · have hg' : gateRefuses c m = false := by simpa using hg
    simp only [sendRefused, hg', Bool.false_or, Bool.and_eq_true] at h
    obtain ⟨e1, e2⟩ := afterGate_of_testreq hg' h.1
    rw [if_neg hg, e1, e2, sendCore_new env m c hnew]
    simp [h.1, h.2]

/-- every FIXConnectionError out of `send_msg` is one of those refusals -/
theorem refusal_complete (env : Env) (c : Conn) (m : Msg) (hI : OutInv c) (hnew : isNew m = true)
    (h : Effect.raised .connection ∈ (appSend env c m).2) : sendRefused c m = true := by
  cases hr : sendRefused c m with
  | true => rfl
  | false =>
    exfalso
    by_cases hlat : frameLatin1 (buildFrame c.sess env.stamp m c.sess.nextOut) = true
    · have := (send_numbered env c m hI hnew hr hlat).1
      rw [this] at h
      unfold gateEff at h
      split at h <;> simp at h
    · simp only [sendRefused, Bool.or_eq_false_iff] at hr
      have hsess : (afterGate c).sess = c.sess := by unfold afterGate; split <;> rfl
      have htid : (afterGate c).testReqId = c.testReqId := by unfold afterGate; split <;> rfl
      have : appSend env c m = (afterGate c, gateEff c ++ [.raised .encoding]) := by
        show (sendMsg env m).run c = _
        unfold M.run
        rw [sendMsg_eq, hr.1, sendCore_new env m _ hnew, htid, hr.2, hsess]
        simp [hlat]
      rw [this] at h
      unfold gateEff at h
      split at h <;> simp at h

/-- **encoding_refusal**: text that is not single-byte ⇒ EncodingError; the number is handed back, no
journal row, nothing written.  What HAS happened by then is the NETWORK_CONN_ESTABLISHED →
LOGON_INITIAL_SENT transition of a first Logon / Logout (`afterGate`): it precedes encoding. -/
theorem encoding_refusal (env : Env) (c : Conn) (m : Msg) (hnew : isNew m = true)
    (hacc : sendRefused c m = false)
    (hlat : frameLatin1 (buildFrame c.sess env.stamp m c.sess.nextOut) = false) :
    appSend env c m = (afterGate c, gateEff c ++ [.raised .encoding]) ∧
    (afterGate c).sess = c.sess ∧ (afterGate c).journal = c.journal ∧
    (c.state ≠ st_NETWORK_CONN_ESTABLISHED → afterGate c = c ∧ gateEff c = []) := by
  simp only [sendRefused, Bool.or_eq_false_iff] at hacc
  have hsess : (afterGate c).sess = c.sess := by unfold afterGate; split <;> rfl
  have htid : (afterGate c).testReqId = c.testReqId := by unfold afterGate; split <;> rfl
  refine ⟨?_, hsess, by unfold afterGate; split <;> rfl, ?_⟩
  · show (sendMsg env m).run c = _
    unfold M.run
    rw [sendMsg_eq, hacc.1, sendCore_new env m _ hnew, htid, hacc.2, hsess]
    simp [hlat]
  · intro h6
    have : (c.state == st_NETWORK_CONN_ESTABLISHED) = false := by simpa using h6
    simp [afterGate, gateEff, this]

/-! ## 4. histories -/

/-- **new_messages_consecutive**: over every history without `reset_seq_num()` (which restarts the
numbering at 1 by design), from every state satisfying `OutInv` – e.g. a fresh connection over any
stored counter `b` – the new messages written to the transport, in order, are numbered
`b, b+1, b+2, …` without gap or repeat; the counter ends at `b` + their number; the stored
next-outbound number equals the last number + 1; `OutInv` holds at the end.  ResendRequests of every
class are allowed in the history. -/
theorem new_messages_consecutive (sr : Msg → Bool) (c : Conn) (evs : List Event) (hI : OutInv c)
    (hok : ∀ ev ∈ evs, ev.ok ∧ isReset ev = false) :
    numbered c.sess.nextOut (newWrites (run sr c evs).2) ∧
    (run sr c evs).1.sess.nextOut = c.sess.nextOut + (newWrites (run sr c evs).2).length ∧
    (run sr c evs).1.journal.outSeq + 1 = (run sr c evs).1.sess.nextOut ∧
    OutInv (run sr c evs).1 := by
  have g := run_good (sr := sr) (U := False) (X := False) evs c hI hok (fun h => h.elim) (fun h => h.elim)
  exact ⟨g.num, g.cnt, g.inv.counter, g.inv⟩

/-- the journal-content claim for ALL histories; false because of the open C06 finding D9
(Findings/C05 `not_new_messages_journaled_full`) -/
def new_messages_journaled_full : Prop :=
  ∀ (sr : Msg → Bool) (c : Conn) (evs : List Event), OutInv c →
    (∀ ev ∈ evs, ev.ok ∧ isReset ev = false) → (run sr c evs).1.sess.nextOut ≤ sysMaxsize + 1 →
    ∀ f ∈ newWrites (run sr c evs).2, ∀ n, seqOf f = some n → Slot sr (run sr c evs).1 n f

/-- **new_messages_journaled_partial**: when no ResendRequest in the history is bounded
(EndSeqNo ≠ 0, finding D9) and numbers fit SQLite's INTEGER, every new message `f` sent under `n` is
at the end represented in the journal under `n` by `f` itself or a retransmitted copy of it; only a
message that is never retransmitted (session-level type, or declined by `should_replay`) may instead
be covered by a SequenceReset-GapFill row / lie inside a multi-number gap fill. -/
theorem new_messages_journaled_partial (sr : Msg → Bool) (c : Conn) (evs : List Event) (hI : OutInv c)
    (hok : ∀ ev ∈ evs, ev.ok ∧ isReset ev = false) (hnb : ∀ ev ∈ evs, boundedResend ev = false)
    (hmax : (run sr c evs).1.sess.nextOut ≤ sysMaxsize + 1) :
    ∀ f ∈ newWrites (run sr c evs).2, ∀ n, seqOf f = some n → Slot sr (run sr c evs).1 n f :=
  (run_good (sr := sr) (U := True) (X := False) evs c hI hok (fun _ => hnb) (fun h => h.elim)).freshSlot
    trivial hmax

/-- **new_messages_readback**: in a history in which no ResendRequest arrives, the exact frame written
for each new message is what `recover_messages(OUTBOUND, n, n)` returns at the end. -/
theorem new_messages_readback (sr : Msg → Bool) (c : Conn) (evs : List Event) (hI : OutInv c)
    (hok : ∀ ev ∈ evs, ev.ok ∧ isReset ev = false) (hnr : ∀ ev ∈ evs, isResendReq ev = false) :
    ∀ f ∈ newWrites (run sr c evs).2, ∀ n, seqOf f = some n →
      (run sr c evs).1.journal.recoverOut n n = [f] := by
  have g := run_good (sr := sr) (U := False) (X := True) evs c hI hok (fun h => h.elim) (fun _ => hnr)
  intro f hf n hn
  exact recoverOut_single _ g.inv.sorted n f (g.freshRow trivial f hf n hn)


/-! ## non-vacuity (concrete states and the history `hist`: Lemmas/SessionOutExamples) -/

/-- `outInv_create` applies to a journal with stored counter 41 (`c0`), `outInv_step` to `c0` -/
example : OutInv c0 := outInv_create _ _ _ _ _ (by decide) (by simp [j0, Rows.Sorted]) (by simp [j0])

example : OutInv c1 := outInv_step (fun _ => true) c0 (.connected .initiator) c0_inv trivial

example : c1.state = st_NETWORK_CONN_ESTABLISHED ∧ c1.sess.nextOut = 42 := by decide

/-- `send_numbered` applies: the first Logon of an initiator whose stored counter is 41 leaves as 42 -/
example : seqOf (buildFrame c1.sess env0.stamp logon 42) = some 42 ∧
    (appSend env0 c1 logon).1.sess.nextOut = 43 ∧ (appSend env0 c1 logon).1.journal.outSeq = 42 := by
  have h := send_numbered env0 c1 logon c1_inv rfl (by decide) logon_latin
  exact ⟨h.2.2.1, h.2.2.2.2.2.1, h.2.2.2.2.2.2.2.1⟩

/-- `refused_send_unchanged` applies: an application message as first message of an initiator;
`refusal_complete` applies to the same send -/
example : appSend env0 c1 (order "x") = (c1, [.raised .connection]) :=
  refused_send_unchanged env0 c1 (order "x") rfl (by decide)

example : sendRefused c1 (order "x") = true :=
  refusal_complete env0 c1 (order "x") c1_inv rfl
    (by rw [refused_send_unchanged env0 c1 (order "x") rfl (by decide)]; simp)

/-- `encoding_refusal` applies: a Logon with a non-single-byte field from NETWORK_CONN_ESTABLISHED; the
state HAS moved to LOGON_INITIAL_SENT although nothing was sent and no number was used -/
example : (appSend env0 c1 badLogon).1.state = st_LOGON_INITIAL_SENT ∧
    (appSend env0 c1 badLogon).1.sess = c1.sess ∧ (appSend env0 c1 badLogon).1.journal = c1.journal := by
  have h := encoding_refusal env0 c1 badLogon rfl (by decide) (by decide)
  rw [h.1]
  exact ⟨by decide, h.2.1, h.2.2.1⟩

/-- the history theorems apply to `hist` from `c0`, and `hist` is not trivial: four new messages leave
(Logon, two orders, the Heartbeat answering the TestRequest), numbered 42 … 45 from the stored counter
41, although a ResendRequest is serviced in between and the last send is refused (EncodingError). -/
example : OutInv (run (fun _ => true) c0 hist).1 :=
  (new_messages_consecutive _ c0 hist c0_inv hist_ok).2.2.2

example : (newWrites (run (fun _ => true) c0 hist).2).map seqOf = [some 42, some 43, some 44, some 45] := by
  decide +kernel

/-- the hypotheses of `new_messages_journaled_partial` hold for `hist` from `c0` (its ResendRequest has
EndSeqNo = 0), those of `new_messages_readback` for the first five events (no ResendRequest yet) -/
example : OutInv c0 ∧ (∀ ev ∈ hist, ev.ok ∧ isReset ev = false) ∧ (∀ ev ∈ hist, boundedResend ev = false) ∧
    (run (fun _ => true) c0 hist).1.sess.nextOut ≤ sysMaxsize + 1 :=
  ⟨c0_inv, hist_ok, hist_unbounded, hist_max⟩

example : ∀ f ∈ newWrites (run (fun _ => true) c0 (hist.take 5)).2, ∀ n, seqOf f = some n →
    (run (fun _ => true) c0 (hist.take 5)).1.journal.recoverOut n n = [f] :=
  new_messages_readback (fun _ => true) c0 (hist.take 5) c0_inv
    (fun ev hev => hist_ok ev (List.mem_of_mem_take hev)) hist5_noResend

end AsyncFix.Props.C05
