/-
C03 — stream reassembly is independent of how the byte stream is chunked.

`feedAll bs tbl [] chunks []` is the model of the inner loop of `socket_read_task` run over the
reads `chunks` (Model/Codec/Reader.lean); `decode` is the model of `Codec.decode`.
The stream is `g0 f1 g1 f2 … fn gn` (`interleave gs frames`): valid frames (`WFFrame`, the
structural spec of Model/Codec/Frame.lean) each of which decodes on its own, separated by blocks
that contain no frame-start marker.  The theorems quantify over ALL chunk lists whose
concatenation is the stream: no bound on sizes, empty chunks allowed, boundaries anywhere
(inside the marker, the BodyLength field, the CheckSum field – they are all instances).

Proof: Lemmas/CodecReader{Basic,Decode,Frame,Ctx,Stream,Loop}.lean (invariant over the chunk list).
-/
import AsyncFix.Lemmas.CodecReaderLoop
import AsyncFix.Lemmas.CodecReaderTrunc
import AsyncFix.Generated.Proto
namespace AsyncFix.Props.C03
open AsyncFix.Model.Codec

/-- **C03.**  Whatever the reads are, the reader hands over exactly the frames that were sent, in
order, each with the message the decoder produces for that frame alone. -/
theorem reader_chunk_independent (bs : Bytes) (tbl : Tbl) (frames : List Bytes) (gs : List Bytes)
    (chunks : List Bytes)
    (hb : okBegin bs = true)
    (hv : ∀ f ∈ frames, WFFrame bs f ∧ ∃ m, decode bs tbl f = .msg m f.length f)
    (hg : ∀ g ∈ gs, NoMarker g) (hlen : gs.length = frames.length + 1)
    (hc : chunks.flatten = interleave gs frames) :
    (feedAll bs tbl [] chunks []).2 = frames.map (fun f => (msgOf bs tbl f, f)) := by
  obtain ⟨g0, gs', rfl, hgood⟩ := good_of hv hg hlen
  have := (feedAll_good hb chunks [] [] frames g0 gs' hgood (by simpa using hc) (short_nil g0 hb hv)).1
  simpa using this

/-- After all reads the buffer holds a (possibly empty) proper prefix of the marker that is a
suffix of the last junk block: nothing of a delivered frame, nothing that is not a potential
beginning of the next frame. -/
theorem reader_residual_buffer (bs : Bytes) (tbl : Tbl) (frames : List Bytes) (gs : List Bytes)
    (chunks : List Bytes)
    (hb : okBegin bs = true)
    (hv : ∀ f ∈ frames, WFFrame bs f ∧ ∃ m, decode bs tbl f = .msg m f.length f)
    (hg : ∀ g ∈ gs, NoMarker g) (hlen : gs.length = frames.length + 1)
    (hc : chunks.flatten = interleave gs frames) :
    ∃ k, k < 6 ∧ (feedAll bs tbl [] chunks []).1 = marker.take k ∧
      (feedAll bs tbl [] chunks []).1 <:+ lastG gs := by
  obtain ⟨g0, gs', rfl, hgood⟩ := good_of hv hg hlen
  exact (feedAll_good hb chunks [] [] frames g0 gs' hgood (by simpa using hc) (short_nil g0 hb hv)).2

/-- Two ways of cutting the same stream give the same deliveries (in particular: any chunking
and the single read of the whole stream). -/
theorem reader_chunkings_agree (bs : Bytes) (tbl : Tbl) (frames : List Bytes) (gs : List Bytes)
    (chunks₁ chunks₂ : List Bytes)
    (hb : okBegin bs = true)
    (hv : ∀ f ∈ frames, WFFrame bs f ∧ ∃ m, decode bs tbl f = .msg m f.length f)
    (hg : ∀ g ∈ gs, NoMarker g) (hlen : gs.length = frames.length + 1)
    (hc₁ : chunks₁.flatten = interleave gs frames) (hc₂ : chunks₂.flatten = interleave gs frames) :
    (feedAll bs tbl [] chunks₁ []).2 = (feedAll bs tbl [] chunks₂ []).2 := by
  rw [reader_chunk_independent bs tbl frames gs chunks₁ hb hv hg hlen hc₁,
    reader_chunk_independent bs tbl frames gs chunks₂ hb hv hg hlen hc₂]

/-- The degenerate chunking: one byte per read. -/
theorem reader_one_byte_reads (bs : Bytes) (tbl : Tbl) (frames : List Bytes) (gs : List Bytes)
    (hb : okBegin bs = true)
    (hv : ∀ f ∈ frames, WFFrame bs f ∧ ∃ m, decode bs tbl f = .msg m f.length f)
    (hg : ∀ g ∈ gs, NoMarker g) (hlen : gs.length = frames.length + 1) :
    (feedAll bs tbl [] ((interleave gs frames).map fun b => [b]) []).2 =
      frames.map (fun f => (msgOf bs tbl f, f)) := by
  refine reader_chunk_independent bs tbl frames gs _ hb hv hg hlen ?_
  generalize interleave gs frames = s
  induction s with
  | nil => rfl
  | cons b s ih => simp [ih]

/-- The reader neither raises nor stalls on such a stream, for any buffer content that is a prefix
of it (in particular after every read). -/
theorem reader_no_raise_no_stall (bs : Bytes) (tbl : Tbl) (frames : List Bytes) (gs : List Bytes)
    (X R : Bytes)
    (hb : okBegin bs = true)
    (hv : ∀ f ∈ frames, WFFrame bs f ∧ ∃ m, decode bs tbl f = .msg m f.length f)
    (hg : ∀ g ∈ gs, NoMarker g) (hlen : gs.length = frames.length + 1)
    (hs : X ++ R = interleave gs frames) :
    (readLoop bs tbl X []).raised = none ∧ (readLoop bs tbl X []).stalled = false := by
  obtain ⟨g0, gs', rfl, hgood⟩ := good_of hv hg hlen
  obtain ⟨_, _, _, _, _, _, hrl, _⟩ := readLoop_good hb frames g0 gs' X R [] hgood hs
  rw [hrl]
  exact ⟨rfl, rfl⟩

/-- A stream that is cut off (the connection ends – EOF, watchdog, application disconnect – while `R` has not
arrived): whatever the reads were, exactly the first `j` frames are handed over, where `j` is determined by the
length of `R` alone: the delivered frames had arrived completely (`R` is no longer than the stream from the junk
block behind frame `j` on) and the end of the next frame had not (`R` is longer than what follows that frame). -/
theorem reader_truncated_stream (bs : Bytes) (tbl : Tbl) (frames : List Bytes) (gs : List Bytes)
    (chunks : List Bytes) (R : Bytes)
    (hb : okBegin bs = true)
    (hv : ∀ f ∈ frames, WFFrame bs f ∧ ∃ m, decode bs tbl f = .msg m f.length f)
    (hg : ∀ g ∈ gs, NoMarker g) (hlen : gs.length = frames.length + 1)
    (hc : chunks.flatten ++ R = interleave gs frames) :
    ∃ j, j ≤ frames.length ∧
      (feedAll bs tbl [] chunks []).2 = (frames.take j).map (fun f => (msgOf bs tbl f, f)) ∧
      R.length ≤ (interleave (gs.drop j) (frames.drop j)).length ∧
      (j < frames.length → (interleave (gs.drop (j + 1)) (frames.drop (j + 1))).length < R.length) := by
  obtain ⟨g0, gs', rfl, hgood⟩ := good_of hv hg hlen
  obtain ⟨done, left, g', gj, gsl, hfr, hdel, hgd, hbr, hdj, hsj, hsh⟩ :=
    feedAll_good_trunc hb R chunks [] [] frames g0 gs' hgood (by simpa using hc) (short_nil g0 hb hv)
  have htake : frames.take done.length = done := by rw [hfr, List.take_left]
  have hdropf : frames.drop done.length = left := by rw [hfr, List.drop_left]
  refine ⟨done.length, by rw [hfr, List.length_append]; omega, ?_, ?_, ?_⟩
  · rw [htake]; simpa using hdel
  · rw [hdj, hdropf, interleave_head gj]
    have h1 := congrArg List.length hbr
    rw [interleave_head g'] at h1
    have h2 := hsj.length_le
    simp only [List.length_append] at h1 ⊢
    omega
  · intro hj
    rw [hfr, List.length_append] at hj
    match left, hgd, hbr, hsh, hdropf, hj with
    | f' :: rest, hgd, hbr, hsh, hdropf, _ =>
      obtain ⟨g1, gsl', rfl⟩ : ∃ g1 gsl', gsl = g1 :: gsl' := by
        have := hgd.hlen
        cases gsl with
        | nil => simp at this
        | cons a b => exact ⟨a, b, rfl⟩
      have hd1 : (g0 :: gs').drop (done.length + 1) = g1 :: gsl' := by
        rw [← List.drop_drop, hdj]; rfl
      have hd2 : frames.drop (done.length + 1) = rest := by
        rw [← List.drop_drop, hdropf]; rfl
      rw [hd1, hd2]
      have h1 := congrArg List.length hbr
      simp only [interleave, List.length_append] at h1
      have h3 : (feedAll bs tbl [] chunks []).1.length < g'.length + f'.length := hsh
      omega
    | [], _, _, _, _, hj => simp at hj

/-- The side condition on the BeginString holds for the protocol of /repo (generated). -/
def protoBegin : Bytes := AsyncFix.Generated.Proto.beginString.toUTF8.toList.map (·.toNat)

theorem okBegin_proto : okBegin protoBegin = true := by decide +kernel

/-! ### non-vacuity: a concrete stream that satisfies every hypothesis

two frames (a Heartbeat whose Text value contains `8=FIX.`, a NewOrderSingle), junk blocks that end
with partial markers, reads that end inside the marker, inside `9=`, inside `10=`, an empty read. -/

def exTbl : Tbl := AsyncFix.Generated.Proto.groups.map fun (g, ms) => (natToDec g, ms.map natToDec)

def exF1 : Bytes := [56, 61, 70, 73, 88, 46, 52, 46, 52, 1, 57, 61, 51, 49, 1, 51, 53, 61, 48, 1, 52, 57,
  61, 83, 1, 53, 54, 61, 84, 1, 51, 52, 61, 49, 1, 53, 56, 61, 56, 61, 70, 73, 88, 46, 120, 1, 49, 48, 61,
  48, 56, 48, 1]
def exF2 : Bytes := [56, 61, 70, 73, 88, 46, 52, 46, 52, 1, 57, 61, 50, 53, 1, 51, 53, 61, 68, 1, 52, 57,
  61, 83, 1, 53, 54, 61, 84, 1, 51, 52, 61, 50, 1, 53, 53, 61, 65, 1, 49, 48, 61, 49, 54, 52, 1]
def exFs1 : List Fld := [⟨[51, 53], [48]⟩, ⟨[52, 57], [83]⟩, ⟨[53, 54], [84]⟩, ⟨[51, 52], [49]⟩,
  ⟨[53, 56], [56, 61, 70, 73, 88, 46, 120]⟩]
def exFs2 : List Fld := [⟨[51, 53], [68]⟩, ⟨[52, 57], [83]⟩, ⟨[53, 54], [84]⟩, ⟨[51, 52], [50]⟩,
  ⟨[53, 53], [65]⟩]
/-- `xx8=F`, `8`, `\x0110=8=FIX` -/
def exGs : List Bytes := [[120, 120, 56, 61, 70], [56], [1, 49, 48, 61, 56, 61, 70, 73, 88]]
def exStream : Bytes := interleave exGs [exF1, exF2]
/-- cuts: inside the junk's partial marker, inside the first marker, inside `9=31`, an empty read,
inside `10=080`, inside the second junk/marker, the rest -/
def exChunks : List Bytes :=
  [exStream.take 4, (exStream.drop 4).take 4, (exStream.drop 8).take 5, [], (exStream.drop 13).take 38,
   (exStream.drop 51).take 10, exStream.drop 61]

def isMsg (r : DecRes) (n : Nat) (raw : Bytes) : Bool :=
  match r with
  | .msg _ n' raw' => n' == n && raw' == raw
  | _ => false

theorem isMsg_spec {r : DecRes} {n : Nat} {raw : Bytes} (h : isMsg r n raw = true) :
    ∃ m, r = .msg m n raw := by
  unfold isMsg at h
  split at h
  · simp only [Bool.and_eq_true, beq_iff_eq] at h
    exact ⟨_, by rw [h.1, h.2]⟩
  · cases h

example :
    okBegin protoBegin = true ∧
    (∀ f ∈ [exF1, exF2], WFFrame protoBegin f ∧ ∃ m, decode protoBegin exTbl f = .msg m f.length f) ∧
    (∀ g ∈ exGs, NoMarker g) ∧ exGs.length = [exF1, exF2].length + 1 ∧
    exChunks.flatten = interleave exGs [exF1, exF2] ∧ exChunks.length = 7 ∧ [] ∈ exChunks := by
  refine ⟨okBegin_proto, ?_, ?_, rfl, by decide +kernel, rfl, by decide +kernel⟩
  · intro f hf
    simp only [List.mem_cons, List.not_mem_nil, or_false] at hf
    rcases hf with rfl | rfl
    · exact ⟨⟨exFs1, by decide +kernel, by decide +kernel, by decide +kernel⟩,
        isMsg_spec (by decide +kernel)⟩
    · exact ⟨⟨exFs2, by decide +kernel, by decide +kernel, by decide +kernel⟩,
        isMsg_spec (by decide +kernel)⟩
  · intro g hg
    simp only [exGs, List.mem_cons, List.not_mem_nil, or_false] at hg
    rcases hg with rfl | rfl | rfl <;> (unfold NoMarker; decide +kernel)

end AsyncFix.Props.C03
