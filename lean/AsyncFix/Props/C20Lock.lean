/-
C20, part 2 — `tester_lockstep`: on clean session scripts the wiring of `FIXTester` (initiator write →
decode → queue → `process_msg_acceptor` → acceptor `_process_message`, its answers handed to the
initiator inside `drain()`; `reply` → encode with the acceptor's session → initiator `_process_message`)
computes, step by step, the same function of the two connection states as two session-model endpoints
that hand each other the frames they write (`lStep`: `send_msg` / `send_test_req`, then the reader
loops `feed`): same frames, same effects, same initiator (ALL fields, journal included), and an acceptor
that agrees in every field except the outbound half of its journal (`AccEq` – `reply` does not journal).

Models: `Model/TesterWire.lean` (tester wiring, `mkAcceptor`, `realAcceptor`, `exchange`) over
`AsyncFix.Session.recv / appSend / appTestReq / feed`.
-/
import AsyncFix.Lemmas.TesterSteps
import AsyncFix.Lemmas.TesterLogon
namespace AsyncFix.Props.C20
open AsyncFix.Tester AsyncFix.Session AsyncFix.Generated AsyncFix.Generated.ConnEnum

/-- a mid-session step of a clean script: an application message or a Heartbeat either way (latin-1 text,
no PossDupFlag, and – for `reply` – without a MsgSeqNum of its own), or a TestRequest either way -/
def MidOp : Op → Prop
  | .iSend m => PlainMsg m ∧ (isAppType m.mtype ∨ m.mtype = mHeartbeat)
  | .aSend m => PlainMsg m ∧ m.has tMsgSeqNum = false ∧ (isAppType m.mtype ∨ m.mtype = mHeartbeat)
  | .iTestReq => True
  | .aTestReq => True

theorem not_testreq_of {t : String} (h : isAppType t ∨ t = mHeartbeat) : t ≠ mTestRequest := by
  rcases h with h | h
  · exact h.2.2.2.1
  · rw [h]; decide

/-- what a receiver does with an application message or Heartbeat frame -/
theorem recv_oneway_est {sr : Msg → Bool} {env : Env} {c : Conn} {f : Msg} {v : String} (h : Est c)
    (ha : Addressed c f v c.sess.nextIn) (hty : isAppType f.mtype ∨ f.mtype = mHeartbeat) :
    ∃ e, recv sr env c f = (afterIn c env f, e) ∧ writes e = [] ∧ Tester.hasRaised e = false := by
  rcases hty with hty | hty
  · exact ⟨_, recv_app_est h ha hty, rfl, rfl⟩
  · exact ⟨_, recv_hb_est h ha hty, rfl, rfl⟩

theorem est_state_gt {c : Conn} (h : Est c) : 3 < c.state := by rw [h.st]; decide

macro "peer_tac" h:term : tactic =>
  `(tactic| exact ⟨by simp [afterIn, afterSend, afterReply, ($h).st], by simp [afterIn, afterSend, afterReply, ($h).ts],
      by simp [afterIn, afterSend, afterReply, ($h).oi], by simp [afterIn, afterSend, afterReply, ($h).io]⟩)

/-- One mid-session step: the tester's wiring and the two endpoints end in the same initiator, in
acceptors that are `AccEq`, with the same effect traces; the queue is empty again, the link is quiet,
and the pairs are synchronised again. -/
theorem mid_step (srI srA : Msg → Bool) (k : Nat) {env : Env} {ci caT caL : Conn} {op : Op}
    (hT : Sync ci caT) (hL : Sync ci caL) (hE : AccEq caT caL) (henv : isLatin1 env.stamp = true) (hop : MidOp op) :
    ∃ ci' caT' caL' eI eA,
      tStep srI srA env (k + 1) ⟨ci, caT, []⟩ op = { pair := ⟨ci', caT', []⟩, effI := eI, effA := eA, out := .done } ∧
      lStep srI srA env ci caL op = ⟨ci', caL', eI, eA, true⟩ ∧
      Sync ci' caT' ∧ Sync ci' caL' ∧ AccEq caT' caL' := by
  cases op with
  | iSend m =>
    obtain ⟨hm, hty⟩ := hop
    have hs := appSend_est hT.i hm henv (not_testreq_of hty)
    obtain ⟨eT, hrT, hwT, hnT⟩ := recv_oneway_est (sr := srA) (env := env) hT.a (addressed_peer hT.peer env m) hty
    obtain ⟨eL, hrL, hwL, hnL⟩ := recv_oneway_est (sr := srA) (env := env) hL.a (addressed_peer hL.peer env m) hty
    have heq : eT = eL := by
      rcases hty with hty | hty
      · rw [recv_app_est hT.a (addressed_peer hT.peer env m) hty] at hrT
        rw [recv_app_est hL.a (addressed_peer hL.peer env m) hty] at hrL
        rw [← (Prod.mk.inj hrT).2, ← (Prod.mk.inj hrL).2]
      · rw [recv_hb_est hT.a (addressed_peer hT.peer env m) hty] at hrT
        rw [recv_hb_est hL.a (addressed_peer hL.peer env m) hty] at hrL
        rw [← (Prod.mk.inj hrT).2, ← (Prod.mk.inj hrL).2]
    subst heq
    refine ⟨_, _, _, _, _, tStep_iSend_oneway k hs rfl hrT hwT hnT,
      lStep_iSend_oneway hs rfl (est_state_gt hL.a) hrL hwL hnL,
      ⟨est_afterSend env m hT.i, est_afterIn env _ hT.a, peer_send_in hT.peer env m _⟩,
      ⟨est_afterSend env m hL.i, est_afterIn env _ hL.a, peer_send_in hL.peer env m _⟩,
      accEq_afterIn hE env _⟩
  | aSend m =>
    obtain ⟨hm, h34, hty⟩ := hop
    have hfr := hE.frame env m
    have hasc := sentFrame_latin1 hT.a.latinS hT.a.latinT henv hm.latin1
    obtain ⟨eI, hr, hw, hn⟩ := recv_oneway_est (sr := srI) (env := env) hT.i (addressed_peer hT.peer.symm env m) hty
    have hsL := appSend_est hL.a hm henv (not_testreq_of hty)
    rw [← hfr] at hsL
    refine ⟨_, _, _, _, _, tStep_aSend_oneway (k + 1) h34 hm.notReset hm.noPossDup hasc hr hw hn,
      lStep_aSend_oneway hsL rfl (est_state_gt hL.i) hr hw hn,
      ⟨est_afterIn env _ hT.i, est_afterReply hT.a, ?_⟩,
      ⟨est_afterIn env _ hL.i, est_afterSend env m hL.a, ?_⟩,
      accEq_reply hE env m⟩
    · peer_tac hT.peer
    · peer_tac hL.peer
  | iTestReq =>
    have hs := appTestReq_est hT.i henv
    have hidA : isLatin1 (((sentFrame ci env (testReqOut env)).get? tTestReqID).getD "0") = true := by
      rw [testreq_frame_id]; exact latin1_pyStr _
    have hrT := recv_testreq_est (sr := srA) hT.a (addressed_peer hT.peer env (testReqOut env)) rfl henv hidA
    have hrL := recv_testreq_est (sr := srA) hL.a (addressed_peer hL.peer env (testReqOut env)) rfl henv hidA
    rw [← hE.frame env] at hrL
    -- the initiator takes the Heartbeat
    have hg112 : (sentFrame caT env (hbReply (sentFrame ci env (testReqOut env)))).get? tTestReqID = some (pyStr env.secs) := by
      rw [hbReply_frame_id, testreq_frame_id]; rfl
    have haI : Addressed (afterSend ci env (testReqOut env)) (sentFrame caT env (hbReply (sentFrame ci env (testReqOut env))))
        (pyStr caT.sess.nextOut) (afterSend ci env (testReqOut env)).sess.nextIn :=
      addressed_sentFrame env _ hT.peer.symm.st hT.peer.symm.ts hT.peer.io
    have hr2 := recv_answer_est (sr := srI) (env := env) env.secs (est_afterSend env (testReqOut env) hT.i) haI rfl hg112
      (pyInt_pyStr' _)
    refine ⟨_, _, _, _, _,
      tStep_iTestReq_reply k hs rfl hrT rfl rfl hr2 rfl rfl,
      lStep_iTestReq_reply hs rfl (est_state_gt hL.a) hrL rfl rfl (by show 3 < ci.state; exact est_state_gt hT.i) hr2 rfl rfl,
      ⟨est_afterIn env _ (est_afterSend env _ hT.i), est_afterIn env _ (est_afterSend env _ hT.a), ?_⟩,
      ⟨est_afterIn env _ (est_afterSend env _ hL.i), est_afterIn env _ (est_afterSend env _ hL.a), ?_⟩,
      accEq_afterIn (accEq_afterSend hE env _) env _⟩
    · peer_tac hT.peer
    · peer_tac hL.peer
  | aTestReq =>
    have hasc := sentFrame_latin1 hT.a.latinS hT.a.latinT henv (testReqOut_latin1 env)
    have hidI : isLatin1 (((sentFrame caT env (testReqOut env)).get? tTestReqID).getD "0") = true := by
      rw [testreq_frame_id]; exact latin1_pyStr _
    have hr := recv_testreq_est (sr := srI) hT.i (addressed_peer hT.peer.symm env (testReqOut env)) rfl henv hidI
    -- tester: the acceptor (no TestReqID registered) takes the Heartbeat as an ordinary one
    have haT : Addressed (afterReply caT) (sentFrame ci env (hbReply (sentFrame caT env (testReqOut env))))
        (pyStr ci.sess.nextOut) (afterReply caT).sess.nextIn :=
      addressed_sentFrame env _ hT.peer.st hT.peer.ts hT.peer.oi
    have hr2T := recv_hb_est (sr := srA) (env := env) (est_afterReply hT.a) haT rfl
    -- real acceptor: `send_test_req` registered the id, the Heartbeat clears it
    have hsL := appTestReq_est hL.a henv
    rw [← hE.frame env] at hsL
    have hg112 : (sentFrame ci env (hbReply (sentFrame caT env (testReqOut env)))).get? tTestReqID = some (pyStr env.secs) := by
      rw [hbReply_frame_id, testreq_frame_id]; rfl
    have haL : Addressed (afterSend caL env (testReqOut env)) (sentFrame ci env (hbReply (sentFrame caT env (testReqOut env))))
        (pyStr ci.sess.nextOut) (afterSend caL env (testReqOut env)).sess.nextIn :=
      addressed_sentFrame env _ hL.peer.st hL.peer.ts hL.peer.oi
    have hr2L := recv_answer_est (sr := srA) (env := env) env.secs (est_afterSend env (testReqOut env) hL.a) haL rfl hg112
      (pyInt_pyStr' _)
    refine ⟨_, _, _, _, _,
      tStep_aTestReq_reply k hasc hr rfl rfl hr2T rfl rfl,
      lStep_aTestReq_reply hsL rfl (est_state_gt hL.i) hr rfl rfl (by show 3 < caL.state; exact est_state_gt hL.a) hr2L rfl rfl,
      ⟨est_afterIn env _ (est_afterSend env _ hT.i), est_afterIn env _ (est_afterReply hT.a), ?_⟩,
      ⟨est_afterIn env _ (est_afterSend env _ hL.i), est_afterIn env _ (est_afterSend env _ hL.a), ?_⟩,
      accEq_afterIn (accEq_reply hE env _) env _⟩
    · peer_tac hT.peer
    · peer_tac hL.peer

/-! ### the first step: Logon from freshly connected endpoints -/

theorem realAcceptor_eq (ci : Conn) :
    realAcceptor ci =
      { state := st_NETWORK_CONN_ESTABLISHED, role := roleAcceptor, wasActive := false,
        sess := { sender := ci.sess.target, target := ci.sess.sender, nextIn := ci.sess.nextOut, nextOut := ci.sess.nextIn },
        maxResend := 0, testReqId := none, lastTime := 0, hb := 30, sock := true,
        journal := { outSeq := ci.sess.nextIn - 1, inSeq := ci.sess.nextOut - 1 } } := by
  simp [realAcceptor, connected, connectedM, M.run, Conn.create, bind, M.bind', M.get, M.modify, M.emit, pure, M.pure',
    Int.sub_add_cancel]

theorem accStart_mk {ci : Conn} : AccStart ci (mkAcceptor ci) :=
  ⟨rfl, rfl, rfl, ⟨fun p hp => (by cases hp), fun p hp => (by cases hp)⟩, ⟨rfl, rfl, rfl, rfl⟩⟩

theorem accStart_real {ci : Conn} : AccStart ci (realAcceptor ci) := by
  rw [realAcceptor_eq]
  exact ⟨rfl, rfl, rfl, ⟨fun p hp => (by cases hp), fun p hp => (by cases hp)⟩, ⟨rfl, rfl, rfl, rfl⟩⟩

theorem real_frame (ci : Conn) (env : Env) (r : Msg) :
    sentFrame (realAcceptor ci) env r = sentFrame (mkAcceptor ci) env r := by
  rw [realAcceptor_eq]; rfl

theorem accEq_afterLogon (ci : Conn) (env : Env) (f : Msg) :
    AccEq (aAfterLogon (mkAcceptor ci) env f) (aAfterLogon (realAcceptor ci) env f) := by
  rw [realAcceptor_eq]
  refine ⟨rfl, rfl, rfl, rfl, rfl, rfl, rfl, rfl, rfl, ?_, ?_⟩ <;>
    simp [aAfterLogon, afterIn, afterSend, jIn, jOut, mkAcceptor, Journal.persist, Rows.insert, sentFrame]

theorem est_aAfterLogon {ci ca : Conn} {env : Env} {f : Msg} (hs : Start ci) (h : AccStart ci ca) :
    Est (aAfterLogon ca env f) := by
  have hf := jfresh_afterIn env f (jfresh_afterSend env (logonReply f) h.fresh)
  refine ⟨rfl, rfl, h.sock, h.noreq, ?_, ⟨hf.out, hf.inb⟩, ?_, ?_⟩
  · show 0 < ca.sess.nextIn + 1
    have := hs.posOut
    rw [h.peer.oi]; omega
  · show isLatin1 ca.sess.sender = true
    rw [h.peer.ts]; exact hs.latinT
  · show isLatin1 ca.sess.target = true
    rw [h.peer.st]; exact hs.latinS

theorem est_iAfterLogon {ci : Conn} {env : Env} {m g : Msg} (hs : Start ci) : Est (iAfterLogon ci env m g) := by
  have hf := jfresh_afterIn env g (jfresh_afterSend env m hs.fresh)
  exact ⟨rfl, rfl, hs.sock, hs.noreq, by show 0 < ci.sess.nextIn + 1; have := hs.posIn; omega, ⟨hf.out, hf.inb⟩,
    hs.latinS, hs.latinT⟩

theorem peer_afterLogon {ci ca : Conn} (h : Peer ci ca) (env : Env) (m g f : Msg) :
    Peer (iAfterLogon ci env m g) (aAfterLogon ca env f) :=
  ⟨by simp [iAfterLogon, aAfterLogon, afterIn, afterSend, h.st], by simp [iAfterLogon, aAfterLogon, afterIn, afterSend, h.ts],
   by simp [iAfterLogon, aAfterLogon, afterIn, afterSend, h.oi], by simp [iAfterLogon, aAfterLogon, afterIn, afterSend, h.io]⟩

/-- The Logon step: from a freshly connected initiator, the tester's simulated acceptor
(`mkAcceptor`: a base-class connection with state and counters set by hand, role UNKNOWN, empty journal)
and a real acceptor endpoint (`realAcceptor`: role ACCEPTOR, journal counters mirrored) produce the
same frames and effects, the same initiator, and acceptors that are `AccEq` (role and stored inbound
counter have converged); both pairs are established and synchronised. -/
theorem logon_step (srI srA : Msg → Bool) (k : Nat) {env : Env} {ci : Conn} {m : Msg}
    (hs : Start ci) (hm : LogonMsg m) (henv : isLatin1 env.stamp = true) :
    ∃ ci' caT' caL' eI eA,
      tStep srI srA env (k + 1) ⟨ci, mkAcceptor ci, []⟩ (.iSend m) =
        { pair := ⟨ci', caT', []⟩, effI := eI, effA := eA, out := .done } ∧
      lStep srI srA env ci (realAcceptor ci) (.iSend m) = ⟨ci', caL', eI, eA, true⟩ ∧
      Sync ci' caT' ∧ Sync ci' caL' ∧ AccEq caT' caL' := by
  have hsend := appSend_logon hs hm henv
  have hT := accStart_mk (ci := ci)
  have hL := accStart_real (ci := ci)
  have hrT := recv_logon_acc (sr := srA) hs hT hm henv hs.latinT hs.latinS
  have hrL := recv_logon_acc (sr := srA) hs hL hm henv (by rw [hL.peer.ts]; exact hs.latinT) (by rw [hL.peer.st]; exact hs.latinS)
  rw [real_frame] at hrL
  have hr2 := recv_logon_ini (sr := srI) (env := env) (m := m) hs hT (logonReply (sentFrame ci env m)) rfl
  refine ⟨_, _, _, _, _,
    tStep_iSend_reply k hsend rfl hrT rfl rfl hr2 rfl rfl,
    lStep_iSend_reply hsend rfl (by rw [hL.st]; decide) hrL rfl rfl (by show 3 < st_LOGON_INITIAL_SENT; decide) hr2 rfl rfl,
    ⟨est_iAfterLogon hs, est_aAfterLogon hs hT, peer_afterLogon hT.peer env _ _ _⟩,
    ⟨est_iAfterLogon hs, est_aAfterLogon hs hL, peer_afterLogon hL.peer env _ _ _⟩,
    accEq_afterLogon ci env _⟩

/-! ### the last step: Logout by either side -/

/-- the closing step of a clean script: a Logout sent by the initiator, or on the acceptor's behalf -/
def FinOp : Op → Prop
  | .iSend m => PlainMsg m ∧ m.mtype = mLogout
  | .aSend m => PlainMsg m ∧ m.has tMsgSeqNum = false ∧ m.mtype = mLogout
  | .iTestReq => False
  | .aTestReq => False

theorem accEq_closed {t l : Conn} (h : AccEq t l) :
    AccEq { t with state := st_DISCONNECTED_WCONN_TODAY, testReqId := none, lastTime := 0, maxResend := 0, sock := false }
      { l with state := st_DISCONNECTED_WCONN_TODAY, testReqId := none, lastTime := 0, maxResend := 0, sock := false } :=
  ⟨rfl, h.role, h.was, h.sess, rfl, rfl, rfl, h.hb, rfl, h.inb, h.inSeq⟩

theorem final_step (srI srA : Msg → Bool) (k : Nat) {env : Env} {ci caT caL : Conn} {op : Op}
    (hT : Sync ci caT) (hL : Sync ci caL) (hE : AccEq caT caL) (henv : isLatin1 env.stamp = true) (hop : FinOp op) :
    ∃ ci' caT' caL' eI eA,
      tStep srI srA env (k + 1) ⟨ci, caT, []⟩ op = { pair := ⟨ci', caT', []⟩, effI := eI, effA := eA, out := .done } ∧
      lStep srI srA env ci caL op = ⟨ci', caL', eI, eA, true⟩ ∧ AccEq caT' caL' := by
  cases op with
  | iSend m =>
    obtain ⟨hm, hty⟩ := hop
    have hs := appSend_est hT.i hm henv (by rw [hty]; decide)
    have hrT := recv_logout_est (sr := srA) (env := env) hT.a (addressed_peer hT.peer env m) hty
    have hrL := recv_logout_est (sr := srA) (env := env) hL.a (addressed_peer hL.peer env m) hty
    exact ⟨_, _, _, _, _, tStep_iSend_oneway k hs rfl hrT rfl rfl,
      lStep_iSend_oneway hs rfl (est_state_gt hL.a) hrL rfl rfl, accEq_closed hE⟩
  | aSend m =>
    obtain ⟨hm, h34, hty⟩ := hop
    have hfr := hE.frame env m
    have hasc := sentFrame_latin1 hT.a.latinS hT.a.latinT henv hm.latin1
    have hr := recv_logout_est (sr := srI) (env := env) hT.i (addressed_peer hT.peer.symm env m) hty
    have hsL := appSend_est hL.a hm henv (by rw [hty]; decide)
    rw [← hfr] at hsL
    exact ⟨_, _, _, _, _, tStep_aSend_oneway (k + 1) h34 hm.notReset hm.noPossDup hasc hr rfl rfl,
      lStep_aSend_oneway hsL rfl (est_state_gt hL.i) hr rfl rfl, accEq_reply hE env m⟩
  | iTestReq => exact absurd hop id
  | aTestReq => exact absurd hop id

/-! ### scripts -/

/-- what "the same" means for a run against the tester and a run against a real acceptor endpoint -/
structure Agree (T : TRes) (L : LRes) : Prop where
  done : T.out = .done           -- no exception escaped, no fuel ran out, nothing outside the model
  que : T.pair.que = []          -- the tester's queue is drained
  quiet : L.quiet = true         -- nothing left in flight between the two endpoints
  ci : T.pair.ci = L.ci          -- the initiator: every field, journal included
  ca : AccEq T.pair.ca L.ca      -- the acceptor: every field but the outbound half of the journal
  effI : T.effI = L.effI         -- the initiator's frames and hooks, in order
  effA : T.effA = L.effA         -- the acceptor's frames and hooks (on the tester `deliver` shows as a swallowed
                                 -- NotImplementedError: `accView`)

theorem tRun_cons {srI srA : Msg → Bool} {fuel : Nat} {p p1 : TPair} {env : Env} {op : Op} {eI eA : List Effect}
    (rest : List (Env × Op))
    (h : tStep srI srA env fuel p op = { pair := p1, effI := eI, effA := eA, out := .done }) :
    tRun srI srA fuel p ((env, op) :: rest) =
      { pair := (tRun srI srA fuel p1 rest).pair, effI := eI ++ (tRun srI srA fuel p1 rest).effI,
        effA := eA ++ (tRun srI srA fuel p1 rest).effA, out := (tRun srI srA fuel p1 rest).out } := by
  simp [tRun, h]

theorem lRun_cons {srI srA : Msg → Bool} {ci ca i1 a1 : Conn} {env : Env} {op : Op} {eI eA : List Effect} {q : Bool}
    (rest : List (Env × Op)) (h : lStep srI srA env ci ca op = ⟨i1, a1, eI, eA, q⟩) :
    lRun srI srA ci ca ((env, op) :: rest) =
      ⟨(lRun srI srA i1 a1 rest).ci, (lRun srI srA i1 a1 rest).ca, eI ++ (lRun srI srA i1 a1 rest).effI,
       eA ++ (lRun srI srA i1 a1 rest).effA, q && (lRun srI srA i1 a1 rest).quiet⟩ := by
  simp [lRun, h]

theorem agree_cons {T : TRes} {L : LRes} {eI eA : List Effect} (h : Agree T L) :
    Agree { pair := T.pair, effI := eI ++ T.effI, effA := eA ++ T.effA, out := T.out }
      ⟨L.ci, L.ca, eI ++ L.effI, eA ++ L.effA, true && L.quiet⟩ :=
  ⟨h.done, h.que, by simp [h.quiet], h.ci, h.ca, by simp [h.effI], by simp [h.effA]⟩

/-- the middle and the end of a clean script, from an established synchronised pair -/
theorem run_from_sync (srI srA : Msg → Bool) (k : Nat) (mids : List (Env × Op)) (fin : Option (Env × Op))
    (hmids : ∀ x ∈ mids, isLatin1 x.1.stamp = true ∧ MidOp x.2)
    (hfin : ∀ x ∈ fin, isLatin1 x.1.stamp = true ∧ FinOp x.2) :
    ∀ {ci caT caL : Conn}, Sync ci caT → Sync ci caL → AccEq caT caL →
      Agree (tRun srI srA (k + 1) ⟨ci, caT, []⟩ (mids ++ fin.toList)) (lRun srI srA ci caL (mids ++ fin.toList)) := by
  induction mids with
  | nil =>
    intro ci caT caL hT hL hE
    cases fin with
    | none => exact ⟨rfl, rfl, rfl, rfl, hE, rfl, rfl⟩
    | some x =>
      obtain ⟨env, op⟩ := x
      obtain ⟨henv, hop⟩ := hfin (env, op) rfl
      obtain ⟨ci', caT', caL', eI, eA, ht, hl, hE'⟩ := final_step srI srA k hT hL hE henv hop
      simp only [List.nil_append, Option.toList]
      rw [tRun_cons [] ht, lRun_cons [] hl]
      exact agree_cons ⟨rfl, rfl, rfl, rfl, hE', rfl, rfl⟩
  | cons x rest ih =>
    intro ci caT caL hT hL hE
    obtain ⟨env, op⟩ := x
    obtain ⟨henv, hop⟩ := hmids (env, op) (by simp)
    obtain ⟨ci', caT', caL', eI, eA, ht, hl, hT', hL', hE'⟩ := mid_step srI srA k hT hL hE henv hop
    simp only [List.cons_append]
    rw [tRun_cons _ ht, lRun_cons _ hl]
    exact agree_cons (ih (fun y hy => hmids y (by simp [hy])) hT' hL' hE')

/-- **`tester_lockstep`**.  For every clean session script –
a Logon by the initiator, then any number of application messages / Heartbeats / TestRequests either
way, then optionally a Logout by either side – from a freshly connected initiator with any synchronised
counters, replayed (a) through the wiring of `FIXTester` against its simulated acceptor and (b) between
the initiator and a real acceptor endpoint: no step raises, the tester's queue is drained after every
step within ONE loop iteration (any fuel ≥ 1), the link is quiet after three legs, and both runs produce
the same frames and hook calls on both sides, the same initiator connection (all fields incl. journal)
and acceptors that agree in everything but the outbound half of the journal.

Clean = single-byte (latin-1) text – what `send_msg` can put on the wire at all –, no PossDupFlag, no
SequenceReset, and – for messages sent on the acceptor's behalf – no MsgSeqNum of their own (`PlainMsg`,
`MidOp`, `FinOp`, `LogonMsg`).  (Before fix bcdee93 `reply` encoded UTF-8 and this held for ASCII text only.) -/
theorem tester_lockstep (srI srA : Msg → Bool) (k : Nat) {ci : Conn} (hs : Start ci)
    {env0 : Env} {m0 : Msg} (henv0 : isLatin1 env0.stamp = true) (hm0 : LogonMsg m0)
    (mids : List (Env × Op)) (fin : Option (Env × Op))
    (hmids : ∀ x ∈ mids, isLatin1 x.1.stamp = true ∧ MidOp x.2)
    (hfin : ∀ x ∈ fin, isLatin1 x.1.stamp = true ∧ FinOp x.2) :
    Agree (tRun srI srA (k + 1) ⟨ci, mkAcceptor ci, []⟩ ((env0, .iSend m0) :: (mids ++ fin.toList)))
      (lRun srI srA ci (realAcceptor ci) ((env0, .iSend m0) :: (mids ++ fin.toList))) := by
  obtain ⟨ci', caT', caL', eI, eA, ht, hl, hT', hL', hE'⟩ := logon_step srI srA k hs hm0 henv0
  rw [tRun_cons _ ht, lRun_cons _ hl]
  exact agree_cons (run_from_sync srI srA k mids fin hmids hfin hT' hL' hE')

/-! ### non-vacuity -/

/-- a concrete initiator, clock and script satisfying every hypothesis of `tester_lockstep` -/
def ciEx : Conn := { state := 6, role := 1, sess := { sender := "INIT", target := "ACPT", nextIn := 5, nextOut := 7 }, sock := true }
def envEx (n : Int) : Env := { now := n * 1000, stamp := "20240102-03:04:05.678" }
def logonEx : Msg := Msg.mk' mLogon [(tEncryptMethod, "0"), (tHeartBtInt, "30")]
def appEx : Msg := Msg.mk' "D" [(11, "c1"), (58, "text")]

theorem start_ciEx : Start ciEx :=
  ⟨rfl, rfl, rfl, by decide, by decide, ⟨fun p hp => (by cases hp), fun p hp => (by cases hp)⟩, by decide, by decide⟩

theorem logonEx_ok : LogonMsg logonEx := ⟨rfl, by decide, by decide, rfl, rfl⟩

theorem appEx_plain : PlainMsg appEx := ⟨by decide, by decide, by decide⟩

theorem appEx_app : isAppType appEx.mtype := ⟨by decide, by decide, by decide, by decide, by decide, by decide⟩

/-- non-vacuity: Logon, an order one way, an answer the other way, TestRequests both ways, Logout -/
example :
    Agree
      (tRun (fun _ => true) (fun _ => true) 1 ⟨ciEx, mkAcceptor ciEx, []⟩
        ((envEx 1, .iSend logonEx) :: ([(envEx 2, .iSend appEx), (envEx 3, .aSend appEx), (envEx 4, .iTestReq),
          (envEx 5, .aTestReq)] ++ (some (envEx 6, Op.iSend (Msg.mk' mLogout []))).toList)))
      (lRun (fun _ => true) (fun _ => true) ciEx (realAcceptor ciEx)
        ((envEx 1, .iSend logonEx) :: ([(envEx 2, .iSend appEx), (envEx 3, .aSend appEx), (envEx 4, .iTestReq),
          (envEx 5, .aTestReq)] ++ (some (envEx 6, Op.iSend (Msg.mk' mLogout []))).toList))) := by
  apply tester_lockstep _ _ 0 start_ciEx (by decide) logonEx_ok
  · intro x hx
    simp only [List.mem_cons, List.mem_nil_iff, or_false] at hx
    rcases hx with rfl | rfl | rfl | rfl
    · exact ⟨by decide, appEx_plain, Or.inl appEx_app⟩
    · exact ⟨by decide, appEx_plain, rfl, Or.inl appEx_app⟩
    · exact ⟨by decide, trivial⟩
    · exact ⟨by decide, trivial⟩
  · intro x hx
    cases hx
    exact ⟨by decide, ⟨by decide, by decide, by decide⟩, rfl⟩

end AsyncFix.Props.C20
