/-
C20, part 2 — `tester_lockstep`: on clean session scripts the wiring of `FIXTester` (initiator write →
decode → queue → `process_msg_acceptor` → acceptor `_process_message`, its answers handed to the
initiator inside `drain()`; `reply` → encode with the acceptor's session → initiator `_process_message`)
computes, step by step, the same function of the two connection states as two session-model endpoints
that hand each other the frames they write (`lStep`: `send_msg` / `send_test_req`, then the reader
loops `feed`): same frames, same effects, same initiator (ALL fields, journal included), and an acceptor
that agrees in every field except the outbound half of its journal (`AccEq` – `reply` does not journal).

Models: `Model/TesterWire.lean` (tester wiring, `mkAcceptor`, `realAcceptor`, `exchange`) over
`AsyncFix.Session.recv / appSend / appTestReq / feed`.
-/
import AsyncFix.Lemmas.TesterSteps
namespace AsyncFix.Props.C20
open AsyncFix.Tester AsyncFix.Session AsyncFix.Generated AsyncFix.Generated.ConnEnum

/-- a mid-session step of a clean script: an application message or a Heartbeat either way (ASCII,
no PossDupFlag, and – for `reply` – without a MsgSeqNum of its own), or a TestRequest either way -/
def MidOp : Op → Prop
  | .iSend m => PlainMsg m ∧ (isAppType m.mtype ∨ m.mtype = mHeartbeat)
  | .aSend m => PlainMsg m ∧ m.has tMsgSeqNum = false ∧ (isAppType m.mtype ∨ m.mtype = mHeartbeat)
  | .iTestReq => True
  | .aTestReq => True

theorem not_testreq_of {t : String} (h : isAppType t ∨ t = mHeartbeat) : t ≠ mTestRequest := by
  rcases h with h | h
  · exact h.2.2.2.1
  · rw [h]; decide

/-- what a receiver does with an application message or Heartbeat frame -/
theorem recv_oneway_est {sr : Msg → Bool} {env : Env} {c : Conn} {f : Msg} {v : String} (h : Est c)
    (ha : Addressed c f v c.sess.nextIn) (hty : isAppType f.mtype ∨ f.mtype = mHeartbeat) :
    ∃ e, recv sr env c f = (afterIn c env f, e) ∧ writes e = [] ∧ hasRaised e = false := by
  rcases hty with hty | hty
  · exact ⟨_, recv_app_est h ha hty, rfl, rfl⟩
  · exact ⟨_, recv_hb_est h ha hty, rfl, rfl⟩

theorem est_state_gt {c : Conn} (h : Est c) : 3 < c.state := by rw [h.st]; decide

macro "peer_tac" h:term : tactic =>
  `(tactic| exact ⟨by simp [afterIn, afterSend, afterReply, ($h).st], by simp [afterIn, afterSend, afterReply, ($h).ts],
      by simp [afterIn, afterSend, afterReply, ($h).oi], by simp [afterIn, afterSend, afterReply, ($h).io]⟩)

/-- One mid-session step: the tester's wiring and the two endpoints end in the same initiator, in
acceptors that are `AccEq`, with the same effect traces; the queue is empty again, the link is quiet,
and the pairs are synchronised again. -/
theorem mid_step (srI srA : Msg → Bool) (k : Nat) {env : Env} {ci caT caL : Conn} {op : Op}
    (hT : Sync ci caT) (hL : Sync ci caL) (hE : AccEq caT caL) (henv : asciiStr env.stamp = true) (hop : MidOp op) :
    ∃ ci' caT' caL' eI eA,
      tStep srI srA env (k + 1) ⟨ci, caT, []⟩ op = { pair := ⟨ci', caT', []⟩, effI := eI, effA := eA, out := .done } ∧
      lStep srI srA env ci caL op = ⟨ci', caL', eI, eA, true⟩ ∧
      Sync ci' caT' ∧ Sync ci' caL' ∧ AccEq caT' caL' := by
  cases op with
  | iSend m =>
    obtain ⟨hm, hty⟩ := hop
    have hs := appSend_est hT.i hm henv (not_testreq_of hty)
    obtain ⟨eT, hrT, hwT, hnT⟩ := recv_oneway_est (sr := srA) (env := env) hT.a (addressed_peer hT.peer env m) hty
    obtain ⟨eL, hrL, hwL, hnL⟩ := recv_oneway_est (sr := srA) (env := env) hL.a (addressed_peer hL.peer env m) hty
    have heq : eT = eL := by
      rcases hty with hty | hty
      · rw [recv_app_est hT.a (addressed_peer hT.peer env m) hty] at hrT
        rw [recv_app_est hL.a (addressed_peer hL.peer env m) hty] at hrL
        rw [← (Prod.mk.inj hrT).2, ← (Prod.mk.inj hrL).2]
      · rw [recv_hb_est hT.a (addressed_peer hT.peer env m) hty] at hrT
        rw [recv_hb_est hL.a (addressed_peer hL.peer env m) hty] at hrL
        rw [← (Prod.mk.inj hrT).2, ← (Prod.mk.inj hrL).2]
    subst heq
    refine ⟨_, _, _, _, _, tStep_iSend_oneway k hs rfl hrT hwT hnT,
      lStep_iSend_oneway hs rfl (est_state_gt hL.a) hrL hwL hnL,
      ⟨est_afterSend env m hT.i, est_afterIn env _ hT.a, peer_send_in hT.peer env m _⟩,
      ⟨est_afterSend env m hL.i, est_afterIn env _ hL.a, peer_send_in hL.peer env m _⟩,
      accEq_afterIn hE env _⟩
  | aSend m =>
    obtain ⟨hm, h34, hty⟩ := hop
    have hfr := hE.frame env m
    have hasc := sentFrame_ascii hT.a.asciiS hT.a.asciiT henv hm.ascii
    obtain ⟨eI, hr, hw, hn⟩ := recv_oneway_est (sr := srI) (env := env) hT.i (addressed_peer hT.peer.symm env m) hty
    have hsL := appSend_est hL.a hm henv (not_testreq_of hty)
    rw [← hfr] at hsL
    refine ⟨_, _, _, _, _, tStep_aSend_oneway (k + 1) h34 hm.notReset hm.noPossDup hasc hr hw hn,
      lStep_aSend_oneway hsL rfl (est_state_gt hL.i) hr hw hn,
      ⟨est_afterIn env _ hT.i, est_afterReply hT.a, ?_⟩,
      ⟨est_afterIn env _ hL.i, est_afterSend env m hL.a, ?_⟩,
      accEq_reply hE env m⟩
    · peer_tac hT.peer
    · peer_tac hL.peer
  | iTestReq =>
    have hs := appTestReq_est hT.i henv
    have hidA : asciiStr (((sentFrame ci env (testReqOut env)).get? tTestReqID).getD "0") = true := by
      rw [testreq_frame_id]; exact asciiStr_pyStr _
    have hrT := recv_testreq_est (sr := srA) hT.a (addressed_peer hT.peer env (testReqOut env)) rfl henv hidA
    have hrL := recv_testreq_est (sr := srA) hL.a (addressed_peer hL.peer env (testReqOut env)) rfl henv hidA
    rw [← hE.frame env] at hrL
    -- the initiator takes the Heartbeat
    have hg112 : (sentFrame caT env (hbReply (sentFrame ci env (testReqOut env)))).get? tTestReqID = some (pyStr env.secs) := by
      rw [hbReply_frame_id, testreq_frame_id]; rfl
    have haI : Addressed (afterSend ci env (testReqOut env)) (sentFrame caT env (hbReply (sentFrame ci env (testReqOut env))))
        (pyStr caT.sess.nextOut) (afterSend ci env (testReqOut env)).sess.nextIn :=
      addressed_sentFrame env _ hT.peer.symm.st hT.peer.symm.ts hT.peer.io
    have hr2 := recv_answer_est (sr := srI) (env := env) env.secs (est_afterSend env (testReqOut env) hT.i) haI rfl hg112
      (pyInt_pyStr' _)
    refine ⟨_, _, _, _, _,
      tStep_iTestReq_reply k hs rfl hrT rfl rfl hr2 rfl rfl,
      lStep_iTestReq_reply hs rfl (est_state_gt hL.a) hrL rfl rfl (by show 3 < ci.state; exact est_state_gt hT.i) hr2 rfl rfl,
      ⟨est_afterIn env _ (est_afterSend env _ hT.i), est_afterIn env _ (est_afterSend env _ hT.a), ?_⟩,
      ⟨est_afterIn env _ (est_afterSend env _ hL.i), est_afterIn env _ (est_afterSend env _ hL.a), ?_⟩,
      accEq_afterIn (accEq_afterSend hE env _) env _⟩
    · peer_tac hT.peer
    · peer_tac hL.peer
  | aTestReq =>
    have hasc := sentFrame_ascii hT.a.asciiS hT.a.asciiT henv (testReqOut_ascii env)
    have hidI : asciiStr (((sentFrame caT env (testReqOut env)).get? tTestReqID).getD "0") = true := by
      rw [testreq_frame_id]; exact asciiStr_pyStr _
    have hr := recv_testreq_est (sr := srI) hT.i (addressed_peer hT.peer.symm env (testReqOut env)) rfl henv hidI
    -- tester: the acceptor (no TestReqID registered) takes the Heartbeat as an ordinary one
    have haT : Addressed (afterReply caT) (sentFrame ci env (hbReply (sentFrame caT env (testReqOut env))))
        (pyStr ci.sess.nextOut) (afterReply caT).sess.nextIn :=
      addressed_sentFrame env _ hT.peer.st hT.peer.ts hT.peer.oi
    have hr2T := recv_hb_est (sr := srA) (env := env) (est_afterReply hT.a) haT rfl
    -- real acceptor: `send_test_req` registered the id, the Heartbeat clears it
    have hsL := appTestReq_est hL.a henv
    rw [← hE.frame env] at hsL
    have hg112 : (sentFrame ci env (hbReply (sentFrame caT env (testReqOut env)))).get? tTestReqID = some (pyStr env.secs) := by
      rw [hbReply_frame_id, testreq_frame_id]; rfl
    have haL : Addressed (afterSend caL env (testReqOut env)) (sentFrame ci env (hbReply (sentFrame caT env (testReqOut env))))
        (pyStr ci.sess.nextOut) (afterSend caL env (testReqOut env)).sess.nextIn :=
      addressed_sentFrame env _ hL.peer.st hL.peer.ts hL.peer.oi
    have hr2L := recv_answer_est (sr := srA) (env := env) env.secs (est_afterSend env (testReqOut env) hL.a) haL rfl hg112
      (pyInt_pyStr' _)
    refine ⟨_, _, _, _, _,
      tStep_aTestReq_reply k hasc hr rfl rfl hr2T rfl rfl,
      lStep_aTestReq_reply hsL rfl (est_state_gt hL.i) hr rfl rfl (by show 3 < caL.state; exact est_state_gt hL.a) hr2L rfl rfl,
      ⟨est_afterIn env _ (est_afterSend env _ hT.i), est_afterIn env _ (est_afterReply hT.a), ?_⟩,
      ⟨est_afterIn env _ (est_afterSend env _ hL.i), est_afterIn env _ (est_afterSend env _ hL.a), ?_⟩,
      accEq_afterIn (accEq_reply hE env _) env _⟩
    · peer_tac hT.peer
    · peer_tac hL.peer

end AsyncFix.Props.C20
