/-
C12 — the heartbeat watchdog detects dead peers and spares live ones.

Everything is about the session model itself (`AsyncFix.Session.tick` = one iteration of
`heartbeat_timer_task`, `recv` = `_process_message`, `run` = a history), for EVERY heartbeat interval
`h ≥ 1` s, every tick sequence with gaps `≤ δ` ms (`Spaced δ`), every arrival pattern.  Time is in
milliseconds; `TestReqID = now / 1000`.

Sections
 1. `testreq_sent`            – when / what the watchdog probes
 2. `dead_peer_disconnected`  – a silent peer is dropped between `t0 + 2h·1000` (`t0 + (3h−1)·1000` when the
    TestRequest went out) and `t0 + (3h−1)·1000 + 2δ`
 3. `live_peer_spared`        – a peer answering every TestRequest in time is never dropped (exact margin)
 4. `live_peer_spared_traffic` – valid traffic at least every `2h·1000` ms alone spares the peer (true since
    fix e3d9663; it was the known finding C12-traffic-does-not-answer-testrequest before);
    `fresh_traffic_never_probed` – below the idle threshold `(h−1)·1000` no TestRequest is even sent
 5. step lemmas: `testrequest_echoed`, `one_outstanding_*`, `wrong_id_logout`, `right_id_clears`,
    `heartbeat_without_id_ignored`
-/
import AsyncFix.Lemmas.SessionWatchdogWide2
namespace AsyncFix.Props.C12
open AsyncFix.Session AsyncFix.Session.Watchdog AsyncFix.Generated AsyncFix.Generated.ConnEnum

/-! ## 0. concrete objects for the non-vacuity examples -/

/-- a logged-on initiator, interval 2 s, last inbound frame at t0 = 100 000 ms -/
def c0 : Conn :=
  { state := st_ACTIVE, role := roleInitiator, wasActive := true, lastTime := 100000, hb := 2, sock := true,
    sess := { sender := "S", target := "T", nextIn := 5, nextOut := 7 } }

def env0 (t : Int) : Env := ⟨t, "20240102-00:00:00.000"⟩

/-- a peer frame of type `ty` numbered `seq` with extra fields -/
def peerMsg (ty seq : String) (extra : List (Nat × String)) : Msg :=
  Msg.ofFields ([(8, "FIX.4.4"), (9, "50"), (35, ty), (49, "T"), (56, "S"), (34, seq), (52, "x")] ++ extra
    ++ [(10, "000")])

theorem c0_up : Up 2 c0 := ⟨rfl, rfl, rfl⟩

/-! ## 1. the probe -/

/-- One watchdog iteration, ACTIVE, transport up, nothing outstanding, last inbound frame older than
`(h − 1)·1000` ms, the TestRequest can be sent (frame encodable as latin-1, no journal row under the next
number): exactly one frame is written, a TestRequest carrying `TestReqID = ⌊now/1000⌋`; that id is
recorded, `lastTime := now`, the connection stays logged on. -/
theorem testreq_sent_step (env : Env) (h : Int) (c : Conn) (j : Journal) (hu : Up h c) (hh : 1 ≤ h)
    (hn : c.testReqId = none) (hidle : (h - 1) * 1000 < env.now - c.lastTime)
    (hl : frameLatin1 (testReqFrame env c) = true)
    (hj : c.journal.persist .outbound c.sess.nextOut (testReqFrame env c) = some j) :
    ∃ c', tick env c = (c', [.write (testReqFrame env c)]) ∧
      (testReqFrame env c).mtype = mTestRequest ∧
      (testReqFrame env c).get? tTestReqID = some (pyStr (env.now / 1000)) ∧
      c'.testReqId = some (env.now / 1000) ∧ c'.lastTime = env.now ∧ Up h c' := by
  refine ⟨{ sent (armed env c) j with lastTime := env.now }, ?_, rfl,
    frameOf_testReqId env (armed env c) mTestRequest _, rfl, rfl, ⟨hu.active, hu.sock, hu.hb⟩⟩
  rw [tick_none_idle env c hu.sock hu.active hn (by rw [hu.hb]; exact hh) (by rw [hu.hb]; exact hidle), hl, hj]
  rfl

/-- Below the threshold nothing happens at all (no frame, no state change). -/
theorem no_probe_before_threshold (env : Env) (h : Int) (c : Conn) (hu : Up h c) (hh : 1 ≤ h)
    (hn : c.testReqId = none) (hq : env.now - c.lastTime ≤ (h - 1) * 1000) : tick env c = (c, []) :=
  tick_none_quiet env c hu.sock hu.active hn (by rw [hu.hb]; exact hh) (by rw [hu.hb]; exact hq)

/-- `testreq_sent`: nothing received since `t0 = lastTime`, none outstanding, ticks at most `δ` apart that
go on long enough: all ticks up to `t0 + (h−1)·1000` are silent and the first later one – which comes no
later than `t0 + (h−1)·1000 + δ` – writes the TestRequest with `TestReqID = ⌊t/1000⌋` and records it. -/
theorem testreq_sent (sr : Msg → Bool) (h δ : Int) (c : Conn) (envs : List Env) (hu : Up h c) (hh : 1 ≤ h)
    (hn : c.testReqId = none) (hsp : Spaced δ c.lastTime envs)
    (hlong : ∃ e ∈ envs, (h - 1) * 1000 < e.now - c.lastTime)
    (hsend : ∀ e ∈ envs, frameLatin1 (testReqFrame e c) = true ∧
      (c.journal.persist .outbound c.sess.nextOut (testReqFrame e c)).isSome = true) :
    ∃ pre e post c', envs = pre ++ e :: post ∧ run sr c (ticks pre) = (c, []) ∧
      (h - 1) * 1000 < e.now - c.lastTime ∧ e.now ≤ c.lastTime + (h - 1) * 1000 + δ ∧
      tick e c = (c', [.write (testReqFrame e c)]) ∧
      (testReqFrame e c).mtype = mTestRequest ∧
      (testReqFrame e c).get? tTestReqID = some (pyStr (e.now / 1000)) ∧
      c'.testReqId = some (e.now / 1000) ∧ c'.lastTime = e.now ∧ Up h c' := by
  obtain ⟨pre, e, post, hsplit, hrun, _, hb1, hb2⟩ :=
    first_idle_tick sr h δ c hu hh hn c.lastTime envs hsp (by omega) hlong
  have he : e ∈ envs := by rw [hsplit]; simp
  obtain ⟨hl, hj⟩ := hsend e he
  obtain ⟨j, hj⟩ := Option.isSome_iff_exists.mp hj
  obtain ⟨c', h1, h2, h3, h4, h5, h6⟩ := testreq_sent_step e h c j hu hh hn hb1 hl hj
  exact ⟨pre, e, post, c', hsplit, hrun, hb1, hb2, h1, h2, h3, h4, h5, h6⟩

/-- `h = 1` makes the idle threshold `0`: every tick later than the last inbound frame probes. -/
theorem h1_probes_at_every_tick (env : Env) (c : Conn) (j : Journal) (hu : Up 1 c) (hn : c.testReqId = none)
    (hlater : c.lastTime < env.now) (hl : frameLatin1 (testReqFrame env c) = true)
    (hj : c.journal.persist .outbound c.sess.nextOut (testReqFrame env c) = some j) :
    ∃ c', tick env c = (c', [.write (testReqFrame env c)]) := by
  obtain ⟨c', h1, _⟩ := testreq_sent_step env 1 c j hu (by omega) hn (by omega) hl hj
  exact ⟨c', h1⟩

/-- non-vacuity: `c0` (h = 2, t0 = 100 000), ticks at 100 500 (silent), 101 500 (probe, id 101) -/
example : ∃ pre e post c', [env0 100500, env0 101500] = pre ++ e :: post ∧
    run (fun _ => true) c0 (ticks pre) = (c0, []) ∧ e.now = 101500 ∧
    tick e c0 = (c', [.write (testReqFrame e c0)]) ∧ c'.testReqId = some 101 := by
  obtain ⟨pre, e, post, c', a1, a2, a3, a4, a5, _, _, a8, _⟩ :=
    testreq_sent (fun _ => true) 2 1000 c0 [env0 100500, env0 101500] c0_up (by omega) rfl
      (by simp [Spaced, c0, env0]) ⟨env0 101500, by simp, by simp [c0, env0]⟩ (by decide +kernel)
  have hb : e = env0 101500 := by
    have hm : e ∈ [env0 100500, env0 101500] := by rw [a1]; simp
    simp at hm
    rcases hm with rfl | rfl
    · simp [c0, env0] at a3
    · rfl
  subst hb
  exact ⟨pre, _, post, c', a1, a2, rfl, a5, a8⟩

/-! ## 2. a dead peer is disconnected -/

/-- What a tick does while TestReqID `id` is outstanding (and some frame has been stamped, `lastTime ≠ 0`)
depends on NOTHING but `now − lastTime`, where `lastTime` is the later of the last valid inbound frame
and the moment the TestRequest went out: beyond `2·h·1000` it disconnects (socket closed,
DISCONNECTED_BROKEN_CONN, `on_disconnect`), otherwise it does nothing at all. -/
theorem outstanding_tick (env : Env) (h id : Int) (c : Conn) (ha : Armed h id c) (h0 : id ≠ 0)
    (hL : c.lastTime ≠ 0) :
    (h * 2 * 1000 < env.now - c.lastTime → tick env c = (dropped c, dropEff)) ∧
    (env.now - c.lastTime ≤ h * 2 * 1000 → tick env c = (c, [])) := by
  have ht := tick_outstanding env c id ha.sock ha.active ha.tid h0
  have hb := ha.hb
  constructor
  · intro hx
    rw [ht, if_pos ⟨by omega, Or.inl hL⟩]
  · intro hx
    rw [ht, if_neg (fun hc => by have := hc.1; omega)]

/-- With nothing outstanding a tick never disconnects on ACTIVE: either the last frame is recent or the
idle branch has just sent a TestRequest and stamped `lastTime` (or was aborted by a failing send). -/
theorem no_outstanding_tick_never_disconnects (env : Env) (h : Int) (c : Conn) (hu : Up h c) (hh : 1 ≤ h)
    (hn : c.testReqId = none) : NoDisc (tick env c).2 ∧ Up h (tick env c).1 := by
  by_cases hidle : (h - 1) * 1000 < env.now - c.lastTime
  · obtain ⟨u1, _, n1, _⟩ := tick_none_idle_ctl env h c hu hh hn hidle
    exact ⟨n1, u1⟩
  · rw [no_probe_before_threshold env h c hu hh hn (by omega)]
    exact ⟨NoDisc.nil, hu⟩

/-- `dead_peer_disconnected`: last inbound frame at `t0 = lastTime ≥ 1000`, none outstanding, then
silence; ticks at most `δ` apart that go on beyond `t0 + (3h−1)·1000 + δ`.  Then some tick `e` tears the
connection down, with `t0 + 2h·1000 < e ≤ t0 + (3h−1)·1000 + 2δ` ("about three intervals", slack
explicit) and even `t0 + (3h−1)·1000 < e` when the TestRequest went out; before it the connection stays
logged on, nothing is torn down and at most one frame – a TestRequest – is written.  No assumption that
the TestRequest can be sent: the id is recorded even when `send_msg` raises (then `lastTime` stays `t0`
and the "message last time" test fires `2h` after it). -/
theorem dead_peer_disconnected (sr : Msg → Bool) (h δ : Int) (c : Conn) (envs : List Env) (hh : 1 ≤ h)
    (hδ : 0 ≤ δ) (hu : Up h c) (hn : c.testReqId = none) (ht0 : 1000 ≤ c.lastTime)
    (hsp : Spaced δ c.lastTime envs)
    (hlong : ∃ e ∈ envs, c.lastTime + (3 * h - 1) * 1000 + δ < e.now) :
    ∃ pre e post, envs = pre ++ e :: post ∧
      Up h (run sr c (ticks pre)).1 ∧ NoDisc (run sr c (ticks pre)).2 ∧
      (writes (run sr c (ticks pre)).2).length ≤ 1 ∧
      (∀ f ∈ writes (run sr c (ticks pre)).2, f.mtype = mTestRequest) ∧
      tick e (run sr c (ticks pre)).1 = (dropped (run sr c (ticks pre)).1, dropEff) ∧
      c.lastTime + h * 2 * 1000 < e.now ∧ e.now ≤ c.lastTime + (3 * h - 1) * 1000 + 2 * δ ∧
      (writes (run sr c (ticks pre)).2 ≠ [] → c.lastTime + (3 * h - 1) * 1000 < e.now) := by
  -- phase 1
  have hex1 : ∃ e ∈ envs, (h - 1) * 1000 < e.now - c.lastTime := by
    obtain ⟨e, he, hb⟩ := hlong; exact ⟨e, he, by omega⟩
  obtain ⟨pre1, e1, post1, hsplit, hrun1, hpre, hb1, hb2⟩ :=
    first_idle_tick sr h δ c hu hh hn c.lastTime envs hsp (by omega) hex1
  obtain ⟨u1, t1, n1, w1, l1, lw, ll⟩ := tick_none_idle_ctl e1 h c hu hh hn hb1
  have hsec : e1.secs = e1.now / 1000 := rfl
  have hid0 : e1.secs ≠ 0 := by rw [hsec]; omega
  have harm : Armed h e1.secs (tick e1 c).1 := ⟨u1, t1⟩
  have hL0 : (tick e1 c).1.lastTime ≠ 0 := by rcases ll with l | l <;> rw [l] <;> omega
  -- phase 2
  have hsp2 : Spaced δ e1.now post1 := by rw [hsplit] at hsp; exact hsp.tail
  have hex2 : ∃ e ∈ post1, (tick e1 c).1.lastTime + h * 2 * 1000 < e.now := by
    obtain ⟨e, he, hb⟩ := hlong
    rw [hsplit] at he
    rcases List.mem_append.mp he with hm | hm
    · have := hpre e hm; omega
    · rcases List.mem_cons.mp hm with rfl | hm
      · omega
      · exact ⟨e, hm, by rcases ll with l | l <;> rw [l] <;> omega⟩
  obtain ⟨pre2, e2, post2, hsplit2, hrun2, htick, hc1, hc2⟩ :=
    expiry_tick sr h δ e1.secs hid0 _ harm hL0 e1.now post1 hsp2 hex2
  -- assemble
  have hrun : run sr c (ticks (pre1 ++ e1 :: pre2)) = ((tick e1 c).1, (tick e1 c).2) := by
    rw [ticks_append, run_append, hrun1]
    show ((run sr c (Event.tick e1 :: ticks pre2)).1, [] ++ (run sr c (Event.tick e1 :: ticks pre2)).2) = _
    rw [run_cons]
    show ((run sr (tick e1 c).1 (ticks pre2)).1, [] ++ ((tick e1 c).2 ++ (run sr (tick e1 c).1 (ticks pre2)).2)) = _
    rw [hrun2]; simp
  refine ⟨pre1 ++ e1 :: pre2, e2, post2, by rw [hsplit, hsplit2]; simp, ?_⟩
  rw [hrun]
  refine ⟨u1, n1, l1, ?_, htick, by rcases ll with l | l <;> rw [l] at hc1 <;> omega,
    by rcases ll with l | l <;> rw [l] at hc2 <;> omega, ?_⟩
  · intro f hf
    rw [w1 f hf]; rfl
  · intro hw
    rw [lw hw] at hc1
    omega

/-- … and the whole run ends DISCONNECTED_BROKEN_CONN with the socket closed exactly once; later ticks
do nothing. -/
theorem dead_peer_final_state (sr : Msg → Bool) (h δ : Int) (c : Conn) (envs : List Env) (hh : 1 ≤ h)
    (hδ : 0 ≤ δ) (hu : Up h c) (hn : c.testReqId = none) (ht0 : 1000 ≤ c.lastTime)
    (hsp : Spaced δ c.lastTime envs)
    (hlong : ∃ e ∈ envs, c.lastTime + (3 * h - 1) * 1000 + δ < e.now) :
    (run sr c (ticks envs)).1.state = st_DISCONNECTED_BROKEN_CONN ∧ (run sr c (ticks envs)).1.sock = false ∧
    ((run sr c (ticks envs)).2.filter (· == .closeSocket)).length = 1 := by
  obtain ⟨pre, e, post, hsplit, _, hnd, _, _, htick, _, _, _⟩ :=
    dead_peer_disconnected sr h δ c envs hh hδ hu hn ht0 hsp hlong
  have hrun : run sr c (ticks envs) =
      (dropped (run sr c (ticks pre)).1, (run sr c (ticks pre)).2 ++ dropEff) := by
    rw [hsplit, ticks_append, run_append]
    show ((run sr _ (Event.tick e :: ticks post)).1, _ ++ (run sr _ (Event.tick e :: ticks post)).2) = _
    rw [run_cons]
    show ((run sr (tick e _).1 (ticks post)).1, _ ++ ((tick e _).2 ++ (run sr (tick e _).1 (ticks post)).2)) = _
    rw [htick, run_ticks_nosock sr _ post rfl]
    simp
  rw [hrun]
  refine ⟨rfl, rfl, ?_⟩
  have h0 : ((run sr c (ticks pre)).2.filter (· == Effect.closeSocket)) = [] := by
    apply List.filter_eq_nil_iff.mpr
    intro x hx hxe
    have := hnd x hx
    have hxe' : x = Effect.closeSocket := by simpa using hxe
    rw [hxe'] at this
    simp [isDisc] at this
  rw [List.filter_append, h0]
  decide

/-- non-vacuity: `c0` (h = 2, t0 = 100 000), δ = 1000, ticks every second from 100 500 to 106 500:
probe at 101 500 (id 101, went out), teardown at 106 500, inside (105 000, 107 000]. -/
def silentTicks : List Env :=
  [env0 100500, env0 101500, env0 102500, env0 103500, env0 104500, env0 105500, env0 106500]

example : (run (fun _ => true) c0 (ticks silentTicks)).1.state = st_DISCONNECTED_BROKEN_CONN :=
  (dead_peer_final_state (fun _ => true) 2 1000 c0 silentTicks (by omega) (by omega) c0_up rfl (by decide)
    (by simp [Spaced, silentTicks, c0, env0])
    ⟨env0 106500, by simp [silentTicks], by simp [c0, env0]⟩).1

/-! ## 3. a peer that answers every TestRequest is spared -/

/-- `live_peer_spared`, exact margin.  History of ticks and inbound frames in time order, any
interleaving; every inbound frame is benign; whenever a step records a new TestReqID `id` (at a tick at time
`t`, `id = ⌊t/1000⌋`) the TestRequest went out and no tick later than `id·1000 + 2·h·1000` happens before a
Heartbeat echoing `id` is received (`Live … (fun t => t/1000*1000 + h*2*1000)`).  Then NO event of the
history tears the connection down and it is still logged on at the end.  Neither `δ` nor the tick spacing
matters: a tick reads the clock, so the margin is about tick times only. -/
theorem live_peer_spared (sr : Msg → Bool) (h : Int) (hh : 1 ≤ h) (p : Int) (c : Conn) (evs : List WEv)
    (hu : Up h c) (hn : c.testReqId = none) (hl : Live sr (fun t => t / 1000 * 1000 + h * 2 * 1000) p c evs) :
    Up h (run sr c (hist evs)).1 ∧ NoDisc (run sr c (hist evs)).2 :=
  live_run sr h _ hh (fun _ => Int.le_refl _) p c evs ⟨hu, Or.inl hn⟩ hl

/-- Sufficient margin in terms of latency: every TestRequest sent by a tick at time `t` is echoed before
any tick later than `t + L`, with `L ≤ (2h − 1)·1000` ms.  (DESIGN's `2h·1000 − 1000 − δ` is the special
case `L = (2h−1)·1000 − δ`.) -/
theorem live_peer_spared_latency (sr : Msg → Bool) (h L : Int) (hh : 1 ≤ h) (hL : L ≤ (2 * h - 1) * 1000)
    (p : Int) (c : Conn) (evs : List WEv) (hu : Up h c) (hn : c.testReqId = none)
    (hl : Live sr (fun t => t + L) p c evs) :
    Up h (run sr c (hist evs)).1 ∧ NoDisc (run sr c (hist evs)).2 :=
  live_run sr h _ hh (fun t => by show t + L ≤ t / 1000 * 1000 + h * 2 * 1000; omega) p c evs
    ⟨hu, Or.inl hn⟩ hl

/-- non-vacuity: probe at 101 500 (id 101), the peer's echo arrives 3.2 s later (< (2·2−1) s + rounding),
ticks at 102 500 … 104 500 in between: still logged on. -/
def answeredHist : List WEv :=
  [.tick (env0 100500), .tick (env0 101500), .tick (env0 102500), .tick (env0 103500), .tick (env0 104500),
   .recv (env0 104700) (peerMsg "0" "5" [(112, "101")]), .tick (env0 105500)]

theorem answeredHist_live :
    Live (fun _ => true) (fun t => t / 1000 * 1000 + 2 * 2 * 1000) 100000 c0 answeredHist :=
  liveB_sound (by decide +kernel)

example : Up 2 (run (fun _ => true) c0 (hist answeredHist)).1 :=
  (live_peer_spared (fun _ => true) 2 (by omega) 100000 c0 answeredHist c0_up rfl answeredHist_live).1

/-! ## 4. liveness by traffic alone -/

/-- The property's sentence "a peer that keeps sending valid traffic … is never disconnected by the
watchdog": benign frames in time order such that every tick finds the latest one at most `2·h·1000` ms old
(`Paced`), whether or not the peer ever answers a TestRequest.  True since fix e3d9663 (the TestRequest
timeout also requires `lastTime` to be `2·h` old and the idle branch no longer refreshes it); before, it was
the known finding C12-traffic-does-not-answer-testrequest. -/
theorem live_peer_spared_traffic (sr : Msg → Bool) (h : Int) (hh : 1 ≤ h) (c : Conn) (evs : List WEv)
    (hu : Up h c) (hn : c.testReqId = none) (ht0 : 1000 ≤ c.lastTime)
    (hp : Paced (h * 2 * 1000) c.lastTime evs) (hb : BenignRun sr c evs) :
    Up h (run sr c (hist evs)).1 ∧ NoDisc (run sr c (hist evs)).2 :=
  paced_run sr h hh c.lastTime c evs hu ht0 (Int.le_refl _) (Or.inl hn) hp hb

/-- non-vacuity = the former finding's witness: Heartbeats every 2 s (h = 2), the TestRequest of 101 500 is
never answered, ticks every second – still logged on after 105 500 -/
def heartbeatingPeer : List WEv :=
  [.tick (env0 100500), .tick (env0 101500), .recv (env0 102000) (peerMsg "0" "5" []),
   .tick (env0 102500), .tick (env0 103500), .recv (env0 104000) (peerMsg "0" "6" []),
   .tick (env0 104500), .tick (env0 105500)]

example : Up 2 (run (fun _ => true) c0 (hist heartbeatingPeer)).1 :=
  (live_peer_spared_traffic (fun _ => true) 2 (by omega) c0 heartbeatingPeer c0_up rfl (by decide)
    (by simp [Paced, heartbeatingPeer, c0, env0]) (benignRunB_sound (by decide +kernel))).1

/-- Below the idle threshold: when every tick finds the latest inbound frame at most `(h − 1)·1000` ms old
(`Fresh`), no TestRequest is ever sent (the only frames written are Heartbeats answering inbound
TestRequests), nothing is outstanding at the end, and nothing is torn down.  For `h = 1` that needs a frame
at the instant of every tick. -/
theorem fresh_traffic_never_probed (sr : Msg → Bool) (h : Int) (hh : 1 ≤ h) (c : Conn) (evs : List WEv)
    (hu : Up h c) (hn : c.testReqId = none) (hf : Fresh h c.lastTime evs) (hb : BenignRun sr c evs) :
    Up h (run sr c (hist evs)).1 ∧ (run sr c (hist evs)).1.testReqId = none ∧
    NoDisc (run sr c (hist evs)).2 ∧ (∀ f ∈ writes (run sr c (hist evs)).2, f.mtype = mHeartbeat) :=
  fresh_run sr h hh c evs hu hn hf hb

/-- non-vacuity (h = 2): frames every 900 ms, ticks in between -/
def chattyHist : List WEv :=
  [.tick (env0 100500), .recv (env0 100900) (peerMsg "0" "5" []), .tick (env0 101500),
   .recv (env0 101800) (peerMsg "D" "6" [(11, "x")]), .tick (env0 102500),
   .recv (env0 102700) (peerMsg "1" "7" [(112, "abc")]), .tick (env0 103500)]

example : Fresh 2 c0.lastTime chattyHist ∧ BenignRun (fun _ => true) c0 chattyHist := by
  constructor
  · simp [Fresh, chattyHist, c0, env0]
  · exact benignRunB_sound (by decide +kernel)

/-- The watchdog in the connected states other than ACTIVE (RESENDREQ_AWAITING while a replay is awaited,
RESENDREQ_HANDLING, RECV_SEQNUM_TOO_HIGH, …): it never probes, and as long as the last ACCEPTED frame is at
most `2·hb·1000` ms old it does nothing at all. -/
theorem non_active_tick_recent (env : Env) (c : Conn) (hs : c.sock = true) (hna : c.state ≠ st_ACTIVE)
    (h3 : c.state > st_DISCONNECTED_BROKEN_CONN) (hrec : env.now - c.lastTime ≤ c.hb * 2 * 1000) :
    tick env c = (c, []) := by
  rw [tick_not_active env c hs hna h3, if_neg (fun hc => by have := hc.1; omega)]

/-- `live_peer_spared_traffic` in every logged-on state (`On`: state ≥ LOGON_INITIAL_RECV, transport up,
resend watermark consistent): benign = accepted frames (e.g. the PossDup replay after our ResendRequest)
at least every `2·h·1000` ms keep the connection; RESENDREQ_AWAITING may become ACTIVE on the way.  Frames
numbered too high are NOT accepted while a resend is awaited and do not count. -/
theorem live_peer_spared_traffic_any_state (sr : Msg → Bool) (h : Int) (hh : 1 ≤ h) (c : Conn) (evs : List WEv)
    (ho : On h c) (hn : c.testReqId = none) (ht0 : 1000 ≤ c.lastTime)
    (hp : Paced (h * 2 * 1000) c.lastTime evs) (hb : BenignRun sr c evs) :
    On h (run sr c (hist evs)).1 ∧ NoDisc (run sr c (hist evs)).2 :=
  paced_run_on sr h hh c.lastTime c evs ho ht0 (Int.le_refl _) (Or.inl hn) hp hb

/-- non-vacuity: RESENDREQ_AWAITING up to number 7 (h = 2); the peer replays 5, 6, 7 as PossDup frames
3.5 s apart (the whole replay takes > 2·h), ticks every second: nothing is torn down, ACTIVE at the end -/
def c0await : Conn := { c0 with state := st_RESENDREQ_AWAITING, maxResend := 7 }

def replayHist : List WEv :=
  [.tick (env0 101000), .tick (env0 102000), .tick (env0 103000),
   .recv (env0 103500) (peerMsg "D" "5" [(43, "Y"), (11, "a")]), .tick (env0 104000), .tick (env0 105000),
   .tick (env0 106000), .tick (env0 107000), .recv (env0 107000) (peerMsg "D" "6" [(43, "Y"), (11, "b")]),
   .tick (env0 108000), .tick (env0 109000), .tick (env0 110000),
   .recv (env0 110500) (peerMsg "D" "7" [(43, "Y"), (11, "c")]), .tick (env0 111000)]

example : NoDisc (run (fun _ => true) c0await (hist replayHist)).2 ∧
    (run (fun _ => true) c0await (hist replayHist)).1.state = st_ACTIVE :=
  ⟨(live_peer_spared_traffic_any_state (fun _ => true) 2 (by omega) c0await replayHist
      ⟨by decide, rfl, rfl, fun _ => by decide⟩ rfl (by decide)
      (by simp [Paced, replayHist, c0await, c0, env0]) (benignRunB_sound (by decide +kernel))).2,
   by decide +kernel⟩

/-- … and with frames numbered TOO HIGH interleaved at any time (`stray`: Heartbeats, TestRequests,
application frames with a sequence gap; they are dispatched – an echo still clears the TestReqID, outside
RESENDREQ_AWAITING a ResendRequest goes out – but not accepted, so they neither count as traffic nor hurt) and
with ignored ResendRequests among the accepted frames (`Benign` admits them). -/
theorem live_peer_spared_traffic_wide (sr : Msg → Bool) (h : Int) (hh : 1 ≤ h) (c : Conn) (evs : List XEv)
    (ho : On h c) (hn : c.testReqId = none) (ht0 : 1000 ≤ c.lastTime)
    (hp : PacedX (h * 2 * 1000) c.lastTime evs) (hb : TolerableRun sr c evs) :
    On h (run sr c (xhist evs)).1 ∧ NoDisc (run sr c (xhist evs)).2 :=
  paced_run_wide sr h hh c.lastTime c evs ho ht0 (Int.le_refl _) (Or.inl hn) hp hb

/-- non-vacuity (h = 2, from ACTIVE): probe at 101 500; the echo arrives numbered 2 too high (→ ResendRequest,
RESENDREQ_AWAITING, id cleared); a ResendRequest for numbers never sent and the peer's GapFill-less replay
follow; ticks every second -/
def wideHist : List XEv :=
  [.tick (env0 100500), .tick (env0 101500), .stray (env0 101700) (peerMsg "0" "7" [(112, "101")]),
   .tick (env0 102500), .recv (env0 103000) (peerMsg "D" "5" [(43, "Y"), (11, "a")]), .tick (env0 103500),
   .recv (env0 104000) (peerMsg "2" "6" [(7, "0"), (16, "0")]), .tick (env0 104500), .tick (env0 105500),
   .stray (env0 105600) (peerMsg "1" "9" [(112, "Q")]), .tick (env0 106500),
   .recv (env0 107000) (peerMsg "D" "7" [(43, "Y"), (11, "b")]), .tick (env0 107500)]

example : NoDisc (run (fun _ => true) c0 (xhist wideHist)).2 ∧
    (run (fun _ => true) c0 (xhist wideHist)).1.state = st_ACTIVE ∧
    (run (fun _ => true) c0 (xhist wideHist)).1.testReqId = none :=
  ⟨(live_peer_spared_traffic_wide (fun _ => true) 2 (by omega) c0 wideHist c0_up.on rfl (by decide)
      (by simp [PacedX, wideHist, c0, env0]) (tolerableRunB_sound (by decide +kernel))).2,
   by decide +kernel, by decide +kernel⟩

/-! ## 5. step lemmas -/

/-- `testrequest_echoed`: a valid in-sequence TestRequest on a logged-on connection, reply sendable:
exactly one frame is written, a Heartbeat carrying the request's TestReqID – `"0"` when the request has
none. -/
theorem testrequest_echoed (sr : Msg → Bool) (env : Env) (h : Int) (c : Conn) (m : Msg) (j : Journal)
    (hu : Up h c) (hi : InSeq c m) (hm : m.mtype = mTestRequest)
    (hl : frameLatin1 (frameOf env c (echoMsg m)) = true)
    (hj : c.journal.persist .outbound c.sess.nextOut (frameOf env c (echoMsg m)) = some j) :
    writes (recv sr env c m).2 = [frameOf env c (echoMsg m)] ∧
    (frameOf env c (echoMsg m)).mtype = mHeartbeat ∧
    (frameOf env c (echoMsg m)).get? tTestReqID = some ((m.get? tTestReqID).getD "0") ∧
    NoDisc (recv sr env c m).2 := by
  rw [recv_testrequest sr env c m (active_ge8 hu.active) (active_watermark hu.active) hu.sock hi hm, hl, hj]
  obtain ⟨_, _, _, _, _, f6, f7⟩ := finalized_ctl env (sent c j) m (active_not_promoted hu.active)
  refine ⟨?_, rfl, frameOf_testReqId env c mHeartbeat _, ?_⟩
  · simp [f7, writes]
  · intro x hx
    rcases List.mem_cons.mp hx with rfl | hx
    · rfl
    · exact f6 x hx

/-- `one_outstanding` (a): `send_test_req()` refuses while an id is recorded – FIXConnectionError, nothing
written, nothing changed. -/
theorem one_outstanding_send_refused (env : Env) (c : Conn) (id : Int) (ht : c.testReqId = some id) :
    appTestReq env c = (c, [.raised .connection]) := by
  simp [appTestReq, M.run, sendTestReq_some env c id ht]

/-- `one_outstanding` (b): while a (truthy) id is outstanding the watchdog writes nothing, whatever the
times are – in particular never a second TestRequest. -/
theorem one_outstanding_tick_silent (env : Env) (h id : Int) (c : Conn) (ha : Armed h id c)
    (h0 : id ≠ 0) : writes (tick env c).2 = [] := by
  rw [tick_outstanding env c id ha.sock ha.active ha.tid h0]
  split <;> rfl

/-- `wrong_id_logout`: a valid in-sequence Heartbeat whose TestReqID reads as a different number (a
non-numeric one reads as 0) while `tid` is outstanding, Logout sendable: a Logout carrying the reason
text is written, then the socket is closed, the state becomes DISCONNECTED_BROKEN_CONN and
`on_disconnect` is called; the watchdog fields stay reset (fix 5623bd4: no stale receive time). -/
theorem wrong_id_logout (sr : Msg → Bool) (env : Env) (h tid : Int) (c : Conn) (m : Msg) (v : String)
    (j : Journal) (ha : Armed h tid c) (hi : InSeq c m) (hm : m.mtype = mHeartbeat)
    (hv : m.get? tTestReqID = some v) (hne : (pyInt v).getD 0 ≠ tid)
    (hl : frameLatin1 (frameOf env (cleared c) (logoutMsg wrongIdText)) = true)
    (hj : c.journal.persist .outbound c.sess.nextOut (frameOf env (cleared c) (logoutMsg wrongIdText)) = some j) :
    ∃ f rest, (recv sr env c m).2 = .write f :: .closeSocket :: .onState st_DISCONNECTED_BROKEN_CONN ::
        .onDisconnect :: rest ∧
      f.mtype = mLogout ∧ f.get? tText = some wrongIdText ∧ writes rest = [] ∧
      (recv sr env c m).1.state = st_DISCONNECTED_BROKEN_CONN ∧ (recv sr env c m).1.sock = false ∧
      (recv sr env c m).1.testReqId = none ∧ (recv sr env c m).1.lastTime = 0 := by
  rw [recv_heartbeat_wrong sr env c m tid v j ha.active ha.sock hi hm ha.tid hv hne hl hj]
  obtain ⟨f1, f2, _, f4, _, _, f7⟩ := finalized_ctl env (dropped (sent c j)) m rfl
  exact ⟨_, _, rfl, rfl, frameOf_text env (cleared c) mLogout wrongIdText, f7, f1, f2, f4,
    finalized_lastTime_down env (dropped (sent c j)) m rfl⟩

/-- `right_id_clears`: the echo of the outstanding id clears it; nothing written, still logged on. -/
theorem right_id_clears (sr : Msg → Bool) (env : Env) (h tid : Int) (c : Conn) (m : Msg) (v : String)
    (ha : Armed h tid c) (hi : InSeq c m) (hm : m.mtype = mHeartbeat)
    (hv : m.get? tTestReqID = some v) (he : (pyInt v).getD 0 = tid) :
    (recv sr env c m).1.testReqId = none ∧ Up h (recv sr env c m).1 ∧ (recv sr env c m).1.lastTime = env.now ∧
    writes (recv sr env c m).2 = [] ∧ NoDisc (recv sr env c m).2 := by
  rw [recv_heartbeat_echo sr env c m tid v (active_ge8 ha.active) (active_watermark ha.active) hi hm ha.tid hv he]
  obtain ⟨f1, f2, f3, f4, f5, f6, f7⟩ :=
    finalized_ctl env { c with testReqId := none } m (active_not_promoted (c := { c with testReqId := none }) ha.active)
  exact ⟨f4, ⟨f1.trans ha.active, f2.trans ha.sock, f3.trans ha.hb⟩, f5 ha.active, f7, f6⟩

/-- `heartbeat_without_id_ignored`: an interval Heartbeat leaves the outstanding id alone. -/
theorem heartbeat_without_id_ignored (sr : Msg → Bool) (env : Env) (h tid : Int) (c : Conn) (m : Msg)
    (ha : Armed h tid c) (hi : InSeq c m) (hm : m.mtype = mHeartbeat) (hv : m.get? tTestReqID = none) :
    Armed h tid (recv sr env c m).1 ∧ (recv sr env c m).1.lastTime = env.now ∧
    writes (recv sr env c m).2 = [] ∧ NoDisc (recv sr env c m).2 := by
  rw [recv_heartbeat_idle sr env c m (active_ge8 ha.active) (active_watermark ha.active) hi hm (Or.inr hv)]
  obtain ⟨f1, f2, f3, f4, f5, f6, f7⟩ := finalized_ctl env c m (active_not_promoted ha.active)
  exact ⟨⟨⟨f1.trans ha.active, f2.trans ha.sock, f3.trans ha.hb⟩, f4.trans ha.tid⟩, f5 ha.active, f7, f6⟩

/-- an inbound ResendRequest for numbers never sent (BeginSeqNo < 1 or ≥ `next_num_out`) is ignored and
leaves the session ACTIVE – the watchdog goes on probing –, and it counts as a received frame. -/
theorem ignored_resend_request_keeps_active (sr : Msg → Bool) (env : Env) (h : Int) (c : Conn) (m : Msg)
    (hu : Up h c) (hi : InSeq c m) (hig : IgnoredResend c m) :
    Up h (recv sr env c m).1 ∧ (recv sr env c m).1.lastTime = env.now ∧
    (recv sr env c m).1.testReqId = c.testReqId ∧ NoDisc (recv sr env c m).2 := by
  have hb : Benign c m := ⟨hi, Or.inr hig, fun hm => by rw [hig.1] at hm; exact absurd hm (by decide)⟩
  obtain ⟨u1, l1, t1, n1, _⟩ := recv_benign sr env h c m hu hb
  have hech : echoes c m = false := by simp [echoes, hig.1, mResendRequest, mHeartbeat]
  exact ⟨u1, l1, by rw [t1, hech]; rfl, n1⟩

/-- the echo of the outstanding TestRequest arriving with a sequence GAP (numbered too high) still clears it;
the connection asks for the missing frames (the first frame written is the ResendRequest; state
RESENDREQ_AWAITING); the echo itself is not accepted, `lastTime` stays. -/
theorem echo_with_gap_clears (sr : Msg → Bool) (env : Env) (h tid : Int) (c : Conn) (m : Msg) (v : String)
    (j : Journal) (ha : Armed h tid c) (hg : GapFrame c m) (hm : m.mtype = mHeartbeat)
    (hv : m.get? tTestReqID = some v) (n : Int) (hn : (m.get? tMsgSeqNum).bind pyInt = some n)
    (hl : frameLatin1 (frameOf env { c with maxResend := n } (resendReqMsg c)) = true)
    (hj : c.journal.persist .outbound c.sess.nextOut (frameOf env { c with maxResend := n } (resendReqMsg c)) = some j) :
    (recv sr env c m).1.testReqId = none ∧ (recv sr env c m).1.state = st_RESENDREQ_AWAITING ∧
    (recv sr env c m).1.lastTime = c.lastTime ∧ NoDisc (recv sr env c m).2 ∧
    ∃ e3, (recv sr env c m).2 = [.write (frameOf env { c with maxResend := n } (resendReqMsg c)),
      .onState st_RESENDREQ_AWAITING] ++ e3 := by
  obtain ⟨vs, hvs, hp⟩ := bind_pyInt hn
  obtain ⟨n', hn', hlt⟩ := hg.seq
  have hnn : n' = n := by rw [hn] at hn'; exact (Option.some.inj hn').symm
  subst hnn
  have h8 := active_ge8 ha.active
  have hck := checkSeqnumGaps_high env c n' h8 ha.sock hlt
  rw [if_neg (by rw [ha.active]; decide), hl, hj] at hck
  simp only [Bool.true_eq_false, if_false] at hck
  have hh := bind_ok (f := fun valid => (pure (some (valid, n')) : M (Option (Bool × Int)))) hck
  rw [← processHead_numbered env c m vs n' h8 hg.routine.headable hvs hp] at hh
  obtain ⟨e3, he, hn3, _, _, hs3, hl3, ht3⟩ := recv_gap_via sr env h c
    { sent { c with maxResend := n' } j with state := st_RESENDREQ_AWAITING } m n'
    [.write (frameOf env { c with maxResend := n' } (resendReqMsg c)), .onState st_RESENDREQ_AWAITING] hg
    ⟨(by show 8 ≤ st_RESENDREQ_AWAITING; decide), ha.sock, ha.hb, fun _ => (by show 0 < n'; have := hg.pos; omega)⟩
    rfl rfl (swallow_ok hh)
  have hech : echoes c m = true := by simp [echoes, hm, hv, ha.tid]
  exact ⟨by rw [ht3, hech]; rfl, hs3, hl3, by rw [he]; exact NoDisc.append (by simp [NoDisc, isDisc]) hn3, e3, he⟩

/-- non-vacuity of the step lemmas' hypotheses on `c0` with id 101 outstanding -/
def c0armed : Conn := { c0 with testReqId := some 101, lastTime := 101500 }

example : Armed 2 101 c0armed ∧ InSeq c0armed (peerMsg "0" "5" [(112, "abc")]) ∧
    (pyInt "abc").getD 0 ≠ 101 ∧
    frameLatin1 (frameOf (env0 102000) (cleared c0armed) (logoutMsg wrongIdText)) = true ∧
    (c0armed.journal.persist .outbound c0armed.sess.nextOut
      (frameOf (env0 102000) (cleared c0armed) (logoutMsg wrongIdText))).isSome = true := by
  refine ⟨⟨⟨rfl, rfl, rfl⟩, rfl⟩, inSeqB_sound ?_, ?_, ?_, ?_⟩ <;> decide +kernel

end AsyncFix.Props.C12
