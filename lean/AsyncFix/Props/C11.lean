import AsyncFix.Lemmas.SessionStep
import AsyncFix.Lemmas.SessionInteg

/-!
# C11 – nothing passes to or from the application outside an established session

Theorems over the session model (`AsyncFix.Model.Session*`), symbolic in the counters, the journal, the
CompIDs and the message contents.  The tie of the model to asyncfix/connection.py is the exhaustive
single-step correspondence of harness/c11.py.

* `prelogon_send_refused`   – sends before the Logon exchange are refused, connection unchanged
* `prelogon_no_delivery`    – before a Logon has been received nothing is handed to the application
* `prelogon_first_frame_dropped` – a first frame other than Logon drops the connection
* `integrity_defect_*`      – per defect class: no delivery, counter unchanged, disconnected (no hypothesis on
                              transport / journal: `disconnect()` completes also when its Logout cannot be
                              sent); `integrity_defect_logout_sent`: the Logout with the reason, when sendable
* `after_disconnect_silent` – along ANY history, no frame / message callback / state change / second
                              report between an `on_disconnect` and the next `on_connect`
* `disconnect_once`         – along ANY history the number of `on_disconnect` calls is the number of
                              transitions into a disconnected state
-/
namespace AsyncFix.Props.C11

open AsyncFix.Session AsyncFix.Generated.ConnEnum

/-! ## before the Logon exchange -/

/-- **prelogon_send_refused.**  `send_msg` is refused with FIXConnectionError and the connection is left
exactly as it was (state, role, both counters, journal, watchdog fields) – no sequence number is
consumed – (a) in every state below NETWORK_CONN_ESTABLISHED, whatever the message; (b) in
NETWORK_CONN_ESTABLISHED for everything but Logon / Logout; (c) for the initiator that has sent its
Logon and not yet received the reply, for everything but Logout. -/
theorem prelogon_send_refused (env : Env) (c : Conn) (m : Msg)
    (h : c.state < st_NETWORK_CONN_ESTABLISHED ∨
      (c.state = st_NETWORK_CONN_ESTABLISHED ∧ m.mtype ≠ mLogon ∧ m.mtype ≠ mLogout) ∨
      (c.state = st_LOGON_INITIAL_SENT ∧ c.role = roleInitiator ∧ m.mtype ≠ mLogout)) :
    appSend env c m = (c, [.raised .connection]) := by
  unfold appSend
  rw [M.run_eq, sendMsg_refused env c m h]
  rfl

/-- non-vacuity: an application message on a fresh acceptor transport -/
example (c : Conn) (hc : c.state = st_NETWORK_CONN_ESTABLISHED) :
    appSend ⟨0, "t"⟩ c { mtype := "D", tags := [(58, "x")] } = (c, [.raised .connection]) :=
  prelogon_send_refused _ _ _ (Or.inr (Or.inl ⟨hc, by decide, by decide⟩))

/-- **prelogon_no_delivery.**  Until a Logon has been received (acceptor: NETWORK_CONN_ESTABLISHED;
initiator: LOGON_INITIAL_SENT) no inbound frame, whatever its type, numbers or flags, is handed to
`on_message`. -/
theorem prelogon_no_delivery (sr : Msg → Bool) (env : Env) (c : Conn) (m : Msg)
    (hs : c.state = st_NETWORK_CONN_ESTABLISHED ∨ c.state = st_LOGON_INITIAL_SENT) :
    ∀ e ∈ (recv sr env c m).2, ∀ x, e ≠ .deliver x := by
  unfold recv
  rw [M.run_eq]
  have h := processMessage_prelogon_ND env sr m c hs
  intro e he x hx
  subst hx
  simp only [List.mem_append] at he
  rcases he with he | he
  · have := List.all_eq_true.mp h _ he
    simp [notDeliver] at this
  · unfold raisedOf at he; split at he <;> simp at he

/-- **prelogon_first_frame_dropped.**  A first frame that is not a Logon (acceptor) – resp. neither
Logon nor Logout (initiator waiting for the Logon reply) – and has no integrity defect drops the
connection: socket closed, DISCONNECTED_BROKEN_CONN, `on_disconnect`; no reply, no callback; session
counters and journal untouched (`discReset` / `discTail` only touch watchdog fields, socket, state). -/
theorem prelogon_first_frame_dropped (sr : Msg → Bool) (env : Env) (c : Conn) (m : Msg)
    (hs : (c.state = st_NETWORK_CONN_ESTABLISHED ∧ m.mtype ≠ mLogon) ∨
      (c.state = st_LOGON_INITIAL_SENT ∧ m.mtype ≠ mLogon ∧ m.mtype ≠ mLogout))
    (hi : integrityOf c m = .ok .good) :
    recv sr env c m =
      ({ c with testReqId := none, lastTime := 0, maxResend := 0, sock := false,
                state := st_DISCONNECTED_BROKEN_CONN },
       (if c.sock then [Effect.closeSocket] else []) ++
         [.onState st_DISCONNECTED_BROKEN_CONN, .onDisconnect]) := by
  unfold recv
  rw [M.run_eq, processMessage_first_frame_dropped env sr m c hs hi]
  cases hk : c.sock <;> simp [discTail, discReset, raisedOf, hk, st_DISCONNECTED_BROKEN_CONN, st_ACTIVE]

/-! ## integrity defects -/

/-- The defect classes of the property, as conditions on the decoded frame; the index is the reason
the Logout will state (`none` = counterparty not identifiable, no Logout). -/
inductive Defect (c : Conn) (m : Msg) : Option String → Prop
  | beginString (bs : String) (h8 : m.get? tBeginString = some bs) (hne : bs ≠ "FIX.4.4") :
      Defect c m (some ("Protocol BeginString(8) mismatch, expected FIX.4.4, got " ++ bs))
  | compIdMissing (h8 : m.get? tBeginString = some "FIX.4.4")
      (h : m.has tSenderCompID = false ∨ m.has tTargetCompID = false) : Defect c m none
  | compIdWrong (s49 s56 : String) (h8 : m.get? tBeginString = some "FIX.4.4")
      (h49 : m.get? tSenderCompID = some s49) (h56 : m.get? tTargetCompID = some s56)
      (h : ¬ (c.sess.sender = s56 ∧ c.sess.target = s49)) :
      Defect c m (some "TargetCompID / SenderCompID mismatch")
  | seqMissing (hh : HeaderOk c m) (h34 : m.has tMsgSeqNum = false) :
      Defect c m (some "MsgSeqNum(34) tag is missing")
  | seqGarbled (hh : HeaderOk c m) (v : String) (h34 : m.get? tMsgSeqNum = some v) (hv : pyInt v = none) :
      Defect c m (some "MsgSeqNum(34) is not a number")
  | seqTooLow (hh : HeaderOk c m) (v : String) (n : Int) (h34 : m.get? tMsgSeqNum = some v)
      (hv : pyInt v = some n) (hlow : n < c.sess.nextIn)
      -- the code's two documented tolerances: SequenceReset, and retransmitted duplicates while a
      -- resend is awaited
      (hnr : m.mtype ≠ mSequenceReset)
      (hna : ¬ (c.state = st_RESENDREQ_AWAITING ∧ m.get? tPossDupFlag = some "Y")) :
      Defect c m (some ("MsgSeqNum is too low, expected " ++ pyStr c.sess.nextIn ++ ", got " ++ pyStr n))

theorem defect_verdict {c : Conn} {m : Msg} {r : Option String} (d : Defect c m r) :
    integrityOf c m = .ok (match r with | none => .critical | some t => .reason t) := by
  cases d with
  | beginString bs h8 hne => exact integrity_begin_string c m bs h8 hne
  | compIdMissing h8 h => exact integrity_compid_missing c m h8 h
  | compIdWrong s49 s56 h8 h49 h56 h => exact integrity_compid_wrong c m s49 s56 h8 h49 h56 h
  | seqMissing hh h34 => exact integrity_seq_missing c m hh h34
  | seqGarbled hh v h34 hv => exact integrity_seq_garbled c m hh v h34 hv
  | seqTooLow hh v n h34 hv hlow hnr hna => exact integrity_seq_too_low c m hh v n h34 hv hlow hnr hna

/-- frames written by a trace -/
def writesOf : List Effect → List Msg
  | [] => []
  | .write f :: r => f :: writesOf r
  | _ :: r => writesOf r

/-- **integrity_defect (counterparty not identifiable).**  A frame without SenderCompID or TargetCompID,
in any connected state: not delivered, inbound counter and journal untouched, NOTHING written, socket
closed, DISCONNECTED_BROKEN_CONN, one `on_disconnect`. -/
theorem integrity_defect_unidentifiable (sr : Msg → Bool) (env : Env) (c : Conn) (m : Msg)
    (d : Defect c m none) (hc : isDisc c.state = false) :
    recv sr env c m =
      ({ c with testReqId := none, lastTime := 0, maxResend := 0, sock := false,
                state := st_DISCONNECTED_BROKEN_CONN },
       (if c.sock then [Effect.closeSocket] else []) ++
         [.onState st_DISCONNECTED_BROKEN_CONN, .onDisconnect]) := by
  unfold recv
  rw [M.run_eq, processMessage_critical env sr m c hc (defect_verdict d)]
  cases hk : c.sock <;> simp [discTail, discReset, raisedOf, hk, st_DISCONNECTED_BROKEN_CONN, st_ACTIVE]

/-- **integrity_defect (identifiable counterparty).**  Wrong BeginString, wrong / swapped CompIDs,
MsgSeqNum missing, not a number, or too low, received in ANY connected state – no hypothesis on the
transport, the journal or the CompIDs (since `disconnect()` completes also when its Logout cannot be
sent): the frame is not delivered, the inbound counter does not move, the socket is closed, the state
is DISCONNECTED_BROKEN_CONN and `on_disconnect` is called exactly once. -/
theorem integrity_defect_logout (sr : Msg → Bool) (env : Env) (c : Conn) (m : Msg) (text : String)
    (d : Defect c m (some text)) (hc : isDisc c.state = false) :
    (recv sr env c m).1.state = st_DISCONNECTED_BROKEN_CONN ∧ (recv sr env c m).1.sock = false ∧
      (recv sr env c m).1.sess.nextIn = c.sess.nextIn ∧
      (∀ e ∈ (recv sr env c m).2, ∀ x, e ≠ .deliver x) ∧ nDisc (recv sr env c m).2 = 1 := by
  obtain ⟨c1, e1, hres, hconn, heff, hin, hpl⟩ :=
    processMessage_reason_outcome env sr m c text (defect_verdict d) hc
  unfold recv
  rw [M.run_eq]
  have hr : raisedOf (processMessage env sr m c) = [] := by unfold raisedOf; rw [hres]
  rw [hr, List.append_nil, hconn, heff]
  refine ⟨rfl, rfl, hin, ?_, ?_⟩
  · intro e he x hx
    subst hx
    rcases List.mem_append.mp he with he | he
    · have := List.all_eq_true.mp hpl _ he
      simp [plainUp] at this
    · simp only [discTail] at he
      split at he <;> simp at he
  · rw [nDisc_append, plain_nDisc hpl]
    simp only [discTail]
    split <;> simp [nDisc]

/-- **… and the Logout states the reason** when it can be sent: state `≥ NETWORK_CONN_ESTABLISHED` (from
which `send_msg` accepts a Logout), a transport, CompIDs / reason representable as single bytes and the
next outbound number free in the journal.  Then exactly one frame is written – a Logout whose Text(58)
is the reason – under the next outbound number; the inbound journal is untouched. -/
theorem integrity_defect_logout_sent (sr : Msg → Bool) (env : Env) (c : Conn) (m : Msg) (text : String)
    (d : Defect c m (some text)) (j : Journal)
    (h6 : st_NETWORK_CONN_ESTABLISHED ≤ c.state) (hsock : c.sock = true)
    (hl : frameLatin1 (logoutFrame env c text) = true)
    (hp : c.journal.persist .outbound c.sess.nextOut (logoutFrame env c text) = some j) :
    (recv sr env c m).1.state = st_DISCONNECTED_BROKEN_CONN ∧ (recv sr env c m).1.sock = false ∧
      (recv sr env c m).1.sess.nextIn = c.sess.nextIn ∧ (recv sr env c m).1.journal.inb = c.journal.inb ∧
      (recv sr env c m).1.sess.nextOut = c.sess.nextOut + 1 ∧
      (∀ e ∈ (recv sr env c m).2, ∀ x, e ≠ .deliver x) ∧
      writesOf (recv sr env c m).2 = [logoutFrame env c text] ∧ nDisc (recv sr env c m).2 = 1 ∧
      (logoutFrame env c text).mtype = mLogout ∧
      (text ≠ "" → (logoutFrame env c text).get? tText = some text) := by
  have hrecv : recv sr env c m =
      ((discTail (afterLogout (discReset c) j) st_DISCONNECTED_BROKEN_CONN).1,
       ((if c.state = st_NETWORK_CONN_ESTABLISHED then [Effect.onState st_LOGON_INITIAL_SENT] else [])
          ++ [.write (logoutFrame env c text)])
          ++ (discTail (afterLogout (discReset c) j) st_DISCONNECTED_BROKEN_CONN).2) := by
    unfold recv
    rw [M.run_eq, processMessage_reason_eval env sr m c text j (defect_verdict d) h6 hsock hl hp]
    simp [raisedOf]
  have hj : j.inb = c.journal.inb := by
    simp only [Journal.persist] at hp
    cases hins : c.journal.out.insert c.sess.nextOut (logoutFrame env c text) with
    | none => rw [hins] at hp; simp at hp
    | some r => rw [hins] at hp; simp at hp; rw [← hp]
  rw [hrecv]
  refine ⟨rfl, rfl, ?_, ?_, ?_, ?_, ?_, ?_, rfl, ?_⟩
  · simp only [discTail, afterLogout, discReset]
    by_cases hs : c.state = st_NETWORK_CONN_ESTABLISHED <;> simp [hs]
  · simp only [discTail, afterLogout, discReset]; exact hj
  · simp only [discTail, afterLogout, discReset]
    by_cases hs : c.state = st_NETWORK_CONN_ESTABLISHED <;> simp [hs]
  · intro e he x hx
    subst hx
    simp only [discTail] at he
    by_cases hs : c.state = st_NETWORK_CONN_ESTABLISHED <;> simp [hs] at he <;> split at he <;> simp at he
  · simp only [discTail, afterLogout, discReset, hsock]
    split <;> simp [writesOf]
  · simp only [discTail, afterLogout, discReset, hsock]
    split <;> simp [nDisc]
  · intro hne
    have hne' : (text == "") = false := by simpa using hne
    simp [logoutFrame, buildFrame, bodyFields, logoutMsg, Msg.mk', Msg.get?, Msg.lookup, hne', tText, tBeginString,
      tBodyLength, tMsgType, tSenderCompID, tTargetCompID, tMsgSeqNum, tSendingTime]

/-! ### non-vacuity: a concrete established session receiving a frame without MsgSeqNum -/

def exConn : Conn :=
  { state := st_ACTIVE, role := roleInitiator, wasActive := true, sock := true,
    sess := { sender := "S", target := "T", nextIn := 5, nextOut := 7 } }

def exFrame : Msg :=
  Msg.ofFields [(8, "FIX.4.4"), (9, "21"), (35, "D"), (49, "T"), (56, "S"), (52, "t"), (58, "hi"), (10, "000")]

example : Defect exConn exFrame (some "MsgSeqNum(34) tag is missing") :=
  .seqMissing ⟨rfl, rfl, rfl⟩ rfl

example (sr : Msg → Bool) (env : Env) (hl : frameLatin1 (logoutFrame env exConn "MsgSeqNum(34) tag is missing") = true) :
    (recv sr env exConn exFrame).1.state = st_DISCONNECTED_BROKEN_CONN ∧
      (recv sr env exConn exFrame).1.sess.nextIn = 5 ∧
      writesOf (recv sr env exConn exFrame).2 = [logoutFrame env exConn "MsgSeqNum(34) tag is missing"] := by
  have h := integrity_defect_logout_sent sr env exConn exFrame _ (.seqMissing ⟨rfl, rfl, rfl⟩ rfl)
    _ (by decide) rfl hl rfl
  exact ⟨h.1, h.2.2.1, h.2.2.2.2.2.2.1⟩

example (sr : Msg → Bool) (env : Env) :
    (recv sr env exConn exFrame).1.state = st_DISCONNECTED_BROKEN_CONN ∧ nDisc (recv sr env exConn exFrame).2 = 1 := by
  have h := integrity_defect_logout sr env exConn exFrame _ (.seqMissing ⟨rfl, rfl, rfl⟩ rfl) rfl
  exact ⟨h.1, h.2.2.2.2⟩

/-! ## after a disconnect: silence -/

/-- One step from a disconnected state: nothing loud (no frame written, no `on_message` / `on_logon` /
`on_logout`), whatever the event. -/
theorem disconnected_step_silent (sr : Msg → Bool) (c : Conn) (ev : Event)
    (hc : isDisc c.state = true) : ∀ e ∈ (step sr c ev).2, e.loud = false := by
  cases hh : handler sr ev with
  | none =>
    cases ev <;> simp [handler] at hh
    case connected k => exact (connected_effects c k).2.2
  | some x =>
    rcases step_handler hh c with h | h
    · rw [h]; exact calm_not_loud (run_calm (handler_specs hh).2.1 c hc).1
    · rw [h]; intro e he; cases he

/-- … and only a new transport leaves the disconnected states. -/
theorem disconnected_stays (sr : Msg → Bool) (c : Conn) (ev : Event) (hc : isDisc c.state = true)
    (hev : ∀ k, ev ≠ .connected k) : isDisc (step sr c ev).1.state = true := by
  cases hh : handler sr ev with
  | none => cases ev <;> simp [handler] at hh; exact absurd rfl (hev _)
  | some x =>
    rcases step_handler hh c with h | h
    · rw [h]; exact (run_calm (handler_specs hh).2.1 c hc).2
    · rw [h]; exact hc

/-- **after_disconnect_silent.**  Along any history, from any start state: between an `onDisconnect`
and the next `onConnect` (and from the start, when the start state is a disconnected one) the trace
contains no frame, no message / logon / logout callback, no state change and no further
`onDisconnect`. -/
theorem after_disconnect_silent (sr : Msg → Bool) (c : Conn) (evs : List Event) :
    quiet (isDisc c.state) (run sr c evs).2 = true := by
  induction evs generalizing c with
  | nil => rfl
  | cons ev rest ih =>
    obtain ⟨h1, h2⟩ := step_stepQ sr c ev
    have ih' := ih (step sr c ev).1
    show quiet (isDisc c.state) ((step sr c ev).2 ++ (run sr (step sr c ev).1 rest).2) = true
    rw [quiet_append, h1, Bool.true_and]
    cases hf : flagAfter (isDisc c.state) (step sr c ev).2 with
    | true => rw [h2 hf] at ih'; exact ih'
    | false => exact quiet_mono ih'

/-- **a `read()` chunk is a history of `recv` events**: the inner loop of the reader task over the frames
of one chunk (`feed`) does exactly what the events `recv m₁, recv m₂, …` of a prefix of those frames do –
so `after_disconnect_silent` and `disconnect_once` speak about byte streams delivered in arbitrary chunks;
frames behind one that ended in a disconnect are never processed (not now, not after a reconnect). -/
theorem feed_is_history (sr : Msg → Bool) (env : Env) (c : Conn) (ms : List Msg) :
    ∃ k, ((feed sr env c ms).1, (feed sr env c ms).2.1) = run sr c ((ms.take k).map (Event.recv env)) := by
  induction ms generalizing c with
  | nil => exact ⟨0, rfl⟩
  | cons m rest ih =>
    unfold feed
    by_cases h0 : c.state ≤ st_DISCONNECTED_BROKEN_CONN
    · exact ⟨0, by simp [h0, run]⟩
    · rcases hr : recv sr env c m with ⟨c1, e1⟩
      simp only [h0, if_false]
      by_cases h1 : hasRaised e1 = true
      · exact ⟨1, by simp [h1, run, step, hr]⟩
      · by_cases h2 : c1.state ≤ st_DISCONNECTED_BROKEN_CONN
        · exact ⟨1, by simp [h1, h2, run, step, hr]⟩
        · obtain ⟨k, hk⟩ := ih c1
          refine ⟨k + 1, ?_⟩
          simp only [h1, h2, if_false, List.take_succ_cons, List.map_cons, run, step, hr]
          rw [← hk]
          simp

/-! ## the disconnect is reported exactly once -/

/-- One step, every event but transport set-up: exactly one `on_disconnect` when the step takes the
connection from a connected into a disconnected state, none otherwise. -/
theorem disconnect_once_step (sr : Msg → Bool) (c : Conn) (ev : Event) (hev : ∀ k, ev ≠ .connected k) :
    nDisc (step sr c ev).2 = if !isDisc c.state && isDisc (step sr c ev).1.state then 1 else 0 := by
  cases hh : handler sr ev with
  | none => cases ev <;> simp [handler] at hh; exact absurd rfl (hev _)
  | some x =>
    obtain ⟨hq, hcalm, hab⟩ := handler_specs hh
    rcases step_handler hh c with h | h
    · rw [h]
      cases hc : isDisc c.state with
      | true => rw [calm_nDisc (run_calm hcalm c hc).1]; rfl
      | false =>
        obtain ⟨hqu, hfl⟩ := run_flag_eq hq c hc
        rw [quiet_nDisc (run_AB hab c).2.1 false hqu, hfl]
        simp
    · rw [h]; cases isDisc c.state <;> rfl

/-- transport set-up never reports a disconnect -/
theorem connected_no_disconnect (c : Conn) (k : ConnKind) : nDisc (connected c k).2 = 0 :=
  (connected_effects c k).1

/-- every event: the `on_disconnect` calls are the transitions into a disconnected state that
`on_state_change` reports -/
theorem disconnect_once_step_reported (sr : Msg → Bool) (c : Conn) (ev : Event) :
    nDisc (step sr c ev).2 = nTrans c.state (step sr c ev).2 := by
  cases hh : handler sr ev with
  | none =>
    cases ev <;> simp [handler] at hh
    case connected k =>
      show nDisc (connected c k).2 = nTrans c.state (connected c k).2
      rw [(connected_effects c k).1, (connected_effects c k).2.1]
  | some x =>
    rcases step_handler hh c with h | h
    · rw [h]; exact (run_AB (handler_specs hh).2.2 c).1
    · rw [h]; rfl

/-- transports only come up while the connection is in a disconnected state (how the client uses
`connect()`: it refuses while a reader exists) -/
def connectsWhenDisc (sr : Msg → Bool) : Conn → List Event → Prop
  | _, [] => True
  | c, ev :: rest => (∀ k, ev = .connected k → isDisc c.state = true) ∧
      connectsWhenDisc sr (step sr c ev).1 rest

/-- number of steps of a history that take the connection from a connected into a disconnected state -/
def entries (sr : Msg → Bool) : Conn → List Event → Nat
  | _, [] => 0
  | c, ev :: rest =>
    (if !isDisc c.state && isDisc (step sr c ev).1.state then 1 else 0) + entries sr (step sr c ev).1 rest

/-- **disconnect_once.**  Along any history, from any start state, the number of `on_disconnect` calls
equals the number of steps that enter a disconnected state from a connected one. -/
theorem disconnect_once (sr : Msg → Bool) (c : Conn) (evs : List Event)
    (h : connectsWhenDisc sr c evs) : nDisc (run sr c evs).2 = entries sr c evs := by
  induction evs generalizing c with
  | nil => rfl
  | cons ev rest ih =>
    obtain ⟨hk, hrest⟩ := h
    show nDisc ((step sr c ev).2 ++ (run sr (step sr c ev).1 rest).2) = _
    rw [nDisc_append, ih _ hrest]
    show _ = (if !isDisc c.state && isDisc (step sr c ev).1.state then 1 else 0) + _
    congr 1
    by_cases hev : ∃ k, ev = .connected k
    · obtain ⟨k, rfl⟩ := hev
      have hc := hk k rfl
      show nDisc (connected c k).2 = _
      rw [connected_no_disconnect, hc]; rfl
    · exact disconnect_once_step sr c ev (fun k hk => hev ⟨k, hk⟩)

/-- non-vacuity: a transport comes up and is lost again – one transition, one report -/
example (sr : Msg → Bool) (env : Env) (c : Conn) (hc : c.state = st_DISCONNECTED_NOCONN_TODAY) :
    nDisc (run sr c [.connected .acceptor, .eof env]).2 = entries sr c [.connected .acceptor, .eof env] := by
  apply disconnect_once
  simp only [connectsWhenDisc, and_true]
  exact ⟨fun _ _ => by rw [hc]; rfl, fun _ h => by cases h⟩

end AsyncFix.Props.C11
