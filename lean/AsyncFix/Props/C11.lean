import AsyncFix.Lemmas.SessionStep
import AsyncFix.Lemmas.SessionPre

/-!
# C11 – nothing passes to or from the application outside an established session

Theorems over the session model (`AsyncFix.Model.Session*`), symbolic in the counters, the journal, the
CompIDs and the message contents.  The tie of the model to asyncfix/connection.py is the exhaustive
single-step correspondence of harness/c11.py.

* `prelogon_send_refused`   – sends before the Logon exchange are refused, connection unchanged
* `prelogon_no_delivery`    – before a Logon has been received nothing is handed to the application
* `prelogon_first_frame_dropped` – a first frame other than Logon drops the connection
* `integrity_defect_*`      – per defect class: no delivery, counter unchanged, disconnected, Logout with
                              the reason exactly when the counterparty is identifiable
* `after_disconnect_silent` – along ANY history, no frame / message callback / state change / second
                              report between an `on_disconnect` and the next `on_connect`
* `disconnect_once`         – along ANY history the number of `on_disconnect` calls is the number of
                              transitions into a disconnected state
-/
namespace AsyncFix.Props.C11

open AsyncFix.Session AsyncFix.Generated.ConnEnum

/-! ## after a disconnect: silence -/

/-- One step from a disconnected state: nothing loud (no frame written, no `on_message` / `on_logon` /
`on_logout`), whatever the event. -/
theorem disconnected_step_silent (sr : Msg → Bool) (c : Conn) (ev : Event)
    (hc : isDisc c.state = true) : ∀ e ∈ (step sr c ev).2, e.loud = false := by
  cases hh : handler sr ev with
  | none =>
    cases ev <;> simp [handler] at hh
    case connected k => exact (connected_effects c k).2.2
  | some x =>
    rcases step_handler hh c with h | h
    · rw [h]; exact calm_not_loud (run_calm (handler_specs hh).2.1 c hc).1
    · rw [h]; intro e he; cases he

/-- … and only a new transport leaves the disconnected states. -/
theorem disconnected_stays (sr : Msg → Bool) (c : Conn) (ev : Event) (hc : isDisc c.state = true)
    (hev : ∀ k, ev ≠ .connected k) : isDisc (step sr c ev).1.state = true := by
  cases hh : handler sr ev with
  | none => cases ev <;> simp [handler] at hh; exact absurd rfl (hev _)
  | some x =>
    rcases step_handler hh c with h | h
    · rw [h]; exact (run_calm (handler_specs hh).2.1 c hc).2
    · rw [h]; exact hc

/-- **after_disconnect_silent.**  Along any history, from any start state: between an `onDisconnect`
and the next `onConnect` (and from the start, when the start state is a disconnected one) the trace
contains no frame, no message / logon / logout callback, no state change and no further
`onDisconnect`. -/
theorem after_disconnect_silent (sr : Msg → Bool) (c : Conn) (evs : List Event) :
    quiet (isDisc c.state) (run sr c evs).2 = true := by
  induction evs generalizing c with
  | nil => rfl
  | cons ev rest ih =>
    obtain ⟨h1, h2⟩ := step_stepQ sr c ev
    have ih' := ih (step sr c ev).1
    show quiet (isDisc c.state) ((step sr c ev).2 ++ (run sr (step sr c ev).1 rest).2) = true
    rw [quiet_append, h1, Bool.true_and]
    cases hf : flagAfter (isDisc c.state) (step sr c ev).2 with
    | true => rw [h2 hf] at ih'; exact ih'
    | false => exact quiet_mono ih'

/-! ## the disconnect is reported exactly once -/

/-- One step, every event but transport set-up: exactly one `on_disconnect` when the step takes the
connection from a connected into a disconnected state, none otherwise. -/
theorem disconnect_once_step (sr : Msg → Bool) (c : Conn) (ev : Event) (hev : ∀ k, ev ≠ .connected k) :
    nDisc (step sr c ev).2 = if !isDisc c.state && isDisc (step sr c ev).1.state then 1 else 0 := by
  cases hh : handler sr ev with
  | none => cases ev <;> simp [handler] at hh; exact absurd rfl (hev _)
  | some x =>
    obtain ⟨hq, hcalm, hab⟩ := handler_specs hh
    rcases step_handler hh c with h | h
    · rw [h]
      cases hc : isDisc c.state with
      | true => rw [calm_nDisc (run_calm hcalm c hc).1]; rfl
      | false =>
        obtain ⟨hqu, hfl⟩ := run_flag_eq hq c hc
        rw [quiet_nDisc (run_AB hab c).2.1 false hqu, hfl]
        simp
    · rw [h]; cases isDisc c.state <;> rfl

/-- transport set-up never reports a disconnect -/
theorem connected_no_disconnect (c : Conn) (k : ConnKind) : nDisc (connected c k).2 = 0 :=
  (connected_effects c k).1

/-- every event: the `on_disconnect` calls are the transitions into a disconnected state that
`on_state_change` reports -/
theorem disconnect_once_step_reported (sr : Msg → Bool) (c : Conn) (ev : Event) :
    nDisc (step sr c ev).2 = nTrans c.state (step sr c ev).2 := by
  cases hh : handler sr ev with
  | none =>
    cases ev <;> simp [handler] at hh
    case connected k =>
      show nDisc (connected c k).2 = nTrans c.state (connected c k).2
      rw [(connected_effects c k).1, (connected_effects c k).2.1]
  | some x =>
    rcases step_handler hh c with h | h
    · rw [h]; exact (run_AB (handler_specs hh).2.2 c).1
    · rw [h]; rfl

/-- transports only come up while the connection is in a disconnected state (how the client uses
`connect()`: it refuses while a reader exists) -/
def connectsWhenDisc (sr : Msg → Bool) : Conn → List Event → Prop
  | _, [] => True
  | c, ev :: rest => (∀ k, ev = .connected k → isDisc c.state = true) ∧
      connectsWhenDisc sr (step sr c ev).1 rest

/-- number of steps of a history that take the connection from a connected into a disconnected state -/
def entries (sr : Msg → Bool) : Conn → List Event → Nat
  | _, [] => 0
  | c, ev :: rest =>
    (if !isDisc c.state && isDisc (step sr c ev).1.state then 1 else 0) + entries sr (step sr c ev).1 rest

/-- **disconnect_once.**  Along any history, from any start state, the number of `on_disconnect` calls
equals the number of steps that enter a disconnected state from a connected one. -/
theorem disconnect_once (sr : Msg → Bool) (c : Conn) (evs : List Event)
    (h : connectsWhenDisc sr c evs) : nDisc (run sr c evs).2 = entries sr c evs := by
  induction evs generalizing c with
  | nil => rfl
  | cons ev rest ih =>
    obtain ⟨hk, hrest⟩ := h
    show nDisc ((step sr c ev).2 ++ (run sr (step sr c ev).1 rest).2) = _
    rw [nDisc_append, ih _ hrest]
    show _ = (if !isDisc c.state && isDisc (step sr c ev).1.state then 1 else 0) + _
    congr 1
    by_cases hev : ∃ k, ev = .connected k
    · obtain ⟨k, rfl⟩ := hev
      have hc := hk k rfl
      show nDisc (connected c k).2 = _
      rw [connected_no_disconnect, hc]; rfl
    · exact disconnect_once_step sr c ev (fun k hk => hev ⟨k, hk⟩)

end AsyncFix.Props.C11
