import AsyncFix.Model.Session

namespace AsyncFix.Props.C11
open AsyncFix.Session AsyncFix.Generated.ConnEnum

/-- a send in a state below NETWORK_CONN_ESTABLISHED is refused and leaves the connection unchanged -/
theorem send_refused_not_connected (env : Env) (c : Conn) (m : Msg)
    (h : c.state < st_NETWORK_CONN_ESTABLISHED) :
    appSend env c m = (c, [.raised .connection]) := by
  simp [appSend, sendMsg, sendGate, M.run, bind, M.bind', M.get, M.throw, h]

end AsyncFix.Props.C11
