import AsyncFix.Model.Container
namespace AsyncFix.Props.C18
end AsyncFix.Props.C18
