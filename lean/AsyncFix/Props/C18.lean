/-
C18 — message containers behave as insertion-ordered tag maps with strict duplicate rules.

All theorems are about `AsyncFix.Model.Container` (the mirror of asyncfix/message.py that
`harness/c18.py` compares with the implementation after every operation), for arbitrary containers
and arbitrary operation sequences (`run c ops`, induction over `ops`; no bound on sizes).

Reference specification (stated in `Lemmas/ContainerDict.lean`): `OMap` = first-insertion order of the
keys + partial function; `put` on a present key changes only the value, on an absent key appends the key;
`remove` forgets it.  `absMap` abstracts a container to it and loses nothing (`reference_map_faithful`).

The model mirrors /repo after the fix commits 7c684d5 (structural container equality), 68fefe3 (dict
equality skips the framing tags), 9e4749c (`_check_tag` in add_group / set_group, DuplicatedTagError on a
plain tag) and 8584485 (lower bound in get_group_by_index); with them six formerly partial statements are
full theorems.  One sentence still fails (`get_after_set_any_spelling_full`, refuted in
`Findings/C18.lean`): non-canonical decimal spellings of a tag are separate keys.
-/
import AsyncFix.Lemmas.ContainerBeq
import AsyncFix.Lemmas.ContainerEqInj
import AsyncFix.Lemmas.ContainerEqDict
import AsyncFix.Lemmas.ContainerInv
namespace AsyncFix.Props.C18
open AsyncFix.Py AsyncFix.Model.Container

/-! ## 1. refinement to the reference ordered map -/

/-- Every operation sequence on a container is the same sequence on the reference map. -/
theorem refines_reference_map (c : Cont) (ops : List Op) (hnd : (keys c).Nodup) :
    absMap (run c ops) = Spec.run (absMap c) ops :=
  run_refines c ops hnd

/-- … step by step, exception kinds included. -/
theorem step_refines_reference_map (c : Cont) (op : Op) (hnd : (keys c).Nodup) :
    Spec.step (absMap c) op = (absMap (step c op).1, (step c op).2) :=
  step_refines c op hnd

/-- The abstraction is faithful: the reference map is well formed, iterating it gives the container back. -/
theorem reference_map_faithful (c : Cont) (hnd : (keys c).Nodup) :
    (absMap c).WF ∧ (absMap c).items = c :=
  ⟨absMap_wf c hnd, items_absMap c hnd⟩

/-- No tag ever occurs twice, whatever is done to a container (the empty one included). -/
theorem keys_nodup_invariant (c : Cont) (ops : List Op) (hnd : (keys c).Nodup) : (keys (run c ops)).Nodup :=
  run_nodup c ops hnd

example : (keys (run [] [.set (.int 1) (.obj (.str [97])) false, .set (.str [49]) (.obj (.int 5)) true,
    .addGroup (.int 5) (.dict []) (-1), .del (.int 1)])).Nodup :=
  keys_nodup_invariant [] _ (by simp [keys])

/-! ## 2. values read back are the string form of what was written, however the tag is spelled -/

/-- int, decimal string and tag enum member are one key. -/
theorem tag_spelling (n : Int) :
    (PyObj.str (renderInt n)).pyStr = (PyObj.int n).pyStr ∧ (PyObj.ftag (renderInt n)).pyStr = (PyObj.int n).pyStr :=
  ⟨rfl, rfl⟩

/-- every int tag (within the interpreter's digit limit) is accepted by `set` -/
theorem int_tag_accepted (c : Cont) (n : Int) (hn : n.natAbs < 10 ^ AsyncFix.Generated.PyUnicode.maxStrDigits)
    (o : PyObj) : ∃ c', set c (.int n) (.obj o) true = .ok c' := by
  have := intLike_renderInt n hn
  simp [Model.Container.set, PyObj.pyStr, this]

/-- All container methods see a tag only through `str(tag)`: two spellings with the same `str()` are
interchangeable in every operation. -/
theorem spelling_independent (c : Cont) (t t' : PyObj) (h : t'.pyStr = t.pyStr) :
    (∀ v r, set c t' v r = set c t v r) ∧ (∀ d, get c t' d = get c t d) ∧ isGroup c t' = isGroup c t ∧
    contains c t' = contains c t ∧ delItem c t' = delItem c t ∧
    (∀ g i, addGroup c t' g i = addGroup c t g i) ∧ (∀ gs, setGroup c t' gs = setGroup c t gs) ∧
    getGroupList c t' = getGroupList c t ∧ (∀ i, getGroupByIndex c t' i = getGroupByIndex c t i) ∧
    (∀ gt gv, getGroupByTag c t' gt gv = getGroupByTag c t gt gv) :=
  ⟨fun v r => set_congr c t t' v r h, fun d => get_congr c t t' d h, isGroup_congr c t t' h,
   contains_congr c t t' h, delItem_congr c t t' h, fun g i => addGroup_congr c t t' g i h,
   fun gs => setGroup_congr c t t' gs h, getGroupList_congr c t t' h,
   fun i => by simp [getGroupByIndex, getGroupList_congr c t t' h],
   fun gt gv => by simp [getGroupByTag, getGroupList_congr c t t' h]⟩

/-- `query()` converts its tags differently (`FTag(str(t))`, else `str(int(t))`), with the same result
for the three spellings of an int. -/
theorem query_key_spelling (n : Int) (hn : n.natAbs < 10 ^ AsyncFix.Generated.PyUnicode.maxStrDigits) :
    queryKey (.int n) = .ok (renderInt n) ∧ queryKey (.str (renderInt n)) = .ok (renderInt n) ∧
    queryKey (.ftag (renderInt n)) = .ok (renderInt n) := by
  have h := pyIntOfString_renderInt_of_lt n hn
  have key : ∀ t : PyObj, t.pyStr = renderInt n → t.pyInt = .ok n → queryKey t = .ok (renderInt n) := by
    intro t hs hi
    unfold queryKey
    split
    · rw [hs]
    · rw [hi]
  exact ⟨key _ rfl rfl, key _ rfl (by simp [PyObj.pyInt, h]), key _ rfl (by simp [PyObj.pyInt, h])⟩

/-- get after set: the string form of the value, under any spelling of the tag, with or without default. -/
theorem get_after_set (c c' : Cont) (t t' : PyObj) (o : PyObj) (r : Bool) (d : Default)
    (h : set c t (.obj o) r = .ok c') (ht : t'.pyStr = t.pyStr) : get c' t' d = .ok (.str o.pyStr) := by
  obtain ⟨_, _, e⟩ := set_ok_obj c c' t o r h
  apply get_of_lookup_str
  rw [ht, e, lookup_dictSet_self]

/-- … and it stays readable through any later operations that do not write that tag. -/
theorem get_after_set_frame (c c' : Cont) (t t' : PyObj) (o : PyObj) (r : Bool) (d : Default) (ops : List Op)
    (h : set c t (.obj o) r = .ok c') (ht : t'.pyStr = t.pyStr)
    (hops : ∀ op ∈ ops, op.key ≠ some t.pyStr) : get (run c' ops) t' d = .ok (.str o.pyStr) := by
  obtain ⟨_, _, e⟩ := set_ok_obj c c' t o r h
  apply get_of_lookup_str
  rw [ht, run_lookup_other c' ops _ hops, e, lookup_dictSet_self]

example : get (run [] [.set (.int 35) (.obj (.int (-7))) false, .set (.int 1) (.obj (.str [97])) false])
    (.ftag [51, 53]) (.cls .tagNotFound) = .ok (.str (PyObj.int (-7)).pyStr) := by
  have h : Model.Container.set [] (.int 35) (.obj (.int (-7))) false
      = .ok (dictSet [51, 53] (.str (PyObj.int (-7)).pyStr) []) := by
    simp [Model.Container.set, PyObj.pyStr, r35, il35, hasKey, lookup]
  have hs : step [] (.set (.int 35) (.obj (.int (-7))) false)
      = (dictSet [51, 53] (.str (PyObj.int (-7)).pyStr) [], none) := by
    simp only [step, Op.apply, h]
  have := get_after_set_frame [] _ (.int 35) (.ftag [51, 53]) (.int (-7)) false (.cls .tagNotFound)
    [.set (.int 1) (.obj (.str [97])) false] h (by simp [PyObj.pyStr, r35])
    (by simp [Op.key, PyObj.pyStr, r35, r1])
  simpa only [run, hs] using this

/-- Sentence of the property that fails: "…whether the tag is given as int, decimal string…" for decimal
strings that are not the canonical `str(int)` (`"01"`, `" 1"`, `"+1"`, `"1_0"`, `"١"`): they are accepted
but stored under their own spelling. -/
def get_after_set_any_spelling_full : Prop :=
  ∀ (c c' : Cont) (s : Str) (n : Int) (o : PyObj), pyIntOfString s = some n →
    set c (.str s) (.obj o) true = .ok c' → get c' (.int n) (.cls .tagNotFound) = .ok (.str o.pyStr)

/-- proved part: all spellings whose `str()` is the canonical decimal (int, FTag member, `str(n)`) -/
theorem get_after_set_any_spelling_partial (c c' : Cont) (s : Str) (n : Int) (o : PyObj)
    (hcanon : s = renderInt n) (h : set c (.str s) (.obj o) true = .ok c') :
    get c' (.int n) (.cls .tagNotFound) = .ok (.str o.pyStr) :=
  get_after_set c c' (.str s) (.int n) o true _ h (by simp [PyObj.pyStr, hcanon])

/-! ## 3. duplicates are refused, a refused operation changes nothing -/

/-- setting an existing tag without `replace` raises DuplicatedTagError (any non-class value) -/
theorem set_dup_refused (c : Cont) (t o : PyObj) (hi : intLike t.pyStr = true) (hk : contains c t = true) :
    set c t (.obj o) false = .error .duplicated := by
  simp only [contains] at hk
  simp [Model.Container.set, hi, hk]

/-- `set_group` on an existing tag (plain or group) raises DuplicatedTagError -/
theorem set_group_dup_refused (c : Cont) (t : PyObj) (gs : List DItem) (hi : intLike t.pyStr = true)
    (hk : contains c t = true) : setGroup c t gs = .error .duplicated := by
  simp only [contains] at hk
  simp [setGroup, hi, hk]

/-- whatever an operation raises, the container is exactly as before (all mutators) -/
theorem set_dup_atomic (c : Cont) (op : Op) (k : Kind) (h : (step c op).2 = some k) : (step c op).1 = c :=
  step_raise_unchanged c op k h

/-- hence raising operations can be dropped from any history without changing the outcome -/
theorem raising_ops_are_noops (c : Cont) (op : Op) (ops : List Op) (k : Kind) (h : (step c op).2 = some k) :
    run c (op :: ops) = run c ops := by
  simp [run, step_raise_unchanged c op k h]

example : (step [([49], .str [97])] (.set (.int 1) (.obj (.str [98])) false)).2 = some .duplicated := by
  simp [step, Op.apply, Model.Container.set, PyObj.pyStr, r1, il1, hasKey, lookup]

/-! ## 4. replacement keeps the position, a new tag goes last, order is first-insertion order -/

theorem replace_keeps_position (c c' : Cont) (t o : PyObj) (hk : contains c t = true)
    (h : set c t (.obj o) true = .ok c') :
    keys c' = keys c ∧ lookup t.pyStr c' = some (.str o.pyStr) ∧ ∀ k, k ≠ t.pyStr → lookup k c' = lookup k c := by
  obtain ⟨_, _, e⟩ := set_ok_obj c c' t o true h
  subst e
  refine ⟨keys_dictSet_of_mem _ _ _ ((hasKey_iff_mem_keys _ _).1 hk), lookup_dictSet_self _ _ _, ?_⟩
  intro k hk'; exact lookup_dictSet_ne _ _ _ _ hk'

theorem new_tag_appended (c c' : Cont) (t o : PyObj) (r : Bool) (hk : contains c t = false)
    (h : set c t (.obj o) r = .ok c') : keys c' = keys c ++ [t.pyStr] := by
  obtain ⟨_, _, e⟩ := set_ok_obj c c' t o r h
  subst e
  apply keys_dictSet_of_not_mem
  intro hm
  have := (hasKey_iff_mem_keys _ _).2 hm
  simp only [contains] at hk
  rw [hk] at this; simp at this

/-- one operation leaves the key order alone, appends one new key, or removes the deleted key -/
theorem step_order (c : Cont) (op : Op) :
    keys (step c op).1 = keys c ∨
    (∃ k, op.key = some k ∧ k ∉ keys c ∧ keys (step c op).1 = keys c ++ [k]) ∨
    (∃ t, op = .del t ∧ keys (step c op).1 = (keys c).erase t.pyStr) :=
  step_keys c op

/-- Iteration order is first-insertion order: through ANY operation sequence, the tags that are not
deleted keep their relative order (set, replace, add_group, set_group, failed operations, pickling and
deletion of other tags never reorder them). -/
theorem order_preserved (c : Cont) (ops : List Op) (l : List Str) (hl : l.Sublist (keys c))
    (hdel : ∀ op ∈ ops, ∀ t, op = .del t → t.pyStr ∉ l) : l.Sublist (keys (run c ops)) :=
  run_sublist c ops l hl hdel

example : [[49], [51]].Sublist (keys (run [([49], .str [97]), ([50], .str [98]), ([51], .str [99])]
    [.del (.str [50]), .set (.str [49]) (.obj (.str [120])) true, .set (.str [50]) (.obj (.str [121])) false])) :=
  order_preserved _ _ _ (by simp [keys]) (by simp [PyObj.pyStr])

/-! ## 5. non-integer tags are refused -/

theorem nonint_tag_refused_set (c : Cont) (t : PyObj) (v : PyVal) (r : Bool) (h : intLike t.pyStr = false) :
    step c (.set t v r) = (c, some .fixMessageError) := by
  simp [step, Op.apply, Model.Container.set, h]

/-- EVERY mutator (set / `__setitem__`, add_group, set_group) refuses a tag that `int()` rejects with
FIXMessageError and leaves the container unchanged -/
theorem nonint_tag_refused (c : Cont) (op : Op) (k : Str) (hk : op.key = some k) (hi : intLike k = false)
    (hdel : ∀ t, op ≠ .del t) : step c op = (c, some .fixMessageError) := by
  cases op with
  | set t v r =>
    simp only [Op.key, Option.some.injEq] at hk; subst hk
    exact nonint_tag_refused_set c t v r hi
  | del t => exact absurd rfl (hdel t)
  | addGroup t g i =>
    simp only [Op.key, Option.some.injEq] at hk; subst hk
    simp [step, Op.apply, addGroup, hi]
  | setGroup t gs =>
    simp only [Op.key, Option.some.injEq] at hk; subst hk
    simp [step, Op.apply, setGroup, hi]
  | pickle => simp [Op.key] at hk

/-- … and so does the constructor, for plain and for list values -/
theorem nonint_tag_refused_ctor (t : PyObj) (v : DVal) (rest : List DEntry) (acc : Cont)
    (hi : intLike t.pyStr = false) : buildDict (.mk t v :: rest) acc = .error .fixMessageError := by
  cases v with
  | plain pv => simp [buildDict, Model.Container.set, hi]
  | list items => simp [buildDict, hi]

/-- for arbitrary histories: nothing is ever stored under a tag that `int()` rejects -/
theorem tags_intlike_invariant (c : Cont) (ops : List Op) (h : TagsIntLike c) : TagsIntLike (run c ops) :=
  run_tagsIntLike c ops h

example : TagsIntLike (run [] [.set (.str [120]) (.obj (.str [97])) false, .addGroup (.str [120]) (.dict []) (-1),
    .set (.int 1) (.cls .repeating) false]) :=
  tags_intlike_invariant [] _ (by intro p hp; simp at hp)

/-! ## 6. group accessors -/

/-- `add_group(tag, item, index)`: the list under the tag becomes the old list with the item inserted at
`addPos` (= Python's `list.insert` position; `-1` = append; a new tag starts from the empty list). -/
theorem add_group_inserts (c c' : Cont) (t t' : PyObj) (g : DItem) (i : Int) (h : addGroup c t g i = .ok c')
    (ht : t'.pyStr = t.pyStr) :
    ∃ old gc, g.toCont = .ok gc ∧
      (getGroupList c t = .ok old ∨ (contains c t = false ∧ old = [])) ∧
      getGroupList c' t' = .ok (old.take (addPos old.length i) ++ gc :: old.drop (addPos old.length i)) ∧
      addPos old.length i ≤ old.length := by
  obtain ⟨old, gc, _, hg, hold, e⟩ := addGroup_ok c c' t g i h
  refine ⟨old, gc, hg, ?_, ?_, addPos_le _ _⟩
  · rcases hold with hl | ⟨hl, he⟩
    · exact Or.inl (by simp [getGroupList, hl])
    · exact Or.inr ⟨by simp [contains, hasKey, hl], he⟩
  · rw [e, getGroupList_dictSet _ _ _ _ ht, groupAdd_eq]

/-- the insertion position, case by case -/
theorem add_group_position (n : Nat) (i : Int) :
    (i = -1 → addPos n i = n) ∧ ((n : Int) ≤ i → addPos n i = n) ∧
    (0 ≤ i → i ≤ n → addPos n i = i.toNat) ∧
    (i < -1 → 0 ≤ i + n → addPos n i = (i + n).toNat) ∧ (i < -1 → i + n < 0 → addPos n i = 0) := by
  unfold addPos insertPos
  refine ⟨?_, ?_, ?_, ?_, ?_⟩
  · intro h; simp [h]
  · intro h
    by_cases h1 : i = -1
    · simp [h1]
    · have : 0 ≤ i := by omega
      simp only [h1, this, if_true, if_false]; omega
  · intro h0 hn
    by_cases h1 : i = -1
    · omega
    · simp only [h1, h0, if_true, if_false]; omega
  · intro h1 h2
    have a : ¬ i = -1 := by omega
    have b : ¬ 0 ≤ i := by omega
    simp [a, b, h2]
  · intro h1 h2
    have a : ¬ i = -1 := by omega
    have b : ¬ 0 ≤ i := by omega
    have d : ¬ 0 ≤ i + (n : Int) := by omega
    simp [a, b, d]

/-- the new item is found at its position, the old items keep their order around it -/
theorem add_group_then_index (items : List Cont) (g : Cont) (i : Int) :
    (groupAdd items g i)[addPos items.length i]? = some g ∧
    (∀ j, j < addPos items.length i → (groupAdd items g i)[j]? = items[j]?) ∧
    (∀ j, addPos items.length i ≤ j → (groupAdd items g i)[j + 1]? = items[j]?) ∧
    (groupAdd items g i).length = items.length + 1 :=
  ⟨groupAdd_getElem_new items g i, groupAdd_getElem_before items g i, groupAdd_getElem_after items g i,
   groupAdd_length items g i⟩

/-- `set_group` stores the items in list order and `get_group_list` returns them so -/
theorem set_group_then_list (c c' : Cont) (t t' : PyObj) (gs : List DItem) (h : setGroup c t gs = .ok c')
    (ht : t'.pyStr = t.pyStr) : ∃ items, buildItems gs = .ok items ∧ getGroupList c' t' = .ok items := by
  obtain ⟨items, _, hb, _, e⟩ := setGroup_ok c c' t gs h
  exact ⟨items, hb, by rw [e, getGroupList_dictSet _ _ _ _ ht]⟩

/-- `get_group_by_index`: Python indexing for `-len ≤ i < len`, the documented TagNotFoundError for every
index out of range (above and below), never an IndexError -/
theorem get_group_by_index_spec (c : Cont) (t : PyObj) (items : List Cont) (h : getGroupList c t = .ok items) :
    (∀ (i : Nat) (hi : i < items.length), getGroupByIndex c t i = .ok items[i]) ∧
    (∀ (j : Nat) (h0 : 0 < j) (hj : j ≤ items.length),
        getGroupByIndex c t (-(j : Int)) = .ok (items[items.length - j]'(by omega))) ∧
    (∀ i : Int, (i < -(items.length : Int) ∨ (items.length : Int) ≤ i) →
        getGroupByIndex c t i = .error .tagNotFound) :=
  ⟨byIndex_nonneg c t items h, byIndex_negative c t items h,
   fun i hi => hi.elim (byIndex_low c t items h i) (byIndex_high c t items h i)⟩

theorem get_group_by_index_no_indexerror (c : Cont) (t : PyObj) (i : Int) :
    getGroupByIndex c t i ≠ .error .indexError :=
  byIndex_no_indexError c t i

/-- `get_group_by_tag` returns the FIRST item that holds the value under the inner tag -/
theorem get_group_by_tag_first (c : Cont) (t gt gv : PyObj) (g : Cont) (h : getGroupByTag c t gt gv = .ok g) :
    ∃ items pre post, getGroupList c t = .ok items ∧ items = pre ++ g :: post ∧ Matches gt gv g ∧
      ∀ x ∈ pre, ¬ Matches gt gv x := by
  simp only [getGroupByTag] at h
  split at h
  · simp at h
  · next items hl =>
    obtain ⟨pre, post, e, hm, hn⟩ := findByTag_ok gt gv items g h
    exact ⟨items, pre, post, hl, e, hm, hn⟩

theorem get_group_by_tag_missing (c : Cont) (t gt gv : PyObj) (items : List Cont)
    (hl : getGroupList c t = .ok items)
    (hplain : ∀ x ∈ items, lookup gt.pyStr x = none ∨ ∃ s, lookup gt.pyStr x = some (.str s))
    (hno : ∀ x ∈ items, ¬ Matches gt gv x) : getGroupByTag c t gt gv = .error .tagNotFound := by
  simp [getGroupByTag, hl, findByTag_none gt gv items hplain hno]

/-- missing / plain / group tags are told apart by the documented errors -/
theorem accessor_error_kinds (c : Cont) (t : PyObj) :
    (lookup t.pyStr c = none →
        isGroup c t = none ∧ contains c t = false ∧ getItem c t = .error .tagNotFound ∧
        getGroupList c t = .error .tagNotFound ∧ (∀ i, getGroupByIndex c t i = .error .tagNotFound) ∧
        (∀ gt gv, getGroupByTag c t gt gv = .error .tagNotFound) ∧ delItem c t = .error .keyError) ∧
    (∀ s, lookup t.pyStr c = some (.str s) →
        isGroup c t = some false ∧ contains c t = true ∧ (∀ d, get c t d = .ok (.str s)) ∧
        getGroupList c t = .error .unmapped ∧ (∀ i, getGroupByIndex c t i = .error .unmapped) ∧
        (∀ gt gv, getGroupByTag c t gt gv = .error .unmapped)) ∧
    (∀ items, lookup t.pyStr c = some (.group items) →
        isGroup c t = some true ∧ contains c t = true ∧ (∀ d, get c t d = .error .fixMessageError) ∧
        getGroupList c t = .ok items) :=
  ⟨accessors_missing c t, fun s => accessors_plain c t s, fun items => accessors_group c t items⟩

/-- `add_group` reports misuse by the documented library errors only: FIXMessageError (bad tag, bad item, or
what the item's constructor raises) or DuplicatedTagError (the tag holds a plain value) -/
theorem add_group_errors (c : Cont) (t : PyObj) (g : DItem) (i : Int) (k : Kind) (h : addGroup c t g i = .error k) :
    (intLike t.pyStr = false ∧ k = .fixMessageError) ∨ g.toCont = .error k ∨
    (k = .duplicated ∧ ∃ v, lookup t.pyStr c = some v ∧ ∀ gs, v ≠ .group gs) := by
  simp only [addGroup] at h
  split at h
  · next hi =>
    simp only [Except.error.injEq] at h
    exact Or.inl ⟨by simpa using hi, h.symm⟩
  · split at h
    · next e he => simp only [Except.error.injEq] at h; exact Or.inr (Or.inl (by rw [he, h]))
    · split at h
      · simp at h
      · next v hne hl =>
        simp only [Except.error.injEq] at h
        exact Or.inr (Or.inr ⟨h.symm, _, hl, fun gs e => hne gs e⟩)
      · simp at h

/-- the constructor of an item raises only library errors, so `add_group` / `set_group` / `FIXContainer(dict)`
never let a foreign exception escape -/
theorem add_group_never_attribute_error (c : Cont) (t : PyObj) (i : Int) (gc : Cont) :
    addGroup c t (.cont gc) i ≠ .error .attributeError := by
  intro h
  rcases add_group_errors c t (.cont gc) i _ h with ⟨_, e⟩ | e | ⟨e, _⟩
  · simp at e
  · simp [DItem.toCont] at e
  · simp at e

/-! ## 7. pickle round trip -/

theorem pickle_roundtrip (c : Cont) : pickleRoundtrip c = c ∧ eq (pickleRoundtrip c) c = true := by
  simp [pickleRoundtrip, (eq_iff c c).2 rfl]

/-- a round trip anywhere in a history changes nothing that follows -/
theorem pickle_anywhere (c : Cont) (ops₁ ops₂ : List Op) : run c (ops₁ ++ .pickle :: ops₂) = run c (ops₁ ++ ops₂) := by
  induction ops₁ generalizing c with
  | nil => simp [run, step, Op.apply, pickleRoundtrip]
  | cons op ops ih => simp only [List.cons_append, run]; exact ih _

/-! ## 8. equality with another container -/

/-- container `==` holds exactly when the tag/value content (order, nested items included) is the same —
for ALL containers: any strings, class-object markers, any nesting -/
theorem eq_iff_same_content (a b : Cont) : eq a b = true ↔ a = b :=
  eq_iff a b

theorem eq_refl (a : Cont) : eq a a = true := (eq_iff a a).2 rfl

example : eq [([49], .str [97, 124, 50, 61, 98])] [([49], .str [97]), ([50], .str [98])] = false := by
  cases h : eq [([49], .str [97, 124, 50, 61, 98])] [([49], .str [97]), ([50], .str [98])] with
  | false => rfl
  | true => exact absurd ((eq_iff _ _).1 h) (by simp)

/-- `__str__` (no longer used by `==`) is still unambiguous on the safe fragment: no class-object values,
string values without `|` `,` `[` `]`, tags as `set()` accepts them -/
theorem str_injective_on_safe (a b : Cont) (ha : Cont.safe a = true) (hb : Cont.safe b = true)
    (h : render a = render b) : a = b :=
  render_injective_on_safe a b ha hb h

/-- every tag `set()` accepts satisfies the tag half of `safe` -/
theorem intLike_tag_safe (t : Str) (h : intLike t = true) : tagOk t = true := by
  simp only [tagOk, List.all_eq_true]
  intro c hc
  simp [intLike_no_special t h c hc]

example : Cont.safe [([49], .str [97, 61, 98]), ([53], .group [[([50], .str [120])], []])] = true := by
  simp [Cont.safe, safeFields, Val.safe, safeItems, tagOk, strOk, isSpecial]

/-! ## 9. equality with a dict -/

/-- `container == dict` is True exactly when the content is the same ignoring the four framing tags on both
sides: the other tags agree as sets and every non-framing item of the dict is stored as exactly that string -/
theorem eqDict_iff (c : Cont) (d : List (PyObj × PyObj)) :
    eqDict c d = .ok true ↔ SameContentIgnoringFraming c d :=
  eqDict_true_iff c d

/-- It raises only: FIXMessageError for a group under a non-framing tag of the dict (documented); TagNotFound /
Repeating when the decoder's error-marker class is stored under such a tag. -/
theorem eqDict_raises_only_when (c : Cont) (d : List (PyObj × PyObj)) (k : Kind) (h : eqDict c d = .error k) :
    SameTags c d ∧ ∃ p ∈ d, p.1.pyStr ∉ ignoreStrs ∧
      ((k = .fixMessageError ∧ ∃ gs, lookup p.1.pyStr c = some (.group gs)) ∨
      (k = .tagNotFound ∧ lookup p.1.pyStr c = some (.cls .tagNotFound)) ∨
      (k = .repeating ∧ lookup p.1.pyStr c = some (.cls .repeating))) :=
  eqDict_error c d k h

/-- for containers of plain strings dict equality is total and decides "same content ignoring framing tags" -/
theorem eqDict_total (c : Cont) (d : List (PyObj × PyObj)) (hp : Plain c) :
    ∃ b, eqDict c d = .ok b ∧ (b = true ↔ SameContentIgnoringFraming c d) := by
  obtain ⟨b, hb⟩ := eqDict_total_of_plain c d hp
  refine ⟨b, hb, ?_⟩
  constructor
  · intro e; subst e; exact (eqDict_true_iff c d).1 hb
  · intro h
    have := (eqDict_true_iff c d).2 h
    rw [hb] at this
    simpa using this

/-- the framing tags are the generated `ignore_tags` literal: 8, 9, 10, 35 -/
theorem ignoreStrs_eq : ignoreStrs = [[56], [57], [49, 48], [51, 53]] := by
  simp only [ignoreStrs, AsyncFix.Generated.FTags.ignoreTags, List.map_cons, List.map_nil]
  rw [natDigits_one 8 (by omega), natDigits_one 9 (by omega), natDigits_two 10 (by omega) (by omega),
    natDigits_two 35 (by omega) (by omega)]

example : Plain [([49], .str [97]), ([56], .str [70])] := by
  intro k v h
  simp only [lookup] at h
  split at h
  · simp only [Option.some.injEq] at h; exact ⟨_, h.symm⟩
  · split at h
    · simp only [Option.some.injEq] at h; exact ⟨_, h.symm⟩
    · simp at h

end AsyncFix.Props.C18
