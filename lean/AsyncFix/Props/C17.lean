/-
C17 — an order object converges to the exchange's view of the order.

Objects: `Model/OrderObj` (FIXNewOrderSingle, branch for branch incl. the branches that raise; the
transition function is `changeStatus` over the table GENERATED from the source), `Model/Exchange`
(reference exchange – spec), `Model/OrderLink` (order + two FIFO queues + exchange).

LOCAL theorems hold for ARBITRARY call sequences on the order object – any interleaving of
new_req / cancel_req / replace_req with ANY reports, well-formed or not (`runOps`).
GLOBAL theorems hold for every interleaving of client and exchange actions (`run`) that contains
none of the two races recorded as known findings (`calm`); the full statement `converges_full`
stays visible and is refuted in `Findings/C17`.
-/
import AsyncFix.Lemmas.OrderObjStep
namespace AsyncFix.Props.C17
open AsyncFix.Model.OrderObj AsyncFix.Model.Exchange AsyncFix.Model.OrderLink AsyncFix.Model.OrderTable
open AsyncFix.Props.C16 (finished)

/-- an order object as the constructor returns it, then any call sequence -/
def Reachable (o : Order) : Prop :=
  ∃ (root : Str) (p q : Int) (t s ot a : Str) (o0 : Order) (ops : List Op),
    Order.init root p q t s ot a = .ok o0 ∧ o = runOps o0 ops

theorem reachable_inv {o : Order} (h : Reachable o) : LocalInv o := by
  obtain ⟨root, p, q, t, s, ot, a, o0, ops, hi, rfl⟩ := h
  exact runOps_inv o0 ops (init_inv hi)

/-! ## local -/

/-- the status is always a member of the status enum -/
theorem status_is_enum {o : Order} (h : Reachable o) : o.status ∈ statusValues :=
  (reachable_inv h).enum

/-- `orig_clord_id` is set only while a cancel / replace request is pending (or after the order was
canceled), and while one is pending both builders refuse (FIXError, order untouched): the client
cannot have two requests outstanding -/
theorem one_outstanding {o : Order} (h : Reachable o) :
    (truthy o.origClordId = true → o.status = "6" ∨ o.status = "E" ∨ o.status = "4") ∧
    (o.status = "6" ∨ o.status = "E" →
      cancelReq o = (o, .raised .fixError) ∧ ∀ p q, replaceReq o p q = (o, .raised .fixError)) := by
  refine ⟨fun ht => ?_, fun hp => ?_⟩
  · have := (reachable_inv h).orig ht
    simpa [sticky] using this
  · have hnl : o.status ∉ AsyncFix.Props.C16.live := by rcases hp with h' | h' <;> rw [h'] <;> decide
    exact ⟨cancelReq_refused o (by rw [canCancel_eq]; simp [hnl]),
           fun p q => replaceReq_refused o p q (by rw [canReplace_eq]; simp [hnl])⟩

/-- `can_cancel()` true ⇒ `cancel_req()` returns the request and does not raise;
`can_replace()` true and the call changes price or quantity ⇒ `replace_req()` likewise.
(`replace_req` raises FIXError by design when neither changes: hypothesis `hchange`.)
The request carries the new id `nextId o` as ClOrdID and the id the order had as OrigClOrdID. -/
theorem can_implies_builds {o : Order} (h : Reachable o) :
    (canCancel o = .ok true → ∃ m, cancelReq o = (startRequest o "6", .ok m) ∧ m.msgType = "F" ∧
        m.clOrdId = some (nextId o) ∧ m.origClOrdId = some o.clordId) ∧
    (∀ p q, canReplace o = .ok true → (effPrice o p ≠ o.price ∨ effQty o q ≠ o.qty) →
        ∃ m, replaceReq o p q = (startRequest o "E", .ok m) ∧ m.msgType = "G" ∧
        m.clOrdId = some (nextId o) ∧ m.origClOrdId = some o.clordId) := by
  have hi := reachable_inv h
  refine ⟨fun hc => ?_, fun p q hc hch => ?_⟩
  · obtain ⟨h2, h1⟩ := cancelReq_builds o hi hc
    exact ⟨_, Prod.ext h1 h2, rfl, rfl, rfl⟩
  · obtain ⟨h2, h1⟩ := replaceReq_builds o p q hi hc hch
    exact ⟨_, Prod.ext h1 h2, rfl, rfl, rfl⟩

/-- a finished order stays finished whatever report arrives – late, duplicated, an OrderCancelReject
or an execution report with any OrdStatus / ExecType, well-formed or not: the status does not change
(so `is_finished()` stays true and both gates stay false, `gates_total`) -/
theorem finished_stays_finished (o : Order) (r : Report) (hf : o.status ∈ finished) :
    (feed o r).1.status = o.status ∧ isFinished (feed o r).1 = true := by
  have hst : (feed o r).1.status = o.status := by
    unfold feed; split
    · rcases processCancelRej_status o r with hs | ⟨st, hs⟩
      · exact hs
      · exact absurd hs (AsyncFix.Props.C16.finished_absorbing _ _ _ _ _ _ hf)
    · have sh := processExecReport_shape o r
      rcases sh.status with hs | ⟨hs, _⟩
      · exact hs
      · exact absurd hs (AsyncFix.Props.C16.finished_absorbing _ _ _ _ _ _ hf)
  refine ⟨hst, ?_⟩
  simp only [finished, List.mem_cons, List.not_mem_nil, or_false] at hf
  rcases hf with h' | h' | h' | h' <;> simp [isFinished, hst, h']

/-- OBSERVATION outside the property's quantifier (application hooks that raise): the builders are not
exception safe – after `set_instrument` raised inside `cancel_req()` of a NEW order nothing was sent,
yet ClOrdID, OrigClOrdID and counter have advanced, `can_cancel()` is still true and the next
`cancel_req()` fails its assertion.  (`cancelReqH … .raises` mirrors the code as it is; the
correspondence exercises it.  All theorems here assume hooks that return normally.) -/
example :
    let o : Order := { clordId := [111, 45, 45, 49], price := 80, qty := 40, clordCnt := 1, status := "0" }
    (cancelReqH o .raises).2 = .raised .hook ∧ (cancelReqH o .raises).1.origClordId = some [111, 45, 45, 49] ∧
    canCancel (cancelReqH o .raises).1 = .ok true ∧
    (cancelReq (cancelReqH o .raises).1).2 = .raised .assertion := by decide +kernel

/-- with well-behaved hooks the hook-aware builders are the plain builders -/
theorem builders_hook_ok (o : Order) (p q : Option Int) :
    newReqH o .ok = newReq o ∧ cancelReqH o .ok = cancelReq o ∧ replaceReqH o p q .ok = replaceReq o p q := by
  refine ⟨?_, ?_, ?_⟩
  · unfold newReqH newReq; split <;> rfl
  · unfold cancelReqH; split <;> first | rfl | (rename_i h; cases h)
  · unfold replaceReqH; split <;> first | rfl | (rename_i h; cases h)

/-- the gates never raise and are decided by the status alone -/
theorem gates_total (o : Order) :
    canCancel o = .ok (decide (o.status ∈ AsyncFix.Props.C16.live)) ∧
    canReplace o = .ok (decide (o.status ∈ AsyncFix.Props.C16.live)) :=
  ⟨canCancel_eq o, canReplace_eq o⟩

/-- ClOrdIDs are fresh, for EVERY root: along any call sequence the counter values of the requests
built strictly increase, each ClOrdID is `<something>--<counter>`, and no two are equal -/
theorem clordid_fresh (o : Order) (ops : List Op) :
    (builtOps o ops).Pairwise (fun a b => a.1 < b.1) ∧
    (∀ cm ∈ builtOps o ops, o.clordCnt < cm.1 ∧ ∃ x, cm.2.clOrdId = some (x ++ [45, 45] ++ dec cm.1)) ∧
    (builtOps o ops).Pairwise (fun a b => a.2.clOrdId ≠ b.2.clOrdId) :=
  ⟨builtOps_sorted o ops, builtOps_spec o ops, builtOps_fresh o ops⟩

/-- for a root that is non-empty and does not end in `--<digits>` (line breaks allowed), the k-th
request built carries exactly `<root>--<counter>` -/
theorem clordid_root_k {root : Str} (g : GoodRoot root) {p q : Int} {t s ot a : Str} {o : Order}
    (hi : Order.init root p q t s ot a = .ok o) (ops : List Op) :
    ∀ cm ∈ builtOps o ops, cm.2.clOrdId = some (root ++ [45, 45] ++ dec cm.1) := by
  apply builtOps_good g
  unfold Order.init at hi
  split at hi
  · cases hi
  · cases hi
    exact ⟨Or.inl rfl, fun x hx => by cases hx⟩

/-- root extraction, as the property text reads: for EVERY root that does not itself end in the
chaining suffix, `clord_root` gives the root back from the bare root and from every chained id -/
theorem root_extraction_full (root : Str) (h0 : root ≠ []) (hb : ¬ ChainForm root) :
    clordRoot root = root ∧ ∀ k, clordRoot (root ++ [45, 45] ++ dec k) = root :=
  ⟨clordRoot_bare root hb, fun k => clordRoot_chain_dec root k h0⟩

theorem root_extraction {root : Str} (g : GoodRoot root) :
    clordRoot root = root ∧ ∀ k, clordRoot (root ++ [45, 45] ++ dec k) = root :=
  root_extraction_full root g.ne g.bare

/-- … precisely: a chained id is always cut back to what stands before the LAST `--<digits>` (also
when that itself ends in `--<digits>`), and a text is returned unchanged exactly when it is not of
the chain form – the excluded roots are exactly the chain-form ones -/
theorem root_extraction_char (s : Str) :
    (clordRoot s = s ↔ ¬ ChainForm s) ∧
    (s ≠ [] → ∀ k, clordRoot (s ++ [45, 45] ++ dec k) = s) :=
  ⟨⟨fun h hc => clordRoot_cut s hc h, clordRoot_bare s⟩, fun h0 k => clordRoot_chain_dec s k h0⟩

/-- excluded by the property text: a root that ends in the chaining suffix loses it ("abc--7" ↦ "abc") -/
example : clordRoot [97, 98, 99, 45, 45, 55] = [97, 98, 99] := by decide +kernel
/-- line breaks are harmless since /repo 6584134: "a\nb" and "a\nb--12" -/
example : clordRoot [97, 10, 98] = [97, 10, 98] ∧
    clordRoot ([97, 10, 98] ++ [45, 45] ++ dec 12) = [97, 10, 98] := by decide +kernel
/-- non-vacuity: "ord" is a good root -/
example : clordRoot [111, 114, 100] = [111, 114, 100] ∧
    clordRoot ([111, 114, 100] ++ [45, 45] ++ dec 12) = [111, 114, 100] := by decide +kernel

/-! ## global -/

/-- the closed system started from a freshly constructed order -/
def start (o : Order) : Link := { order := o }

theorem start_inv {root : Str} {p q : Int} {t s ot a : Str} {o : Order}
    (hi : Order.init root p q t s ot a = .ok o) : Inv (start o) := by
  have hl := init_inv hi
  unfold Order.init at hi
  split at hi
  · cases hi
  · cases hi
    exact init_inv_link hl rfl rfl

/-- the order agrees with the exchange; a finished exchange order is finished and refuses requests -/
def Converged (l : Link) : Prop :=
  l.order.status = l.ex.reported ∧ l.order.cumQty = l.ex.cum ∧ l.order.leavesQty = l.ex.leaves ∧
  l.order.price = l.ex.price ∧ l.order.qty = l.ex.qty ∧
  (l.ex.reported ∈ finished → isFinished l.order = true ∧
     cancelReq l.order = (l.order, .raised .fixError) ∧
     ∀ p q, replaceReq l.order p q = (l.order, .raised .fixError))

/-- FULL statement of the first sentence of C17: for every interleaving, whenever both queues are
empty the order equals the exchange's view.  FALSE on the current code (Findings/C17). -/
def converges_full : Prop :=
  ∀ (root : Str) (p q : Int) (t s ot a : Str) (o : Order) (acts : List Action),
    Order.init root p q t s ot a = .ok o →
    (run (start o) acts).quiescent = true → (run (start o) acts).ex.known = true →
    Converged (run (start o) acts)

/-- Proved part: every interleaving in which no suspended order expires and no replace is accepted
on a suspended order (`calm`, a decidable predicate on the interleaving). -/
theorem converges_partial (root : Str) (p q : Int) (t s ot a : Str) (o : Order) (acts : List Action)
    (hi : Order.init root p q t s ot a = .ok o) (hcalm : calm (start o) acts = true)
    (hq : (run (start o) acts).quiescent = true) (hk : (run (start o) acts).ex.known = true) :
    Converged (run (start o) acts) := by
  have hinv := run_inv acts (start o) (start_inv hi) hcalm
  generalize run (start o) acts = l at hinv hq hk
  simp only [Link.quiescent, Bool.and_eq_true, List.isEmpty_iff] at hq
  have hsync := hinv.sync
  rw [hq.1, hq.2] at hsync
  simp only [drain] at hsync
  cases hsync with
  | created hs => rw [hs.known] at hk; cases hk
  | idle hs =>
    have hrep : l.ex.reported = l.ex.base := reported_of_pending_none hs.pend
    refine ⟨hs.status.trans hrep.symm, hs.nums.cum, hs.nums.leaves, hs.nums.price, hs.nums.qty, fun hf => ?_⟩
    rw [hrep, ← hs.status] at hf
    have hnl : l.order.status ∉ AsyncFix.Props.C16.live := by
      simp only [finished, List.mem_cons, List.not_mem_nil, or_false] at hf
      rcases hf with h' | h' | h' | h' <;> rw [h'] <;> decide
    refine ⟨?_, cancelReq_refused _ (by rw [canCancel_eq]; simp [hnl]),
      fun p q => replaceReq_refused _ p q (by rw [canReplace_eq]; simp [hnl])⟩
    simp only [finished, List.mem_cons, List.not_mem_nil, or_false] at hf
    rcases hf with h' | h' | h' | h' <;> simp [isFinished, h']
  | reqPending pr hs =>
    have hrep : l.ex.reported = pstat pr.kind := reported_of_pending_some hs.pend
    refine ⟨hs.status.trans hrep.symm, hs.nums.cum, hs.nums.leaves, hs.nums.price, hs.nums.qty, fun hf => ?_⟩
    rw [hrep] at hf
    rcases pstat_pending pr.kind with h' | h' <;> rw [h'] at hf <;> exact absurd hf (by decide)

/-- a calm interleaving with a fill racing a replace request -/
def demoActs : List Action :=
  [.cNew, .xRecv .accept, .cRecv, .cReplace none (some 16), .xFill 8 80, .xRecv .pend, .cRecv, .cRecv,
   .xDecide .accept, .cRecv]

/-- non-vacuity: it satisfies the hypotheses of `converges_partial` and ends partially filled with the new quantity -/
example : calm (start { clordId := [111], price := 80, qty := 40 }) demoActs = true ∧
    (run (start { clordId := [111], price := 80, qty := 40 }) demoActs).quiescent = true ∧
    (run (start { clordId := [111], price := 80, qty := 40 }) demoActs).ex.known = true ∧
    (run (start { clordId := [111], price := 80, qty := 40 }) demoActs).order.status = "1" ∧
    (run (start { clordId := [111], price := 80, qty := 40 }) demoActs).order.qty = 16 ∧
    (run (start { clordId := [111], price := 80, qty := 40 }) demoActs).order.leavesQty = 8 := by
  decide +kernel

/-- in a calm interleaving the order object never raises on a report of the exchange, every report
that reaches an order without pending request is an unsolicited one under its current ClOrdID -/
theorem reports_never_raise (root : Str) (p q : Int) (t s ot a : Str) (o : Order) (acts : List Action)
    (hi : Order.init root p q t s ot a = .ok o) (hcalm : calm (start o) acts = true) :
    ChainP (run (start o) acts).order (run (start o) acts).e2c :=
  (run_inv acts (start o) (start_inv hi) hcalm).chain

/-- at most one request is outstanding: the request queue never holds more than one message, and a
cancel / replace request in it refers (OrigClOrdID, tag 41) to the ClOrdID under which the order is
live at the exchange, which holds no other request at that moment -/
theorem one_request_in_flight (root : Str) (p q : Int) (t s ot a : Str) (o : Order) (acts : List Action)
    (hi : Order.init root p q t s ot a = .ok o) (hcalm : calm (start o) acts = true) :
    (run (start o) acts).c2e.length ≤ 1 ∧
    ∀ m ∈ (run (start o) acts).c2e, (run (start o) acts).ex.pending = none ∧
      (m.msgType ≠ "D" → (run (start o) acts).ex.known = true ∧
        (Req.ofMsg m).origClOrdId = some (run (start o) acts).ex.liveId) := by
  have hinv := run_inv acts (start o) (start_inv hi) hcalm
  generalize run (start o) acts = l at hinv
  have hsync := hinv.sync
  generalize drain l.order l.e2c = od at hsync
  generalize l.c2e = c at hsync ⊢
  cases hsync with
  | created hs => simp
  | idle hs => simp
  | reqPending pr hs => simp
  | newSent m oo hs =>
    refine ⟨by simp, fun m' hm' => ?_⟩
    rw [List.mem_singleton] at hm'; subst hm'
    refine ⟨hs.pend, fun hD => ?_⟩
    have : (Req.ofMsg m').kind = "D" := by rw [hs.req]
    exact absurd this hD
  | reqSent m k pr qr hs =>
    refine ⟨by simp, fun m' hm' => ?_⟩
    rw [List.mem_singleton] at hm'; subst hm'
    exact ⟨hs.pend, fun _ => ⟨hs.known, by rw [hs.req]⟩⟩

/-- quiescent points of a calm run: `orig_clord_id` is set exactly while the exchange holds the
client's request as pending (or after the cancel was done) -/
theorem orig_iff_pending_at_rest (root : Str) (p q : Int) (t s ot a : Str) (o : Order) (acts : List Action)
    (hi : Order.init root p q t s ot a = .ok o) (hcalm : calm (start o) acts = true)
    (hq : (run (start o) acts).quiescent = true) (hk : (run (start o) acts).ex.known = true) :
    ((run (start o) acts).ex.pending.isSome = true →
        (run (start o) acts).order.origClordId = some (run (start o) acts).ex.liveId) ∧
    ((run (start o) acts).ex.pending = none → (run (start o) acts).ex.base ≠ "4" →
        (run (start o) acts).order.origClordId = none) := by
  have hinv := run_inv acts (start o) (start_inv hi) hcalm
  generalize run (start o) acts = l at hinv hq hk
  simp only [Link.quiescent, Bool.and_eq_true, List.isEmpty_iff] at hq
  have hsync := hinv.sync
  rw [hq.1, hq.2] at hsync
  simp only [drain] at hsync
  cases hsync with
  | created hs => rw [hs.known] at hk; cases hk
  | idle hs => exact ⟨fun hp => (by rw [hs.pend] at hp; cases hp), fun _ h4 => hs.orig h4⟩
  | reqPending pr hs => exact ⟨fun _ => hs.orig, fun hp => (by rw [hs.pend] at hp; cases hp)⟩

end AsyncFix.Props.C17
