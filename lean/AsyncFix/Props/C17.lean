import AsyncFix.Model.OrderLink
namespace AsyncFix.Props.C17
end AsyncFix.Props.C17
