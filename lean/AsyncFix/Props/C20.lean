/-
C20 — the bundled test helper fabricates valid, consistent counterparty traffic.

Part 1 (this file): the fabrication functions of `FIXTester` (`Model/Tester.lean`): every report the
model of `fix_exec_report_msg` returns – for ALL tester states, order views and argument combinations,
i.e. whenever none of the helper's own assertions (each modelled as an explicit refusal) fires –
satisfies the quantity invariants, carries a fresh ExecID and exactly the documented tags; ExecIDs are
strictly increasing over arbitrary call sequences; the OrderID is the order's own once it has one; the
report is processed by the order object without raising when it was fabricated for that order; the
same for cancel rejects; all fabricated messages pass the dictionary check generated from FIX44.xml.

Part 2 (`Props/C20Lock.lean`): the simulated acceptor wiring is in lock-step with two session-model
endpoints on clean scripts.
-/
import AsyncFix.Lemmas.TesterFab
namespace AsyncFix.Props.C20
open AsyncFix.Tester AsyncFix.Model.OrderTable

/-! ## 1. `fabricated_report_inv` -/

theorem documentedTags_nodup (a : Args) : (documentedTags a).Nodup := by
  unfold documentedTags
  cases truthy a.origClordId <;> cases a.lastQty.isSome <;> decide

/-- Whenever `fix_exec_report_msg` returns a message: CumQty + LeavesQty ≤ OrderQty (the values the
message carries at 14 / 151 / 38), LeavesQty = 0 when the reported status is one the code treats as
finished (FILLED CANCELED REJECTED EXPIRED), ExecID is the successor of the tester's counter, which
moves to it, and the tags are exactly the documented ones, each once, in the documented order. -/
theorem fabricated_report_inv {sc : Option (RMsg → Bool)} {st st' : TState} {o : OrderView} {a : Args} {m : RMsg}
    (h : fabricate sc st o a = (st', .ok m)) :
    ∃ cum leaves oq : Int,
      m.qty? 14 = some cum ∧ m.qty? 151 = some leaves ∧ m.qty? 38 = some oq ∧
      cum + leaves ≤ oq ∧
      (∀ s, m.str? 39 = some s → s ∈ finished → leaves = 0) ∧
      m.nat? 17 = some (st.execCtr + 1) ∧ st'.execCtr = st.execCtr + 1 ∧
      m.mtype = "8" ∧ m.tagList = documentedTags a ∧ m.tagList.Nodup := by
  obtain ⟨_, hm, hst, rfl, _⟩ := fabricate_ok h
  refine ⟨_, _, _, buildReport_qty14 .., buildReport_qty151 .., buildReport_qty38 .., ?_, ?_,
    buildReport_nat17 .., ?_, rfl, buildReport_tagList .., ?_⟩
  · exact check_sum hm
  · intro s hs hfin
    rw [buildReport_str39] at hs
    cases hs
    exact check_finished hm hfin
  · rw [hst]; rfl
  · rw [buildReport_tagList]; exact documentedTags_nodup a

/-- non-vacuity: a partial fill of a live order is accepted (and the theorem applies to it) -/
example :
    (fabricate none { registered := ["c--1"] }
      { clordId := "c--1", qty := ⟨80, true⟩, price := ⟨800, true⟩, leavesQty := ⟨80, true⟩, status := "0" }
      { clordId := "c--1", execType := "F", ordStatus := "1", cumQty := some ⟨24, true⟩, leavesQty := some ⟨56, true⟩,
        lastQty := some ⟨24, true⟩ }).2.isOk = true := by decide +kernel

/-! ### ExecID: strictly increasing over arbitrary call sequences -/

/-- the ExecIDs of the reports a call sequence produced, in call order -/
def execIds : List (Except Refusal RMsg) → List Nat
  | [] => []
  | .ok m :: r => (match m.nat? 17 with | some k => [k] | none => []) ++ execIds r
  | .error _ :: r => execIds r

theorem execIds_bounds (sc : Option (RMsg → Bool)) (calls : List (OrderView × Args)) (st : TState) :
    st.execCtr ≤ (runCalls sc st calls).1.execCtr ∧
    (∀ i ∈ execIds (runCalls sc st calls).2, st.execCtr < i ∧ i ≤ (runCalls sc st calls).1.execCtr) ∧
    (execIds (runCalls sc st calls).2).Pairwise (· < ·) := by
  induction calls generalizing st with
  | nil => simp [runCalls, execIds]
  | cons c rest ih =>
    obtain ⟨o, a⟩ := c
    have hle := fabricate_execCtr_le sc st o a
    obtain ⟨ih1, ih2, ih3⟩ := ih (fabricate sc st o a).1
    simp only [runCalls]
    rcases hf : fabricate sc st o a with ⟨st1, r⟩
    rw [hf] at hle ih1 ih2 ih3
    simp only at hle ih1 ih2 ih3 ⊢
    cases r with
    | error e =>
      refine ⟨by omega, ?_, ih3⟩
      intro i hi
      have := ih2 i hi
      omega
    | ok m =>
      obtain ⟨_, _, _, _, _, _, _, _, h17, hctr, _⟩ := fabricated_report_inv hf
      simp only [execIds, h17]
      refine ⟨by omega, ?_, ?_⟩
      · intro i hi
        rcases List.mem_append.mp hi with hi | hi
        · simp at hi; subst hi; omega
        · have := ih2 i hi; omega
      · simp only [List.singleton_append, List.pairwise_cons]
        exact ⟨fun j hj => by have := ih2 j hj; omega, ih3⟩

/-- Every ExecID is strictly greater than every ExecID fabricated before it on the same tester – for
every sequence of calls, for any orders and arguments, refused calls included. -/
theorem exec_ids_strictly_increasing (sc : Option (RMsg → Bool)) (st : TState) (calls : List (OrderView × Args)) :
    (execIds (runCalls sc st calls).2).Pairwise (· < ·) := (execIds_bounds sc calls st).2.2

/-! ### OrderID -/

/-- Full statement: two reports fabricated for the same order one after the other carry the same
OrderID.  FALSE on the current tree while the order has no OrderID yet (D27; `Findings/C20.lean`). -/
def order_id_stable_full : Prop :=
  ∀ (sc : Option (RMsg → Bool)) (st st1 st2 : TState) (o : OrderView) (a1 a2 : Args) (m1 m2 : RMsg),
    fabricate sc st o a1 = (st1, .ok m1) → fabricate sc st1 o a2 = (st2, .ok m2) → m1.str? 37 = m2.str? 37

/-- Proved part: once the order has an OrderID, every report fabricated for it – on any tester, in any
tester state, with any arguments – carries exactly that OrderID.  Excluded: `order.order_id is None`
(known finding C20-orderid-unstable-before-first-processing). -/
theorem order_id_stable_partial {sc : Option (RMsg → Bool)} {st st' : TState} {o : OrderView} {a : Args} {m : RMsg}
    {x : String} (hid : o.orderId = some x) (h : fabricate sc st o a = (st', .ok m)) : m.str? 37 = some x := by
  obtain ⟨_, _, _, rfl, _⟩ := fabricate_ok h
  simp [RMsg.str?, buildReport_get37, orderIdOf, hid, Val.render]

/-! ## 2. `fabricated_processable` -/

theorem k8_mem : "8" ∈ AsyncFix.Generated.OrderTable.spec.map Prod.fst := by decide +kernel
theorem k9_mem : "9" ∈ AsyncFix.Generated.OrderTable.spec.map Prod.fst := by decide +kernel

theorem applyStatus_ok (o : OrderView) (r : Res) (rep : String) (hrep : rep ∈ stVals)
    (hr : r = .to rep ∨ r = .none) : ∃ o' b, applyStatus o r = .ok (o', b) := by
  rcases hr with rfl | rfl
  · unfold applyStatus
    have hc : stVals.contains rep = true := by simpa using hrep
    by_cases he : (rep == "") = true
    · simp [he]
    · simp [he, hrep]
  · exact ⟨o, false, rfl⟩

/-- Full statement: every report the helper fabricates for an order is processed by that order's
`process_execution_report` without raising.  FALSE: the helper accepts any non-empty ClOrdID
(`Findings/C20.lean`). -/
def fabricated_processable_full : Prop :=
  ∀ (sc : Option (RMsg → Bool)) (st st' : TState) (o : OrderView) (a : Args) (m : RMsg),
    a.ordStatus ∈ stVals → fabricate sc st o a = (st', .ok m) → ∃ o' b, processExecReport o m = .ok (o', b)

/-- Proved part: the report names the order's ClOrdID or its OrigClOrdID, and the reported status is a
member of `FOrdStatus` (typed argument).  Then none of the raising branches of
`process_execution_report` is taken (message type, the six tag reads, the three `float()`s, the ClOrdID
check, `change_status`, `FOrdStatus(new_status)`); the status part is C16's trichotomy for kind 8 in
non-raising mode. -/
theorem fabricated_processable_partial {sc : Option (RMsg → Bool)} {st st' : TState} {o : OrderView} {a : Args}
    {m : RMsg} (hs : a.ordStatus ∈ stVals)
    (hc : a.clordId = o.clordId ∨ some a.clordId = o.origClordId)
    (h : fabricate sc st o a = (st', .ok m)) : ∃ o' b, processExecReport o m = .ok (o', b) := by
  obtain ⟨_, _, _, rfl, _⟩ := fabricate_ok h
  obtain ⟨r11, r14, r39, r150, r151, r37, r6, r44, r38⟩ := buildReport_reads o a (orderIdOf st o).2 (st.execCtr + 1)
  have hnotmis : (a.clordId != o.clordId && some a.clordId != o.origClordId) = false := by
    rcases hc with hc | hc <;> simp [hc]
  have htri := AsyncFix.Props.C16.trichotomy_partial o.status "8" a.execType a.ordStatus false k8_mem
  have hr : changeStatus AsyncFix.Generated.OrderTable.spec o.status "8" a.execType a.ordStatus false = .to a.ordStatus ∨
      changeStatus AsyncFix.Generated.OrderTable.spec o.status "8" a.execType a.ordStatus false = .none := by
    rcases htri with h | h | h
    · exact Or.inl h
    · exact Or.inr h
    · exact absurd h.2 (by decide)
  have hnr : (changeStatus AsyncFix.Generated.OrderTable.spec o.status "8" a.execType a.ordStatus false == Res.raised) = false := by
    rcases hr with h | h <;> rw [h] <;> simp
  unfold processExecReport
  simp only [buildReport_mtype, r11, r14, r39, r150, r151, r37, r6, r44, r38, hnotmis, hnr, bne_self_eq_false,
    Bool.false_eq_true, if_false, bind, Except.bind, pure, Except.pure]
  split <;> exact applyStatus_ok _ _ _ hs hr

end AsyncFix.Props.C20
