/-
C20 — the bundled test helper fabricates valid, consistent counterparty traffic.

Part 1 (this file): the fabrication functions of `FIXTester` (`Model/Tester.lean`): every report the
model of `fix_exec_report_msg` returns – for ALL tester states, order views and argument combinations,
i.e. whenever none of the helper's own assertions (each modelled as an explicit refusal) fires –
satisfies the quantity invariants, carries a fresh ExecID and exactly the documented tags; ExecIDs are
strictly increasing over arbitrary call sequences; the OrderID is stable per order (the order's own
once it has one, the one remembered for its ClOrdID root before); the
report is processed by the order object without raising when it was fabricated for that order; the
same for cancel rejects; all fabricated messages pass the dictionary check generated from FIX44.xml.

Part 2 (`Props/C20Lock.lean`): the simulated acceptor wiring is in lock-step with two session-model
endpoints on clean scripts.
-/
import AsyncFix.Lemmas.TesterFab
import AsyncFix.Lemmas.TesterDict
namespace AsyncFix.Props.C20
open AsyncFix.Tester AsyncFix.Model.OrderTable

/-! ## 1. `fabricated_report_inv` -/

theorem documentedTags_nodup (a : Args) : (documentedTags a).Nodup := by
  unfold documentedTags
  cases truthy a.origClordId <;> cases a.lastQty.isSome <;> decide

/-- Whenever `fix_exec_report_msg` returns a message: CumQty + LeavesQty ≤ OrderQty (the values the
message carries at 14 / 151 / 38), LeavesQty = 0 when the reported status is one the code treats as
finished (FILLED CANCELED REJECTED EXPIRED), ExecID is the successor of the tester's counter, which
moves to it, and the tags are exactly the documented ones, each once, in the documented order. -/
theorem fabricated_report_inv {sc : Option (RMsg → Bool)} {st st' : TState} {o : OrderView} {a : Args} {m : RMsg}
    (h : fabricate sc st o a = (st', .ok m)) :
    ∃ cum leaves oq : Int,
      m.qty? 14 = some cum ∧ m.qty? 151 = some leaves ∧ m.qty? 38 = some oq ∧
      cum + leaves ≤ oq ∧
      (∀ s, m.str? 39 = some s → s ∈ finished → leaves = 0) ∧
      m.nat? 17 = some (st.execCtr + 1) ∧ st'.execCtr = st.execCtr + 1 ∧
      m.mtype = "8" ∧ m.tagList = documentedTags a ∧ m.tagList.Nodup := by
  obtain ⟨_, hm, hst, rfl, _⟩ := fabricate_ok h
  refine ⟨_, _, _, buildReport_qty14 .., buildReport_qty151 .., buildReport_qty38 .., ?_, ?_,
    buildReport_nat17 .., ?_, rfl, buildReport_tagList .., ?_⟩
  · exact check_sum hm
  · intro s hs hfin
    rw [buildReport_str39] at hs
    cases hs
    exact check_finished hm hfin
  · rw [hst]; rfl
  · rw [buildReport_tagList]; exact documentedTags_nodup a

/-- non-vacuity: a partial fill of a live order is accepted (and the theorem applies to it) -/
example :
    (fabricate none { registered := ["c--1"] }
      { clordId := "c--1", qty := ⟨80, true⟩, price := ⟨800, true⟩, leavesQty := ⟨80, true⟩, status := "0" }
      { clordId := "c--1", execType := "F", ordStatus := "1", cumQty := some ⟨24, true⟩, leavesQty := some ⟨56, true⟩,
        lastQty := some ⟨24, true⟩ }).2.isOk = true := by decide +kernel

/-! ### ExecID: strictly increasing over arbitrary call sequences -/

/-- the ExecIDs of the reports a call sequence produced, in call order -/
def execIds : List (Except Refusal RMsg) → List Nat
  | [] => []
  | .ok m :: r => (match m.nat? 17 with | some k => [k] | none => []) ++ execIds r
  | .error _ :: r => execIds r

theorem execIds_bounds (sc : Option (RMsg → Bool)) (calls : List (OrderView × Args)) (st : TState) :
    st.execCtr ≤ (runCalls sc st calls).1.execCtr ∧
    (∀ i ∈ execIds (runCalls sc st calls).2, st.execCtr < i ∧ i ≤ (runCalls sc st calls).1.execCtr) ∧
    (execIds (runCalls sc st calls).2).Pairwise (· < ·) := by
  induction calls generalizing st with
  | nil => simp [runCalls, execIds]
  | cons c rest ih =>
    obtain ⟨o, a⟩ := c
    have hle := fabricate_execCtr_le sc st o a
    obtain ⟨ih1, ih2, ih3⟩ := ih (fabricate sc st o a).1
    simp only [runCalls]
    rcases hf : fabricate sc st o a with ⟨st1, r⟩
    rw [hf] at hle ih1 ih2 ih3
    simp only at hle ih1 ih2 ih3 ⊢
    cases r with
    | error e =>
      refine ⟨by omega, ?_, ih3⟩
      intro i hi
      have := ih2 i hi
      omega
    | ok m =>
      obtain ⟨_, _, _, _, _, _, _, _, h17, hctr, _⟩ := fabricated_report_inv hf
      simp only [execIds, h17]
      refine ⟨by omega, ?_, ?_⟩
      · intro i hi
        rcases List.mem_append.mp hi with hi | hi
        · simp at hi; subst hi; omega
        · have := ih2 i hi; omega
      · simp only [List.singleton_append, List.pairwise_cons]
        exact ⟨fun j hj => by have := ih2 j hj; omega, ih3⟩

/-- Every ExecID is strictly greater than every ExecID fabricated before it on the same tester – for
every sequence of calls, for any orders and arguments, refused calls included. -/
theorem exec_ids_strictly_increasing (sc : Option (RMsg → Bool)) (st : TState) (calls : List (OrderView × Args)) :
    (execIds (runCalls sc st calls).2).Pairwise (· < ·) := (execIds_bounds sc calls st).2.2

/-! ### OrderID -/

/-- Once the order has an OrderID, every report fabricated for it – on any tester, in any tester state,
with any arguments – carries exactly that OrderID. -/
theorem order_id_stable_partial {sc : Option (RMsg → Bool)} {st st' : TState} {o : OrderView} {a : Args} {m : RMsg}
    {x : String} (hid : o.orderId = some x) (h : fabricate sc st o a = (st', .ok m)) : m.str? 37 = some x := by
  obtain ⟨_, _, _, rfl, _⟩ := fabricate_ok h
  simp [RMsg.str?, buildReport_get37, orderIdOf, hid, Val.render]

/-- Before the first report is processed (`order.order_id is None`): after a report was fabricated for an
order, every later report on the same tester for an order with the same ClOrdID root and still without
OrderID carries the same OrderID – whatever calls (any orders, any arguments, refused ones included, any
schema) happened in between (fix e62ed38: `_order_ids`; D27 repaired). -/
theorem order_id_stable_sequence {sc sc' sc'' : Option (RMsg → Bool)} {st st1 st3 : TState} {o o' : OrderView}
    {a1 a2 : Args} {m1 m2 : RMsg} (calls : List (OrderView × Args))
    (h1 : fabricate sc st o a1 = (st1, .ok m1)) (hid : o.orderId = none)
    (hid' : o'.orderId = none) (hroot : rootOf o' = rootOf o)
    (h2 : fabricate sc' (runCalls sc'' st1 calls).1 o' a2 = (st3, .ok m2)) :
    m2.str? 37 = m1.str? 37 := by
  obtain ⟨_, _, hst1, rfl, _⟩ := fabricate_ok h1
  obtain ⟨_, _, _, rfl, _⟩ := fabricate_ok h2
  obtain ⟨k, hk, hknow⟩ := orderIdOf_none (st := st) hid
  have hk1 : lookupRoot (rootOf o) st1.orderIds = some k := by rw [hst1]; exact hknow
  have hk2 := knows_runCalls sc'' calls hk1
  have h37 : (orderIdOf (runCalls sc'' st1 calls).1 o').2 = .c k := by
    unfold orderIdOf
    rw [hid']
    simp only [hroot, hk2]
  simp [RMsg.str?, buildReport_get37, hk, h37]

/-- **OrderID stable per order**: two reports fabricated for the same order one after the other carry the
same OrderID, whether or not the order already has one. -/
theorem order_id_stable_full (sc : Option (RMsg → Bool)) (st st1 st2 : TState) (o : OrderView) (a1 a2 : Args)
    (m1 m2 : RMsg) (h1 : fabricate sc st o a1 = (st1, .ok m1)) (h2 : fabricate sc st1 o a2 = (st2, .ok m2)) :
    m1.str? 37 = m2.str? 37 := by
  cases hid : o.orderId with
  | some x => rw [order_id_stable_partial hid h1, order_id_stable_partial hid h2]
  | none => exact (order_id_stable_sequence (sc'' := sc) [] h1 hid hid rfl h2).symm

/-! ## 2. `fabricated_processable` -/

theorem k8_mem : "8" ∈ AsyncFix.Generated.OrderTable.spec.map Prod.fst := by decide +kernel
theorem k9_mem : "9" ∈ AsyncFix.Generated.OrderTable.spec.map Prod.fst := by decide +kernel

theorem applyStatus_ok (o : OrderView) (r : Res) (rep : String) (hrep : rep ∈ stVals)
    (hr : r = .to rep ∨ r = .none) : ∃ o' b, applyStatus o r = .ok (o', b) := by
  rcases hr with rfl | rfl
  · unfold applyStatus
    have hc : stVals.contains rep = true := by simpa using hrep
    by_cases he : (rep == "") = true
    · simp [he]
    · simp [he, hrep]
  · exact ⟨o, false, rfl⟩

/-- Full statement: every report the helper fabricates for an order is processed by that order's
`process_execution_report` without raising.  FALSE: the helper accepts any non-empty ClOrdID
(`Findings/C20.lean`). -/
def fabricated_processable_full : Prop :=
  ∀ (sc : Option (RMsg → Bool)) (st st' : TState) (o : OrderView) (a : Args) (m : RMsg),
    a.ordStatus ∈ stVals → fabricate sc st o a = (st', .ok m) → ∃ o' b, processExecReport o m = .ok (o', b)

/-- Proved part: the report names the order's ClOrdID or its OrigClOrdID, and the reported status is a
member of `FOrdStatus` (typed argument).  Then none of the raising branches of
`process_execution_report` is taken (message type, the six tag reads, the three `float()`s, the ClOrdID
check, `change_status`, `FOrdStatus(new_status)`); the status part is C16's trichotomy for kind 8 in
non-raising mode. -/
theorem fabricated_processable_partial {sc : Option (RMsg → Bool)} {st st' : TState} {o : OrderView} {a : Args}
    {m : RMsg} (hs : a.ordStatus ∈ stVals)
    (hc : a.clordId = o.clordId ∨ some a.clordId = o.origClordId)
    (h : fabricate sc st o a = (st', .ok m)) : ∃ o' b, processExecReport o m = .ok (o', b) := by
  obtain ⟨_, _, _, rfl, _⟩ := fabricate_ok h
  obtain ⟨r11, r14, r39, r150, r151, r37, r6, r44, r38⟩ := buildReport_reads o a (orderIdOf st o).2 (st.execCtr + 1)
  have hnotmis : (a.clordId != o.clordId && some a.clordId != o.origClordId) = false := by
    rcases hc with hc | hc <;> simp [hc]
  have htri := AsyncFix.Props.C16.trichotomy_partial o.status "8" a.execType a.ordStatus false k8_mem
  have hr : changeStatus AsyncFix.Generated.OrderTable.spec o.status "8" a.execType a.ordStatus false = .to a.ordStatus ∨
      changeStatus AsyncFix.Generated.OrderTable.spec o.status "8" a.execType a.ordStatus false = .none := by
    rcases htri with h | h | h
    · exact Or.inl h
    · exact Or.inr h
    · exact absurd h.2 (by decide)
  have hnr : (changeStatus AsyncFix.Generated.OrderTable.spec o.status "8" a.execType a.ordStatus false == Res.raised) = false := by
    rcases hr with h | h <;> rw [h] <;> simp
  unfold processExecReport
  simp only [buildReport_mtype, r11, r14, r39, r150, r151, r37, r6, r44, r38, hnotmis, hnr, bne_self_eq_false,
    Bool.false_eq_true, if_false, bind, Except.bind, pure, Except.pure]
  split <;> exact applyStatus_ok _ _ _ hs hr

/-- after the first processing the order has adopted the report's OrderID, so from then on
`order_id_stable_partial` applies: every later report for that order carries the same OrderID -/
theorem order_id_adopted {sc : Option (RMsg → Bool)} {st st' : TState} {o o' : OrderView} {a : Args} {m : RMsg} {b : Bool}
    (h : fabricate sc st o a = (st', .ok m)) (hp : processExecReport o m = .ok (o', b)) :
    o'.orderId = m.str? 37 ∧ o'.orderId.isSome = true := by
  obtain ⟨_, _, _, rfl, _⟩ := fabricate_ok h
  obtain ⟨r11, r14, r39, r150, r151, r37, r6, r44, r38⟩ := buildReport_reads o a (orderIdOf st o).2 (st.execCtr + 1)
  have h37 : (buildReport o a (orderIdOf st o).2 (st.execCtr + 1)).str? 37 = some (orderIdOf st o).2.render := by
    simp [RMsg.str?, buildReport_get37]
  rw [h37]
  unfold processExecReport at hp
  simp only [buildReport_mtype, r11, r14, r39, r150, r151, r37, r6, r44, r38, bne_self_eq_false,
    Bool.false_eq_true, if_false, bind, Except.bind, pure, Except.pure] at hp
  have key : ∀ (o2 : OrderView) (r : Res), o2.orderId = some (orderIdOf st o).2.render →
      applyStatus o2 r = .ok (o', b) → o'.orderId = some (orderIdOf st o).2.render := by
    intro o2 r h2 ha
    unfold applyStatus at ha
    split at ha
    · cases ha
    · cases ha; exact h2
    · split at ha
      · cases ha; exact h2
      · split at ha
        · cases ha; exact h2
        · cases ha
  have : o'.orderId = some (orderIdOf st o).2.render := by
    split at hp
    · cases hp
    · split at hp
      · cases hp
      · split at hp
        · exact key _ _ rfl hp
        · exact key _ _ rfl hp
  exact ⟨this, by rw [this]; rfl⟩

/-! ## 3. cancel rejects -/

/-- `fix_cxlrep_reject_msg`: the tags are exactly OrderID, ClOrdID, OrigClOrdID, OrdStatus,
CxlRejResponseTo; ClOrdID / OrigClOrdID are the request's; CxlRejResponseTo says which request. -/
theorem cxlrej_inv {sc : Option (RMsg → Bool)} {req : AsyncFix.Session.Msg} {os : String} {m : RMsg}
    (h : cxlReject sc req os = .ok m) :
    m.mtype = "9" ∧ m.tagList = [37, 11, 41, 39, 434] ∧
    m.str? 11 = req.get? 11 ∧ m.str? 41 = req.get? 41 ∧ m.str? 39 = some os ∧
    (req.mtype = "F" ∨ req.mtype = "G") ∧
    m.str? 434 = some (if req.mtype = "F" then "1" else "2") ∧
    dictStruct m.render = true := by
  unfold cxlReject at h
  cases h11 : req.get? 11 with
  | none => simp [h11] at h
  | some c =>
    cases h41 : req.get? 41 with
    | none => simp [h11, h41] at h
    | some g =>
      simp only [h11, h41] at h
      by_cases hty : (req.mtype != mCancelReq && req.mtype != mReplaceReq) = true
      · simp [hty] at h
      · simp only [hty, Bool.false_eq_true, if_false] at h
        have hm : m = { mtype := "9", tags := [(37, .c 0), (11, .s c), (41, .s g), (39, .s os),
            (434, .s (if req.mtype == mCancelReq then "1" else "2"))] } := by
          unfold schemaGate at h
          cases sc with
          | none => cases h; rfl
          | some ok =>
            simp only at h
            by_cases hok : ok { mtype := "9", tags := [(37, .c 0), (11, .s c), (41, .s g), (39, .s os),
                (434, .s (if req.mtype == mCancelReq then "1" else "2"))] } = true
            · rw [if_pos hok] at h; cases h; rfl
            · rw [if_neg hok] at h; cases h
        subst hm
        have hk : req.mtype = "F" ∨ req.mtype = "G" := by
          simp [mCancelReq, mReplaceReq] at hty
          by_cases h1 : req.mtype = "F"
          · exact Or.inl h1
          · exact Or.inr (hty h1)
        refine ⟨rfl, rfl, ?_, ?_, ?_, hk, ?_, ?_⟩
        · simp [RMsg.str?, RMsg.get?, RMsg.lookup, Val.render]
        · simp [RMsg.str?, RMsg.get?, RMsg.lookup, Val.render]
        · simp [RMsg.str?, RMsg.get?, RMsg.lookup, Val.render]
        · simp [RMsg.str?, RMsg.get?, RMsg.lookup, Val.render, mCancelReq]
        · rw [dictStruct_render]; exact struct9

/-- a fabricated cancel reject is processed by EVERY order object (whatever its state) without raising,
for every `FOrdStatus` member as reported status (C16's trichotomy for kind 9, non-raising mode) -/
theorem cxlrej_processable {sc : Option (RMsg → Bool)} {req : AsyncFix.Session.Msg} {os : String} {m : RMsg}
    (o : OrderView) (hs : os ∈ stVals) (h : cxlReject sc req os = .ok m) :
    ∃ o' b, processCxlRej o m = .ok (o', b) := by
  obtain ⟨hty, _, _, _, h39, _, _, _⟩ := cxlrej_inv h
  have h39' : getS m 39 = .ok os := by
    simp only [RMsg.str?, Option.map_eq_some_iff] at h39
    obtain ⟨v, hv, hr⟩ := h39
    simp [getS, hv, hr]
  have htri := AsyncFix.Props.C16.trichotomy_partial o.status "9" "0" os false k9_mem
  have hr : changeStatus AsyncFix.Generated.OrderTable.spec o.status "9" "0" os false = .to os ∨
      changeStatus AsyncFix.Generated.OrderTable.spec o.status "9" "0" os false = .none := by
    rcases htri with h | h | h
    · exact Or.inl h
    · exact Or.inr h
    · exact absurd h.2 (by decide)
  have hnr : (changeStatus AsyncFix.Generated.OrderTable.spec o.status "9" "0" os false == Res.raised) = false := by
    rcases hr with h | h <;> rw [h] <;> simp
  unfold processCxlRej
  simp only [hty, h39', hnr, bne_self_eq_false, Bool.false_eq_true, if_false, bind, Except.bind, pure, Except.pure]
  exact applyStatus_ok _ _ _ hs hr

/-! ## 4. validity against the dictionary

`dictCheck` (Model/TesterDict.lean) is `FIXSchema.validate` restricted to the helper's messages over
the tables GENERATED from tests/FIX44.xml; it splits into the structural part (`dictStruct`: known
type, required members present, no foreign tag) and the lexical part (`dictValues`).  The structural
part is proved for everything the helper fabricates, for all arguments; the lexical part is a
hypothesis (datatype checks belong to property C19) and is compared with the real schema at run time. -/

theorem fabricated_dict_struct {sc : Option (RMsg → Bool)} {st st' : TState} {o : OrderView} {a : Args} {m : RMsg}
    (h : fabricate sc st o a = (st', .ok m)) : dictStruct m.render = true := by
  obtain ⟨_, _, _, _, _, _, _, _, _, _, hm, ht, _⟩ := fabricated_report_inv h
  rw [dictStruct_render, hm, ht]
  exact struct8 (truthy a.origClordId) a.lastQty.isSome

/-- `fabricated_valid`: for ANY notion of validity `Allowed` that accepts a message whenever its type is
known, its required members are present, all its tags are members, and its values are well-formed –
with the member list the helper sets being exactly `documentedTags` – every fabricated report whose
values are well-formed is `Allowed`.  Instantiated with `dictCheck` it says the report validates. -/
theorem fabricated_valid (Allowed : AsyncFix.Session.Msg → Prop)
    (hA : ∀ m, dictStruct m = true → dictValues m = true → Allowed m)
    {sc : Option (RMsg → Bool)} {st st' : TState} {o : OrderView} {a : Args} {m : RMsg}
    (h : fabricate sc st o a = (st', .ok m)) (hv : dictValues m.render = true) : Allowed m.render :=
  hA _ (fabricated_dict_struct h) hv

theorem fabricated_dictCheck {sc : Option (RMsg → Bool)} {st st' : TState} {o : OrderView} {a : Args} {m : RMsg}
    (h : fabricate sc st o a = (st', .ok m)) (hv : dictValues m.render = true) : dictCheck m.render = true := by
  rw [dictCheck_eq, fabricated_dict_struct h, hv]; rfl

/-- with a schema attached, whatever the helper returns passed that schema (validation is the last step
and no path bypasses it) -/
theorem fabricated_passed_schema {ok : RMsg → Bool} {st st' : TState} {o : OrderView} {a : Args} {m : RMsg}
    (h : fabricate (some ok) st o a = (st', .ok m)) : ok m = true :=
  (fabricate_ok h).2.2.2.2 ok rfl

/-- session message factories: structurally valid for all arguments (no extra tags for Logon) -/
theorem session_msgs_struct (t seq new b e : String) (g : Bool) :
    dictStruct (msgLogon []) = true ∧ dictStruct msgLogout = true ∧
    dictStruct (msgHeartbeat none) = true ∧ dictStruct (msgHeartbeat (some t)) = true ∧
    dictStruct (msgTestRequest t) = true ∧ dictStruct (msgSequenceReset seq new g) = true ∧
    dictStruct (msgResendRequest b e) = true := by
  simp only [dictStruct_eq]
  exact ⟨structLogon, structLogout, structHb0, structHb1, structTestReq, structSeqReset, structResend⟩

/-- the default Logon, Logout and the interval Heartbeat validate completely -/
theorem session_msgs_default_valid :
    dictCheck (msgLogon []) = true ∧ dictCheck msgLogout = true ∧ dictCheck (msgHeartbeat none) = true := by
  decide +kernel

theorem reqFinish_ok {sc : Option (RMsg → Bool)} {st st' : TState} {o1 o' : OrderView} {m m' : RMsg} {nc : String}
    (h : reqFinish sc st o1 m nc = (st', o', .ok m')) : m' = m ∧ o' = o1 ∧ nc ∈ st'.registered := by
  unfold reqFinish at h
  cases sc with
  | none =>
    simp only [Prod.mk.injEq, Except.ok.injEq] at h
    obtain ⟨rfl, rfl, rfl⟩ := h
    exact ⟨rfl, rfl, by simp⟩
  | some ok =>
    simp only at h
    split at h
    · simp only [Prod.mk.injEq, Except.ok.injEq] at h
      obtain ⟨rfl, rfl, rfl⟩ := h
      exact ⟨rfl, rfl, by simp⟩
    · simp at h

/-- cancel / replace requests the helper hands out are structurally valid and registered under the
order's NEW ClOrdID, which the order now carries -/
theorem requests_struct {sc : Option (RMsg → Bool)} {st st' : TState} {o o' : OrderView} {m : RMsg}
    (nc tm : String) (px q : Option Num) :
    (cxlRequest sc st o nc tm = (st', o', .ok m) → dictStruct m.render = true ∧ nc ∈ st'.registered ∧ o'.clordId = nc) ∧
    (repRequest sc st o px q nc tm = (st', o', .ok m) → dictStruct m.render = true ∧ nc ∈ st'.registered ∧ o'.clordId = nc) := by
  constructor
  · intro h
    unfold cxlRequest at h
    split at h
    · cases h
    · split at h
      · cases h
      · obtain ⟨rfl, rfl, hr⟩ := reqFinish_ok h
        exact ⟨by rw [dictStruct_render]; exact structCxlReq, hr, rfl⟩
  · intro h
    unfold repRequest at h
    split at h
    · cases h
    · split at h
      · cases h
      · split at h
        · cases h
        · obtain ⟨rfl, rfl, hr⟩ := reqFinish_ok h
          exact ⟨by rw [dictStruct_render]; exact structRepReq, hr, rfl⟩

end AsyncFix.Props.C20
