import AsyncFix.Model.TesterDict
import AsyncFix.Model.TesterWire
namespace AsyncFix.Props.C20
theorem placeholder : True := trivial
end AsyncFix.Props.C20
