import AsyncFix.Lemmas.BridgeDecode

/-!
C01 through the bridge — the session model's frames decode to themselves.

The session model (`AsyncFix.Session`) calls the `Msg` inside `Effect.write` "the frame as the decoder
reads it back".  This file makes that a theorem about the codec model: `decode` of the rendered
bytes of `buildFrame s stamp m seq` is the message whose entries are exactly the fields of that
`Msg` (type = the message's own), the whole frame is consumed and its bytes are returned.
Proof: `Props.C01.assemble_decode` + the bridge (`Lemmas/Bridge*.lean`).

Hypotheses (explicit, `PlainOK` / `hdrFree`): the session strings, the type and the kept values
contain no SOH; the kept tags (all but 34/52/49/56) are pairwise distinct, none of 8 / 9 / 35 / 10,
no group tag of the table, at most `maxStrDigits` digits; no header / trailer tag is a group tag
(true of the generated FIX 4.4 table: `hdrFree_proto`); BodyLength has at most `maxStrDigits` digits.
-/
namespace AsyncFix.Props.C01Bridge

open AsyncFix AsyncFix.Bridge AsyncFix.Generated AsyncFix.Model
open AsyncFix.Session (Msg buildFrame)

theorem decode_render_buildFrame (tbl : Codec.Tbl) (s : Session.Session) (stamp : String) (m : Msg)
    (seq : Int) (h10 : Codec.tblNo10 tbl = true) (hT : hdrFree tbl = true) (hok : PlainOK tbl s stamp m)
    (hd : (Codec.natToDec (blenOf s stamp m seq)).length ≤ Codec.maxStrDigits) :
    Codec.decode Proto.beginStringBytes tbl (render (buildFrame s stamp m seq)) =
      .msg (toCodec (buildFrame s stamp m seq))
        (render (buildFrame s stamp m seq)).length (render (buildFrame s stamp m seq)) :=
  Bridge.decode_render_buildFrame tbl s stamp m seq h10 hT hok hd

/-- … in particular on the generated FIX 4.4 group table -/
theorem decode_render_buildFrame_proto (s : Session.Session) (stamp : String) (m : Msg) (seq : Int)
    (hok : PlainOK C01.protoTbl s stamp m)
    (hd : (Codec.natToDec (blenOf s stamp m seq)).length ≤ Codec.maxStrDigits) :
    Codec.decode Proto.beginStringBytes C01.protoTbl (render (buildFrame s stamp m seq)) =
      .msg (toCodec (buildFrame s stamp m seq))
        (render (buildFrame s stamp m seq)).length (render (buildFrame s stamp m seq)) :=
  Bridge.decode_render_buildFrame _ s stamp m seq C01.tblNo10_proto hdrFree_proto hok hd

/-! ### non-vacuity: an order with a latin-1 text and a MsgSeqNum(34) of its own (dropped by the
encoder), session INIT→ACPT, on the generated table -/

def exSess : Session.Session := { sender := "INIT", target := "ACPT" }
def exMsg : Msg := ⟨"D", [(11, "c1"), (34, "9"), (58, "hé")]⟩
def exStamp : String := "20240102-00:00:00.000"

theorem ex_ok : PlainOK C01.protoTbl exSess exStamp exMsg := by
  have hk : keptTags exMsg = [(11, "c1"), (58, "hé")] := by decide +kernel
  have h11 : Codec.natToDec 11 = [49, 49] := by simp [Codec.natToDec]
  have h58 : Codec.natToDec 58 = [53, 56] := by simp [Codec.natToDec]
  refine ⟨by decide +kernel, by decide +kernel, by decide +kernel, by decide +kernel, ?_, ?_⟩
  · rw [hk]; decide
  · intro p hp
    rw [hk] at hp
    simp only [List.mem_cons, List.not_mem_nil, or_false] at hp
    rcases hp with rfl | rfl
    · refine ⟨by decide, by decide, by decide, by decide, short_tag 11 (by decide), by decide +kernel, ?_⟩
      rw [h11]; decide +kernel
    · refine ⟨by decide, by decide, by decide, by decide, short_tag 58 (by decide), by decide +kernel, ?_⟩
      rw [h58]; decide +kernel

example : Codec.decode Proto.beginStringBytes C01.protoTbl (render (buildFrame exSess exStamp exMsg 7)) =
    .msg (toCodec (buildFrame exSess exStamp exMsg 7))
      (render (buildFrame exSess exStamp exMsg 7)).length (render (buildFrame exSess exStamp exMsg 7)) :=
  decode_render_buildFrame_proto exSess exStamp exMsg 7 ex_ok (short_tag _ (by decide +kernel))

end AsyncFix.Props.C01Bridge
