/-
C10 — the decoder is total, makes progress and never accepts a frame whose CheckSum is
inconsistent with its bytes.

All theorems are about the model `decode` / `readLoop` / `feed`
(lean/AsyncFix/Model/Codec/{Decode,Reader}.lean, tied to asyncfix/codec.py and the inner
loop of `socket_read_task` by the differential harness harness/c10.py) and quantify over
ALL byte strings `raw : List Nat`, all group tables and all BeginStrings.
-/
import AsyncFix.Model.Codec.Reader
import AsyncFix.Lemmas.CodecDecodeShape
namespace AsyncFix.Props.C10
open AsyncFix.Model.Codec

/-! ## 1. totality: `decode(silent=True)` never raises

The model carries a `raised` outcome at every place where the Python can raise
(`msg[0].split("=", 1)` unpacking, `FIXContainer.set` duplicate, `add_group` on a plain value);
none of them is reachable. -/

theorem decode_no_raise : ∀ (bs : Bytes) (tbl : Tbl) (raw : Bytes) (k : Kind),
    decode bs tbl raw ≠ .raised k :=
  decode_ne_raised

/-! ## 2. the consumed length is within the buffer -/

theorem decode_bounds (bs : Bytes) (tbl : Tbl) (raw : Bytes) :
    (∀ m n enc, decode bs tbl raw = .msg m n enc → n ≤ raw.length) ∧
    (∀ n, decode bs tbl raw = .none n → n ≤ raw.length) := by
  obtain ⟨enc, h⟩ := decode_resOK bs tbl raw
  constructor
  · intro m n e hd; rw [hd] at h; exact h.2.1
  · intro n hd; rw [hd] at h; exact h

/-! ## 3. progress and termination of the read loop -/

theorem decode_msg_progress (bs : Bytes) (tbl : Tbl) (raw : Bytes) (m : Msg) (n : Nat) (enc : Bytes)
    (h : decode bs tbl raw = .msg m n enc) : 0 < n := by
  obtain ⟨e, hr⟩ := decode_resOK bs tbl raw
  rw [h] at hr; exact hr.1

/-- the loop of `socket_read_task` without the model's defensive guard -/
theorem readLoop_eq (bs : Bytes) (tbl : Tbl) (buf : Bytes) (acc : List (Msg × Bytes)) :
    readLoop bs tbl buf acc =
      match decode bs tbl buf with
      | .raised k => { buf := buf, delivered := acc, raised := some k }
      | .none n => { buf := buf.drop n, delivered := acc }
      | .msg m n raw => readLoop bs tbl (buf.drop n) (acc ++ [(m, raw)]) := by
  rw [readLoop]
  split
  · rename_i hd; rw [hd]
  · rename_i hd; rw [hd]
  · rename_i m n raw hd
    have h1 := decode_msg_progress bs tbl buf m n raw hd
    have h2 := (decode_bounds bs tbl buf).1 m n raw hd
    simp only [h1, h2, and_self, dite_true]
    rw [hd]

/-- The guard in the model's `readLoop` is never taken and `decode` never raises inside it:
the model loop *is* the Python loop, and its termination is the definition's own
well-founded recursion on the buffer length (justified by `decode_msg_progress`). -/
theorem readLoop_never_stalls (bs : Bytes) (tbl : Tbl) (buf : Bytes) (acc : List (Msg × Bytes)) :
    (readLoop bs tbl buf acc).stalled = false ∧ (readLoop bs tbl buf acc).raised = none := by
  fun_induction readLoop bs tbl buf acc with
  | case1 buf acc k hd => exact absurd hd (decode_no_raise bs tbl buf k)
  | case2 buf acc n hd => exact ⟨rfl, rfl⟩
  | case3 buf acc m n raw hd hg ih => exact ih
  | case4 buf acc m n raw hd hg =>
    exfalso; apply hg
    exact ⟨decode_msg_progress bs tbl buf m n raw hd, (decode_bounds bs tbl buf).1 m n raw hd⟩

/-- every pass of the loop that delivers a message strictly shortens the buffer; the buffer left
behind is a suffix of what was there -/
theorem readLoop_buffer_suffix (bs : Bytes) (tbl : Tbl) (buf : Bytes) (acc : List (Msg × Bytes)) :
    (readLoop bs tbl buf acc).buf <:+ buf := by
  fun_induction readLoop bs tbl buf acc with
  | case1 buf acc k hd => exact List.suffix_refl _
  | case2 buf acc n hd => exact List.drop_suffix _ _
  | case3 buf acc m n raw hd hg ih => exact List.IsSuffix.trans ih (List.drop_suffix _ _)
  | case4 buf acc m n raw hd hg => exact List.drop_suffix _ _

theorem feed_buffer_suffix (bs : Bytes) (tbl : Tbl) (buf chunk : Bytes) :
    (feed bs tbl buf chunk).buf <:+ buf ++ chunk :=
  readLoop_buffer_suffix bs tbl (buf ++ chunk) []

theorem feed_never_stalls (bs : Bytes) (tbl : Tbl) (buf chunk : Bytes) :
    (feed bs tbl buf chunk).stalled = false ∧ (feed bs tbl buf chunk).raised = none :=
  readLoop_never_stalls bs tbl (buf ++ chunk) []

end AsyncFix.Props.C10
