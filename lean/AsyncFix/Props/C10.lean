/-
C10 — the decoder is total, makes progress and never accepts a frame whose CheckSum is
inconsistent with its bytes.

All theorems are about the model `decode` / `readLoop` / `feed`
(lean/AsyncFix/Model/Codec/{Decode,Reader}.lean, tied to asyncfix/codec.py and the inner
loop of `socket_read_task` by the differential harness harness/c10.py) and quantify over
ALL byte strings `raw : List Nat`, all group tables and all BeginStrings.
-/
import AsyncFix.Model.Codec.Reader
import AsyncFix.Model.Codec.ReaderProc
import AsyncFix.Lemmas.CodecDecodeShape
import AsyncFix.Lemmas.CodecDecodeCorrupt
import AsyncFix.Lemmas.CodecDecodeSubst
import AsyncFix.Lemmas.CodecDecodeWait
import AsyncFix.Lemmas.CodecDecodeEval
import AsyncFix.Model.Codec.Frame
namespace AsyncFix.Props.C10
open AsyncFix.Model.Codec

/-! ## 1. totality: `decode(silent=True)` never raises

The model carries a `raised` outcome at every place where the Python can raise
(`msg[0].split("=", 1)` unpacking, `FIXContainer.set` duplicate, `add_group` on a plain value);
none of them is reachable. -/

theorem decode_no_raise : ∀ (bs : Bytes) (tbl : Tbl) (raw : Bytes) (k : Kind),
    decode bs tbl raw ≠ .raised k :=
  decode_ne_raised

/-! ## 2. the consumed length is within the buffer -/

theorem decode_bounds (bs : Bytes) (tbl : Tbl) (raw : Bytes) :
    (∀ m n enc, decode bs tbl raw = .msg m n enc → n ≤ raw.length) ∧
    (∀ n, decode bs tbl raw = .none n → n ≤ raw.length) := by
  obtain ⟨enc, h⟩ := decode_resOK bs tbl raw
  constructor
  · intro m n e hd; rw [hd] at h; exact h.2.1
  · intro n hd; rw [hd] at h; exact h

/-! ## 3. progress and termination of the read loop -/

theorem decode_msg_progress (bs : Bytes) (tbl : Tbl) (raw : Bytes) (m : Msg) (n : Nat) (enc : Bytes)
    (h : decode bs tbl raw = .msg m n enc) : 0 < n := by
  obtain ⟨e, hr⟩ := decode_resOK bs tbl raw
  rw [h] at hr; exact hr.1

/-- the loop of `socket_read_task` without the model's defensive guard -/
theorem readLoop_eq (bs : Bytes) (tbl : Tbl) (buf : Bytes) (acc : List (Msg × Bytes)) :
    readLoop bs tbl buf acc =
      match decode bs tbl buf with
      | .raised k => { buf := buf, delivered := acc, raised := some k }
      | .none n => { buf := buf.drop n, delivered := acc }
      | .msg m n raw => readLoop bs tbl (buf.drop n) (acc ++ [(m, raw)]) := by
  rw [readLoop]
  split
  · rename_i hd; rw [hd]
  · rename_i hd; rw [hd]
  · rename_i m n raw hd
    have h1 := decode_msg_progress bs tbl buf m n raw hd
    have h2 := (decode_bounds bs tbl buf).1 m n raw hd
    simp only [h1, h2, and_self, dite_true]
    rw [hd]

/-- The guard in the model's `readLoop` is never taken and `decode` never raises inside it:
the model loop *is* the Python loop, and its termination is the definition's own
well-founded recursion on the buffer length (justified by `decode_msg_progress`). -/
theorem readLoop_never_stalls (bs : Bytes) (tbl : Tbl) (buf : Bytes) (acc : List (Msg × Bytes)) :
    (readLoop bs tbl buf acc).stalled = false ∧ (readLoop bs tbl buf acc).raised = none := by
  fun_induction readLoop bs tbl buf acc with
  | case1 buf acc k hd => exact absurd hd (decode_no_raise bs tbl buf k)
  | case2 buf acc n hd => exact ⟨rfl, rfl⟩
  | case3 buf acc m n raw hd hg ih => exact ih
  | case4 buf acc m n raw hd hg =>
    exfalso; apply hg
    exact ⟨decode_msg_progress bs tbl buf m n raw hd, (decode_bounds bs tbl buf).1 m n raw hd⟩

/-- every pass of the loop that delivers a message strictly shortens the buffer; the buffer left
behind is a suffix of what was there -/
theorem readLoop_buffer_suffix (bs : Bytes) (tbl : Tbl) (buf : Bytes) (acc : List (Msg × Bytes)) :
    (readLoop bs tbl buf acc).buf <:+ buf := by
  fun_induction readLoop bs tbl buf acc with
  | case1 buf acc k hd => exact List.suffix_refl _
  | case2 buf acc n hd => exact List.drop_suffix _ _
  | case3 buf acc m n raw hd hg ih => exact List.IsSuffix.trans ih (List.drop_suffix _ _)
  | case4 buf acc m n raw hd hg => exact List.drop_suffix _ _

theorem feed_buffer_suffix (bs : Bytes) (tbl : Tbl) (buf chunk : Bytes) :
    (feed bs tbl buf chunk).buf <:+ buf ++ chunk :=
  readLoop_buffer_suffix bs tbl (buf ++ chunk) []

theorem feed_never_stalls (bs : Bytes) (tbl : Tbl) (buf chunk : Bytes) :
    (feed bs tbl buf chunk).stalled = false ∧ (feed bs tbl buf chunk).raised = none :=
  readLoop_never_stalls bs tbl (buf ++ chunk) []

/-! ### the loop with a processing step that may raise

`_process_message` can raise out of the inner loop (e.g. `_validate_integrity` on a duplicated header
tag).  The buffer is advanced before processing, so whatever processing does the frame is handed over
exactly once and nothing behind it is lost. -/

/-- never stalls, and `decode` never raises inside it – for every processing step -/
theorem readLoopP_never_stalls (bs : Bytes) (tbl : Tbl) (proc : Msg → Bytes → Bool) (buf : Bytes)
    (acc : List (Msg × Bytes)) :
    (readLoopP bs tbl proc buf acc).stalled = false ∧ (readLoopP bs tbl proc buf acc).raised = none := by
  fun_induction readLoopP bs tbl proc buf acc with
  | case1 buf acc k hd => exact absurd hd (decode_no_raise bs tbl buf k)
  | case2 buf acc n hd => exact ⟨rfl, rfl⟩
  | case3 buf acc m n raw hd hg hp => exact ⟨rfl, rfl⟩
  | case4 buf acc m n raw hd hg hp ih => exact ih
  | case5 buf acc m n raw hd hg =>
    exfalso; apply hg
    exact ⟨decode_msg_progress bs tbl buf m n raw hd, (decode_bounds bs tbl buf).1 m n raw hd⟩

/-- with a processing step that never raises this is `readLoop` -/
theorem readLoopP_no_raise_eq (bs : Bytes) (tbl : Tbl) (buf : Bytes) (acc : List (Msg × Bytes)) :
    (readLoopP bs tbl (fun _ _ => false) buf acc).buf = (readLoop bs tbl buf acc).buf ∧
    (readLoopP bs tbl (fun _ _ => false) buf acc).delivered = (readLoop bs tbl buf acc).delivered ∧
    (readLoopP bs tbl (fun _ _ => false) buf acc).procRaised = false := by
  fun_induction readLoop bs tbl buf acc with
  | case1 buf acc k hd => rw [readLoopP]; simp [hd]
  | case2 buf acc n hd => rw [readLoopP]; simp [hd]
  | case3 buf acc m n raw hd hg ih => rw [readLoopP]; simp [hd, hg]; exact ih
  | case4 buf acc m n raw hd hg => rw [readLoopP]; simp [hd, hg]

/-- **The buffer is advanced regardless of what processing does.**  If processing raised, the bytes
of the offending frame are gone and resuming the loop on what is left delivers exactly what an
undisturbed loop would have delivered: nothing is lost, nothing is handed over twice.  If processing
did not raise, the result is that of the undisturbed loop. -/
theorem readLoopP_resume (bs : Bytes) (tbl : Tbl) (proc : Msg → Bytes → Bool) (buf : Bytes)
    (acc : List (Msg × Bytes)) :
    readLoop bs tbl (readLoopP bs tbl proc buf acc).buf (readLoopP bs tbl proc buf acc).delivered
        = readLoop bs tbl buf acc ∨
    ((readLoopP bs tbl proc buf acc).procRaised = false ∧
      (readLoopP bs tbl proc buf acc).buf = (readLoop bs tbl buf acc).buf ∧
      (readLoopP bs tbl proc buf acc).delivered = (readLoop bs tbl buf acc).delivered) := by
  fun_induction readLoopP bs tbl proc buf acc with
  | case1 buf acc k hd => exact absurd hd (decode_no_raise bs tbl buf k)
  | case2 buf acc n hd =>
    right
    rw [readLoop_eq, hd]
    exact ⟨rfl, rfl, rfl⟩
  | case3 buf acc m n raw hd hg hp =>
    left
    conv => rhs; rw [readLoop_eq, hd]
  | case4 buf acc m n raw hd hg hp ih =>
    rw [readLoop_eq bs tbl buf acc, hd]
    exact ih
  | case5 buf acc m n raw hd hg =>
    exfalso; apply hg
    exact ⟨decode_msg_progress bs tbl buf m n raw hd, (decode_bounds bs tbl buf).1 m n raw hd⟩

/-- the frame that was handed to processing is no longer in the buffer: what is left is a suffix of
the buffer behind that frame, whatever processing did -/
theorem readLoopP_frame_consumed (bs : Bytes) (tbl : Tbl) (proc : Msg → Bytes → Bool) (buf : Bytes)
    (acc : List (Msg × Bytes)) (m : Msg) (n : Nat) (raw : Bytes) (hd : decode bs tbl buf = .msg m n raw) :
    (readLoopP bs tbl proc buf acc).buf <:+ buf.drop n ∧ 0 < n := by
  have hn := decode_msg_progress bs tbl buf m n raw hd
  have hle := (decode_bounds bs tbl buf).1 m n raw hd
  refine ⟨?_, hn⟩
  rw [readLoopP]
  simp only [hd, hn, hle, and_self, dite_true]
  split
  · exact List.suffix_refl _
  · -- the rest of the loop only shortens the buffer further
    have key : ∀ (b : Bytes) (a : List (Msg × Bytes)), (readLoopP bs tbl proc b a).buf <:+ b := by
      intro b a
      fun_induction readLoopP bs tbl proc b a with
      | case1 b a k h => exact List.suffix_refl _
      | case2 b a n h => exact List.drop_suffix _ _
      | case3 b a m n raw h hg hp => exact List.drop_suffix _ _
      | case4 b a m n raw h hg hp ih => exact List.IsSuffix.trans ih (List.drop_suffix _ _)
      | case5 b a m n raw h hg => exact List.drop_suffix _ _
    exact key _ _

/-! ## 4. a returned message has a CheckSum field that matches its bytes -/

/-- Every returned frame `enc` is `pre ++ SOH "10=" v SOH`, where `v` is EXACTLY three ASCII digits
(`ckParse`) denoting the byte sum of `pre ++ SOH` (everything in front of `10=`) modulo 256.
`pre` is exactly the model's `SOH.join(msg[:-1])`. -/
theorem checksum_sound (bs : Bytes) (tbl : Tbl) (raw : Bytes) (m : Msg) (n : Nat) (enc : Bytes)
    (h : decode bs tbl raw = .msg m n enc) :
    ∃ pre v, enc = pre ++ SOH :: (tag10 ++ EQS :: v) ++ [SOH] ∧
      ckParse v = some (sum (pre ++ [SOH]) % 256) ∧
      pre = join SOH (fieldsOf enc).dropLast := by
  obtain ⟨pre, v, h1, h4, h5⟩ := decode_checksum_soh h
  refine ⟨pre, v, h1, ?_, h5⟩
  rw [h4, sum_append, sum_cons, sum_nil]; rfl

/-- what `ckParse v = some n` means -/
theorem ckParse_spec (v : Bytes) (n : Nat) (h : ckParse v = some n) :
    ∃ a b c, v = [a, b, c] ∧ isDigit a = true ∧ isDigit b = true ∧ isDigit c = true ∧
      n = (a - 48) * 100 + (b - 48) * 10 + (c - 48) :=
  ckParse_some h

/-- the returned bytes are a contiguous piece of the buffer -/
theorem decode_raw_infix (bs : Bytes) (tbl : Tbl) (raw : Bytes) (m : Msg) (n : Nat) (enc : Bytes)
    (h : decode bs tbl raw = .msg m n enc) : enc <:+: raw := by
  rw [decode_eq] at h
  cases hvi : findSub marker raw with
  | none => rw [hvi] at h; cases h
  | some vi =>
    rw [hvi] at h
    dsimp only at h
    split at h
    · cases h
    obtain ⟨_, _, _, _, _, _, _, _, _, _, _, _, _, _, _, _, _, _, he⟩ := decodeFields_msg h
    rw [he]
    exact List.IsInfix.trans (List.take_prefix _ _).isInfix (List.drop_suffix _ _).isInfix

/-- **A frame whose CheckSum value does not match its bytes is never returned** – by any buffer,
table or BeginString.  (`pre` is everything in front of `SOH 10=`.)  This is the part of "never
accepts a corrupted frame" that the code guarantees: every edit of `pre` that changes the byte sum
modulo 256, and every edit of the CheckSum value itself, is rejected. -/
theorem C10_corruption_partial (pre v tail : Bytes) (hv : SOH ∉ v) (ht : tail = [] ∨ tail = [SOH])
    (hbad : ckParse v ≠ some (sum (pre ++ [SOH]) % 256)) :
    ∀ bs tbl raw m n, decode bs tbl raw ≠ .msg m n (pre ++ SOH :: (tag10 ++ EQS :: v) ++ tail) := by
  intro bs tbl raw m n h
  obtain ⟨p1, v1, t1, e1, ht1, hv1, hp1, _⟩ := decode_checksum' h
  obtain ⟨hpa, hva, _⟩ := ck_decomp_unique (v1 := v) (v2 := v1) e1 hv hv1 ht ht1
  apply hbad
  rw [hva, hpa, hp1, sum_append, sum_cons, sum_nil]; rfl

/-- one-byte edits that change the byte sum: substitution by a different byte, deletion or
insertion of a non-NUL byte (all bytes < 256) -/
inductive SumEdit1 : Bytes → Bytes → Prop
  | subst (a b : Bytes) (x y : Nat) : x ≠ y → x < 256 → y < 256 → SumEdit1 (a ++ x :: b) (a ++ y :: b)
  | delete (a b : Bytes) (x : Nat) : 0 < x → x < 256 → SumEdit1 (a ++ x :: b) (a ++ b)
  | insert (a b : Bytes) (y : Nat) : 0 < y → y < 256 → SumEdit1 (a ++ b) (a ++ y :: b)

theorem SumEdit1.sum_ne {p p' : Bytes} (h : SumEdit1 p p') :
    sum (p ++ [SOH]) % 256 ≠ sum (p' ++ [SOH]) % 256 := by
  cases h with
  | subst a b x y hxy hx hy =>
    simp only [sum_append, sum_cons, sum_nil]; omega
  | delete a b x h0 hx =>
    simp only [sum_append, sum_cons, sum_nil]; omega
  | insert a b y h0 hy =>
    simp only [sum_append, sum_cons, sum_nil]; omega

/-- the value a returned frame carries is the sum of what precedes it -/
theorem returned_value (bs : Bytes) (tbl : Tbl) (raw : Bytes) (m : Msg) (n : Nat) (pre v tail : Bytes)
    (h : decode bs tbl raw = .msg m n (pre ++ SOH :: (tag10 ++ EQS :: v) ++ tail))
    (hv : SOH ∉ v) (ht : tail = [] ∨ tail = [SOH]) : ckParse v = some (sum (pre ++ [SOH]) % 256) := by
  obtain ⟨p1, v1, t1, e1, ht1, hv1, hp1, _⟩ := decode_checksum' h
  obtain ⟨hpa, hva, _⟩ := ck_decomp_unique (v1 := v) (v2 := v1) e1 hv hv1 ht ht1
  rw [hva, hpa, hp1, sum_append, sum_cons, sum_nil]; rfl

/-- every single-byte substitution / non-NUL deletion / non-NUL insertion in front of the CheckSum
field of a returned frame yields a byte string that is never returned -/
theorem edit_in_summed_region_rejected (bs : Bytes) (tbl : Tbl) (raw : Bytes) (m : Msg) (n : Nat)
    (pre pre' v tail : Bytes)
    (h : decode bs tbl raw = .msg m n (pre ++ SOH :: (tag10 ++ EQS :: v) ++ tail))
    (hv : SOH ∉ v) (ht : tail = [] ∨ tail = [SOH]) (he : SumEdit1 pre pre') :
    ∀ bs' tbl' raw' m' n',
      decode bs' tbl' raw' ≠ .msg m' n' (pre' ++ SOH :: (tag10 ++ EQS :: v) ++ tail) := by
  apply C10_corruption_partial pre' v tail hv ht
  rw [returned_value bs tbl raw m n pre v tail h hv ht]
  intro hp2
  simp only [Option.some.injEq] at hp2
  exact he.sum_ne hp2

/-- **any change of the CheckSum value is rejected**: if `… 10=v` is returned then `… 10=v'` with
`v' ≠ v` (any length, any bytes without SOH – in particular every single-byte substitution,
insertion or deletion inside the value) is never returned -/
theorem checksum_value_edit_rejected (bs : Bytes) (tbl : Tbl) (raw : Bytes) (m : Msg) (n : Nat)
    (pre v v' tail : Bytes)
    (h : decode bs tbl raw = .msg m n (pre ++ SOH :: (tag10 ++ EQS :: v) ++ tail))
    (hv : SOH ∉ v) (hv' : SOH ∉ v') (ht : tail = [] ∨ tail = [SOH]) (hne : v' ≠ v) :
    ∀ bs' tbl' raw' m' n',
      decode bs' tbl' raw' ≠ .msg m' n' (pre ++ SOH :: (tag10 ++ EQS :: v') ++ tail) := by
  apply C10_corruption_partial pre v' tail hv' ht
  intro h'
  exact hne (ckParse_inj h' (returned_value bs tbl raw m n pre v tail h hv ht))

/-- **Same-shape corruption is rejected.**  Take a frame that the decoder returns,
`(a ++ x :: b) ++ SOH "10=" v ++ tail`, and replace the byte `x` anywhere in the summed region
by a different byte `y` (both < 256), leaving the CheckSum field untouched.  The modified
byte string is never returned as a message – by any buffer, table or BeginString. -/
theorem same_shape_corruption_rejected (bs : Bytes) (tbl : Tbl) (raw : Bytes) (m : Msg) (n : Nat)
    (a b v tail : Bytes) (x y : Nat)
    (h : decode bs tbl raw = .msg m n ((a ++ x :: b) ++ SOH :: (tag10 ++ EQS :: v) ++ tail))
    (hv : SOH ∉ v) (ht : tail = [] ∨ tail = [SOH]) (hx : x < 256) (hy : y < 256) (hxy : x ≠ y) :
    ∀ bs' tbl' raw' m' n',
      decode bs' tbl' raw' ≠ .msg m' n' ((a ++ y :: b) ++ SOH :: (tag10 ++ EQS :: v) ++ tail) :=
  edit_in_summed_region_rejected bs tbl raw m n _ _ v tail h hv ht (SumEdit1.subst a b x y hxy hx hy)

/-- **No single-byte substitution of a returned frame is ever returned** – wherever the byte lies
(summed region, the `SOH 10=` tag, the CheckSum digits, the final SOH) and whatever buffer, table or
BeginString the modified bytes are decoded with. -/
theorem no_substitution_returned (bs : Bytes) (tbl : Tbl) (raw : Bytes) (m : Msg) (n : Nat)
    (a b : Bytes) (x y : Nat) (h : decode bs tbl raw = .msg m n (a ++ x :: b))
    (hxy : x ≠ y) (hx : x < 256) (hy : y < 256) :
    ∀ bs' tbl' raw' m' n', decode bs' tbl' raw' ≠ .msg m' n' (a ++ y :: b) :=
  substitution_never_returned h hxy hx hy

/-- … and when the substitution keeps the field structure (the piece still starts with the marker
and gets no earlier `SOH "10="`), the buffer that starts with the corrupted frame yields NO message
at all, whatever follows it. -/
theorem same_shape_corruption_not_decoded (bs : Bytes) (tbl : Tbl) (raw : Bytes) (m : Msg) (n : Nat)
    (a b v : Bytes) (x y : Nat)
    (h : decode bs tbl raw = .msg m n ((a ++ x :: b) ++ SOH :: (tag10 ++ EQS :: v) ++ [SOH]))
    (hv : SOH ∉ v) (hx : x < 256) (hy : y < 256) (hxy : x ≠ y)
    (hmark : isPrefix marker (a ++ y :: b) = true)
    (hshape : findSub cksumPat ((a ++ y :: b) ++ cksumPat) = some (a ++ y :: b).length) :
    ∀ rest m' n' e', decode bs tbl ((a ++ y :: b) ++ cksumPat ++ v ++ SOH :: rest) ≠ .msg m' n' e' := by
  intro rest m' n' e'
  apply mismatching_frame_rejected bs tbl hmark hshape hv
  have h1 := returned_value bs tbl raw m n _ v [SOH] h hv (Or.inr rfl)
  rw [h1]
  intro hp2
  simp only [Option.some.injEq] at hp2
  have := (SumEdit1.subst a b x y hxy hx hy).sum_ne
  apply this
  rw [hp2]
  have e : sum ((a ++ y :: b) ++ [SOH]) = sum (a ++ y :: b) + 1 := by
    rw [sum_append, sum_cons, sum_nil]; rfl
  rw [e]

/-! ## 5. a wait is only ever for bytes that have not arrived -/

/-- **Characterisation of "consume nothing".**  `decode` returns `(None, 0, None)` only if
 (a) the buffer is a proper prefix of the marker `8=FIX.` (possibly empty), or
 (b) it starts with the marker and a CheckSum field `SOH 10=…` has begun whose terminating SOH has
     not arrived, or
 (c) it starts with the marker, contains no `SOH 10=` yet and has fewer than three fields, or
 (d) it starts with the marker, has at least three fields and declares (BodyLength) more bytes
     than are buffered.
In every case the decoder is waiting for bytes that have not arrived. -/
theorem no_permanent_stall (bs : Bytes) (tbl : Tbl) (raw : Bytes) (h : decode bs tbl raw = .none 0) :
    (findSub marker raw = none ∧ raw.length ≤ 5 ∧ raw = marker.take raw.length) ∨
    (isPrefix marker raw = true ∧ ckOpen raw = true) ∨
    (isPrefix marker raw = true ∧ findSub cksumPat raw = none ∧
      (fieldsOf (raw.take (cutOf raw))).length < 3) ∨
    (isPrefix marker raw = true ∧ 3 ≤ (fieldsOf (raw.take (cutOf raw))).length ∧
      raw.length < declaredOf (fieldsOf (raw.take (cutOf raw)))) :=
  decode_none_zero h

/-- Once a complete CheckSum field (`SOH "10=" … SOH`) has arrived at or after the first marker –
e.g. because a later frame followed the malformed one – the decoder stops waiting at the latest
when the length declared by the head is buffered, for EVERY continuation `ext` of the stream. -/
theorem closed_frame_wait_bounded (bs : Bytes) (tbl : Tbl) (raw : Bytes) (vi c : Nat)
    (hvi : findSub marker raw = some vi) (hc : closedAtOf (raw.drop vi) = some c) (ext : Bytes)
    (hN : vi + declaredOf (fieldsOf ((raw.drop vi).take c)) ≤ (raw ++ ext).length) :
    decode bs tbl (raw ++ ext) ≠ .none 0 :=
  closed_wait_bounded bs tbl hvi hc ext hN

/-- **One malformed frame cannot block the frames that follow it**: whatever bytes `p` are in
the buffer, as soon as something frame-like (`8=FIX.` … `SOH 10=` … `SOH`) has followed them there
is a bound `N` such that every continuation of the stream that brings the buffer to `N` bytes makes
`decode` consume something (> 0 bytes or a message); together with `readLoop_never_stalls` the reader
then proceeds with a strictly shorter buffer. -/
theorem following_frame_unblocks (bs : Bytes) (tbl : Tbl) (p q v r : Bytes) :
    ∃ N, ∀ ext, N ≤ ((p ++ marker ++ q ++ cksumPat ++ v ++ SOH :: r) ++ ext).length →
      decode bs tbl ((p ++ marker ++ q ++ cksumPat ++ v ++ SOH :: r) ++ ext) ≠ .none 0 := by
  obtain ⟨vi, c, hvi, hc⟩ := closed_of_contains (p := p) (q := q) (v := v) (r := r)
  exact ⟨_, fun ext hN => closed_wait_bounded bs tbl hvi hc ext hN⟩

/-! ## 6. the full statement of the property (violated by the unchanged code, see Findings/C10) -/

/-- BodyLength(9) equals the number of bytes after the BodyLength field's SOH up to and including
the SOH in front of `10=` -/
def BodyLengthOK (enc : Bytes) : Prop :=
  ∃ f0 f1 rest v1, fieldsOf enc = f0 :: f1 :: rest ∧ splitEq f1 = some (tag9, v1) ∧
    pyInt v1 = some (((join SOH (fieldsOf enc).dropLast).length + 1 - (f0.length + f1.length + 2) : Nat) : Int)

/-- one-byte edits of a byte string -/
inductive Edit1 : Bytes → Bytes → Prop
  | subst (a b : Bytes) (x y : Nat) : x ≠ y → y < 256 → Edit1 (a ++ x :: b) (a ++ y :: b)
  | delete (a b : Bytes) (x : Nat) : Edit1 (a ++ x :: b) (a ++ b)
  | insert (a b : Bytes) (y : Nat) : y < 256 → Edit1 (a ++ b) (a ++ y :: b)

/-- "A message is returned only when the frame's CheckSum AND BodyLength are consistent with its
bytes" -/
def C10_bodylength_full : Prop :=
  ∀ bs tbl raw m n enc, decode bs tbl raw = .msg m n enc → BodyLengthOK enc

/-- "no single-byte corruption of a valid frame is ever returned as a message": the byte string
`f'` is never the raw frame of a returned message, whatever buffer it arrives in -/
def C10_corruption_full : Prop :=
  ∀ bs tbl f f', okBegin bs = true → WFFrame bs f → Edit1 f f' →
    ∀ raw m n, decode bs tbl raw ≠ .msg m n f'

/-- the complete second sentence of C10 -/
def C10_full : Prop := C10_bodylength_full ∧ C10_corruption_full

/-! ## non-vacuity: concrete instances of the hypotheses -/

/-- `8=FIX.4.4|9=10|35=0|49=S|10=205|` (built by the reference framer `mkFrame`) -/
def sampleFrame : Bytes := mkFrame bs44 [⟨[51, 53], [48]⟩, ⟨[52, 57], [83]⟩]

/-- the sample frame is returned (hypothesis of `checksum_sound` / `decode_msg_progress`) … -/
example : ∃ m, decode bs44 [] (sampleFrame ++ [56, 61]) = .msg m 32 sampleFrame :=
  DecRes.of_msgOf (by decide +kernel)

/-- … and has the shape required by `same_shape_corruption_rejected` / `…_not_decoded`
(x = '0' of `35=0` replaced by y = '1') -/
example : sampleFrame =
    (([56, 61, 70, 73, 88, 46, 52, 46, 52, 1, 57, 61, 49, 48, 1, 51, 53, 61] ++ 48 :: [1, 52, 57, 61, 83])
      ++ SOH :: (tag10 ++ EQS :: [50, 48, 53]) ++ [SOH]) ∧
    isPrefix marker ([56, 61, 70, 73, 88, 46, 52, 46, 52, 1, 57, 61, 49, 48, 1, 51, 53, 61] ++ 49 :: [1, 52, 57, 61, 83]) = true ∧
    findSub cksumPat (([56, 61, 70, 73, 88, 46, 52, 46, 52, 1, 57, 61, 49, 48, 1, 51, 53, 61] ++ 49 :: [1, 52, 57, 61, 83]) ++ cksumPat)
      = some 24 := by decide +kernel

/-- the four kinds of wait of `no_permanent_stall` all occur:
`8=FI`, `8=FIX.4.4|9=5|10=0`, `8=FIX.4.4|9=`, `8=FIX.4.4|9=100|35=0|` -/
example : decode bs44 [] [56, 61, 70, 73] = .none 0 ∧
    decode bs44 [] [56, 61, 70, 73, 88, 46, 52, 46, 52, 1, 57, 61, 53, 1, 49, 48, 61, 48] = .none 0 ∧
    decode bs44 [] [56, 61, 70, 73, 88, 46, 52, 46, 52, 1, 57, 61] = .none 0 ∧
    decode bs44 [] [56, 61, 70, 73, 88, 46, 52, 46, 52, 1, 57, 61, 49, 48, 48, 1, 51, 53, 61, 48, 1] = .none 0 :=
  ⟨DecRes.of_noneOf (by decide +kernel), DecRes.of_noneOf (by decide +kernel),
   DecRes.of_noneOf (by decide +kernel), DecRes.of_noneOf (by decide +kernel)⟩

/-- hypotheses of `closed_frame_wait_bounded`: head declaring 100 bytes, closed by a CheckSum field -/
example : findSub marker ([0, 0] ++ [56, 61, 70, 73, 88, 46, 52, 46, 52, 1, 57, 61, 49, 48, 48, 1, 51, 53, 61, 48, 1, 49, 48, 61, 48, 1]) = some 2 ∧
    closedAtOf (([0, 0] ++ [56, 61, 70, 73, 88, 46, 52, 46, 52, 1, 57, 61, 49, 48, 48, 1, 51, 53, 61, 48, 1, 49, 48, 61, 48, 1]).drop 2) = some 26 := by
  decide +kernel

end AsyncFix.Props.C10
