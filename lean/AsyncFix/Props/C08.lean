/-
C08 — the journal survives a process crash at any point.

Model: `Model/JournalDB.lean` – every public method of `asyncfix/journaler.py` as a program over
`execute()` / `commit()` calls on a connection `{committed, working, inTx, …}` with the
Python-sqlite3 transaction rules.  A process = `Journaler(file)` followed by an arbitrary list of
calls; it dies after an arbitrary number `k` of execute()/commit() calls (`session file ops k`);
`reopen` = a new `Journaler` on what the file holds.

Trusted (this is the definition of `Conn.crash` / `Conn.commit`): SQLite commits atomically and
process death leaves the last commit.  Proved: the Python-side transaction discipline.
All theorems are for arbitrary `ops : List Op` (any length, any arguments) and arbitrary `k`.
-/
import AsyncFix.Lemmas.JournalFrame
import AsyncFix.Lemmas.JournalQuery
namespace AsyncFix.Props.C08
open AsyncFix.Model.Journal

/-- After a crash at any statement-level point the reopened journal is – concretely, and as the
abstract store of the property text – the journal after a prefix of the calls that contains every
call that returned and at most the one in flight (never part of one); and it is usable (`JInv`). -/
theorem crash_is_op_boundary (file : Journal) (hfile : JInv file) (ops : List Op) (k : Nat) :
    ∃ m, completedOps file ops k ≤ m ∧ m ≤ completedOps file ops k + 1 ∧ m ≤ ops.length ∧
      (reopen (session file ops k).1).working = applyOps file (ops.take m) ∧
      abs (reopen (session file ops k).1).working = (abs file).applyOps (ops.take m) ∧
      JInv (reopen (session file ops k).1).working := by
  obtain ⟨⟨m, h1, h2, h3, h4⟩, -⟩ := session_boundary file ops k
  have hw : (reopen (session file ops k).1).working = applyOps file (ops.take m) := by
    rw [(reopen_spec _).1, h4]
  refine ⟨m, h1, h2, h3, hw, ?_, ?_⟩
  · rw [hw]
    exact applyOps_refines hfile _
  · rw [hw]; exact applyOps_inv _ hfile

/-- Closing the journal normally (every call returned; `__del__` closes cursor and connection,
which drops whatever is uncommitted) loses nothing: a new Journaler sees what the old one saw. -/
theorem close_loses_nothing (file : Journal) (ops : List Op) (k : Nat)
    (hall : (session file ops k).2 = ops.length + 1) :
    (reopen (session file ops k).1).working = (session file ops k).1.working ∧
    (reopen (session file ops k).1).working = applyOps file ops := by
  obtain ⟨-, h⟩ := session_boundary file ops k
  obtain ⟨hw, hcl⟩ := h hall
  rw [(reopen_spec _).1]
  exact ⟨hcl.symm, by rw [← hcl, hw]⟩

theorem persist_stores (j : Journal) (hinv : JInv j) (msg : Bytes) (h : Handle) (dir : Dir) (n : Int)
    (hn : findSeqNo msg = some n) (hret : (persist j msg h dir).2 = .none) :
    (abs (persist j msg h dir).1).store h.key dir n = some msg := by
  have href := persist_refines hinv msg h dir
  have h1 : abs (persist j msg h dir).1 = ((abs j).persist msg h dir).1 := congrArg Prod.fst href
  have h2 : ((abs j).persist msg h dir).2 = .none := by rw [← hret]; exact (congrArg Prod.snd href).symm
  rw [h1]
  unfold JSpec.persist at h2 ⊢
  rw [hn] at h2 ⊢
  simp only at h2 ⊢
  by_cases hf : (!(fits n && fits h.key)) = true
  · simp only [hf, if_true] at h2; cases h2
  · simp only [hf, if_false, Bool.false_eq_true] at h2 ⊢
    cases hs : (abs j).store h.key dir n with
    | some x => simp only [hs] at h2; cases h2
    | none => simp only [and_self, if_true]

/-- every message whose store call had returned is still retrievable byte for byte after a crash at
any later point – unless a later renumbering of that session at or below its number was applied -/
theorem returned_persist_durable (file : Journal) (hfile : JInv file) (pre post : List Op)
    (msg : Bytes) (h : Handle) (dir : Dir) (n : Int)
    (k : Nat)
    (hdone : pre.length < completedOps file (pre ++ Op.persist msg h dir :: post) k)
    (hn : findSeqNo msg = some n) (hret : (persist (applyOps file pre) msg h dir).2 = .none) :
    (abs (reopen (session file (pre ++ Op.persist msg h dir :: post) k).1).working).store h.key dir n = some msg ∨
    ∃ op ∈ post, op.truncates h.key dir n = true := by
  obtain ⟨m, h1, -, -, hw, -, -⟩ := crash_is_op_boundary file hfile _ k
  rw [hw]
  have hm : pre.length + 1 ≤ m := by omega
  have htake : (pre ++ Op.persist msg h dir :: post).take m =
      pre ++ Op.persist msg h dir :: post.take (m - pre.length - 1) := by
    obtain ⟨d, rfl⟩ : ∃ d, m = pre.length + 1 + d := ⟨m - pre.length - 1, by omega⟩
    have e1 : pre.length + 1 + d - pre.length = d + 1 := by omega
    rw [List.take_append, List.take_of_length_le (by omega), e1, List.take_succ_cons, Nat.add_sub_cancel]
  rw [htake, applyOps_append, applyOps_cons]
  have hinv1 : JInv (applyOps file pre) := applyOps_inv _ hfile
  have hst := persist_stores _ hinv1 msg h dir n hn hret
  rcases store_frame_ops _ (persist_inv msg h dir hinv1) _ h.key dir n msg hst with h2 | ⟨o, ho, h2⟩
  · left; exact h2
  · right; exact ⟨o, List.mem_of_mem_take ho, h2⟩

/-- a message row never exists without its counter update: if the process dies anywhere inside a
store call and the reopened file holds the new row, the session's counter for that direction is
that message's number -/
theorem row_implies_counter (file : Journal) (hfile : JInv file) (ops : List Op)
    (msg : Bytes) (h : Handle) (dir : Dir) (n : Int) (id : Nat)
    (k : Nat)
    (hall : ops.length ≤ completedOps file (ops ++ [Op.persist msg h dir]) k)
    (hn : findSeqNo msg = some n) (hid : (id : Int) = h.key)
    (hsess : (abs (applyOps file ops)).counters id ≠ none)
    (hnew : (abs (applyOps file ops)).store h.key dir n = none)
    (hrow : (abs (reopen (session file (ops ++ [Op.persist msg h dir]) k).1).working).store h.key dir n ≠ none) :
    ∃ v, (abs (reopen (session file (ops ++ [Op.persist msg h dir]) k).1).working).counters id = some v ∧
      dir.pick v.1 v.2 = n := by
  obtain ⟨m, h1, -, h3, hw, -, -⟩ := crash_is_op_boundary file hfile _ k
  rw [hw] at hrow ⊢
  simp only [List.length_append, List.length_singleton] at h3
  have hm : m = ops.length ∨ m = ops.length + 1 := by omega
  rcases hm with rfl | rfl
  · rw [List.take_append_of_le_length (Nat.le_refl _), List.take_length] at hrow
    exact absurd hnew hrow
  · rw [List.take_of_length_le (by simp), applyOps_append] at hrow ⊢
    have hinv1 : JInv (applyOps file ops) := applyOps_inv _ hfile
    have href := persist_refines hinv1 msg h dir
    have h1 : abs (persist (applyOps file ops) msg h dir).1 = ((abs (applyOps file ops)).persist msg h dir).1 :=
      congrArg Prod.fst href
    show ∃ v, (abs (persist (applyOps file ops) msg h dir).1).counters id = some v ∧ _
    change (abs (persist (applyOps file ops) msg h dir).1).store h.key dir n ≠ none at hrow
    rw [h1] at hrow ⊢
    unfold JSpec.persist at hrow ⊢
    rw [hn] at hrow ⊢
    simp only at hrow ⊢
    split at hrow
    · exact absurd hnew hrow
    · rename_i hf
      simp only [hf]
      simp only [hnew] at hrow ⊢
      obtain ⟨v, hv⟩ := Option.ne_none_iff_exists'.mp hsess
      refine ⟨setCounter dir n v, by simp [hid, hv], ?_⟩
      cases dir <;> rfl

/-- a completed set or reset of the sequence numbers is never lost: after a crash at any later
point the stored counters are the ones that were set, unless a later call wrote them again -/
theorem completed_set_durable (file : Journal) (hfile : JInv file) (pre post : List Op)
    (h h' : Handle) (out inn : Option Int) (id : Nat)
    (k : Nat)
    (hdone : pre.length < completedOps file (pre ++ Op.setSeqNum h out inn :: post) k)
    (hret : (setSeqNum (applyOps file pre) h out inn).2 = .set h' none)
    (hid : (id : Int) = h.key) (hsess : (abs (applyOps file pre)).counters id ≠ none) :
    (abs (reopen (session file (pre ++ Op.setSeqNum h out inn :: post) k).1).working).counters id =
        some (effOut h out - 1, effIn h inn - 1) ∨
    ∃ op ∈ post, op.touchesCounters h.key = true := by
  obtain ⟨m, h1, -, -, hw, -, -⟩ := crash_is_op_boundary file hfile _ k
  rw [hw]
  have hm : pre.length + 1 ≤ m := by omega
  have htake : (pre ++ Op.setSeqNum h out inn :: post).take m =
      pre ++ Op.setSeqNum h out inn :: post.take (m - pre.length - 1) := by
    obtain ⟨d, rfl⟩ : ∃ d, m = pre.length + 1 + d := ⟨m - pre.length - 1, by omega⟩
    have e1 : pre.length + 1 + d - pre.length = d + 1 := by omega
    rw [List.take_append, List.take_of_length_le (by omega), e1, List.take_succ_cons, Nat.add_sub_cancel]
  rw [htake, applyOps_append, applyOps_cons]
  have hinv1 : JInv (applyOps file pre) := applyOps_inv _ hfile
  have hst : (abs (setSeqNum (applyOps file pre) h out inn).1).counters id =
      some (effOut h out - 1, effIn h inn - 1) := by
    rcases setSeqNum_cases (applyOps file pre) h out inn with he | he | he | ⟨-, -, -, -, -, he⟩ <;>
      rw [he] at hret ⊢ <;> simp only [Res.set.injEq, reduceCtorEq, and_false] at hret
    obtain ⟨v, hv⟩ := Option.ne_none_iff_exists'.mp hsess
    simp only [setNext_refines, JSpec.setNext, hid, if_true, hv, Option.map_some]
  rcases counters_frame_ops _ (setSeqNum_inv h out inn hinv1) _ id _ hst with h2 | ⟨o, ho, h2⟩
  · left; exact h2
  · right; exact ⟨o, List.mem_of_mem_take ho, by rw [← hid]; exact h2⟩

/-- The programs over execute()/commit() (which the correspondence compares with the code) and the
pure methods (which C13 is about) agree: when a call returns, the connection sees exactly what the
pure method computes, nothing is left uncommitted, and – integers within 64 bits – it returns the
same result. -/
theorem method_program_agrees (c : Conn) (hcl : c.Clean) (op : Op) (n : Nat) (a : Res)
    (hret : (op.prog.run n c).2.2 = some a) :
    (op.prog.run n c).1.working = (applyOp c.working op).1 ∧
    (op.ParamsFit = true → a = (applyOp c.working op).2) ∧
    (op.prog.run n c).1.Clean :=
  let s := op_runSpec c hcl op n
  ⟨s.working a hret, s.result a hret, s.clean a hret⟩

/-- what a duplicate leaves behind: an open but empty transaction (nothing changed, nothing
pending) -/
theorem persist_dup_leaves_empty_tx (c : Conn) (msg : Bytes) (h : Handle) (dir : Dir)
    (q : Int) (hn : findSeqNo msg = some q) (hfit : fits q = true ∧ fits h.key = true)
    (hdup : c.working.msgs.any (·.isKey q h.key dir) = true) (n : Nat) :
    ((persistP msg h dir).run (n + 1) c).2.2 = some (.raised .duplicateSeqNo) ∧
    ((persistP msg h dir).run (n + 1) c).1.working = c.working ∧
    ((persistP msg h dir).run (n + 1) c).1.committed = c.committed ∧
    ((persistP msg h dir).run (n + 1) c).1.inTx = true := by
  have hb1 : (Stmt.insertMsg q h.key dir msg).bindOk = true := by
    simp [Stmt.bindOk, Stmt.params, fits_dirVal, hfit.1, hfit.2]; decide
  obtain ⟨hr, hw, hc⟩ := exec_ok c _ hb1
  have htx := exec_inTx c (.insertMsg q h.key dir msg)
  simp only [Stmt.isDML, Bool.or_true, if_true, Stmt.run, insMsg, hdup] at hr hw hc htx
  unfold persistP
  simp only [hn, Prog.run, hr, persistFail]
  exact ⟨trivial, hw, hc, htx⟩

/-! non-vacuity: a concrete process with two sessions, a store, a renumbering, killed after 9 calls -/
def exampleOps : List Op :=
  [ .createOrLoad "T" "S",
    .persist [1, 51, 52, 61, 53, 1] ⟨1, "T", "S", 1, 1⟩ .outbound,
    .setSeqNum ⟨1, "T", "S", 1, 1⟩ (some 3) none,
    .persist [1, 51, 52, 61, 55, 1] ⟨1, "T", "S", 1, 1⟩ .inbound ]
example : completedOps {} exampleOps 10 = 2 ∧
    (reopen (session {} exampleOps 10).1).working = applyOps {} (exampleOps.take 2) ∧
    (reopen (session {} exampleOps 11).1).working = applyOps {} (exampleOps.take 3) := by
  decide +kernel

/-! regression example – the witness of the former finding (fixed by 493a9a7): a `set_seq_num` whose
next inbound number is 2⁶³ raises OverflowError after its UPDATE ran; it is rolled back, so the
later store commits nothing of it: outbound message 1 is there and the outbound counter still says so -/
def formerWitness : List Op :=
  [ .createOrLoad "T" "S",
    .persist [1, 51, 52, 61, 49, 1] ⟨1, "T", "S", 1, 1⟩ .outbound,
    .setSeqNum ⟨1, "T", "S", 1, 1⟩ (some 1) (some 9223372036854775808),
    .persist [1, 51, 52, 61, 55, 1] ⟨1, "T", "S", 1, 1⟩ .inbound ]
example : completedOps {} formerWitness 100 = 4 ∧
    (abs (reopen (session {} formerWitness 100).1).working).counters 1 = some (1, 7) ∧
    (abs (reopen (session {} formerWitness 100).1).working).store 1 .outbound 1 ≠ none ∧
    (reopen (session {} formerWitness 100).1).working = (reopen (session {} (formerWitness.eraseIdx 2) 100).1).working := by
  decide +kernel

end AsyncFix.Props.C08
