/-
`float(str)` of CPython 3.12 as far as schema.py observes it: does it parse, and is the result finite
(`isfinite(float(v))`).  The float VALUE is never needed: the only magnitude question is whether
the correctly rounded double is ±inf, i.e. whether |exact decimal value| ≥ 2^1024 − 2^970 (the
midpoint between the largest double and 2^1024; round-half-even sends the midpoint up).

Mirrors PyFloat_FromString → _Py_string_to_number_with_underscores → float_from_string_inner →
PyOS_string_to_double → _Py_dg_strtod / _Py_parse_inf_or_nan.
Not modelled: MAX_DIGITS / MAX_ABS_EXP clipping of _Py_dg_strtod (strings of ≥ 10^9 characters).
-/
import AsyncFix.Py.PyStr
namespace AsyncFix.Py

/-- trailing-whitespace strip of PyFloat_FromString (`while (s < last - 1 && Py_ISSPACE(last[-1]))`;
the first character is not a space when this runs, so "keep one character" never matters) -/
def dropTrailingSpace : Str → Str
  | [] => []
  | c :: cs =>
    let r := dropTrailingSpace cs
    if r.isEmpty && isAsciiSpace c then [] else c :: r

/-- `_Py_string_to_number_with_underscores`: copy without underscores; an underscore must follow a
digit and precede a digit.  `prev` = previous character (0 at the start).  `none` = ValueError. -/
def removeUnderscores : Nat → Str → Option Str
  | prev, [] => if prev = 95 then none else some []
  | prev, c :: cs =>
    if c = 95 then
      if isAsciiDigit prev then removeUnderscores 95 cs else none
    else if prev = 95 && !isAsciiDigit c then none
    else match removeUnderscores c cs with
      | some r => some (c :: r)
      | none => none

/-- ASCII tolower -/
def lowerAscii (c : Nat) : Nat := if 65 ≤ c ∧ c ≤ 90 then c + 32 else c

/-- `_Py_parse_inf_or_nan` + "consumed everything": [+-]? (inf | infinity | nan), case-insensitive -/
def isInfNan (u : Str) : Bool :=
  let l := (stripSign u).map lowerAscii
  l == [105, 110, 102] || l == [105, 110, 102, 105, 110, 105, 116, 121] || l == [110, 97, 110]

/-- outcome of parsing a decimal literal: the digit values of the mantissa (integer and fraction
part concatenated), the number of fraction digits and the exponent -/
structure DecLit where
  mant : List Nat
  fracLen : Nat
  exp : Int

/-- `_Py_dg_strtod` grammar + the caller's "consumed everything" test:
`[+-]? (digits [. digits*] | . digits) ([eE] [+-]? digits)?`; an exponent marker without digits is
not consumed and therefore left over (ValueError). -/
def parseDecimal (u : Str) : Option DecLit :=
  let u1 := stripSign u
  let ip := u1.takeWhile isAsciiDigit
  let r1 := u1.dropWhile isAsciiDigit
  let (fp, r2) := match r1 with
    | 46 :: r => (r.takeWhile isAsciiDigit, r.dropWhile isAsciiDigit)
    | _ => ([], r1)
  if ip.isEmpty && fp.isEmpty then none
  else
    let mant := (ip ++ fp).map (· - 48)
    match r2 with
    | [] => some ⟨mant, fp.length, 0⟩
    | c :: r3 =>
      if c = 101 ∨ c = 69 then
        let eneg := r3.head? == some 45
        let r4 := stripSign r3
        let ep := r4.takeWhile isAsciiDigit
        let r5 := r4.dropWhile isAsciiDigit
        if ep.isEmpty then none
        else if r5.isEmpty then
          let e : Int := decVal (ep.map (· - 48))
          some ⟨mant, fp.length, if eneg then -e else e⟩
        else none
      else none

/-- 2^1024 − 2^970: decimal values of at least this magnitude round to ±inf -/
def floatInfThreshold : Nat := 2 ^ 1024 - 2 ^ 970

/-- is `M · 10^k` below the overflow threshold?  (The guards only avoid astronomically large powers;
`M < 10^ndigits`.) -/
def decFinite (M ndigits : Nat) (k : Int) : Bool :=
  if M = 0 then true
  else if 0 ≤ k then
    if 400 < k then false else decide (M * 10 ^ k.toNat < floatInfThreshold)
  else
    let n := (-k).toNat
    if ndigits ≤ n then true else decide (M < floatInfThreshold * 10 ^ n)

def DecLit.finite (d : DecLit) : Bool :=
  decFinite (decVal d.mant) d.mant.length (d.exp - d.fracLen)

inductive FloatRes
  | valueError      -- float() raises ValueError
  | nonFinite       -- parses, but inf / nan (incl. overflow to inf)
  | finite
  deriving DecidableEq, Repr

/-- float(str) on the transformed characters -/
def pyFloatAscii (t : Str) : FloatRes :=
  let s1 := t.dropWhile isAsciiSpace
  if s1.isEmpty then .valueError
  else
    match removeUnderscores 0 (dropTrailingSpace s1) with
    | none => .valueError
    | some u =>
      match parseDecimal u with
      | some d => if d.finite then .finite else .nonFinite
      | none => if isInfNan u then .nonFinite else .valueError

/-- `float(s)` for a `str` argument, classified as schema.py needs it -/
def pyFloat (s : Str) : FloatRes := pyFloatAscii (s.map xform)

end AsyncFix.Py
