/-
Models (Mathlib-free, executable, total) of the CPython 3.12 string primitives that
asyncfix/protocol/schema.py delegates to, over code points (`List Nat`):

* character classes: Py_ISSPACE / Py_ISDIGIT (ASCII), Py_UNICODE_ISSPACE, Py_UNICODE_TODECIMAL,
  re `\d` (str patterns: Unicode aware)
* `_PyUnicode_TransformDecimalAndSpaceToASCII` (the first thing int(str) and float(str) do)
* `int(str)` in base 10: PyLong_FromString + long_from_string_base incl. the underscore rules
  and the `sys.get_int_max_str_digits()` limit.

float(str) is in Py/PyFloatLex.lean, datetime.strptime in Py/PyStrptime.lean.
Only the non-ASCII tables are data (Generated/UniTables.lean, compared with the running
interpreter on all code points by harness/c19.py).
-/
import AsyncFix.Generated.UniTables
namespace AsyncFix.Py
open AsyncFix.Generated

/-- a Python `str`: its code points -/
abbrev Str := List Nat

/-! ## character classes -/

/-- Py_ISDIGIT, regex `[0-9]` -/
def isAsciiDigit (c : Nat) : Bool := decide (48 ≤ c) && decide (c ≤ 57)

/-- Py_ISSPACE: space, \t \n \v \f \r -/
def isAsciiSpace (c : Nat) : Bool := c == 32 || (decide (9 ≤ c) && decide (c ≤ 13))

/-- regex `[lo-hi]` on code points -/
def inRange (lo hi c : Nat) : Bool := decide (lo ≤ c) && decide (c ≤ hi)

/-- Py_UNICODE_ISSPACE for a non-ASCII code point -/
def uniSpace (c : Nat) : Bool := UniTables.spaces.contains c

/-- Py_UNICODE_TODECIMAL for a non-ASCII code point (`none` = -1) -/
def uniDecimal? (c : Nat) : Option Nat :=
  UniTables.decimalZeros.findSome? fun z => if z ≤ c ∧ c < z + 10 then some (c - z) else none

/-- re `\d` (Unicode decimal digit, category Nd) with the digit's value; `int()` of one character -/
def pyDecimal? (c : Nat) : Option Nat :=
  if isAsciiDigit c then some (c - 48) else if c < 128 then none else uniDecimal? c

/-- regex class `[A-Za-z0-9]` -/
def isAsciiAlnum (c : Nat) : Bool := isAsciiDigit c || inRange 65 90 c || inRange 97 122 c

/-- one character of `_PyUnicode_TransformDecimalAndSpaceToASCII`: ASCII below DEL is kept, any other
space becomes ' ', any other decimal digit its ASCII digit, everything else '?'.  (CPython stops at
the first '?'; what follows is never looked at because '?' is accepted by no numeric grammar.) -/
def xform (c : Nat) : Nat :=
  if c < 127 then c
  else if uniSpace c then 32
  else match uniDecimal? c with
    | some d => 48 + d
    | none => 63

/-- value of a list of digit VALUES, most significant first -/
def decVal (ds : List Nat) : Nat := ds.foldl (fun a d => 10 * a + d) 0

/-! ## int(str) -/

/-- The digit scan of `long_from_string_base` (base 10): consumes digits and single underscores,
`prev` is the previously consumed character (0 at the start).  `none` = "two underscores in a row" or
"underscore last"; otherwise the digit values and the unconsumed rest. -/
def scanDigits : Nat → Str → Option (List Nat × Str)
  | prev, [] => if prev = 95 then none else some ([], [])
  | prev, c :: cs =>
    if c = 95 then
      if prev = 95 then none else scanDigits 95 cs
    else if isAsciiDigit c then
      match scanDigits c cs with
      | some (ds, r) => some ((c - 48) :: ds, r)
      | none => none
    else if prev = 95 then none
    else some ([], c :: cs)

/-- an optional leading '+' or '-' removed -/
def stripSign : Str → Str
  | 43 :: r => r
  | 45 :: r => r
  | r => r

/-- `PyLong_FromString(str, &end, 10)` on the transformed characters, together with the caller's
`end == buffer + len` test.  `maxDigits` = `sys.get_int_max_str_digits()` (0 = no limit);
640 = `_PY_LONG_MAX_STR_DIGITS_THRESHOLD`.  `none` = ValueError. -/
def pyIntAscii (maxDigits : Nat) (t : Str) : Option Int :=
  let t1 := t.dropWhile isAsciiSpace
  let neg := t1.head? == some 45
  let t2 := stripSign t1
  if t2.head? == some 95 then none        -- "may not start with underscores"
  else
    match scanDigits 0 t2 with
    | none => none
    | some (ds, rest) =>
      if ds.isEmpty then none
      else if decide (640 < ds.length) && decide (0 < maxDigits) && decide (maxDigits < ds.length) then none
      else if (rest.dropWhile isAsciiSpace).isEmpty then
        some (if neg then - (decVal ds : Int) else (decVal ds : Int))
      else none

/-- `int(s)` for a `str` argument, base 10 -/
def pyInt (maxDigits : Nat) (s : Str) : Option Int := pyIntAscii maxDigits (s.map xform)

end AsyncFix.Py
