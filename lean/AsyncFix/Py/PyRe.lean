/-
The `re` patterns schema.py applies to field values (all with `re.fullmatch`, except the
character-class search), as recognisers of their languages.  `fullmatch` succeeds iff SOME way of
matching consumes the whole string, so for these patterns (no back-references, no look-around)
acceptance is membership in the regular language; the functions below decide exactly that.

  reIntLexical    -?[0-9]+
  reFloatLexical  -?([0-9]+\.?[0-9]*|\.[0-9]+)
  reHasNonAlnum   re.search("[^A-Za-z0-9]", value)
  layoutMatch     the pattern built by _validate_value_datetime from the strptime format:
                  re.escape(format) with %Y ↦ [0-9]{4}, %f ↦ ([0-9]{3}|[0-9]{6}), %m %d %H %M %S ↦ [0-9]{2}
-/
import AsyncFix.Py.PyStr
import AsyncFix.Py.PyStrptime
namespace AsyncFix.Py

/-- `[0-9]+` then end -/
def digits1 (s : Str) : Bool := !s.isEmpty && s.all isAsciiDigit

/-- `-?[0-9]+` -/
def reIntLexical : Str → Bool
  | 45 :: r => digits1 r
  | s => digits1 s

/-- `[0-9]+\.?[0-9]*|\.[0-9]+` : the leading digit run `ip`, then nothing, or '.' and digits
(at least one digit somewhere) -/
def reUnsignedFloat (s : Str) : Bool :=
  let ip := s.takeWhile isAsciiDigit
  match s.dropWhile isAsciiDigit with
  | [] => !ip.isEmpty
  | 46 :: fp => fp.all isAsciiDigit && (!ip.isEmpty || !fp.isEmpty)
  | _ => false

/-- `-?([0-9]+\.?[0-9]*|\.[0-9]+)` -/
def reFloatLexical : Str → Bool
  | 45 :: r => reUnsignedFloat r
  | s => reUnsignedFloat s

/-- `re.search(r"[^A-Za-z0-9]", s)` finds something -/
def reHasNonAlnum (s : Str) : Bool := s.any fun c => !isAsciiAlnum c

/-- `[0-9]{n}` at the head: the rest, if it matches -/
def digitsN (n : Nat) (s : Str) : Option Str :=
  if n ≤ s.length ∧ (s.take n).all isAsciiDigit then some (s.drop n) else none

/-- fullmatch of the fixed-width layout derived from a strptime format -/
def layoutMatch : List Dir → Str → Bool
  | [], s => s.isEmpty
  | .Y :: ds, s => match digitsN 4 s with
    | some r => layoutMatch ds r
    | none => false
  | .f :: ds, s =>
    (match digitsN 3 s with
      | some r => layoutMatch ds r
      | none => false) ||
    (match digitsN 6 s with
      | some r => layoutMatch ds r
      | none => false)
  | .lit c :: ds, s => match s with
    | a :: r => a == c && layoutMatch ds r
    | [] => false
  | _ :: ds, s => match digitsN 2 s with      -- %m %d %H %M %S
    | some r => layoutMatch ds r
    | none => false

end AsyncFix.Py
