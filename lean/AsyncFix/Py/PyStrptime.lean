/-
`datetime.datetime.strptime(value, format)` of CPython 3.12 (_strptime.py) for the directives
schema.py uses: %Y %m %d %H %M %S %f and literal characters.

_strptime turns the format into ONE regular expression (TimeRE.pattern), calls `re.match`
(anchored at the start only, leftmost alternative first, backtracking), demands that the match
reaches the end of the data ("unconverted data remains"), converts the groups with `int()` and
builds `datetime_date(year, month, day)` and `datetime(...)`, which validate the calendar.

  %Y (?P<Y>\d\d\d\d)                          %H (?P<H>2[0-3]|[0-1]\d|\d)
  %m (?P<m>1[0-2]|0[1-9]|[1-9])               %M (?P<M>[0-5]\d|\d)
  %d (?P<d>3[0-1]|[1-2]\d|0[1-9]|[1-9]| [1-9]) %S (?P<S>6[0-1]|[0-5]\d|\d)
  %f (?P<f>[0-9]{1,6})                         `\d` = any Unicode decimal digit (str pattern)

The matcher is the list-of-successes semantics of ordered alternatives: `Dir.alts` lists the ways
one directive can match a prefix, in the regex's priority order; `matchSeq` sequences them
depth-first, so its head is what `re.match` returns.
-/
import AsyncFix.Py.PyStr
namespace AsyncFix.Py

inductive Dir
  | Y | m | d | H | M | S | f
  | lit (c : Nat)
  deriving DecidableEq, Repr

/-- a two-character alternative: `p a b` = value if the two characters match -/
def alt2 (p : Nat → Nat → Option Nat) : Str → List (Nat × Str)
  | a :: b :: r => match p a b with
    | some v => [(v, r)]
    | none => []
  | _ => []

/-- a one-character alternative -/
def alt1 (p : Nat → Option Nat) : Str → List (Nat × Str)
  | a :: r => match p a with
    | some v => [(v, r)]
    | none => []
  | [] => []

/-- `x[lo-hi]` with an ASCII first character `x` -/
def fixedThen (x lo hi : Nat) (a b : Nat) : Option Nat :=
  if a = x ∧ inRange lo hi b then some ((a - 48) * 10 + (b - 48)) else none

/-- `[lo-hi]\d` -/
def rangeThenDigit (lo hi : Nat) (a b : Nat) : Option Nat :=
  if inRange lo hi a then (pyDecimal? b).map fun v => (a - 48) * 10 + v else none

/-- `[lo-hi]` (ASCII digits) -/
def oneInRange (lo hi : Nat) (a : Nat) : Option Nat :=
  if inRange lo hi a then some (a - 48) else none

/-- ` [1-9]` : int(" 5") = 5 -/
def spaceThen (a b : Nat) : Option Nat :=
  if a = 32 ∧ inRange 49 57 b then some (b - 48) else none

/-- value of `%f`: the digits right-padded with zeros to six -/
def fracVal (ds : Str) : Nat := decVal (ds.map (· - 48)) * 10 ^ (6 - ds.length)

/-- `[0-9]{n}` as one alternative of the greedy `{1,6}` -/
def fracAlt (n : Nat) (s : Str) : List (Nat × Str) :=
  if n ≤ s.length ∧ (s.take n).all isAsciiDigit then [(fracVal (s.take n), s.drop n)] else []

/-- all matches of one directive at the head of `s`, in priority order: (group value, rest) -/
def Dir.alts : Dir → Str → List (Nat × Str)
  | .Y, c1 :: c2 :: c3 :: c4 :: r =>
    match pyDecimal? c1, pyDecimal? c2, pyDecimal? c3, pyDecimal? c4 with
    | some w, some x, some y, some z => [(1000 * w + 100 * x + 10 * y + z, r)]
    | _, _, _, _ => []
  | .Y, _ => []
  | .m, s => alt2 (fixedThen 49 48 50) s ++ alt2 (fixedThen 48 49 57) s ++ alt1 (oneInRange 49 57) s
  | .d, s => alt2 (fixedThen 51 48 49) s ++ alt2 (rangeThenDigit 49 50) s ++ alt2 (fixedThen 48 49 57) s
               ++ alt1 (oneInRange 49 57) s ++ alt2 spaceThen s
  | .H, s => alt2 (fixedThen 50 48 51) s ++ alt2 (rangeThenDigit 48 49) s ++ alt1 pyDecimal? s
  | .M, s => alt2 (rangeThenDigit 48 53) s ++ alt1 pyDecimal? s
  | .S, s => alt2 (fixedThen 54 48 49) s ++ alt2 (rangeThenDigit 48 53) s ++ alt1 pyDecimal? s
  | .f, s => fracAlt 6 s ++ fracAlt 5 s ++ fracAlt 4 s ++ fracAlt 3 s ++ fracAlt 2 s ++ fracAlt 1 s
  | .lit c, a :: r => if a = c then [(0, r)] else []
  | .lit _, [] => []

/-- all matches of a sequence of directives, depth first (= regex backtracking order):
(group values in format order, unconsumed rest) -/
def matchSeq : List Dir → Str → List (List Nat × Str)
  | [], s => [([], s)]
  | dir :: ds, s => (dir.alts s).flatMap fun vr => (matchSeq ds vr.2).map fun ws => (vr.1 :: ws.1, ws.2)

/-- `format_regex.match(data_string)` -/
def reMatch (fmt : List Dir) (s : Str) : Option (List Nat × Str) := (matchSeq fmt s).head?

/-! ## conversion and calendar checks -/

structure DateTime where
  year : Option Nat := none
  month : Nat := 1
  day : Nat := 1
  hour : Nat := 0
  minute : Nat := 0
  second : Nat := 0
  micro : Nat := 0
  deriving DecidableEq, Repr

/-- the `for group_key in found_dict` loop -/
def assign : List Dir → List Nat → DateTime → DateTime
  | .Y :: ds, v :: vs, t => assign ds vs { t with year := some v }
  | .m :: ds, v :: vs, t => assign ds vs { t with month := v }
  | .d :: ds, v :: vs, t => assign ds vs { t with day := v }
  | .H :: ds, v :: vs, t => assign ds vs { t with hour := v }
  | .M :: ds, v :: vs, t => assign ds vs { t with minute := v }
  | .S :: ds, v :: vs, t => assign ds vs { t with second := v }
  | .f :: ds, v :: vs, t => assign ds vs { t with micro := v }
  | .lit _ :: ds, _ :: vs, t => assign ds vs t
  | _, _, t => t

/-- calendar.isleap -/
def isLeap (y : Nat) : Bool := y % 4 == 0 && (y % 100 != 0 || y % 400 == 0)

/-- datetime._days_in_month -/
def daysInMonth (y m : Nat) : Nat :=
  if m = 2 then (if isLeap y then 29 else 28)
  else if m = 4 ∨ m = 6 ∨ m = 9 ∨ m = 11 then 30 else 31

inductive StrpRes
  | ok (t : DateTime)
  | noMatch            -- ValueError "time data … does not match format …"
  | unconverted        -- ValueError "unconverted data remains"
  | badDate            -- ValueError from datetime_date(year, month, day)
  | badTime            -- ValueError from datetime(...): second must be in 0..59 …
  deriving DecidableEq, Repr

/-- the year `datetime_date` is built with: 1904 for Feb 29 without %Y, else 1900 -/
def DateTime.effYear (t : DateTime) : Nat :=
  match t.year with
  | some y => y
  | none => if t.month = 2 ∧ t.day = 29 then 1904 else 1900

/-- `datetime_date(year, month, day)` raises ValueError -/
def DateTime.dateBad (t : DateTime) : Bool :=
  decide (t.effYear < 1) || decide (9999 < t.effYear) || decide (t.month < 1) || decide (12 < t.month) ||
    decide (t.day < 1) || decide (daysInMonth t.effYear t.month < t.day)

/-- `datetime(…, hour, minute, second, microsecond)` raises ValueError -/
def DateTime.timeBad (t : DateTime) : Bool :=
  decide (23 < t.hour) || decide (59 < t.minute) || decide (59 < t.second) || decide (999999 < t.micro)

/-- `datetime.strptime(s, fmt)`; every non-`ok` outcome is a ValueError -/
def strptime (fmt : List Dir) (s : Str) : StrpRes :=
  match reMatch fmt s with
  | none => .noMatch
  | some (vals, rest) =>
    if !rest.isEmpty then .unconverted
    else
      let t := assign fmt vals {}
      if t.dateBad then .badDate
      else if t.timeBad then .badTime
      else .ok t

end AsyncFix.Py
