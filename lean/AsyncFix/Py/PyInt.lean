/-
Python `int(s)` for a `str` argument and `str(n)` for an `int`, over code points (`List Nat`).
Executable, Mathlib-free, reusable (Container: tag check; Codec: BodyLength / CheckSum / tag parsing).

CPython 3.12, Objects/longobject.c + unicodeobject.c:

  int(s: str)  =  PyLong_FromUnicodeObject(s, 10)
     1. _PyUnicode_TransformDecimalAndSpaceToASCII: every code point < 127 is kept, a non-ASCII
        Py_UNICODE_ISSPACE code point becomes ' ', a non-ASCII decimal digit (category Nd) becomes
        '0'+value, anything else becomes '?' and ENDS the buffer;
     2. PyLong_FromString(buf, &end, 10): skip Py_ISSPACE (space \t \n \v \f \r), one optional sign,
        "leading underscore not allowed", digits with single underscores between digits, "trailing
        underscore not allowed", at least one digit, at most `sys.get_int_max_str_digits()` digits
        (underscores not counted, leading zeros counted), skip Py_ISSPACE, and `end` must be the end
        of the buffer – otherwise ValueError.

The two non-ASCII tables and the digit limit are generated from the running interpreter
(`Generated/PyUnicode.lean`); `harness/c18.py` compares `pyIntOfString` with `int()` on every code
point in four contexts and on all short strings over the critical alphabet.
-/
import AsyncFix.Generated.PyUnicode
import AsyncFix.Py.PyStr
namespace AsyncFix.Py

/-! ## str(int) -/

/-- decimal digits of a natural number, most significant first (`str(n)` for n ≥ 0) -/
def natDigits (n : Nat) : Str :=
  if n < 10 then [48 + n] else natDigits (n / 10) ++ [48 + n % 10]
termination_by n
decreasing_by omega

/-- Python `str(n)` for an `int` -/
def renderInt : Int → Str
  | .ofNat n => natDigits n
  | .negSucc n => 45 :: natDigits (n + 1)

/-! ## int(str) -/

def isDigit (c : Nat) : Bool := 48 ≤ c && c ≤ 57

/-- C-locale `Py_ISSPACE` -/
def isCSpace (c : Nat) : Bool := c == 32 || (9 ≤ c && c ≤ 13)

/-- `Py_UNICODE_TODECIMAL` for a non-ASCII code point, from the generated table of zero digits -/
def decimalValueIn (zeros : List Nat) (c : Nat) : Option Nat :=
  match zeros.find? (fun z => z ≤ c && c < z + 10) with
  | some z => some (c - z)
  | none => none

/-- one character of `_PyUnicode_TransformDecimalAndSpaceToASCII`; `none` = untranslatable -/
def toAsciiWith (spaces zeros : List Nat) (c : Nat) : Option Nat :=
  if c < 127 then some c
  else if spaces.contains c then some 32
  else match decimalValueIn zeros c with
    | some d => some (48 + d)
    | none => none

/-- the transformed buffer: stops after the first untranslatable character, which becomes `?` -/
def transformWith (spaces zeros : List Nat) : Str → Str
  | [] => []
  | c :: cs =>
    match toAsciiWith spaces zeros c with
    | some a => a :: transformWith spaces zeros cs
    | none => [63]

/-- the digit loop of `long_from_string_base`: value so far, number of digits so far, was the previous
character an underscore.  `none` = syntax error; otherwise (value, digits, unread rest). -/
def scanDigitsU (acc nd : Nat) (prevUS : Bool) : Str → Option (Nat × Nat × Str)
  | [] => if prevUS then none else some (acc, nd, [])
  | c :: cs =>
    if isDigit c then scanDigitsU (acc * 10 + (c - 48)) (nd + 1) false cs
    else if c == 95 then (if prevUS then none else scanDigitsU acc nd true cs)
    else if prevUS then none
    else some (acc, nd, c :: cs)

/-- the optional sign -/
def splitSign : Str → Bool × Str
  | 43 :: r => (false, r)
  | 45 :: r => (true, r)
  | r => (false, r)

/-- after the sign: "leading underscore not allowed", the digit loop, at least one digit, the digit
limit (`maxDigits = 0`: none), trailing Py_ISSPACE, and nothing may be left -/
def pyIntUnsigned (maxDigits : Nat) (s : Str) : Option Nat :=
  match s with
  | 95 :: _ => none
  | _ =>
    match scanDigitsU 0 0 false s with
    | none => none
    | some (v, nd, rest) =>
      if nd == 0 then none
      else if maxDigits != 0 && nd > maxDigits then none
      else if !(rest.dropWhile isCSpace).isEmpty then none
      else some v

/-- `PyLong_FromString(buf, &end, 10)` plus the `end == buf + len` test, on the ASCII buffer -/
def pyIntBuf (maxDigits : Nat) (s : Str) : Option Int :=
  let p := splitSign (s.dropWhile isCSpace)
  match pyIntUnsigned maxDigits p.2 with
  | none => none
  | some v => some (if p.1 then -(Int.ofNat v) else Int.ofNat v)

/-- `int(s)` with explicit tables -/
def pyIntWith (spaces zeros : List Nat) (maxDigits : Nat) (s : Str) : Option Int :=
  pyIntBuf maxDigits (transformWith spaces zeros s)

open AsyncFix.Generated.PyUnicode in
/-- Python `int(s)` for `s : str` over code points: `some n`, or `none` for ValueError. -/
def pyIntOfString (s : Str) : Option Int :=
  pyIntWith spaces decimalZeros maxStrDigits s

/-- `int(b)` for `bytes` (bytes-like objects go straight to `PyLong_FromString`, no Unicode tables;
an embedded NUL or a byte ≥ 128 is simply an invalid character) -/
def pyIntOfBytes (b : List Nat) : Option Int :=
  pyIntBuf AsyncFix.Generated.PyUnicode.maxStrDigits b

/-- does `int(s)` succeed -/
def intLike (s : Str) : Bool := (pyIntOfString s).isSome

end AsyncFix.Py
