/-
Specification side of C13 / C08 (definitions only; part of the trusted statements):
the invariant `JInv`, the abstract store `JSpec` of the property text
("a map from (session, direction, sequence number) to message bytes plus two counters per
session"), the abstraction function `abs`, the abstract effect of every call.
-/
import AsyncFix.Model.JournalDB
namespace AsyncFix.Model.Journal

/-- what the table constraints and the rowid / AUTOINCREMENT rules maintain -/
structure JInv (j : Journal) : Prop where
  /-- UNIQUE (targetCompId, senderCompId) -/
  pairUnique : j.sessions.Pairwise fun a b => ¬(a.target = b.target ∧ a.sender = b.sender)
  /-- sessionId INTEGER PRIMARY KEY AUTOINCREMENT: ascending, below the sequence -/
  sidAsc : j.sessions.Pairwise fun a b => a.sid < b.sid
  sidLt : ∀ r ∈ j.sessions, r.sid < j.nextSid
  /-- PRIMARY KEY (seqNo, session, direction) -/
  keyUnique : j.msgs.Pairwise fun a b => ¬(a.seq = b.seq ∧ a.sid = b.sid ∧ a.dir = b.dir)
  /-- rows are held in rowid order -/
  rowidAsc : j.msgs.Pairwise fun a b => a.rowid < b.rowid

/-- the abstract journal of the property text -/
structure JSpec where
  /-- CompID pair ↦ session id -/
  ident : String → String → Option Nat
  /-- session id ↦ (last outbound number, last inbound number); next number = last + 1 -/
  counters : Nat → Option (Int × Int)
  /-- (session key, direction, sequence number) ↦ message bytes -/
  store : Int → Dir → Int → Option Bytes
  nextId : Nat

@[ext] theorem JSpec.ext' {a b : JSpec} (h1 : a.ident = b.ident) (h2 : a.counters = b.counters)
    (h3 : a.store = b.store) (h4 : a.nextId = b.nextId) : a = b := by
  cases a; cases b; simp_all

/-- abstraction function -/
def abs (j : Journal) : JSpec where
  ident t s := (j.sessions.find? (·.isPair t s)).map (·.sid)
  counters id := (j.sessions.find? (·.sid == id)).map fun r => (r.outSeq, r.inSeq)
  store key dir seq := (j.msgs.find? (·.isKey seq key dir)).map (·.msg)
  nextId := j.nextSid

def setCounter (dir : Dir) (n : Int) (c : Int × Int) : Int × Int :=
  match dir with | .outbound => (n, c.2) | .inbound => (c.1, n)

/-- create_or_load on the abstract journal -/
def JSpec.createOrLoad (S : JSpec) (t s : String) : JSpec × Res :=
  match S.ident t s with
  | some id =>
    match S.counters id with
    | some (o, i) => (S, .handle ⟨id, t, s, o + 1, i + 1⟩)
    | none => (S, .raised .stopIteration)
  | none =>
    ({ S with
        ident := fun t' s' => if t' = t ∧ s' = s then some S.nextId else S.ident t' s'
        counters := fun id => if id = S.nextId then some (0, 0) else S.counters id
        nextId := S.nextId + 1 },
     .handle ⟨S.nextId, t, s, 1, 1⟩)

/-- persist_msg on the abstract journal: a number already stored ⇒ duplicate error, nothing changes;
otherwise the bytes are stored under (key, dir, n) and n becomes that direction's last number -/
def JSpec.persist (S : JSpec) (msg : Bytes) (h : Handle) (dir : Dir) : JSpec × Res :=
  match findSeqNo msg with
  | none => (S, .raised .fixMessage)
  | some n =>
    if !(fits n && fits h.key) then (S, .raised .overflow)
    else
      match S.store h.key dir n with
      | some _ => (S, .raised .duplicateSeqNo)
      | none =>
        ({ S with
            store := fun k d m => if k = h.key ∧ d = dir ∧ m = n then some msg else S.store k d m
            counters := fun id => if (id : Int) = h.key then (S.counters id).map (setCounter dir n) else S.counters id },
         .none)

/-- the threshold that applies to a direction -/
def Dir.pick (d : Dir) (o i : Int) : Int := match d with | .outbound => o | .inbound => i

/-- the effect of a *completed* set_seq_num with effective next numbers `o` (out) and `i` (in):
counters become (o-1, i-1), exactly the messages of that session numbered ≥ o (outbound) / ≥ i
(inbound) disappear -/
def JSpec.setNext (S : JSpec) (key o i : Int) : JSpec :=
  { S with
      counters := fun id => if (id : Int) = key then (S.counters id).map (fun _ => (o - 1, i - 1)) else S.counters id
      store := fun k d m =>
        if k = key ∧ d.pick o i ≤ m then none else S.store k d m }

/-- set_seq_num on the abstract journal: an assertion failure, or a number SQLite cannot hold
(OverflowError, rolled back), changes nothing; otherwise `setNext` -/
def JSpec.setSeqNum (S : JSpec) (h : Handle) (out inn : Option Int) : JSpec :=
  if out.any (· ≤ 0) || inn.any (· ≤ 0) then S
  else if !(fits (effIn h inn - 1) && fits (effOut h out - 1) && fits h.key &&
      fits (effIn h inn) && fits (effOut h out)) then S
  else S.setNext h.key (effOut h out) (effIn h inn)

/-- state effect of one call on the abstract journal -/
def JSpec.applyOp (S : JSpec) : Op → JSpec
  | .createOrLoad t s => (S.createOrLoad t s).1
  | .persist msg h dir => (S.persist msg h dir).1
  | .setSeqNum h out inn => S.setSeqNum h out inn
  | _ => S

def JSpec.applyOps (S : JSpec) (ops : List Op) : JSpec := ops.foldl JSpec.applyOp S

/-- the abstract answer to a range query: the stored messages of (key, dir) whose number lies
within the bounds, in ascending number order -/
def JSpec.IsRange (S : JSpec) (key : Int) (dir : Dir) (lo hi : BVal) (ms : List Bytes) : Prop :=
  ∃ seqs : List Int,
    seqs.Pairwise (· < ·) ∧
    (∀ n, n ∈ seqs ↔ (lo.le n = true ∧ hi.ge n = true ∧ (S.store key dir n).isSome)) ∧
    ms = seqs.filterMap (S.store key dir)

/-- no uncommitted change: what the connection sees is what the file holds -/
def Conn.Clean (c : Conn) : Prop := c.working = c.committed

end AsyncFix.Model.Journal
