/-
C03, part 7: streams that are cut off (a connection that ends in the middle of the stream).
`feedAll_good_trunc`: the reads are a chunking of a PREFIX of a good stream, `R` is what never arrived.
Delivered are the first `j` frames, where `j` is fixed by the length of `R`: everything from the junk block
behind frame `j` on is at least as long as `R` (all delivered frames had arrived completely) and, when a
frame is outstanding, what follows that frame is shorter than `R` (its end had not arrived).
-/
import AsyncFix.Lemmas.CodecReaderLoop
namespace AsyncFix.Model.Codec

theorem drop_compose {G : List Bytes} {a b : Nat} {gj gj2 g1 g2 : Bytes} {gsl1 gsl2 : List Bytes}
    (h1 : G.drop a = gj :: gsl1) (hs1 : g1 <:+ gj)
    (h2 : (g1 :: gsl1).drop b = gj2 :: gsl2) (hs2 : g2 <:+ gj2) :
    ∃ gj', G.drop (a + b) = gj' :: gsl2 ∧ g2 <:+ gj' := by
  cases b with
  | zero =>
    simp only [List.drop_zero, List.cons.injEq] at h2
    obtain ⟨rfl, rfl⟩ := h2
    exact ⟨gj, by simpa using h1, hs2.trans hs1⟩
  | succ k =>
    simp only [List.drop_succ_cons] at h2
    refine ⟨gj2, ?_, hs2⟩
    rw [← List.drop_drop, h1, List.drop_succ_cons, h2]

theorem feedAll_good_trunc {bs : Bytes} {tbl : Tbl} (hb : okBegin bs = true) (R : Bytes) :
    ∀ (chunks : List Bytes) (buf : Bytes) (acc : List (Msg × Bytes)) (frames : List Bytes) (g0 : Bytes)
      (gs : List Bytes),
      Good bs tbl (g0 :: gs) frames → buf ++ (chunks.flatten ++ R) = interleave (g0 :: gs) frames →
      Short buf g0 frames →
      ∃ (done left : List Bytes) (g' gj : Bytes) (gsl : List Bytes),
        frames = done ++ left ∧
        (feedAll bs tbl buf chunks acc).2 = acc ++ done.map (fun f => (msgOf bs tbl f, f)) ∧
        Good bs tbl (g' :: gsl) left ∧
        (feedAll bs tbl buf chunks acc).1 ++ R = interleave (g' :: gsl) left ∧
        (g0 :: gs).drop done.length = gj :: gsl ∧ g' <:+ gj ∧
        Short (feedAll bs tbl buf chunks acc).1 g' left := by
  intro chunks
  induction chunks with
  | nil =>
    intro buf acc frames g0 gs hgood hs hshort
    refine ⟨[], frames, g0, g0, gs, rfl, by simp [feedAll], hgood, by simpa [feedAll] using hs, rfl,
      List.suffix_refl _, by simpa [feedAll] using hshort⟩
  | cons c cs ih =>
    intro buf acc frames g0 gs hgood hs hshort
    simp only [List.flatten_cons, List.append_assoc] at hs
    rw [← List.append_assoc] at hs
    obtain ⟨done, left, g', gsl, b', hfr, hrl, hgd, hbr, _, ⟨gj, hdj, hsj⟩, hsh'⟩ :=
      readLoop_good hb frames g0 gs (buf ++ c) (cs.flatten ++ R) [] hgood hs
    obtain ⟨done2, left2, g2, gj2, gsl2, hfr2, hdel2, hgd2, hbr2, hdj2, hsj2, hsh2⟩ :=
      ih b' (acc ++ done.map (fun f => (msgOf bs tbl f, f))) left g' gsl hgd hbr hsh'
    have hfeed : feedAll bs tbl buf (c :: cs) acc =
        feedAll bs tbl b' cs (acc ++ done.map (fun f => (msgOf bs tbl f, f))) := by
      simp only [feedAll, feed, hrl, List.nil_append]
    rw [hfeed]
    obtain ⟨gj', hdj', hsj'⟩ := drop_compose hdj hsj hdj2 hsj2
    refine ⟨done ++ done2, left2, g2, gj', gsl2, by rw [hfr, hfr2, List.append_assoc], ?_, hgd2, hbr2, ?_, hsj', hsh2⟩
    · rw [hdel2, List.map_append, List.append_assoc]
    · rw [List.length_append]; exact hdj'

end AsyncFix.Model.Codec
