import AsyncFix.Lemmas.RestartStep

/-!
Restart family: the crash states of a send.  After any number of segments of `send_msg(m)` (m taking a
new number) either the journal is untouched and nothing was written, or the frame is journaled under
the number the old object held as `next_num_out` and nothing but that frame was written.
-/
set_option linter.unusedSectionVars false

namespace AsyncFix.Restart

open AsyncFix.Session AsyncFix.Generated AsyncFix.Generated.ConnEnum

/-- all outcomes: journal and session object untouched, nothing written -/
structure Quietly (c c' : Conn) (e : List Effect) : Prop where
  journal : c'.journal = c.journal
  sess : c'.sess = c.sess
  hb : c'.hb = c.hb
  nw : ∀ f, Effect.write f ∉ e

instance : Compositional Quietly where
  refl := fun _ => ⟨rfl, rfl, rfl, fun _ h => by cases h⟩
  trans := fun h1 h2 => ⟨h2.journal.trans h1.journal, h2.sess.trans h1.sess, h2.hb.trans h1.hb,
    fun f hf => by
      rcases List.mem_append.mp hf with h | h
      · exact h1.nw f h
      · exact h2.nw f h⟩

theorem Quietly.modify {f : Conn → Conn}
    (h : ∀ c, (f c).sess = c.sess ∧ (f c).journal = c.journal ∧ (f c).hb = c.hb) :
    M.Rel Quietly (M.modify f) :=
  ⟨fun c => by
    simp only [M.modify_apply]
    exact ⟨(h c).2.1, (h c).1, (h c).2.2, fun _ hf => by cases hf⟩⟩

theorem stateSet_quietly (s : Nat) : M.Rel Quietly (stateSet s) := by
  unfold stateSet
  apply M.Rel.bind
  · exact Quietly.modify fun _ => ⟨rfl, rfl, rfl⟩
  · intro _
    exact ⟨fun _ => ⟨rfl, rfl, rfl, fun f hf => by
      simp only [M.emit_apply, List.mem_singleton] at hf; cases hf⟩⟩

theorem sendGate_quietly (m : Msg) : M.Rel Quietly (sendGate m) := by
  unfold sendGate
  rel_tac [stateSet_quietly, Quietly.modify]
  all_goals exact ⟨rfl, rfl, rfl⟩

/-- segment 2 of a send that takes a new number, pointwise -/
theorem sendAlloc_apply (env : Env) (m : Msg) (hnew : ownSeq m = false) (c : Conn) :
    sendAlloc env m c =
      if (m.mtype == mTestRequest && c.testReqId.isNone) = true then ⟨.error .connection, c, []⟩
      else if (!frameLatin1 (buildFrame { c.sess with nextOut := c.sess.nextOut + 1 } env.stamp m c.sess.nextOut)) = true
        then ⟨.error .encoding, { c with sess := { c.sess with nextOut := c.sess.nextOut } }, []⟩
      else ⟨.ok (c.sess.nextOut,
                 buildFrame { c.sess with nextOut := c.sess.nextOut + 1 } env.stamp m c.sess.nextOut),
            { c with sess := { c.sess with nextOut := c.sess.nextOut + 1 } }, []⟩ := by
  unfold ownSeq at hnew
  simp only [Bool.or_eq_false_iff] at hnew
  obtain ⟨h1, h2⟩ := hnew
  simp only [sendAlloc, encodeSeq, h1, h2, M.get_bind_apply, M.ite_apply, M.throw_apply, bind_assoc,
    M.modify_bind_apply, pure_bind, Bool.false_eq_true, if_false, M.pure_apply]

theorem sendAlloc_desc (env : Env) (m : Msg) (hnew : ownSeq m = false) (c : Conn) :
    (sendAlloc env m c).eff = [] ∧ (sendAlloc env m c).conn.journal = c.journal ∧
    (sendAlloc env m c).conn.hb = c.hb ∧
    (sendAlloc env m c).conn.sess.sender = c.sess.sender ∧ (sendAlloc env m c).conn.sess.target = c.sess.target ∧
    ∀ p, (sendAlloc env m c).res = .ok p →
      p.1 = c.sess.nextOut ∧ p.2.get? tMsgSeqNum = some (pyStr p.1) ∧ isNewFrame p.2 = true := by
  rw [sendAlloc_apply env m hnew c]
  split
  · exact ⟨rfl, rfl, rfl, rfl, rfl, fun _ h => by cases h⟩
  · split
    · exact ⟨rfl, rfl, rfl, rfl, rfl, fun _ h => by cases h⟩
    · refine ⟨rfl, rfl, rfl, rfl, rfl, fun p hp => ?_⟩
      cases hp
      refine ⟨rfl, buildFrame_seq _ _ _ _, ?_⟩
      rw [buildFrame_isNew, hnew]; rfl

theorem rows_insert_find' {k : Int} {m : Msg} {rs r : Rows} (h : Rows.insert k m rs = some r) :
    r.find k = some m := rows_insert_find h

theorem persist_out_find {j j' : Journal} {seq : Int} {f : Msg} (h : j.persist .outbound seq f = some j') :
    j'.out.find seq = some f := by
  unfold Journal.persist at h
  simp only [Option.map_eq_some_iff] at h
  obtain ⟨r, hr, hj⟩ := h
  subst hj
  exact rows_insert_find hr

/-- the crash states of a send -/
inductive SendCrashState (c : Conn) (c' : Conn) (e : List Effect) : Prop
  | untouched (hj : c'.journal = c.journal) (hw : ∀ f, Effect.write f ∉ e)
  | journaled (fr : Msg) (hs : fr.get? tMsgSeqNum = some (pyStr c.sess.nextOut)) (hn : isNewFrame fr = true)
      (hp : c.journal.persist .outbound c.sess.nextOut fr = some c'.journal)
      (hw : ∀ f, Effect.write f ∈ e → f = fr)

theorem sendJournal_apply (seq : Int) (fr : Msg) (c : Conn) :
    sendJournal seq fr c = match c.journal.persist .outbound seq fr with
      | none => ⟨.error .duplicateSeqNo, c, []⟩
      | some j => ⟨.ok (), { c with journal := j }, []⟩ := by
  unfold sendJournal
  rw [M.get_bind_apply]
  cases c.journal.persist .outbound seq fr <;> rfl

theorem sendWrite_apply (fr : Msg) (c : Conn) :
    sendWrite fr c = if c.sock then ⟨.ok (), c, [.write fr]⟩ else ⟨.error .attribute, c, []⟩ := by
  unfold sendWrite
  rw [M.get_bind_apply, M.ite_apply]
  cases c.sock <;> rfl


theorem SendCrashState.congr {c c1 c' : Conn} {e1 e2 : List Effect} (hj : c1.journal = c.journal)
    (hs : c1.sess = c.sess) (hw : ∀ f, Effect.write f ∉ e1) (h : SendCrashState c1 c' e2) :
    SendCrashState c c' (e1 ++ e2) := by
  cases h with
  | untouched hj' hw' =>
    exact .untouched (hj'.trans hj) (fun f hf => by
      rcases List.mem_append.mp hf with h | h
      · exact hw f h
      · exact hw' f h)
  | journaled fr hs' hn hp hw' =>
    refine .journaled fr (by rw [← hs]; exact hs') hn (by rw [← hs, ← hj]; exact hp) (fun f hf => ?_)
    rcases List.mem_append.mp hf with h | h
    · exact absurd h (hw f)
    · exact hw' f h

/-- whatever follows the gate: the crash state is judged from the state the gate leaves -/
theorem crash_after_gate {β : Type} (m : Msg) (F : Unit → M β) (c : Conn)
    (hF : ∀ c1, SendCrashState c1 (F () c1).conn (F () c1).eff) :
    SendCrashState c ((sendGate m >>= F) c).conn ((sendGate m >>= F) c).eff := by
  have hq := (sendGate_quietly m).out c
  rcases hg : sendGate m c with ⟨r, c1, e1⟩
  rw [hg] at hq
  cases r with
  | error ex =>
    rw [M.bind_err hg]
    exact .untouched hq.journal hq.nw
  | ok u =>
    rw [M.bind_ok hg]
    exact SendCrashState.congr hq.journal hq.sess hq.nw (hF c1)

/-- segments 2..k of a send (k = 2..5), after the gate -/
def sendAfterGate (k : Nat) (env : Env) (m : Msg) : M SendSt :=
  match k with
  | 0 => pure none
  | 1 => do let p ← sendAlloc env m; pure (some p)
  | 2 => do let p ← sendAlloc env m; sendJournal p.1 p.2; pure (some p)
  | 3 => do let p ← sendAlloc env m; sendJournal p.1 p.2; sendWrite p.2; pure (some p)
  | _ => do let p ← sendAlloc env m; sendJournal p.1 p.2; sendWrite p.2; sendDrain; pure (some p)

theorem sendPrefix_eq (k : Nat) (env : Env) (m : Msg) :
    sendPrefix (k + 1) env m = sendGate m >>= fun _ => sendAfterGate k env m := by
  match k with
  | 0 => simp [sendPrefix, sendSegs, runSegs, sendAfterGate]
  | 1 => simp [sendPrefix, sendSegs, runSegs, sendAfterGate]
  | 2 => simp [sendPrefix, sendSegs, runSegs, sendAfterGate]
  | 3 => simp [sendPrefix, sendSegs, runSegs, sendAfterGate]
  | k + 4 =>
    have : (sendSegs env m).take (k + 4 + 1) = sendSegs env m := by
      apply List.take_of_length_le; simp [sendSegs]
    rw [sendPrefix, this]
    simp [sendSegs, runSegs, sendAfterGate]

theorem sendAfterGate_crash (k : Nat) (env : Env) (m : Msg) (hnew : ownSeq m = false) (c : Conn) :
    SendCrashState c (sendAfterGate k env m c).conn (sendAfterGate k env m c).eff := by
  by_cases hg : (m.mtype == mTestRequest && c.testReqId.isNone) = true
  · have ha : sendAlloc env m c = ⟨.error .connection, c, []⟩ := by
      rw [sendAlloc_apply env m hnew, if_pos hg]
    match k with
    | 0 => exact .untouched rfl (fun _ h => by cases h)
    | 1 | 2 | 3 | k + 4 =>
      simp only [sendAfterGate]; rw [M.bind_err ha]; exact .untouched rfl (fun _ h => by cases h)
  by_cases hl : (!frameLatin1 (buildFrame { c.sess with nextOut := c.sess.nextOut + 1 } env.stamp m
      c.sess.nextOut)) = true
  · have ha : sendAlloc env m c =
        ⟨.error .encoding, { c with sess := { c.sess with nextOut := c.sess.nextOut } }, []⟩ := by
      rw [sendAlloc_apply env m hnew, if_neg hg, if_pos hl]
    match k with
    | 0 => exact .untouched rfl (fun _ h => by cases h)
    | 1 | 2 | 3 | k + 4 =>
      simp only [sendAfterGate]; rw [M.bind_err ha]; exact .untouched rfl (fun _ h => by cases h)
  generalize hfr : buildFrame { c.sess with nextOut := c.sess.nextOut + 1 } env.stamp m c.sess.nextOut = fr
    at hl
  have ha : sendAlloc env m c =
      ⟨.ok (c.sess.nextOut, fr), { c with sess := { c.sess with nextOut := c.sess.nextOut + 1 } }, []⟩ := by
    rw [sendAlloc_apply env m hnew, if_neg hg, hfr, if_neg hl]
  have hseq : fr.get? tMsgSeqNum = some (pyStr c.sess.nextOut) := by rw [← hfr]; exact buildFrame_seq _ _ _ _
  have hnf : isNewFrame fr = true := by rw [← hfr, buildFrame_isNew, hnew]; rfl
  match k with
  | 0 => exact .untouched rfl (fun _ h => by cases h)
  | 1 =>
    simp only [sendAfterGate]; rw [M.bind_ok ha]
    exact .untouched rfl (fun _ h => by simp at h)
  | k + 2 =>
    cases hj : c.journal.persist .outbound c.sess.nextOut fr with
    | none =>
      have hjn : sendJournal c.sess.nextOut fr
          { c with sess := { c.sess with nextOut := c.sess.nextOut + 1 } } =
          ⟨.error .duplicateSeqNo, { c with sess := { c.sess with nextOut := c.sess.nextOut + 1 } }, []⟩ := by
        rw [sendJournal_apply]; simp only [hj]
      match k with
      | 0 | 1 | k + 2 =>
        simp only [sendAfterGate]; rw [M.bind_ok ha, M.bind_err hjn]
        exact .untouched rfl (fun _ h => by simp at h)
    | some j =>
      have hjs : sendJournal c.sess.nextOut fr
          { c with sess := { c.sess with nextOut := c.sess.nextOut + 1 } } =
          ⟨.ok (), { c with sess := { c.sess with nextOut := c.sess.nextOut + 1 }, journal := j }, []⟩ := by
        rw [sendJournal_apply]; simp only [hj]
      match k with
      | 0 =>
        simp only [sendAfterGate]; rw [M.bind_ok ha, M.bind_ok hjs]
        exact .journaled fr hseq hnf hj (fun _ h => by simp at h)
      | k + 1 =>
        by_cases hsock : c.sock = true
        · have hw : sendWrite fr
              { c with sess := { c.sess with nextOut := c.sess.nextOut + 1 }, journal := j } =
              ⟨.ok (), { c with sess := { c.sess with nextOut := c.sess.nextOut + 1 }, journal := j },
                [.write fr]⟩ := by
            rw [sendWrite_apply]; simp only [hsock, if_true]
          match k with
          | 0 | k + 1 =>
            simp only [sendAfterGate, sendDrain]; rw [M.bind_ok ha, M.bind_ok hjs, M.bind_ok hw]
            exact .journaled fr hseq hnf hj (fun f h => by simpa using h)
        · have hw : sendWrite fr
              { c with sess := { c.sess with nextOut := c.sess.nextOut + 1 }, journal := j } =
              ⟨.error .attribute, { c with sess := { c.sess with nextOut := c.sess.nextOut + 1 }, journal := j },
                []⟩ := by
            rw [sendWrite_apply]; simp only [hsock, Bool.false_eq_true, if_false]
          match k with
          | 0 | k + 1 =>
            simp only [sendAfterGate]; rw [M.bind_ok ha, M.bind_ok hjs, M.bind_err hw]
            exact .journaled fr hseq hnf hj (fun f h => by simp at h)

/-- every crash point of a send that takes a new number -/
theorem sendPrefix_crash (k : Nat) (env : Env) (m : Msg) (hnew : ownSeq m = false) (c : Conn) :
    SendCrashState c (sendPrefix k env m c).conn (sendPrefix k env m c).eff := by
  match k with
  | 0 => exact .untouched rfl (fun _ h => by cases h)
  | k + 1 =>
    rw [sendPrefix_eq]
    exact crash_after_gate m _ c (fun c1 => sendAfterGate_crash k env m hnew c1)

end AsyncFix.Restart
