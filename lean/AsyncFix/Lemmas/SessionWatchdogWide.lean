import AsyncFix.Lemmas.SessionWatchdogLive

/-!
C12 helper lemmas, part 8: inbound frames numbered TOO HIGH (a sequence gap) on a logged-on connection.
They are not accepted (no `_finalize_message`, no receive-time stamp) but they are dispatched: a Heartbeat
still answers the outstanding TestRequest, a TestRequest is still answered; outside RESENDREQ_AWAITING
they make the connection ask for a resend.
-/
namespace AsyncFix.Session.Watchdog

open AsyncFix.Generated AsyncFix.Generated.ConnEnum

/-- integrity-valid frame of a routine type carrying a number ABOVE the expected one -/
structure GapFrame (c : Conn) (m : Msg) : Prop where
  begin : m.get? tBeginString = some Proto.beginString
  sender : m.get? tSenderCompID = some c.sess.target
  target : m.get? tTargetCompID = some c.sess.sender
  seq : ∃ n, (m.get? tMsgSeqNum).bind pyInt = some n ∧ c.sess.nextIn < n
  pos : 0 < c.sess.nextIn
  routine : Routine m
  rightId : m.mtype = mHeartbeat → ∀ tid v, c.testReqId = some tid → m.get? tTestReqID = some v →
    (pyInt v).getD 0 = tid

theorem GapFrame.seqv {c : Conn} {m : Msg} (h : GapFrame c m) :
    ∃ v n, m.get? tMsgSeqNum = some v ∧ pyInt v = some n ∧ c.sess.nextIn < n := by
  obtain ⟨n, hn, hlt⟩ := h.seq
  obtain ⟨v, hv, hp⟩ := bind_pyInt hn
  exact ⟨v, n, hv, hp, hlt⟩

theorem validateIntegrity_gap (c : Conn) (m : Msg) (h : GapFrame c m) :
    validateIntegrity m c = ⟨.ok .good, c, []⟩ := by
  obtain ⟨v, n, hv, hn, hlt⟩ := h.seqv
  have hnl : ¬ (n < c.sess.nextIn) := by omega
  simp [validateIntegrity, get_of_get? h.begin, get_of_get? h.sender, get_of_get? h.target, get_of_get? hv,
    has_of_get? h.sender, has_of_get? h.target, has_of_get? hv, hn, hnl]

/-- the ResendRequest `_check_seqnum_gaps` sends -/
def resendReqMsg (c : Conn) : Msg := Msg.mk' mResendRequest [(tBeginSeqNo, pyStr c.sess.nextIn), (tEndSeqNo, "0")]

theorem resendReqMsg_plain (c : Conn) : Plain (resendReqMsg c) := by
  constructor
  · simp [resendReqMsg, Msg.mk', mResendRequest, mSequenceReset]
  · simp [resendReqMsg, Msg.mk', Msg.get?, Msg.lookup, tBeginSeqNo, tEndSeqNo, tPossDupFlag]

/-- dispatch of a routine frame that is NOT accepted (`is_valid_msg_num = False`), swallowed: Heartbeat and
TestRequest are handled as always, an application message is skipped; the connection stays logged on in the
same state, `lastTime` untouched. -/
theorem dispatch_unaccepted (env : Env) (sr : Msg → Bool) (h : Int) (c : Conn) (m : Msg) (n : Int) (ho : On h c)
    (hr : Routine m)
    (hid : m.mtype = mHeartbeat → ∀ tid v, c.testReqId = some tid → m.get? tTestReqID = some v →
      (pyInt v).getD 0 = tid) :
    ∃ c3 e3, swallow () (processDispatch env sr m false n) c = ⟨.ok (), c3, e3⟩ ∧ On h c3 ∧
      c3.state = c.state ∧ c3.lastTime = c.lastTime ∧ c3.sess.nextIn = c.sess.nextIn ∧
      c3.testReqId = (if echoes c m then none else c.testReqId) ∧ NoDisc e3 ∧
      (∀ f ∈ writes e3, f.mtype = mHeartbeat) := by
  by_cases hm : m.mtype = mHeartbeat
  · have hdh := dispatch_heartbeat env sr c m n hm false
    cases ht : c.testReqId with
    | none =>
      rw [ht] at hdh
      exact ⟨c, [], swallow_ok hdh, ho, rfl, rfl, rfl, by simp [echoes, ht], NoDisc.nil, by simp [writes]⟩
    | some tid =>
      cases hv : m.get? tTestReqID with
      | none =>
        rw [ht, hv] at hdh
        exact ⟨c, [], swallow_ok hdh, ho, rfl, rfl, rfl, by simp [echoes, hv, ht], NoDisc.nil, by simp [writes]⟩
      | some v =>
        rw [ht, hv] at hdh
        have he : tid = (pyInt v).getD 0 := (hid hm tid v ht hv).symm
        simp only [he, if_true] at hdh
        exact ⟨_, [], swallow_ok hdh, ⟨ho.state, ho.sock, ho.hb, ho.watermark⟩, rfl, rfl, rfl,
          by simp [echoes, hm, hv, ht], NoDisc.nil, by simp [writes]⟩
  · have hne : (m.mtype == mHeartbeat) = false := by simpa using hm
    have hech : echoes c m = false := by simp [echoes, hne]
    rw [hech]
    by_cases hq : m.mtype = mTestRequest
    · have hsend := sendMsg_on env c (echoMsg m) ho.state ho.sock (echoMsg_plain m)
        (by simp [echoMsg, Msg.mk', mHeartbeat, mTestRequest])
      rw [← dispatch_testrequest env sr c m n hq false] at hsend
      cases hl : frameLatin1 (frameOf env c (echoMsg m))
      · rw [hl] at hsend
        simp only [if_true] at hsend
        exact ⟨c, _, swallow_err hsend, ho, rfl, rfl, rfl, by simp, by simp [NoDisc, isDisc], by simp [writes]⟩
      · rw [hl] at hsend
        simp only [Bool.true_eq_false, if_false] at hsend
        cases hj : c.journal.persist Dir.outbound c.sess.nextOut (frameOf env c (echoMsg m))
        · rw [hj] at hsend
          exact ⟨burnt c, _, swallow_err hsend, ⟨ho.state, ho.sock, ho.hb, ho.watermark⟩, rfl, rfl, rfl, by simp [burnt],
            by simp [NoDisc, isDisc], by simp [writes]⟩
        · rw [hj] at hsend
          exact ⟨sent c _, _, swallow_ok hsend, ⟨ho.state, ho.sock, ho.hb, ho.watermark⟩, rfl, rfl, rfl, by simp [sent],
            by simp [NoDisc, isDisc], by simp [writes, frameOf_mtype, echoMsg, Msg.mk']⟩
    · have hq' : (m.mtype == mTestRequest) = false := by simpa using hq
      obtain ⟨r1, r2, _, r4⟩ := hr
      have hd : processDispatch env sr m false n c = ⟨.ok (), c, []⟩ := by
        simp [processDispatch, r1, r2, r4, hq', hne]
      exact ⟨c, [], swallow_ok hd, ho, rfl, rfl, rfl, by simp, NoDisc.nil, by simp [writes]⟩

/-- `_check_seqnum_gaps` for a number above the expected one, logged on: in RESENDREQ_AWAITING nothing; otherwise
the watermark is recorded and a ResendRequest goes out (state RESENDREQ_AWAITING) – or the send raises. -/
theorem checkSeqnumGaps_high (env : Env) (c : Conn) (n : Int) (h8 : 8 ≤ c.state) (hs : c.sock = true)
    (hlt : c.sess.nextIn < n) :
    checkSeqnumGaps env n c =
      if c.state = st_RESENDREQ_AWAITING then ⟨.ok false, c, []⟩
      else if frameLatin1 (frameOf env { c with maxResend := n } (resendReqMsg c)) = false then
        ⟨.error .encoding, { c with maxResend := n }, []⟩
      else match c.journal.persist .outbound c.sess.nextOut (frameOf env { c with maxResend := n } (resendReqMsg c)) with
        | none => ⟨.error .duplicateSeqNo, burnt { c with maxResend := n }, []⟩
        | some j => ⟨.ok false, { sent { c with maxResend := n } j with state := st_RESENDREQ_AWAITING },
                     [.write (frameOf env { c with maxResend := n } (resendReqMsg c)), .onState st_RESENDREQ_AWAITING]⟩ := by
  have hgt : n > c.sess.nextIn := hlt
  by_cases hw : c.state = st_RESENDREQ_AWAITING
  · simp [checkSeqnumGaps, hgt, hw]
  · have hsend := sendMsg_on env { c with maxResend := n } (resendReqMsg c) h8 hs (resendReqMsg_plain c)
      (by simp [resendReqMsg, Msg.mk', mResendRequest, mTestRequest])
    have hne : (c.state != st_RESENDREQ_AWAITING) = true := by simpa [bne] using hw
    simp only [checkSeqnumGaps, get_bind, hgt, if_true, hne, modify_bind, if_neg hw]
    show ((sendMsg env (resendReqMsg c) >>= fun _ => stateSet st_RESENDREQ_AWAITING >>= fun _ => pure false)
      { c with maxResend := n }) = _
    cases hl : frameLatin1 (frameOf env { c with maxResend := n } (resendReqMsg c))
    · rw [hl] at hsend
      simp only [if_true] at hsend
      rw [bind_err hsend]; simp
    · rw [hl] at hsend
      simp only [Bool.true_eq_false, if_false] at hsend
      cases hj : c.journal.persist Dir.outbound c.sess.nextOut (frameOf env { c with maxResend := n } (resendReqMsg c))
      · rw [show ({ c with maxResend := n } : Conn).journal = c.journal from rfl,
          show ({ c with maxResend := n } : Conn).sess = c.sess from rfl, hj] at hsend
        rw [bind_err hsend]; simp
      · rw [show ({ c with maxResend := n } : Conn).journal = c.journal from rfl,
          show ({ c with maxResend := n } : Conn).sess = c.sess from rfl, hj] at hsend
        rw [bind_ok hsend]
        simp [stateSet, sent, st_RESENDREQ_AWAITING, st_ACTIVE]

theorem processHead_numbered (env : Env) (c : Conn) (m : Msg) (v : String) (n : Int) (h8 : 8 ≤ c.state)
    (hr : Headable m) (hv : m.get? tMsgSeqNum = some v) (hn : pyInt v = some n) :
    processHead env m c = (checkSeqnumGaps env n >>= fun valid => pure (some (valid, n))) c := by
  obtain ⟨r1, r2, r3⟩ := hr
  have g6 : 6 ≤ c.state := by omega
  have n6 : ¬ (c.state = 6) := by omega
  have n7 : ¬ (c.state = 7) := by omega
  have n3 : ¬ (c.state ≤ 3) := by omega
  simp [processHead, r1, r2, r3, get_of_get? hv, int_of hn,
    st_NETWORK_CONN_ESTABLISHED, st_LOGON_INITIAL_SENT, st_DISCONNECTED_BROKEN_CONN, g6, n6, n7, n3]

/-- a too-high routine frame whose head went through (resend awaited already, or the ResendRequest was sent),
leaving `c2`: the frame is dispatched on `c2` and not finalised; an echo clears the outstanding id. -/
theorem recv_gap_via (sr : Msg → Bool) (env : Env) (h : Int) (c c2 : Conn) (m : Msg) (n : Int) (e2 : List Effect)
    (hg : GapFrame c m) (ho2 : On h c2) (hl2 : c2.lastTime = c.lastTime) (ht2 : c2.testReqId = c.testReqId)
    (hh : swallow none (processHead env m) c = ⟨.ok (some (false, n)), c2, e2⟩) :
    ∃ e3, (recv sr env c m).2 = e2 ++ e3 ∧ NoDisc e3 ∧ (∀ f ∈ writes e3, f.mtype = mHeartbeat) ∧
      On h (recv sr env c m).1 ∧ (recv sr env c m).1.state = c2.state ∧ (recv sr env c m).1.lastTime = c.lastTime ∧
      (recv sr env c m).1.testReqId = (if echoes c m then none else c.testReqId) := by
  obtain ⟨c3, e3, hd, ho3, hs3, hl3, _, ht3, hn3, hw3⟩ :=
    dispatch_unaccepted env sr h c2 m n ho2 hg.routine (by rw [ht2]; exact hg.rightId)
  have hpm : processMessage env sr m c = ⟨.ok (), c3, e2 ++ e3⟩ := by
    unfold processMessage
    rw [bind_ok (validateIntegrity_gap c m hg), pre_nil]
    simp only []
    rw [bind_ok hh]
    simp only []
    rw [bind_ok hd]
    simp
  have hrecv : recv sr env c m = (c3, e2 ++ e3) := by
    unfold recv M.run; rw [hpm]
  rw [hrecv]
  have hech : echoes c2 m = echoes c m := by unfold echoes; rw [ht2]
  exact ⟨e3, rfl, hn3, hw3, ho3, hs3, hl3.trans hl2, by rw [ht3, hech, ht2]⟩

/-- a too-high routine frame on a logged-on connection, all in all: still logged on – the state may become
RESENDREQ_AWAITING –, `lastTime` and the expected number untouched (the frame is NOT accepted), the
outstanding id cleared exactly by an echo, nothing torn down; frames written: a ResendRequest and / or the
Heartbeat answering a TestRequest. -/
theorem recv_gap_on (sr : Msg → Bool) (env : Env) (h : Int) (c : Conn) (m : Msg) (ho : On h c)
    (hg : GapFrame c m) :
    On h (recv sr env c m).1 ∧ (recv sr env c m).1.lastTime = c.lastTime ∧
    ((recv sr env c m).1.testReqId = c.testReqId ∨ (recv sr env c m).1.testReqId = none) ∧
    NoDisc (recv sr env c m).2 ∧
    (∀ f ∈ writes (recv sr env c m).2, f.mtype = mHeartbeat ∨ f.mtype = mResendRequest) := by
  obtain ⟨v, n, hv, hn, hlt⟩ := hg.seqv
  have h8 := ho.state
  have hpos := hg.pos
  have hhead := processHead_numbered env c m v n h8 hg.routine.headable hv hn
  have hck := checkSeqnumGaps_high env c n h8 ho.sock hlt
  -- the three ways the head can end
  have key : ∀ (c2 : Conn) (e2 : List Effect), On h c2 → c2.lastTime = c.lastTime → c2.testReqId = c.testReqId →
      NoDisc e2 → (∀ f ∈ writes e2, f.mtype = mResendRequest) →
      swallow none (processHead env m) c = ⟨.ok (some (false, n)), c2, e2⟩ →
      On h (recv sr env c m).1 ∧ (recv sr env c m).1.lastTime = c.lastTime ∧
      ((recv sr env c m).1.testReqId = c.testReqId ∨ (recv sr env c m).1.testReqId = none) ∧
      NoDisc (recv sr env c m).2 ∧
      (∀ f ∈ writes (recv sr env c m).2, f.mtype = mHeartbeat ∨ f.mtype = mResendRequest) := by
    intro c2 e2 ho2 hl2 ht2 hn2 hw2 hh
    obtain ⟨e3, he, hn3, hw3, ho3, _, hl3, ht3⟩ := recv_gap_via sr env h c c2 m n e2 hg ho2 hl2 ht2 hh
    refine ⟨ho3, hl3, ?_, by rw [he]; exact hn2.append hn3, ?_⟩
    · rw [ht3]; split
      · exact Or.inr rfl
      · exact Or.inl rfl
    · intro f hf
      rw [he, writes_append] at hf
      rcases List.mem_append.mp hf with h' | h'
      · exact Or.inr (hw2 f h')
      · exact Or.inl (hw3 f h')
  have stop : ∀ (c2 : Conn) (e2 : List Effect), On h c2 → c2.lastTime = c.lastTime → c2.testReqId = c.testReqId →
      NoDisc e2 → writes e2 = [] →
      swallow none (processHead env m) c = ⟨.ok none, c2, e2⟩ →
      On h (recv sr env c m).1 ∧ (recv sr env c m).1.lastTime = c.lastTime ∧
      ((recv sr env c m).1.testReqId = c.testReqId ∨ (recv sr env c m).1.testReqId = none) ∧
      NoDisc (recv sr env c m).2 ∧
      (∀ f ∈ writes (recv sr env c m).2, f.mtype = mHeartbeat ∨ f.mtype = mResendRequest) := by
    intro c2 e2 ho2 hl2 ht2 hn2 hw2 hh
    have hpm : processMessage env sr m c = ⟨.ok (), c2, e2⟩ := by
      unfold processMessage
      rw [bind_ok (validateIntegrity_gap c m hg), pre_nil]
      simp only []
      rw [bind_ok hh]
      simp
    have hrecv : recv sr env c m = (c2, e2) := by
      unfold recv M.run; rw [hpm]
    rw [hrecv]
    exact ⟨ho2, hl2, Or.inl ht2, hn2, by simp [hw2]⟩
  by_cases hw : c.state = st_RESENDREQ_AWAITING
  · rw [if_pos hw] at hck
    have hh : processHead env m c = ⟨.ok (some (false, n)), c, []⟩ := by rw [hhead, bind_ok hck]; rfl
    exact key c [] ho rfl rfl NoDisc.nil (by simp [writes]) (swallow_ok hh)
  · rw [if_neg hw] at hck
    cases hl : frameLatin1 (frameOf env { c with maxResend := n } (resendReqMsg c))
    · rw [hl] at hck
      simp only [if_true] at hck
      have hh : processHead env m c = ⟨.error .encoding, { c with maxResend := n }, []⟩ := by
        rw [hhead, bind_err hck]
      exact stop { c with maxResend := n } [.caught .encoding] ⟨ho.state, ho.sock, ho.hb, fun hq => absurd hq hw⟩
        rfl rfl (by simp [NoDisc, isDisc]) (by simp [writes]) (swallow_err hh)
    · rw [hl] at hck
      simp only [Bool.true_eq_false, if_false] at hck
      cases hj : c.journal.persist Dir.outbound c.sess.nextOut (frameOf env { c with maxResend := n } (resendReqMsg c))
      · rw [hj] at hck
        have hh : processHead env m c = ⟨.error .duplicateSeqNo, burnt { c with maxResend := n }, []⟩ := by
          rw [hhead, bind_err hck]
        exact stop (burnt { c with maxResend := n }) [.caught .duplicateSeqNo]
          ⟨ho.state, ho.sock, ho.hb, fun hq => absurd hq hw⟩ rfl rfl (by simp [NoDisc, isDisc])
          (by simp [writes]) (swallow_err hh)
      · rw [hj] at hck
        have hh := bind_ok (f := fun valid => (pure (some (valid, n)) : M (Option (Bool × Int)))) hck
        rw [← hhead] at hh
        refine key { sent { c with maxResend := n } _ with state := st_RESENDREQ_AWAITING }
          [.write (frameOf env { c with maxResend := n } (resendReqMsg c)), .onState st_RESENDREQ_AWAITING]
          ⟨(by show 8 ≤ st_RESENDREQ_AWAITING; decide), ho.sock, ho.hb, fun _ => ?_⟩ rfl rfl (by simp [NoDisc, isDisc])
          (by simp [writes, frameOf_mtype, resendReqMsg, Msg.mk']) (swallow_ok hh)
        show 0 < n
        omega

end AsyncFix.Session.Watchdog
