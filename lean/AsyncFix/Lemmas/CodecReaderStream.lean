/-
C03, part 5: stream descriptions (`interleave`, `Good`), unfolding of `readLoop`, and small
list facts used by the invariant.
-/
import AsyncFix.Lemmas.CodecReaderCtx
import AsyncFix.Model.Codec.Reader
namespace AsyncFix.Model.Codec

/-- `g0 f1 g1 f2 … fn gn` -/
def interleave : List Bytes → List Bytes → Bytes
  | [], _ => []
  | g :: _, [] => g
  | g :: gs, f :: fs => g ++ (f ++ interleave gs fs)

theorem interleave_head (g : Bytes) (l fr : List Bytes) :
    interleave (g :: l) fr = g ++ interleave ([] :: l) fr := by
  cases fr <;> simp [interleave]

/-- the message `decode` returns on the frame alone -/
def msgOf (bs : Bytes) (tbl : Tbl) (f : Bytes) : Msg :=
  match decode bs tbl f with
  | .msg m _ _ => m
  | _ => default

/-- a stream description: valid, individually decodable frames separated by marker-free blocks -/
structure Good (bs : Bytes) (tbl : Tbl) (gs frames : List Bytes) : Prop where
  hv : ∀ f ∈ frames, WFFrame bs f ∧ ∃ m, decode bs tbl f = .msg m f.length f
  hg : ∀ g ∈ gs, NoMarker g
  hlen : gs.length = frames.length + 1

def lastG (l : List Bytes) : Bytes := l.getLast?.getD []

/-- what is left in the buffer is short: a proper marker prefix when no frame is outstanding,
otherwise less than the junk and the next frame -/
def Short (b g : Bytes) : List Bytes → Prop
  | [] => ∃ k, k < 6 ∧ b = marker.take k
  | f :: _ => b.length < g.length + f.length

theorem readLoop_none {bs : Bytes} {tbl : Tbl} {buf : Bytes} {acc : List (Msg × Bytes)} {n : Nat}
    (h : decode bs tbl buf = .none n) :
    readLoop bs tbl buf acc = { buf := buf.drop n, delivered := acc } := by
  rw [readLoop, h]

theorem readLoop_msg {bs : Bytes} {tbl : Tbl} {buf : Bytes} {acc : List (Msg × Bytes)} {n : Nat}
    {m : Msg} {raw : Bytes} (h : decode bs tbl buf = .msg m n raw) (hn : 0 < n ∧ n ≤ buf.length) :
    readLoop bs tbl buf acc = readLoop bs tbl (buf.drop n) (acc ++ [(m, raw)]) := by
  rw [readLoop, h]
  simp only [hn, and_self, dite_true]

/-- marker-free buffer: only a proper marker prefix survives -/
theorem readLoop_junk {bs : Bytes} {tbl : Tbl} {x : Bytes} {acc : List (Msg × Bytes)} (hx : NoMarker x) :
    ∃ k, k ≤ 5 ∧ k ≤ x.length ∧ k = partialMarkerKeep x ∧ x.drop (x.length - k) = marker.take k ∧
      readLoop bs tbl x acc = { buf := x.drop (x.length - k), delivered := acc } := by
  obtain ⟨h1, h2, h3⟩ := pmk_spec x
  exact ⟨_, h1, h2, rfl, h3, readLoop_none (decode_junk hx)⟩



theorem Good.tail {bs : Bytes} {tbl : Tbl} {g0 g1 f : Bytes} {gs fs : List Bytes}
    (h : Good bs tbl (g0 :: g1 :: gs) (f :: fs)) : Good bs tbl (g1 :: gs) fs :=
  ⟨fun x hx => h.hv x (List.mem_cons_of_mem _ hx), fun x hx => h.hg x (List.mem_cons_of_mem _ hx),
    by have := h.hlen; simp only [List.length_cons] at this ⊢; omega⟩

theorem Good.newHead {bs : Bytes} {tbl : Tbl} {g0 g' : Bytes} {gs fs : List Bytes}
    (h : Good bs tbl (g0 :: gs) fs) (hg' : NoMarker g') : Good bs tbl (g' :: gs) fs :=
  ⟨h.hv, fun x hx => by
      rcases List.mem_cons.1 hx with rfl | hx
      · exact hg'
      · exact h.hg x (List.mem_cons_of_mem _ hx),
    by have := h.hlen; simp only [List.length_cons] at this ⊢; omega⟩

theorem split_at_le {X R A B : Bytes} (h : X ++ R = A ++ B) (hl : A.length ≤ X.length) :
    X = A ++ X.drop A.length ∧ X.drop A.length ++ R = B := by
  have h1 : (X ++ R).take A.length = A := by rw [h, List.take_left]
  rw [List.take_append_of_le_length hl] at h1
  have h2 : (X ++ R).drop A.length = B := by rw [h, List.drop_left]
  rw [List.drop_append_of_le_length hl] at h2
  refine ⟨?_, h2⟩
  conv => lhs; rw [← List.take_append_drop A.length X, h1]

theorem msgOf_eq {bs : Bytes} {tbl : Tbl} {f : Bytes} {m : Msg} {n : Nat} {raw : Bytes}
    (h : decode bs tbl f = .msg m n raw) : msgOf bs tbl f = m := by
  simp only [msgOf, h]

theorem lastG_cons_cons (a b : Bytes) (l : List Bytes) : lastG (a :: b :: l) = lastG (b :: l) := by
  simp [lastG, List.getLast?_cons_cons]

end AsyncFix.Model.Codec
