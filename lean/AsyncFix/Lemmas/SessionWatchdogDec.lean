import AsyncFix.Lemmas.SessionWatchdogLive2

/-!
C12 helper lemmas, part 7: Boolean checkers for the history predicates (`Benign`, `Answered`, `Live`,
`BenignRun`) with soundness lemmas, so that concrete histories (non-vacuity examples, counter-examples)
can be discharged by kernel evaluation.
-/
namespace AsyncFix.Session.Watchdog

open AsyncFix.Generated AsyncFix.Generated.ConnEnum

def inSeqB (c : Conn) (m : Msg) : Bool :=
  m.get? tBeginString == some Proto.beginString && m.get? tSenderCompID == some c.sess.target &&
  m.get? tTargetCompID == some c.sess.sender && (m.get? tMsgSeqNum).bind pyInt == some c.sess.nextIn &&
  decide (0 < c.sess.nextIn)

theorem inSeqB_sound {c : Conn} {m : Msg} (h : inSeqB c m = true) : InSeq c m := by
  simp only [inSeqB, Bool.and_eq_true, beq_iff_eq, decide_eq_true_eq] at h
  obtain ⟨⟨⟨⟨h1, h2⟩, h3⟩, h4⟩, h5⟩ := h
  exact ⟨h1, h2, h3, h4, h5⟩

def routineB (m : Msg) : Bool :=
  !(m.mtype == mLogon) && !(m.mtype == mSequenceReset) && !(m.mtype == mLogout) && !(m.mtype == mResendRequest)

theorem routineB_sound {m : Msg} (h : routineB m = true) : Routine m := by
  simp only [routineB, Bool.and_eq_true, Bool.not_eq_true'] at h
  obtain ⟨⟨⟨h1, h2⟩, h3⟩, h4⟩ := h
  exact ⟨h1, h2, h3, h4⟩

def rightIdB (c : Conn) (m : Msg) : Bool :=
  match c.testReqId, m.get? tTestReqID with
  | some tid, some v => (pyInt v).getD 0 == tid
  | _, _ => true

def ignoredResendB (c : Conn) (m : Msg) : Bool :=
  m.mtype == mResendRequest &&
    match (m.get? tBeginSeqNo).bind pyInt, (m.get? tEndSeqNo).bind pyInt with
    | some b, some _ => decide (b < 1) || decide (c.sess.nextOut ≤ b)
    | _, _ => false

theorem ignoredResendB_sound {c : Conn} {m : Msg} (h : ignoredResendB c m = true) : IgnoredResend c m := by
  simp only [ignoredResendB, Bool.and_eq_true, beq_iff_eq] at h
  obtain ⟨hm, h2⟩ := h
  cases hb : (m.get? tBeginSeqNo).bind pyInt with
  | none => simp [hb] at h2
  | some b =>
    cases he : (m.get? tEndSeqNo).bind pyInt with
    | none => simp [hb, he] at h2
    | some e =>
      simp only [hb, he, Bool.or_eq_true, decide_eq_true_eq] at h2
      exact ⟨hm, b, e, hb, he, h2⟩

def benignB (c : Conn) (m : Msg) : Bool := inSeqB c m && (routineB m || ignoredResendB c m) && rightIdB c m

theorem benignB_sound {c : Conn} {m : Msg} (h : benignB c m = true) : Benign c m := by
  simp only [benignB, Bool.and_eq_true] at h
  obtain ⟨⟨h1, h2⟩, h3⟩ := h
  refine ⟨inSeqB_sound h1, ?_, ?_⟩
  · rcases Bool.or_eq_true _ _ |>.mp h2 with h | h
    · exact Or.inl (routineB_sound h)
    · exact Or.inr (ignoredResendB_sound h)
  intro _ tid v ht hv
  simpa [rightIdB, ht, hv] using h3

def answeredB (id dl : Int) : List WEv → Bool
  | [] => true
  | .tick env :: rest => decide (env.now ≤ dl) && answeredB id dl rest
  | .recv _ m :: rest => isEcho id m || answeredB id dl rest

theorem answeredB_sound {id dl : Int} : ∀ {evs : List WEv}, answeredB id dl evs = true → Answered id dl evs
  | [], _ => trivial
  | .tick _ :: _, h => by
    simp only [answeredB, Bool.and_eq_true, decide_eq_true_eq] at h
    exact ⟨h.1, answeredB_sound h.2⟩
  | .recv _ _ :: _, h => by
    simp only [answeredB, Bool.or_eq_true] at h
    exact h.elim Or.inl fun h' => Or.inr (answeredB_sound h')

def liveB (sr : Msg → Bool) (D : Int → Int) : Int → Conn → List WEv → Bool
  | _, _, [] => true
  | p, c, ev :: rest =>
    decide (p ≤ ev.now) &&
    (match ev with
      | .recv _ m => benignB c m
      | .tick env => decide (1000 ≤ env.now)) &&
    (match c.testReqId, (step sr c ev.toEvent).1.testReqId with
      | none, some id => !(writes (step sr c ev.toEvent).2).isEmpty && answeredB id (D ev.now) rest
      | _, _ => true) &&
    liveB sr D ev.now (step sr c ev.toEvent).1 rest

theorem liveB_sound {sr : Msg → Bool} {D : Int → Int} :
    ∀ {p : Int} {c : Conn} {evs : List WEv}, liveB sr D p c evs = true → Live sr D p c evs
  | _, _, [], _ => trivial
  | p, c, ev :: rest, h => by
    simp only [liveB, Bool.and_eq_true, decide_eq_true_eq] at h
    obtain ⟨⟨⟨h0, h1⟩, h2⟩, h3⟩ := h
    refine ⟨h0, ?_, ?_, liveB_sound h3⟩
    · cases ev with
      | tick env => simpa using h1
      | recv env m => exact benignB_sound h1
    · intro hn id hid
      rw [hn, hid] at h2
      simp only [Bool.and_eq_true, Bool.not_eq_true', List.isEmpty_eq_false_iff] at h2
      exact ⟨h2.1, answeredB_sound h2.2⟩

def benignRunB (sr : Msg → Bool) : Conn → List WEv → Bool
  | _, [] => true
  | c, ev :: rest =>
    (match ev with
      | .recv _ m => benignB c m
      | .tick _ => true) &&
    benignRunB sr (step sr c ev.toEvent).1 rest

theorem benignRunB_sound {sr : Msg → Bool} :
    ∀ {c : Conn} {evs : List WEv}, benignRunB sr c evs = true → BenignRun sr c evs
  | _, [], _ => trivial
  | c, ev :: rest, h => by
    simp only [benignRunB, Bool.and_eq_true] at h
    refine ⟨?_, benignRunB_sound h.2⟩
    cases ev with
    | tick env => trivial
    | recv env m => exact benignB_sound h.1

end AsyncFix.Session.Watchdog
