/-
C08 corollaries: what later calls can do to a stored message and to stored counters.
-/
import AsyncFix.Lemmas.JournalCrash
namespace AsyncFix.Model.Journal

/-- the call is a renumbering of session `key` whose new next number for `dir` is ≤ n -/
def Op.truncates (key : Int) (dir : Dir) (n : Int) : Op → Bool
  | .setSeqNum h out inn => h.key == key && decide (dir.pick (effOut h out) (effIn h inn) ≤ n)
  | _ => false

/-- the call writes counters of session `key` -/
def Op.touchesCounters (key : Int) : Op → Bool
  | .persist _ h _ => h.key == key
  | .setSeqNum h _ _ => h.key == key
  | _ => false

theorem spec_store_frame (S : JSpec) (op : Op) (key : Int) (dir : Dir) (n : Int) (m : Bytes)
    (hs : S.store key dir n = some m) :
    (S.applyOp op).store key dir n = some m ∨ op.truncates key dir n = true := by
  cases op with
  | createOrLoad t s =>
    left
    simp only [JSpec.applyOp, JSpec.createOrLoad]
    split
    · split <;> exact hs
    · exact hs
  | persist msg h d =>
    left
    simp only [JSpec.applyOp, JSpec.persist]
    split
    · exact hs
    · split
      · exact hs
      · split
        · exact hs
        · rename_i q _ hnone
          simp only
          split
          · rename_i hc
            obtain ⟨rfl, rfl, rfl⟩ := hc
            rw [hnone] at hs; cases hs
          · exact hs
  | setSeqNum h out inn =>
    simp only [JSpec.applyOp, JSpec.setSeqNum, Op.truncates]
    split
    · left; exact hs
    · split
      · left; exact hs
      · simp only [JSpec.setNext]
        by_cases hc : key = h.key ∧ dir.pick (effOut h out) (effIn h inn) ≤ n
        · right; simp [hc.1, hc.2]
        · left; rw [if_neg hc]; exact hs
  | sessions => left; exact hs
  | recover => left; exact hs
  | recoverMsg => left; exact hs
  | getAll => left; exact hs

theorem spec_counters_frame (S : JSpec) (op : Op) (id : Nat) (v : Int × Int)
    (hs : S.counters id = some v) (hfresh : S.counters S.nextId = none) :
    (S.applyOp op).counters id = some v ∨ op.touchesCounters id = true := by
  cases op with
  | createOrLoad t s =>
    left
    simp only [JSpec.applyOp, JSpec.createOrLoad]
    split
    · split <;> exact hs
    · simp only
      split
      · rename_i hc; subst hc; rw [hfresh] at hs; cases hs
      · exact hs
  | persist msg h d =>
    simp only [JSpec.applyOp, JSpec.persist, Op.touchesCounters]
    by_cases hk : h.key = (id : Int)
    · right; simp [hk]
    · left
      have hk' : ¬ (id : Int) = h.key := fun e => hk e.symm
      split
      · exact hs
      · split
        · exact hs
        · split
          · exact hs
          · simp only [hk', if_false]; exact hs
  | setSeqNum h out inn =>
    simp only [JSpec.applyOp, JSpec.setSeqNum, Op.touchesCounters]
    by_cases hk : h.key = (id : Int)
    · right; simp [hk]
    · left
      have hk' : ¬ (id : Int) = h.key := fun e => hk e.symm
      split
      · exact hs
      · split
        · exact hs
        · simp only [JSpec.setNext, hk', if_false]; exact hs
  | sessions => left; exact hs
  | recover => left; exact hs
  | recoverMsg => left; exact hs
  | getAll => left; exact hs

theorem counters_fresh {j : Journal} (hinv : JInv j) : (abs j).counters (abs j).nextId = none := by
  simp only [abs, Option.map_eq_none_iff, List.find?_eq_none]
  intro r hr
  have := hinv.sidLt r hr
  simp only [beq_iff_eq]; omega

/-- a stored message survives every list of calls that contains no renumbering at or below it -/
theorem store_frame_ops (j : Journal) (hinv : JInv j) (ops : List Op) (key : Int) (dir : Dir) (n : Int) (m : Bytes)
    (hs : (abs j).store key dir n = some m) :
    (abs (applyOps j ops)).store key dir n = some m ∨ ∃ op ∈ ops, op.truncates key dir n = true := by
  induction ops generalizing j with
  | nil => left; exact hs
  | cons op rest ih =>
    rw [applyOps_cons]
    have href := applyOp_refines hinv op
    rcases spec_store_frame (abs j) op key dir n m hs with h1 | h1
    · rw [← href] at h1
      rcases ih (applyOp j op).1 (applyOp_inv op hinv) h1 with h2 | ⟨o, ho, h2⟩
      · left; exact h2
      · right; exact ⟨o, List.mem_cons_of_mem _ ho, h2⟩
    · right; exact ⟨op, List.mem_cons_self .., h1⟩

/-- stored counters survive every list of calls that does not write that session's counters -/
theorem counters_frame_ops (j : Journal) (hinv : JInv j) (ops : List Op) (id : Nat) (v : Int × Int)
    (hs : (abs j).counters id = some v) :
    (abs (applyOps j ops)).counters id = some v ∨ ∃ op ∈ ops, op.touchesCounters id = true := by
  induction ops generalizing j with
  | nil => left; exact hs
  | cons op rest ih =>
    rw [applyOps_cons]
    have href := applyOp_refines hinv op
    rcases spec_counters_frame (abs j) op id v hs (counters_fresh hinv) with h1 | h1
    · rw [← href] at h1
      rcases ih (applyOp j op).1 (applyOp_inv op hinv) h1 with h2 | ⟨o, ho, h2⟩
      · left; exact h2
      · right; exact ⟨o, List.mem_cons_of_mem _ ho, h2⟩
    · right; exact ⟨op, List.mem_cons_self .., h1⟩

theorem applyOps_append (j : Journal) (a b : List Op) : applyOps j (a ++ b) = applyOps (applyOps j a) b := by
  simp only [applyOps, List.foldl_append]

end AsyncFix.Model.Journal
