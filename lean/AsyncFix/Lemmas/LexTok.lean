/-
Token-level facts about the `_strptime` directive matchers on ASCII digits: what `Dir.alts`
returns when a directive stands on two (for %Y: four) ASCII digits.  The arithmetic side conditions
are closed by a 10 × 10 case split over the two digits; the rest of the string stays symbolic.
-/
import AsyncFix.Py.PyStrptime
namespace AsyncFix.Lemmas.LexTok
open AsyncFix.Py

/-- value of two ASCII digits -/
def two (a b : Nat) : Nat := (a - 48) * 10 + (b - 48)

theorem digit_iff {a : Nat} : isAsciiDigit a = true ↔ 48 ≤ a ∧ a ≤ 57 := by
  simp [isAsciiDigit]

theorem digit_cases {a : Nat} (h : isAsciiDigit a = true) :
    a = 48 ∨ a = 49 ∨ a = 50 ∨ a = 51 ∨ a = 52 ∨ a = 53 ∨ a = 54 ∨ a = 55 ∨ a = 56 ∨ a = 57 := by
  have := digit_iff.1 h
  omega

theorem pyDecimal_digit {a : Nat} (h : isAsciiDigit a = true) : pyDecimal? a = some (a - 48) := by
  simp [pyDecimal?, h]

/-- the directives that are one- or two-digit numbers -/
def isNum : Dir → Bool
  | .m | .d | .H | .M | .S => true
  | _ => false

/-- smallest / largest two-digit value the regex of the directive admits -/
def lo : Dir → Nat
  | .m | .d => 1
  | _ => 0
def hi : Dir → Nat
  | .m => 12 | .d => 31 | .H => 23 | .M => 59 | .S => 61
  | _ => 0
/-- does the one-character alternative accept the digit `a`?  (`[1-9]` for %m %d, `\d` for %H %M %S) -/
def one : Dir → Nat → Bool
  | .m, a | .d, a => a != 48
  | _, _ => true

/-- the regex's two-digit alternatives together accept exactly lo..hi -/
def inRng (D : Dir) (a b : Nat) : Bool := decide (lo D ≤ two a b) && decide (two a b ≤ hi D)

theorem inRng_iff {D : Dir} {a b : Nat} : inRng D a b = true ↔ lo D ≤ two a b ∧ two a b ≤ hi D := by
  simp [inRng]

/-- shape of `Dir.alts` on two ASCII digits -/
def altsTwo (D : Dir) (a b : Nat) (r : Str) : List (Nat × Str) :=
  (if inRng D a b then [(two a b, r)] else []) ++ (if one D a then [(a - 48, b :: r)] else [])

macro "digit_split" ha:ident hb:ident : tactic =>
  `(tactic| (rcases digit_cases $ha with h | h | h | h | h | h | h | h | h | h <;>
             rcases digit_cases $hb with h' | h' | h' | h' | h' | h' | h' | h' | h' | h' <;>
             subst h <;> subst h' <;> rfl))

theorem alts_m {a b : Nat} (r : Str) (ha : isAsciiDigit a = true) (hb : isAsciiDigit b = true) :
    Dir.alts .m (a :: b :: r) = altsTwo .m a b r := by digit_split ha hb
theorem alts_d {a b : Nat} (r : Str) (ha : isAsciiDigit a = true) (hb : isAsciiDigit b = true) :
    Dir.alts .d (a :: b :: r) = altsTwo .d a b r := by digit_split ha hb
theorem alts_H {a b : Nat} (r : Str) (ha : isAsciiDigit a = true) (hb : isAsciiDigit b = true) :
    Dir.alts .H (a :: b :: r) = altsTwo .H a b r := by digit_split ha hb
theorem alts_M {a b : Nat} (r : Str) (ha : isAsciiDigit a = true) (hb : isAsciiDigit b = true) :
    Dir.alts .M (a :: b :: r) = altsTwo .M a b r := by digit_split ha hb
theorem alts_S {a b : Nat} (r : Str) (ha : isAsciiDigit a = true) (hb : isAsciiDigit b = true) :
    Dir.alts .S (a :: b :: r) = altsTwo .S a b r := by digit_split ha hb

theorem alts_num {D : Dir} (hD : isNum D = true) {a b : Nat} (r : Str)
    (ha : isAsciiDigit a = true) (hb : isAsciiDigit b = true) :
    Dir.alts D (a :: b :: r) = altsTwo D a b r := by
  cases D <;> simp [isNum] at hD
  · exact alts_m r ha hb
  · exact alts_d r ha hb
  · exact alts_H r ha hb
  · exact alts_M r ha hb
  · exact alts_S r ha hb

/-- value of four ASCII digits -/
def four (a b c d : Nat) : Nat := 1000 * (a - 48) + 100 * (b - 48) + 10 * (c - 48) + (d - 48)

theorem alts_Y {a b c d : Nat} (r : Str) (ha : isAsciiDigit a = true) (hb : isAsciiDigit b = true)
    (hc : isAsciiDigit c = true) (hd : isAsciiDigit d = true) :
    Dir.alts .Y (a :: b :: c :: d :: r) = [(four a b c d, r)] := by
  simp [Dir.alts, pyDecimal_digit ha, pyDecimal_digit hb, pyDecimal_digit hc, pyDecimal_digit hd, four]

end AsyncFix.Lemmas.LexTok
