/-
Invariant of operation sequences: a plain (non-group) value is only ever stored under a tag that
Python's int() accepts.  Core Lean only.
-/
import AsyncFix.Lemmas.ContainerGroups
namespace AsyncFix.Model.Container
open AsyncFix.Py

def Val.isGroup : Val → Bool
  | .group _ => true
  | _ => false

/-- every tag holding a plain value (str or class object) is accepted by `int()` -/
def PlainTagsIntLike (c : Cont) : Prop := ∀ p ∈ c, p.2.isGroup = false → intLike p.1 = true

theorem mem_dictSet {β : Type} (k : Str) (v : β) (d : List (Str × β)) (p : Str × β) (h : p ∈ dictSet k v d) :
    p ∈ d ∨ p = (k, v) := by
  induction d with
  | nil => simp [dictSet] at h; exact Or.inr h
  | cons q rest ih =>
    obtain ⟨k', v'⟩ := q
    simp only [dictSet] at h
    split at h
    · next e =>
      simp only [List.mem_cons] at h
      rcases h with h | h
      · right; rw [h, e]
      · left; simp [h]
    · simp only [List.mem_cons] at h
      rcases h with h | h
      · left; simp [h]
      · rcases ih h with h | h
        · left; simp [h]
        · exact Or.inr h

theorem mem_dictDel {β : Type} (k : Str) (d : List (Str × β)) (p : Str × β) (h : p ∈ dictDel k d) : p ∈ d := by
  induction d with
  | nil => simp [dictDel] at h
  | cons q rest ih =>
    obtain ⟨k', v'⟩ := q
    simp only [dictDel] at h
    split at h
    · simp [h]
    · simp only [List.mem_cons] at h
      rcases h with h | h
      · simp [h]
      · simp [ih h]

theorem step_plainTags (c : Cont) (op : Op) (h : PlainTagsIntLike c) : PlainTagsIntLike (step c op).1 := by
  rcases step_fst c op with e | e
  · rw [e]; exact h
  · revert e
    generalize (step c op).1 = c'
    intro e
    cases op with
    | set t v r =>
      simp only [Op.apply, set] at e
      split at e
      · simp at e
      · next hi =>
        have hi' : intLike t.pyStr = true := by simpa using hi
        have key : ∀ w, c' = dictSet t.pyStr w c → PlainTagsIntLike c' := by
          intro w hw p hp hg
          rw [hw] at hp
          rcases mem_dictSet _ _ _ _ hp with hp | hp
          · exact h p hp hg
          · rw [hp]; exact hi'
        split at e
        · simp only [Except.ok.injEq] at e; exact key _ e.symm
        · split at e
          · simp at e
          · simp only [Except.ok.injEq] at e; exact key _ e.symm
    | del t =>
      simp only [Op.apply, delItem] at e
      split at e
      · simp only [Except.ok.injEq] at e
        intro p hp hg
        rw [← e] at hp
        exact h p (mem_dictDel _ _ _ hp) hg
      · simp at e
    | addGroup t g i =>
      obtain ⟨old, gc, _, _, e'⟩ := addGroup_ok c c' t g i e
      intro p hp hg
      rw [e'] at hp
      rcases mem_dictSet _ _ _ _ hp with hp | hp
      · exact h p hp hg
      · rw [hp] at hg; simp [Val.isGroup] at hg
    | setGroup t gs =>
      obtain ⟨items, _, _, e'⟩ := setGroup_ok c c' t gs e
      intro p hp hg
      rw [e'] at hp
      rcases mem_dictSet _ _ _ _ hp with hp | hp
      · exact h p hp hg
      · rw [hp] at hg; simp [Val.isGroup] at hg
    | pickle =>
      simp only [Op.apply, pickleRoundtrip, Except.ok.injEq] at e
      rw [← e]; exact h

theorem run_plainTags (c : Cont) (ops : List Op) (h : PlainTagsIntLike c) : PlainTagsIntLike (run c ops) := by
  induction ops generalizing c with
  | nil => exact h
  | cons op ops ih => exact ih _ (step_plainTags c op h)

end AsyncFix.Model.Container
