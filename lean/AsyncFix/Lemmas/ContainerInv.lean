/-
Invariant of operation sequences: a value (plain or group) is only ever stored under a tag that
Python's int() accepts.  Core Lean only.
-/
import AsyncFix.Lemmas.ContainerGroups
namespace AsyncFix.Model.Container
open AsyncFix.Py

/-- every tag of the container is accepted by `int()` -/
def TagsIntLike (c : Cont) : Prop := ∀ p ∈ c, intLike p.1 = true

theorem mem_dictSet {β : Type} (k : Str) (v : β) (d : List (Str × β)) (p : Str × β) (h : p ∈ dictSet k v d) :
    p ∈ d ∨ p = (k, v) := by
  induction d with
  | nil => simp [dictSet] at h; exact Or.inr h
  | cons q rest ih =>
    obtain ⟨k', v'⟩ := q
    simp only [dictSet] at h
    split at h
    · next e =>
      simp only [List.mem_cons] at h
      rcases h with h | h
      · right; rw [h, e]
      · left; simp [h]
    · simp only [List.mem_cons] at h
      rcases h with h | h
      · left; simp [h]
      · rcases ih h with h | h
        · left; simp [h]
        · exact Or.inr h

theorem mem_dictDel {β : Type} (k : Str) (d : List (Str × β)) (p : Str × β) (h : p ∈ dictDel k d) : p ∈ d := by
  induction d with
  | nil => simp [dictDel] at h
  | cons q rest ih =>
    obtain ⟨k', v'⟩ := q
    simp only [dictDel] at h
    split at h
    · simp [h]
    · simp only [List.mem_cons] at h
      rcases h with h | h
      · simp [h]
      · simp [ih h]

theorem step_tagsIntLike (c : Cont) (op : Op) (h : TagsIntLike c) : TagsIntLike (step c op).1 := by
  rcases step_fst c op with e | e
  · rw [e]; exact h
  · revert e
    generalize (step c op).1 = c'
    intro e
    have key : ∀ k w, intLike k = true → c' = dictSet k w c → TagsIntLike c' := by
      intro k w hi hw p hp
      rw [hw] at hp
      rcases mem_dictSet _ _ _ _ hp with hp | hp
      · exact h p hp
      · rw [hp]; exact hi
    cases op with
    | set t v r =>
      simp only [Op.apply, set] at e
      split at e
      · simp at e
      · next hi =>
        have hi' : intLike t.pyStr = true := by simpa using hi
        split at e
        · simp only [Except.ok.injEq] at e; exact key _ _ hi' e.symm
        · split at e
          · simp at e
          · simp only [Except.ok.injEq] at e; exact key _ _ hi' e.symm
    | del t =>
      simp only [Op.apply, delItem] at e
      split at e
      · simp only [Except.ok.injEq] at e
        intro p hp
        rw [← e] at hp
        exact h p (mem_dictDel _ _ _ hp)
      · simp at e
    | addGroup t g i =>
      obtain ⟨old, gc, hi, _, _, e'⟩ := addGroup_ok c c' t g i e
      exact key _ _ hi e'
    | setGroup t gs =>
      obtain ⟨items, hi, _, _, e'⟩ := setGroup_ok c c' t gs e
      exact key _ _ hi e'
    | pickle =>
      simp only [Op.apply, pickleRoundtrip, Except.ok.injEq] at e
      rw [← e]; exact h

theorem run_tagsIntLike (c : Cont) (ops : List Op) (h : TagsIntLike c) : TagsIntLike (run c ops) := by
  induction ops generalizing c with
  | nil => exact h
  | cons op ops ih => exact ih _ (step_tagsIntLike c op h)

end AsyncFix.Model.Container
