import AsyncFix.Lemmas.SessionOutResendA

/-!
C05, resend servicing, part B: one iteration of the replay loop as an equation
(`loop_skip`, `loop_replay`).
-/
namespace AsyncFix.Session

open AsyncFix.Generated AsyncFix.Generated.ConnEnum

/-- the row is retransmitted: not a session-level type and `should_replay` accepts it -/
def Replayable (sr : Msg → Bool) (g : Msg) : Prop :=
  (ConnEnum.noReplay.contains g.mtype || !sr g) = false

theorem RowOk.get_seq {f : Msg} {n : Int} (h : RowOk f n) : f.get tMsgSeqNum = .ok (pyStr n) := by
  simp [Msg.get, h.seq]

theorem RowOk.get_ty {f : Msg} {n : Int} (h : RowOk f n) : f.get tMsgType = .ok f.mtype := by
  simp [Msg.get, h.ty]

theorem loop_skip (env : Env) (sr : Msg → Bool) (row : Msg) (rest : List Msg) (n gfb gfe : Int)
    (c : Conn) (hr : RowOk row n) (hs : ¬ Replayable sr row) :
    resendLoop env sr (row :: rest) gfb gfe c = resendLoop env sr rest gfb (n + 1) c := by
  have hs' : (ConnEnum.noReplay.contains row.mtype || !sr row) = true := by
    cases hx : (ConnEnum.noReplay.contains row.mtype || !sr row) with
    | true => rfl
    | false => exact absurd hx hs
  conv => lhs; unfold resendLoop
  rw [hr.get_seq, run_bind_liftE_ok, run_bind_of_ok (run_int_some (pyInt_pyStr n) c), Out.pre_nil,
    hr.get_ty, run_bind_liftE_ok, run_ite, if_pos hs']

theorem not_testRequest_of_replayable {sr : Msg → Bool} {g : Msg} (h : Replayable sr g) :
    (g.mtype == mTestRequest) = false := by
  unfold Replayable at h
  simp only [Bool.or_eq_false_iff] at h
  cases hb : g.mtype == mTestRequest with
  | false => rfl
  | true =>
    have : g.mtype = mTestRequest := by simpa using hb
    rw [this] at h
    exact absurd h.1 (by decide)

/-- the journal rows after one replayed row: optional gap fill `[gfb, n)`, then the copy under `n` -/
def afterReplay (s : Session) (stamp : String) (J : Rows) (gfb n : Int) (rp : Msg) : Rows :=
  (if gfb < n then J ++ [(gfb, buildFrame s stamp (gapFillMsg gfb n) gfb)] else J)
    ++ [(n, buildFrame s stamp rp n)]

def replayEff (s : Session) (stamp : String) (gfb n : Int) (rp : Msg) : List Effect :=
  (if gfb < n then [Effect.write (buildFrame s stamp (gapFillMsg gfb n) gfb)] else [])
    ++ [.write (buildFrame s stamp rp n)]

theorem loop_replay (env : Env) (sr : Msg → Bool) (row rp : Msg) (rest : List Msg) (n gfb gfe : Int)
    (c : Conn) (hc : ResendCtx env c) (hr : RowOk row n) (hs : Replayable sr row)
    (hrp : prepareReplay row = .ok rp) (hty : rp.mtype = row.mtype)
    (h43 : rp.get? tPossDupFlag = some "Y") (h34 : rp.get? tMsgSeqNum = some (pyStr n))
    (hlat : LatinMsg rp) (hlt : Rows.AllLt gfb c.journal.out) (hle : gfb ≤ n) :
    resendLoop env sr (row :: rest) gfb gfe c =
      Out.pre (replayEff c.sess env.stamp gfb n rp)
        (resendLoop env sr rest (n + 1) gfe
          (setOut c (afterReplay c.sess env.stamp c.journal.out gfb n rp) n)) := by
  have hs' : ¬ (ConnEnum.noReplay.contains row.mtype || !sr row) = true := by
    unfold Replayable at hs; rw [hs]; exact Bool.false_ne_true
  have hnew : isNew rp = false := by simp [isNew, h43]
  have htr : (rp.mtype == mTestRequest) = false := by
    rw [hty]; exact not_testRequest_of_replayable hs
  conv => lhs; unfold resendLoop
  rw [hr.get_seq, run_bind_liftE_ok, run_bind_of_ok (run_int_some (pyInt_pyStr n) c), Out.pre_nil,
    hr.get_ty, run_bind_liftE_ok, run_ite, if_neg hs']
  by_cases hg : gfb < n
  · rw [if_pos hg, run_bind_of_ok (sendMsg_gapFill env c gfb n hc hlt)]
    dsimp only
    rw [hrp, run_bind_liftE_ok]
    have hc1 := hc.setOut (c.journal.out ++ [(gfb, buildFrame c.sess env.stamp (gapFillMsg gfb n) gfb)]) gfb
    have hlt1 : Rows.AllLt n (setOut c (c.journal.out ++
        [(gfb, buildFrame c.sess env.stamp (gapFillMsg gfb n) gfb)]) gfb).journal.out := by
      intro p hp
      simp only [setOut, List.mem_append, List.mem_singleton] at hp
      rcases hp with hp | hp
      · have := hlt p hp; omega
      · subst hp; exact hg
    rw [run_bind_of_ok (sendMsg_fixed env rp _ n hc1 hnew h34 hlat htr hlt1), Out.pre_pre]
    simp only [replayEff, afterReplay, if_pos hg]
    rfl
  · rw [if_neg hg]
    dsimp only
    rw [hrp, run_bind_liftE_ok]
    have hlt1 : Rows.AllLt n c.journal.out := fun p hp => by have := hlt p hp; omega
    rw [run_bind_of_ok (sendMsg_fixed env rp _ n hc hnew h34 hlat htr hlt1)]
    simp only [replayEff, afterReplay, if_neg hg, List.nil_append]

end AsyncFix.Session
