import AsyncFix.Lemmas.LinkRecvSim

/-!
C07: `Session.recv` vs `arecv`, assembly – Logon, ResendRequest, and the final statement `recv_sim`.
-/
namespace AsyncFix.Link

open AsyncFix.Session AsyncFix.Generated AsyncFix.Generated.ConnEnum
open AsyncFix.Session.Msg

theorem recv_sim_logon {s : Side} {env : Env} {c : Conn} {f : Msg} {n : Int} {ev hv : String}
    (hc : ConnGood s c) (hs : c.sock = true) (hi : InFrame c f n) (hl3 : isLatin1 env.stamp = true)
    (hf : LogonFrame f ev hv) (hpd : f.get? tPossDupFlag = none) :
    StepOK s (arecv (absConn c) (absFrame f)) (recv srAll env c f).1 (recv srAll env c f).2 := by
  rw [absFrame_eq hi.h34 (absFrame_logon hf.hA)]
  have h4 : f.mtype ≠ mSequenceReset := by rw [hf.hA]; decide
  by_cases hn : n < c.sess.nextIn
  · rcases state_of_sock hc hs with hst | hst | hst | hst
    · have hh := recv_tooLow (env := env) hc hi hl3 (Or.inl hst) h4 hn
      have ee : arecv (absConn c) ⟨n, .logon⟩ = (absConn c).dropLogout := by
        simp [arecv, absConn_e, absSt_conn hst, hn, AKind.pd]
      rw [ee]; exact hh
    · have hh := recv_tooLow (env := env) hc hi hl3 (Or.inr (Or.inl hst)) h4 hn
      have ee : arecv (absConn c) ⟨n, .logon⟩ = (absConn c).dropLogout := by
        simp [arecv, absConn_e, absSt_sent hst, hn, AKind.pd]
      rw [ee]; exact hh
    · have hh := recv_tooLow (env := env) hc hi hl3 (Or.inr (Or.inr (Or.inr ⟨hst, ne_Y_of_none hpd⟩))) h4 hn
      have ee : arecv (absConn c) ⟨n, .logon⟩ = (absConn c).dropLogout := by
        simp [arecv, absConn_e, absSt_awaiting hst, hn, AKind.pd]
      rw [ee]; exact hh
    · have hh := recv_tooLow (env := env) hc hi hl3 (Or.inr (Or.inr (Or.inl hst))) h4 hn
      have ee : arecv (absConn c) ⟨n, .logon⟩ = (absConn c).dropLogout := by
        simp [arecv, absConn_e, absSt_active hst, hn, AKind.pd]
      rw [ee]; exact hh
  · rcases state_of_sock hc hs with hst | hst3
    · -- fresh transport: acceptor
      by_cases hn' : n = c.sess.nextIn
      · have hh := recv_logon_conn_eq (env := env) hc hi hf hl3 hst hn'
        have ee : arecv (absConn c) ⟨n, .logon⟩ =
            { c := { ({ absConn c with ini := false }.push .logon).1 with st := .active, e := c.sess.nextIn + 1 },
              wr := [({ absConn c with ini := false }.push .logon).2] } := by
          simp [arecv, absConn_e, absSt_conn hst, hn']
        rw [ee]; exact hh
      · have hgt : c.sess.nextIn < n := by omega
        have hh := recv_logon_conn_gt (env := env) hc hi hf hl3 hst hgt
        have ee : arecv (absConn c) ⟨n, .logon⟩ =
            { c := ((({ absConn c with ini := false }.push .logon).1).askResend n).1,
              wr := [({ absConn c with ini := false }.push .logon).2,
                     ((({ absConn c with ini := false }.push .logon).1).askResend n).2] } := by
          simp [arecv, absConn_e, absSt_conn hst, hn, hn']
        rw [ee]; exact hh
    · have hne : (absConn c).st ≠ .conn := by
        rcases hst3 with h | h | h
        · rw [absSt_sent h]; decide
        · rw [absSt_awaiting h]; decide
        · rw [absSt_active h]; decide
      have hst3' : c.state = st_LOGON_INITIAL_SENT ∨ c.state = st_RESENDREQ_AWAITING ∨ c.state = st_ACTIVE := hst3
      have hpass : ¬ ((absConn c).st = .sent ∧ AKind.logon ≠ AKind.logon ∧ AKind.logon ≠ AKind.logout) := by
        intro h; exact h.2.1 rfl
      rcases hc.role with hr | hr
      · have hini : (absConn c).ini = true := by rw [absConn_ini, hr]; rfl
        by_cases hn' : n = c.sess.nextIn
        · have hh := recv_logon_ini_eq (env := env) hc hi hf hst3' hr hn'
          have ee : arecv (absConn c) ⟨n, .logon⟩ =
              { c := { absConn c with st := .active, e := c.sess.nextIn + 1 } } := by
            simp [arecv, absConn_e, hne, hini, hn']
          rw [ee]; exact hh
        · have hgt : c.sess.nextIn < n := by omega
          have hh := recv_logon_ini_gt (env := env) hc hi hf hl3 hst3' hr hgt
          have ee : arecv (absConn c) ⟨n, .logon⟩ =
              { c := ((absConn c).askResend n).1, wr := [((absConn c).askResend n).2] } := by
            simp [arecv, absConn_e, hne, hini, hn, hn']
          rw [ee]; exact hh
      · have hini : (absConn c).ini = false := by rw [absConn_ini, hr]; rfl
        have hh := recv_logon_acceptor_ignored (env := env) hc hi hf hst3' hr (by omega)
        have ee : arecv (absConn c) ⟨n, .logon⟩ = { c := absConn c } := by
          simp [arecv, absConn_e, hne, hini, hn]
        rw [ee]; exact hh

theorem recv_sim_resend {s : Side} {env : Env} {c : Conn} {f : Msg} {n b : Int}
    (hc : ConnGood s c) (hs : c.sock = true) (hi : InFrame c f n) (hl3 : isLatin1 env.stamp = true)
    (hf : ResendFrame f b) (hpd : f.get? tPossDupFlag = none) :
    StepOK s (arecv (absConn c) (absFrame f)) (recv srAll env c f).1 (recv srAll env c f).2 := by
  rw [absFrame_eq hi.h34 (absFrame_resend hf.h2 hf.h7)]
  have hA : f.mtype ≠ mLogon := by rw [hf.h2]; decide
  have h4 : f.mtype ≠ mSequenceReset := by rw [hf.h2]; decide
  have h5 : f.mtype ≠ mLogout := by rw [hf.h2]; decide
  by_cases hn : n < c.sess.nextIn
  · rcases state_of_sock hc hs with hst | hst | hst | hst
    · have hh := recv_tooLow (env := env) hc hi hl3 (Or.inl hst) h4 hn
      have ee : arecv (absConn c) ⟨n, .resend b⟩ = (absConn c).dropLogout := by
        simp [arecv, absConn_e, absSt_conn hst, hn, AKind.pd]
      rw [ee]; exact hh
    · have hh := recv_tooLow (env := env) hc hi hl3 (Or.inr (Or.inl hst)) h4 hn
      have ee : arecv (absConn c) ⟨n, .resend b⟩ = (absConn c).dropLogout := by
        simp [arecv, absConn_e, absSt_sent hst, hn, AKind.pd]
      rw [ee]; exact hh
    · have hh := recv_tooLow (env := env) hc hi hl3 (Or.inr (Or.inr (Or.inr ⟨hst, ne_Y_of_none hpd⟩))) h4 hn
      have ee : arecv (absConn c) ⟨n, .resend b⟩ = (absConn c).dropLogout := by
        simp [arecv, absConn_e, absSt_awaiting hst, hn, AKind.pd]
      rw [ee]; exact hh
    · have hh := recv_tooLow (env := env) hc hi hl3 (Or.inr (Or.inr (Or.inl hst))) h4 hn
      have ee : arecv (absConn c) ⟨n, .resend b⟩ = (absConn c).dropLogout := by
        simp [arecv, absConn_e, absSt_active hst, hn, AKind.pd]
      rw [ee]; exact hh
  · rcases state_of_sock hc hs with hst | hst | hst | hst
    · have hh := recv_conn_drop (env := env) hc hi hst hA (Or.inl (by omega))
      have ee : arecv (absConn c) ⟨n, .resend b⟩ = { c := (absConn c).drop } := by
        simp [arecv, absConn_e, absSt_conn hst, hn]
      rw [ee]; exact hh
    · have hh := recv_sent_drop (env := env) hc hi hst hA h5 (Or.inl (by omega))
      have ee : arecv (absConn c) ⟨n, .resend b⟩ = { c := (absConn c).drop } := by
        simp [arecv, absConn_e, absSt_sent hst, hn]
      rw [ee]; exact hh
    · by_cases hn' : n = c.sess.nextIn
      · have hh := recv_resend_accept (env := env) hc hi hf hl3 (Or.inr hst) hn'
        have ee : arecv (absConn c) ⟨n, .resend b⟩ =
            { c := (((absConn c).serve b).1).advance (c.sess.nextIn + 1), wr := ((absConn c).serve b).2 } := by
          simp [arecv, absConn_e, absSt_awaiting hst, hn']
        rw [ee]; exact hh
      · have hgt : c.sess.nextIn < n := by omega
        have hh := recv_resend_gap_awaiting (env := env) hc hi hf hl3 hst hgt
        have ee : arecv (absConn c) ⟨n, .resend b⟩ =
            { c := ((absConn c).serve b).1, wr := ((absConn c).serve b).2 } := by
          simp [arecv, absConn_e, absSt_awaiting hst, hn, hn']
        rw [ee]; exact hh
    · by_cases hn' : n = c.sess.nextIn
      · have hh := recv_resend_accept (env := env) hc hi hf hl3 (Or.inl hst) hn'
        have ee : arecv (absConn c) ⟨n, .resend b⟩ =
            { c := (((absConn c).serve b).1).advance (c.sess.nextIn + 1), wr := ((absConn c).serve b).2 } := by
          simp [arecv, absConn_e, absSt_active hst, hn']
        rw [ee]; exact hh
      · have hgt : c.sess.nextIn < n := by omega
        have hh := recv_resend_gap_active (env := env) hc hi hf hl3 hst hgt
        have ee : arecv (absConn c) ⟨n, .resend b⟩ =
            { c := ((((absConn c).askResend n).1).serve b).1,
              wr := [((absConn c).askResend n).2] ++ ((((absConn c).askResend n).1).serve b).2 } := by
          simp [arecv, absConn_e, absSt_active hst, hn, hn', hgt]
        rw [ee]; exact hh

/-- **Simulation of the receiver.**  On a well-formed connection with a transport and a well-formed frame of
the peer, `_process_message` does what the abstract receiver does. -/
theorem recv_sim {s : Side} {env : Env} {c : Conn} {f : Msg} (hc : ConnGood s c) (hs : c.sock = true)
    (hf : FrameGood s.other.name s.name f) (hl3 : isLatin1 env.stamp = true) :
    StepOK s (arecv (absConn c) (absFrame f)) (recv srAll env c f).1 (recv srAll env c f).2 := by
  obtain ⟨n, hi⟩ := inFrame_of_good hc hf
  have hk := hf.kind
  unfold KindOK at hk
  by_cases hA : f.mtype = mLogon
  · rw [if_pos hA] at hk
    obtain ⟨ev, h98⟩ := get?_of_has hk.1
    obtain ⟨hv, h108⟩ := get?_of_has hk.2.1
    exact recv_sim_logon hc hs hi hl3
      ⟨hA, h98, h108, isLatin1_of_get? hf.lat h98, isLatin1_of_get? hf.lat h108⟩ hk.2.2
  rw [if_neg hA] at hk
  by_cases h2 : f.mtype = mResendRequest
  · rw [if_pos h2] at hk
    obtain ⟨b, h7⟩ := hk.1
    exact recv_sim_resend hc hs hi hl3 ⟨h2, h7, hk.2.1⟩ hk.2.2
  rw [if_neg h2] at hk
  by_cases h4 : f.mtype = mSequenceReset
  · rw [if_pos h4] at hk
    obtain ⟨nw, h36⟩ := hk.2.1
    exact recv_sim_gapFill hc hs hi hl3 ⟨h4, hk.1, h36⟩
  rw [if_neg h4] at hk
  by_cases h5 : f.mtype = mLogout
  · rw [if_pos h5] at hk
    exact recv_sim_logout hc hs hi hl3 h5 hk
  rw [if_neg h5] at hk
  exact recv_sim_app hc hs hi hl3 hA h2 h4 h5 hk.1 hk.2

end AsyncFix.Link
