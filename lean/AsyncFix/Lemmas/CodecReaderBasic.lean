/-
C03, part 1: byte-string search facts used by the reader proofs.
`isPrefix` ↔ `<+:`, characterisation of `findSub` (first occurrence), `findChar`,
`splitOn` on prefixes, and the two facts about the frame-start marker `8=FIX.`:
its first byte occurs nowhere else in it (hence it is unbordered), and
`partialMarkerKeep` returns the longest proper marker prefix the buffer ends with.
-/
import AsyncFix.Model.Codec.Decode
import AsyncFix.Model.Codec.Frame
namespace AsyncFix.Model.Codec

/-! ### `isPrefix` -/

theorem isPrefix_iff (p s : Bytes) : isPrefix p s = true ↔ p <+: s := by
  induction p generalizing s with
  | nil => simp [isPrefix]
  | cons a p ih =>
    cases s with
    | nil => simp [isPrefix]
    | cons c s =>
      simp only [isPrefix, Bool.and_eq_true, beq_iff_eq, ih, List.cons_prefix_cons]

theorem isPrefix_false_iff (p s : Bytes) : isPrefix p s = false ↔ ¬ p <+: s := by
  rw [← isPrefix_iff]; simp

/-- a prefix of `x ++ r` that is no longer than `x` is a prefix of `x` -/
theorem prefix_of_prefix_append {p x r : Bytes} (h : p <+: x ++ r) (hl : p.length ≤ x.length) :
    p <+: x :=
  List.prefix_of_prefix_length_le h (List.prefix_append x r) hl

/-- a pattern that does not contain `c` cannot reach over `c` -/
theorem prefix_of_prefix_append_cons {p x r : Bytes} {c : Nat} (h : p <+: x ++ c :: r)
    (hc : c ∉ p) : p <+: x := by
  induction x generalizing p with
  | nil =>
    cases p with
    | nil => exact List.nil_prefix
    | cons a p =>
      simp only [List.nil_append, List.cons_prefix_cons] at h
      exact absurd (by simp [h.1]) hc
  | cons y x ih =>
    cases p with
    | nil => exact List.nil_prefix
    | cons a p =>
      simp only [List.cons_append, List.cons_prefix_cons] at h ⊢
      exact ⟨h.1, ih h.2 (fun hm => hc (List.mem_cons_of_mem _ hm))⟩

/-! ### `findSub`: first occurrence -/

/-- `pat` occurs in `s` at offset `i` -/
def OccAt (pat s : Bytes) (i : Nat) : Prop := i < s.length ∧ pat <+: s.drop i

theorem findSub_none_iff (pat s : Bytes) : findSub pat s = none ↔ ∀ i, ¬ OccAt pat s i := by
  induction s with
  | nil => simp [findSub, OccAt]
  | cons c s ih =>
    rw [findSub]
    by_cases h0 : isPrefix pat (c :: s) = true
    · simp only [h0, if_true]
      constructor
      · intro h; cases h
      · intro h; exact absurd ⟨by simp, by simpa [isPrefix_iff] using h0⟩ (h 0)
    · have h0f : isPrefix pat (c :: s) = false := by simpa using h0
      simp only [h0f, Bool.false_eq_true, if_false]
      have h0' : ¬ pat <+: c :: s := by rwa [← isPrefix_iff]
      constructor
      · intro h i hi
        have hn : findSub pat s = none := by
          cases hf : findSub pat s with
          | none => rfl
          | some j => simp [hf] at h
        cases i with
        | zero => exact h0' (by simpa [OccAt] using hi.2)
        | succ j =>
          exact (ih.1 hn) j ⟨by simpa using hi.1, by simpa using hi.2⟩
      · intro h
        have hn : findSub pat s = none :=
          ih.2 (fun j hj => h (j + 1) ⟨by simpa using hj.1, by simpa using hj.2⟩)
        simp [hn]

theorem findSub_some_iff (pat s : Bytes) (i : Nat) :
    findSub pat s = some i ↔ OccAt pat s i ∧ ∀ j, j < i → ¬ OccAt pat s j := by
  induction s generalizing i with
  | nil => simp [findSub, OccAt]
  | cons c s ih =>
    rw [findSub]
    by_cases h0 : isPrefix pat (c :: s) = true
    · have h0' : pat <+: c :: s := by rwa [← isPrefix_iff]
      simp only [h0, if_true, Option.some.injEq]
      constructor
      · intro h; subst h
        exact ⟨⟨by simp, by simpa using h0'⟩, fun j hj => absurd hj (Nat.not_lt_zero j)⟩
      · intro ⟨_, h2⟩
        cases i with
        | zero => rfl
        | succ k => exact absurd ⟨by simp, by simpa using h0'⟩ (h2 0 (Nat.succ_pos k))
    · have h0' : ¬ pat <+: c :: s := by rwa [← isPrefix_iff]
      have h0f : isPrefix pat (c :: s) = false := by simpa using h0
      simp only [h0f, Bool.false_eq_true, if_false]
      constructor
      · intro h
        cases hf : findSub pat s with
        | none => simp [hf] at h
        | some k =>
          simp only [hf, Option.some.injEq] at h
          subst h
          obtain ⟨h1, h2⟩ := (ih k).1 hf
          refine ⟨⟨by simpa using h1.1, by simpa using h1.2⟩, ?_⟩
          intro j hj hocc
          cases j with
          | zero => exact h0' (by simpa [OccAt] using hocc.2)
          | succ j' =>
            exact h2 j' (by omega) ⟨by simpa using hocc.1, by simpa using hocc.2⟩
      · intro ⟨h1, h2⟩
        cases i with
        | zero => exact absurd (by simpa [OccAt] using h1.2) h0'
        | succ k =>
          have : findSub pat s = some k :=
            (ih k).2 ⟨⟨by simpa using h1.1, by simpa using h1.2⟩,
              fun j hj hocc => h2 (j + 1) (by omega) ⟨by simpa using hocc.1, by simpa using hocc.2⟩⟩
          simp [this]

theorem findSub_lt {pat s : Bytes} {i : Nat} (h : findSub pat s = some i) : i < s.length :=
  ((findSub_some_iff pat s i).1 h).1.1

/-- an occurrence inside a prefix of the string is found at the same place in the string -/
theorem findSub_append_of_some {pat p t : Bytes} {i : Nat} (h : findSub pat p = some i) :
    findSub pat (p ++ t) = some i := by
  obtain ⟨⟨hi, hp⟩, hmin⟩ := (findSub_some_iff pat p i).1 h
  refine (findSub_some_iff pat (p ++ t) i).2 ⟨⟨by simp; omega, ?_⟩, ?_⟩
  · rw [List.drop_append_of_le_length (by omega)]
    exact hp.trans (List.prefix_append _ _)
  · intro j hj ⟨_, hocc⟩
    rw [List.drop_append_of_le_length (by omega)] at hocc
    have hlen : pat.length ≤ (p.drop i).length := hp.length_le
    refine hmin j hj ⟨by omega, prefix_of_prefix_append hocc ?_⟩
    simp only [List.length_drop] at hlen ⊢
    omega

/-- no occurrence can start inside a part that lacks the pattern's first byte -/
theorem findSub_skip {c : Nat} {pat' x s : Bytes} (hx : c ∉ x) :
    findSub (c :: pat') (x ++ s) = (findSub (c :: pat') s).map (· + x.length) := by
  induction x with
  | nil => simp
  | cons y x ih =>
    have hy : y ≠ c := fun e => hx (by simp [e])
    have hx' : c ∉ x := fun hm => hx (List.mem_cons_of_mem _ hm)
    simp only [List.cons_append, findSub, isPrefix]
    have : (c == y) = false := by simp [Ne.symm hy]
    simp only [this, Bool.false_and, Bool.false_eq_true, if_false, ih hx']
    cases findSub (c :: pat') s <;> simp; omega

/-! ### `findChar` -/

theorem findChar_append_cons {c : Nat} {x r : Bytes} (hx : c ∉ x) :
    findChar c (x ++ c :: r) = some x.length := by
  induction x with
  | nil => simp [findChar]
  | cons y x ih =>
    have hy : y ≠ c := fun e => hx (by simp [e])
    have hx' : c ∉ x := fun hm => hx (List.mem_cons_of_mem _ hm)
    simp [findChar, hy, ih hx']

theorem findChar_none {c : Nat} {x : Bytes} (hx : c ∉ x) : findChar c x = none := by
  induction x with
  | nil => rfl
  | cons y x ih =>
    have hy : y ≠ c := fun e => hx (by simp [e])
    have hx' : c ∉ x := fun hm => hx (List.mem_cons_of_mem _ hm)
    simp [findChar, hy, ih hx']

/-! ### `splitOn` -/

theorem splitOn_ne_nil (sep : Nat) (s : Bytes) : splitOn sep s ≠ [] := by
  induction s with
  | nil => simp [splitOn]
  | cons c s ih =>
    rw [splitOn]
    split
    · simp
    · split <;> simp

/-- all complete pieces of a prefix are the leading pieces of the whole string -/
theorem splitOn_prefix (sep : Nat) {p f : Bytes} (h : p <+: f) :
    ∃ l, (splitOn sep p).dropLast ++ l :: [] = (splitOn sep p) ∧
      (splitOn sep p).dropLast <+: splitOn sep f := by
  refine ⟨(splitOn sep p).getLast (splitOn_ne_nil sep p), List.dropLast_concat_getLast _, ?_⟩
  induction p generalizing f with
  | nil => simp [splitOn]
  | cons c p ih =>
    obtain ⟨t, rfl⟩ := h
    simp only [List.cons_append]
    have ih' := ih (f := p ++ t) (List.prefix_append _ _)
    rw [splitOn, splitOn]
    by_cases hc : c = sep
    · simp only [hc, if_true]
      rw [List.dropLast_cons_of_ne_nil (splitOn_ne_nil sep p)]
      exact List.cons_prefix_cons.2 ⟨rfl, ih'⟩
    · simp only [hc, if_false]
      cases hp : splitOn sep p with
      | nil => exact absurd hp (splitOn_ne_nil sep p)
      | cons a as =>
        cases hf : splitOn sep (p ++ t) with
        | nil => exact absurd hf (splitOn_ne_nil sep _)
        | cons b bs =>
          rw [hp, hf] at ih'
          cases as with
          | nil => simp
          | cons a2 as2 =>
            simp only [List.dropLast_cons_cons, List.cons_prefix_cons] at ih' ⊢
            exact ⟨by rw [ih'.1], ih'.2⟩

/-! ### the marker -/

theorem marker_length : marker.length = 6 := rfl

/-- the first byte of the marker occurs nowhere else in it: a marker occurrence cannot start
inside a non-empty block shorter than the marker that is followed by the marker's first byte -/
theorem marker_no_straddle {a h : Bytes} (ha : a ≠ []) (hl : a.length < 6)
    (hh : ∀ x, h.head? = some x → x = 56) : ¬ marker <+: a ++ h := by
  intro hp
  have key : ∀ (k : Nat) (hk : k < 6), 0 < k → marker[k]'(by rw [marker_length]; exact hk) ≠ 56 := by
    decide
  have hlen : 6 ≤ (a ++ h).length := by simpa [marker_length] using hp.length_le
  have hk : a.length < (a ++ h).length := by omega
  have e := List.IsPrefix.getElem hp (i := a.length) (by rw [marker_length]; exact hl)
  have hpos : 0 < a.length := List.length_pos_iff.2 ha
  rw [List.getElem_append_right (Nat.le_refl _)] at e
  simp only [Nat.sub_self] at e
  have hne : h ≠ [] := by
    intro hn; subst hn; simp at hlen; omega
  have h56 : h[0]'(List.length_pos_iff.2 hne) = 56 := by
    apply hh
    cases h with
    | nil => exact absurd rfl hne
    | cons x xs => simp
  exact key a.length hl hpos (by rw [e]; exact h56)

/-- marker-free junk followed by something that starts with the marker: first occurrence is
exactly at the end of the junk -/
theorem findSub_marker_junk {g h : Bytes} (hg : NoMarker g) (hh : marker <+: h) :
    findSub marker (g ++ h) = some g.length := by
  refine (findSub_some_iff marker (g ++ h) g.length).2 ⟨⟨?_, ?_⟩, ?_⟩
  · have := hh.length_le; simp [marker_length] at this ⊢; omega
  · simpa using hh
  · intro j hj ⟨_, hocc⟩
    rw [List.drop_append_of_le_length (by omega)] at hocc
    by_cases hl : (g.drop j).length < 6
    · refine marker_no_straddle ?_ hl ?_ hocc
      · intro hn
        have : (g.drop j).length = 0 := by rw [hn]; rfl
        simp at this; omega
      · intro x hx
        obtain ⟨t, rfl⟩ := hh
        simp [marker] at hx
        exact hx.symm
    · exact (findSub_none_iff marker g).1 hg j
        ⟨hj, prefix_of_prefix_append hocc (by rw [marker_length]; omega)⟩

theorem NoMarker_nil : NoMarker [] := rfl

theorem NoMarker_of_prefix {p t : Bytes} (h : NoMarker (p ++ t)) : NoMarker p := by
  unfold NoMarker at *
  cases hf : findSub marker p with
  | none => rfl
  | some i => rw [findSub_append_of_some hf] at h; cases h

theorem NoMarker_drop {g : Bytes} (h : NoMarker g) (d : Nat) : NoMarker (g.drop d) := by
  unfold NoMarker at *
  rw [findSub_none_iff] at *
  intro i ⟨hi, hocc⟩
  simp only [List.length_drop, List.drop_drop] at hi hocc
  exact h (d + i) ⟨by omega, by simpa [Nat.add_comm] using hocc⟩

/-- junk followed by a proper prefix of the marker is still marker-free -/
theorem NoMarker_append_take {g : Bytes} (hg : NoMarker g) (k : Nat) (hk : k < 6) :
    NoMarker (g ++ marker.take k) := by
  unfold NoMarker
  rw [findSub_none_iff]
  intro j ⟨hj, hocc⟩
  have hlen : (marker.take k).length = k := by simp [marker_length]; omega
  by_cases hjg : j < g.length
  · rw [List.drop_append_of_le_length (by omega)] at hocc
    by_cases hl : (g.drop j).length < 6
    · refine marker_no_straddle ?_ hl ?_ hocc
      · intro hn
        have : (g.drop j).length = 0 := by rw [hn]; rfl
        simp at this; omega
      · intro x hx
        cases k with
        | zero => simp at hx
        | succ k' => simp [marker] at hx; exact hx.symm
    · exact (findSub_none_iff marker g).1 hg j
        ⟨hjg, prefix_of_prefix_append hocc (by rw [marker_length]; omega)⟩
  · have := hocc.length_le
    simp only [List.length_drop, List.length_append, hlen, marker_length] at this hj
    omega

end AsyncFix.Model.Codec
