import AsyncFix.Lemmas.SessionOutStep

/-!
C05: histories.  `run_good`: the step relation composes over `run`; `run_inv`: `OutInv` over
arbitrary histories (every event kind, `reset_seq_num()` and bounded ResendRequests included).
-/
namespace AsyncFix.Session

open AsyncFix.Generated AsyncFix.Generated.ConnEnum

variable {sr : Msg → Bool} {U X : Prop}

theorem run_nil (sr : Msg → Bool) (c : Conn) : run sr c [] = (c, []) := rfl

theorem run_cons (sr : Msg → Bool) (c : Conn) (ev : Event) (rest : List Event) :
    run sr c (ev :: rest) =
      ((run sr (step sr c ev).1 rest).1, (step sr c ev).2 ++ (run sr (step sr c ev).1 rest).2) := rfl

theorem step_inv (sr : Msg → Bool) (c : Conn) (ev : Event) (hI : OutInv c) (hok : ev.ok) :
    OutInv (step sr c ev).1 := by
  by_cases hr : isReset ev = true
  · cases ev <;> simp [isReset] at hr
    exact (resetSeq_inv c hI).1
  · exact (step_good (sr := sr) (U := False) (X := False) c ev hI hok (fun h => h.elim)
      (fun h => h.elim) (by simpa using hr)).inv

theorem run_inv (sr : Msg → Bool) (evs : List Event) : ∀ (c : Conn), OutInv c →
    (∀ ev ∈ evs, ev.ok) → OutInv (run sr c evs).1 := by
  induction evs with
  | nil => intro c hI _; exact hI
  | cons ev rest ih =>
    intro c hI hok
    rw [run_cons]
    exact ih _ (step_inv sr c ev hI (hok ev (by simp))) (fun e he => hok e (by simp [he]))

theorem run_good (evs : List Event) : ∀ (c : Conn), OutInv c →
    (∀ ev ∈ evs, ev.ok ∧ isReset ev = false) →
    (U → ∀ ev ∈ evs, boundedResend ev = false) → (X → ∀ ev ∈ evs, isResendReq ev = false) →
    Good sr U X c (run sr c evs).1 (run sr c evs).2 := by
  induction evs with
  | nil => intro c hI _ _ _; exact Good.refl hI
  | cons ev rest ih =>
    intro c hI hok hU hX
    rw [run_cons]
    have h1 := step_good (sr := sr) (U := U) (X := X) c ev hI (hok ev (by simp)).1
      (fun hu => hU hu ev (by simp)) (fun hx => hX hx ev (by simp)) (hok ev (by simp)).2
    exact h1.trans (ih _ h1.inv (fun e he => hok e (by simp [he]))
      (fun hu e he => hU hu e (by simp [he])) (fun hx e he => hX hx e (by simp [he])))

end AsyncFix.Session
