import AsyncFix.Lemmas.RestartMonad

/-!
Restart family: pointwise values of the transport events (`eof`, `connected`) used to relate a restart
with a mere disconnect.
-/
namespace AsyncFix.Restart

open AsyncFix.Session AsyncFix.Generated AsyncFix.Generated.ConnEnum

theorem eof_apply (env : Env) (c : Conn) (hsock : c.sock = true) (hst : c.state > st_DISCONNECTED_BROKEN_CONN) :
    (eof env c).1 = { c with state := st_DISCONNECTED_BROKEN_CONN, testReqId := none, lastTime := 0,
                             maxResend := 0, sock := false } := by
  have hd : decide (st_DISCONNECTED_BROKEN_CONN ≤ st_DISCONNECTED_BROKEN_CONN) = true := by decide
  have hA : (st_DISCONNECTED_BROKEN_CONN == st_ACTIVE) = false := by decide
  simp only [eof, hsock, if_true, M.run, disconnect, M.get_bind_apply, M.ite_apply, hst, hd,
    M.assert_true_bind_apply, M.modify_bind_apply, stateSet, bind_assoc, M.emit_bind_apply, M.emit_apply, hA,
    Bool.or_false]

theorem connected_apply (c : Conn) (k : ConnKind) (hs : c.sock = false) :
    (connected c k).1 = match k with
      | .initiator => { c with sock := true, state := st_NETWORK_CONN_ESTABLISHED }
      | .initiatorFailed => { c with state := st_DISCONNECTED_BROKEN_CONN }
      | .acceptor => { c with sock := true, state := st_NETWORK_CONN_ESTABLISHED } := by
  cases k <;>
    simp only [connected, M.run, connectedM, M.get_bind_apply, M.ite_apply, hs, Bool.false_eq_true, if_false,
      M.modify_bind_apply, M.emit_apply, M.modify_apply]

end AsyncFix.Restart
