/-
C08: what one `execute()` / `commit()` does to the three things that matter for durability
(`committed`, `working`, `inTx`) – independent of the statement cache and the stale error code,
which only decide the *kind* of exception when binding overflows.
-/
import AsyncFix.Lemmas.JournalSpec
namespace AsyncFix.Model.Journal

/-- every integer parameter fits 64 bits -/
def Stmt.bindOk (s : Stmt) : Bool := s.params.all fits

theorem findIdx_none_iff (s : Stmt) : s.params.findIdx? (fun n => !fits n) = none ↔ s.bindOk = true := by
  simp [Stmt.bindOk, List.findIdx?_eq_none_iff]

/-- a statement that reads, or creates a table IF NOT EXISTS, leaves the rows alone -/
def Stmt.readOnly : Stmt → Bool
  | .createMsgTable | .createSessTable | .selectSession .. | .selectSessions | .selectRange .. | .selectAll .. => true
  | _ => false

theorem run_readOnly {s : Stmt} (h : s.readOnly = true) (j : Journal) : (s.run j).1 = j := by
  cases s <;> simp [Stmt.readOnly] at h <;> simp [Stmt.run]
  all_goals (split <;> rfl)

theorem readOnly_not_dml {s : Stmt} (h : s.readOnly = true) : s.isDML = false := by
  cases s <;> simp_all [Stmt.readOnly, Stmt.isDML]

theorem exec_inTx (c : Conn) (s : Stmt) : (c.exec s).1.inTx = (c.inTx || s.isDML) := by
  unfold Conn.exec
  split <;> rfl

theorem exec_ok (c : Conn) (s : Stmt) (hb : s.bindOk = true) :
    (c.exec s).2 = (s.run c.working).2 ∧ (c.exec s).1.working = (s.run c.working).1 ∧
    (c.exec s).1.committed = if (c.inTx || s.isDML) = true then c.committed else (s.run c.working).1 := by
  have hf := (findIdx_none_iff s).mpr hb
  unfold Conn.exec
  simp only [hf, and_self]

theorem exec_fail (c : Conn) (s : Stmt) (hb : s.bindOk = false) :
    ((c.exec s).2 = .overflow ∨ (c.exec s).2 = .integrity) ∧ (c.exec s).1.working = c.working ∧
    (c.exec s).1.committed = c.committed := by
  have hf : ∃ i, s.params.findIdx? (fun n => !fits n) = some i := by
    cases h : s.params.findIdx? (fun n => !fits n) with
    | none => rw [findIdx_none_iff] at h; rw [h] at hb; cases hb
    | some i => exact ⟨i, rfl⟩
  obtain ⟨i, hf⟩ := hf
  unfold Conn.exec
  simp only [hf, and_self, and_true]
  split <;> simp

theorem commit_spec (c : Conn) :
    c.commit.working = c.working ∧ c.commit.committed = (if c.inTx = true then c.working else c.committed) ∧
    c.commit.inTx = false := by
  unfold Conn.commit
  cases h : c.inTx <;> simp [h]

theorem rollback_spec (c : Conn) (hin : c.inTx = true) :
    c.rollback.working = c.committed ∧ c.rollback.committed = c.committed ∧ c.rollback.inTx = false := by
  unfold Conn.rollback
  simp [hin]

end AsyncFix.Model.Journal
