/-
Repeating-group reconstruction, part 2: local lemmas (no tree induction).
`closeWhile`/`closeTop` in the `cur`/`setCur`/`push` algebra, the three productive cases of
`stepCore` (plain field, group header, first field of the next item), `addGroup` on a parent
container whose last entry is the group under construction, and `ClosesTo`: the chain of frames
a finished node leaves open and that the next field closes.
-/
import AsyncFix.Lemmas.CodecGroupsCore
namespace AsyncFix.Model.Codec

/-! ### algebra -/

@[simp] theorem cur_setCur (s : DS) (c : Cont) : cur (setCur s c) = c := by
  obtain ⟨top, st⟩ := s; cases st <;> rfl

@[simp] theorem setCur_setCur (s : DS) (c c' : Cont) : setCur (setCur s c) c' = setCur s c' := by
  obtain ⟨top, st⟩ := s; cases st <;> rfl

@[simp] theorem setCur_cur (s : DS) : setCur s (cur s) = s := by
  obtain ⟨top, st⟩ := s; cases st <;> rfl

@[simp] theorem cur_push (f : Frame) (s : DS) : cur (push f s) = f.item := rfl

@[simp] theorem setCur_push (f : Frame) (s : DS) (c : Cont) :
    setCur (push f s) c = push { f with item := c } s := rfl

@[simp] theorem accepts_setCur (s : DS) (c : Cont) (t : Tag) : accepts (setCur s c) t = accepts s t := by
  obtain ⟨top, st⟩ := s; cases st <;> rfl

@[simp] theorem accepts_push (f : Frame) (s : DS) (t : Tag) : accepts (push f s) t = f.members.contains t := rfl

theorem closeTop_push (f : Frame) (s : DS) :
    closeTop s.1 (f :: s.2) =
      match (cur s).addGroup f.gtag f.item with
      | .error k => .error k
      | .ok c => .ok (setCur s c) := by
  obtain ⟨top, st⟩ := s
  cases st with
  | nil =>
    simp only [closeTop, cur, bind, Except.bind, pure, Except.pure]
    cases Cont.addGroup top f.gtag f.item <;> rfl
  | cons p rest =>
    simp only [closeTop, cur, bind, Except.bind, pure, Except.pure]
    cases Cont.addGroup p.item f.gtag f.item <;> rfl

/-! ### closeWhile -/

theorem closeWhile_accepts {s : DS} {t : Tag} (h : accepts s t = true) :
    closeWhile t s.1 s.2 = .ok s := by
  obtain ⟨top, st⟩ := s
  cases st with
  | nil => exact closeWhile_nil t top
  | cons f rest =>
    simp only [accepts] at h
    rw [closeWhile]
    simp only [h, if_true]

theorem closeWhile_close {sm s' : DS} {f : Frame} {t : Tag} (hf : f.members.contains t = false)
    (hc : closeTop sm.1 (f :: sm.2) = .ok s') :
    closeWhile t sm.1 (f :: sm.2) = closeWhile t s'.1 s'.2 := by
  rw [closeWhile]
  simp only [hf, Bool.false_eq_true, if_false]
  split
  · next k h => rw [hc] at h; cases h
  · next top' st' h => rw [hc] at h; cases h; rfl

/-- `ClosesTo oms s s''`: the innermost `oms.length` frames of `s` have the member lists `oms`
(outermost first) and closing them one after the other succeeds and yields `s''` -/
def ClosesTo : List (List Tag) → DS → DS → Prop
  | [], s, s'' => s = s''
  | ms :: rest, s, s'' =>
    ∃ f sm, ClosesTo rest s (push f sm) ∧ f.members = ms ∧ closeTop sm.1 (f :: sm.2) = .ok s''

theorem closeWhile_closesTo {oms : List (List Tag)} {s s'' : DS} {t : Tag}
    (h : ClosesTo oms s s'') (hn : notOpen t oms = true) :
    closeWhile t s.1 s.2 = closeWhile t s''.1 s''.2 := by
  induction oms generalizing s'' with
  | nil => simp only [ClosesTo] at h; rw [h]
  | cons ms rest ih =>
    obtain ⟨f, sm, h1, h2, h3⟩ := h
    simp only [notOpen, List.all_cons, Bool.and_eq_true, Bool.not_eq_true', ← h2] at hn
    have hr : notOpen t rest = true := hn.2
    rw [ih h1 hr]
    exact closeWhile_close hn.1 h3

theorem stepCore_closesTo {tbl : Tbl} {oms : List (List Tag)} {s s'' : DS} {t : Tag} (v : Bytes)
    (h : ClosesTo oms s s'') (hn : notOpen t oms = true) :
    stepCore tbl s t v = stepCore tbl s'' t v := by
  simp only [stepCore, closeWhile_closesTo h hn]

/-! ### the productive cases of `stepCore` -/

theorem stepCore_leaf {tbl : Tbl} {s : DS} {t : Tag} (v : Bytes) (ha : accepts s t = true)
    (hm : tbl.members? t = none) (hh : (cur s).has t = false) :
    stepCore tbl s t v = .ok (setCur s (cur s ++ [.leaf t v])) := by
  simp only [stepCore, closeWhile_accepts ha, afterClose, hm]
  obtain ⟨top, st⟩ := s
  cases st with
  | nil =>
    simp only [cur] at hh
    simp only [hh, Bool.false_eq_true, if_false, Cont.setStr, setCur, cur]
  | cons f rest =>
    simp only [cur] at hh
    simp only [hh, Bool.false_eq_true, if_false, setCur, cur]

theorem stepCore_open {tbl : Tbl} {s : DS} {t : Tag} {ms : List Tag} (v : Bytes)
    (ha : accepts s t = true) (hm : tbl.members? t = some ms) :
    stepCore tbl s t v = .ok (push ⟨t, ms, []⟩ s) := by
  simp only [stepCore, closeWhile_accepts ha, afterClose, hm]

theorem stepCore_next {tbl : Tbl} {s0 : DS} {f : Frame} {t : Tag} {c : Cont} (v : Bytes)
    (ha : f.members.contains t = true) (hm : tbl.members? t = none) (hh : f.item.has t = true)
    (hg : (cur s0).addGroup f.gtag f.item = .ok c) :
    stepCore tbl (push f s0) t v = .ok (push { f with item := [.leaf t v] } (setCur s0 c)) := by
  have ha' : accepts (push f s0) t = true := ha
  rw [stepCore, closeWhile_accepts ha']
  have hc := closeTop_push f s0
  rw [hg] at hc
  simp only [afterClose, hm, push, hh, if_true, hc]

/-! ### the parent container of an open group -/

/-- the parent's container while group `g` is open: the completed items `done` sit in a group
entry at the END of the container, which exists only once an item has been completed -/
def addItemsTo (P : Cont) (g : Tag) (done : List (List Node)) : Cont :=
  if done.isEmpty then P else P ++ [.group g done]

theorem addItemsTo_nil (P : Cont) (g : Tag) : addItemsTo P g [] = P := rfl

theorem addItemsTo_ne (P : Cont) (g : Tag) {done : List (List Node)} (h : done ≠ []) :
    addItemsTo P g done = P ++ [.group g done] := by
  cases done with
  | nil => exact absurd rfl h
  | cons a b => rfl

theorem find?_of_has_false {P : Cont} {g : Tag} (h : P.has g = false) : P.find? g = none := by
  simp only [Cont.has, List.any_eq_false] at h
  simp only [Cont.find?, List.find?_eq_none]
  exact h

theorem map_eq_self {f : Node → Node} {P : Cont} (h : ∀ m ∈ P, f m = m) : P.map f = P := by
  induction P with
  | nil => rfl
  | cons n rest ih =>
    simp only [List.map_cons, h n (List.mem_cons_self ..),
      ih (fun m hm => h m (List.mem_cons_of_mem _ hm))]

theorem tag_ne_of_has_false {P : Cont} {g : Tag} (h : P.has g = false) :
    ∀ m ∈ P, (m.tag == g) = false := by
  simp only [Cont.has, List.any_eq_false] at h
  intro m hm
  simpa using h m hm

theorem addGroup_addItemsTo {P : Cont} {g : Tag} (done : List (List Node)) (it : Cont)
    (h : P.has g = false) :
    (addItemsTo P g done).addGroup g it = .ok (addItemsTo P g (done ++ [it])) := by
  cases done with
  | nil =>
    simp only [addItemsTo_nil, Cont.addGroup, find?_of_has_false h, List.nil_append]
    rfl
  | cons d ds =>
    rw [addItemsTo_ne _ _ (List.cons_ne_nil d ds), addItemsTo_ne _ _ (by simp)]
    have hf : Cont.find? (P ++ [.group g (d :: ds)]) g = some (.group g (d :: ds)) := by
      have := find?_of_has_false h
      rw [Cont.find?] at this ⊢
      rw [List.find?_append, this]
      simp [Node.tag]
    simp only [Cont.addGroup, hf, List.map_append, List.map_cons, List.map_nil,
      BEq.rfl, if_true]
    rw [map_eq_self]
    intro m hm
    have := tag_ne_of_has_false h m hm
    cases m with
    | leaf t v => rfl
    | err t => rfl
    | group t items =>
      simp only [Node.tag] at this
      simp only [this, Bool.false_eq_true, if_false]

end AsyncFix.Model.Codec
