import AsyncFix.Lemmas.LinkSend

/-!
C07: single-byte checks and abstraction of the frames the endpoints build; journal-row bookkeeping.
-/
namespace AsyncFix.Link

open AsyncFix.Session AsyncFix.Generated AsyncFix.Generated.ConnEnum
open AsyncFix.Session.Msg

theorem isLatin1_nameI : isLatin1 nameI = true := by decide
theorem isLatin1_nameA : isLatin1 nameA = true := by decide
theorem isLatin1_begin : isLatin1 Proto.beginString = true := by decide

theorem writesOf_append (a b : List Effect) : writesOf (a ++ b) = writesOf a ++ writesOf b := by
  induction a with
  | nil => rfl
  | cons x xs ih => cases x <;> simp [writesOf, ih]

theorem deliveriesOf_append (a b : List Effect) : deliveriesOf (a ++ b) = deliveriesOf a ++ deliveriesOf b := by
  induction a with
  | nil => rfl
  | cons x xs ih => cases x <;> simp [deliveriesOf, ih]

theorem hasRaised_append (a b : List Effect) : hasRaised (a ++ b) = (hasRaised a || hasRaised b) := by
  induction a with
  | nil => rfl
  | cons x xs ih => cases x <;> simp [hasRaised, ih]

/-- the frame is single-byte when the CompIDs, the clock text, the type and the fields are -/
theorem frameLatin1_build {s : Session} {stamp : String} {m : Msg} {n : Int}
    (h1 : isLatin1 s.sender = true) (h2 : isLatin1 s.target = true) (h3 : isLatin1 stamp = true)
    (h4 : isLatin1 m.mtype = true) (h5 : m.tags.all (fun p => isLatin1 p.2) = true) :
    frameLatin1 (buildFrame s stamp m n) = true := by
  have h6 : (m.tags.filter fun p =>
      p.1 ≠ tMsgSeqNum && p.1 ≠ tSendingTime && p.1 ≠ tSenderCompID && p.1 ≠ tTargetCompID).all
        (fun p => isLatin1 p.2) = true := by
    rw [List.all_eq_true] at h5 ⊢
    intro p hp
    exact h5 p (List.mem_filter.mp hp).1
  simp only [frameLatin1, buildFrame, bodyFields, List.all_append, List.all_cons, List.all_nil, Bool.and_true,
    isLatin1_begin, isLatin1_natStr, isLatin1_pyStr, isLatin1_pad3, h1, h2, h3, h4, h6, Bool.and_self]

/-- for an application message (no header tags among its fields) the check is exactly `msgLatin1` -/
theorem frameLatin1_build_app {s : Session} {stamp : String} {m : Msg} {n : Int}
    (h1 : isLatin1 s.sender = true) (h2 : isLatin1 s.target = true) (h3 : isLatin1 stamp = true)
    (ha : isAppMsg m = true) :
    frameLatin1 (buildFrame s stamp m n) = msgLatin1 m := by
  have hid : (m.tags.filter fun p =>
      p.1 ≠ tMsgSeqNum && p.1 ≠ tSendingTime && p.1 ≠ tSenderCompID && p.1 ≠ tTargetCompID) = m.tags := by
    apply List.filter_eq_self.mpr
    intro p hp
    simp only [isAppMsg, Bool.and_eq_true, List.all_eq_true] at ha
    have := ha.2 p hp
    obtain ⟨k, v⟩ := p
    have a1 : k ≠ tMsgSeqNum := by rintro rfl; exact absurd this (by simp [appTagOk, hdrTags, tBeginString, tBodyLength, tCheckSum, tMsgSeqNum, tMsgType, tPossDupFlag, tSenderCompID, tSendingTime, tTargetCompID, tOrigSendingTime])
    have a2 : k ≠ tSendingTime := by rintro rfl; exact absurd this (by simp [appTagOk, hdrTags, tBeginString, tBodyLength, tCheckSum, tMsgSeqNum, tMsgType, tPossDupFlag, tSenderCompID, tSendingTime, tTargetCompID, tOrigSendingTime])
    have a3 : k ≠ tSenderCompID := by rintro rfl; exact absurd this (by simp [appTagOk, hdrTags, tBeginString, tBodyLength, tCheckSum, tMsgSeqNum, tMsgType, tPossDupFlag, tSenderCompID, tSendingTime, tTargetCompID, tOrigSendingTime])
    have a4 : k ≠ tTargetCompID := by rintro rfl; exact absurd this (by simp [appTagOk, hdrTags, tBeginString, tBodyLength, tCheckSum, tMsgSeqNum, tMsgType, tPossDupFlag, tSenderCompID, tSendingTime, tTargetCompID, tOrigSendingTime])
    simp [a1, a2, a3, a4]
  simp only [frameLatin1, buildFrame, bodyFields, hid, List.all_append, List.all_cons, List.all_nil, Bool.and_true,
    isLatin1_begin, isLatin1_natStr, isLatin1_pyStr, isLatin1_pad3, h1, h2, h3, Bool.true_and, msgLatin1]

/-- a value stored in a single-byte frame is single-byte -/
theorem isLatin1_of_get? {f : Msg} {t : Nat} {v : String} (hl : frameLatin1 f = true) (h : f.get? t = some v) :
    isLatin1 v = true :=
  all_of_lookup (fun p => isLatin1 p.2) f.tags t v hl h

/-! ### abstraction of frames -/

theorem absFrame_seq {f : Msg} {n : Int} (h : f.get? tMsgSeqNum = some (pyStr n)) : (absFrame f).seq = n := by
  simp [absFrame, seqOf_of_get? h]

theorem intTag_of_get? {f : Msg} {t : Nat} {n : Int} (h : f.get? t = some (pyStr n)) : intTag f t = n := by
  simp [intTag, h, pyInt_pyStr]

theorem absFrame_logon {f : Msg} (h : f.mtype = mLogon) : (absFrame f).kind = .logon := by
  simp [absFrame, h]

theorem absFrame_resend {f : Msg} {b : Int} (h : f.mtype = mResendRequest)
    (hb : f.get? tBeginSeqNo = some (pyStr b)) : (absFrame f).kind = .resend b := by
  simp [absFrame, h, intTag_of_get? hb, mResendRequest, mLogon]

theorem absFrame_gapFill {f : Msg} {nw : Int} (h : f.mtype = mSequenceReset)
    (hb : f.get? tNewSeqNo = some (pyStr nw)) : (absFrame f).kind = .gapFill nw := by
  simp [absFrame, h, intTag_of_get? hb, mResendRequest, mLogon, mSequenceReset]

theorem absFrame_logout {f : Msg} (h : f.mtype = mLogout) : (absFrame f).kind = .logout := by
  simp [absFrame, h, mResendRequest, mLogon, mSequenceReset, mLogout]

theorem absFrame_app {f : Msg} (hA : f.mtype ≠ mLogon) (h2 : f.mtype ≠ mResendRequest)
    (h4 : f.mtype ≠ mSequenceReset) (h5 : f.mtype ≠ mLogout) :
    (absFrame f).kind = .app (payloadOf f) (f.get? tPossDupFlag == some "Y") := by
  simp [absFrame, hA, h2, h4, h5]

/-! ### journal rows -/

theorem allLt_append_last {k n : Int} {m : Msg} {rs : Rows} (h : AllLt k rs) (hk : k < n) :
    AllLt n (rs ++ [(k, m)]) :=
  allLt_append_singleton (allLt_mono (by omega) h) hk

theorem allLt_push {k : Int} {m : Msg} {rs : Rows} (h : AllLt k rs) : AllLt (k + 1) (rs ++ [(k, m)]) :=
  allLt_append_last h (by omega)

theorem rowsGood_allLt {snd tgt : String} {o : Int} {rs : Rows} (h : RowsGood snd tgt o rs) : AllLt o rs :=
  fun p hp => (h.range p hp).2

theorem rowsGood_append {snd tgt : String} {o : Int} {rs : Rows} {f : Msg} (h : RowsGood snd tgt o rs)
    (ho : 1 ≤ o) (hf : FrameGood snd tgt f) (h34 : f.get? tMsgSeqNum = some (pyStr o)) :
    RowsGood snd tgt (o + 1) (rs ++ [(o, f)]) where
  sorted := sorted_append_singleton h.sorted (rowsGood_allLt h)
  range := by
    intro r hr
    rcases List.mem_append.mp hr with hr | hr
    · have := h.range r hr; omega
    · simp only [List.mem_singleton] at hr; subst hr; simp; omega
  good := by
    intro r hr
    rcases List.mem_append.mp hr with hr | hr
    · exact h.good r hr
    · simp only [List.mem_singleton] at hr; subst hr; exact ⟨hf, h34⟩

theorem rowsGood_mono {snd tgt : String} {o o' : Int} {rs : Rows} (h : RowsGood snd tgt o rs) (ho : o ≤ o') :
    RowsGood snd tgt o' rs :=
  { sorted := h.sorted, good := h.good, range := fun r hr => by have := h.range r hr; omega }

theorem absRow_frame {o : Int} {f : Msg} {k : AKind} (h : (absFrame f).kind = k)
    (hs : f.mtype ≠ mHeartbeat ∧ f.mtype ≠ mTestRequest) : absRow (o, f) = (o, k.entry) := by
  obtain ⟨h0, h1⟩ := hs
  subst h
  unfold absRow absFrame
  by_cases a1 : f.mtype = mLogon
  · simp [a1, noReplay, mLogon, AKind.entry]
  by_cases a2 : f.mtype = mResendRequest
  · simp [a2, noReplay, mLogon, mResendRequest, AKind.entry]
  by_cases a3 : f.mtype = mSequenceReset
  · simp [a3, noReplay, mLogon, mResendRequest, mSequenceReset, AKind.entry]
  by_cases a4 : f.mtype = mLogout
  · simp [a4, noReplay, mLogon, mResendRequest, mSequenceReset, mLogout, AKind.entry]
  have : ¬ f.mtype ∈ noReplay := by
    simp only [noReplay, List.mem_cons, List.not_mem_nil, or_false, not_or]
    exact ⟨h0, h1, a2, a3, a4, a1⟩
  simp [a1, a2, a3, a4, this, AKind.entry]

end AsyncFix.Link
