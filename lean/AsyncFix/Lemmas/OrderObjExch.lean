/-
Every action of the reference exchange keeps the relation `Sync0` between the (drained) order and
the exchange, and the reports it emits satisfy `ChainP` – except the two excluded races.
-/
import AsyncFix.Lemmas.OrderObjSync
namespace AsyncFix.Model.OrderLink
open AsyncFix.Model.OrderObj AsyncFix.Model.Exchange AsyncFix.Model.OrderTable AsyncFix.Props.C16

theorem pstat_pending (k : String) : pstat k = "6" ∨ pstat k = "E" := by
  unfold pstat; split <;> simp

theorem reported_of_pending_some {e : Exch} {p : PReq} (h : e.pending = some p) :
    e.reported = pstat p.kind := by
  simp [Exch.reported, h, pstat]

theorem pstat_ne4 (k : String) : pstat k ≠ "4" := by
  unfold pstat; split <;> decide

/-- an order with a pending request digests an execution report that is neither Replaced nor reports Canceled -/
theorem feed_pending (o : Order) (e : Exch) (cl : Str) (ex : String) (orig : Option Str)
    (hp : o.status = "6" ∨ o.status = "E") (hid : cl = o.clordId ∨ some cl = o.origClordId)
    (hex : ex ≠ "5") (hrep : e.reported ≠ "4") :
    feed o (e.execRep cl ex orig) =
      ({ o with orderId := some orderIdC, leavesQty := e.leaves, cumQty := e.cum, avgPx := some e.avgPx },
       .ok false) := by
  rw [feed_execRep o e cl ex orig hid, cs8_pending_none hp hex hrep]
  simp [execApply, hex, finishExec_none]

/-- an execution report that the table accepts with a status change -/
theorem feed_go (o : Order) (e : Exch) (cl : Str) (ex : String) (orig : Option Str)
    (hid : cl = o.clordId ∨ some cl = o.origClordId) (hex : ex ≠ "5")
    (hres : changeStatus spec o.status "8" ex e.reported false = .to e.reported)
    (hsv : e.reported ∈ bases) :
    feed o (e.execRep cl ex orig) =
      ({ o with orderId := some orderIdC, leavesQty := e.leaves, cumQty := e.cum, avgPx := some e.avgPx,
                status := e.reported }, .ok true) := by
  rw [feed_execRep o e cl ex orig hid, hres]
  simp [execApply, hex, finishExec_to _ (bases_sv _ hsv)]

theorem truthy_some {x : Str} (h : x ≠ []) : truthy (some x) = true := by
  cases x with
  | nil => exact absurd rfl h
  | cons a l => rfl

/-- a cancel reject on an order with a pending request: back to the previous id, status as reported -/
theorem feed_rej_pending (o : Order) (cl x : Str) (orig : Option Str) (st : String) (unk : Bool)
    (hp : o.status = "6" ∨ o.status = "E") (hst : st ∈ bases) (ho : o.origClordId = some x) (hx : x ≠ []) :
    feed o (cxlRej cl orig st unk) =
      ({ (if st = "8" then { o with leavesQty := 0 } else o) with
          clordId := x, origClordId := none, status := st }, .ok true) := by
  rw [feed_cxlRej]
  have hcur : o.status ∈ ["6", "E"] := by rcases hp with h | h <;> simp [h]
  rw [cs9_pending _ hcur _ hst]
  simp only
  have hsv := (bases_sv _ hst).1
  by_cases h8 : st = "8"
  · simp [h8, revertId, ho, truthy_some hx, setStatus, h8 ▸ hsv]
  · simp [h8, revertId, ho, truthy_some hx, setStatus, hsv]

/-! ### unsolicited transitions -/

theorem idleTrans_facts : ∀ t ∈ idleTrans, t.2.1 ≠ "5" ∧ t.2.2 ∈ bases ∧ t.2.2 ≠ "4" ∧ t.1 ≠ "4" := by
  decide

structure IdleStep (e e' : Exch) (x : String) : Prop where
  known : e.known = true
  known' : e'.known = true
  liveId : e'.liveId = e.liveId
  price : e'.price = e.price
  qty : e'.qty = e.qty
  pend : e'.pending = e.pending
  trans : (e.base, x, e'.base) ∈ idleTrans
  keep : e.pending ≠ none → live e'.base = true
  rej0 : e'.base = "8" → e'.leaves = 0

theorem idle_emit (o : Order) (c : List Msg) (e e' : Exch) (x : String) (hs : IdleStep e e' x)
    (hsync : Sync0 o c e) :
    ChainP o [e'.execRep e.liveId x none] ∧ Sync0 (drain o [e'.execRep e.liveId x none]) c e' := by
  obtain ⟨hx5, hb', hb4', hb4⟩ := idleTrans_facts _ hs.trans
  simp only at hx5 hb' hb4' hb4
  cases hsync with
  | created h => have := h.known; rw [hs.known] at this; cases this
  | newSent m oo h => have := h.known; rw [hs.known] at this; cases this
  | idle h =>
    have hp' : e'.pending = none := hs.pend.trans h.pend
    have hrep : e'.reported = e'.base := reported_of_pending_none hp'
    have hres : changeStatus spec o.status "8" x e'.reported false = .to e'.reported := by
      rw [hrep, h.status]; exact cs8_idle _ hs.trans
    have hf := feed_go o e' e.liveId x none (Or.inl h.clord.symm) hx5 hres (hrep ▸ hb')
    refine ⟨⟨⟨true, by rw [hf]⟩, ?_, trivial⟩, ?_⟩
    · intro _
      exact ⟨e', x, by rw [h.clord], hx5, hp', hb', hb4'⟩
    · simp only [drain]; rw [hf]
      exact Sync0.idle ⟨hs.known', hp', hrep, hb', h.clord.trans hs.liveId.symm, hs.liveId ▸ h.livene,
        fun _ => h.orig hb4, hs.rej0, ⟨rfl, rfl, h.nums.price.trans hs.price.symm, h.nums.qty.trans hs.qty.symm⟩⟩
  | reqSent m k pr qr h =>
    have hp' : e'.pending = none := hs.pend.trans h.pend
    have hrep : e'.reported = e'.base := reported_of_pending_none hp'
    have hf := feed_pending o e' e.liveId x none (h.status ▸ pstat_pending k) (Or.inr h.orig.symm) hx5
      (hrep ▸ hb4')
    refine ⟨⟨⟨false, by rw [hf]⟩, ?_, trivial⟩, ?_⟩
    · intro hnp
      exact absurd hnp (by rcases pstat_pending k with h' | h' <;> simp [nonPending, h.status, h'])
    · simp only [drain]; rw [hf]
      exact Sync0.reqSent m k pr qr ⟨hs.known', hp', hb', h.kind, hs.liveId ▸ h.req, hs.liveId ▸ h.orig,
        hs.liveId ▸ h.livene, h.clne, h.status, hs.rej0,
        ⟨rfl, rfl, h.nums.price.trans hs.price.symm, h.nums.qty.trans hs.qty.symm⟩⟩
  | reqPending p h =>
    have hp' : e'.pending = some p := hs.pend.trans h.pend
    have hrep : e'.reported = pstat p.kind := reported_of_pending_some hp'
    have hf := feed_pending o e' e.liveId x none (h.status ▸ pstat_pending p.kind) (Or.inr h.orig.symm) hx5
      (hrep ▸ pstat_ne4 _)
    refine ⟨⟨⟨false, by rw [hf]⟩, ?_, trivial⟩, ?_⟩
    · intro hnp
      exact absurd hnp (by rcases pstat_pending p.kind with h' | h' <;> simp [nonPending, h.status, h'])
    · simp only [drain]; rw [hf]
      exact Sync0.reqPending p ⟨hs.known', hp', h.kind, h.pcl, hs.liveId ▸ h.orig, hs.liveId ▸ h.livene,
        h.clne, h.status, hs.keep (by rw [h.pend]; simp),
        ⟨rfl, rfl, h.nums.price.trans hs.price.symm, h.nums.qty.trans hs.qty.symm⟩⟩

/-- what an exchange action has to establish -/
def EmitOk (o : Order) (c' : List Msg) (r : Exch × List Report) : Prop :=
  ChainP o r.2 ∧ Sync0 (drain o r.2) c' r.1

theorem emit_noop {o : Order} {c : List Msg} {e : Exch} (h : Sync0 o c e) : EmitOk o c (e, []) :=
  ⟨trivial, h⟩

theorem sync_pending_live {o : Order} {c : List Msg} {e : Exch} (h : Sync0 o c e) :
    e.pending ≠ none → live e.base = true := by
  intro hp
  cases h with
  | created h => exact absurd h.pend hp
  | newSent m oo h => exact absurd h.pend hp
  | idle h => exact absurd h.pend hp
  | reqSent m k pr qr h => exact absurd h.pend hp
  | reqPending p h => exact h.live

theorem sync_known_false {o : Order} {c : List Msg} {e : Exch} (h : Sync0 o c e) (hk : e.known = false) :
    e.pending = none := by
  cases h with
  | created h => exact h.pend
  | newSent m oo h => exact h.pend
  | idle h => exact h.pend
  | reqSent m k pr qr h => exact h.pend
  | reqPending p h => have := h.known; rw [hk] at this; cases this

theorem ack_ok {o : Order} {c : List Msg} {e : Exch} (h : Sync0 o c e) : EmitOk o c e.ack := by
  unfold Exch.ack
  split
  · exact emit_noop h
  · rename_i hen
    simp only [Bool.or_eq_true, Bool.not_eq_true', bne_iff_ne, ne_eq, not_or, Bool.not_eq_false,
      Decidable.not_not] at hen
    obtain ⟨hk, hb⟩ := hen
    have hpl := sync_pending_live h
    exact idle_emit o c e { e with base := "0" } "0"
      ⟨hk, hk, rfl, rfl, rfl, rfl, by simp [hb, idleTrans], fun _ => rfl, fun h8 => by simp at h8⟩ h

theorem rejectNew_ok {o : Order} {c : List Msg} {e : Exch} (h : Sync0 o c e) : EmitOk o c e.rejectNew := by
  unfold Exch.rejectNew
  split
  · exact emit_noop h
  · rename_i hen
    simp only [Bool.or_eq_true, Bool.not_eq_true', bne_iff_ne, ne_eq, not_or, Bool.not_eq_false,
      Decidable.not_not] at hen
    obtain ⟨hk, hb⟩ := hen
    have hpl := sync_pending_live h
    exact idle_emit o c e { e with base := "8", leaves := 0 } "8"
      ⟨hk, hk, rfl, rfl, rfl, rfl, by simp [hb, idleTrans],
       fun hp => by have := hpl hp; rw [hb] at this; exact absurd this (by decide), fun _ => rfl⟩ h

theorem suspend_ok {o : Order} {c : List Msg} {e : Exch} (h : Sync0 o c e) : EmitOk o c e.suspend := by
  unfold Exch.suspend
  split
  · exact emit_noop h
  · rename_i hen
    simp only [Bool.or_eq_true, Bool.not_eq_true', not_or, Bool.not_eq_false, working] at hen
    obtain ⟨hk, hb⟩ := hen
    have hb' : e.base = "0" ∨ e.base = "1" := by simpa using hb
    exact idle_emit o c e { e with base := "9" } "9"
      ⟨hk, hk, rfl, rfl, rfl, rfl, by rcases hb' with h' | h' <;> simp [h', idleTrans], fun _ => rfl,
       fun h8 => by simp at h8⟩ h

theorem resume_ok {o : Order} {c : List Msg} {e : Exch} (h : Sync0 o c e) : EmitOk o c e.resume := by
  unfold Exch.resume
  split
  · exact emit_noop h
  · rename_i hen
    simp only [Bool.or_eq_true, Bool.not_eq_true', bne_iff_ne, ne_eq, not_or, Bool.not_eq_false,
      Decidable.not_not] at hen
    obtain ⟨hk, hb⟩ := hen
    by_cases hc : e.cum > 0
    · simp only [hc, if_true]
      exact idle_emit o c e { e with base := "1" } "D"
        ⟨hk, hk, rfl, rfl, rfl, rfl, by simp [hb, idleTrans], fun _ => rfl, fun h8 => by simp at h8⟩ h
    · simp only [hc, if_false]
      exact idle_emit o c e { e with base := "0" } "D"
        ⟨hk, hk, rfl, rfl, rfl, rfl, by simp [hb, idleTrans], fun _ => rfl, fun h8 => by simp at h8⟩ h

/-- the order reaches Filled / Expired: with a request acknowledged as pending the reject follows at once -/
theorem finish_ok {o : Order} {c : List Msg} {e e1 : Exch} {x : String} (h : Sync0 o c e)
    (hk : e.known = true) (hb : e1.base = "2" ∨ e1.base = "C")
    (hrest : e1.known = true ∧ e1.liveId = e.liveId ∧ e1.price = e.price ∧ e1.qty = e.qty ∧ e1.pending = e.pending)
    (htr : (e.base, x, e1.base) ∈ idleTrans) : EmitOk o c (e1.finish x) := by
  obtain ⟨hk1, hl1, hp1, hq1, hpd1⟩ := hrest
  unfold Exch.finish
  cases hpe : e1.pending with
  | none =>
    simp only
    rw [hl1]
    exact idle_emit o c e e1 x ⟨hk, hk1, hl1, hp1, hq1, hpd1, htr,
      fun hp => absurd (hpd1 ▸ hpe) hp, fun h8 => by rcases hb with h' | h' <;> rw [h'] at h8 <;> exact absurd h8 (by decide)⟩ h
  | some p =>
    simp only
    have hpe' : e.pending = some p := hpd1 ▸ hpe
    obtain ⟨hx5, _, _, _⟩ := idleTrans_facts _ htr
    simp only at hx5
    cases h with
    | created h => have := h.pend; rw [hpe'] at this; cases this
    | newSent m oo h => have := h.pend; rw [hpe'] at this; cases this
    | idle h => have := h.pend; rw [hpe'] at this; cases this
    | reqSent m k pr qr h => have := h.pend; rw [hpe'] at this; cases this
    | reqPending p' h =>
      have hpp : p' = p := by have := h.pend; rw [hpe'] at this; exact (Option.some.inj this).symm
      subst hpp
      have hbb : e1.base ∈ bases := by rcases hb with h' | h' <;> rw [h'] <;> decide
      have hrep : ({ e1 with pending := none } : Exch).reported = e1.base := rfl
      have hf1 := feed_pending o { e1 with pending := none } e1.liveId x none
        (h.status ▸ pstat_pending p'.kind) (Or.inr (by rw [hl1]; exact h.orig.symm)) hx5
        (by rw [hrep]; rcases hb with h' | h' <;> rw [h'] <;> decide)
      have hf2 := feed_rej_pending
        { o with orderId := some orderIdC, leavesQty := e1.leaves, cumQty := e1.cum, avgPx := some e1.avgPx }
        p'.clOrdId e.liveId (some e1.liveId) e1.base false (h.status ▸ pstat_pending p'.kind) hbb h.orig h.livene
      have h8 : e1.base ≠ "8" := by rcases hb with h' | h' <;> rw [h'] <;> decide
      simp only [h8, if_false] at hf2
      refine ⟨⟨⟨false, by rw [hf1]⟩, ?_, ⟨true, by rw [hf1]; exact congrArg Prod.snd hf2⟩, ?_, trivial⟩, ?_⟩
      · intro hnp
        exact absurd hnp (by rcases pstat_pending p'.kind with h' | h' <;> simp [nonPending, h.status, h'])
      · intro hnp
        rw [hf1] at hnp
        exact absurd hnp (by rcases pstat_pending p'.kind with h' | h' <;> simp [nonPending, h.status, h'])
      · simp only [drain]; rw [hf1, hf2]
        exact Sync0.idle ⟨hk1, rfl, rfl, hbb, hl1.symm, hl1 ▸ h.livene, fun _ => rfl,
          fun h8' => absurd h8' h8, ⟨rfl, rfl, h.nums.price.trans hp1.symm, h.nums.qty.trans hq1.symm⟩⟩

theorem fill_ok {o : Order} {c : List Msg} {e : Exch} (q px : Int) (h : Sync0 o c e) :
    EmitOk o c (e.fill q px) := by
  unfold Exch.fill
  split
  · exact emit_noop h
  · rename_i hen
    simp only [Bool.or_eq_true, Bool.not_eq_true', not_or, Bool.not_eq_false, working, decide_eq_true_eq] at hen
    obtain ⟨⟨⟨hk, hb⟩, _⟩, _⟩ := hen
    have hb' : e.base = "0" ∨ e.base = "1" := by simpa using hb
    simp only
    split
    · exact finish_ok h hk (Or.inl rfl) ⟨hk, rfl, rfl, rfl, rfl⟩
        (by rcases hb' with h' | h' <;> simp [h', idleTrans])
    · exact idle_emit o c e { e with cum := e.cum + q, leaves := e.leaves - q, avgPx := px, base := "1" } "F"
        ⟨hk, hk, rfl, rfl, rfl, rfl, by rcases hb' with h' | h' <;> simp [h', idleTrans], fun _ => rfl,
         fun h8 => by simp at h8⟩ h

/-- expiry – of an order that is not suspended (known finding C17-suspended-expire-ignored) -/
theorem expire_ok {o : Order} {c : List Msg} {e : Exch} (h : Sync0 o c e) (hcalm : e.base ≠ "9") :
    EmitOk o c e.expire := by
  unfold Exch.expire
  split
  · exact emit_noop h
  · rename_i hen
    simp only [Bool.or_eq_true, Bool.not_eq_true', not_or, Bool.not_eq_false, Exchange.live] at hen
    obtain ⟨hk, hb⟩ := hen
    have hb' : e.base = "0" ∨ e.base = "1" := by
      have : e.base = "0" ∨ e.base = "1" ∨ e.base = "9" := by simpa [or_assoc] using hb
      rcases this with h' | h' | h'
      · exact Or.inl h'
      · exact Or.inr h'
      · exact absurd h' hcalm
    exact finish_ok h hk (Or.inr rfl) ⟨hk, rfl, rfl, rfl, rfl⟩
      (by rcases hb' with h' | h' <;> simp [h', idleTrans])

end AsyncFix.Model.OrderLink
