/-
Every action of the reference exchange keeps the relation `Sync0` between the (drained) order and
the exchange, and the reports it emits satisfy `ChainP` – except the two excluded races.
-/
import AsyncFix.Lemmas.OrderObjSync
namespace AsyncFix.Model.OrderLink
open AsyncFix.Model.OrderObj AsyncFix.Model.Exchange AsyncFix.Model.OrderTable AsyncFix.Props.C16

theorem pstat_pending (k : String) : pstat k = "6" ∨ pstat k = "E" := by
  unfold pstat; split <;> simp

theorem reported_of_pending_some {e : Exch} {p : PReq} (h : e.pending = some p) :
    e.reported = pstat p.kind := by
  simp [Exch.reported, h, pstat]

theorem pstat_ne4 (k : String) : pstat k ≠ "4" := by
  unfold pstat; split <;> decide

/-- an order with a pending request digests an execution report that is neither Replaced nor reports Canceled -/
theorem feed_pending (o : Order) (e : Exch) (cl : Str) (ex : String) (orig : Option Str)
    (hp : o.status = "6" ∨ o.status = "E") (hid : cl = o.clordId ∨ some cl = o.origClordId)
    (hex : ex ≠ "5") (hrep : e.reported ≠ "4") :
    feed o (e.execRep cl ex orig) =
      ({ o with orderId := some orderIdC, leavesQty := e.leaves, cumQty := e.cum, avgPx := some e.avgPx },
       .ok false) := by
  rw [feed_execRep o e cl ex orig hid, cs8_pending_none hp hex hrep]
  simp [execApply, hex, finishExec_none]

/-- an execution report that the table accepts with a status change -/
theorem feed_go (o : Order) (e : Exch) (cl : Str) (ex : String) (orig : Option Str)
    (hid : cl = o.clordId ∨ some cl = o.origClordId) (hex : ex ≠ "5")
    (hres : changeStatus spec o.status "8" ex e.reported false = .to e.reported)
    (hsv : e.reported ∈ bases) :
    feed o (e.execRep cl ex orig) =
      ({ o with orderId := some orderIdC, leavesQty := e.leaves, cumQty := e.cum, avgPx := some e.avgPx,
                status := e.reported }, .ok true) := by
  rw [feed_execRep o e cl ex orig hid, hres]
  simp [execApply, hex, finishExec_to _ (bases_sv _ hsv)]

theorem truthy_some {x : Str} (h : x ≠ []) : truthy (some x) = true := by
  cases x with
  | nil => exact absurd rfl h
  | cons a l => rfl

/-- a cancel reject on an order with a pending request: back to the previous id, status as reported -/
theorem feed_rej_pending (o : Order) (cl x : Str) (orig : Option Str) (st : String) (unk : Bool)
    (hp : o.status = "6" ∨ o.status = "E") (hst : st ∈ bases) (ho : o.origClordId = some x) (hx : x ≠ []) :
    feed o (cxlRej cl orig st unk) =
      ({ (if st = "8" then { o with leavesQty := 0 } else o) with
          clordId := x, origClordId := none, status := st }, .ok true) := by
  rw [feed_cxlRej]
  have hcur : o.status ∈ ["6", "E"] := by rcases hp with h | h <;> simp [h]
  rw [cs9_pending _ hcur _ hst]
  simp only
  have hsv := (bases_sv _ hst).1
  by_cases h8 : st = "8"
  · simp [h8, revertId, ho, truthy_some hx, setStatus, h8 ▸ hsv]
  · simp [h8, revertId, ho, truthy_some hx, setStatus, hsv]

/-! ### unsolicited transitions -/

theorem idleTrans_facts : ∀ t ∈ idleTrans, t.2.1 ≠ "5" ∧ t.2.2 ∈ bases ∧ t.2.2 ≠ "4" ∧ t.1 ≠ "4" := by
  decide

structure IdleStep (e e' : Exch) (x : String) : Prop where
  known : e.known = true
  known' : e'.known = true
  liveId : e'.liveId = e.liveId
  price : e'.price = e.price
  qty : e'.qty = e.qty
  pend : e'.pending = e.pending
  trans : (e.base, x, e'.base) ∈ idleTrans
  keep : e.pending ≠ none → live e'.base = true
  rej0 : e'.base = "8" → e'.leaves = 0

theorem idle_emit (o : Order) (c : List Msg) (e e' : Exch) (x : String) (hs : IdleStep e e' x)
    (hsync : Sync0 o c e) :
    ChainP o [e'.execRep e.liveId x none] ∧ Sync0 (drain o [e'.execRep e.liveId x none]) c e' := by
  obtain ⟨hx5, hb', hb4', hb4⟩ := idleTrans_facts _ hs.trans
  simp only at hx5 hb' hb4' hb4
  cases hsync with
  | created h => have := h.known; rw [hs.known] at this; cases this
  | newSent m oo h => have := h.known; rw [hs.known] at this; cases this
  | idle h =>
    have hp' : e'.pending = none := hs.pend.trans h.pend
    have hrep : e'.reported = e'.base := reported_of_pending_none hp'
    have hres : changeStatus spec o.status "8" x e'.reported false = .to e'.reported := by
      rw [hrep, h.status]; exact cs8_idle _ hs.trans
    have hf := feed_go o e' e.liveId x none (Or.inl h.clord.symm) hx5 hres (hrep ▸ hb')
    refine ⟨⟨⟨true, by rw [hf]⟩, ?_, trivial⟩, ?_⟩
    · intro _
      exact ⟨e', x, by rw [h.clord], hx5, hp', hb', hb4'⟩
    · simp only [drain]; rw [hf]
      exact Sync0.idle ⟨hs.known', hp', hrep, hb', h.clord.trans hs.liveId.symm, hs.liveId ▸ h.livene,
        fun _ => h.orig hb4, hs.rej0, ⟨rfl, rfl, h.nums.price.trans hs.price.symm, h.nums.qty.trans hs.qty.symm⟩⟩
  | reqSent m k pr qr h =>
    have hp' : e'.pending = none := hs.pend.trans h.pend
    have hrep : e'.reported = e'.base := reported_of_pending_none hp'
    have hf := feed_pending o e' e.liveId x none (h.status ▸ pstat_pending k) (Or.inr h.orig.symm) hx5
      (hrep ▸ hb4')
    refine ⟨⟨⟨false, by rw [hf]⟩, ?_, trivial⟩, ?_⟩
    · intro hnp
      exact absurd hnp (by rcases pstat_pending k with h' | h' <;> simp [nonPending, h.status, h'])
    · simp only [drain]; rw [hf]
      exact Sync0.reqSent m k pr qr ⟨hs.known', hp', hb', h.kind, hs.liveId ▸ h.req, hs.liveId ▸ h.orig,
        hs.liveId ▸ h.livene, h.clne, h.status, hs.rej0,
        ⟨rfl, rfl, h.nums.price.trans hs.price.symm, h.nums.qty.trans hs.qty.symm⟩⟩
  | reqPending p h =>
    have hp' : e'.pending = some p := hs.pend.trans h.pend
    have hrep : e'.reported = pstat p.kind := reported_of_pending_some hp'
    have hf := feed_pending o e' e.liveId x none (h.status ▸ pstat_pending p.kind) (Or.inr h.orig.symm) hx5
      (hrep ▸ pstat_ne4 _)
    refine ⟨⟨⟨false, by rw [hf]⟩, ?_, trivial⟩, ?_⟩
    · intro hnp
      exact absurd hnp (by rcases pstat_pending p.kind with h' | h' <;> simp [nonPending, h.status, h'])
    · simp only [drain]; rw [hf]
      exact Sync0.reqPending p ⟨hs.known', hp', h.kind, h.pcl, hs.liveId ▸ h.orig, hs.liveId ▸ h.livene,
        h.clne, h.status, hs.keep (by rw [h.pend]; simp),
        ⟨rfl, rfl, h.nums.price.trans hs.price.symm, h.nums.qty.trans hs.qty.symm⟩⟩

end AsyncFix.Model.OrderLink
