import AsyncFix.Model.Restart
import AsyncFix.Lemmas.SessionRel

/-!
Laws of the handler monad `M` (`Conn → Out α`): it is a lawful monad, and pointwise unfolding lemmas for
its primitives.  Used by every `Lemmas/Restart*.lean` file.
-/
namespace AsyncFix.Session

theorem M.bind_def {α β} (x : M α) (f : α → M β) : (x >>= f) = M.bind' x f := rfl
theorem M.pure_def {α} (a : α) : (pure a : M α) = M.pure' a := rfl

instance : LawfulMonad M := LawfulMonad.mk'
  (id_map := by
    intro α x; funext c
    show M.bind' x _ c = x c
    unfold M.bind'
    rcases h : x c with ⟨r, c1, e1⟩
    cases r <;> simp [Function.comp, M.pure'])
  (pure_bind := by
    intro α β a f; funext c
    show M.bind' (M.pure' a) f c = f a c
    simp [M.bind', M.pure'])
  (bind_assoc := by
    intro α β γ x f g; funext c
    show M.bind' (M.bind' x f) g c = M.bind' x (fun a => M.bind' (f a) g) c
    unfold M.bind'
    rcases h : x c with ⟨r, c1, e1⟩
    cases r with
    | error ex => simp
    | ok a =>
      simp only []
      rcases h2 : f a c1 with ⟨r2, c2, e2⟩
      cases r2 with
      | error ex => simp
      | ok b =>
        simp only []
        rcases h3 : g b c2 with ⟨r3, c3, e3⟩
        simp [List.append_assoc])

/-! ### pointwise unfolding (the basic lemmas are in `Lemmas/SessionRel.lean`) -/

@[simp] theorem M.get_bind_apply {β} (f : Conn → M β) (c : Conn) : (M.get >>= f) c = f c c := by
  rw [M.bind_ok (M.get_apply c)]; simp
@[simp] theorem M.throw_bind_apply {α β} (ex : Exc) (f : α → M β) (c : Conn) :
    ((M.throw ex : M α) >>= f) c = ⟨.error ex, c, []⟩ := by
  rw [M.bind_err (M.throw_apply ex c)]
@[simp] theorem M.modify_bind_apply {β} (g : Conn → Conn) (f : Unit → M β) (c : Conn) :
    (M.modify g >>= f) c = f () (g c) := by
  rw [M.bind_ok (M.modify_apply g c)]; simp
@[simp] theorem M.emit_bind_apply {β} (e : Effect) (f : Unit → M β) (c : Conn) :
    (M.emit e >>= f) c = ⟨(f () c).res, (f () c).conn, e :: (f () c).eff⟩ := by
  rw [M.bind_ok (M.emit_apply e c)]; simp

@[simp] theorem M.liftE_ok_bind_apply {α β} (a : α) (f : α → M β) (c : Conn) :
    ((M.liftE (.ok a) : M α) >>= f) c = f a c := by
  rw [M.bind_ok (M.liftE_apply (.ok a) c)]; simp
@[simp] theorem M.liftE_error_bind_apply {α β} (ex : Exc) (f : α → M β) (c : Conn) :
    ((M.liftE (.error ex) : M α) >>= f) c = ⟨.error ex, c, []⟩ := by
  rw [M.bind_err (M.liftE_apply (.error ex) c)]
theorem M.int_some_bind_apply {β} {s : String} {n : Int} (h : pyInt s = some n) (f : Int → M β) (c : Conn) :
    (M.int s >>= f) c = f n c := by
  have : M.int s c = ⟨.ok n, c, []⟩ := by rw [M.int_apply, h]
  rw [M.bind_ok this]; simp
theorem M.int_none_bind_apply {β} {s : String} (h : pyInt s = none) (f : Int → M β) (c : Conn) :
    (M.int s >>= f) c = ⟨.error .value, c, []⟩ := by
  have : M.int s c = ⟨.error .value, c, []⟩ := by rw [M.int_apply, h]
  rw [M.bind_err this]
@[simp] theorem M.assert_true_bind_apply {β} (f : Unit → M β) (c : Conn) :
    (M.assert true >>= f) c = f () c := by
  have : M.assert true c = ⟨.ok (), c, []⟩ := rfl
  rw [M.bind_ok this]; simp
@[simp] theorem M.assert_false_bind_apply {β} (f : Unit → M β) (c : Conn) :
    (M.assert false >>= f) c = ⟨.error .assertion, c, []⟩ := by
  have : M.assert false c = ⟨.error .assertion, c, []⟩ := rfl
  rw [M.bind_err this]

/-- what a returning `x >>= f` says about `f` -/
theorem M.bind_ok_inv {α β} {x : M α} {f : α → M β} {c c1 c2 : Conn} {a : α} {e1 e : List Effect}
    {r : Except Exc β} (hx : x c = ⟨.ok a, c1, e1⟩) (h : (x >>= f) c = ⟨r, c2, e⟩) :
    ∃ e2, f a c1 = ⟨r, c2, e2⟩ ∧ e = e1 ++ e2 := by
  rw [M.bind_ok hx] at h
  rcases hf : f a c1 with ⟨r', c', e'⟩
  rw [hf] at h
  simp only [Out.mk.injEq] at h
  obtain ⟨h1, h2, h3⟩ := h
  subst h1 h2 h3
  exact ⟨e', rfl, rfl⟩

theorem M.ite_bind {α β} (b : Prop) [Decidable b] (x y : M α) (f : α → M β) :
    ((if b then x else y) >>= f) = if b then x >>= f else y >>= f := by
  split <;> rfl

theorem M.ite_apply {α} (b : Prop) [Decidable b] (x y : M α) (c : Conn) :
    (if b then x else y) c = if b then x c else y c := by
  split <;> rfl

@[simp] theorem M.throw_bind {α β} (ex : Exc) (f : α → M β) : ((M.throw ex : M α) >>= f) = M.throw ex := by
  funext c; simp

end AsyncFix.Session
