import AsyncFix.Lemmas.RestartResendB

/-!
Restart family: `_process_message` up to the dispatch (`processHead`, `processDispatch`) satisfies `Good`,
and when the head lets a SequenceReset through, its NewSeqNo already is the live counter (`P2`).
-/
set_option linter.unusedSectionVars false

namespace AsyncFix.Restart

open AsyncFix.Session AsyncFix.Generated AsyncFix.Generated.ConnEnum

variable {g : List Effect → Bool} [EffGuard g] {om : Option Msg}

section walk
-- the guard is `excFree` from here on: `disconnect` swallows the exception of an unsendable Logout
local notation "g" => excFree
attribute [local irreducible] disconnect stateSet processLogon processSeqreset checkSeqnumGaps processLogout
  processResend processTestRequest processHeartbeat sendMsg M.bind' M.pure' M.get M.modify M.emit M.throw
  M.liftE M.assert M.int swallow M.tryCatch

theorem processHead_good (env : Env) (m : Msg) : OkRel g (Good om) (processHead env m) := by
  unfold processHead
  ok_tac [disconnect_good, stateSet_good, Good.modify, processLogon_good, processSeqreset_good,
    checkSeqnumGaps_good, processLogout_good]

theorem processDispatch_good (env : Env) (sr : Msg → Bool) (m : Msg) (valid : Bool) (n : Int) :
    OkRel g (Good om) (processDispatch env sr m valid n) := by
  unfold processDispatch
  ok_tac [processResend_good, processTestRequest_good, processHeartbeat_good, Good.emit]

end walk

/-! ### the live inbound counter is not touched by the sending side (all outcomes) -/

def NI (c c' : Conn) (_ : List Effect) : Prop := c'.sess.nextIn = c.sess.nextIn

instance : Compositional NI where
  refl := fun _ => rfl
  trans := fun h1 h2 => Eq.trans h2 h1

theorem NI.modify {f : Conn → Conn} (h : ∀ c, (f c).sess.nextIn = c.sess.nextIn) : M.Rel NI (M.modify f) :=
  ⟨fun c => by simp only [M.modify_apply]; exact h c⟩
theorem NI.emit (e : Effect) : M.Rel NI (M.emit e) := ⟨fun _ => rfl⟩

theorem stateSet_ni (s : Nat) : M.Rel NI (stateSet s) := by
  unfold stateSet
  exact M.Rel.bind (NI.modify fun _ => rfl) (fun _ => NI.emit _)

theorem sendMsg_ni (env : Env) (m : Msg) : M.Rel NI (sendMsg env m) := by
  unfold sendMsg sendGate sendCore encodeSeq
  rel_tac [stateSet_ni, NI.modify, NI.emit]

theorem checkSeqnumGaps_ni (env : Env) (n : Int) : M.Rel NI (checkSeqnumGaps env n) := by
  unfold checkSeqnumGaps
  rel_tac [stateSet_ni, NI.modify, sendMsg_ni]

/-! ### post-conditions -/

abbrev OkPost {α : Type} (g : List Effect → Bool) (x : M α) (P : α → Conn → Prop) : Prop :=
  OkSpec g x (fun _ a c' _ => P a c')

theorem OkPost.skip {α β : Type} {x : M α} {f : α → M β} {P : β → Conn → Prop}
    (h : ∀ a, OkPost g (f a) P) : OkPost g (x >>= f) P :=
  OkSpec.bind (Q1 := fun _ _ _ _ => True) ⟨fun _ _ _ _ _ _ => trivial⟩ h (fun _ _ _ _ _ _ _ _ h2 => h2)

theorem OkPost.pure {α : Type} {a : α} {P : α → Conn → Prop} (h : ∀ c, P a c) :
    OkPost g (Pure.pure a : M α) P :=
  ⟨fun c _ _ _ hx _ => by cases hx; exact h c⟩

theorem OkPost.liftE_bind {α β : Type} {x : Except Exc α} {f : α → M β} {P : β → Conn → Prop}
    (h : ∀ a, x = .ok a → OkPost g (f a) P) : OkPost g (M.liftE x >>= f) P := by
  constructor
  intro c b c' e hx hg
  cases x with
  | error ex => rw [M.liftE_error_bind_apply] at hx; cases hx
  | ok a => rw [M.liftE_ok_bind_apply] at hx; exact (h a rfl).out c b c' e hx hg

theorem OkPost.int_bind {β : Type} {s : String} {f : Int → M β} {P : β → Conn → Prop}
    (h : ∀ n, pyInt s = some n → OkPost g (f n) P) : OkPost g (M.int s >>= f) P := by
  constructor
  intro c b c' e hx hg
  cases hs : pyInt s with
  | none => rw [M.int_none_bind_apply hs] at hx; cases hx
  | some n => rw [M.int_some_bind_apply hs] at hx; exact (h n hs).out c b c' e hx hg

/-- `x` establishes `F`, the continuation turns `F` into `P` -/
theorem OkPost.bind_pre {α β : Type} {x : M α} {f : α → M β} {F : α → Conn → Prop} {P : β → Conn → Prop}
    (hx : OkPost g x F) (hf : ∀ a, OkSpec g (f a) (fun c b c' _ => F a c → P b c')) : OkPost g (x >>= f) P :=
  OkSpec.bind hx hf (fun _ _ _ _ _ _ _ h1 h2 => h2 h1)

theorem get_newSeqOf {m : Msg} {w : String} {nw : Int} (hw : m.get tNewSeqNo = .ok w) (hn : pyInt w = some nw) :
    newSeqOf m = some nw := by
  unfold Msg.get at hw
  unfold newSeqOf
  split at hw
  · rename_i v hv
    cases hw
    rw [hv]; exact hn
  · cases hw

/-- a SequenceReset that `_process_seqreset` honours leaves the live counter at its NewSeqNo -/
theorem processSeqreset_p2 (m : Msg) : OkPost g (processSeqreset m) (fun ok c' => ok = true → P2 m c') := by
  unfold processSeqreset
  apply OkPost.skip; intro _
  apply OkPost.skip; intro c
  apply OkPost.skip; intro v
  have tail : OkPost g (do
      let w ← M.liftE (m.get tNewSeqNo)
      let nw ← M.int w
      M.assert (decide (nw > 0))
      let n ← M.int v
      setSeqNum none (some n)
      setSeqNum none (some nw)
      pure true) (fun ok c' => ok = true → P2 m c') := by
    apply OkPost.liftE_bind; intro w hw
    apply OkPost.int_bind; intro nw hnw
    apply OkPost.skip; intro _
    apply OkPost.skip; intro n
    apply OkPost.skip; intro _
    constructor
    intro c1 b c' e hx _
    have hs := setSeqNum_in_apply nw c1
    by_cases hpos : nw > 0
    · rw [if_pos hpos] at hs
      rw [M.bind_ok hs] at hx
      simp only [M.pure_apply, List.append_nil, Out.mk.injEq] at hx
      obtain ⟨_, hc, _⟩ := hx
      subst hc
      intro _ _
      exact get_newSeqOf hw hnw
    · rw [if_neg hpos] at hs
      rw [M.bind_err hs] at hx
      cases hx
  have jp : ∀ honoured : Bool, OkPost g (if (!honoured) = true then pure false else (do
      let w ← M.liftE (m.get tNewSeqNo)
      let nw ← M.int w
      M.assert (decide (nw > 0))
      let n ← M.int v
      setSeqNum none (some n)
      setSeqNum none (some nw)
      pure true)) (fun ok c' => ok = true → P2 m c') := by
    intro honoured
    split
    · exact OkPost.pure (fun _ h => by cases h)
    · exact tail
  dsimp only
  split
  · apply OkPost.skip; intro n
    split
    · apply OkPost.skip; intro honoured; exact jp honoured
    · apply OkPost.skip; intro w
      apply OkPost.skip; intro nw
      apply OkPost.skip; intro honoured; exact jp honoured
  · apply OkPost.skip; intro honoured; exact jp honoured

end AsyncFix.Restart
