import AsyncFix.Lemmas.RestartInboundB

/-!
Restart family: crash states of inbound processing of an application message, part 3 (segments 3-5 and
the theorem over all crash points).
-/
set_option linter.unusedSectionVars false

namespace AsyncFix.Restart

open AsyncFix.Session AsyncFix.Generated AsyncFix.Generated.ConnEnum

/-- all outcomes: the inbound side of the JOURNAL is untouched -/
def JIR (c c' : Conn) (_ : List Effect) : Prop :=
  c'.journal.inSeq = c.journal.inSeq ∧ c'.journal.inb = c.journal.inb

instance : Compositional JIR where
  refl := fun _ => ⟨rfl, rfl⟩
  trans := fun h1 h2 => ⟨h2.1.trans h1.1, h2.2.trans h1.2⟩

theorem JIR.of_insame {α : Type} {x : M α} (h : M.Rel InSameR x) : M.Rel JIR x :=
  h.mono (fun _ _ _ hs => ⟨hs.2.1, hs.2.2⟩)

theorem JIR.modify {f : Conn → Conn} (h : ∀ c, (f c).journal = c.journal) : M.Rel JIR (M.modify f) :=
  ⟨fun c => by
    simp only [M.modify_apply]
    show (f c).journal.inSeq = c.journal.inSeq ∧ (f c).journal.inb = c.journal.inb
    rw [h c]; exact ⟨rfl, rfl⟩⟩

theorem JIR.emit (e : Effect) : M.Rel JIR (M.emit e) := ⟨fun _ => ⟨rfl, rfl⟩⟩

theorem stateSet_jir (s : Nat) : M.Rel JIR (stateSet s) := by
  unfold stateSet
  exact M.Rel.bind (JIR.modify fun _ => rfl) (fun _ => JIR.emit _)

theorem setNextNumIn_jir (m : Msg) : M.Rel JIR (setNextNumIn m) := by
  unfold setNextNumIn
  rel_tac [JIR.modify]

theorem recvCount_jir (m : Msg) (s : RecvSt) : M.Rel JIR (recvCount m s) := by
  unfold recvCount
  rel_tac [setNextNumIn_jir]

theorem recvMark_jir (env : Env) (s : RecvSt) : M.Rel JIR (recvMark env s) := by
  unfold recvMark
  rel_tac [stateSet_jir, JIR.modify]

theorem recvDispatch_insame (env : Env) (sr : Msg → Bool) (m : Msg) (happ : isApp m = true) (s : RecvSt) :
    M.Rel InSameR (recvDispatch env sr m s) :=
  ⟨fun c => by rw [recvDispatch_apply env sr m happ]; split <;> exact InSame.refl c⟩

/-- segments run in order keep an all-outcomes relation that each of them keeps -/
theorem runSegs_rel {σ : Type} {R : Conn → Conn → List Effect → Prop} [Compositional R]
    (segs : List (Seg σ)) (h : ∀ f ∈ segs, ∀ s, M.Rel R (f s)) (s : σ) : M.Rel R (runSegs segs s) := by
  induction segs generalizing s with
  | nil => exact M.Rel.pure _
  | cons f r ih =>
    unfold runSegs
    exact M.Rel.bind (h f (List.mem_cons_self ..) s)
      (fun s' => ih (fun f' hf' => h f' (List.mem_cons_of_mem _ hf')) s')

/-- segments 1-4 -/
def recvPre4 (sr : Msg → Bool) (env : Env) (m : Msg) : M RecvSt :=
  runSegs [recvHead env m, recvDispatch env sr m, recvCount m, recvMark env] {}

theorem recvPre4_jir (sr : Msg → Bool) (env : Env) (m : Msg) (happ : isApp m = true) :
    M.Rel JIR (recvPre4 sr env m) := by
  apply runSegs_rel
  intro f hf s
  simp only [List.mem_cons, List.not_mem_nil, or_false] at hf
  rcases hf with rfl | rfl | rfl | rfl
  · exact JIR.of_insame (recvHead_insame env m happ s)
  · exact JIR.of_insame (recvDispatch_insame env sr m happ s)
  · exact recvCount_jir m s
  · exact recvMark_jir env s

theorem recvPrefix_le4_jir (k : Nat) (hk : k ≤ 4) (sr : Msg → Bool) (env : Env) (m : Msg)
    (happ : isApp m = true) : M.Rel JIR (recvPrefix k sr env m) := by
  apply runSegs_rel
  intro f hf s
  have hf' := List.mem_of_mem_take hf
  -- the fifth segment is not among the first four
  have : f ∈ [recvHead env m, recvDispatch env sr m, recvCount m, recvMark env] := by
    have htake : (recvSegs sr env m).take k = ([recvHead env m, recvDispatch env sr m, recvCount m, recvMark env]).take k := by
      match k, hk with
      | 0, _ | 1, _ | 2, _ | 3, _ | 4, _ => rfl
    rw [htake] at hf
    exact List.mem_of_mem_take hf
  simp only [List.mem_cons, List.not_mem_nil, or_false] at this
  rcases this with rfl | rfl | rfl | rfl
  · exact JIR.of_insame (recvHead_insame env m happ s)
  · exact JIR.of_insame (recvDispatch_insame env sr m happ s)
  · exact recvCount_jir m s
  · exact recvMark_jir env s

/-! ### what holds when segments 1-4 return and still have something to journal -/

theorem recvCount_spec (m : Msg) (happ : isApp m = true) (s : RecvSt) :
    OkSpec noGuard (recvCount m s) (fun c s3 _ e3 =>
      e3 = [] ∧ (s3.go = true → s.go = true ∧ s.valid = true ∧ seqOf m = some c.sess.nextIn)) := by
  constructor
  intro c s3 c3 e3 h _
  obtain ⟨_, _, _, h4, _, _⟩ := isApp_types happ
  unfold recvCount at h
  by_cases hgv : (s.go && s.valid) = true
  · rw [if_pos hgv] at h
    rcases hs : setNextNumIn m c with ⟨r, c1, e1⟩
    cases r with
    | error ex => rw [M.bind_err hs] at h; cases h
    | ok n =>
      obtain ⟨e2, hp, he⟩ := M.bind_ok_inv hs h
      cases hp
      obtain ⟨he1, hcases⟩ := setNextNumIn_ok hs
      subst he1 he
      refine ⟨rfl, fun hgo => ?_⟩
      simp only [Bool.and_eq_true] at hgv
      rcases hcases with ⟨h4', _⟩ | ⟨_, hB⟩
      · rw [h4'] at h4; simp at h4
      · rcases hB with ⟨hn0, _⟩ | ⟨hsq, hk, _⟩
        · simp only [decide_eq_true_eq] at hgo; omega
        · exact ⟨hgv.1, hgv.2, by rw [← hk]; exact hsq⟩
  · rw [if_neg hgv] at h
    cases h
    exact ⟨rfl, fun hgo => by cases hgo⟩

theorem recvMark_val (env : Env) (s : RecvSt) : OkPost noGuard (recvMark env s) (fun s4 _ => s4 = s) := by
  unfold recvMark
  dsimp only
  repeat' first
    | split
    | (apply OkPost.skip; intro _)
    | exact OkPost.pure (fun _ => rfl)

theorem recvPre4_spec (sr : Msg → Bool) (env : Env) (m : Msg) (happ : isApp m = true) :
    OkSpec noGuard (recvPre4 sr env m) (fun c s4 _ e4 =>
      s4.go = true → seqOf m = some c.sess.nextIn ∧ Effect.deliver m ∈ e4) := by
  unfold recvPre4
  simp only [runSegs, bind_pure]
  -- segment 1
  refine OkSpec.bind
    (Q1 := fun c s1 c1 _ => InSame c c1 ∧ (s1.go = true → seqOf m = some s1.n))
    (Q2 := fun s1 c1 s4 _ e => s4.go = true →
      (s1.go = true → seqOf m = some s1.n) → seqOf m = some c1.sess.nextIn ∧ Effect.deliver m ∈ e)
    ((OkSpec.ofRel (recvHead_insame env m happ {})).and (recvHead_val env m happ {})) ?_
    (fun c s1 c1 e1 s4 c4 e h1 h2 hgo => by
      obtain ⟨hq, hd⟩ := h2 hgo h1.2
      exact ⟨by rw [← h1.1.1]; exact hq, List.mem_append_right _ hd⟩)
  intro s1
  -- segment 2
  refine OkSpec.bind
    (Q1 := fun c1 s2 c2 e2 => s2 = s1 ∧ InSame c1 c2 ∧
      (s1.go = true → s1.valid = true → s1.n = c1.sess.nextIn → Effect.deliver m ∈ e2))
    (Q2 := fun s2 c2 s4 _ e => s4.go = true → s2.go = true ∧ s2.valid = true ∧ seqOf m = some c2.sess.nextIn)
    ⟨fun c1 s2 c2 e2 h _ => by
      rw [recvDispatch_apply env sr m happ] at h
      split at h
      · rename_i hc
        cases h
        exact ⟨rfl, InSame.refl _, fun _ _ _ => List.mem_singleton.mpr rfl⟩
      · rename_i hc
        cases h
        refine ⟨rfl, InSame.refl _, fun hg hv hn => ?_⟩
        exfalso; apply hc; simp [hg, hv, hn]⟩ ?_
    (fun c1 s2 c2 e2 s4 c4 e h1 h2 hgo hval => by
      obtain ⟨hs, hin, hdel⟩ := h1
      subst hs
      obtain ⟨hg, hv, hq⟩ := h2 hgo
      rw [hin.1] at hq
      have hn : s2.n = c1.sess.nextIn := by
        have := hval hg; rw [this] at hq; exact Option.some.inj hq
      exact ⟨hq, List.mem_append_left _ (hdel hg hv hn)⟩)
  intro s2
  -- segments 3, 4
  refine OkSpec.bind (recvCount_spec m happ s2)
    (Q2 := fun s3 _ s4 _ _ => s4 = s3) (fun s3 => recvMark_val env s3)
    (fun c2 s3 c3 e3 s4 c4 e4 h1 h2 hgo => by subst h2; exact h1.2 hgo)

/-- all five segments: segments 1-4, then the journal write -/
theorem recvPrefix_ge5 (k : Nat) (hk : 5 ≤ k) (sr : Msg → Bool) (env : Env) (m : Msg) :
    recvPrefix k sr env m = recvPre4 sr env m >>= fun s => recvJournal m s := by
  have : (recvSegs sr env m).take k = recvSegs sr env m := by
    apply List.take_of_length_le; simpa [recvSegs] using hk
  rw [recvPrefix, this]
  simp [recvSegs, recvPre4, runSegs]

/-- EVERY crash point of inbound processing of an application message: either the inbound side of the
journal is untouched, or the frame is journaled under the number the old object expected, that number is
the frame's own, and `on_message` had been called with it. -/
theorem recv_crash_app (k : Nat) (sr : Msg → Bool) (env : Env) (m : Msg) (happ : isApp m = true) (c : Conn) :
    let o := recvPrefix k sr env m c
    (o.conn.journal.inSeq = c.journal.inSeq ∧ o.conn.journal.inb = c.journal.inb) ∨
    (seqOf m = some c.sess.nextIn ∧ o.conn.journal.inSeq = c.sess.nextIn ∧
      o.conn.journal.inb.find c.sess.nextIn = some m ∧ Effect.deliver m ∈ o.eff) := by
  intro o
  by_cases hk : k ≤ 4
  · exact Or.inl ((recvPrefix_le4_jir k hk sr env m happ).out c)
  · have hk5 : 5 ≤ k := by omega
    have ho : o = (recvPre4 sr env m >>= fun s => recvJournal m s) c := by
      show recvPrefix k sr env m c = _
      rw [recvPrefix_ge5 k hk5]
    have hj4 := (recvPre4_jir sr env m happ).out c
    rcases h4 : recvPre4 sr env m c with ⟨r, c4, e4⟩
    rw [h4] at hj4
    cases r with
    | error ex => rw [ho, M.bind_err h4]; exact Or.inl hj4
    | ok s4 =>
      have hsp := (recvPre4_spec sr env m happ).out c s4 c4 e4 h4 rfl
      rw [ho, M.bind_ok h4]
      unfold recvJournal
      cases hgo : s4.go with
      | false =>
        simp only [Bool.false_eq_true, if_false, M.pure_apply, List.append_nil]
        exact Or.inl hj4
      | true =>
        simp only [if_true]
        obtain ⟨hseq, hdel⟩ := hsp hgo
        rcases hp : persistInbound m c4 with ⟨r5, c5, e5⟩
        cases r5 with
        | error ex =>
          -- persistInbound changes nothing when it raises
          have hc5 : c5.journal = c4.journal := by
            unfold persistInbound at hp
            cases hv : m.get? tMsgSeqNum with
            | none => simp only [hv, M.throw_bind_apply] at hp; cases hp; rfl
            | some v =>
              cases hn : pyInt v with
              | none => simp only [hv, hn, M.throw_bind_apply] at hp; cases hp; rfl
              | some seq =>
                simp only [hv, hn, pure_bind, M.get_bind_apply] at hp
                cases hj : c4.journal.persist .inbound seq m with
                | none => simp only [hj, M.throw_apply] at hp; cases hp; rfl
                | some j => simp only [hj, M.modify_apply] at hp; cases hp
          rw [M.bind_err hp]
          exact Or.inl ⟨by rw [hc5]; exact hj4.1, by rw [hc5]; exact hj4.2⟩
        | ok u =>
          obtain ⟨he5, seq, j, hsq, hj, hc5⟩ := persistInbound_ok hp
          subst he5 hc5
          obtain ⟨hji, _, _, hjf⟩ := persist_in_fields hj
          have hseq' : seq = c.sess.nextIn := by rw [hseq] at hsq; exact (Option.some.inj hsq).symm
          rw [M.bind_ok hp]
          simp only [M.pure_apply, List.append_nil]
          right
          exact ⟨hseq, by show j.inSeq = _; rw [hji, hseq'], by show j.inb.find _ = _; rw [← hseq']; exact hjf, hdel⟩

end AsyncFix.Restart
