/-
Structure of the piece `encoded = msg[:next_msg]` that `decode` parses, with respect to the
CheckSum pattern `SOH "10="`:  after any occurrence of the pattern inside `encoded` there is
no further SOH except possibly the very last byte.  Hence a field with tag "10" that is not
the first field is the LAST field (`fieldsOf_ck_last`).
-/
import AsyncFix.Lemmas.CodecDecodeShape
namespace AsyncFix.Model.Codec

/-- `"10="` -/
def ck3 : Bytes := [49, 48, 61]

theorem cksumPat_eq : cksumPat = SOH :: ck3 := rfl
theorem ckField_eq (v : Bytes) : tag10 ++ EQS :: v = ck3 ++ v := rfl

theorem append_split_of_le {x y a z : Bytes} (h : x ++ y = a ++ z) (hl : x.length ≤ a.length) :
    ∃ a', a = x ++ a' ∧ y = a' ++ z := by
  rcases List.append_eq_append_iff.1 h with ⟨a', ha, hy⟩ | ⟨c', hc, hz⟩
  · exact ⟨a', ha, hy⟩
  · have : c' = [] := by
      have := congrArg List.length hc
      simp only [List.length_append] at this
      exact List.length_eq_zero_iff.1 (by omega)
    subst this
    simp only [List.append_nil, List.nil_append] at hc hz
    exact ⟨[], by simp [hc], by simp [hz]⟩

/-- in `A ++ [c]` with `c ∉ A` the only `c` is the last element -/
theorem last_sep {c : Nat} {A Y Z : Bytes} (hA : c ∉ A) (h : A ++ [c] = Y ++ c :: Z) : Z = [] ∧ Y = A := by
  rcases List.append_eq_append_iff.1 h with ⟨a', ha, hy⟩ | ⟨c', hc, hz⟩
  · have hl := congrArg List.length hy
    simp only [List.length_append, List.length_cons, List.length_nil] at hl
    have h1 : a' = [] := List.length_eq_zero_iff.1 (by omega)
    have h2 : Z = [] := List.length_eq_zero_iff.1 (by omega)
    subst h1; subst h2
    exact ⟨rfl, by simpa using ha⟩
  · cases c' with
    | nil =>
      simp only [List.nil_append, List.cons.injEq, true_and] at hz
      simp only [List.append_nil] at hc
      exact ⟨hz, hc.symm⟩
    | cons d c'' =>
      simp only [List.cons_append, List.cons.injEq] at hz
      exfalso; apply hA
      rw [hc, ← hz.1]; simp

theorem drop_succ_of_eq {P X : Bytes} {s : Nat} (msg : Bytes) (h : msg = P ++ s :: X) {n : Nat}
    (hn : P.length = n) : msg.drop (n + 1) = X := by
  subst h; subst hn
  have : P ++ s :: X = (P ++ [s]) ++ X := by simp
  rw [this]
  exact List.drop_left' (by simp)

/-- after an occurrence of `SOH "10="` inside the parsed piece there is no SOH, except that the
piece may end with one -/
theorem enc_ck_tail (msg : Bytes) (a b : Bytes)
    (henc : msg.take (cutOf msg) = a ++ (cksumPat ++ b)) :
    SOH ∉ b ∨ ∃ v, b = v ++ [SOH] ∧ SOH ∉ v := by
  have hmsg : msg = a ++ (cksumPat ++ (b ++ msg.drop (cutOf msg))) := by
    have := List.take_append_drop (cutOf msg) msg
    rw [henc] at this
    simpa only [List.append_assoc] using this.symm
  cases hci : findSub cksumPat msg with
  | none => exact absurd hmsg (findSub_none (by decide) hci _ _)
  | some ci =>
    obtain ⟨P, R, hPR, hl⟩ := findSub_some hci
    have hmin := findSub_min hci hmsg
    have hdrop : msg.drop (ci + 1) = ck3 ++ R := drop_succ_of_eq msg hPR hl
    cases he : findChar SOH (msg.drop (ci + 1)) with
    | none =>
      rw [hdrop] at he
      have hno := findChar_none he
      obtain ⟨a', ha, hy⟩ := append_split_of_le (hPR.symm.trans hmsg) (by omega)
      cases a' with
      | nil =>
        left
        simp only [List.nil_append] at hy
        have : R = b ++ msg.drop (cutOf msg) := List.append_cancel_left hy
        intro hb; apply hno
        rw [this]; simp [hb]
      | cons d a'' =>
        exfalso; apply hno
        rw [cksumPat_eq] at hy
        simp only [List.cons_append, List.cons.injEq] at hy
        rw [hy.2]; simp
    | some e =>
      obtain ⟨A, B, hAB, hAl, hAn⟩ := findChar_some he
      rw [hdrop] at hAB
      have hcut : cutOf msg = e + (ci + 1) + 1 := by
        unfold cutOf closedAtOf; simp only [hci, he, Option.getD_some]
      have htake : msg.take (cutOf msg) = P ++ SOH :: (A ++ [SOH]) := by
        have : msg = (P ++ SOH :: (A ++ [SOH])) ++ B := by
          rw [hPR, cksumPat_eq]
          simp only [List.cons_append, List.append_assoc, List.nil_append]
          rw [hAB]
        rw [hcut, this]
        exact List.take_left' (by simp; omega)
      rw [htake] at henc
      obtain ⟨a', ha, hy⟩ := append_split_of_le henc (by omega)
      cases a' with
      | nil =>
        right
        rw [cksumPat_eq] at hy
        simp only [List.nil_append, List.cons_append, List.cons.injEq, true_and] at hy
        rcases List.eq_nil_or_concat b with hb | ⟨b', l, hb⟩
        · subst hb
          exfalso
          have : SOH ∈ ck3 := by rw [List.append_nil] at hy; rw [← hy]; simp
          revert this; decide
        · rw [List.concat_eq_append] at hb
          subst hb
          rw [← List.append_assoc] at hy
          have h1 := List.append_inj' hy rfl
          have hl' : l = SOH := by simpa using h1.2.symm
          refine ⟨b', by rw [hl'], ?_⟩
          intro hb'; apply hAn; rw [h1.1]; simp [hb']
      | cons d a'' =>
        exfalso
        rw [cksumPat_eq] at hy
        simp only [List.cons_append, List.cons.injEq] at hy
        have := (last_sep hAn hy.2).1
        simp [ck3] at this

/-! ### consequences for the field list -/

theorem fieldsOf_cases (enc : Bytes) :
    splitOn SOH enc = fieldsOf enc ++ [[]] ∨
    (splitOn SOH enc = fieldsOf enc ∧ ∀ X, splitOn SOH enc ≠ X ++ [[]]) := by
  unfold fieldsOf
  dsimp only
  rcases List.eq_nil_or_concat (splitOn SOH enc) with h | ⟨X, a, h⟩
  · exact absurd h (splitOn_ne_nil _ _)
  · rw [List.concat_eq_append] at h
    rw [h]
    simp only [List.getLast?_concat, Option.getD_some, List.dropLast_concat]
    by_cases ha : a = []
    · subst ha; left; simp
    · right
      have : (a == []) = false := by simpa using ha
      simp only [this]
      refine ⟨by simp, ?_⟩
      intro X' hX
      have := (List.append_inj' hX rfl).2
      simp only [List.cons.injEq, and_true] at this
      exact ha this

/-- a non-first field starting with `"10="` is followed by nothing, or by one empty element -/
theorem splitOn_ck_last (msg : Bytes) {F G : List Bytes} {w : Bytes}
    (h : splitOn SOH (msg.take (cutOf msg)) = F ++ (ck3 ++ w) :: G) (hF : F ≠ []) :
    G = [] ∨ G = [[]] := by
  by_cases hG : G = []
  · exact Or.inl hG
  · right
    have hj := join_splitOn SOH (msg.take (cutOf msg))
    rw [h, join_append SOH hF (by simp), join_cons_of_ne SOH _ hG] at hj
    have henc : msg.take (cutOf msg) = join SOH F ++ (cksumPat ++ (w ++ SOH :: join SOH G)) := by
      rw [← hj, cksumPat_eq]; simp
    rcases enc_ck_tail msg _ _ henc with hno | ⟨v, hv, hvn⟩
    · exfalso; apply hno; simp
    · have := (last_sep hvn hv.symm).1
      rcases join_eq_nil this with h1 | h1
      · exact absurd h1 hG
      · exact h1

/-- **a field with tag "10" that is not the first field is the last field** -/
theorem fieldsOf_ck_last (msg : Bytes) {F G : List Bytes} {w : Bytes}
    (h : fieldsOf (msg.take (cutOf msg)) = F ++ (ck3 ++ w) :: G) (hF : F ≠ []) : G = [] := by
  rcases fieldsOf_cases (msg.take (cutOf msg)) with h0 | ⟨h0, hno⟩
  · rw [h] at h0
    have h1 : splitOn SOH (msg.take (cutOf msg)) = F ++ (ck3 ++ w) :: (G ++ [[]]) := by
      rw [h0]; simp
    rcases splitOn_ck_last msg h1 hF with h2 | h2
    · simp at h2
    · cases G with
      | nil => rfl
      | cons g gs =>
        have := congrArg List.length h2
        simp at this
  · rw [h] at h0
    rcases splitOn_ck_last msg h0 hF with h2 | h2
    · exact h2
    · exfalso
      apply hno (F ++ [ck3 ++ w])
      rw [h0, h2]; simp

/-- the parsed piece is its fields joined by SOH, possibly followed by one more SOH -/
theorem enc_eq_join (enc : Bytes) (hne : fieldsOf enc ≠ []) :
    enc = join SOH (fieldsOf enc) ∨ enc = join SOH (fieldsOf enc) ++ [SOH] := by
  have hj := join_splitOn SOH enc
  rcases fieldsOf_cases enc with h0 | ⟨h0, _⟩
  · right
    rw [h0, join_append SOH hne (by simp)] at hj
    have h1 : join SOH [[]] = [] := rfl
    rw [h1] at hj
    exact hj.symm
  · left
    rw [h0] at hj; exact hj.symm

end AsyncFix.Model.Codec
