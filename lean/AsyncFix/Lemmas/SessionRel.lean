import AsyncFix.Model.Session

/-!
Session family, proof infrastructure (reusable by every property proved over the session model).

1. evaluation lemmas for the monad `M` (`M.bind_apply`, …): `simp` with them runs a handler on a
   connection whose relevant fields are known;
2. trace functions on effect lists: `track` (the state the `on_state_change` calls leave behind),
   `nDisc`, `nTrans`;
3. *compositional relations* `R : Conn → Conn → List Effect → Prop` (reflexive, and closed under
   sequencing with `++` on the effects) and the rules that lift `M.Rel R` through `bind`, `if`,
   `tryCatch`, …  Every unconditional trace invariant of the handlers is proved with these rules by
   `unfold h; rel_tac [callee lemmas]`.
-/
namespace AsyncFix.Session

open AsyncFix.Generated.ConnEnum

/-! ### evaluation -/
section eval
variable {α β : Type}

theorem M.bind_apply (x : M α) (f : α → M β) (c : Conn) :
    (x >>= f) c = (match x c with
      | ⟨.ok a, c1, e1⟩ => (match f a c1 with | ⟨r, c2, e2⟩ => ⟨r, c2, e1 ++ e2⟩)
      | ⟨.error ex, c1, e1⟩ => ⟨.error ex, c1, e1⟩) := rfl

@[simp] theorem M.pure_apply (a : α) (c : Conn) : (pure a : M α) c = ⟨.ok a, c, []⟩ := rfl
@[simp] theorem M.throw_apply (ex : Exc) (c : Conn) : (M.throw ex : M α) c = ⟨.error ex, c, []⟩ := rfl
@[simp] theorem M.get_apply (c : Conn) : M.get c = ⟨.ok c, c, []⟩ := rfl
@[simp] theorem M.modify_apply (f : Conn → Conn) (c : Conn) : M.modify f c = ⟨.ok (), f c, []⟩ := rfl
@[simp] theorem M.emit_apply (e : Effect) (c : Conn) : M.emit e c = ⟨.ok (), c, [e]⟩ := rfl
@[simp] theorem M.liftE_apply (x : Except Exc α) (c : Conn) : M.liftE x c = ⟨x, c, []⟩ := rfl

theorem M.tryCatch_apply (x : M α) (h : Exc → M α) (c : Conn) :
    M.tryCatch x h c = (match x c with
      | ⟨.ok a, c1, e1⟩ => ⟨.ok a, c1, e1⟩
      | ⟨.error ex, c1, e1⟩ => (match h ex c1 with | ⟨r, c2, e2⟩ => ⟨r, c2, e1 ++ e2⟩)) := rfl

theorem M.assert_apply (b : Bool) (c : Conn) :
    M.assert b c = if b then ⟨.ok (), c, []⟩ else ⟨.error .assertion, c, []⟩ := by
  cases b <;> rfl

theorem M.int_apply (s : String) (c : Conn) :
    M.int s c = (match pyInt s with | some n => ⟨.ok n, c, []⟩ | none => ⟨.error .value, c, []⟩) := by
  unfold M.int; cases pyInt s <;> rfl

/-- `(x >>= f) c` when the outcome of `x c` is known -/
theorem M.bind_ok {x : M α} {f : α → M β} {c c1 : Conn} {a : α} {e1 : List Effect}
    (h : x c = ⟨.ok a, c1, e1⟩) :
    (x >>= f) c = ⟨(f a c1).res, (f a c1).conn, e1 ++ (f a c1).eff⟩ := by
  rw [M.bind_apply, h]

theorem M.bind_err {x : M α} {f : α → M β} {c c1 : Conn} {ex : Exc} {e1 : List Effect}
    (h : x c = ⟨.error ex, c1, e1⟩) : (x >>= f) c = ⟨.error ex, c1, e1⟩ := by
  rw [M.bind_apply, h]

theorem M.tryCatch_ok {x : M α} {h : Exc → M α} {c c1 : Conn} {a : α} {e1 : List Effect}
    (hx : x c = ⟨.ok a, c1, e1⟩) : M.tryCatch x h c = ⟨.ok a, c1, e1⟩ := by
  rw [M.tryCatch_apply, hx]

theorem M.tryCatch_err {x : M α} {h : Exc → M α} {c c1 : Conn} {ex : Exc} {e1 : List Effect}
    (hx : x c = ⟨.error ex, c1, e1⟩) :
    M.tryCatch x h c = ⟨(h ex c1).res, (h ex c1).conn, e1 ++ (h ex c1).eff⟩ := by
  rw [M.tryCatch_apply, hx]

/-- `do y; raise ex` never returns -/
theorem M.bind_throw_res {γ : Type} (y : M α) (ex : Exc) (c : Conn) :
    ∃ ex' c' e', (y >>= fun _ => (M.throw ex : M γ)) c = ⟨.error ex', c', e'⟩ := by
  rw [M.bind_apply]
  rcases y c with ⟨r, c1, e1⟩
  cases r with
  | error e0 => exact ⟨e0, c1, e1, rfl⟩
  | ok a => exact ⟨ex, c1, e1 ++ [], rfl⟩

/-- `try: x except Exception as ex: y; raise` returns only when `x` returns, with `x`'s outcome -/
theorem M.tryCatch_rethrow_ok {x : M α} {y : M β} {c c' : Conn} {a : α} {e : List Effect}
    (h : M.tryCatch x (fun ex => y >>= fun _ => (M.throw ex : M α)) c = ⟨.ok a, c', e⟩) :
    x c = ⟨.ok a, c', e⟩ := by
  rcases hx : x c with ⟨r, c1, e1⟩
  cases r with
  | ok b => rw [M.tryCatch_ok hx] at h; exact h
  | error ex =>
    rw [M.tryCatch_err hx] at h
    obtain ⟨ex', c2, e2, h2⟩ := M.bind_throw_res (γ := α) y ex c1
    rw [h2] at h
    cases h

end eval

/-! ### trace functions -/

/-- the connection state after the `on_state_change` calls of a trace, starting from `s` -/
def track (s : Nat) : List Effect → Nat
  | [] => s
  | .onState s' :: r => track s' r
  | _ :: r => track s r

/-- number of `on_disconnect` calls -/
def nDisc : List Effect → Nat
  | [] => 0
  | .onDisconnect :: r => nDisc r + 1
  | _ :: r => nDisc r

/-- disconnected states, exactly as the code tests them (`<= DISCONNECTED_BROKEN_CONN`) -/
def isDisc (s : Nat) : Bool := decide (s ≤ st_DISCONNECTED_BROKEN_CONN)

/-- number of transitions from a connected into a disconnected state reported by `on_state_change`,
starting from state `s` -/
def nTrans (s : Nat) : List Effect → Nat
  | [] => 0
  | .onState s' :: r => (if !isDisc s && isDisc s' then 1 else 0) + nTrans s' r
  | _ :: r => nTrans s r

theorem track_append (s : Nat) (a b : List Effect) : track s (a ++ b) = track (track s a) b := by
  induction a generalizing s with
  | nil => rfl
  | cons x xs ih => cases x <;> simp [track, ih]

theorem nDisc_append (a b : List Effect) : nDisc (a ++ b) = nDisc a + nDisc b := by
  induction a with
  | nil => simp [nDisc]
  | cons x xs ih => cases x <;> simp [nDisc, ih] <;> omega

theorem nTrans_append (s : Nat) (a b : List Effect) :
    nTrans s (a ++ b) = nTrans s a + nTrans (track s a) b := by
  induction a generalizing s with
  | nil => simp [nTrans, track]
  | cons x xs ih => cases x <;> simp [nTrans, track, ih] <;> omega

/-! ### compositional relations -/

class Compositional (R : Conn → Conn → List Effect → Prop) : Prop where
  refl : ∀ c, R c c []
  trans : ∀ {c c1 c2 e1 e2}, R c c1 e1 → R c1 c2 e2 → R c c2 (e1 ++ e2)

/-- `x` relates every start connection to its outcome (whether it returns or raises).
(A structure, so that `intro` does not unfold it.) -/
structure M.Rel {α : Type} (R : Conn → Conn → List Effect → Prop) (x : M α) : Prop where
  out : ∀ c, R c (x c).conn (x c).eff

namespace M.Rel
variable {α β : Type} {R : Conn → Conn → List Effect → Prop} [Compositional R]

theorem pure (a : α) : M.Rel R (Pure.pure a : M α) := ⟨fun c => Compositional.refl c⟩
theorem throw (ex : Exc) : M.Rel R (M.throw ex : M α) := ⟨fun c => Compositional.refl c⟩
theorem get : M.Rel R M.get := ⟨fun c => Compositional.refl c⟩
theorem liftE (x : Except Exc α) : M.Rel R (M.liftE x) := ⟨fun c => Compositional.refl c⟩
theorem assert (b : Bool) : M.Rel R (M.assert b) := by
  constructor; intro c; rw [M.assert_apply]; split <;> exact Compositional.refl c
theorem int (s : String) : M.Rel R (M.int s) := by
  constructor; intro c; rw [M.int_apply]; split <;> exact Compositional.refl c

theorem bind {x : M α} {f : α → M β} (hx : M.Rel R x) (hf : ∀ a, M.Rel R (f a)) :
    M.Rel R (x >>= f) := by
  constructor
  intro c
  have h1 := hx.out c
  rcases hxc : x c with ⟨r, c1, e1⟩
  rw [hxc] at h1
  cases r with
  | error ex => rw [M.bind_err hxc]; exact h1
  | ok a => rw [M.bind_ok hxc]; exact Compositional.trans h1 ((hf a).out c1)

theorem tryCatch {x : M α} {h : Exc → M α} (hx : M.Rel R x) (hh : ∀ ex, M.Rel R (h ex)) :
    M.Rel R (M.tryCatch x h) := by
  constructor
  intro c
  have h1 := hx.out c
  rcases hxc : x c with ⟨r, c1, e1⟩
  rw [hxc] at h1
  cases r with
  | ok a => rw [M.tryCatch_ok hxc]; exact h1
  | error ex => rw [M.tryCatch_err hxc]; exact Compositional.trans h1 ((hh ex).out c1)

omit [Compositional R] in
theorem ite {p : Prop} [Decidable p] {a b : M α} (ha : M.Rel R a) (hb : M.Rel R b) :
    M.Rel R (if p then a else b) := by
  split <;> assumption

omit [Compositional R] in
theorem modify {f : Conn → Conn} (h : ∀ c, R c (f c) []) : M.Rel R (M.modify f) := ⟨h⟩
omit [Compositional R] in
theorem emit {e : Effect} (h : ∀ c, R c c [e]) : M.Rel R (M.emit e) := ⟨h⟩

end M.Rel

/-- weaken a relation -/
theorem M.Rel.mono {α : Type} {R S : Conn → Conn → List Effect → Prop} {x : M α}
    (h : ∀ c c' e, R c c' e → S c c' e) (hx : M.Rel R x) : M.Rel S x := ⟨fun c => h _ _ _ (hx.out c)⟩

end AsyncFix.Session
