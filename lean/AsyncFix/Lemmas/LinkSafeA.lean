import AsyncFix.Model.LinkInv

/-!
Link family, safety invariant (`SafeInv`), part A: journal / `appView` / `frameOK` lemmas, the consequences of
`Safe` used by the property statements, and the two generic preservation lemmas

* `safe_send` – the sender `X` of a direction changes by a `SendStep` (journal grows / is rebuilt, frames written);
* `safe_recv` – the receiver `Y` of a direction consumes the head of the queue by a `RecvStep`.
-/
namespace AsyncFix.Link

open AsyncFix.Session

/-! ### `appView` -/

theorem appView_append (A B : AJournal) : appView (A ++ B) = appView A ++ appView B := by
  simp [appView]

theorem mem_appView {J : AJournal} {n : Int} {p : Payload} : (n, p) ∈ appView J ↔ (n, some p) ∈ J := by
  induction J with
  | nil => simp [appView]
  | cons x J ih =>
    obtain ⟨k, v⟩ := x
    cases v with
    | none => simp [appView] at ih ⊢; exact ih
    | some q =>
      simp [appView] at ih ⊢
      rw [ih]

theorem mem_appView' {J : AJournal} {x : Int × Payload} : x ∈ appView J ↔ (x.1, some x.2) ∈ J :=
  mem_appView (n := x.1) (p := x.2)

theorem appView_sorted {J : AJournal} (h : J.Pairwise (fun a b => a.1 < b.1)) :
    (appView J).Pairwise (fun a b => a.1 < b.1) := by
  induction J with
  | nil => simp [appView]
  | cons x J ih =>
    rw [List.pairwise_cons] at h
    obtain ⟨k, v⟩ := x
    have ih' := ih h.2
    cases v with
    | none => simpa [appView] using ih'
    | some q =>
      have : appView ((k, some q) :: J) = (k, q) :: appView J := by simp [appView]
      rw [this, List.pairwise_cons]
      refine ⟨fun y hy => ?_, ih'⟩
      exact h.1 _ (mem_appView'.1 hy)

/-- a strictly ascending journal holds at most one row per number -/
theorem sorted_functional {α} {L : List (Int × α)} (h : L.Pairwise (fun a b => a.1 < b.1)) {n : Int} {a b : α}
    (ha : (n, a) ∈ L) (hb : (n, b) ∈ L) : a = b := by
  induction L with
  | nil => simp at ha
  | cons x L ih =>
    rw [List.pairwise_cons] at h
    rcases List.mem_cons.1 ha with rfl | ha' <;> rcases List.mem_cons.1 hb with hb' | hb'
    · exact (Prod.mk.inj hb').2.symm
    · have := h.1 _ hb'; simp at this
    · subst hb'; have := h.1 _ ha'; simp at this
    · exact ih h.2 ha' hb'

/-! ### filters of ascending lists -/

theorem filter_lt_eq_nil {α} {L : List (Int × α)} {e : Int} (h : ∀ r ∈ L, e ≤ r.1) :
    L.filter (fun r => r.1 < e) = [] := by
  rw [List.filter_eq_nil_iff]
  intro r hr
  have := h r hr
  simp; omega

theorem filter_lt_eq_self {α} {L : List (Int × α)} {e : Int} (h : ∀ r ∈ L, r.1 < e) :
    L.filter (fun r => r.1 < e) = L := by
  rw [List.filter_eq_self]
  intro r hr
  simpa using h r hr

theorem filter_lt_prefix {α} {L : List (Int × α)} (h : L.Pairwise (fun a b => a.1 < b.1)) (e : Int) :
    L.filter (fun r => r.1 < e) <+: L := by
  induction L with
  | nil => simp
  | cons x L ih =>
    rw [List.pairwise_cons] at h
    by_cases hx : x.1 < e
    · rw [List.filter_cons_of_pos (by simpa using hx)]
      exact (List.prefix_cons_inj x).2 (ih h.2)
    · rw [List.filter_cons_of_neg (by simpa using hx)]
      rw [filter_lt_eq_nil (fun r hr => by have := h.1 r hr; omega)]
      exact List.nil_prefix

/-- a strictly ascending list splits at `b` -/
theorem filter_split {α} {L : List (Int × α)} (h : L.Pairwise (fun a b => a.1 < b.1)) (b : Int) :
    L.filter (fun r => r.1 < b) ++ L.filter (fun r => b ≤ r.1) = L := by
  induction L with
  | nil => simp
  | cons x L ih =>
    rw [List.pairwise_cons] at h
    by_cases hx : x.1 < b
    · rw [List.filter_cons_of_pos (by simpa using hx), List.filter_cons_of_neg (by simp; omega)]
      simp [ih h.2]
    · rw [List.filter_cons_of_neg (by simpa using hx), List.filter_cons_of_pos (by simp; omega)]
      rw [filter_lt_eq_nil (fun r hr => by have := h.1 r hr; omega)]
      have : L.filter (fun r => decide (b ≤ r.1)) = L := by
        rw [List.filter_eq_self]
        intro r hr
        have := h.1 r hr
        simp; omega
      simp [this]

/-- accepting the application row numbered `e` extends the delivered view by that row -/
theorem filter_succ_of_mem {L : List (Int × Payload)} (h : L.Pairwise (fun a b => a.1 < b.1)) {e : Int}
    {p : Payload} (hm : (e, p) ∈ L) :
    L.filter (fun r => r.1 < e + 1) = L.filter (fun r => r.1 < e) ++ [(e, p)] := by
  induction L with
  | nil => simp at hm
  | cons x L ih =>
    rw [List.pairwise_cons] at h
    rcases List.mem_cons.1 hm with rfl | hm'
    · rw [List.filter_cons_of_pos (by simp; omega), List.filter_cons_of_neg (by simp)]
      rw [filter_lt_eq_nil (fun r hr => by have := h.1 r hr; simp at this; omega)]
      rw [filter_lt_eq_nil (fun r hr => by have := h.1 r hr; simp at this; omega)]
      simp
    · have hx := h.1 _ hm'
      simp at hx
      rw [List.filter_cons_of_pos (by simp; omega), List.filter_cons_of_pos (by simp; omega)]
      simp [ih h.2 hm']

/-- skipping numbers that hold no application row leaves the delivered view unchanged -/
theorem filter_skip {J : AJournal} {e e' : Int} (hle : e ≤ e')
    (hn : ∀ r ∈ J, e ≤ r.1 → r.1 < e' → r.2 = none) :
    (appView J).filter (fun r => r.1 < e') = (appView J).filter (fun r => r.1 < e) := by
  apply List.filter_congr
  intro x hx
  have hm := mem_appView'.1 hx
  by_cases h1 : x.1 < e
  · simp [h1]; omega
  · by_cases h2 : x.1 < e'
    · have := hn _ hm (by simp; omega) (by simpa using h2)
      simp at this
    · simp [h1, h2]

/-! ### `frameOK` under journal changes -/

/-- old frames stay `frameOK` when application rows keep (number, payload) and every other row of the new
journal is an old row, a session row, numbered at or above the old counter, or numbered below the frame -/
theorem frameOK_mono' {J J' : AJournal} {o o' : Int} {f : AFrame} (h : frameOK J o f) (ho : o ≤ o')
    (hk : ∀ n p, (n, some p) ∈ J → (n, some p) ∈ J')
    (hr : ∀ r ∈ J', r ∈ J ∨ r.2 = none ∨ o ≤ r.1 ∨ r.1 < f.seq) : frameOK J' o' f := by
  obtain ⟨h1, h2, h3⟩ := h
  refine ⟨h1, by omega, ?_⟩
  cases hkind : f.kind with
  | app p pd => simp only [hkind] at h3 ⊢; exact hk _ _ h3
  | gapFill nw =>
    simp only [hkind] at h3 ⊢
    refine ⟨h3.1, by omega, fun r hr' ha hb => ?_⟩
    rcases hr r hr' with h | h | h | h
    · exact h3.2.2 r h ha hb
    · exact h
    · omega
    · omega
  | logon =>
    simp only [hkind] at h3 ⊢
    intro r hr' he
    rcases hr r hr' with h | h | h | h
    · exact h3 r h he
    · exact h
    · omega
    · omega
  | logout =>
    simp only [hkind] at h3 ⊢
    intro r hr' he
    rcases hr r hr' with h | h | h | h
    · exact h3 r h he
    · exact h
    · omega
    · omega
  | resend b =>
    simp only [hkind] at h3 ⊢
    intro r hr' he
    rcases hr r hr' with h | h | h | h
    · exact h3 r h he
    · exact h
    · omega
    · omega

theorem frameOK_mono {J J' : AJournal} {o o' : Int} {f : AFrame} (h : frameOK J o f) (ho : o ≤ o')
    (hk : ∀ n p, (n, some p) ∈ J → (n, some p) ∈ J')
    (hr : ∀ r ∈ J', r ∈ J ∨ r.2 = none ∨ o ≤ r.1) : frameOK J' o' f :=
  frameOK_mono' h ho hk fun r hr' => by
    rcases hr r hr' with h | h | h
    · exact Or.inl h
    · exact Or.inr (Or.inl h)
    · exact Or.inr (Or.inr (Or.inl h))

/-- rows numbered below the frame may be prepended -/
theorem frameOK_prepend {P N : AJournal} {o : Int} {f : AFrame} (h : frameOK N o f)
    (hp : ∀ r ∈ P, r.1 < f.seq) : frameOK (P ++ N) o f :=
  frameOK_mono' h (Int.le_refl _) (fun _ _ hm => List.mem_append_right _ hm) fun r hr => by
    rcases List.mem_append.1 hr with h | h
    · exact Or.inr (Or.inr (Or.inr (hp r h)))
    · exact Or.inl h

/-- the sender of a direction moves from `(o, J)` to `(o', J')`, writing `wr`; `ext` = new application rows -/
structure SendStep (o : Int) (J : AJournal) (o' : Int) (J' : AJournal) (wr : List AFrame)
    (ext : List (Int × Payload)) : Prop where
  keys : keysOK o' J'
  mono : o ≤ o'
  view : appView J' = appView J ++ ext
  extge : ∀ r ∈ ext, o ≤ r.1
  rows : ∀ r ∈ J', r ∈ J ∨ r.2 = none ∨ o ≤ r.1
  new : ∀ f ∈ wr, frameOK J' o' f

theorem SendStep.old {o J o' J' wr ext} (s : SendStep o J o' J' wr ext) {f : AFrame} (h : frameOK J o f) :
    frameOK J' o' f := by
  refine frameOK_mono h s.mono (fun n p hm => ?_) s.rows
  have : (n, p) ∈ appView J' := by rw [s.view]; exact List.mem_append_left _ (mem_appView.2 hm)
  exact mem_appView.1 this

theorem SendStep.refl {o J} (hk : keysOK o J) : SendStep o J o J [] [] :=
  ⟨hk, Int.le_refl _, by simp, by simp, fun _ h => Or.inl h, by simp⟩

theorem SendStep.trans {o J o' J' wr ext o'' J'' wr' ext'} (s : SendStep o J o' J' wr ext)
    (t : SendStep o' J' o'' J'' wr' ext') : SendStep o J o'' J'' (wr ++ wr') (ext ++ ext') := by
  refine ⟨t.keys, Int.le_trans s.mono t.mono, by rw [t.view, s.view, List.append_assoc], ?_, ?_, ?_⟩
  · intro r hr
    rcases List.mem_append.1 hr with h | h
    · exact s.extge r h
    · exact Int.le_trans s.mono (t.extge r h)
  · intro r hr
    rcases t.rows r hr with h | h | h
    · exact s.rows r h
    · exact Or.inr (Or.inl h)
    · exact Or.inr (Or.inr (Int.le_trans s.mono h))
  · intro f hf
    rcases List.mem_append.1 hf with h | h
    · exact t.old (s.new f h)
    · exact t.new f h

/-- sender side of a direction: `X` changes by a `SendStep`, `Y` is fixed -/
theorem safe_send {X Y X' : AConn} {Q delY accX wireX wr ext} (h : Safe X Y Q delY accX wireX)
    (s : SendStep X.o X.out X'.o X'.out wr ext) :
    Safe X' Y (Q ++ wr) delY (accX ++ ext.map (·.2)) (wireX ++ wr) := by
  refine ⟨s.keys, h.e1, Int.le_trans h.s2 s.mono, ?_, ?_, ?_, ?_⟩
  · rw [s.view, List.filter_append, filter_lt_eq_nil (fun r hr => Int.le_trans h.s2 (s.extge r hr))]
    simpa using h.s1
  · rw [s.view, List.map_append, h.acc]
  · intro f hf
    rcases List.mem_append.1 hf with h' | h'
    · exact s.old (h.wire f h')
    · exact s.new f h'
  · intro f hf
    rcases List.mem_append.1 hf with h' | h'
    · exact List.mem_append_left _ (h.sub f h')
    · exact List.mem_append_right _ h'

/-- only `o` and `out` of the sender and `e` of the receiver matter -/
theorem Safe.congr {X Y X' Y' : AConn} {Q delY accX wireX} (h : Safe X Y Q delY accX wireX)
    (ho : X'.o = X.o) (hj : X'.out = X.out) (he : Y'.e = Y.e) : Safe X' Y' Q delY accX wireX := by
  obtain ⟨a, b, c, d, e, f, g⟩ := h
  exact ⟨by rw [ho, hj]; exact a, by rw [he]; exact b, by rw [he, ho]; exact c, by rw [hj, he]; exact d,
    by rw [hj]; exact e, by rw [ho, hj]; exact f, g⟩

theorem Safe.subQ {X Y : AConn} {Q Q' delY accX wireX} (h : Safe X Y Q delY accX wireX)
    (hq : ∀ f ∈ Q', f ∈ Q) : Safe X Y Q' delY accX wireX :=
  ⟨h.keys, h.e1, h.s2, h.s1, h.acc, h.wire, fun f hf => h.sub f (hq f hf)⟩

/-- what the receiver does with frame `f`: ignore it, or accept it as number `e` and move to `f.next` -/
def RecvStep (e : Int) (f : AFrame) (e' : Int) (dl : List (Int × Payload)) : Prop :=
  (e' = e ∧ dl = []) ∨
  (f.seq = e ∧ f.seq < f.next ∧ e' = f.next ∧
    dl = match f.kind with
      | .app p _ => [(f.seq, p)]
      | _ => [])

/-- receiver side of a direction: `Y` consumes a frame of `X`'s wire log, `X` is fixed -/
theorem safe_recv {X Y Y' : AConn} {Q delY accX wireX} {f : AFrame} {dl} (h : Safe X Y Q delY accX wireX)
    (hf : f ∈ wireX) (r : RecvStep Y.e f Y'.e dl) : Safe X Y' Q (delY ++ dl) accX wireX := by
  rcases r with ⟨he, hd⟩ | ⟨hs, hlt, he, hd⟩
  · subst hd
    simpa using h.congr (X' := X) (Y' := Y') rfl rfl he
  · have hok := h.wire f hf
    obtain ⟨k1, k2, k3⟩ := hok
    have hsorted := appView_sorted h.keys.1
    refine ⟨h.keys, by rw [he]; have := h.e1; omega, ?_, ?_, h.acc, h.wire, h.sub⟩
    · rw [he]
      cases hkind : f.kind with
      | gapFill nw => simp only [hkind] at k3; simp [AFrame.next, hkind]; omega
      | _ => simp [AFrame.next, hkind]; omega
    · rw [he, h.s1, hd]
      cases hkind : f.kind with
      | app p pd =>
        simp only [hkind] at k3
        have hn : f.next = Y.e + 1 := by simp [AFrame.next, hkind, hs]
        rw [hn, hs]
        exact (filter_succ_of_mem hsorted (mem_appView.2 (hs ▸ k3))).symm
      | gapFill nw =>
        simp only [hkind] at k3
        have hn : f.next = nw := by simp [AFrame.next, hkind]
        rw [hn, List.append_nil]
        exact (filter_skip (by omega) (fun r hr ha hb => k3.2.2 r hr (by omega) hb)).symm
      | logon =>
        simp only [hkind] at k3
        have hn : f.next = Y.e + 1 := by simp [AFrame.next, hkind, hs]
        rw [hn, List.append_nil]
        exact (filter_skip (by omega) (fun r hr ha hb => k3 r hr (by omega))).symm
      | logout =>
        simp only [hkind] at k3
        have hn : f.next = Y.e + 1 := by simp [AFrame.next, hkind, hs]
        rw [hn, List.append_nil]
        exact (filter_skip (by omega) (fun r hr ha hb => k3 r hr (by omega))).symm
      | resend b =>
        simp only [hkind] at k3
        have hn : f.next = Y.e + 1 := by simp [AFrame.next, hkind, hs]
        rw [hn, List.append_nil]
        exact (filter_skip (by omega) (fun r hr ha hb => k3 r hr (by omega))).symm

/-! ### consequences used by the property statements -/

/-- delivered payloads are a prefix of the accepted ones -/
theorem safe_prefix {X Y Q delY accX wireX} (h : Safe X Y Q delY accX wireX) : (delY.map (·.2)) <+: accX := by
  rw [h.s1, ← h.acc]
  exact (filter_lt_prefix (appView_sorted h.keys.1) Y.e).map _

/-- delivered numbers strictly increase -/
theorem safe_seq_increasing {X Y Q delY accX wireX} (h : Safe X Y Q delY accX wireX) :
    delY.Pairwise (fun a b => a.1 < b.1) := by
  rw [h.s1]
  exact (appView_sorted h.keys.1).filter _

theorem safe_complete {X Y Q delY accX wireX} (h : Safe X Y Q delY accX wireX) (he : Y.e = X.o) :
    delY.map (·.2) = accX := by
  rw [h.s1, ← h.acc, he, filter_lt_eq_self]
  intro r hr
  exact (h.keys.2 _ (mem_appView'.1 hr)).2

theorem safe_number_stable {X Y Q delY accX wireX} (h : Safe X Y Q delY accX wireX) {f g : AFrame}
    (hf : f ∈ wireX) (hg : g ∈ wireX) (hs : f.seq = g.seq) {p q pd qd} (hfk : f.kind = .app p pd)
    (hgk : g.kind = .app q qd) : p = q := by
  have h1 := (h.wire f hf).2.2
  have h2 := (h.wire g hg).2.2
  simp only [hfk] at h1
  simp only [hgk] at h2
  rw [hs] at h1
  exact Option.some.inj (sorted_functional h.keys.1 h1 h2)

end AsyncFix.Link
