import AsyncFix.Lemmas.SessionOutFrame

/-!
C05 proof machinery: a pointwise Hoare triple for the handler monad `M`.

`Hold sr U X c x Q`: started in `c`, the computation `x` ends (normally **or by raising**) in a
connection related to `c` by `Good` – in particular `OutInv` holds there – and, when it ends normally
with value `a`, `Q a c'` holds.  Rules for `pure`, `throw`, `bind`, `get`, `modify`, `emit`,
`liftE`, `assert`, `int`, `tryCatch`, `run`.
-/
namespace AsyncFix.Session

open AsyncFix.Generated AsyncFix.Generated.ConnEnum

variable {sr : Msg → Bool} {U X : Prop} {α β : Type}

def Hold (sr : Msg → Bool) (U X : Prop) (c : Conn) (x : M α) (Q : α → Conn → Prop) : Prop :=
  Good sr U X c (x c).conn (x c).eff ∧ ∀ a, (x c).res = .ok a → Q a (x c).conn

theorem M.bind_eq (x : M α) (f : α → M β) : (x >>= f) = M.bind' x f := rfl
theorem M.pure_eq (a : α) : (pure a : M α) = M.pure' a := rfl

theorem M.bind'_ok {x : M α} {f : α → M β} {c c1 c2 : Conn} {a : α} {e1 e2 : List Effect}
    {r2 : Except Exc β} (h1 : x c = ⟨.ok a, c1, e1⟩) (h2 : f a c1 = ⟨r2, c2, e2⟩) :
    M.bind' x f c = ⟨r2, c2, e1 ++ e2⟩ := by
  simp [M.bind', h1, h2]

theorem M.bind'_err {x : M α} {f : α → M β} {c c1 : Conn} {ex : Exc} {e1 : List Effect}
    (h1 : x c = ⟨.error ex, c1, e1⟩) : M.bind' x f c = ⟨.error ex, c1, e1⟩ := by
  simp [M.bind', h1]

theorem M.tryCatch_ok {x : M α} {h : Exc → M α} {c c1 : Conn} {a : α} {e1 : List Effect}
    (h1 : x c = ⟨.ok a, c1, e1⟩) : M.tryCatch x h c = ⟨.ok a, c1, e1⟩ := by
  simp [M.tryCatch, h1]

theorem M.tryCatch_err {x : M α} {h : Exc → M α} {c c1 c2 : Conn} {ex : Exc} {e1 e2 : List Effect}
    {r2 : Except Exc α} (h1 : x c = ⟨.error ex, c1, e1⟩) (h2 : h ex c1 = ⟨r2, c2, e2⟩) :
    M.tryCatch x h c = ⟨r2, c2, e1 ++ e2⟩ := by
  simp [M.tryCatch, h1, h2]

theorem Hold.pure {c : Conn} {a : α} {Q : α → Conn → Prop} (hI : OutInv c) (hQ : Q a c) :
    Hold sr U X c (pure a) Q :=
  ⟨Good.refl hI, fun b hb => by cases hb; exact hQ⟩

theorem Hold.throw {c : Conn} {ex : Exc} {Q : α → Conn → Prop} (hI : OutInv c) :
    Hold sr U X c (M.throw ex) Q :=
  ⟨Good.refl hI, fun b hb => by cases hb⟩

theorem Hold.bind {c : Conn} {x : M α} {f : α → M β} {Q : α → Conn → Prop} {Q' : β → Conn → Prop}
    (hx : Hold sr U X c x Q)
    (hf : ∀ a c1, OutInv c1 → Q a c1 → Hold sr U X c1 (f a) Q') :
    Hold sr U X c (x >>= f) Q' := by
  rw [M.bind_eq]
  unfold Hold at hx ⊢
  obtain ⟨hg, hq⟩ := hx
  rcases hxc : x c with ⟨r, c1, e1⟩
  rw [hxc] at hg hq
  cases r with
  | error ex => rw [M.bind'_err hxc]; exact ⟨hg, fun a ha => by cases ha⟩
  | ok a =>
    have h2 := hf a c1 hg.inv (hq a rfl)
    rcases hfc : f a c1 with ⟨r2, c2, e2⟩
    unfold Hold at h2
    rw [hfc] at h2
    rw [M.bind'_ok hxc hfc]
    exact ⟨hg.trans h2.1, h2.2⟩

/-- `let c ← M.get; …` : the bound variable IS the current connection -/
theorem Hold.get {c : Conn} {f : Conn → M β} {Q' : β → Conn → Prop}
    (hf : OutInv c → Hold sr U X c (f c) Q') (hI : OutInv c) :
    Hold sr U X c (M.get >>= f) Q' := by
  have h := hf hI
  rw [M.bind_eq]
  unfold Hold at h ⊢
  rcases hfc : f c c with ⟨r2, c2, e2⟩
  rw [hfc] at h
  rw [M.bind'_ok (x := M.get) (c := c) (c1 := c) (a := c) (e1 := []) rfl hfc]
  simpa using h

theorem Hold.weaken {c : Conn} {x : M α} {Q Q' : α → Conn → Prop} (hx : Hold sr U X c x Q)
    (h : ∀ a c', OutInv c' → Q a c' → Q' a c') : Hold sr U X c x Q' :=
  ⟨hx.1, fun a ha => h a _ hx.1.inv (hx.2 a ha)⟩

theorem Hold.modify {c : Conn} {g : Conn → Conn} {Q : Unit → Conn → Prop} (hI : OutInv (g c))
    (he : OutEq c (g c)) (hQ : Q () (g c)) : Hold sr U X c (M.modify g) Q :=
  ⟨Good.refl_of_eq hI he, fun _ _ => hQ⟩

def Effect.isWrite : Effect → Bool
  | .write _ => true
  | _ => false

theorem newWrites_nonwrite (e : Effect) (h : e.isWrite = false) : newWrites [e] = [] := by
  cases e <;> simp_all [newWrites, Effect.isWrite]

theorem Good.emit {c : Conn} (e : Effect) (h : e.isWrite = false) (hI : OutInv c) :
    Good sr U X c c [e] := by
  have hn := newWrites_nonwrite e h
  exact {
    inv := hI, ids := ⟨rfl, rfl⟩
    num := by rw [hn]; trivial
    cnt := by rw [hn]; simp
    keepSlot := fun _ _ _ _ _ hs => hs
    freshSlot := by intro _ _ f hf; rw [hn] at hf; cases hf
    keepRow := fun _ _ _ hg => hg
    freshRow := by intro _ f hf; rw [hn] at hf; cases hf }

theorem Hold.emit {c : Conn} {e : Effect} {Q : Unit → Conn → Prop} (h : e.isWrite = false)
    (hI : OutInv c) (hQ : Q () c) : Hold sr U X c (M.emit e) Q :=
  ⟨Good.emit e h hI, fun _ _ => hQ⟩

theorem Hold.liftE {c : Conn} {x : Except Exc α} {Q : α → Conn → Prop} (hI : OutInv c)
    (hQ : ∀ a, x = .ok a → Q a c) : Hold sr U X c (M.liftE x) Q :=
  ⟨Good.refl hI, fun a ha => hQ a ha⟩

theorem Hold.assert {c : Conn} {b : Bool} {Q : Unit → Conn → Prop} (hI : OutInv c)
    (hQ : b = true → Q () c) : Hold sr U X c (M.assert b) Q := by
  unfold M.assert
  split
  · rename_i hb; exact Hold.pure hI (hQ hb)
  · exact Hold.throw hI

theorem Hold.int {c : Conn} {s : String} {Q : Int → Conn → Prop} (hI : OutInv c)
    (hQ : ∀ n, pyInt s = some n → Q n c) : Hold sr U X c (M.int s) Q := by
  unfold M.int
  split
  · rename_i n hn; exact Hold.pure hI (hQ n hn)
  · exact Hold.throw hI

theorem Hold.tryCatch {c : Conn} {x : M α} {h : Exc → M α} {Q : α → Conn → Prop}
    (hx : Hold sr U X c x Q) (hh : ∀ ex c1, OutInv c1 → Hold sr U X c1 (h ex) Q) :
    Hold sr U X c (M.tryCatch x h) Q := by
  unfold Hold at hx ⊢
  obtain ⟨hg, hq⟩ := hx
  rcases hxc : x c with ⟨r, c1, e1⟩
  rw [hxc] at hg hq
  cases r with
  | ok a => rw [M.tryCatch_ok hxc]; exact ⟨hg, fun b hb => by cases hb; exact hq a rfl⟩
  | error ex =>
    have h2 := hh ex c1 hg.inv
    rcases hfc : h ex c1 with ⟨r2, c2, e2⟩
    unfold Hold at h2
    rw [hfc] at h2
    rw [M.tryCatch_err hxc hfc]
    exact ⟨hg.trans h2.1, h2.2⟩

theorem Hold.ite {c : Conn} {p : Prop} [Decidable p] {x y : M α} {Q : α → Conn → Prop}
    (hx : p → Hold sr U X c x Q) (hy : ¬p → Hold sr U X c y Q) :
    Hold sr U X c (if p then x else y) Q := by
  split
  · exact hx ‹_›
  · exact hy ‹_›

/-- top-level entry point: the escaping exception is one more (non-write) effect -/
theorem Hold.run {c : Conn} {x : M α} {Q : α → Conn → Prop} (hx : Hold sr U X c x Q) :
    Good sr U X c (x.run c).1 (x.run c).2 := by
  unfold M.run
  obtain ⟨hg, _⟩ := hx
  rcases hxc : x c with ⟨r, c1, e1⟩
  rw [hxc] at hg
  cases r with
  | ok a => exact hg
  | error ex => exact hg.trans (Good.emit (.raised ex) rfl hg.inv)

/-- `swallow`: `except Exception: log` -/
theorem Hold.swallow {c : Conn} {x : M α} {d : α} {Q : α → Conn → Prop}
    (hx : Hold sr U X c x Q) (hd : ∀ c1, OutInv c1 → Q d c1) :
    Hold sr U X c (swallow d x) Q := by
  unfold Session.swallow
  apply Hold.tryCatch hx
  intro ex c1 hI
  exact Hold.bind (Q := fun _ c' => c' = c1) (Hold.emit rfl hI rfl)
    (fun _ c2 hI2 h2 => Hold.pure hI2 (by subst h2; exact hd _ hI2))

end AsyncFix.Session
