/-
C13: the invariant `JInv` holds for the empty journal and is preserved by every statement
and every public method.
-/
import AsyncFix.Lemmas.JournalSpec
namespace AsyncFix.Model.Journal

theorem jinv_empty : JInv {} := by
  constructor <;> simp

theorem le_maxRowid {l : List MsgRow} {r : MsgRow} (h : r ∈ l) : r.rowid ≤ maxRowid l := by
  induction l with
  | nil => cases h
  | cons x xs ih =>
    simp only [maxRowid]
    rcases List.mem_cons.mp h with rfl | h
    · omega
    · have := ih h; omega

theorem isPair_iff (r : SessRow) (t s : String) : r.isPair t s = true ↔ r.target = t ∧ r.sender = s := by
  simp [SessRow.isPair]

theorem isKey_iff (r : MsgRow) (seq key : Int) (dir : Dir) :
    r.isKey seq key dir = true ↔ r.seq = seq ∧ r.sid = key ∧ r.dir = dir := by
  simp [MsgRow.isKey, and_assoc]

/-! ### statements -/

theorem insSession_inv {j j' : Journal} {t s : String} {id : Nat} (hinv : JInv j)
    (h : insSession j t s = some (j', id)) : JInv j' := by
  unfold insSession at h
  split at h
  · cases h
  · rename_i hany
    simp only [Option.some.injEq, Prod.mk.injEq] at h
    obtain ⟨rfl, rfl⟩ := h
    have hno : ∀ r ∈ j.sessions, ¬(r.target = t ∧ r.sender = s) := by
      intro r hr hc
      exact hany (List.any_eq_true.mpr ⟨r, hr, (isPair_iff r t s).mpr hc⟩)
    constructor
    · simp only [List.pairwise_append, List.pairwise_cons, List.Pairwise.nil, List.mem_singleton]
      refine ⟨hinv.pairUnique, ⟨by simp, trivial⟩, ?_⟩
      intro a ha b hb; subst hb; exact hno a ha
    · simp only [List.pairwise_append, List.pairwise_cons, List.Pairwise.nil, List.mem_singleton]
      refine ⟨hinv.sidAsc, ⟨by simp, trivial⟩, ?_⟩
      intro a ha b hb; subst hb; exact hinv.sidLt a ha
    · intro r hr
      simp only [List.mem_append, List.mem_singleton] at hr
      rcases hr with hr | rfl
      · have := hinv.sidLt r hr; simp only; omega
      · simp
    · exact hinv.keyUnique
    · exact hinv.rowidAsc

theorem insMsg_inv {j j' : Journal} {seq key : Int} {dir : Dir} {msg : Bytes} (hinv : JInv j)
    (h : insMsg j seq key dir msg = some j') : JInv j' := by
  unfold insMsg at h
  split at h
  · cases h
  · rename_i hany
    simp only [Option.some.injEq] at h
    subst h
    have hno : ∀ r ∈ j.msgs, ¬(r.seq = seq ∧ r.sid = key ∧ r.dir = dir) := by
      intro r hr hc
      exact hany (List.any_eq_true.mpr ⟨r, hr, (isKey_iff r seq key dir).mpr hc⟩)
    constructor
    · exact hinv.pairUnique
    · exact hinv.sidAsc
    · exact hinv.sidLt
    · simp only [List.pairwise_append, List.pairwise_cons, List.Pairwise.nil, List.mem_singleton]
      refine ⟨hinv.keyUnique, ⟨by simp, trivial⟩, ?_⟩
      intro a ha b hb; subst hb; exact hno a ha
    · simp only [List.pairwise_append, List.pairwise_cons, List.Pairwise.nil, List.mem_singleton]
      refine ⟨hinv.rowidAsc, ⟨by simp, trivial⟩, ?_⟩
      intro a ha b hb; subst hb
      have := le_maxRowid ha
      simp only; omega

/-- an UPDATE of counter columns keeps ids and CompIDs -/
theorem map_sessions_inv {j : Journal} (f : SessRow → SessRow)
    (hf : ∀ r, (f r).sid = r.sid ∧ (f r).target = r.target ∧ (f r).sender = r.sender) (hinv : JInv j) :
    JInv { j with sessions := j.sessions.map f } := by
  constructor
  · simp only [List.pairwise_map]
    exact hinv.pairUnique.imp (by intro a b h; rw [(hf a).2.1, (hf a).2.2, (hf b).2.1, (hf b).2.2]; exact h)
  · simp only [List.pairwise_map]
    exact hinv.sidAsc.imp (by intro a b h; rw [(hf a).1, (hf b).1]; exact h)
  · intro r hr
    simp only [List.mem_map] at hr
    obtain ⟨a, ha, rfl⟩ := hr
    rw [(hf a).1]; exact hinv.sidLt a ha
  · exact hinv.keyUnique
  · exact hinv.rowidAsc

theorem updCounter_inv {j : Journal} (dir : Dir) (seq key : Int) (hinv : JInv j) :
    JInv (updCounter j dir seq key) := by
  unfold updCounter
  apply map_sessions_inv _ _ hinv
  intro r; split
  · cases dir <;> simp
  · simp

theorem updBoth_inv {j : Journal} (i o key : Int) (hinv : JInv j) : JInv (updBoth j i o key) := by
  unfold updBoth
  apply map_sessions_inv _ _ hinv
  intro r; split <;> simp

theorem delFrom_inv {j : Journal} (key seq : Int) (dir : Dir) (hinv : JInv j) :
    JInv (delFrom j key seq dir) := by
  unfold delFrom
  constructor
  · exact hinv.pairUnique
  · exact hinv.sidAsc
  · exact hinv.sidLt
  · exact hinv.keyUnique.filter _
  · exact hinv.rowidAsc.filter _

/-! ### public methods -/

theorem createOrLoad_inv {j : Journal} (t s : String) (hinv : JInv j) : JInv (createOrLoad j t s).1 := by
  unfold createOrLoad
  split
  · rename_i j' id h; exact insSession_inv hinv h
  · split <;> exact hinv

theorem persist_inv {j : Journal} (msg : Bytes) (h : Handle) (dir : Dir) (hinv : JInv j) :
    JInv (persist j msg h dir).1 := by
  unfold persist
  split
  · exact hinv
  · split
    · exact hinv
    · split
      · exact hinv
      · rename_i j1 h1; exact updCounter_inv _ _ _ (insMsg_inv hinv h1)

theorem setSeqNum_inv {j : Journal} (h : Handle) (out inn : Option Int) (hinv : JInv j) :
    JInv (setSeqNum j h out inn).1 := by
  unfold setSeqNum
  split
  · exact hinv
  split
  · exact hinv
  split
  · exact hinv
  · exact delFrom_inv _ _ _ (delFrom_inv _ _ _ (updBoth_inv _ _ _ hinv))

theorem applyOp_inv {j : Journal} (op : Op) (hinv : JInv j) : JInv (applyOp j op).1 := by
  cases op with
  | createOrLoad t s => exact createOrLoad_inv t s hinv
  | persist msg h dir => exact persist_inv msg h dir hinv
  | setSeqNum h out inn => exact setSeqNum_inv h out inn hinv
  | sessions => exact hinv
  | recover => exact hinv
  | recoverMsg => exact hinv
  | getAll => exact hinv

theorem applyOps_inv {j : Journal} (ops : List Op) (hinv : JInv j) : JInv (applyOps j ops) := by
  induction ops generalizing j with
  | nil => exact hinv
  | cons op ops ih => exact ih (applyOp_inv op hinv)

end AsyncFix.Model.Journal
