/-
Text lemmas for the order object: decimal rendering of the ClOrdID counter, the `\d` table,
and the characterisation of the regex model `clordRoot`.
-/
import AsyncFix.Model.OrderObj
namespace AsyncFix.Model.OrderObj

/-! ### `\d` -/

theorem isNd_ascii {c : Nat} (h1 : 48 ≤ c) (h2 : c ≤ 57) : isNd c = true := by
  have hr : AsyncFix.Generated.UnicodeNd.ranges =
      (48, 57) :: AsyncFix.Generated.UnicodeNd.ranges.tail := by decide +kernel
  unfold isNd
  rw [hr, List.any_cons]
  simp [h1, h2]

theorem isNd_45 : isNd 45 = false := by decide +kernel

/-! ### `dec` -/

theorem decAux_fuel : ∀ (n f g : Nat), n < f → n < g → decAux f n = decAux g n := by
  intro n
  induction n using Nat.strongRecOn with
  | _ n ih =>
    intro f g hf hg
    cases f with
    | zero => omega
    | succ f =>
      cases g with
      | zero => omega
      | succ g =>
        simp only [decAux]
        split
        · rfl
        · rw [ih (n / 10) (by omega) f g (by omega) (by omega)]

/-- the defining equation of decimal rendering: the fuel suffices -/
theorem dec_eq (n : Nat) : dec n = if n < 10 then [48 + n] else dec (n / 10) ++ [48 + n % 10] := by
  have h : decAux (n + 1) n = if n < 10 then [48 + n] else decAux n (n / 10) ++ [48 + n % 10] := rfl
  show decAux (n + 1) n = if n < 10 then [48 + n] else decAux (n / 10 + 1) (n / 10) ++ [48 + n % 10]
  rw [h]
  split
  · rfl
  · rw [decAux_fuel (n / 10) n (n / 10 + 1) (by omega) (by omega)]

theorem dec_ne_nil (n : Nat) : dec n ≠ [] := by
  rw [dec_eq]; split <;> simp

theorem dec_ascii (n : Nat) : ∀ c ∈ dec n, 48 ≤ c ∧ c ≤ 57 := by
  induction n using Nat.strongRecOn with
  | _ n ih =>
    rw [dec_eq]
    split
    · intro c hc; simp at hc; omega
    · intro c hc
      simp only [List.mem_append, List.mem_singleton] at hc
      rcases hc with hc | hc
      · exact ih (n / 10) (by omega) c hc
      · omega

theorem dec_isNd (n : Nat) : ∀ c ∈ dec n, isNd c = true :=
  fun c hc => isNd_ascii (dec_ascii n c hc).1 (dec_ascii n c hc).2

/-- value of a digit string read from the left -/
def undecAux (acc : Nat) : Str → Nat
  | [] => acc
  | c :: cs => undecAux (acc * 10 + (c - 48)) cs

theorem undecAux_append (a : Nat) (xs ys : Str) :
    undecAux a (xs ++ ys) = undecAux (undecAux a xs) ys := by
  induction xs generalizing a with
  | nil => rfl
  | cons c cs ih => exact ih (a * 10 + (c - 48))

theorem undecAux_dec (n : Nat) : undecAux 0 (dec n) = n := by
  induction n using Nat.strongRecOn with
  | _ n ih =>
    rw [dec_eq]
    split
    · show 0 * 10 + (48 + n - 48) = n
      omega
    · rw [undecAux_append, ih (n / 10) (by omega)]
      show n / 10 * 10 + (48 + n % 10 - 48) = n
      omega

theorem dec_injective {j k : Nat} (h : dec j = dec k) : j = k := by
  have := congrArg (undecAux 0) h
  simpa [undecAux_dec] using this

/-! ### trailing digit run -/

theorem takeWhile_append_stop {p : Nat → Bool} (l : Str) (x : Nat) (r : Str)
    (hl : ∀ c ∈ l, p c = true) (hx : p x = false) : (l ++ x :: r).takeWhile p = l := by
  induction l with
  | nil => simp [hx]
  | cons a l ih =>
    have ha : p a = true := hl a (by simp)
    simp only [List.cons_append, List.takeWhile_cons, ha, if_true]
    rw [ih (fun c hc => hl c (by simp [hc]))]

theorem takeWhile_all {p : Nat → Bool} (l : Str) (hl : ∀ c ∈ l, p c = true) : l.takeWhile p = l := by
  induction l with
  | nil => rfl
  | cons a l ih =>
    simp only [List.takeWhile_cons, hl a (by simp), if_true]
    rw [ih (fun c hc => hl c (by simp [hc]))]

/-- the maximal run of `\d` characters at the end -/
def digitsSuffix (s : Str) : Str := (s.reverse.takeWhile isNd).reverse

theorem digitsSuffix_chain (p d : Str) (hd : ∀ c ∈ d, isNd c = true) :
    digitsSuffix (p ++ [45, 45] ++ d) = d := by
  unfold digitsSuffix
  have : (p ++ [45, 45] ++ d).reverse = d.reverse ++ 45 :: (45 :: p.reverse) := by simp
  rw [this, takeWhile_append_stop _ _ _ (fun c hc => hd c (by simpa using hc)) isNd_45]
  simp

/-- two chained ids with different counters are different, whatever stands before the suffix -/
theorem chain_id_inj {x y : Str} {j k : Nat}
    (h : x ++ [45, 45] ++ dec j = y ++ [45, 45] ++ dec k) : j = k := by
  have h1 := congrArg digitsSuffix h
  rw [digitsSuffix_chain _ _ (dec_isNd j), digitsSuffix_chain _ _ (dec_isNd k)] at h1
  exact dec_injective h1

theorem chain_id_root_inj {x y : Str} {j k : Nat}
    (h : x ++ [45, 45] ++ dec j = y ++ [45, 45] ++ dec k) : x = y := by
  have hjk := chain_id_inj h
  subst hjk
  have := List.append_cancel_right h
  exact List.append_cancel_right this

/-! ### the regex model -/

/-- `s` has the shape `<group 1>--<digits>` with a non-empty group 1 and a non-empty digit run -/
def ChainForm (s : Str) : Prop :=
  ∃ a d : Str, a ≠ [] ∧ d ≠ [] ∧ (∀ c ∈ d, isNd c = true) ∧ s = a ++ [45, 45] ++ d

theorem tailMatches_head {t : Str} (h : ∀ c, t.head? = some c → c ≠ 45) : tailMatches t = false := by
  match t with
  | [] => rfl
  | [_] => rfl
  | a :: b :: r =>
    have : a ≠ 45 := h a rfl
    simp [tailMatches, this]

theorem tailMatches_second {a b : Nat} {r : Str} (h : b ≠ 45) : tailMatches (a :: b :: r) = false := by
  simp [tailMatches, h]

theorem digitsThenEnd_full (d : Str) (hd : d ≠ []) : digitsThenEnd d d.length = true := by
  cases d with
  | nil => exact absurd rfl hd
  | cons c cs => simp [digitsThenEnd, atEnd]

theorem tailMatches_chain (d : Str) (hd : d ≠ []) (hn : ∀ c ∈ d, isNd c = true) :
    tailMatches (45 :: 45 :: d) = true := by
  simp [tailMatches, takeWhile_all d hn, digitsThenEnd_full d hd]

theorem tryDot_chain (a d : Str) (ha : a ≠ []) (hd : d ≠ []) (hn : ∀ c ∈ d, isNd c = true) :
    ∀ m, m ≤ 2 + d.length → tryDot (a ++ 45 :: 45 :: d) (a.length + m) = some a := by
  intro m
  induction m with
  | zero =>
    intro _
    cases a with
    | nil => exact absurd rfl ha
    | cons x xs =>
      have hl : (x :: xs).length + 0 = xs.length + 1 := by simp
      rw [hl, tryDot]
      have h1 : (x :: xs ++ 45 :: 45 :: d).drop (xs.length + 1) = 45 :: 45 :: d := by
        have := List.drop_left (l₁ := x :: xs) (l₂ := 45 :: 45 :: d)
        simpa using this
      have h2 : (x :: xs ++ 45 :: 45 :: d).take (xs.length + 1) = x :: xs := by
        have := List.take_left (l₁ := x :: xs) (l₂ := 45 :: 45 :: d)
        simpa using this
      rw [h1, tailMatches_chain d hd hn, h2]
      simp
  | succ m ih =>
    intro hm
    have hl : a.length + (m + 1) = (a.length + m) + 1 := by omega
    rw [hl, tryDot]
    have h1 : (a ++ 45 :: 45 :: d).drop (a.length + m + 1) = (45 :: 45 :: d).drop (m + 1) := by
      rw [show a.length + m + 1 = a.length + (m + 1) by omega, List.drop_append]
      simp
    have h2 : tailMatches ((45 :: 45 :: d).drop (m + 1)) = false := by
      cases m with
      | zero =>
        cases d with
        | nil => exact absurd rfl hd
        | cons c cs =>
          have hc : c ≠ 45 := by
            intro h; have := hn c (by simp); rw [h, isNd_45] at this; cases this
          simpa using tailMatches_second (a := 45) (r := cs) hc
      | succ m =>
        apply tailMatches_head
        intro c hc
        have hmem : c ∈ d := by
          have : c ∈ (d.drop m) := by
            simp only [List.drop_succ_cons] at hc
            exact List.mem_of_mem_head? hc
          exact List.mem_of_mem_drop this
        intro h; have := hn c hmem; rw [h, isNd_45] at this; cases this
    rw [h1, h2]
    simpa using ih (by omega)

/-- T1: a non-empty group 1 followed by `--<digits>` is recovered exactly – also when group 1
itself ends in a chaining suffix (the greedy `.+` takes the last one) or contains line breaks. -/
theorem clordRoot_chain (a d : Str) (ha : a ≠ []) (hd : d ≠ [])
    (hn : ∀ c ∈ d, isNd c = true) : clordRoot (a ++ [45, 45] ++ d) = a := by
  have hs : a ++ [45, 45] ++ d = a ++ 45 :: 45 :: d := by simp
  unfold clordRoot reMatchRoot
  rw [hs]
  have hlen : (a ++ 45 :: 45 :: d).length = a.length + (2 + d.length) := by simp; omega
  rw [hlen, tryDot_chain a d ha hd hn _ (Nat.le_refl _)]
  rfl

theorem clordRoot_chain_dec (root : Str) (k : Nat) (h0 : root ≠ []) :
    clordRoot (root ++ [45, 45] ++ dec k) = root :=
  clordRoot_chain root (dec k) h0 (dec_ne_nil k) (dec_isNd k)

/-! soundness of a match: whatever `tryDot` returns is a genuine `<group 1>--<digits>$` split -/

theorem tryDot_sound (s : Str) : ∀ n g, tryDot s n = some g →
    ∃ k, 0 < k ∧ g = s.take k ∧ tailMatches (s.drop k) = true := by
  intro n
  induction n with
  | zero => intro g h; simp [tryDot] at h
  | succ n ih =>
    intro g h
    rw [tryDot] at h
    split at h
    · rename_i ht
      cases h
      exact ⟨n + 1, by omega, rfl, ht⟩
    · exact ih g h

theorem digitsThenEnd_sound (r : Str) : ∀ n, digitsThenEnd r n = true →
    ∃ j, 0 < j ∧ j ≤ n ∧ atEnd (r.drop j) = true := by
  intro n
  induction n with
  | zero => intro h; simp [digitsThenEnd] at h
  | succ n ih =>
    intro h
    rw [digitsThenEnd, Bool.or_eq_true] at h
    rcases h with h | h
    · exact ⟨n + 1, by omega, Nat.le_refl _, h⟩
    · obtain ⟨j, h1, h2, h3⟩ := ih h
      exact ⟨j, h1, by omega, h3⟩

theorem take_of_le_takeWhile {p : Nat → Bool} (l : Str) (j : Nat) (h : j ≤ (l.takeWhile p).length) :
    ∀ c ∈ l.take j, p c = true := by
  induction l generalizing j with
  | nil => intro c hc; simp at hc
  | cons a l ih =>
    cases j with
    | zero => intro c hc; simp at hc
    | succ j =>
      rw [List.takeWhile_cons] at h
      by_cases ha : p a = true
      · simp only [ha, if_true, List.length_cons] at h
        intro c hc
        simp only [List.take_succ_cons, List.mem_cons] at hc
        rcases hc with rfl | hc
        · exact ha
        · exact ih j (by omega) c hc
      · simp [ha] at h

/-- a match exhibits the chain form -/
theorem reMatchRoot_chainForm (s g : Str) (h : reMatchRoot s = some g) :
    ∃ d, d ≠ [] ∧ (∀ c ∈ d, isNd c = true) ∧ g ≠ [] ∧ s = g ++ [45, 45] ++ d := by
  unfold reMatchRoot at h
  obtain ⟨k, hk, hg, ht⟩ := tryDot_sound s _ g h
  -- shape of the tail
  have hsplit : s = s.take k ++ s.drop k := (List.take_append_drop k s).symm
  match hdk : s.drop k, ht with
  | [], ht => simp [tailMatches] at ht
  | [_], ht => simp [tailMatches] at ht
  | x :: y :: r, ht =>
    simp only [tailMatches, Bool.and_eq_true, beq_iff_eq] at ht
    obtain ⟨⟨hx, hy⟩, hde⟩ := ht
    subst hx hy
    obtain ⟨j, hj, hjle, heol⟩ := digitsThenEnd_sound r _ hde
    have hr : r = r.take j ++ r.drop j := (List.take_append_drop j r).symm
    have hdrop : r.drop j = [] := by
      match hrd : r.drop j, heol with
      | [], _ => rfl
    have hrt : r = r.take j := by rw [hdrop, List.append_nil] at hr; exact hr
    have hjlen : j ≤ r.length := by
      have h1 : (r.takeWhile isNd).length ≤ r.length := (List.takeWhile_sublist isNd).length_le
      omega
    refine ⟨r, ?_, ?_, ?_, ?_⟩
    · intro hnil; subst hnil; simp at hjlen; omega
    · rw [hrt]; exact take_of_le_takeWhile r j hjle
    · subst hg; intro hnil
      have hklt : k < s.length := by
        have : (s.drop k).length = s.length - k := List.length_drop
        rw [hdk] at this; simp at this; omega
      have : (s.take k).length = k := by simp [List.length_take]; omega
      rw [hnil] at this; simp at this; omega
    · subst hg
      have : s = s.take k ++ 45 :: 45 :: r := by rw [← hdk]; exact hsplit
      simpa using this

/-- T2: a text that does not have the chain form is returned unchanged -/
theorem clordRoot_bare (s : Str) (hc : ¬ ChainForm s) : clordRoot s = s := by
  unfold clordRoot
  cases h : reMatchRoot s with
  | none => rfl
  | some g =>
    exfalso; apply hc
    obtain ⟨d, h1, h2, h3, h4⟩ := reMatchRoot_chainForm s g h
    exact ⟨g, d, h3, h1, h2, h4⟩

/-- … and one that has it is cut (so `clordRoot s = s` characterises the roots without chain form) -/
theorem clordRoot_cut (s : Str) (hc : ChainForm s) : clordRoot s ≠ s := by
  obtain ⟨a, d, ha, hd, hn, rfl⟩ := hc
  rw [clordRoot_chain a d ha hd hn]
  intro h
  have := congrArg List.length h
  simp at this

end AsyncFix.Model.OrderObj
