import AsyncFix.Model.SchedRun
import AsyncFix.Lemmas.SessionRel

/-!
Sched family: **a resumption that is never interleaved is the sequential handler.**

`R.runSeq` (resume every yield at once, with the connection the segment left behind; ghosts dropped)
is a monad morphism `R → M`; with it `runSeq (hR …) = h …` for every handler of
`Model/SchedHandlers.lean`, up to the three task bodies (`Task.body_seq`).  So everything the other
properties prove about the sequential session model is a statement about the schedules in which a task
runs from start to end without another task in between.
-/
namespace AsyncFix.Sched

open AsyncFix.Session AsyncFix.Generated AsyncFix.Generated.ConnEnum

variable {α β : Type}

/-! ### monad laws of `M` that the translation needs -/

theorem M.bind_pure_unit (x : M Unit) : (x >>= fun _ => (pure () : M Unit)) = x := by
  funext c
  rw [M.bind_apply]
  rcases h : x c with ⟨r, c1, e1⟩
  cases r <;> simp

theorem M.pure_bind (a : α) (f : α → M β) : ((pure a : M α) >>= f) = f a := by
  funext c
  rw [M.bind_apply]
  simp only [M.pure_apply]
  rcases f a c with ⟨r, c1, e1⟩
  simp

theorem M.bind_assoc {γ : Type} (x : M α) (f : α → M β) (g : β → M γ) :
    ((x >>= f) >>= g) = (x >>= fun a => f a >>= g) := by
  funext c
  simp only [M.bind_apply]
  rcases x c with ⟨r, c1, e1⟩
  cases r with
  | error ex => rfl
  | ok a =>
    simp only
    rcases f a c1 with ⟨r2, c2, e2⟩
    cases r2 with
    | error ex => rfl
    | ok b =>
      simp only
      rcases g b c2 with ⟨r3, c3, e3⟩
      simp [List.append_assoc]

/-! ### `runSeq` is a monad morphism -/

theorem Res.runSeq_prepend (e : List Effect) (g : List Ghost) (r : Res α) :
    (r.prepend e g).runSeq = ⟨r.runSeq.res, r.runSeq.conn, e ++ r.runSeq.eff⟩ := by
  cases r with
  | done c e' g' r => rfl
  | yield c e' g' pt k =>
    simp only [Res.prepend, Res.runSeq]
    rcases (k c).runSeq with ⟨r, c1, e1⟩
    simp [List.append_assoc]

theorem Res.runSeq_bind (r : Res α) (f : α → Conn → Res β) :
    (r.bind f).runSeq = (match r.runSeq with
      | ⟨.ok a, c1, e1⟩ => (match (f a c1).runSeq with | ⟨r2, c2, e2⟩ => ⟨r2, c2, e1 ++ e2⟩)
      | ⟨.error ex, c1, e1⟩ => ⟨.error ex, c1, e1⟩) := by
  induction r with
  | done c e g r =>
    cases r with
    | ok a => simp only [Res.bind, Res.runSeq, Res.runSeq_prepend]
    | error ex => rfl
  | yield c e g pt k ih =>
    simp only [Res.bind, Res.runSeq, ih]
    rcases (k c).runSeq with ⟨r, c1, e1⟩
    cases r with
    | error ex => rfl
    | ok a =>
      simp only
      rcases (f a c1).runSeq with ⟨r2, c2, e2⟩
      simp [List.append_assoc]

theorem Res.runSeq_tryCatch (r : Res α) (h : Exc → Conn → Res α) :
    (r.tryCatch h).runSeq = (match r.runSeq with
      | ⟨.ok a, c1, e1⟩ => ⟨.ok a, c1, e1⟩
      | ⟨.error ex, c1, e1⟩ => (match (h ex c1).runSeq with | ⟨r2, c2, e2⟩ => ⟨r2, c2, e1 ++ e2⟩)) := by
  induction r with
  | done c e g r =>
    cases r with
    | ok a => rfl
    | error ex => simp only [Res.tryCatch, Res.runSeq, Res.runSeq_prepend]
  | yield c e g pt k ih =>
    simp only [Res.tryCatch, Res.runSeq, ih]
    rcases (k c).runSeq with ⟨r, c1, e1⟩
    cases r with
    | ok a => rfl
    | error ex =>
      simp only
      rcases (h ex c1).runSeq with ⟨r2, c2, e2⟩
      simp [List.append_assoc]

@[simp] theorem R.runSeq_pure (a : α) : (pure a : R α).runSeq = (pure a : M α) := rfl

@[simp] theorem R.runSeq_bind (x : R α) (f : α → R β) :
    (x >>= f).runSeq = (x.runSeq >>= fun a => (f a).runSeq) := by
  funext c
  exact (Res.runSeq_bind (x c) f).trans rfl

@[simp] theorem R.runSeq_liftM (x : M α) : (R.liftM x).runSeq = x := by
  funext c
  have h : (R.liftM x).runSeq c = (match x c with | ⟨r, c1, e⟩ => (⟨r, c1, e⟩ : Out α)) := by
    simp only [R.runSeq, R.liftM]
    rcases x c with ⟨r, c1, e⟩
    rfl
  rw [h]

@[simp] theorem R.runSeq_yield (pt : YieldPoint) : (R.yield pt).runSeq = (pure () : M Unit) := rfl
@[simp] theorem R.runSeq_hook (e : Effect) (pt : YieldPoint) : (R.hook e pt).runSeq = M.emit e := rfl
@[simp] theorem R.runSeq_ghost (g : Ghost) : (R.ghost g).runSeq = (pure () : M Unit) := rfl
@[simp] theorem R.runSeq_get : R.get.runSeq = M.get := R.runSeq_liftM _
@[simp] theorem R.runSeq_modify (f : Conn → Conn) : (R.modify f).runSeq = M.modify f := R.runSeq_liftM _
@[simp] theorem R.runSeq_throw (ex : Exc) : (R.throw ex : R α).runSeq = M.throw ex := R.runSeq_liftM _
@[simp] theorem R.runSeq_liftE (x : Except Exc α) : (R.liftE x).runSeq = M.liftE x := R.runSeq_liftM _
@[simp] theorem R.runSeq_assert (b : Bool) : (R.assert b).runSeq = M.assert b := R.runSeq_liftM _
@[simp] theorem R.runSeq_int (s : String) : (R.int s).runSeq = M.int s := R.runSeq_liftM _

@[simp] theorem R.runSeq_tryCatch (x : R α) (h : Exc → R α) :
    (R.tryCatch x h).runSeq = M.tryCatch x.runSeq fun ex => (h ex).runSeq := by
  funext c
  exact (Res.runSeq_tryCatch (x c) h).trans rfl

@[simp] theorem R.runSeq_ite (p : Prop) [Decidable p] (x y : R α) :
    (if p then x else y).runSeq = if p then x.runSeq else y.runSeq := by
  split <;> rfl

/-! ### the handlers -/

@[simp] theorem stateSetR_seq (s : Nat) : (stateSetR s).runSeq = stateSet s := by
  simp [stateSetR, M.bind_pure_unit]

@[simp] theorem sendGateR_seq (m : Msg) : (sendGateR m).runSeq = sendGate m := by
  simp [sendGateR, sendGate]

@[simp] theorem sendCoreR_seq (env : Env) (m : Msg) : (sendCoreR env m).runSeq = sendCore env m := by
  simp [sendCoreR, M.bind_pure_unit]

@[simp] theorem sendMsgR_seq (env : Env) (m : Msg) : (sendMsgR env m).runSeq = sendMsg env m := by
  simp [sendMsgR, sendMsg]

@[simp] theorem sendTestReqR_seq (env : Env) : (sendTestReqR env).runSeq = sendTestReq env := by
  simp [sendTestReqR, sendTestReq]

@[simp] theorem swallowR_seq (d : α) (x : R α) : (swallowR d x).runSeq = swallow d x.runSeq := by
  simp [swallowR, swallow]

@[simp] theorem disconnectR_seq (env : Env) (d : Nat) (l : Option String) :
    (disconnectR env d l).runSeq = disconnect env d l := by
  cases l <;> simp [disconnectR, disconnect]

/-- never interleaved, `rethrowAfter y` is `y; raise` (the ghost mark is dropped) -/
@[simp] theorem rethrowAfter_seq (y : R Unit) (ex : Exc) :
    (rethrowAfter (α := α) y ex).runSeq = (y.runSeq >>= fun _ => (M.throw ex : M α)) := by
  unfold rethrowAfter
  cases h : (ex == .duplicateSeqNo || ex == .attribute) <;> simp [h, M.pure_bind]

@[simp] theorem processLogonR_seq (env : Env) (m : Msg) : (processLogonR env m).runSeq = processLogon env m := by
  simp [processLogonR, processLogon]

@[simp] theorem checkSeqnumGapsR_seq (env : Env) (n : Int) :
    (checkSeqnumGapsR env n).runSeq = checkSeqnumGaps env n := by
  simp [checkSeqnumGapsR, checkSeqnumGaps]

@[simp] theorem processLogoutR_seq (env : Env) (m : Msg) : (processLogoutR env m).runSeq = processLogout env m := by
  simp [processLogoutR, processLogout]

@[simp] theorem resendLoopR_seq (env : Env) (sr : Msg → Bool) (endNo : Int) (rows : List Msg) (a b : Int) :
    (resendLoopR env sr endNo rows a b).runSeq = resendLoop env sr endNo rows a b := by
  induction rows generalizing a b with
  | nil => simp [resendLoopR, resendLoop]
  | cons row rest ih =>
    unfold resendLoopR resendLoop
    simp only [R.runSeq_bind, R.runSeq_liftE, R.runSeq_int]
    congr 1; funext v; congr 1; funext n
    by_cases hn : n > endNo
    · simp [hn, ih]
    · simp only [hn, if_false, R.runSeq_bind, R.runSeq_liftE]
      congr 1; funext ty
      by_cases h : ty ∈ ConnEnum.noReplay
      · simp [h, ih, M.pure_bind]
      · cases sr row <;> simp [h, ih, M.pure_bind]

@[simp] theorem processResendR_seq (env : Env) (sr : Msg → Bool) (m : Msg) :
    (processResendR env sr m).runSeq = processResend env sr m := by
  simp [processResendR, processResend, M.pure_bind]

@[simp] theorem finalizeMessageR_seq (env : Env) (m : Msg) :
    (finalizeMessageR env m).runSeq = finalizeMessage env m := by
  simp [finalizeMessageR, finalizeMessage]

@[simp] theorem processTestRequestR_seq (env : Env) (m : Msg) :
    (processTestRequestR env m).runSeq = processTestRequest env m := by
  simp [processTestRequestR, processTestRequest]

@[simp] theorem processHeartbeatR_seq (env : Env) (m : Msg) :
    (processHeartbeatR env m).runSeq = processHeartbeat env m := by
  simp only [processHeartbeatR, processHeartbeat, R.runSeq_bind, R.runSeq_assert, R.runSeq_get]
  congr 1; funext _; congr 1; funext c
  cases c.testReqId with
  | none => rfl
  | some tid =>
    simp only
    cases m.get? tTestReqID with
    | none => rfl
    | some v => simp

@[simp] theorem processHeadR_seq (env : Env) (m : Msg) : (processHeadR env m).runSeq = processHead env m := by
  simp [processHeadR, processHead]

@[simp] theorem processDispatchR_seq (env : Env) (sr : Msg → Bool) (m : Msg) (valid : Bool) (n : Int) :
    (processDispatchR env sr m valid n).runSeq = processDispatch env sr m valid n := by
  simp [processDispatchR, processDispatch]

@[simp] theorem processMessageR_seq (env : Env) (sr : Msg → Bool) (m : Msg) :
    (processMessageR env sr m).runSeq = processMessage env sr m := by
  simp only [processMessageR, processMessage, R.runSeq_bind, R.runSeq_liftM]
  congr 1; funext integ
  cases integ with
  | good =>
    simp only [R.runSeq_bind, swallowR_seq, processHeadR_seq]
    congr 1; funext head
    cases head with
    | none => rfl
    | some p =>
      obtain ⟨valid, n⟩ := p
      simp
  | critical => simp
  | reason t => simp

@[simp] theorem tickBodyR_seq (env : Env) : (tickBodyR env).runSeq = tickBody env := by
  simp [tickBodyR, tickBody]

/-- a task that is never interleaved behaves as its sequential entry point (`appSend`, `tick`, `recv`
of `Model/Session.lean`): the final connection and the effects, an escaping exception last. -/
theorem Task.body_seq (sr : Msg → Bool) (t : Task) (c : Conn) :
    M.run (t.body sr).runSeq c =
      (match t with
       | .send env m => Session.appSend env c m
       | .tick env => Session.tick env c
       | .recv env m => Session.recv sr env c m) := by
  cases t <;> simp [Task.body, Session.appSend, Session.tick, Session.recv]

end AsyncFix.Sched
