import AsyncFix.Lemmas.SessionOutBase

/-!
C05 helper lemmas, part 2: tag maps (`get?` after `set` / `del`), the frame `buildFrame` produces,
`prepareReplay`, journal rows (`insert`, `find`, `below`, `range`).
-/
namespace AsyncFix.Session

/-! ### tag maps -/
namespace Msg

theorem lookup_append (t : Nat) (a b : List (Nat × String)) :
    lookup t (a ++ b) = match lookup t a with | some v => some v | none => lookup t b := by
  induction a with
  | nil => rfl
  | cons p r ih =>
    obtain ⟨k, v⟩ := p
    simp only [List.cons_append, lookup]
    split
    · rfl
    · exact ih

theorem lookup_mem {t : Nat} {v : String} {l : List (Nat × String)} (h : lookup t l = some v) :
    (t, v) ∈ l := by
  induction l with
  | nil => simp [lookup] at h
  | cons p r ih =>
    obtain ⟨k, w⟩ := p
    simp only [lookup] at h
    split at h
    · rename_i hk; cases h; subst hk; simp
    · simp [ih h]

theorem lookup_filter_ne (t t' : Nat) (l : List (Nat × String)) (h : t' ≠ t) :
    lookup t' (l.filter fun p => p.1 ≠ t) = lookup t' l := by
  induction l with
  | nil => rfl
  | cons p r ih =>
    obtain ⟨k, w⟩ := p
    by_cases hk : k = t
    · subst hk
      have : lookup t' ((k, w) :: r) = lookup t' r := by simp [lookup, Ne.symm h]
      rw [this, ← ih]; simp [List.filter]
    · have : ((k, w) :: r).filter (fun p => p.1 ≠ t) = (k, w) :: r.filter fun p => p.1 ≠ t := by
        simp [List.filter, hk]
      rw [this]; simp only [lookup, ih]

theorem lookup_filter_self (t : Nat) (l : List (Nat × String)) :
    lookup t (l.filter fun p => p.1 ≠ t) = none := by
  induction l with
  | nil => rfl
  | cons p r ih =>
    obtain ⟨k, w⟩ := p
    by_cases hk : k = t
    · subst hk; simpa [List.filter] using ih
    · have : ((k, w) :: r).filter (fun p => p.1 ≠ t) = (k, w) :: r.filter fun p => p.1 ≠ t := by
        simp [List.filter, hk]
      rw [this]; simp only [lookup, if_neg hk, ih]

/-- lookup through a filter that keeps the tag -/
theorem lookup_filter_keep (t : Nat) (q : Nat × String → Bool) (l : List (Nat × String))
    (h : ∀ v, q (t, v) = true) : lookup t (l.filter q) = lookup t l := by
  induction l with
  | nil => rfl
  | cons p r ih =>
    obtain ⟨k, w⟩ := p
    by_cases hq : q (k, w) = true
    · simp only [List.filter, hq, lookup, ih]
    · have hk : k ≠ t := by intro e; subst e; exact hq (h w)
      simp only [List.filter, hq, lookup, if_neg hk, ih]

theorem lookup_replaceVal (t t' : Nat) (v : String) (l : List (Nat × String)) :
    lookup t' (replaceVal t v l) =
      if t' = t then (if (lookup t l).isSome then some v else none) else lookup t' l := by
  induction l with
  | nil => simp [replaceVal, lookup]
  | cons p r ih =>
    obtain ⟨k, w⟩ := p
    simp only [replaceVal]
    by_cases hk : k = t
    · subst hk
      by_cases h2 : k = t'
      · subst h2; simp [lookup]
      · simp [lookup, h2, Ne.symm h2]
    · simp only [if_neg hk, lookup, ih]
      by_cases h2 : k = t'
      · subst h2; simp [hk]
      · simp [h2]

theorem mem_replaceVal {t : Nat} {v : String} {l : List (Nat × String)} {p : Nat × String}
    (h : p ∈ replaceVal t v l) : p ∈ l ∨ p = (t, v) := by
  induction l with
  | nil => simp [replaceVal] at h
  | cons q r ih =>
    obtain ⟨k, w⟩ := q
    simp only [replaceVal] at h
    split at h
    · rename_i hk
      rcases List.mem_cons.mp h with h | h
      · right; rw [h, hk]
      · left; simp [h]
    · rcases List.mem_cons.mp h with h | h
      · left; simp [h]
      · rcases ih h with h | h
        · left; simp [h]
        · right; exact h

/-- `msg.set(t, v, replace=True)` never raises; the map afterwards -/
theorem set_replace (m : Msg) (t : Nat) (v : String) :
    ∃ m', m.set t v true = .ok m' ∧ m'.mtype = m.mtype ∧
      (∀ t', m'.get? t' = if t' = t then some v else m.get? t') ∧
      (∀ p ∈ m'.tags, p ∈ m.tags ∨ p = (t, v)) := by
  unfold set
  by_cases hh : m.has t = true
  · refine ⟨{ m with tags := replaceVal t v m.tags }, by simp [hh], rfl, ?_, ?_⟩
    · intro t'
      simp only [get?, lookup_replaceVal]
      have : (lookup t m.tags).isSome = true := hh
      by_cases e : t' = t <;> simp [e, this]
    · intro p hp; exact mem_replaceVal hp
  · refine ⟨{ m with tags := m.tags ++ [(t, v)] }, by simp [hh], rfl, ?_, ?_⟩
    · intro t'
      have hn : lookup t m.tags = none := by
        simp only [has, get?] at hh
        cases h : lookup t m.tags <;> simp_all
      simp only [get?, lookup_append]
      by_cases e : t' = t
      · subst e; simp [hn, lookup]
      · cases h : lookup t' m.tags <;> simp [lookup, e, Ne.symm e]
    · intro p hp
      simp only [List.mem_append, List.mem_singleton] at hp
      exact hp

/-- `msg[t] = v` on a message that does not carry `t` -/
theorem set_new (m : Msg) (t : Nat) (v : String) (h : m.get? t = none) :
    ∃ m', m.set t v = .ok m' ∧ m'.mtype = m.mtype ∧
      (∀ t', m'.get? t' = if t' = t then some v else m.get? t') ∧
      (∀ p ∈ m'.tags, p ∈ m.tags ∨ p = (t, v)) := by
  have hh : m.has t = false := by simp [has, h]
  refine ⟨{ m with tags := m.tags ++ [(t, v)] }, by simp [set, hh], rfl, ?_, ?_⟩
  · intro t'
    simp only [get?] at h
    simp only [get?, lookup_append]
    by_cases e : t' = t
    · subst e; simp [h, lookup]
    · cases h' : lookup t' m.tags <;> simp [lookup, e, Ne.symm e]
  · intro p hp
    simp only [List.mem_append, List.mem_singleton] at hp
    exact hp

/-- `del msg[t]` on a message that carries `t` -/
theorem del_has (m : Msg) (t : Nat) (h : (m.get? t).isSome = true) :
    ∃ m', m.del t = .ok m' ∧ m'.mtype = m.mtype ∧
      (∀ t', m'.get? t' = if t' = t then none else m.get? t') ∧
      (∀ p ∈ m'.tags, p ∈ m.tags) := by
  have hh : m.has t = true := h
  refine ⟨{ m with tags := m.tags.filter fun p => p.1 ≠ t }, by simp [del, hh], rfl, ?_, ?_⟩
  · intro t'
    simp only [get?]
    by_cases e : t' = t
    · subst e; rw [if_pos rfl]; exact lookup_filter_self _ _
    · rw [if_neg e]; exact lookup_filter_ne _ _ _ e
  · intro p hp; exact (List.mem_filter.mp hp).1

end Msg

/-! ### journal rows -/
namespace Rows

def AllLt (k : Int) (rs : Rows) : Prop := ∀ p ∈ rs, p.1 < k

def Sorted (rs : Rows) : Prop := rs.Pairwise fun a b => a.1 < b.1

theorem insert_of_allLt (k : Int) (m : Msg) (rs : Rows) (h : AllLt k rs) :
    insert k m rs = some (rs ++ [(k, m)]) := by
  induction rs with
  | nil => rfl
  | cons p r ih =>
    obtain ⟨k', m'⟩ := p
    have hk : k' < k := h (k', m') (by simp)
    have hr : AllLt k r := fun q hq => h q (by simp [hq])
    simp only [insert, List.cons_append]
    rw [if_neg (by omega), if_neg (by omega), ih hr]
    rfl

theorem sorted_append_last (rs : Rows) (k : Int) (m : Msg) (hs : Sorted rs) (h : AllLt k rs) :
    Sorted (rs ++ [(k, m)]) := by
  unfold Sorted
  rw [List.pairwise_append]
  refine ⟨hs, by simp, ?_⟩
  intro a ha b hb
  simp only [List.mem_singleton] at hb
  subst hb
  exact h a ha

theorem find_mem {k : Int} {g : Msg} {rs : Rows} (h : find k rs = some g) : (k, g) ∈ rs := by
  induction rs with
  | nil => simp [find] at h
  | cons p r ih =>
    obtain ⟨k', m'⟩ := p
    simp only [find] at h
    split at h
    · rename_i hk; cases h; subst hk; simp
    · simp [ih h]

theorem find_of_mem {k : Int} {g : Msg} {rs : Rows} (hs : Sorted rs) (h : (k, g) ∈ rs) :
    find k rs = some g := by
  induction rs with
  | nil => simp at h
  | cons p r ih =>
    obtain ⟨k', m'⟩ := p
    have hs' := List.pairwise_cons.mp hs
    simp only [find]
    rcases List.mem_cons.mp h with h | h
    · cases h; simp
    · have : k' < k := hs'.1 (k, g) h
      rw [if_neg (by omega)]
      exact ih hs'.2 h

theorem find_none_of_allLt {k k' : Int} {rs : Rows} (h : AllLt k rs) (hk : k ≤ k') :
    find k' rs = none := by
  cases hf : find k' rs with
  | none => rfl
  | some g => have := h _ (find_mem hf); simp at this; omega

theorem find_append (k : Int) (a b : Rows) :
    find k (a ++ b) = match find k a with | some g => some g | none => find k b := by
  induction a with
  | nil => rfl
  | cons p r ih =>
    obtain ⟨k', m'⟩ := p
    simp only [List.cons_append, find]
    split
    · rfl
    · exact ih

theorem find_append_last (k k' : Int) (m : Msg) (rs : Rows) (h : AllLt k rs) :
    find k' (rs ++ [(k, m)]) = if k' = k then some m else find k' rs := by
  rw [find_append]
  by_cases e : k' = k
  · subst e
    rw [find_none_of_allLt h (Int.le_refl _)]
    simp [find]
  · cases hf : find k' rs with
    | some g => simp [e]
    | none => simp [find, e]

theorem mem_below {n : Int} {rs : Rows} {p : Int × Msg} : p ∈ below n rs ↔ p ∈ rs ∧ p.1 < n := by
  simp [below, List.mem_filter]

theorem allLt_below (n : Int) (rs : Rows) : AllLt n (below n rs) := fun _ hp => (mem_below.mp hp).2

theorem sorted_below (n : Int) (rs : Rows) (h : Sorted rs) : Sorted (below n rs) :=
  List.Pairwise.filter _ h

theorem below_of_allLt (n : Int) (rs : Rows) (h : AllLt n rs) : below n rs = rs := by
  unfold below
  rw [List.filter_eq_self]
  intro p hp
  simpa using h p hp

theorem find_below (n k : Int) (rs : Rows) (hs : Sorted rs) :
    find k (below n rs) = if k < n then find k rs else none := by
  by_cases hk : k < n
  · rw [if_pos hk]
    cases hf : find k rs with
    | some g =>
      exact find_of_mem (sorted_below n rs hs) (mem_below.mpr ⟨find_mem hf, hk⟩)
    | none =>
      cases hf' : find k (below n rs) with
      | none => rfl
      | some g =>
        have := find_of_mem hs (mem_below.mp (find_mem hf')).1
        rw [hf] at this; cases this
  · rw [if_neg hk]
    exact find_none_of_allLt (allLt_below n rs) (by omega)

theorem mem_range {b e : Int} {rs : Rows} {p : Int × Msg} :
    p ∈ range b e rs ↔ p ∈ rs ∧ b ≤ p.1 ∧ p.1 ≤ e := by
  simp [range, List.mem_filter]

theorem sorted_range (b e : Int) (rs : Rows) (h : Sorted rs) : Sorted (range b e rs) :=
  List.Pairwise.filter _ h

end Rows

end AsyncFix.Session
