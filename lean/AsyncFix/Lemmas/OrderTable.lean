/-
Finite-abstraction lemma for the table interpreter: evaluating the table on
arbitrary strings equals evaluating it on the strings normalised to
`keys ∪ {fresh}`.  Every ∀-strings theorem of Props/C16 is reduced by it to a
finite check that the kernel evaluates on the *generated* table.
-/
import AsyncFix.Model.OrderTable
namespace AsyncFix.Model.OrderTable

def norm (keys : List String) (fresh k : String) : String :=
  if k ∈ keys then k else fresh

theorem norm_of_mem {keys : List String} {fresh k : String} (h : k ∈ keys) :
    norm keys fresh k = k := by simp [norm, h]

theorem norm_mem (keys : List String) (fresh k : String) : norm keys fresh k ∈ fresh :: keys := by
  unfold norm; split <;> simp [*]

theorem lookup_eq_none {α : Type} (k : String) (l : List (String × α))
    (h : k ∉ l.map Prod.fst) : lookup k l = none := by
  induction l with
  | nil => rfl
  | cons p rest ih =>
    obtain ⟨k', v⟩ := p
    simp only [List.map_cons, List.mem_cons, not_or] at h
    simp [lookup, h.1, ih h.2]

theorem lookup_norm {α : Type} (keys : List String) (fresh k : String) (l : List (String × α))
    (hsub : ∀ x ∈ l.map Prod.fst, x ∈ keys) (hf : fresh ∉ keys) :
    lookup (norm keys fresh k) l = lookup k l := by
  unfold norm
  split
  · rfl
  · rename_i hk
    have h1 : k ∉ l.map Prod.fst := fun h => hk (hsub _ h)
    have h2 : fresh ∉ l.map Prod.fst := fun h => hf (hsub _ h)
    rw [lookup_eq_none _ _ h1, lookup_eq_none _ _ h2]

/-- all keys of an association list are in `keys` -/
def keysIn {α : Type} (l : List (String × α)) (keys : List String) : Bool :=
  l.all fun p => keys.contains p.1

theorem keysIn_sub {α : Type} {l : List (String × α)} {keys : List String}
    (h : keysIn l keys = true) : ∀ x ∈ l.map Prod.fst, x ∈ keys := by
  intro x hx
  simp only [List.mem_map] at hx
  obtain ⟨p, hp, rfl⟩ := hx
  simp only [keysIn, List.all_eq_true] at h
  simpa using h p hp

def Row.ok (r : Row) (R : List String) : Bool := keysIn r.cells R

def RowSpec.ok (rs : RowSpec) (E R : List String) : Bool :=
  match rs with
  | .plain r => r.ok R
  | .byExec subs d => keysIn subs E && subs.all (fun p => p.2.ok R) && d.ok R

def Table.ok (t : Table) (S E R : List String) : Bool :=
  keysIn t.rows S && t.rows.all (fun p => p.2.ok E R) && t.dflt.ok E R

/-- Side condition, decided on the generated table: the key universes cover every
key that occurs, and `fresh` is none of them. -/
def Spec.ok (sp : Spec) (K S E R : List String) (fresh : String) : Bool :=
  keysIn sp K && sp.all (fun p => p.2.ok S E R) &&
  !K.contains fresh && !S.contains fresh && !E.contains fresh && !R.contains fresh

theorem lookup_mem {α : Type} {k : String} {l : List (String × α)} {v : α}
    (h : lookup k l = some v) : (k, v) ∈ l := by
  induction l with
  | nil => simp [lookup] at h
  | cons p rest ih =>
    obtain ⟨k', v'⟩ := p
    unfold lookup at h
    split at h
    · rename_i hk; cases h; subst hk; simp
    · exact List.mem_cons_of_mem _ (ih h)

theorem Row.eval_norm (r : Row) (R : List String) (f ms : String)
    (hok : r.ok R = true) (hf : f ∉ R) : r.eval (norm R f ms) = r.eval ms := by
  unfold Row.eval
  rw [lookup_norm R f ms r.cells (keysIn_sub hok) hf]

theorem RowSpec.row_norm (rs : RowSpec) (E R : List String) (f ex : String)
    (hok : rs.ok E R = true) (hf : f ∉ E) : rs.row (norm E f ex) = rs.row ex := by
  cases rs with
  | plain r => rfl
  | byExec subs d =>
    simp only [RowSpec.ok, Bool.and_eq_true] at hok
    simp only [RowSpec.row]
    rw [lookup_norm E f ex subs (keysIn_sub hok.1.1) hf]

theorem RowSpec.row_ok (rs : RowSpec) (E R : List String) (ex : String)
    (hok : rs.ok E R = true) : (rs.row ex).ok R = true := by
  cases rs with
  | plain r => simpa [RowSpec.ok, RowSpec.row] using hok
  | byExec subs d =>
    simp only [RowSpec.ok, Bool.and_eq_true, List.all_eq_true] at hok
    simp only [RowSpec.row]
    cases h : lookup ex subs with
    | none => simpa using hok.2
    | some r => simpa using hok.1.2 _ (lookup_mem h)

theorem Table.eval_norm (t : Table) (S E R : List String) (f st ex ms : String)
    (hok : t.ok S E R = true) (hS : f ∉ S) (hE : f ∉ E) (hR : f ∉ R) :
    t.eval (norm S f st) (norm E f ex) (norm R f ms) = t.eval st ex ms := by
  simp only [Table.ok, Bool.and_eq_true, List.all_eq_true] at hok
  unfold Table.eval
  rw [lookup_norm S f st t.rows (keysIn_sub hok.1.1) hS]
  have hrs : ((lookup st t.rows).getD t.dflt).ok E R = true := by
    cases h : lookup st t.rows with
    | none => simpa using hok.2
    | some rs => simpa using hok.1.2 _ (lookup_mem h)
  rw [RowSpec.row_norm _ E R f ex hrs hE]
  exact Row.eval_norm _ R f ms (RowSpec.row_ok _ E R ex hrs) hR

theorem cellOf_norm (sp : Spec) (K S E R : List String) (f : String)
    (hok : sp.ok K S E R f = true) (kind st ex ms : String) :
    cellOf sp kind st ex ms =
      cellOf sp (norm K f kind) (norm S f st) (norm E f ex) (norm R f ms) := by
  simp only [Spec.ok, Bool.and_eq_true, Bool.not_eq_true', List.all_eq_true] at hok
  obtain ⟨⟨⟨⟨⟨hK, hT⟩, fK⟩, fS⟩, fE⟩, fR⟩ := hok
  have nK : f ∉ K := by simpa using fK
  have nS : f ∉ S := by simpa using fS
  have nE : f ∉ E := by simpa using fE
  have nR : f ∉ R := by simpa using fR
  unfold cellOf
  rw [lookup_norm K f kind sp (keysIn_sub hK) nK]
  cases h : lookup kind sp with
  | none => rfl
  | some t =>
    simp only
    rw [Table.eval_norm t S E R f st ex ms (hT _ (lookup_mem h)) nS nE nR]

end AsyncFix.Model.OrderTable

namespace AsyncFix.Model.OrderTable

/-! ### key universes computed from a spec, and the exhaustive check combinator -/

def Row.keys (r : Row) : List String := r.cells.map (·.1)
def RowSpec.execKeys : RowSpec → List String
  | .plain _ => []
  | .byExec subs _ => subs.map (·.1)
def RowSpec.repKeys : RowSpec → List String
  | .plain r => r.keys
  | .byExec subs d => subs.flatMap (·.2.keys) ++ d.keys
def Table.statusKeys (t : Table) : List String := t.rows.map (·.1)
def Table.execKeys (t : Table) : List String := t.rows.flatMap (·.2.execKeys) ++ t.dflt.execKeys
def Table.repKeys (t : Table) : List String := t.rows.flatMap (·.2.repKeys) ++ t.dflt.repKeys

structure Universe where
  K : List String
  S : List String
  E : List String
  R : List String
  fresh : String

/-- exhaustive evaluation of a Boolean predicate over `(fresh :: K) × (fresh :: S) × (fresh :: E) × (fresh :: R)` -/
def checkAll (sp : Spec) (u : Universe) (p : String → String → String → String → Out → Bool) : Bool :=
  (u.fresh :: u.K).all fun k => (u.fresh :: u.S).all fun s =>
  (u.fresh :: u.E).all fun e => (u.fresh :: u.R).all fun r => p k s e r (cellOf sp k s e r)

theorem checkAll_spec {sp : Spec} {u : Universe} {p : String → String → String → String → Out → Bool}
    (hok : sp.ok u.K u.S u.E u.R u.fresh = true) (h : checkAll sp u p = true)
    (k s e r : String) :
    p (norm u.K u.fresh k) (norm u.S u.fresh s) (norm u.E u.fresh e) (norm u.R u.fresh r)
      (cellOf sp k s e r) = true := by
  simp only [checkAll, List.all_eq_true] at h
  rw [cellOf_norm sp u.K u.S u.E u.R u.fresh hok k s e r]
  exact h _ (norm_mem _ _ _) _ (norm_mem _ _ _) _ (norm_mem _ _ _) _ (norm_mem _ _ _)

/-- membership in a list of universe members is invariant under normalisation -/
theorem contains_norm {U L : List String} {f : String} (hsub : ∀ x ∈ L, x ∈ U) (hf : f ∉ U)
    (x : String) : L.contains (norm U f x) = L.contains x := by
  unfold norm
  split
  · rfl
  · rename_i hx
    have h1 : f ∉ L := fun h => hf (hsub _ h)
    have h2 : x ∉ L := fun h => hx (hsub _ h)
    simp [h1, h2]

theorem beq_norm {U : List String} {f c : String} (hc : c ∈ U) (hf : f ∉ U)
    (x : String) : (norm U f x == c) = (x == c) := by
  unfold norm
  split
  · rfl
  · rename_i hx
    have h1 : f ≠ c := fun h => hf (h ▸ hc)
    have h2 : x ≠ c := fun h => hx (h ▸ hc)
    rw [beq_eq_false_iff_ne.mpr h1, beq_eq_false_iff_ne.mpr h2]

theorem lookup_isSome_of_mem {α : Type} {k : String} {l : List (String × α)}
    (h : k ∈ l.map Prod.fst) : ∃ v, lookup k l = some v := by
  induction l with
  | nil => simp at h
  | cons p rest ih =>
    obtain ⟨k', v⟩ := p
    unfold lookup
    by_cases hk : k = k'
    · exact ⟨v, by simp [hk]⟩
    · simp only [List.map_cons, List.mem_cons, hk, false_or] at h
      obtain ⟨w, hw⟩ := ih h
      exact ⟨w, by simp [hk, hw]⟩

end AsyncFix.Model.OrderTable
