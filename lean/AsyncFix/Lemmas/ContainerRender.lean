/-
`FIXContainer.__str__` is injective on "safe" containers.  Core Lean only.

safe  :=  no class-object values, no `|` `,` `[` `]` in string values, no `=` `|` `,` `[` `]` `>` in tags
          (recursively through the group items).
Proof idea: a rendered value is bracket-balanced and has no `|` / `,` outside brackets, so a rendered
field (item) ends exactly at the first top-level `|` (`,`) – `split_unique`.
-/
import AsyncFix.Lemmas.ContainerPyInt
import AsyncFix.Model.Container
namespace AsyncFix.Model.Container
open AsyncFix.Py

/-! ### bracket-depth scan -/

/-- walk over `s` starting at bracket depth `d`; fail (`none`) on a `]` at depth 0 or on a depth-0
character satisfying `stop`; otherwise the final depth -/
def scan (stop : Nat → Bool) : Nat → Str → Option Nat
  | d, [] => some d
  | d, c :: cs =>
    if c = 91 then scan stop (d + 1) cs
    else if c = 93 then (match d with
      | 0 => none
      | d' + 1 => scan stop d' cs)
    else if d = 0 ∧ stop c = true then none
    else scan stop d cs

def noStop : Nat → Bool := fun _ => false
def isBar : Nat → Bool := fun c => c == 124
def isComma : Nat → Bool := fun c => c == 44
def isBarComma : Nat → Bool := fun c => c == 124 || c == 44

theorem scan_append (stop : Nat → Bool) (x y : Str) (d : Nat) :
    scan stop d (x ++ y) = (scan stop d x).bind fun e => scan stop e y := by
  induction x generalizing d with
  | nil => simp [scan]
  | cons c cs ih =>
    simp only [List.cons_append, scan]
    split
    · exact ih _
    · split
      · cases d with
        | zero => simp
        | succ d' => exact ih _
      · split
        · simp
        · exact ih _

theorem scan_mono (stop stop' : Nat → Bool) (hm : ∀ c, stop' c = true → stop c = true) (x : Str) (d e : Nat)
    (h : scan stop d x = some e) : scan stop' d x = some e := by
  induction x generalizing d with
  | nil => simpa [scan] using h
  | cons c cs ih =>
    simp only [scan] at h ⊢
    split
    · next h91 => simp only [h91, if_true] at h; exact ih _ h
    · next h91 =>
      simp only [h91, if_false] at h
      split
      · next h93 =>
        simp only [h93, if_true] at h
        cases d with
        | zero => simp at h
        | succ d' => exact ih _ h
      · next h93 =>
        simp only [h93, if_false] at h
        split at h
        · simp at h
        · next hns =>
          have : ¬ (d = 0 ∧ stop' c = true) := fun hh => hns ⟨hh.1, hm c hh.2⟩
          simp only [this, if_false]
          exact ih _ h

/-- inside brackets nothing stops the scan: a balanced string keeps any deeper level -/
theorem scan_deeper (stop : Nat → Bool) (x : Str) (d e : Nat) (h : scan noStop d x = some e) :
    scan stop (d + 1) x = some (e + 1) := by
  induction x generalizing d with
  | nil => simp only [scan, Option.some.injEq] at h ⊢; omega
  | cons c cs ih =>
    simp only [scan] at h ⊢
    split
    · next h91 => simp only [h91, if_true] at h; exact ih _ h
    · next h91 =>
      simp only [h91, if_false] at h
      split
      · next h93 =>
        simp only [h93, if_true] at h
        cases d with
        | zero => simp at h
        | succ d' => exact ih _ h
      · next h93 =>
        simp only [h93, if_false] at h
        have hn : ¬ (d = 0 ∧ noStop c = true) := by simp [noStop]
        simp only [hn, if_false] at h
        have : ¬ (d + 1 = 0 ∧ stop c = true) := by omega
        simp only [this, if_false]
        exact ih _ h

/-- a string without brackets and without stop characters leaves the depth unchanged -/
theorem scan_plain (stop : Nat → Bool) (x : Str) (d : Nat)
    (h : ∀ c ∈ x, c ≠ 91 ∧ c ≠ 93 ∧ stop c = false) : scan stop d x = some d := by
  induction x with
  | nil => rfl
  | cons c cs ih =>
    obtain ⟨h1, h2, h3⟩ := h c (by simp)
    simp only [scan, h1, h2, h3, if_false]
    simp only [Bool.false_eq_true, and_false, if_false]
    exact ih (fun x hx => h x (by simp [hx]))

/-- a terminator: end of text, or a character on which the scan stops at depth 0 -/
def Term (stop : Nat → Bool) (y : Str) : Prop :=
  y = [] ∨ ∃ c u, y = c :: u ∧ (stop c = true ∨ c = 93)

theorem scan_term_none (stop : Nat → Bool) (c : Nat) (u : Str) (hc : stop c = true ∨ c = 93) :
    scan stop 0 (c :: u) = none ∨ c = 91 := by
  by_cases h91 : c = 91
  · exact Or.inr h91
  · left
    simp only [scan, h91, if_false]
    rcases hc with hc | hc
    · by_cases h93 : c = 93
      · simp [h93]
      · simp [h93, hc]
    · simp [hc]

/-- if two texts, each a balanced piece followed by a terminator, are equal, the pieces are equal -/
theorem split_unique (stop : Nat → Bool) (hs91 : stop 91 = true → False) (x x' y y' : Str) (d : Nat)
    (hx : scan stop d x = some 0) (hx' : scan stop d x' = some 0)
    (hy : Term stop y) (hy' : Term stop y') (h : x ++ y = x' ++ y') : x = x' ∧ y = y' := by
  induction x generalizing x' d with
  | nil =>
    have hd : d = 0 := by simpa [scan] using hx
    subst hd
    cases x' with
    | nil => exact ⟨rfl, by simpa using h⟩
    | cons c cs =>
      exfalso
      simp only [List.nil_append, List.cons_append] at h
      rcases hy with hy | ⟨c0, u, hyc, hstop⟩
      · subst hy; simp at h
      · rw [hyc] at h
        simp only [List.cons.injEq] at h
        obtain ⟨hcc, _⟩ := h
        subst hcc
        rcases scan_term_none stop c0 cs hstop with hn | h91
        · rw [hn] at hx'; simp at hx'
        · subst h91
          rcases hstop with hh | hh
          · exact hs91 hh
          · omega
  | cons c cs ih =>
    cases x' with
    | nil =>
      exfalso
      simp only [List.nil_append, List.cons_append] at h
      have hd : d = 0 := by simpa [scan] using hx'
      subst hd
      rcases hy' with hy' | ⟨c0, u, hyc, hstop⟩
      · subst hy'; simp at h
      · rw [hyc] at h
        simp only [List.cons.injEq] at h
        obtain ⟨hcc, _⟩ := h
        subst hcc
        rcases scan_term_none stop c cs hstop with hn | h91
        · rw [hn] at hx; simp at hx
        · subst h91
          rcases hstop with hh | hh
          · exact hs91 hh
          · omega
    | cons c' cs' =>
      simp only [List.cons_append, List.cons.injEq] at h
      obtain ⟨hcc, ht⟩ := h
      subst hcc
      simp only [scan] at hx hx'
      by_cases h91 : c = 91
      · simp only [h91, if_true] at hx hx'
        obtain ⟨e1, e2⟩ := ih cs' (d + 1) hx hx' ht
        exact ⟨by rw [e1], e2⟩
      · simp only [h91, if_false] at hx hx'
        by_cases h93 : c = 93
        · simp only [h93, if_true] at hx hx'
          cases d with
          | zero => simp at hx
          | succ d' =>
            obtain ⟨e1, e2⟩ := ih cs' d' hx hx' ht
            exact ⟨by rw [e1], e2⟩
        · simp only [h93, if_false] at hx hx'
          split at hx
          · simp at hx
          · next hns =>
            simp only [hns, if_false] at hx'
            obtain ⟨e1, e2⟩ := ih cs' d hx hx' ht
            exact ⟨by rw [e1], e2⟩

/-! ### splitting at the first `=` -/

theorem split_first (m : Nat) (a b x y : Str) (ha : m ∉ a) (hb : m ∉ b) (h : a ++ m :: x = b ++ m :: y) :
    a = b ∧ x = y := by
  induction a generalizing b with
  | nil =>
    cases b with
    | nil => simpa using h
    | cons c cs =>
      simp only [List.nil_append, List.cons_append, List.cons.injEq] at h
      exact absurd (by simp [h.1]) hb
  | cons c cs ih =>
    cases b with
    | nil =>
      simp only [List.nil_append, List.cons_append, List.cons.injEq] at h
      exact absurd (by simp [h.1]) ha
    | cons c' cs' =>
      simp only [List.cons_append, List.cons.injEq] at h
      obtain ⟨e1, e2⟩ := ih cs' (fun hm => ha (by simp [hm])) (fun hm => hb (by simp [hm])) h.2
      exact ⟨by rw [h.1, e1], e2⟩

end AsyncFix.Model.Container
