/-
`FIXContainer.__eq__(dict)`: exactly when it returns True, and exactly why it raises.  Core Lean only.
-/
import AsyncFix.Lemmas.ContainerOps
namespace AsyncFix.Model.Container
open AsyncFix.Py

theorem sameSet_iff (a b : List Str) : sameSet a b = true ↔ ∀ x, x ∈ a ↔ x ∈ b := by
  simp only [sameSet, Bool.and_eq_true, List.all_eq_true, List.contains_iff_mem]
  constructor
  · intro h x; exact ⟨h.1 x, h.2 x⟩
  · intro h; exact ⟨fun x hx => (h x).1 hx, fun x hx => (h x).2 hx⟩

/-- what one round of the comparison loop does, by the state of the tag in the container -/
theorem eqDictLoop_cons (c : Cont) (t v : PyObj) (rest : List (PyObj × PyObj)) :
    eqDictLoop c ((t, v) :: rest) =
      if t.pyStr ∈ ignoreStrs then eqDictLoop c rest
      else match lookup t.pyStr c with
      | none => .error .tagNotFound
      | some (.group _) => .error .fixMessageError
      | some (.cls .tagNotFound) => .error .tagNotFound
      | some (.cls .repeating) => .error .repeating
      | some (.cls _) => .ok false
      | some (.str s) => if s = v.pyStr then eqDictLoop c rest else .ok false := by
  by_cases hi : t.pyStr ∈ ignoreStrs
  · simp [eqDictLoop, hi]
  · cases h : lookup t.pyStr c with
    | none => simp [eqDictLoop, hi, isGroup, getItem, get, getCls, h]
    | some x =>
      cases x with
      | group gs => simp [eqDictLoop, hi, isGroup, h]
      | str s => by_cases e : s = v.pyStr <;> simp [eqDictLoop, hi, isGroup, getItem, get, h, e]
      | cls k => cases k <;> simp [eqDictLoop, hi, isGroup, getItem, get, getCls, h]

theorem eqDictLoop_true_iff (c : Cont) (d : List (PyObj × PyObj)) :
    eqDictLoop c d = .ok true ↔
      ∀ p ∈ d, p.1.pyStr ∉ ignoreStrs → lookup p.1.pyStr c = some (.str p.2.pyStr) := by
  induction d with
  | nil => simp [eqDictLoop]
  | cons p rest ih =>
    obtain ⟨t, v⟩ := p
    rw [eqDictLoop_cons]
    simp only [List.mem_cons, forall_eq_or_imp]
    by_cases hi : t.pyStr ∈ ignoreStrs
    · simp [hi, ih]
    · simp only [hi, if_false, not_false_eq_true, forall_const]
      cases h : lookup t.pyStr c with
      | none => simp
      | some x =>
        cases x with
        | group gs => simp
        | cls k => cases k <;> simp
        | str s =>
          by_cases e : s = v.pyStr
          · simp [e, ih]
          · simp [e]

/-- why the loop raises -/
theorem eqDictLoop_error (c : Cont) (d : List (PyObj × PyObj)) (k : Kind) (h : eqDictLoop c d = .error k) :
    ∃ p ∈ d, p.1.pyStr ∉ ignoreStrs ∧
      ((k = .fixMessageError ∧ ∃ gs, lookup p.1.pyStr c = some (.group gs)) ∨
      (k = .tagNotFound ∧ (lookup p.1.pyStr c = none ∨ lookup p.1.pyStr c = some (.cls .tagNotFound))) ∨
      (k = .repeating ∧ lookup p.1.pyStr c = some (.cls .repeating))) := by
  induction d with
  | nil => simp [eqDictLoop] at h
  | cons p rest ih =>
    obtain ⟨t, v⟩ := p
    rw [eqDictLoop_cons] at h
    by_cases hi : t.pyStr ∈ ignoreStrs
    · simp only [hi, if_true] at h
      obtain ⟨p, hp, hc⟩ := ih h
      exact ⟨p, by simp [hp], hc⟩
    · simp only [hi, if_false] at h
      cases hl : lookup t.pyStr c with
      | none =>
        simp only [hl, Except.error.injEq] at h
        exact ⟨(t, v), by simp, hi, Or.inr (Or.inl ⟨h.symm, Or.inl hl⟩)⟩
      | some x =>
        cases x with
        | group gs =>
          simp only [hl, Except.error.injEq] at h
          exact ⟨(t, v), by simp, hi, Or.inl ⟨h.symm, gs, hl⟩⟩
        | cls kk =>
          cases kk with
          | tagNotFound =>
            simp only [hl, Except.error.injEq] at h
            exact ⟨(t, v), by simp, hi, Or.inr (Or.inl ⟨h.symm, Or.inr hl⟩)⟩
          | repeating =>
            simp only [hl, Except.error.injEq] at h
            exact ⟨(t, v), by simp, hi, Or.inr (Or.inr ⟨h.symm, hl⟩)⟩
          | exc r => simp [hl] at h
          | other r => simp [hl] at h
        | str s =>
          simp only [hl] at h
          by_cases e : s = v.pyStr
          · simp only [e, if_true] at h
            obtain ⟨p, hp, hc⟩ := ih h
            exact ⟨p, by simp [hp], hc⟩
          · simp [e] at h

/-- the tag sets compared by `__eq__(dict)`: all tags except the ignored framing tags -/
def SameTags (c : Cont) (d : List (PyObj × PyObj)) : Prop :=
  ∀ k, k ∉ ignoreStrs → (k ∈ keys c ↔ ∃ p ∈ d, p.1.pyStr = k)

/-- the tag-set test of `__eq__(dict)`, as computed -/
def tagSetsAgree (c : Cont) (d : List (PyObj × PyObj)) : Bool :=
  sameSet ((d.map (·.1.pyStr)).filter (!ignoreStrs.contains ·)) ((keys c).filter (!ignoreStrs.contains ·))

theorem sameTags_iff (c : Cont) (d : List (PyObj × PyObj)) : tagSetsAgree c d = true ↔ SameTags c d := by
  unfold tagSetsAgree
  rw [sameSet_iff]
  simp only [List.mem_filter, List.mem_map, Bool.not_eq_true', List.contains_eq_mem, decide_eq_false_iff_not,
    SameTags]
  constructor
  · intro h k hk
    have := h k
    constructor
    · intro hc
      obtain ⟨⟨p, hp, e⟩, _⟩ := this.2 ⟨hc, hk⟩
      exact ⟨p, hp, e⟩
    · rintro ⟨p, hp, e⟩
      exact (this.1 ⟨⟨p, hp, e⟩, hk⟩).1
  · intro h k
    constructor
    · rintro ⟨⟨p, hp, e⟩, hk⟩
      exact ⟨(h k hk).2 ⟨p, hp, e⟩, hk⟩
    · rintro ⟨hc, hk⟩
      obtain ⟨p, hp, e⟩ := (h k hk).1 hc
      exact ⟨⟨p, hp, e⟩, hk⟩

theorem eqDict_unfold (c : Cont) (d : List (PyObj × PyObj)) :
    eqDict c d = if tagSetsAgree c d = true then eqDictLoop c d else .ok false := by
  simp only [eqDict, tagSetsAgree]
  split <;> simp_all

/-- same content, ignoring the four framing tags on both sides -/
def SameContentIgnoringFraming (c : Cont) (d : List (PyObj × PyObj)) : Prop :=
  SameTags c d ∧ ∀ p ∈ d, p.1.pyStr ∉ ignoreStrs → lookup p.1.pyStr c = some (.str p.2.pyStr)

/-- `container == dict` is True exactly when the content is the same ignoring the framing tags -/
theorem eqDict_true_iff (c : Cont) (d : List (PyObj × PyObj)) :
    eqDict c d = .ok true ↔ SameContentIgnoringFraming c d := by
  unfold SameContentIgnoringFraming
  rw [eqDict_unfold, ← sameTags_iff, ← eqDictLoop_true_iff]
  by_cases h : tagSetsAgree c d = true
  · simp only [h, if_true, true_and]
  · simp [h]

/-- why `container == dict` raises: only a group (documented) or a stored error-marker class under a
non-framing tag of the dict -/
theorem eqDict_error (c : Cont) (d : List (PyObj × PyObj)) (k : Kind) (h : eqDict c d = .error k) :
    SameTags c d ∧ ∃ p ∈ d, p.1.pyStr ∉ ignoreStrs ∧
      ((k = .fixMessageError ∧ ∃ gs, lookup p.1.pyStr c = some (.group gs)) ∨
      (k = .tagNotFound ∧ lookup p.1.pyStr c = some (.cls .tagNotFound)) ∨
      (k = .repeating ∧ lookup p.1.pyStr c = some (.cls .repeating))) := by
  rw [eqDict_unfold] at h
  split at h
  · next hs =>
    have hst := (sameTags_iff c d).1 hs
    refine ⟨hst, ?_⟩
    obtain ⟨p, hp, hi, hc⟩ := eqDictLoop_error c d k h
    refine ⟨p, hp, hi, ?_⟩
    rcases hc with hc | ⟨hk, hc⟩ | hc
    · exact Or.inl hc
    · refine Or.inr (Or.inl ⟨hk, ?_⟩)
      rcases hc with hn | hn
      · exfalso
        have := (hst _ hi).2 ⟨p, hp, rfl⟩
        exact (lookup_eq_none_iff _ _).1 hn this
      · exact hn
    · exact Or.inr (Or.inr hc)
  · simp at h

/-- a container whose values are all plain strings -/
def Plain (c : Cont) : Prop := ∀ k v, lookup k c = some v → ∃ s, v = .str s

/-- on a container of plain strings dict equality never raises -/
theorem eqDict_total_of_plain (c : Cont) (d : List (PyObj × PyObj)) (hp : Plain c) :
    ∃ b, eqDict c d = .ok b := by
  cases h : eqDict c d with
  | ok b => exact ⟨b, rfl⟩
  | error k =>
    exfalso
    obtain ⟨_, p, hpd, _, hc⟩ := eqDict_error c d k h
    rcases hc with ⟨_, gs, hl⟩ | ⟨_, hl⟩ | ⟨_, hl⟩ <;> (obtain ⟨s, hs⟩ := hp _ _ hl; simp at hs)

end AsyncFix.Model.Container
