/-
`FIXContainer.__eq__(dict)`: exactly when it returns True, and exactly why it raises.  Core Lean only.
-/
import AsyncFix.Lemmas.ContainerOps
namespace AsyncFix.Model.Container
open AsyncFix.Py

theorem sameSet_iff (a b : List Str) : sameSet a b = true ↔ ∀ x, x ∈ a ↔ x ∈ b := by
  simp only [sameSet, Bool.and_eq_true, List.all_eq_true, List.contains_iff_mem]
  constructor
  · intro h x; exact ⟨h.1 x, h.2 x⟩
  · intro h; exact ⟨fun x hx => (h x).1 hx, fun x hx => (h x).2 hx⟩

/-- what one round of the comparison loop does, by the state of the tag in the container -/
theorem eqDictLoop_cons (c : Cont) (t v : PyObj) (rest : List (PyObj × PyObj)) :
    eqDictLoop c ((t, v) :: rest) =
      match lookup t.pyStr c with
      | none => .error .tagNotFound
      | some (.group _) => .error .fixMessageError
      | some (.cls .tagNotFound) => .error .tagNotFound
      | some (.cls .repeating) => .error .repeating
      | some (.cls _) => .ok false
      | some (.str s) => if s = v.pyStr then eqDictLoop c rest else .ok false := by
  cases h : lookup t.pyStr c with
  | none => simp [eqDictLoop, isGroup, getItem, get, getCls, h]
  | some x =>
    cases x with
    | group gs => simp [eqDictLoop, isGroup, h]
    | str s => by_cases e : s = v.pyStr <;> simp [eqDictLoop, isGroup, getItem, get, h, e]
    | cls k => cases k <;> simp [eqDictLoop, isGroup, getItem, get, getCls, h]

theorem eqDictLoop_true_iff (c : Cont) (d : List (PyObj × PyObj)) :
    eqDictLoop c d = .ok true ↔ ∀ p ∈ d, lookup p.1.pyStr c = some (.str p.2.pyStr) := by
  induction d with
  | nil => simp [eqDictLoop]
  | cons p rest ih =>
    obtain ⟨t, v⟩ := p
    rw [eqDictLoop_cons]
    simp only [List.mem_cons, forall_eq_or_imp]
    cases h : lookup t.pyStr c with
    | none => simp
    | some x =>
      cases x with
      | group gs => simp
      | cls k => cases k <;> simp
      | str s =>
        by_cases e : s = v.pyStr
        · simp [e, ih]
        · simp [e]

/-- why the loop raises -/
theorem eqDictLoop_error (c : Cont) (d : List (PyObj × PyObj)) (k : Kind) (h : eqDictLoop c d = .error k) :
    ∃ p ∈ d,
      (k = .fixMessageError ∧ ∃ gs, lookup p.1.pyStr c = some (.group gs)) ∨
      (k = .tagNotFound ∧ (lookup p.1.pyStr c = none ∨ lookup p.1.pyStr c = some (.cls .tagNotFound))) ∨
      (k = .repeating ∧ lookup p.1.pyStr c = some (.cls .repeating)) := by
  induction d with
  | nil => simp [eqDictLoop] at h
  | cons p rest ih =>
    obtain ⟨t, v⟩ := p
    rw [eqDictLoop_cons] at h
    cases hl : lookup t.pyStr c with
    | none =>
      simp only [hl, Except.error.injEq] at h
      exact ⟨(t, v), by simp, Or.inr (Or.inl ⟨h.symm, Or.inl hl⟩)⟩
    | some x =>
      cases x with
      | group gs =>
        simp only [hl, Except.error.injEq] at h
        exact ⟨(t, v), by simp, Or.inl ⟨h.symm, gs, hl⟩⟩
      | cls kk =>
        cases kk with
        | tagNotFound =>
          simp only [hl, Except.error.injEq] at h
          exact ⟨(t, v), by simp, Or.inr (Or.inl ⟨h.symm, Or.inr hl⟩)⟩
        | repeating =>
          simp only [hl, Except.error.injEq] at h
          exact ⟨(t, v), by simp, Or.inr (Or.inr ⟨h.symm, hl⟩)⟩
        | exc r => simp [hl] at h
        | other r => simp [hl] at h
      | str s =>
        simp only [hl] at h
        by_cases e : s = v.pyStr
        · simp only [e, if_true] at h
          obtain ⟨p, hp, hc⟩ := ih h
          exact ⟨p, by simp [hp], hc⟩
        · simp [e] at h

/-- the tag sets compared by `__eq__(dict)`: all tags except the ignored framing tags -/
def SameTags (c : Cont) (d : List (PyObj × PyObj)) : Prop :=
  ∀ k, k ∉ ignoreStrs → (k ∈ keys c ↔ ∃ p ∈ d, p.1.pyStr = k)

/-- the tag-set test of `__eq__(dict)`, as computed -/
def tagSetsAgree (c : Cont) (d : List (PyObj × PyObj)) : Bool :=
  sameSet ((d.map (·.1.pyStr)).filter (!ignoreStrs.contains ·)) ((keys c).filter (!ignoreStrs.contains ·))

theorem sameTags_iff (c : Cont) (d : List (PyObj × PyObj)) : tagSetsAgree c d = true ↔ SameTags c d := by
  unfold tagSetsAgree
  rw [sameSet_iff]
  simp only [List.mem_filter, List.mem_map, Bool.not_eq_true', List.contains_eq_mem, decide_eq_false_iff_not,
    SameTags]
  constructor
  · intro h k hk
    have := h k
    constructor
    · intro hc
      obtain ⟨⟨p, hp, e⟩, _⟩ := this.2 ⟨hc, hk⟩
      exact ⟨p, hp, e⟩
    · rintro ⟨p, hp, e⟩
      exact (this.1 ⟨⟨p, hp, e⟩, hk⟩).1
  · intro h k
    constructor
    · rintro ⟨⟨p, hp, e⟩, hk⟩
      exact ⟨(h k hk).2 ⟨p, hp, e⟩, hk⟩
    · rintro ⟨hc, hk⟩
      obtain ⟨p, hp, e⟩ := (h k hk).1 hc
      exact ⟨⟨p, hp, e⟩, hk⟩

theorem eqDict_unfold (c : Cont) (d : List (PyObj × PyObj)) :
    eqDict c d = if tagSetsAgree c d = true then eqDictLoop c d else .ok false := by
  simp only [eqDict, tagSetsAgree]
  split <;> simp_all

/-- `container == dict` is True exactly when the non-framing tag sets agree and every item of the dict
(framing tags included!) is stored as that string -/
theorem eqDict_true_iff (c : Cont) (d : List (PyObj × PyObj)) :
    eqDict c d = .ok true ↔ SameTags c d ∧ ∀ p ∈ d, lookup p.1.pyStr c = some (.str p.2.pyStr) := by
  rw [eqDict_unfold, ← sameTags_iff, ← eqDictLoop_true_iff]
  by_cases h : tagSetsAgree c d = true
  · simp only [h, if_true, true_and]
  · simp [h]

/-- why `container == dict` raises -/
theorem eqDict_error (c : Cont) (d : List (PyObj × PyObj)) (k : Kind) (h : eqDict c d = .error k) :
    SameTags c d ∧ ∃ p ∈ d,
      (k = .fixMessageError ∧ ∃ gs, lookup p.1.pyStr c = some (.group gs)) ∨
      (k = .tagNotFound ∧ ((lookup p.1.pyStr c = none ∧ p.1.pyStr ∈ ignoreStrs) ∨
                            lookup p.1.pyStr c = some (.cls .tagNotFound))) ∨
      (k = .repeating ∧ lookup p.1.pyStr c = some (.cls .repeating)) := by
  rw [eqDict_unfold] at h
  split at h
  · next hs =>
    have hst := (sameTags_iff c d).1 hs
    refine ⟨hst, ?_⟩
    obtain ⟨p, hp, hc⟩ := eqDictLoop_error c d k h
    refine ⟨p, hp, ?_⟩
    rcases hc with hc | ⟨hk, hc⟩ | hc
    · exact Or.inl hc
    · refine Or.inr (Or.inl ⟨hk, ?_⟩)
      rcases hc with hn | hn
      · left
        refine ⟨hn, ?_⟩
        by_cases hi : p.1.pyStr ∈ ignoreStrs
        · exact hi
        · exfalso
          have := (hst _ hi).2 ⟨p, hp, rfl⟩
          exact (lookup_eq_none_iff _ _).1 hn this
      · exact Or.inr hn
    · exact Or.inr (Or.inr hc)
  · simp at h

/-- a container whose values are all plain strings -/
def Plain (c : Cont) : Prop := ∀ k v, lookup k c = some v → ∃ s, v = .str s

/-- no raise when the container is plain and the dict carries no framing tag -/
theorem eqDict_total_of_plain (c : Cont) (d : List (PyObj × PyObj)) (hp : Plain c)
    (hd : ∀ p ∈ d, p.1.pyStr ∉ ignoreStrs) : ∃ b, eqDict c d = .ok b := by
  cases h : eqDict c d with
  | ok b => exact ⟨b, rfl⟩
  | error k =>
    exfalso
    obtain ⟨_, p, hpd, hc⟩ := eqDict_error c d k h
    rcases hc with ⟨_, gs, hl⟩ | ⟨_, hl⟩ | ⟨_, hl⟩
    · obtain ⟨s, hs⟩ := hp _ _ hl; simp at hs
    · rcases hl with ⟨_, hi⟩ | hl
      · exact hd p hpd hi
      · obtain ⟨s, hs⟩ := hp _ _ hl; simp at hs
    · obtain ⟨s, hs⟩ := hp _ _ hl; simp at hs

end AsyncFix.Model.Container
