/-
List lemmas about the byte-string primitives of the codec model
(`isPrefix`, `findSub`, `findChar`, `splitOn`, `join`, `splitEq`, `sum`).
Used by the C10 proofs (Lemmas/CodecDecode*.lean).
-/
import AsyncFix.Model.Codec.Bytes
namespace AsyncFix.Model.Codec

/-! ### isPrefix / findSub -/

theorem isPrefix_iff {p c : Bytes} : isPrefix p c = true ↔ ∃ r, c = p ++ r := by
  induction p generalizing c with
  | nil => simp [isPrefix]
  | cons x xs ih =>
    cases c with
    | nil => simp [isPrefix]
    | cons y ys =>
      simp only [isPrefix, Bool.and_eq_true, beq_iff_eq, ih, List.cons_append, List.cons.injEq]
      constructor
      · rintro ⟨rfl, r, rfl⟩; exact ⟨r, rfl, rfl⟩
      · rintro ⟨r, rfl, rfl⟩; exact ⟨rfl, r, rfl⟩

theorem isPrefix_append (p r : Bytes) : isPrefix p (p ++ r) = true := isPrefix_iff.2 ⟨r, rfl⟩

/-- `x ++ t` begins with `p` and `p` is not longer than `x`: already `x` begins with `p` -/
theorem prefix_of_append {x t p r : Bytes} (h : x ++ t = p ++ r) (hl : p.length ≤ x.length) :
    ∃ r', x = p ++ r' := by
  rcases List.append_eq_append_iff.1 h with ⟨a, ha, _⟩ | ⟨c, hc, _⟩
  · have : a = [] := by
      have := congrArg List.length ha
      simp only [List.length_append] at this
      exact List.length_eq_zero_iff.1 (by omega)
    subst this
    exact ⟨[], by simpa using ha.symm⟩
  · exact ⟨c, hc⟩

theorem findSub_some {pat : Bytes} : ∀ {s : Bytes} {i : Nat}, findSub pat s = some i →
    ∃ a b, s = a ++ (pat ++ b) ∧ a.length = i := by
  intro s
  induction s with
  | nil => intro i h; simp [findSub] at h
  | cons c rest ih =>
    intro i h
    unfold findSub at h
    split at h
    · rename_i hp
      obtain ⟨r, hr⟩ := isPrefix_iff.1 hp
      cases h
      exact ⟨[], r, by simpa using hr, rfl⟩
    · split at h
      · rename_i j hj
        cases h
        obtain ⟨a, b, hab, hl⟩ := ih hj
        exact ⟨c :: a, b, by simp [hab], by simp [hl]⟩
      · cases h

/-- the index returned by `find` is the FIRST occurrence -/
theorem findSub_min {pat : Bytes} : ∀ {s : Bytes} {i : Nat} {a b : Bytes}, findSub pat s = some i →
    s = a ++ (pat ++ b) → i ≤ a.length := by
  intro s
  induction s with
  | nil => intro i a b h; simp [findSub] at h
  | cons c rest ih =>
    intro i a b h hs
    unfold findSub at h
    split at h
    · cases h; exact Nat.zero_le _
    · rename_i hp
      split at h
      · rename_i j hj
        cases h
        cases a with
        | nil =>
          exfalso; apply hp
          rw [hs]; exact isPrefix_append _ _
        | cons x a' =>
          simp only [List.cons_append, List.cons.injEq] at hs
          have := ih hj hs.2
          simp only [List.length_cons]; omega
      · cases h

theorem findSub_none {pat : Bytes} (hne : pat ≠ []) : ∀ {s : Bytes}, findSub pat s = none →
    ∀ a b, s ≠ a ++ (pat ++ b) := by
  intro s
  induction s with
  | nil =>
    intro _ a b h
    have := congrArg List.length h
    cases pat with
    | nil => exact hne rfl
    | cons _ _ => simp at this
  | cons c rest ih =>
    intro h a b hs
    unfold findSub at h
    split at h
    · cases h
    · rename_i hp
      split at h
      · cases h
      · rename_i hj
        cases a with
        | nil => apply hp; rw [hs]; exact isPrefix_append _ _
        | cons x a' =>
          simp only [List.cons_append, List.cons.injEq] at hs
          exact ih hj a' b hs.2

theorem findSub_le {pat s : Bytes} {i : Nat} (h : findSub pat s = some i) :
    i + pat.length ≤ s.length := by
  obtain ⟨a, b, hs, hl⟩ := findSub_some h
  subst hs; simp only [List.length_append]; omega

/-- an occurrence that lies inside `s` is found at the same place in `s ++ t` -/
theorem findSub_append {pat : Bytes} : ∀ {s : Bytes} {i : Nat} (t : Bytes), findSub pat s = some i →
    findSub pat (s ++ t) = some i := by
  intro s
  induction s with
  | nil => intro i t h; simp [findSub] at h
  | cons c rest ih =>
    intro i t h
    have hle := findSub_le h
    unfold findSub at h
    rw [List.cons_append]
    unfold findSub
    split at h
    · rename_i hp
      obtain ⟨r, hr⟩ := isPrefix_iff.1 hp
      have : isPrefix pat (c :: (rest ++ t)) = true := by
        rw [← List.cons_append, hr, List.append_assoc]; exact isPrefix_append _ _
      simp only [this, if_true]; exact h
    · rename_i hp
      split at h
      · rename_i j hj
        cases h
        have : ¬ isPrefix pat (c :: (rest ++ t)) = true := by
          intro hq
          obtain ⟨r, hr⟩ := isPrefix_iff.1 hq
          rw [← List.cons_append] at hr
          obtain ⟨r', hr'⟩ := prefix_of_append hr (by omega)
          apply hp; rw [hr']; exact isPrefix_append _ _
        simp [this, ih t hj]
      · cases h

/-- conversely: the first occurrence is what `find` returns -/
theorem findSub_eq_of_min {pat : Bytes} (hne : pat ≠ []) {s a b : Bytes} (hs : s = a ++ (pat ++ b))
    (hmin : ∀ a' b', s = a' ++ (pat ++ b') → a.length ≤ a'.length) : findSub pat s = some a.length := by
  cases h : findSub pat s with
  | none => exact absurd hs (findSub_none hne h a b)
  | some i =>
    have h1 := findSub_min h hs
    obtain ⟨a', b', hs', hl⟩ := findSub_some h
    have h2 := hmin a' b' hs'
    congr 1; omega

/-! ### findChar -/

theorem findChar_some {c : Nat} : ∀ {s : Bytes} {i : Nat}, findChar c s = some i →
    ∃ a b, s = a ++ c :: b ∧ a.length = i ∧ c ∉ a := by
  intro s
  induction s with
  | nil => intro i h; simp [findChar] at h
  | cons x rest ih =>
    intro i h
    unfold findChar at h
    split at h
    · rename_i hx
      cases h; subst hx
      exact ⟨[], rest, rfl, rfl, by simp⟩
    · rename_i hx
      split at h
      · rename_i j hj
        cases h
        obtain ⟨a, b, hab, hl, hn⟩ := ih hj
        refine ⟨x :: a, b, by simp [hab], by simp [hl], ?_⟩
        simp only [List.mem_cons, not_or]
        exact ⟨fun h => hx h.symm, hn⟩
      · cases h

theorem findChar_none {c : Nat} : ∀ {s : Bytes}, findChar c s = none → c ∉ s := by
  intro s
  induction s with
  | nil => intro _; simp
  | cons x rest ih =>
    intro h
    unfold findChar at h
    split at h
    · cases h
    · rename_i hx
      split at h
      · cases h
      · rename_i hj
        simp only [List.mem_cons, not_or]
        exact ⟨fun h => hx h.symm, ih hj⟩

theorem findChar_of_notMem {c : Nat} : ∀ (a b : Bytes), c ∉ a → findChar c (a ++ c :: b) = some a.length := by
  intro a
  induction a with
  | nil => intro b _; simp [findChar]
  | cons x a ih =>
    intro b h
    simp only [List.mem_cons, not_or] at h
    have hx : ¬ x = c := fun e => h.1 e.symm
    simp [findChar, hx, ih b h.2]

theorem findChar_append {c : Nat} {s : Bytes} {i : Nat} (t : Bytes) (h : findChar c s = some i) :
    findChar c (s ++ t) = some i := by
  obtain ⟨a, b, hs, hl, hn⟩ := findChar_some h
  subst hs; subst hl
  rw [List.append_assoc, List.cons_append]
  exact findChar_of_notMem a (b ++ t) hn

/-! ### splitOn / join -/

theorem splitOn_ne_nil (sep : Nat) : ∀ s : Bytes, splitOn sep s ≠ [] := by
  intro s
  induction s with
  | nil => simp [splitOn]
  | cons c cs ih =>
    unfold splitOn
    split
    · simp
    · split
      · simp
      · simp

theorem splitOn_cons_sep (sep : Nat) (cs : Bytes) : splitOn sep (sep :: cs) = [] :: splitOn sep cs := by
  simp [splitOn]

theorem splitOn_cons_ne {sep c : Nat} (cs : Bytes) (h : c ≠ sep) :
    ∃ f fs, splitOn sep cs = f :: fs ∧ splitOn sep (c :: cs) = (c :: f) :: fs := by
  cases hs : splitOn sep cs with
  | nil => exact absurd hs (splitOn_ne_nil sep cs)
  | cons f fs =>
    refine ⟨f, fs, rfl, ?_⟩
    simp [splitOn, h, hs]

theorem splitOn_append_sep (sep : Nat) : ∀ a b : Bytes,
    splitOn sep (a ++ sep :: b) = splitOn sep a ++ splitOn sep b := by
  intro a
  induction a with
  | nil => intro b; simp [splitOn]
  | cons c a ih =>
    intro b
    by_cases hc : c = sep
    · subst hc
      rw [List.cons_append, splitOn_cons_sep, splitOn_cons_sep, ih, List.cons_append]
    · obtain ⟨f, fs, h1, h2⟩ := splitOn_cons_ne a hc
      obtain ⟨g, gs, h3, h4⟩ := splitOn_cons_ne (a ++ sep :: b) hc
      rw [List.cons_append, h4, h2]
      rw [ih b, h1, List.cons_append] at h3
      cases h3
      rfl

theorem splitOn_noSep {sep : Nat} : ∀ {s : Bytes}, sep ∉ s → splitOn sep s = [s] := by
  intro s
  induction s with
  | nil => intro _; simp [splitOn]
  | cons c cs ih =>
    intro h
    simp only [List.mem_cons, not_or] at h
    have hc : c ≠ sep := fun e => h.1 e.symm
    obtain ⟨f, fs, h1, h2⟩ := splitOn_cons_ne cs hc
    rw [ih h.2] at h1
    cases h1
    exact h2

theorem splitOn_mem_noSep {sep : Nat} : ∀ {s : Bytes} {m : Bytes}, m ∈ splitOn sep s → sep ∉ m := by
  intro s
  induction s with
  | nil => intro m h; simp [splitOn] at h; subst h; simp
  | cons c cs ih =>
    intro m h
    by_cases hc : c = sep
    · subst hc
      rw [splitOn_cons_sep] at h
      rcases List.mem_cons.1 h with h | h
      · subst h; simp
      · exact ih h
    · obtain ⟨f, fs, h1, h2⟩ := splitOn_cons_ne cs hc
      rw [h2] at h
      rcases List.mem_cons.1 h with h | h
      · subst h
        have := ih (m := f) (by rw [h1]; simp)
        simp only [List.mem_cons, not_or]
        exact ⟨fun e => hc e.symm, this⟩
      · exact ih (by rw [h1]; simp [h])

theorem join_cons_cons (sep : Nat) (f g : Bytes) (gs : List Bytes) :
    join sep (f :: g :: gs) = f ++ sep :: join sep (g :: gs) := by
  simp [join]

theorem join_cons_of_ne (sep : Nat) (f : Bytes) {G : List Bytes} (h : G ≠ []) :
    join sep (f :: G) = f ++ sep :: join sep G := by
  cases G with
  | nil => exact absurd rfl h
  | cons g gs => exact join_cons_cons sep f g gs

theorem join_splitOn (sep : Nat) : ∀ s : Bytes, join sep (splitOn sep s) = s := by
  intro s
  induction s with
  | nil => simp [splitOn, join]
  | cons c cs ih =>
    by_cases hc : c = sep
    · subst hc
      rw [splitOn_cons_sep, join_cons_of_ne _ _ (splitOn_ne_nil _ cs), ih]; rfl
    · obtain ⟨f, fs, h1, h2⟩ := splitOn_cons_ne cs hc
      rw [h2]
      rw [h1] at ih
      cases fs with
      | nil => simp only [join] at ih ⊢; rw [ih]
      | cons g gs =>
        rw [join_cons_cons] at ih ⊢
        rw [List.cons_append, ih]

theorem join_append (sep : Nat) : ∀ {F G : List Bytes}, F ≠ [] → G ≠ [] →
    join sep (F ++ G) = join sep F ++ sep :: join sep G := by
  intro F
  induction F with
  | nil => intro G h; exact absurd rfl h
  | cons f F ih =>
    intro G _ hG
    cases F with
    | nil =>
      show join sep (f :: G) = join sep [f] ++ sep :: join sep G
      rw [join_cons_of_ne sep f hG]; simp [join]
    | cons f' F' =>
      rw [List.cons_append, List.cons_append, join_cons_cons, join_cons_cons, ← List.cons_append,
        ih (by simp) hG]
      simp

theorem join_eq_nil {sep : Nat} {G : List Bytes} (h : join sep G = []) : G = [] ∨ G = [[]] := by
  match G with
  | [] => exact Or.inl rfl
  | [f] => simp only [join] at h; subst h; exact Or.inr rfl
  | f :: g :: gs =>
    rw [join_cons_cons] at h
    have := congrArg List.length h
    simp at this

/-- the first field of a string that does not start with the separator starts with the same byte -/
theorem splitOn_head_cons {sep c : Nat} {cs : Bytes} (h : c ≠ sep) {m : Bytes} {G : List Bytes}
    (hs : splitOn sep (c :: cs) = m :: G) : ∃ m', m = c :: m' := by
  obtain ⟨f, fs, _, h2⟩ := splitOn_cons_ne cs h
  rw [h2] at hs
  cases hs
  exact ⟨f, rfl⟩

/-! ### splitEq -/

theorem splitEq_some {m t v : Bytes} : splitEq m = some (t, v) → m = t ++ EQS :: v := by
  induction m generalizing t v with
  | nil => intro h; simp [splitEq] at h
  | cons c rest ih =>
    intro h
    unfold splitEq at h
    split at h
    · rename_i hc
      cases h; subst hc; rfl
    · split at h
      · rename_i a b hab
        cases h
        rw [ih hab]; rfl
      · cases h

/-! ### sum -/

theorem sum_foldl (l : Bytes) (k : Nat) : l.foldl (· + ·) k = k + sum l := by
  unfold sum
  induction l generalizing k with
  | nil => simp
  | cons x xs ih => simp only [List.foldl_cons]; rw [ih, ih (0 + x)]; omega

theorem sum_nil : sum [] = 0 := rfl

theorem sum_cons (x : Nat) (l : Bytes) : sum (x :: l) = x + sum l := by
  unfold sum; simp only [List.foldl_cons]; rw [sum_foldl]; simp [sum]

theorem sum_append (a b : Bytes) : sum (a ++ b) = sum a + sum b := by
  induction a with
  | nil => simp [sum_nil]
  | cons x a ih => rw [List.cons_append, sum_cons, sum_cons, ih, Nat.add_assoc]

end AsyncFix.Model.Codec
