/-
C15: assembly of `validate = ok ↔ Allowed`, the exception kind, and reachability of nested items.
-/
import AsyncFix.Lemmas.SchemaTop
namespace AsyncFix.Model.Schema

theorem validate_iff_of_WF {vv : Tag → String → Bool} {sch : Schema} (hwf : WF sch) (m : Msg) :
    validate vv sch m = .ok ↔ Allowed vv sch m := by
  unfold validate Allowed
  cases hl : lookupMsg sch.messages m.msgType with
  | none =>
    simp only [reduceCtorEq, false_iff]
    rintro ⟨ms, hms, _⟩
    rw [(lookupMsg_iff hwf.types).mpr hms] at hl
    cases hl
  | some ms =>
    have hms := (lookupMsg_iff hwf.types).mp hl
    have hnd := hwf.members _ hms
    simp only []
    rw [andThen_ok, andThen_ok, checkRequired_ok, checkEntries_iff hnd]
    constructor
    · rintro ⟨hreq, hhdr, hent⟩
      refine ⟨ms, hms, hreq, ?_, hent⟩
      intro h8 mem hmem hr
      rw [if_pos (hasTag_iff.mpr h8)] at hhdr
      have hf := hwf.hdrReq mem hmem hr
      cases mem with
      | group => simp [Member.isField] at hf
      | field t r =>
        simp only [Member.req] at hr
        subst hr
        exact validateHeader_present hhdr t hmem
    · rintro ⟨ms', hms', hreq, hhdr, hent⟩
      have e : ms' = ms := by
        have := (lookupMsg_iff hwf.types).mpr hms'
        rw [hl] at this
        exact (Option.some.inj this).symm
      subst e
      refine ⟨hreq, ?_, hent⟩
      by_cases h8 : hasTag m.tags "8" = true
      · rw [if_pos h8]
        apply validateHeader_ok
        intro t ht
        have hpres := hhdr (hasTag_iff.mp h8) _ ht rfl
        obtain ⟨n, hg⟩ := getNode_of_mem hpres
        obtain ⟨hn, hnt⟩ := getNode_some hg
        have h10 : n.tag ≠ "10" := by
          intro e
          exact hwf.hdr10 ((hnt.symm.trans e) ▸ List.mem_map.mpr ⟨_, ht, rfl⟩)
        obtain ⟨_, mem, hmem, hok⟩ := hent n hn h10
        have hin : Member.field t true ∈ sch.header ++ sch.trailer ++ ms' := by simp [ht]
        have : mem = Member.field t true :=
          membersND_unique hnd hmem hin (hok.tag_eq.trans hnt)
        exact ⟨n, hg, this ▸ hok⟩
      · rw [if_neg h8]

theorem validate_kind {vv : Tag → String → Bool} {sch : Schema} {m : Msg} {k : Kind} :
    validate vv sch m = .raised k → k = .msgError := by
  unfold validate
  split
  · simp; exact fun h => h.symm
  · intro h
    rcases andThen_raised h with h | h
    · exact checkRequired_kind h
    · rcases andThen_raised h with h | h
      · split at h
        · exact validateHeader_kind h
        · cases h
      · exact checkEntries_kind h

/-- nodes that are acceptable instances of members of `ms` carry only acceptable items, at
    every depth -/
theorem itemOk_of_itemIn {vv : Tag → String → Bool} {ms : List Member} {ns : List Node}
    {gm : List Member} {it : List Node} (hin : ItemIn ms ns gm it) :
    membersND ms = true → (∀ n, n ∈ ns → ∃ mem, mem ∈ ms ∧ NodeOk vv mem n) → ItemOk vv gm it := by
  induction hin with
  | here hm hn hit =>
    intro hnd hall
    obtain ⟨mem, hmem, hok⟩ := hall _ hn
    have : mem = _ := membersND_unique hnd hmem hm hok.tag_eq
    subst this
    cases hok with | group h => exact h _ hit
  | deeper hm hn hit _ ih =>
    intro hnd hall
    obtain ⟨mem, hmem, hok⟩ := hall _ hn
    have : mem = _ := membersND_unique hnd hmem hm hok.tag_eq
    subst this
    have hnd' := membersND_mem hnd hm
    rw [memberND] at hnd'
    cases hok with
    | group h =>
      cases h _ hit with
      | mk h1 h2 _ _ _ =>
        apply ih hnd'
        intro n hn'
        obtain ⟨mem', hmem', ht⟩ := List.mem_map.mp (h1 n hn')
        exact ⟨mem', hmem', h2 n hn' mem' hmem' ht⟩

end AsyncFix.Model.Schema
