/-
Helper lemmas for C15: characterisation of the validator model's building blocks.
-/
import AsyncFix.Model.SchemaSpec
namespace AsyncFix.Model.Schema

/-! ### outcomes -/

theorem andThen_ok {a b : Outcome} : a.andThen b = .ok ↔ a = .ok ∧ b = .ok := by
  cases a <;> simp [Outcome.andThen]

theorem andThen_raised {a b : Outcome} {k : Kind} :
    a.andThen b = .raised k → a = .raised k ∨ b = .raised k := by
  cases a with
  | ok => simp [Outcome.andThen]
  | raised k' => simp only [Outcome.andThen]; intro h; exact Or.inl h

theorem strOutcome_ok {vv : Tag → String → Bool} {t : Tag} {s : String} :
    strOutcome vv t s = .ok ↔ s ≠ "" ∧ vv t s = true := by
  unfold strOutcome
  by_cases h : s = "" <;> by_cases h2 : vv t s = true <;> simp [h, h2]

/-! ### tags, membership, lookup -/

theorem hasTag_iff {ns : List Node} {t : Tag} : hasTag ns t = true ↔ t ∈ nodeTags ns := by
  unfold hasTag nodeTags
  rw [List.any_eq_true]
  constructor
  · rintro ⟨n, hn, h⟩; exact List.mem_map.mpr ⟨n, hn, by simpa using h⟩
  · intro h; obtain ⟨n, hn, h⟩ := List.mem_map.mp h; exact ⟨n, hn, by simpa using h⟩

theorem lookupMem_none {gm : List Member} {t : Tag} :
    lookupMem gm t = none ↔ t ∉ memberTags gm := by
  induction gm with
  | nil => simp [lookupMem, memberTags]
  | cons m ms ih =>
    unfold lookupMem
    by_cases h : m.tag = t
    · simp [h, memberTags]
    · simp only [h, if_false]
      have : memberTags (m :: ms) = m.tag :: memberTags ms := rfl
      rw [this, List.mem_cons, not_or]
      cases hl : lookupMem ms t with
      | none => simp [hl] at ih; simp [ih, Ne.symm h]
      | some p => simp [hl] at ih; simp [ih]

theorem lookupMem_some {gm : List Member} {t : Tag} {i : Nat} {m : Member} :
    lookupMem gm t = some (i, m) → m ∈ gm ∧ m.tag = t ∧ i = idxOf gm t := by
  induction gm generalizing i with
  | nil => simp [lookupMem]
  | cons x xs ih =>
    unfold lookupMem
    by_cases h : x.tag = t
    · simp only [h, if_true, Option.some.injEq, Prod.mk.injEq]
      rintro ⟨rfl, rfl⟩
      simp [idxOf, memberTags, h]
    · simp only [h, if_false]
      cases hl : lookupMem xs t with
      | none => simp
      | some p =>
        obtain ⟨j, y⟩ := p
        simp only [Option.some.injEq, Prod.mk.injEq]
        rintro ⟨rfl, rfl⟩
        obtain ⟨h1, h2, h3⟩ := ih hl
        refine ⟨List.mem_cons_of_mem _ h1, h2, ?_⟩
        have hb : (x.tag == t) = false := by simp [h]
        simp [idxOf, memberTags, List.idxOf_cons, hb] at h3 ⊢
        exact h3


theorem lookupMem_zero {gm : List Member} {t : Tag} {m : Member} :
    lookupMem gm t = some (0, m) ↔ ∃ rest, gm = m :: rest ∧ m.tag = t := by
  cases gm with
  | nil => simp [lookupMem]
  | cons x xs =>
    unfold lookupMem
    by_cases h : x.tag = t
    · simp only [h, if_true, Option.some.injEq, Prod.mk.injEq, true_and, List.cons.injEq]
      constructor
      · rintro rfl; exact ⟨xs, ⟨rfl, rfl⟩, h⟩
      · rintro ⟨_, ⟨rfl, _⟩, _⟩; rfl
    · simp only [h, if_false]
      cases hl : lookupMem xs t with
      | none => simp; rintro hx rfl; exact h (by rw [hx])
      | some p =>
        simp only [Option.some.injEq, Prod.mk.injEq, List.cons.injEq]
        constructor
        · rintro ⟨h0, _⟩; omega
        · rintro ⟨_, ⟨rfl, _⟩, h'⟩; exact absurd h' h

/-! ### distinct member tags at every level -/

mutual
def membersND : List Member → Bool
  | [] => true
  | m :: rest => memberND m && !(memberTags rest).contains m.tag && membersND rest
def memberND : Member → Bool
  | .field _ _ => true
  | .group _ _ gm => membersND gm
end

theorem membersND_cons {m : Member} {rest : List Member} :
    membersND (m :: rest) = true ↔ memberND m = true ∧ m.tag ∉ memberTags rest ∧ membersND rest = true := by
  rw [membersND]; simp [Bool.and_eq_true, and_assoc]

theorem membersND_mem {gm : List Member} (h : membersND gm = true) {m : Member} (hm : m ∈ gm) :
    memberND m = true := by
  induction gm with
  | nil => cases hm
  | cons x xs ih =>
    obtain ⟨h1, _, h3⟩ := membersND_cons.mp h
    rcases List.mem_cons.mp hm with rfl | hm
    · exact h1
    · exact ih h3 hm

theorem membersND_unique {gm : List Member} (h : membersND gm = true) {m m' : Member}
    (hm : m ∈ gm) (hm' : m' ∈ gm) (ht : m.tag = m'.tag) : m = m' := by
  induction gm with
  | nil => cases hm
  | cons x xs ih =>
    obtain ⟨_, h2, h3⟩ := membersND_cons.mp h
    have key : ∀ y, y ∈ xs → y.tag ≠ x.tag := fun y hy e =>
      h2 (e ▸ List.mem_map.mpr ⟨y, hy, rfl⟩)
    rcases List.mem_cons.mp hm with e | hm1 <;> rcases List.mem_cons.mp hm' with e' | hm1'
    · rw [e, e']
    · rw [e] at ht; exact absurd ht.symm (key _ hm1')
    · rw [e'] at ht; exact absurd ht (key _ hm1)
    · exact ih h3 hm1 hm1'

theorem lookupMem_of_mem {gm : List Member} (h : membersND gm = true) {m : Member} (hm : m ∈ gm) :
    lookupMem gm m.tag = some (idxOf gm m.tag, m) := by
  cases hl : lookupMem gm m.tag with
  | none => exact absurd (List.mem_map.mpr ⟨m, hm, rfl⟩) (lookupMem_none.mp hl)
  | some p =>
    obtain ⟨i, x⟩ := p
    obtain ⟨h1, h2, h3⟩ := lookupMem_some hl
    rw [membersND_unique h h1 hm h2, h3]

/-! ### the required-members loop and the first-member flag -/

theorem checkRequired_ok {ns : List Node} {gm : List Member} :
    checkRequired ns gm = .ok ↔ ∀ mem, mem ∈ gm → mem.req = true → mem.tag ∈ nodeTags ns := by
  induction gm with
  | nil => simp [checkRequired]
  | cons m rest ih =>
    unfold checkRequired
    by_cases h : (m.req && !hasTag ns m.tag) = true
    · rw [if_pos h]
      simp only [reduceCtorEq, false_iff]
      intro hall
      simp only [Bool.and_eq_true, Bool.not_eq_true'] at h
      have := hasTag_iff.mpr (hall m (List.mem_cons_self ..) h.1)
      simp [this] at h
    · rw [if_neg h, ih]
      constructor
      · intro hall mem hmem hreq
        rcases List.mem_cons.mp hmem with rfl | hmem
        · cases hh : hasTag ns mem.tag with
          | true => exact hasTag_iff.mp hh
          | false => simp [hreq, hh] at h
        · exact hall mem hmem hreq
      · intro hall mem hmem hreq
        exact hall mem (List.mem_cons_of_mem _ hmem) hreq

theorem checkRequired_kind {ns : List Node} {gm : List Member} {k : Kind} :
    checkRequired ns gm = .raised k → k = .msgError := by
  induction gm with
  | nil => simp [checkRequired]
  | cons m rest ih =>
    unfold checkRequired
    split
    · simp; exact fun h => h.symm
    · exact ih

theorem hasFirst_iff {gm : List Member} {it : List Node} :
    (it.any fun n => (lookupMem gm n.tag).any fun p => p.1 = 0) = true ↔
      ∃ m0 rest, gm = m0 :: rest ∧ m0.tag ∈ nodeTags it := by
  rw [List.any_eq_true]
  constructor
  · rintro ⟨n, hn, h⟩
    cases hl : lookupMem gm n.tag with
    | none => simp [hl] at h
    | some p =>
      obtain ⟨i, m⟩ := p
      simp [hl] at h
      subst h
      obtain ⟨rest, rfl, ht⟩ := lookupMem_zero.mp hl
      exact ⟨m, rest, rfl, ht ▸ List.mem_map.mpr ⟨n, hn, rfl⟩⟩
  · rintro ⟨m0, rest, rfl, hmem⟩
    obtain ⟨n, hn, ht⟩ := List.mem_map.mp hmem
    refine ⟨n, hn, ?_⟩
    have : lookupMem (m0 :: rest) n.tag = some (0, m0) := lookupMem_zero.mpr ⟨rest, rfl, ht.symm⟩
    simp [this]

end AsyncFix.Model.Schema
