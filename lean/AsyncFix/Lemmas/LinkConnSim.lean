import AsyncFix.Lemmas.LinkAppSend

/-!
C07: EOF and connection set-up agree with the abstract model.
-/
namespace AsyncFix.Link

open AsyncFix.Session AsyncFix.Generated AsyncFix.Generated.ConnEnum
open AsyncFix.Session.Msg

theorem absSt_disc_iff {s : Side} {c : Conn} (hc : ConnGood s c) : (absConn c).st = .disc ↔ c.sock = false := by
  rw [hc.sock]
  rcases hc.st with h | h | h | h | h | h | h <;>
    simp [absConn, absSt, h, st_DISCONNECTED_NOCONN_TODAY, st_DISCONNECTED_WCONN_TODAY, st_DISCONNECTED_BROKEN_CONN,
      st_NETWORK_CONN_ESTABLISHED, st_LOGON_INITIAL_SENT, st_RESENDREQ_AWAITING, st_ACTIVE]

/-- EOF on the transport -/
theorem eof_sim {s : Side} {env : Env} {c : Conn} (hc : ConnGood s c) :
    StepOK s { c := (absConn c).eof } (Session.eof env c).1 (Session.eof env c).2 := by
  by_cases hs : c.sock = true
  · have hne : (absConn c).st ≠ .disc := by rw [Ne, absSt_disc_iff hc, hs]; decide
    have he : (absConn c).eof = (absConn c).drop := by simp [AConn.eof, hne]
    rw [he]
    rcases state_of_sock hc hs with hst | hst | hst | hst <;>
    · refine recv_drop_eval hc _ _ ?_ ?_ ?_ ?_ ?_ ?_ ?_ ?_ <;>
        simp [Session.eof, hs, M.run, disconnect, M.bind_apply, hst, M.assert_apply, stateSet_apply, setState,
          st_NETWORK_CONN_ESTABLISHED, st_LOGON_INITIAL_SENT, st_RESENDREQ_AWAITING, st_ACTIVE,
          st_DISCONNECTED_BROKEN_CONN, writesOf, deliveriesOf]
  · have hs' : c.sock = false := by simpa using hs
    have hd : (absConn c).st = .disc := (absSt_disc_iff hc).mpr hs'
    have he : (absConn c).eof = absConn c := by simp [AConn.eof, hd]
    rw [he]
    exact stepOK_same hc _ _ (by simp [Session.eof, hs']) (by simp [Session.eof, hs', writesOf])
      (by simp [Session.eof, hs', deliveriesOf])

/-- a fresh transport at the acceptor -/
theorem connected_acceptor_sim {s : Side} {c : Conn} (hc : ConnGood s c) (hs : c.sock = false) :
    StepOK s { c := { absConn c with st := .conn } } (Session.connected c .acceptor).1
      (Session.connected c .acceptor).2 := by
  obtain ⟨g1, g2, g5, g6, g7, g8, he, hinb, hrows, l1, l2⟩ := connFacts hc
  rw [stepOK_iff, connGood_iff]
  simp [Session.connected, connectedM, M.run, M.bind_apply, hs, writesOf, deliveriesOf, absConn, absSt, restState,
    st_NETWORK_CONN_ESTABLISHED, st_DISCONNECTED_BROKEN_CONN, st_RESENDREQ_AWAITING, g1, g2, g5, g6, g7, g8, hinb]

/-- a fresh transport at the initiator, and the Logon its application sends from `on_connect` -/
theorem connected_initiator_sim {s : Side} {env : Env} {c : Conn} (hc : ConnGood s c) (hs : c.sock = false)
    (hl3 : isLatin1 env.stamp = true) :
    let c1 := (Session.connected c .initiator).1
    let r := Session.appSend env c1 (logonMsg c1.hb)
    StepOK s { c := ({ absConn c with st := .sent, ini := true }.push .logon).1,
               wr := [({ absConn c with st := .sent, ini := true }.push .logon).2] }
      r.1 ((Session.connected c .initiator).2 ++ r.2) ∧ hasRaised r.2 = false := by
  obtain ⟨g1, g2, g5, g6, g7, g8, he, hinb, hrows, l1, l2⟩ := connFacts hc
  have hc1 : (Session.connected c .initiator) =
      ({ c with sock := true, state := st_NETWORK_CONN_ESTABLISHED }, [.onConnect]) := by
    simp [Session.connected, connectedM, M.run, M.bind_apply, hs]
  simp only [hc1]
  have hgate := sendGate_conn (logonMsg c.hb) { c with sock := true, state := st_NETWORK_CONN_ESTABLISHED } rfl
    (Or.inl rfl)
  have hl : isLatin1 (pyStr c.hb) = true := isLatin1_pyStr _
  have hfg := frameGood_build_logon c.sess env.stamp c.sess.nextOut "0" (pyStr c.hb) l1 l2 hl3 (by decide) hl
  have hcore := sendCore_fresh env (logonMsg c.hb)
    { setState { c with sock := true, state := st_NETWORK_CONN_ESTABLISHED } st_LOGON_INITIAL_SENT with
      role := roleInitiator }
    (by show mLogon ≠ mTestRequest; decide) (by show mLogon ≠ mSequenceReset; decide) rfl hfg.lat hrows rfl
  have hsend : sendMsg env (logonMsg c.hb) { c with sock := true, state := st_NETWORK_CONN_ESTABLISHED } =
      ⟨.ok (), sentFresh { setState { c with sock := true, state := st_NETWORK_CONN_ESTABLISHED }
          st_LOGON_INITIAL_SENT with role := roleInitiator }
          (buildFrame c.sess env.stamp (logonMsg c.hb) c.sess.nextOut),
        [.onState st_LOGON_INITIAL_SENT] ++ [.write (buildFrame c.sess env.stamp (logonMsg c.hb) c.sess.nextOut)]⟩ := by
    rw [sendMsg_gate_ok hgate, hcore]; rfl
  have hap : Session.appSend env { c with sock := true, state := st_NETWORK_CONN_ESTABLISHED } (logonMsg c.hb) =
      (sentFresh { setState { c with sock := true, state := st_NETWORK_CONN_ESTABLISHED }
          st_LOGON_INITIAL_SENT with role := roleInitiator }
          (buildFrame c.sess env.stamp (logonMsg c.hb) c.sess.nextOut),
        [.onState st_LOGON_INITIAL_SENT] ++ [.write (buildFrame c.sess env.stamp (logonMsg c.hb) c.sess.nextOut)]) := by
    simp only [Session.appSend, M.run, hsend]
  rw [g1, g2] at hfg
  simp only [hap]
  refine ⟨⟨?_, ?_, rfl, ⟨g1, g2, ?_, ?_, Or.inl rfl, g6, ?_, ?_, ?_, hinb⟩, ?_⟩, rfl⟩
  · simp [sentFresh, setState, absConn, absSt, AConn.push, AKind.entry, roleInitiator, st_LOGON_INITIAL_SENT,
      st_DISCONNECTED_BROKEN_CONN, st_NETWORK_CONN_ESTABLISHED]
    exact absRow_build_logon c.sess env.stamp c.sess.nextOut c.sess.nextOut "0" (pyStr c.hb)
  · simp [writesOf, AConn.push, absConn]
    exact absFrame_build_logonReply c.sess env.stamp c.sess.nextOut "0" (pyStr c.hb)
  · simp [sentFresh, setState, restState, st_LOGON_INITIAL_SENT]
  · simp [sentFresh, setState, st_LOGON_INITIAL_SENT, st_DISCONNECTED_BROKEN_CONN]
  · show 1 ≤ c.sess.nextOut + 1; omega
  · exact rowsGood_append g8 g7 hfg (get?_build_34 ..)
  · intro h; exact absurd h (by simp [sentFresh, setState, st_LOGON_INITIAL_SENT, st_RESENDREQ_AWAITING])
  · intro g hg'
    simp [writesOf] at hg'
    subst hg'; exact hfg

end AsyncFix.Link
