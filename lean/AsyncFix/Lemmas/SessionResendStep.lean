import AsyncFix.Lemmas.SessionResendFrame

/-!
C06 helper lemmas, part 4: the remaining `buildFrame` facts, `Conn.withOut`, and ONE `send_msg` call
in "resend mode" (SequenceReset or PossDupFlag=Y message: `Codec.encode` keeps the message's own
MsgSeqNum, the counter is not touched, the frame is journaled under that number and written).
-/
namespace AsyncFix.Session.C06
open Msg AsyncFix.Generated AsyncFix.Generated.ConnEnum

/-- the wire-order filter of `bodyFields` -/
def ownTag (p : Nat × String) : Bool :=
  p.1 ≠ tMsgSeqNum && p.1 ≠ tSendingTime && p.1 ≠ tSenderCompID && p.1 ≠ tTargetCompID

theorem buildFrame_tags (s : Session) (st : String) (m : Msg) (k : Int) :
    ∃ bl ck, (buildFrame s st m k).tags =
      [(tBeginString, Proto.beginString), (tBodyLength, toString (bl : Nat)), (tMsgType, m.mtype)] ++
      [(tSenderCompID, s.sender), (tTargetCompID, s.target), (tMsgSeqNum, pyStr k), (tSendingTime, st)] ++
      m.tags.filter ownTag ++ [(tCheckSum, pad3 ck)] :=
  ⟨_, _, rfl⟩

theorem get?_buildFrame_other (s : Session) (st : String) (m : Msg) (k : Int) (t : Nat)
    (ht : t ≠ tBeginString ∧ t ≠ tBodyLength ∧ t ≠ tMsgType ∧ t ≠ tSenderCompID ∧ t ≠ tTargetCompID ∧
      t ≠ tMsgSeqNum ∧ t ≠ tSendingTime ∧ t ≠ tCheckSum) :
    (buildFrame s st m k).get? t = m.get? t := by
  obtain ⟨bl, ck, e⟩ := buildFrame_tags s st m k
  obtain ⟨a1, a2, a3, a4, a5, a6, a7, a8⟩ := ht
  have f : lookup t (m.tags.filter ownTag) = lookup t m.tags :=
    lookup_filter_pos _ _ _ (by intro v; simp [ownTag, a4, a5, a6, a7])
  simp only [Msg.get?, e, lookup_append, lookup, f, Ne.symm a1, Ne.symm a2, Ne.symm a3, Ne.symm a4,
    Ne.symm a5, Ne.symm a6, Ne.symm a7, Ne.symm a8, if_false]
  cases lookup t m.tags <;> rfl

theorem has_buildFrame_10 (s : Session) (st : String) (m : Msg) (k : Int)
    (h : m.has tCheckSum = false) : (buildFrame s st m k).has tCheckSum = true := by
  obtain ⟨bl, ck, e⟩ := buildFrame_tags s st m k
  have f : lookup tCheckSum (m.tags.filter ownTag) = none := by
    rw [lookup_filter_pos _ _ _ (by intro v; rfl)]
    simpa [Msg.has, Msg.get?] using h
  simp only [Msg.has, Msg.get?, e, lookup_append, f]
  simp [lookup, tCheckSum, tBeginString, tBodyLength, tMsgType,
    tSenderCompID, tTargetCompID, tMsgSeqNum, tSendingTime]

theorem appBody_buildFrame (s : Session) (st : String) (m : Msg) (k : Int) :
    appBody (buildFrame s st m k) = m.tags.filter (fun p => !envelopeTags.contains p.1) := by
  obtain ⟨bl, ck, e⟩ := buildFrame_tags s st m k
  unfold appBody
  rw [e, List.filter_append, List.filter_append, List.filter_append]
  have h1 : List.filter (fun p => !envelopeTags.contains p.1)
      [(tBeginString, Proto.beginString), (tBodyLength, toString bl), (tMsgType, m.mtype)] = [] := rfl
  have h2 : List.filter (fun p => !envelopeTags.contains p.1)
      [(tSenderCompID, s.sender), (tTargetCompID, s.target), (tMsgSeqNum, pyStr k),
        (tSendingTime, st)] = [] := rfl
  have h3 : List.filter (fun p => !envelopeTags.contains p.1) [(tCheckSum, pad3 ck)] = [] := rfl
  rw [h1, h2, h3, List.nil_append, List.nil_append, List.append_nil]
  apply filter_filter_of_imp
  intro p hp
  obtain ⟨t, w⟩ := p
  simp only [envelopeTags, List.contains_cons, List.contains_nil, Bool.or_false, Bool.not_eq_true',
    Bool.or_eq_false_iff, beq_eq_false_iff_ne] at hp
  obtain ⟨_, _, _, b4, b5, b6, b7, _⟩ := hp
  simp [ownTag, b4, b5, b6, b7]

theorem frameLatin1_buildFrame (s : Session) (st : String) (m : Msg) (k : Int)
    (hs : isLatin1 s.sender = true) (ht : isLatin1 s.target = true) (hst : isLatin1 st = true)
    (hm : isLatin1 m.mtype = true) (htags : m.tags.all (fun p => isLatin1 p.2) = true)
    (hk : 0 ≤ k) : frameLatin1 (buildFrame s st m k) = true := by
  obtain ⟨bl, ck, e⟩ := buildFrame_tags s st m k
  unfold frameLatin1
  rw [e]
  have hb : isLatin1 Proto.beginString = true := by decide
  have hf : (m.tags.filter ownTag).all (fun p => isLatin1 p.2) = true := by
    rw [List.all_eq_true] at htags ⊢
    intro p hp; exact htags p (List.mem_filter.mp hp).1
  simp only [List.all_append, List.all_cons, List.all_nil, hb, isLatin1_natRepr, hm, hs,
    ht, isLatin1_pyStr k hk, hst, hf, isLatin1_pad3, Bool.and_self]

/-- a frame `Codec.encode` made is a well-formed journal row under its number -/
theorem rowOK_buildFrame (s : Session) (st : String) (m : Msg) (k : Int)
    (hs : isLatin1 s.sender = true) (ht : isLatin1 s.target = true) (hst : isLatin1 st = true)
    (hm : isLatin1 m.mtype = true) (htags : m.tags.all (fun p => isLatin1 p.2) = true)
    (hk : 0 ≤ k) (h10 : m.has tCheckSum = false) : RowOK k (buildFrame s st m k) where
  seq := ⟨pyStr k, get?_buildFrame_34 s st m k, pyInt_pyStr k hk⟩
  tag35 := get?_buildFrame_35 s st m k
  has8 := by rw [has_eq, get?_buildFrame_8]; rfl
  has9 := has_buildFrame_9 s st m k
  has52 := by rw [has_eq, get?_buildFrame_52]; rfl
  has49 := by rw [has_eq, get?_buildFrame_49]; rfl
  has56 := by rw [has_eq, get?_buildFrame_56]; rfl
  has10 := has_buildFrame_10 s st m k h10
  latin := frameLatin1_buildFrame s st m k hs ht hst hm htags hk

/-! ### the connection with a changed outbound journal -/

/-- `c` with outbound rows `out` and stored outbound counter `os` -/
def withOut (c : Conn) (out : Rows) (os : Int) : Conn :=
  { c with journal := { c.journal with out := out, outSeq := os } }

@[simp] theorem withOut_state (c : Conn) (o : Rows) (os : Int) : (withOut c o os).state = c.state := rfl
@[simp] theorem withOut_sess (c : Conn) (o : Rows) (os : Int) : (withOut c o os).sess = c.sess := rfl
@[simp] theorem withOut_sock (c : Conn) (o : Rows) (os : Int) : (withOut c o os).sock = c.sock := rfl
@[simp] theorem withOut_role (c : Conn) (o : Rows) (os : Int) : (withOut c o os).role = c.role := rfl
@[simp] theorem withOut_testReqId (c : Conn) (o : Rows) (os : Int) :
    (withOut c o os).testReqId = c.testReqId := rfl
@[simp] theorem withOut_out (c : Conn) (o : Rows) (os : Int) : (withOut c o os).journal.out = o := rfl
@[simp] theorem withOut_outSeq (c : Conn) (o : Rows) (os : Int) :
    (withOut c o os).journal.outSeq = os := rfl
@[simp] theorem withOut_inb (c : Conn) (o : Rows) (os : Int) :
    (withOut c o os).journal.inb = c.journal.inb := rfl
@[simp] theorem withOut_inSeq (c : Conn) (o : Rows) (os : Int) :
    (withOut c o os).journal.inSeq = c.journal.inSeq := rfl
@[simp] theorem withOut_withOut (c : Conn) (o o' : Rows) (os os' : Int) :
    withOut (withOut c o os) o' os' = withOut c o' os' := rfl

/-- the states in which `_process_resend` runs its loop -/
def InResend (c : Conn) : Prop :=
  (c.state = st_RESENDREQ_HANDLING ∨ c.state = st_RESENDREQ_AWAITING) ∧ c.sock = true

/-- ONE `send_msg` of a message that keeps its own number `k` (SequenceReset, or PossDupFlag=Y with a
type other than TestRequest): succeeds, journals the frame under `k` (all rows are below `k`), writes
it, leaves the counter alone. -/
theorem sendMsg_keep (env : Env) (m : Msg) (c : Conn) (k : Int) (v : String)
    (hin : InResend c)
    (hkeep : m.mtype = mSequenceReset ∨
      (m.mtype ≠ mSequenceReset ∧ m.mtype ≠ mTestRequest ∧ m.get? tPossDupFlag = some "Y"))
    (h34 : m.get? tMsgSeqNum = some v) (hv : pyInt v = some k)
    (hlat : frameLatin1 (buildFrame c.sess env.stamp m k) = true)
    (hlt : Rows.AllLt k c.journal.out) :
    sendMsg env m c =
      ⟨.ok (), withOut c (c.journal.out ++ [(k, buildFrame c.sess env.stamp m k)]) k,
        [.write (buildFrame c.sess env.stamp m k)]⟩ := by
  obtain ⟨hst, hsock⟩ := hin
  have hgate : sendGate m c = ⟨.ok (), c, []⟩ := by
    unfold sendGate
    rcases hst with h | h <;>
      simp [M.bind_apply, h, st_RESENDREQ_HANDLING, st_RESENDREQ_AWAITING, st_NETWORK_CONN_ESTABLISHED,
        st_LOGON_INITIAL_SENT]
  have hty : (m.mtype == mTestRequest) = false := by
    rcases hkeep with h | ⟨_, h, _⟩
    · rw [h]; decide
    · simpa using h
  have hseq : encodeSeq m c = ⟨.ok k, c, []⟩ := by
    unfold encodeSeq
    have hhas : m.has tMsgSeqNum = true := by rw [has_eq, h34]; rfl
    rcases hkeep with h | ⟨h, _, hp⟩
    · simp [h, hhas, M.bind_apply, Msg.get, h34, M.int, hv]
    · have : (m.mtype == mSequenceReset) = false := by simpa using h
      simp [this, hp, hhas, M.bind_apply, Msg.get, h34, M.int, hv]
  unfold sendMsg
  rw [M.bind_ok hgate]
  unfold sendCore
  simp only [M.bind_apply, M.get_apply, hty, Bool.false_and, Bool.false_eq_true, if_false, hseq, hlat,
    Bool.not_true, Journal.persist, Rows.insert_append k _ _ hlt, Option.map_some, M.modify_apply, hsock,
    M.emit_apply, List.nil_append]
  simp [withOut, hsock]

end AsyncFix.Session.C06
