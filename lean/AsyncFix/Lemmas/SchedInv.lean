import AsyncFix.Lemmas.SchedPy
import AsyncFix.Lemmas.SessionRel

/-!
Sched family: the outbound invariant `J` and the segment relation `Seg` of C14.

* `J c`          – stored next-outbound = the session's counter, and every outbound journal row sits
                   below the counter (DESIGN's `OutInv`, the part C14 needs).
* `Seg c c' e`   – what ONE SEGMENT (code between two awaits) that starts in `c`, emits `e` and ends in
                   `c'` guarantees when no `_process_resend` rewinds inside it: `J c'`; the NEW-message
                   frames it writes carry strictly increasing numbers within `[c.nextOut, c'.nextOut)`;
                   the counter advanced by exactly (new frames written + sends that found no transport);
                   nothing but new messages is written; no journal row is lost; every new frame is in
                   the journal under its number; no DuplicateSeqNoError is reported.
  `Seg` is reflexive and closed under sequencing (`Seg.trans`), so it lifts from segments to whole
  schedules.

An exception that is still propagating is counted as the pending effect `raised ex` (`pend`): that is
what it becomes when it escapes the task, and what `caught ex` stands for when it is swallowed.
-/
namespace AsyncFix.Sched

open AsyncFix.Session AsyncFix.Generated AsyncFix.Generated.ConnEnum

/-- the frame's MsgSeqNum(34) as the peer reads it: `int(frame[34])` -/
def seqOf (f : Msg) : Option Int := (f.get? tMsgSeqNum).bind pyInt

/-- a NEW message: not a SequenceReset and no PossDupFlag(43)=Y – exactly the messages for which
`Codec.encode` allocates a number (`encodeSeq`).  Everything else is a retransmission-class frame
(replayed copy or gap fill) and keeps the number it is given. -/
def isNew (f : Msg) : Bool :=
  !(f.mtype == mSequenceReset) && !((f.get? tPossDupFlag).getD "N" == "Y")

def writes : List Effect → List Msg
  | [] => []
  | .write f :: r => f :: writes r
  | _ :: r => writes r

def newWrites (es : List Effect) : List Msg := (writes es).filter isNew

/-- sends that consumed and journaled a number but found no transport (`None.write` → AttributeError) -/
def lost : List Effect → Nat
  | [] => 0
  | .caught .attribute :: r => lost r + 1
  | .raised .attribute :: r => lost r + 1
  | _ :: r => lost r

/-- a DuplicateSeqNoError was reported: swallowed (`caught`: only sends run inside the `try` of
`_process_message`) or escaping (`raised`).  With `inb = true` an ESCAPING one is not counted: the reader
task's `_finalize_message` writes the INBOUND journal outside the `try`, and an inbound duplicate (the
C04 / C09 matter) is reported the same way. -/
def dupErr (inb : Bool) : List Effect → Bool
  | [] => false
  | .caught .duplicateSeqNo :: _ => true
  | .raised .duplicateSeqNo :: r => !inb || dupErr inb r
  | _ :: r => dupErr inb r

theorem writes_append (a b : List Effect) : writes (a ++ b) = writes a ++ writes b := by
  induction a with
  | nil => rfl
  | cons e r ih => cases e <;> simp [writes, ih]

theorem newWrites_append (a b : List Effect) : newWrites (a ++ b) = newWrites a ++ newWrites b := by
  simp [newWrites, writes_append]

theorem lost_append (a b : List Effect) : lost (a ++ b) = lost a + lost b := by
  induction a with
  | nil => simp [lost]
  | cons e r ih =>
    cases e with
    | caught k => cases k <;> simp [lost, ih] <;> omega
    | raised k => cases k <;> simp [lost, ih] <;> omega
    | _ => simp [lost, ih]

theorem dupErr_append (i : Bool) (a b : List Effect) : dupErr i (a ++ b) = (dupErr i a || dupErr i b) := by
  induction a with
  | nil => simp [dupErr]
  | cons e r ih =>
    cases e with
    | caught k => cases k <;> simp [dupErr, ih]
    | raised k => cases k <;> cases i <;> simp [dupErr, ih]
    | _ => simp [dupErr, ih]

theorem dupErr_mono {e : List Effect} (h : dupErr false e = false) (i : Bool) : dupErr i e = false := by
  induction e with
  | nil => rfl
  | cons x r ih =>
    cases x with
    | caught k => cases k <;> simp_all [dupErr]
    | raised k => cases k <;> simp_all [dupErr]
    | _ => simp_all [dupErr]

/-- frames numbered strictly increasingly, all within `[lo, hi)` -/
def Asc : Int → List Msg → Int → Prop
  | lo, [], hi => lo ≤ hi
  | lo, f :: r, hi => ∃ n, seqOf f = some n ∧ lo ≤ n ∧ Asc (n + 1) r hi

theorem Asc.le {lo hi : Int} {l : List Msg} (h : Asc lo l hi) : lo ≤ hi := by
  induction l generalizing lo with
  | nil => exact h
  | cons f r ih =>
    obtain ⟨n, _, h2, h3⟩ := h
    have := ih h3
    omega

theorem Asc.append {a b c : Int} {l1 l2 : List Msg} (h1 : Asc a l1 b) (h2 : Asc b l2 c) :
    Asc a (l1 ++ l2) c := by
  induction l1 generalizing a with
  | nil =>
    cases l2 with
    | nil => exact Int.le_trans h1 h2.le
    | cons f r =>
      obtain ⟨n, e1, e2, e3⟩ := h2
      exact ⟨n, e1, Int.le_trans h1 e2, e3⟩
  | cons f r ih =>
    obtain ⟨n, e1, e2, e3⟩ := h1
    exact ⟨n, e1, e2, ih e3⟩

/-- the outbound invariant -/
structure J (c : Conn) : Prop where
  counter : c.journal.outSeq + 1 = c.sess.nextOut
  below : ∀ p ∈ c.journal.out, p.1 < c.sess.nextOut

/-- pending exception = the effect it becomes when it escapes -/
def pend {α : Type} : Except Exc α → List Effect
  | .ok _ => []
  | .error ex => [.raised ex]

structure Seg (inb : Bool) (c c' : Conn) (e : List Effect) : Prop where
  inv : J c'
  asc : Asc c.sess.nextOut (newWrites e) c'.sess.nextOut
  cnt : c'.sess.nextOut = c.sess.nextOut + (newWrites e).length + lost e
  allNew : ∀ f ∈ writes e, isNew f = true
  keep : ∀ n g, Rows.find n c.journal.out = some g → Rows.find n c'.journal.out = some g
  fresh : ∀ f ∈ newWrites e, ∃ n, seqOf f = some n ∧ Rows.find n c'.journal.out = some f
  nodup : dupErr inb e = false

/-- connections that agree on what `J` / `Seg` talk about -/
structure OutSame (c c' : Conn) : Prop where
  nextOut : c'.sess.nextOut = c.sess.nextOut
  out : c'.journal.out = c.journal.out
  outSeq : c'.journal.outSeq = c.journal.outSeq

theorem OutSame.refl (c : Conn) : OutSame c c := ⟨rfl, rfl, rfl⟩

theorem J.congr {c c' : Conn} (h : OutSame c c') (hJ : J c) : J c' :=
  ⟨by rw [h.outSeq, h.nextOut]; exact hJ.counter, by rw [h.out, h.nextOut]; exact hJ.below⟩

/-- an effect that is neither a frame nor an exception report -/
def quiet : Effect → Bool
  | .write _ => false
  | .caught _ => false
  | .raised _ => false
  | _ => true

theorem writes_quiet {e : Effect} (h : quiet e = true) : writes [e] = [] := by
  cases e <;> simp_all [quiet, writes]

theorem lost_quiet {e : Effect} (h : quiet e = true) : lost [e] = 0 := by
  cases e <;> simp_all [quiet, lost]

theorem dupErr_quiet {e : Effect} (h : quiet e = true) (i : Bool) : dupErr i [e] = false := by
  cases e <;> simp_all [quiet, dupErr]

/-- nothing written, nothing reported, outbound side untouched -/
theorem Seg.of_same {i : Bool} {c c' : Conn} {e : List Effect} (hJ : J c) (h : OutSame c c')
    (hw : writes e = []) (hl : lost e = 0) (hd : dupErr i e = false) : Seg i c c' e where
  inv := hJ.congr h
  asc := by simp [newWrites, hw, Asc, h.nextOut]
  cnt := by simp [newWrites, hw, hl, h.nextOut]
  allNew := by simp [hw]
  keep := by intro n g hg; rw [h.out]; exact hg
  fresh := by simp [newWrites, hw]
  nodup := hd

theorem Seg.refl {i : Bool} {c : Conn} (hJ : J c) : Seg i c c [] :=
  Seg.of_same hJ (OutSame.refl c) rfl rfl rfl

theorem Seg.trans {i : Bool} {c c1 c2 : Conn} {e1 e2 : List Effect} (h1 : Seg i c c1 e1) (h2 : Seg i c1 c2 e2) :
    Seg i c c2 (e1 ++ e2) where
  inv := h2.inv
  asc := by rw [newWrites_append]; exact h1.asc.append h2.asc
  cnt := by
    rw [newWrites_append, lost_append, h2.cnt, h1.cnt]
    simp only [List.length_append, Int.natCast_add]
    omega
  allNew := by
    intro f hf
    rw [writes_append] at hf
    rcases List.mem_append.mp hf with hf | hf
    · exact h1.allNew f hf
    · exact h2.allNew f hf
  keep := fun n g hg => h2.keep n g (h1.keep n g hg)
  fresh := by
    intro f hf
    rw [newWrites_append] at hf
    rcases List.mem_append.mp hf with hf | hf
    · obtain ⟨n, e1', e2'⟩ := h1.fresh f hf
      exact ⟨n, e1', h2.keep n f e2'⟩
    · exact h2.fresh f hf
  nodup := by rw [dupErr_append, h1.nodup, h2.nodup]; rfl

/-- a swallowed exception counts as the escaping one did -/
theorem Seg.weaken {c c' : Conn} {e : List Effect} (h : Seg false c c' e) (i : Bool) : Seg i c c' e :=
  ⟨h.inv, h.asc, h.cnt, h.allNew, h.keep, h.fresh, dupErr_mono h.nodup i⟩

/-- a swallowed exception counts as the escaping one did (the body of a `try` holds no inbound write) -/
theorem Seg.caught_of_raised {i : Bool} {c c' : Conn} {e : List Effect} {ex : Exc}
    (h : Seg false c c' (e ++ [.raised ex])) : Seg i c c' (e ++ [.caught ex]) := by
  have hw : writes (e ++ [.caught ex]) = writes (e ++ [.raised ex]) := by simp [writes_append, writes]
  have hl : lost (e ++ [.caught ex]) = lost (e ++ [.raised ex]) := by
    simp only [lost_append]; cases ex <;> simp [lost]
  have hd : dupErr false (e ++ [.caught ex]) = dupErr false (e ++ [.raised ex]) := by
    simp only [dupErr_append]; cases ex <;> simp [dupErr]
  exact ⟨h.inv, by simpa [newWrites, hw] using h.asc, by simpa [newWrites, hw, hl] using h.cnt,
    by simpa [hw] using h.allNew, h.keep, by simpa [newWrites, hw] using h.fresh,
    dupErr_mono (by rw [hd]; exact h.nodup) i⟩

end AsyncFix.Sched
