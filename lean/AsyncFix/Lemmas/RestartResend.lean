import AsyncFix.Lemmas.RestartRecv
import AsyncFix.Lemmas.SessionPlain

/-!
Restart family: resend servicing (`_process_resend`).  Inside, the outbound counter is rewound and the
stored counter follows the re-journaled frames; on a run without exception the second `set_seq_num`
restores both, every frame written in between carries its own number (GapFill / PossDupFlag=Y).
-/
set_option linter.unusedSectionVars false

namespace AsyncFix.Restart

open AsyncFix.Session AsyncFix.Generated AsyncFix.Generated.ConnEnum

/-- all outcomes: counters of the session object, the inbound side of the journal and the heartbeat
period are untouched, and no frame taking a new number is written -/
structure RResend (c c' : Conn) (e : List Effect) : Prop where
  sess : c'.sess = c.sess
  inSeq : c'.journal.inSeq = c.journal.inSeq
  inb : c'.journal.inb = c.journal.inb
  hb : c'.hb = c.hb
  nw : NoNewWrites e

theorem NoNewWrites.append {a b : List Effect} (ha : NoNewWrites a) (hb : NoNewWrites b) :
    NoNewWrites (a ++ b) := fun f hf => by
  rcases List.mem_append.mp hf with h | h
  · exact ha f h
  · exact hb f h

instance : Compositional RResend where
  refl := fun _ => ⟨rfl, rfl, rfl, rfl, NoNewWrites.nil⟩
  trans := fun h1 h2 => ⟨h2.sess.trans h1.sess, h2.inSeq.trans h1.inSeq, h2.inb.trans h1.inb,
    h2.hb.trans h1.hb, h1.nw.append h2.nw⟩

theorem RResend.modify {f : Conn → Conn}
    (h : ∀ c, (f c).sess = c.sess ∧ (f c).journal = c.journal ∧ (f c).hb = c.hb) :
    M.Rel RResend (M.modify f) :=
  ⟨fun c => by
    simp only [M.modify_apply]
    exact ⟨(h c).1, by rw [(h c).2.1], by rw [(h c).2.1], (h c).2.2, NoNewWrites.nil⟩⟩

theorem RResend.emit {e : Effect} (h : ∀ f, e ≠ .write f) : M.Rel RResend (M.emit e) :=
  ⟨fun _ => ⟨rfl, rfl, rfl, rfl, NoNewWrites.single h⟩⟩

theorem stateSet_rr (s : Nat) : M.Rel RResend (stateSet s) := by
  unfold stateSet
  apply M.Rel.bind
  · exact RResend.modify fun _ => ⟨rfl, rfl, rfl⟩
  · intro _; exact RResend.emit (by intro f h; cases h)

theorem sendGate_rr (m : Msg) : M.Rel RResend (sendGate m) := by
  unfold sendGate
  rel_tac [stateSet_rr, RResend.modify]
  all_goals exact ⟨rfl, rfl, rfl⟩

/-- the state and the effect list are untouched (pure reads) -/
def Same (c c' : Conn) (e : List Effect) : Prop := c' = c ∧ e = []

instance : Compositional Same where
  refl := fun _ => ⟨rfl, rfl⟩
  trans := fun h1 h2 => by obtain ⟨rfl, rfl⟩ := h1; obtain ⟨rfl, rfl⟩ := h2; exact ⟨rfl, rfl⟩

theorem encodeSeq_own (m : Msg) (h : ownSeq m = true) : M.Rel Same (encodeSeq m) := by
  unfold encodeSeq
  unfold ownSeq at h
  by_cases h1 : (m.mtype == mSequenceReset) = true
  · simp only [h1, if_true]
    rel_tac []
  · simp only [h1, Bool.false_or] at h
    simp only [h1, h, if_true, Bool.false_eq_true, if_false]
    rel_tac []

theorem sendCore_rr (env : Env) (m : Msg) (hown : ownSeq m = true) : M.Rel RResend (sendCore env m) := by
  constructor
  intro c
  unfold sendCore
  simp only [M.get_bind_apply, M.ite_apply, M.throw_apply]
  split
  · exact Compositional.refl c
  · have hs := (encodeSeq_own m hown).out c
    rcases he : encodeSeq m c with ⟨r, c1, e1⟩
    rw [he] at hs
    obtain ⟨rfl, rfl⟩ := hs
    cases r with
    | error ex => rw [M.bind_err he]; exact Compositional.refl _
    | ok seq =>
      rw [M.bind_ok he]
      simp only [M.get_bind_apply, M.ite_apply, List.nil_append]
      split
      · simp only [M.modify_bind_apply, M.throw_apply]
        exact ⟨rfl, rfl, rfl, rfl, NoNewWrites.nil⟩
      · generalize hfr : buildFrame c1.sess env.stamp m seq = fr
        cases hj : c1.journal.persist Dir.outbound seq fr with
        | none => simp only [M.throw_apply]; exact Compositional.refl _
        | some j =>
          obtain ⟨_, hi, hb⟩ := persist_out_fields hj
          simp only [M.modify_bind_apply, M.ite_apply, M.throw_apply, M.emit_apply]
          split
          · exact ⟨rfl, hi, hb, rfl, NoNewWrites.nil⟩
          · refine ⟨rfl, hi, hb, rfl, ?_⟩
            intro f hf
            simp only [List.mem_singleton, Effect.write.injEq] at hf
            subst hf
            rw [← hfr, buildFrame_isNew, hown]; rfl

theorem sendMsg_rr (env : Env) (m : Msg) (hown : ownSeq m = true) : M.Rel RResend (sendMsg env m) := by
  unfold sendMsg
  exact M.Rel.bind (sendGate_rr m) (fun _ => sendCore_rr env m hown)

/-! ### a replayed row carries PossDupFlag=Y -/

theorem get?_replaceVal_same (t : Nat) (v : String) (l : List (Nat × String))
    (h : (Msg.lookup t l).isSome) : Msg.lookup t (Msg.replaceVal t v l) = some v := by
  induction l with
  | nil => simp [Msg.lookup] at h
  | cons x xs ih =>
    obtain ⟨k, w⟩ := x
    by_cases hk : k = t
    · simp [Msg.replaceVal, Msg.lookup, hk]
    · simp only [Msg.lookup, hk, if_false] at h
      simp [Msg.replaceVal, Msg.lookup, hk, ih h]

theorem get?_replaceVal_other (t t' : Nat) (v : String) (l : List (Nat × String)) (hne : t ≠ t') :
    Msg.lookup t (Msg.replaceVal t' v l) = Msg.lookup t l := by
  induction l with
  | nil => rfl
  | cons x xs ih =>
    obtain ⟨k, w⟩ := x
    by_cases hk : k = t'
    · subst hk
      have : ¬ k = t := fun h => hne h.symm
      simp [Msg.replaceVal, Msg.lookup, this]
    · by_cases hk2 : k = t <;> simp [Msg.replaceVal, Msg.lookup, hk, hk2, ih, hne]

theorem set_replace_get? {m m' : Msg} {t : Nat} {v : String} (h : m.set t v true = .ok m') :
    m'.get? t = some v := by
  unfold Msg.set at h
  split at h
  · rename_i hh
    simp only [if_true] at h
    cases h
    exact get?_replaceVal_same t v m.tags (by simpa [Msg.has, Msg.get?] using hh)
  · rename_i hh
    cases h
    have : Msg.lookup t m.tags = none := by simpa [Msg.has, Msg.get?] using hh
    show Msg.lookup t (m.tags ++ [(t, v)]) = some v
    rw [lookup_append_none this]; simp [Msg.lookup]

theorem set_get?_other {m m' : Msg} {t t' : Nat} {v : String} {r : Bool} (h : m.set t' v r = .ok m')
    (hne : t ≠ t') : m'.get? t = m.get? t := by
  unfold Msg.set at h
  split at h
  · split at h
    · cases h; exact get?_replaceVal_other t t' v m.tags hne
    · cases h
  · cases h
    show Msg.lookup t (m.tags ++ [(t', v)]) = Msg.lookup t m.tags
    cases hl : Msg.lookup t m.tags with
    | none =>
      rw [lookup_append_none hl]
      have : ¬ t' = t := fun h => hne h.symm
      simp [Msg.lookup, this]
    | some w => exact lookup_append_some hl

theorem del_get?_other {m m' : Msg} {t t' : Nat} (h : m.del t' = .ok m') (hne : t ≠ t') :
    m'.get? t = m.get? t := by
  unfold Msg.del at h
  split at h
  · cases h
    show Msg.lookup t (m.tags.filter fun p => p.1 ≠ t') = Msg.lookup t m.tags
    apply lookup_filter_keep
    intro v; simpa using hne
  · cases h

theorem prepareReplay_possdup {r rp : Msg} (h : prepareReplay r = .ok rp) :
    rp.get? tPossDupFlag = some "Y" := by
  unfold prepareReplay at h
  simp only [bind, Except.bind, pure, Except.pure] at h
  repeat' split at h
  all_goals first
    | cases h
    | skip
  · rename_i _ _ e6 _ _ _ e5 _ _ e4 _ _ e3 _ _ e2 _ _ e1 _ _ e0
    rw [del_get?_other h (by decide), del_get?_other e0 (by decide), del_get?_other e1 (by decide),
      del_get?_other e2 (by decide), del_get?_other e3 (by decide), del_get?_other e4 (by decide),
      del_get?_other e5 (by decide)]
    exact set_replace_get? e6
  · rename_i _ _ e8 _ _ _ _ _ _ e6 _ _ e5 _ _ e4 _ _ e3 _ _ e2 _ _ e1 _ _ e0
    rw [del_get?_other h (by decide), del_get?_other e0 (by decide), del_get?_other e1 (by decide),
      del_get?_other e2 (by decide), del_get?_other e3 (by decide), del_get?_other e4 (by decide),
      del_get?_other e5 (by decide), set_get?_other e6 (by decide)]
    exact set_replace_get? e8

end AsyncFix.Restart
