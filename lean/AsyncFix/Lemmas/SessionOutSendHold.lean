import AsyncFix.Lemmas.SessionOutSend

/-!
C05: the Hoare triple of `send_msg` for a NEW message (`sendMsg_hold`), `_state_set` and the
`modify`s of fields C05 does not talk about.
-/
namespace AsyncFix.Session

open AsyncFix.Generated AsyncFix.Generated.ConnEnum

variable {sr : Msg → Bool} {U X : Prop}

theorem persist_out_of_allLt (j : Journal) (k : Int) (f : Msg) (h : Rows.AllLt k j.out) :
    j.persist .outbound k f = some { j with out := j.out ++ [(k, f)], outSeq := k } := by
  simp [Journal.persist, Rows.insert_of_allLt k f j.out h]

/-- a new row at the counter, counter bumped: the step relation holds -/
theorem Good.newSend {c c' : Conn} {f : Msg} {es : List Effect} (hI : OutInv c)
    (hsock : st_DISCONNECTED_BROKEN_CONN < c'.state → c'.sock = true)
    (hs1 : c'.sess.nextOut = c.sess.nextOut + 1) (hs2 : c'.sess.sender = c.sess.sender)
    (hs3 : c'.sess.target = c.sess.target)
    (hout : c'.journal.out = c.journal.out ++ [(c.sess.nextOut, f)])
    (hseq : c'.journal.outSeq = c.sess.nextOut) (hrow : RowOk f c.sess.nextOut)
    (hes : newWrites es = [f]) : Good sr U X c c' es := by
  have hfind : ∀ n, Rows.find n c'.journal.out =
      if n = c.sess.nextOut then some f else Rows.find n c.journal.out := by
    intro n; rw [hout]; exact Rows.find_append_last _ _ _ _ hI.allLt
  refine {
    inv := ?_, ids := ⟨hs2, hs3⟩, num := ?_, cnt := ?_, keepSlot := ?_, freshSlot := ?_,
    keepRow := ?_, freshRow := ?_ }
  · refine ⟨by rw [hseq, hs1], ?_, ?_, by rw [hs2, hs3]; exact hI.latin, hsock⟩
    · intro p hp
      rw [hout] at hp
      rcases List.mem_append.mp hp with hp | hp
      · have := hI.rows p hp; exact ⟨this.1, by rw [hs1]; omega⟩
      · simp only [List.mem_singleton] at hp; subst hp; exact ⟨hrow, by rw [hs1]; simp only; omega⟩
    · rw [hout]; exact Rows.sorted_append_last _ _ _ hI.sorted hI.allLt
  · rw [hes]; exact ⟨hrow.seqOf, trivial⟩
  · rw [hes, hs1]; simp
  · intro _ _ n g hn hs
    unfold Slot at *
    rw [hfind, if_neg (by omega), hs2, hs3]; exact hs
  · intro _ _ g hg n hn
    rw [hes] at hg; simp only [List.mem_singleton] at hg; subst hg
    rw [hrow.seqOf] at hn; cases hn
    unfold Slot
    rw [hfind, if_pos rfl]
    exact Or.inl (Copy.refl _)
  · intro _ n g hg
    have : n < c.sess.nextOut := (hI.rows _ (Rows.find_mem hg)).2
    rw [hfind, if_neg (by omega)]; exact hg
  · intro _ g hg n hn
    rw [hes] at hg; simp only [List.mem_singleton] at hg; subst hg
    rw [hrow.seqOf] at hn; cases hn
    rw [hfind, if_pos rfl]

theorem OutInv.of_outEq {c c' : Conn} (hI : OutInv c) (h : OutEq c c')
    (hsock : st_DISCONNECTED_BROKEN_CONN < c'.state → c'.sock = true) : OutInv c' := by
  refine ⟨by rw [h.outSeq, h.sess.1]; exact hI.counter, ?_, by rw [h.out]; exact hI.sorted,
    by rw [h.sess.2.1, h.sess.2.2]; exact hI.latin, hsock⟩
  intro p hp; rw [h.out] at hp; rw [h.sess.1]; exact hI.rows p hp

/-- `sendCore` on a NEW message, from a state that passed the gate -/
theorem sendCore_new_hold (env : Env) (m : Msg) (c : Conn) (hI : OutInv c) (hn : isNew m = true)
    (hge : st_DISCONNECTED_BROKEN_CONN < c.state) :
    Hold sr U X c (sendCore env m) (fun _ c' => c'.state = c.state) := by
  unfold Hold
  rw [sendCore_new env m c hn]
  have hsock : c.sock = true := hI.sock hge
  split
  · exact ⟨Good.refl hI, fun a ha => by cases ha⟩
  · split
    · exact ⟨Good.refl hI, fun a ha => by cases ha⟩
    · rw [persist_out_of_allLt _ _ _ hI.allLt]
      simp only [hsock, Bool.not_true, Bool.false_eq_true, if_false]
      rename_i hl
      have hl' : frameLatin1 (buildFrame c.sess env.stamp m c.sess.nextOut) = true := by
        simpa using hl
      refine ⟨Good.newSend hI (fun _ => hsock) rfl rfl rfl rfl rfl
        (buildFrame_rowOk _ _ _ _ hl') ?_, fun _ _ => rfl⟩
      simp [newWrites, buildFrame_isNew, hn]

theorem afterGate_outEq (c : Conn) : OutEq c (afterGate c) := by
  unfold afterGate; split
  · exact ⟨⟨rfl, rfl, rfl⟩, rfl, rfl⟩
  · exact OutEq.refl c

theorem afterGate_sock (c : Conn) : (afterGate c).sock = c.sock := by
  unfold afterGate; split <;> rfl

theorem afterGate_state (c : Conn) :
    (afterGate c).state = if c.state = st_NETWORK_CONN_ESTABLISHED then st_LOGON_INITIAL_SENT else c.state := by
  unfold afterGate
  by_cases h : c.state = st_NETWORK_CONN_ESTABLISHED <;> simp [h]

theorem afterGate_alive (c : Conn) (h : st_DISCONNECTED_BROKEN_CONN < c.state) :
    st_DISCONNECTED_BROKEN_CONN < (afterGate c).state := by
  rw [afterGate_state]; split
  · decide
  · exact h

theorem not_gateRefuses_ge {c : Conn} {m : Msg} (h : ¬ gateRefuses c m = true) :
    st_NETWORK_CONN_ESTABLISHED ≤ c.state := by
  simp only [gateRefuses, Bool.or_eq_true, decide_eq_true_eq, not_or] at h
  omega

theorem OutInv.afterGate {c : Conn} (hI : OutInv c) : OutInv (afterGate c) := by
  apply hI.of_outEq (afterGate_outEq c)
  intro h
  rw [afterGate_sock]
  rw [afterGate_state] at h
  split at h
  · rename_i h6; exact hI.sock (by rw [h6]; decide)
  · exact hI.sock h

theorem gateEff_newWrites (c : Conn) : newWrites (gateEff c) = [] := by
  unfold gateEff; split <;> rfl

/-- **`send_msg` of a new message**: relation `Good`; on normal return the state is the one the
gate left (unchanged, or LOGON_INITIAL_SENT from NETWORK_CONN_ESTABLISHED). -/
theorem sendMsg_hold (env : Env) (m : Msg) (c : Conn) (hI : OutInv c) (hn : isNew m = true) :
    Hold sr U X c (sendMsg env m) (fun _ c' => c'.state = (afterGate c).state) := by
  unfold Hold
  rw [sendMsg_eq]
  split
  · exact ⟨Good.refl hI, fun a ha => by cases ha⟩
  · rename_i hg
    have hge := not_gateRefuses_ge hg
    have hI' := hI.afterGate
    have halive : st_DISCONNECTED_BROKEN_CONN < (afterGate c).state :=
      afterGate_alive c (Nat.lt_of_lt_of_le (by decide) hge)
    have hc := sendCore_new_hold (sr := sr) (U := U) (X := X) env m (afterGate c) hI' hn halive
    have g1 : Good sr U X c (afterGate c) (gateEff c) := by
      have := Good.refl_of_eq (sr := sr) (U := U) (X := X) hI' (afterGate_outEq c)
      exact { this with
        num := by rw [gateEff_newWrites]; trivial
        cnt := by rw [gateEff_newWrites]; exact this.cnt
        freshSlot := by intro _ _ f hf; rw [gateEff_newWrites] at hf; cases hf
        freshRow := by intro _ f hf; rw [gateEff_newWrites] at hf; cases hf }
    exact ⟨g1.trans hc.1, fun a ha => hc.2 a ha⟩

/-! ### `_state_set` and irrelevant field updates -/

theorem stateSet_hold (s : Nat) (c : Conn) (hI : OutInv c)
    (hs : st_DISCONNECTED_BROKEN_CONN < s → c.sock = true) :
    Hold sr U X c (stateSet s) (fun _ c' => c'.state = s ∧ c'.sock = c.sock) := by
  unfold stateSet
  apply Hold.bind (Q := fun _ c' => c'.state = s ∧ c'.sock = c.sock)
  · apply Hold.modify
    · exact hI.of_outEq ⟨⟨rfl, rfl, rfl⟩, rfl, rfl⟩ hs
    · exact ⟨⟨rfl, rfl, rfl⟩, rfl, rfl⟩
    · exact ⟨rfl, rfl⟩
  · intro _ c1 hI1 h1
    exact Hold.emit rfl hI1 h1

end AsyncFix.Session
