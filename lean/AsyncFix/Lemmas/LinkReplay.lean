import AsyncFix.Lemmas.LinkBuilt

/-!
C07: retransmission of a journal row (`prepareReplay` as a total function on well-formed rows, the frame it is
re-sent as).
-/
namespace AsyncFix.Link

open AsyncFix.Session AsyncFix.Generated AsyncFix.Generated.ConnEnum
open AsyncFix.Session.Msg

/-- `prepareReplay` on a well-formed row -/
def replayMsg (row : Msg) : Msg :=
  let r1 := row.setTag tPossDupFlag "Y"
  let r2 := if r1.has tOrigSendingTime then r1 else r1.setTag tOrigSendingTime ((r1.get? tSendingTime).getD "")
  ((((((r2.delTag tMsgType).delTag tBeginString).delTag tBodyLength).delTag tSendingTime).delTag
    tSenderCompID).delTag tTargetCompID).delTag tCheckSum

section
variable {snd tgt : String} {row : Msg}

private theorem has_iff (m : Msg) (t : Nat) : m.has t = (m.get? t).isSome := rfl

/-- every tag other than 43 / 122 survives the first two steps -/
theorem get?_r2 (t : Nat) (h43 : t ≠ tPossDupFlag) (h122 : t ≠ tOrigSendingTime) :
    (let r1 := row.setTag tPossDupFlag "Y"
     (if r1.has tOrigSendingTime then r1
      else r1.setTag tOrigSendingTime ((r1.get? tSendingTime).getD ""))).get? t = row.get? t := by
  simp only
  split
  · rw [get?_setTag, if_neg h43]
  · rw [get?_setTag, if_neg h122, get?_setTag, if_neg h43]

theorem prepareReplay_ok (h : FrameGood snd tgt row) : prepareReplay row = .ok (replayMsg row) := by
  obtain ⟨v8, h8⟩ : ∃ v, row.get? tBeginString = some v := ⟨_, h.bs⟩
  obtain ⟨v9, h9⟩ := get?_of_has h.h9
  obtain ⟨v52, h52⟩ := get?_of_has h.h52
  obtain ⟨v10, h10⟩ := get?_of_has h.h10
  have h35 := h.ty
  have h49 := h.s49
  have h56 := h.s56
  unfold prepareReplay replayMsg
  simp only [set_replace, bind, Except.bind]
  have e52 : (row.setTag tPossDupFlag "Y").get? tSendingTime = some v52 := by
    rw [get?_setTag, if_neg (by decide), h52]
  by_cases h122 : (row.setTag tPossDupFlag "Y").has tOrigSendingTime = true
  · simp only [h122, if_true, pure, Except.pure]
    have key := @get?_r2 row
    simp only [h122, if_true] at key
    rw [del_of_has _ _ (by rw [has_iff, key _ (by decide) (by decide), h35]; rfl)]
    simp only
    rw [del_of_has _ _ (by rw [has_iff, get?_delTag, if_neg (by decide), key _ (by decide) (by decide), h8]; rfl)]
    simp only
    rw [del_of_has _ _ (by
      rw [has_iff, get?_delTag, if_neg (by decide), get?_delTag, if_neg (by decide),
        key _ (by decide) (by decide), h9]; rfl)]
    simp only
    rw [del_of_has _ _ (by
      rw [has_iff, get?_delTag, if_neg (by decide), get?_delTag, if_neg (by decide), get?_delTag,
        if_neg (by decide), key _ (by decide) (by decide), h52]; rfl)]
    simp only
    rw [del_of_has _ _ (by
      rw [has_iff, get?_delTag, if_neg (by decide), get?_delTag, if_neg (by decide), get?_delTag,
        if_neg (by decide), get?_delTag, if_neg (by decide), key _ (by decide) (by decide), h49]; rfl)]
    simp only
    rw [del_of_has _ _ (by
      rw [has_iff, get?_delTag, if_neg (by decide), get?_delTag, if_neg (by decide), get?_delTag,
        if_neg (by decide), get?_delTag, if_neg (by decide), get?_delTag, if_neg (by decide),
        key _ (by decide) (by decide), h56]; rfl)]
    simp only
    rw [del_of_has _ _ (by
      rw [has_iff, get?_delTag, if_neg (by decide), get?_delTag, if_neg (by decide), get?_delTag,
        if_neg (by decide), get?_delTag, if_neg (by decide), get?_delTag, if_neg (by decide), get?_delTag,
        if_neg (by decide), key _ (by decide) (by decide), h10]; rfl)]
  · have h122' : (row.setTag tPossDupFlag "Y").has tOrigSendingTime = false := by simpa using h122
    simp only [h122', Bool.false_eq_true, if_false, get_of_get? e52, set_new _ _ _ h122', e52, Option.getD_some]
    have key := @get?_r2 row
    simp only [h122', Bool.false_eq_true, if_false, e52, Option.getD_some] at key
    rw [del_of_has _ _ (by rw [has_iff, key _ (by decide) (by decide), h35]; rfl)]
    simp only
    rw [del_of_has _ _ (by rw [has_iff, get?_delTag, if_neg (by decide), key _ (by decide) (by decide), h8]; rfl)]
    simp only
    rw [del_of_has _ _ (by
      rw [has_iff, get?_delTag, if_neg (by decide), get?_delTag, if_neg (by decide),
        key _ (by decide) (by decide), h9]; rfl)]
    simp only
    rw [del_of_has _ _ (by
      rw [has_iff, get?_delTag, if_neg (by decide), get?_delTag, if_neg (by decide), get?_delTag,
        if_neg (by decide), key _ (by decide) (by decide), h52]; rfl)]
    simp only
    rw [del_of_has _ _ (by
      rw [has_iff, get?_delTag, if_neg (by decide), get?_delTag, if_neg (by decide), get?_delTag,
        if_neg (by decide), get?_delTag, if_neg (by decide), key _ (by decide) (by decide), h49]; rfl)]
    simp only
    rw [del_of_has _ _ (by
      rw [has_iff, get?_delTag, if_neg (by decide), get?_delTag, if_neg (by decide), get?_delTag,
        if_neg (by decide), get?_delTag, if_neg (by decide), get?_delTag, if_neg (by decide),
        key _ (by decide) (by decide), h56]; rfl)]
    simp only
    rw [del_of_has _ _ (by
      rw [has_iff, get?_delTag, if_neg (by decide), get?_delTag, if_neg (by decide), get?_delTag,
        if_neg (by decide), get?_delTag, if_neg (by decide), get?_delTag, if_neg (by decide), get?_delTag,
        if_neg (by decide), key _ (by decide) (by decide), h10]; rfl)]

end

theorem replayMsg_mtype (row : Msg) : (replayMsg row).mtype = row.mtype := by
  unfold replayMsg
  simp only [mtype_delTag]
  split <;> simp [mtype_setTag]

/-- lookup of a tag that is not deleted -/
theorem get?_replayMsg (row : Msg) (t : Nat) (h : t ≠ tMsgType ∧ t ≠ tBeginString ∧ t ≠ tBodyLength ∧
    t ≠ tSendingTime ∧ t ≠ tSenderCompID ∧ t ≠ tTargetCompID ∧ t ≠ tCheckSum) :
    (replayMsg row).get? t =
      (let r1 := row.setTag tPossDupFlag "Y"
       (if r1.has tOrigSendingTime then r1
        else r1.setTag tOrigSendingTime ((r1.get? tSendingTime).getD ""))).get? t := by
  obtain ⟨a1, a2, a3, a4, a5, a6, a7⟩ := h
  unfold replayMsg
  simp only [get?_delTag, if_neg a1, if_neg a2, if_neg a3, if_neg a4, if_neg a5, if_neg a6, if_neg a7]

theorem get?_replayMsg_43 (row : Msg) : (replayMsg row).get? tPossDupFlag = some "Y" := by
  rw [get?_replayMsg row _ (by refine ⟨?_, ?_, ?_, ?_, ?_, ?_, ?_⟩ <;> decide)]
  simp only
  split
  · rw [get?_setTag, if_pos rfl]
  · rw [get?_setTag, if_neg (by decide), get?_setTag, if_pos rfl]

theorem get?_replayMsg_34 (row : Msg) : (replayMsg row).get? tMsgSeqNum = row.get? tMsgSeqNum := by
  rw [get?_replayMsg row _ (by refine ⟨?_, ?_, ?_, ?_, ?_, ?_, ?_⟩ <;> decide)]
  exact get?_r2 _ (by decide) (by decide)

theorem payload_replayMsg (row : Msg) : payloadOf (replayMsg row) = payloadOf row := by
  unfold payloadOf
  rw [replayMsg_mtype]
  congr 1
  have hq : ∀ (t : Nat), hdrTags.contains t = true → ∀ w : String,
      (fun p : Nat × String => !hdrTags.contains p.1) (t, w) = false := by
    intro t ht w; show (!hdrTags.contains t) = false; rw [ht]; rfl
  unfold replayMsg
  rw [filter_delTag _ _ _ (hq tCheckSum (by decide)), filter_delTag _ _ _ (hq tTargetCompID (by decide)),
    filter_delTag _ _ _ (hq tSenderCompID (by decide)), filter_delTag _ _ _ (hq tSendingTime (by decide)),
    filter_delTag _ _ _ (hq tBodyLength (by decide)), filter_delTag _ _ _ (hq tBeginString (by decide)),
    filter_delTag _ _ _ (hq tMsgType (by decide))]
  split
  · exact filter_setTag _ _ _ _ (hq tPossDupFlag (by decide))
  · rw [filter_setTag _ _ _ _ (hq tOrigSendingTime (by decide)), filter_setTag _ _ _ _ (hq tPossDupFlag (by decide))]

theorem latin1_replayMsg {row : Msg} (hl : frameLatin1 row = true) :
    (replayMsg row).tags.all (fun p => isLatin1 p.2) = true := by
  have h1 : (row.setTag tPossDupFlag "Y").tags.all (fun p => isLatin1 p.2) = true :=
    all_setTag _ _ _ _ hl (by decide)
  unfold replayMsg
  refine all_delTag _ _ _ (all_delTag _ _ _ (all_delTag _ _ _ (all_delTag _ _ _ (all_delTag _ _ _
    (all_delTag _ _ _ (all_delTag _ _ _ ?_))))))
  split
  · exact h1
  · refine all_setTag _ _ _ _ h1 ?_
    cases hg : (row.setTag tPossDupFlag "Y").get? tSendingTime with
    | none => decide
    | some v => exact all_of_lookup (fun p => isLatin1 p.2) _ tSendingTime v h1 hg

/-! ### the retransmitted frame -/

/-- an application row (not one of the session-level types) -/
def IsAppRow (row : Msg) : Prop := ConnEnum.noReplay.contains row.mtype = false

theorem isAppRow_ne {row : Msg} (h : IsAppRow row) :
    row.mtype ≠ mHeartbeat ∧ row.mtype ≠ mTestRequest ∧ row.mtype ≠ mResendRequest ∧ row.mtype ≠ mSequenceReset ∧
      row.mtype ≠ mLogout ∧ row.mtype ≠ mLogon := by
  unfold IsAppRow at h
  simp only [noReplay, List.contains_eq_mem, List.mem_cons, List.not_mem_nil, or_false, decide_eq_false_iff_not,
    not_or] at h
  exact h

section
variable (s : Session) (stamp : String) {row : Msg} (k : Int)

theorem frameGood_build_replay (hg : FrameGood s.sender s.target row) (ha : IsAppRow row)
    (h1 : isLatin1 s.sender = true) (h2 : isLatin1 s.target = true) (h3 : isLatin1 stamp = true) :
    FrameGood s.sender s.target (buildFrame s stamp (replayMsg row) k) := by
  obtain ⟨a0, a1, a2, a4, a5, aA⟩ := isAppRow_ne ha
  refine frameGood_build (frameLatin1_build h1 h2 h3 ?_ (latin1_replayMsg hg.lat)) ?_
  · rw [replayMsg_mtype]; exact isLatin1_of_get? hg.lat hg.ty
  · unfold KindOK
    rw [buildFrame_mtype, replayMsg_mtype, if_neg aA, if_neg a2, if_neg a4, if_neg a5]
    exact ⟨a0, a1⟩

theorem absFrame_build_replay (ha : IsAppRow row) :
    absFrame (buildFrame s stamp (replayMsg row) k) = ⟨k, .app (payloadOf row) true⟩ := by
  obtain ⟨a0, a1, a2, a4, a5, aA⟩ := isAppRow_ne ha
  have hk := absFrame_app (f := buildFrame s stamp (replayMsg row) k)
    (by rw [buildFrame_mtype, replayMsg_mtype]; exact aA) (by rw [buildFrame_mtype, replayMsg_mtype]; exact a2)
    (by rw [buildFrame_mtype, replayMsg_mtype]; exact a4) (by rw [buildFrame_mtype, replayMsg_mtype]; exact a5)
  have hs := absFrame_seq (get?_build_34 s stamp (replayMsg row) k)
  rw [payloadOf_build, payload_replayMsg,
    get?_build_other s stamp _ k tPossDupFlag (by refine ⟨?_, ?_, ?_, ?_, ?_, ?_, ?_, ?_⟩ <;> decide),
    get?_replayMsg_43] at hk
  cases hf : absFrame (buildFrame s stamp (replayMsg row) k) with
  | mk sq kd => rw [hf] at hk hs; simp_all

theorem absRow_build_replay (ha : IsAppRow row) (n : Int) :
    absRow (n, buildFrame s stamp (replayMsg row) k) = (n, some (payloadOf row)) := by
  unfold absRow
  simp only [buildFrame_mtype, replayMsg_mtype]
  unfold IsAppRow at ha
  rw [ha]
  simp [payloadOf_build, payload_replayMsg]

theorem absRow_of_appRow (ha : IsAppRow row) (n : Int) : absRow (n, row) = (n, some (payloadOf row)) := by
  unfold absRow
  unfold IsAppRow at ha
  simp only [ha, Bool.false_eq_true, if_false]

theorem absRow_of_sessRow (ha : ¬ IsAppRow row) (n : Int) : absRow (n, row) = (n, none) := by
  unfold absRow
  have : ConnEnum.noReplay.contains row.mtype = true := by
    cases h : ConnEnum.noReplay.contains row.mtype
    · exact absurd h ha
    · rfl
  simp only [this, if_true]

end

end AsyncFix.Link
