import AsyncFix.Lemmas.SessionQuietH

/-!
Session family: `QSpec` for `_process_message`, the watchdog iteration, and the step-level facts about
disconnected start states.
-/
namespace AsyncFix.Session

open AsyncFix.Generated.ConnEnum

/-- no effect, state unchanged -/
def RSil (c c' : Conn) (e : List Effect) : Prop := e = [] ∧ c'.state = c.state

instance : Compositional RSil where
  refl := fun _ => ⟨rfl, rfl⟩
  trans := by
    intro c c1 c2 e1 e2 h1 h2
    exact ⟨by rw [h1.1, h2.1]; rfl, by rw [h2.2, h1.2]⟩

theorem RSil.modify {f : Conn → Conn} (h : ∀ c, (f c).state = c.state) : M.Rel RSil (M.modify f) :=
  ⟨fun c => ⟨rfl, h c⟩⟩

section
attribute [local irreducible] M.bind' M.pure' M.throw M.tryCatch M.get M.modify M.emit M.liftE
  M.assert M.int

theorem setNextNumIn_sil (m : Msg) : M.Rel RSil (setNextNumIn m) := by
  unfold setNextNumIn
  rel_tac [RSil.modify]

theorem persistInbound_sil (m : Msg) : M.Rel RSil (persistInbound m) := by
  unfold persistInbound
  rel_tac [RSil.modify]

theorem validateIntegrity_sil (m : Msg) : M.Rel RSil (validateIntegrity m) := by
  unfold validateIntegrity
  rel_tac []
end

theorem disc_ne_awaiting {s : Nat} (h : isDisc s = true) : (s == st_RESENDREQ_AWAITING) = false := by
  have := isDisc_le h
  simp [st_DISCONNECTED_BROKEN_CONN, st_RESENDREQ_AWAITING] at *
  omega

/-- `_finalize_message` run after a disconnect: counters / journal only, no effect, no state change -/
theorem finalizeMessage_calm (env : Env) (m : Msg) : CalmFrom (finalizeMessage env m) := by
  constructor
  intro c hc
  unfold finalizeMessage
  have h1 := (setNextNumIn_sil m).out c
  rcases hx : setNextNumIn m c with ⟨r, c1, e1⟩
  rw [hx] at h1
  obtain ⟨he1, hs1⟩ := h1
  have hs1 : c1.state = c.state := hs1
  have he1 : e1 = [] := he1
  subst he1
  have hc1 : isDisc c1.state = true := by rw [hs1]; exact hc
  cases r with
  | error ex => rw [M.bind_err hx]; exact ⟨rfl, hc1⟩
  | ok n =>
    rw [M.bind_ok hx]
    by_cases hn : n ≤ 0
    · simp [hn, Calm, hc1]
    · have hne := disc_ne_awaiting hc1
      have hle : ¬ c1.state > st_DISCONNECTED_BROKEN_CONN := Nat.not_lt.mpr (isDisc_le hc1)
      have h2 := (persistInbound_sil m).out c1
      rcases hp : persistInbound m c1 with ⟨r2, c2, e2⟩
      rw [hp] at h2
      obtain ⟨he2, hs2⟩ := h2
      have he2 : e2 = [] := he2
      have hs2 : c2.state = c1.state := hs2
      subst he2
      have hc2 : isDisc c2.state = true := by rw [hs2]; exact hc1
      simp [hn, Calm, bind, M.bind', hne, hle, hp, hc2]

theorem swallow_QS {α : Type} {G : α → Prop} (d : α) (hd : G d) {x : M α} (hx : QS G x) :
    QS G (swallow d x) := by
  constructor
  intro c hc
  have h := hx.out c hc
  unfold swallow
  rcases hxc : x c with ⟨r, c1, e1⟩
  rw [hxc] at h
  cases r with
  | ok a => rw [M.tryCatch_ok hxc]; exact h
  | error ex =>
    rw [M.tryCatch_err hxc]
    obtain ⟨hq, hst, _⟩ := h
    have hq : quiet false e1 = true := hq
    have hst : isDisc c1.state = flagAfter false e1 := hst
    refine ⟨?_, ?_, ?_⟩
    · simp [bind, M.bind', quiet_append, hq]
      cases flagAfter false e1 <;> simp [quiet, Effect.loud, Effect.busy]
    · simp [bind, M.bind', flagAfter_append, flagAfter, hst]
    · intro a ha _
      simp [bind, M.bind'] at ha
      rw [← ha]; exact hd

section
attribute [local irreducible] M.bind' M.pure' M.throw M.tryCatch M.get M.modify M.emit M.liftE
  M.assert M.int disconnect processLogon processLogout processHeartbeat processHead processDispatch
  processMessage swallow sendMsg sendTestReq checkSeqnumGaps processSeqreset processResend
  processTestRequest finalizeMessage validateIntegrity setSeqNum stateSet

theorem processMessage_QS (env : Env) (sr : Msg → Bool) (m : Msg) :
    QS (fun _ => True) (processMessage env sr m) := by
  unfold processMessage
  refine QS.bind_plain (validateIntegrity_plain m) ?_
  intro integ
  split
  · exact disconnect_QS _ _ _
  · exact disconnect_QS _ _ _
  · refine QS.bind (G := fun r => r = none) (swallow_QS (G := fun r => r = none) none rfl (processHead_QS env m)) ?_ ?_ ?_
    · intro head
      split
      · exact QS.pure _
      · refine QS.bind (G := fun _ => True) (swallow_QS (G := fun _ => True) () trivial (processDispatch_QS env sr m _ _)) ?_ ?_ ?_
        · intro _
          apply QS.ite
          · exact QS.of_plain (finalizeMessage_plain env m)
          · exact QS.pure _
        · intro _ _
          split
          · exact finalizeMessage_calm env m
          · exact CalmFrom.pure _
        · intros; trivial
    · intro head hhead
      subst hhead
      exact CalmFrom.pure _
    · intros; trivial

theorem tickBody_QS (env : Env) : QS (fun _ => True) (tickBody env) := by
  unfold tickBody
  qs_tac [disconnect_QS _ _ _]
end

end AsyncFix.Session
