import AsyncFix.Lemmas.LinkServe

/-!
C07: `Session.recv` vs `arecv` – part E: ResendRequest.
-/
namespace AsyncFix.Link

open AsyncFix.Session AsyncFix.Generated AsyncFix.Generated.ConnEnum
open AsyncFix.Session.Msg

theorem processResend_eval {s : Side} {env : Env} {c : Conn} {f : Msg} {b : Int}
    (hc : ConnGood s c) (hf : ResendFrame f b) (hl3 : isLatin1 env.stamp = true)
    (hst : c.state = st_RESENDREQ_AWAITING ∨ c.state = st_ACTIVE) : ServeRes s env c f b := by
  by_cases hb : b < 1 ∨ c.sess.nextOut ≤ b
  · exact processResend_ignore hc hf hst hb
  · exact processResend_serve hc hf hl3 hst (by omega) (by omega)

/-- `serve` changes nothing but the journal -/
theorem serve_fields (c : AConn) (b : Int) : (c.serve b).1 = { c with out := (c.serve b).1.out } := by
  have key : ∀ (rows : List (Int × Option Payload)) (gfb : Int) (c0 : AConn) (acc : List AFrame),
      (resendRows rows gfb c0 acc).1 = { c0 with out := (resendRows rows gfb c0 acc).1.out } := by
    intro rows
    induction rows with
    | nil => intro gfb c0 acc; rfl
    | cons r rest ih =>
      intro gfb c0 acc
      obtain ⟨k, e⟩ := r
      cases e with
      | none => exact ih gfb c0 acc
      | some p =>
        simp only [resendRows]
        split <;> (rw [ih]; simp [AConn.pushAt])
  unfold AConn.serve
  split
  · rfl
  · simp only
    rw [key]
    split <;> simp [AConn.pushAt]

/-- the outcome of `_process_resend` as a step of the endpoint (no change of the inbound side) -/
theorem stepOK_of_serve {s : Side} {c c' : Conn} {eff : List Effect} {b : Int} (hc : ConnGood s c)
    (a1 : c'.state = c.state) (a2 : c'.role = c.role) (a3 : c'.sess = c.sess) (a4 : c'.maxResend = c.maxResend)
    (a5 : c'.sock = c.sock) (a6 : c'.journal.inb = c.journal.inb)
    (habs : (absConn c).serve b = ({ absConn c with out := c'.journal.out.map absRow }, (writesOf eff).map absFrame))
    (hdl : deliveriesOf eff = []) (hrows : RowsGood s.name s.other.name c.sess.nextOut c'.journal.out)
    (hfr : ∀ g ∈ writesOf eff, FrameGood s.name s.other.name g) :
    StepOK s { c := ((absConn c).serve b).1, wr := ((absConn c).serve b).2 } c' eff := by
  refine ⟨?_, by rw [habs], by simp [hdl], ?_, hfr⟩
  · rw [habs]; simp [absConn, a1, a2, a3, a4]
  · exact ⟨by rw [a3]; exact hc.snd, by rw [a3]; exact hc.tgt, by rw [a1]; exact hc.st, by rw [a5, a1]; exact hc.sock,
      by rw [a2]; exact hc.role, by rw [a3]; exact hc.e1, by rw [a3]; exact hc.o1, by rw [a3]; exact hrows,
      by rw [a1, a4]; exact hc.w, by rw [a3, a6]; exact hc.inb⟩

/-- a ResendRequest numbered above the expectation while awaiting: served, nothing else -/
theorem recv_resend_gap_awaiting {s : Side} {env : Env} {c : Conn} {f : Msg} {n b : Int}
    (hc : ConnGood s c) (hi : InFrame c f n) (hf : ResendFrame f b) (hl3 : isLatin1 env.stamp = true)
    (hst : c.state = st_RESENDREQ_AWAITING) (hn : c.sess.nextIn < n) :
    StepOK s { c := ((absConn c).serve b).1, wr := ((absConn c).serve b).2 }
      (recv srAll env c f).1 (recv srAll env c f).2 := by
  obtain ⟨c', eff, hp, a1, a2, a3, a4, a5, a6, habs, hdl, hrows, hfr⟩ := processResend_eval hc hf hl3 (Or.inl hst)
  obtain ⟨h8, h49, h56, h34⟩ := hi
  obtain ⟨h2, h7, h16⟩ := hf
  have hlow : ¬ n < c.sess.nextIn := by omega
  have hrecv : recv srAll env c f = (c', eff) := by
    simp [recv, M.run, processMessage, validateIntegrity, M.bind_apply, Msg.get, Msg.has, pyInt_pyStr, swallow,
      M.tryCatch_apply, processHead, processDispatch, M.assert_apply, checkSeqnumGaps, M.int_apply,
      st_NETWORK_CONN_ESTABLISHED, st_LOGON_INITIAL_SENT, st_DISCONNECTED_BROKEN_CONN, st_RESENDREQ_AWAITING,
      h8, h49, h56, h34, hst, h2, hn, hlow, hp]
  rw [hrecv]
  exact stepOK_of_serve hc a1 a2 a3 a4 a5 a6 habs hdl hrows hfr

/-- a ResendRequest with the expected number: served, then accepted -/
theorem recv_resend_accept {s : Side} {env : Env} {c : Conn} {f : Msg} {n b : Int}
    (hc : ConnGood s c) (hi : InFrame c f n) (hf : ResendFrame f b) (hl3 : isLatin1 env.stamp = true)
    (hst : c.state = st_ACTIVE ∨ c.state = st_RESENDREQ_AWAITING) (hn : n = c.sess.nextIn) :
    StepOK s { c := (((absConn c).serve b).1).advance (c.sess.nextIn + 1), wr := ((absConn c).serve b).2 }
      (recv srAll env c f).1 (recv srAll env c f).2 := by
  obtain ⟨c', eff, hp, a1, a2, a3, a4, a5, a6, habs, hdl, hrows, hfr⟩ :=
    processResend_eval hc hf hl3 (hst.symm)
  obtain ⟨h8, h49, h56, h34⟩ := hi
  obtain ⟨h2, h7, h16⟩ := hf
  subst hn
  obtain ⟨g1, g2, g5, g6, g7, g8, he, hinb, hrows', l1, l2⟩ := connFacts hc
  have hinb' : AllLt (c.sess.nextIn + 1) (c.journal.inb ++ [(c.sess.nextIn, f)]) := allLt_push hinb
  have hw := hc.w
  rw [stepOK_iff, connGood_iff, habs]
  rcases hst with hst | hst
  · have hsock := sock_of_state hc (by rw [hst]; decide)
    ev_simp [h8, h49, h56, h34, hst, h2, hp, a1, a2, a3, a4, a5, a6, he, insert_append _ _ _ hinb, hinb', g1, g2, g5,
      g6, g7, hsock, hdl, writesOf_append, deliveriesOf_append]
    exact ⟨⟨by omega, hrows⟩, hfr⟩
  · have hsock := sock_of_state hc (by rw [hst]; decide)
    have hw' : 0 < c.maxResend := hw hst
    by_cases hm : c.maxResend ≤ c.sess.nextIn
    · ev_simp [h8, h49, h56, h34, hst, h2, hp, a1, a2, a3, a4, a5, a6, he, insert_append _ _ _ hinb, hinb', g1, g2, g5,
        g6, g7, hsock, hdl, writesOf_append, deliveriesOf_append, hw', hm]
      exact ⟨⟨by omega, hrows⟩, hfr⟩
    · ev_simp [h8, h49, h56, h34, hst, h2, hp, a1, a2, a3, a4, a5, a6, he, insert_append _ _ _ hinb, hinb', g1, g2, g5,
        g6, g7, hsock, hdl, writesOf_append, deliveriesOf_append, hw', hm]
      exact ⟨⟨by omega, hrows⟩, hfr⟩

/-- the connection after `_check_seqnum_gaps` asked for a resend from ACTIVE -/
def askConn (env : Env) (c : Conn) (n : Int) : Conn :=
  { sentFresh { c with maxResend := n }
      (buildFrame c.sess env.stamp (resendReqMsg c.sess.nextIn) c.sess.nextOut) with state := st_RESENDREQ_AWAITING }

def askFrame (env : Env) (c : Conn) : Msg := buildFrame c.sess env.stamp (resendReqMsg c.sess.nextIn) c.sess.nextOut

theorem askConn_good {s : Side} {env : Env} {c : Conn} {n : Int} (hc : ConnGood s c) (hl3 : isLatin1 env.stamp = true)
    (hst : c.state = st_ACTIVE) (hn : c.sess.nextIn < n) :
    ConnGood s (askConn env c n) ∧ absConn (askConn env c n) = ((absConn c).askResend n).1 ∧
      absFrame (askFrame env c) = ((absConn c).askResend n).2 ∧ FrameGood s.name s.other.name (askFrame env c) := by
  obtain ⟨g1, g2, g5, g6, g7, g8, he, hinb, hrows, l1, l2⟩ := connFacts hc
  have hsock := sock_of_state hc (by rw [hst]; decide)
  have hfg := frameGood_build_resend c.sess env.stamp c.sess.nextOut c.sess.nextIn l1 l2 hl3
  rw [g1, g2] at hfg
  refine ⟨⟨g1, g2, ?_, ?_, g5, g6, ?_, ?_, ?_, hinb⟩, ?_, ?_, hfg⟩
  · simp [askConn, restState, st_RESENDREQ_AWAITING]
  · simp [askConn, sentFresh, hsock, st_RESENDREQ_AWAITING, st_DISCONNECTED_BROKEN_CONN]
  · show 1 ≤ c.sess.nextOut + 1; omega
  · exact rowsGood_append g8 g7 hfg (get?_build_34 ..)
  · intro _; show 0 < n; omega
  · simp [askConn, sentFresh, absConn, absSt, AConn.askResend, AConn.push, absRow_build_resend, AKind.entry,
      st_RESENDREQ_AWAITING, st_DISCONNECTED_BROKEN_CONN, st_NETWORK_CONN_ESTABLISHED, st_LOGON_INITIAL_SENT]
  · simp [askFrame, absFrame_build_resend, AConn.askResend, AConn.push, absConn]

/-- a ResendRequest numbered above the expectation in ACTIVE: own ResendRequest first, then served -/
theorem recv_resend_gap_active {s : Side} {env : Env} {c : Conn} {f : Msg} {n b : Int}
    (hc : ConnGood s c) (hi : InFrame c f n) (hf : ResendFrame f b) (hl3 : isLatin1 env.stamp = true)
    (hst : c.state = st_ACTIVE) (hn : c.sess.nextIn < n) :
    StepOK s { c := ((((absConn c).askResend n).1).serve b).1,
               wr := [((absConn c).askResend n).2] ++ ((((absConn c).askResend n).1).serve b).2 }
      (recv srAll env c f).1 (recv srAll env c f).2 := by
  obtain ⟨hg, ha, haf, hfg⟩ := askConn_good (env := env) hc hl3 hst hn
  have hst' : (askConn env c n).state = st_RESENDREQ_AWAITING := rfl
  obtain ⟨c', eff, hp, a1, a2, a3, a4, a5, a6, habs, hdl, hrows', hfr⟩ :=
    processResend_eval hg hf hl3 (Or.inl hst')
  have hstep := stepOK_of_serve hg a1 a2 a3 a4 a5 a6 habs hdl hrows' hfr
  obtain ⟨h8, h49, h56, h34⟩ := hi
  obtain ⟨h2, h7, h16⟩ := hf
  obtain ⟨g1, g2, g5, g6, g7, g8, he, hinb, hrows, l1, l2⟩ := connFacts hc
  have hsock := sock_of_state hc (by rw [hst]; decide)
  have hlow : ¬ n < c.sess.nextIn := by omega
  simp [askConn, sentFresh, st_RESENDREQ_AWAITING, hsock] at hp
  have hrecv : recv srAll env c f = (c',
      [.write (askFrame env c), .onState st_RESENDREQ_AWAITING] ++ eff) := by
    simp [recv, M.run, processMessage, validateIntegrity, M.bind_apply, Msg.get, Msg.has, pyInt_pyStr, swallow,
      M.tryCatch_apply, processHead, processDispatch, M.assert_apply, checkSeqnumGaps, M.int_apply,
      st_NETWORK_CONN_ESTABLISHED, st_LOGON_INITIAL_SENT, st_DISCONNECTED_BROKEN_CONN, st_RESENDREQ_AWAITING, st_ACTIVE,
      h8, h49, h56, h34, hst, h2, hn, hlow, askFrame, sendMsg_resendReq', sentFresh, hsock, l1, l2, hl3, hrows,
      stateSet_apply, setState, hp]
  rw [hrecv]
  rw [← ha]
  refine ⟨hstep.conn, ?_, ?_, hstep.good, ?_⟩
  · simp only [writesOf_append, writesOf, List.map_append, List.map_cons, List.map_nil, List.nil_append]
    rw [hstep.wr, haf]
  · simp only [deliveriesOf_append, deliveriesOf, List.nil_append]; exact hstep.dl
  · intro g hg'
    simp only [writesOf_append, writesOf, List.nil_append, List.mem_append, List.mem_cons, List.not_mem_nil,
      or_false] at hg'
    rcases hg' with hg' | hg'
    · subst hg'; exact hfg
    · exact hstep.frames g hg'

end AsyncFix.Link
