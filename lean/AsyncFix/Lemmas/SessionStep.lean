import AsyncFix.Lemmas.SessionQuietTop

/-!
Session family: step-level lemmas (every `Event`, every start state) behind the C11 history theorems.
-/
namespace AsyncFix.Session

open AsyncFix.Generated.ConnEnum

theorem disc_lt_established {s : Nat} (h : isDisc s = true) : s < st_NETWORK_CONN_ESTABLISHED := by
  have := isDisc_le h
  simp [st_DISCONNECTED_BROKEN_CONN, st_NETWORK_CONN_ESTABLISHED] at *
  omega

theorem disc_ne_active {s : Nat} (h : isDisc s = true) : (s == st_ACTIVE) = false := by
  have := isDisc_le h
  simp [st_DISCONNECTED_BROKEN_CONN, st_ACTIVE] at *
  omega

/-! ### from a disconnected state every handler is calm -/

theorem sendMsg_calm (env : Env) (m : Msg) : CalmFrom (sendMsg env m) := by
  constructor
  intro c hc
  have h := disc_lt_established hc
  simp [sendMsg, sendGate, bind, M.bind', h, Calm, hc]

theorem sendTestReq_calm (env : Env) : CalmFrom (sendTestReq env) := by
  constructor
  intro c hc
  have h := disc_lt_established hc
  unfold sendTestReq
  cases ht : c.testReqId <;> simp [sendMsg, sendGate, bind, M.bind', h, Calm, hc, ht]

theorem processMessage_calm (env : Env) (sr : Msg → Bool) (m : Msg) :
    CalmFrom (processMessage env sr m) := by
  constructor
  intro c hc
  have hlt := disc_lt_established hc
  have hnot : ¬ c.state ≥ st_NETWORK_CONN_ESTABLISHED := by omega
  unfold processMessage
  have h1 := (validateIntegrity_sil m).out c
  rcases hx : validateIntegrity m c with ⟨r, c1, e1⟩
  rw [hx] at h1
  obtain ⟨he1, hs1⟩ := h1
  have he1 : e1 = [] := he1
  have hs1 : c1.state = c.state := hs1
  subst he1
  have hc1 : isDisc c1.state = true := by rw [hs1]; exact hc
  have hnot1 : ¬ c1.state ≥ st_NETWORK_CONN_ESTABLISHED := by rw [hs1]; exact hnot
  cases r with
  | error ex => rw [M.bind_err hx]; exact ⟨rfl, hc1⟩
  | ok integ =>
    rw [M.bind_ok hx]
    cases integ with
    | critical => simp [disconnect_of_disc, hc1, Calm]
    | reason t => simp [disconnect_of_disc, hc1, Calm]
    | good =>
      simp [swallow, processHead, bind, M.bind', M.tryCatch_apply, M.assert_apply, hnot1, Calm, hc1,
        Effect.calm]

theorem tickBody_calm (env : Env) : CalmFrom (tickBody env) := by
  constructor
  intro c hc
  have hna := disc_ne_active hc
  unfold tickBody
  cases hs : c.sock
  · simp [bind, M.bind', hs, Calm, hc]
  · simp only [bind, M.bind', M.get_apply, hs, Bool.not_true, Bool.false_eq_true, if_false, hna,
      M.pure_apply, List.nil_append, M.ite_apply, disconnect_of_disc, hc]
    split <;> split <;> simp [Calm, hc]

section
attribute [local irreducible] M.bind' M.pure' M.throw M.tryCatch M.get M.modify M.emit M.liftE
  M.assert M.int
theorem setSeqNum_sil (a b : Option Int) : M.Rel RSil (setSeqNum a b) := by
  unfold setSeqNum
  rel_tac [RSil.modify]

theorem resetSeqNum_sil : M.Rel RSil resetSeqNum := by
  unfold resetSeqNum
  rel_tac [setSeqNum_sil]
end

/-! ### top-level runs -/

/-- the exception an entry point lets escape, as effect list -/
def raisedOf {α : Type} (o : Out α) : List Effect :=
  match o.res with
  | .ok _ => []
  | .error ex => [.raised ex]

theorem M.run_eq {α : Type} (x : M α) (c : Conn) : x.run c = ((x c).conn, (x c).eff ++ raisedOf (x c)) := by
  unfold M.run raisedOf
  rcases x c with ⟨r, c1, e1⟩
  cases r <;> simp

theorem raisedOf_calm {α : Type} (o : Out α) : (raisedOf o).all Effect.calm = true := by
  unfold raisedOf; split <;> rfl

/-- what a step guarantees about silence: `d` = started from a disconnected state -/
def StepQ (c : Conn) (out : Conn × List Effect) : Prop :=
  quiet (isDisc c.state) out.2 = true ∧
    (flagAfter (isDisc c.state) out.2 = true → isDisc out.1.state = true)

theorem run_stepQ {α : Type} {G : α → Prop} {x : M α} (hq : QS G x) (hcalm : CalmFrom x) (c : Conn) :
    StepQ c (x.run c) := by
  rw [M.run_eq]
  have hr := calm_quiet (raisedOf_calm (x c))
  show quiet (isDisc c.state) ((x c).eff ++ raisedOf (x c)) = true ∧
    (flagAfter (isDisc c.state) ((x c).eff ++ raisedOf (x c)) = true → isDisc (x c).conn.state = true)
  cases hc : isDisc c.state with
  | false =>
    obtain ⟨h1, h2, _⟩ := hq.out c hc
    refine ⟨?_, ?_⟩
    · show quiet false ((x c).eff ++ raisedOf (x c)) = true
      rw [quiet_append, h1, (hr _).1]; rfl
    · show flagAfter false ((x c).eff ++ raisedOf (x c)) = true → isDisc (x c).conn.state = true
      rw [flagAfter_append, (hr _).2, h2]; exact id
  | true =>
    obtain ⟨h1, h2⟩ := hcalm.out c hc
    have h1' := calm_quiet h1
    refine ⟨?_, fun _ => h2⟩
    show quiet true ((x c).eff ++ raisedOf (x c)) = true
    rw [quiet_append, (h1' _).1, (hr _).1]; rfl

theorem connected_stepQ (c : Conn) (k : ConnKind) : StepQ c (connected c k) := by
  unfold connected
  rw [M.run_eq]
  have h6 : isDisc st_NETWORK_CONN_ESTABLISHED = false := rfl
  have h3 : isDisc st_DISCONNECTED_BROKEN_CONN = true := rfl
  cases k <;> cases hs : c.sock <;> cases hd : isDisc c.state <;>
    simp [connectedM, StepQ, bind, M.bind', hs, hd, raisedOf, quiet, flagAfter, Effect.busy, Effect.loud, h6, h3]

theorem resetSeqNum_stepQ (c : Conn) : StepQ c (resetSeqNum.run c) := by
  rw [M.run_eq]
  have h := resetSeqNum_sil.out c
  have he : (resetSeqNum c).eff = [] := h.1
  have hs : (resetSeqNum c).conn.state = c.state := h.2
  have hr := calm_quiet (raisedOf_calm (resetSeqNum c))
  refine ⟨?_, ?_⟩
  · show quiet _ ((resetSeqNum c).eff ++ _) = true
    rw [he]; exact (hr _).1
  · show flagAfter _ ((resetSeqNum c).eff ++ _) = true → isDisc (resetSeqNum c).conn.state = true
    rw [he, hs]; simp only [List.nil_append]; rw [(hr _).2]; exact id

/-- every event, from every state -/
theorem step_stepQ (sr : Msg → Bool) (c : Conn) (ev : Event) : StepQ c (step sr c ev) := by
  cases ev with
  | recv env m => exact run_stepQ (processMessage_QS env sr m) (processMessage_calm env sr m) c
  | appSend env m => exact run_stepQ (G := fun _ => True) (QS.of_plain (sendMsg_plain env m)) (sendMsg_calm env m) c
  | appTestReq env =>
    exact run_stepQ (G := fun _ => True) (QS.of_plain (sendTestReq_plain env)) (sendTestReq_calm env) c
  | appDisconnect env d l => exact run_stepQ (disconnect_QS env d l) (disconnect_calm env d l) c
  | tick env => exact run_stepQ (tickBody_QS env) (tickBody_calm env) c
  | eof env =>
    show StepQ c (eof env c)
    unfold eof
    split
    · exact run_stepQ (disconnect_QS env _ none) (disconnect_calm env _ none) c
    · exact ⟨rfl, by cases h : isDisc c.state <;> simp [flagAfter, h]⟩
  | connected k => exact connected_stepQ c k
  | resetSeq => exact resetSeqNum_stepQ c

/-! ### `on_disconnect` calls of a step -/

theorem run_AB {α : Type} {x : M α} (h : M.Rel RAB x) (c : Conn) :
    nDisc (x.run c).2 = nTrans c.state (x.run c).2 ∧ (x.run c).2.all notConn = true ∧
      (x.run c).1.state = track c.state (x.run c).2 := by
  rw [M.run_eq]
  obtain ⟨h1, h2, h3⟩ := h.out c
  have hr : nDisc (raisedOf (x c)) = 0 ∧ (∀ s, nTrans s (raisedOf (x c)) = 0) ∧
      (raisedOf (x c)).all notConn = true ∧ (∀ s, track s (raisedOf (x c)) = s) := by
    unfold raisedOf; split <;> simp [nDisc, nTrans, notConn, track]
  refine ⟨?_, ?_, ?_⟩
  · show nDisc ((x c).eff ++ _) = nTrans c.state ((x c).eff ++ _)
    rw [nDisc_append, nTrans_append, hr.1, hr.2.1, h2]
  · show ((x c).eff ++ _).all notConn = true
    rw [List.all_append, h3, hr.2.2.1]; rfl
  · show (x c).conn.state = track c.state ((x c).eff ++ _)
    rw [track_append, hr.2.2.2, h1]

theorem flagAfter_true_noConn {e : List Effect} (hn : e.all notConn = true) : flagAfter true e = true := by
  induction e with
  | nil => rfl
  | cons x xs ih =>
    simp only [List.all_cons, Bool.and_eq_true] at hn
    cases x <;> simp_all [flagAfter, notConn]

/-- in a quiet trace without `onConnect` there is at most one `onDisconnect`, and it sets the flag -/
theorem quiet_nDisc {e : List Effect} (hn : e.all notConn = true) (d : Bool) (hq : quiet d e = true) :
    nDisc e = (if d then 0 else if flagAfter d e then 1 else 0) := by
  induction e generalizing d with
  | nil => cases d <;> rfl
  | cons x xs ih =>
    simp only [List.all_cons, Bool.and_eq_true] at hn
    obtain ⟨hx, hxs⟩ := hn
    cases x with
    | onConnect => simp [notConn] at hx
    | onDisconnect =>
      simp only [quiet, Bool.and_eq_true, Bool.not_eq_true'] at hq
      obtain ⟨hd, hq'⟩ := hq
      subst hd
      have := ih hxs true hq'
      simp [nDisc, flagAfter, this, flagAfter_true_noConn hxs]
    | _ =>
      simp only [quiet, Bool.and_eq_true] at hq
      have := ih hxs d hq.2
      simp only [nDisc, flagAfter]
      exact this

theorem calm_nDisc {e : List Effect} (h : e.all Effect.calm = true) : nDisc e = 0 := by
  induction e with
  | nil => rfl
  | cons x xs ih =>
    simp only [List.all_cons, Bool.and_eq_true] at h
    cases x <;> simp_all [nDisc, Effect.calm]

theorem calm_not_loud {e : List Effect} (h : e.all Effect.calm = true) : ∀ x ∈ e, x.loud = false := by
  intro x hx
  have := List.all_eq_true.mp h x hx
  cases x <;> simp_all [Effect.calm, Effect.loud]

/-- the flag / state equation of `QSpec` survives `run` -/
theorem run_flag_eq {α : Type} {G : α → Prop} {x : M α} (hq : QS G x) (c : Conn)
    (hc : isDisc c.state = false) :
    quiet false (x.run c).2 = true ∧ isDisc (x.run c).1.state = flagAfter false (x.run c).2 := by
  rw [M.run_eq]
  have hr := calm_quiet (raisedOf_calm (x c))
  obtain ⟨h1, h2, _⟩ := hq.out c hc
  refine ⟨?_, ?_⟩
  · show quiet false ((x c).eff ++ raisedOf (x c)) = true
    rw [quiet_append, h1, (hr _).1]; rfl
  · show isDisc (x c).conn.state = flagAfter false ((x c).eff ++ raisedOf (x c))
    rw [flagAfter_append, (hr _).2, h2]

theorem run_calm {α : Type} {x : M α} (h : CalmFrom x) (c : Conn) (hc : isDisc c.state = true) :
    (x.run c).2.all Effect.calm = true ∧ isDisc (x.run c).1.state = true := by
  rw [M.run_eq]
  obtain ⟨h1, h2⟩ := h.out c hc
  refine ⟨?_, h2⟩
  show ((x c).eff ++ raisedOf (x c)).all Effect.calm = true
  rw [List.all_append, h1, raisedOf_calm]; rfl

/-! ### the handler behind every event other than transport set-up -/

def handler (sr : Msg → Bool) : Event → Option (M Unit)
  | .recv env m => some (processMessage env sr m)
  | .appSend env m => some (sendMsg env m)
  | .appTestReq env => some (sendTestReq env)
  | .appDisconnect env d l => some (disconnect env d l)
  | .tick env => some (tickBody env)
  | .eof env => some (disconnect env st_DISCONNECTED_BROKEN_CONN none)
  | .resetSeq => some resetSeqNum
  | .connected _ => none

theorem step_handler {sr : Msg → Bool} {ev : Event} {x : M Unit} (h : handler sr ev = some x) (c : Conn) :
    step sr c ev = x.run c ∨ step sr c ev = (c, []) := by
  cases ev <;> simp [handler] at h <;> subst h
  case eof env =>
    show eof env c = _ ∨ eof env c = _
    unfold eof; split
    · exact Or.inl rfl
    · exact Or.inr rfl
  all_goals exact Or.inl rfl

theorem resetSeqNum_calm : CalmFrom resetSeqNum :=
  ⟨fun c hc => by
    have h := resetSeqNum_sil.out c
    have he : (resetSeqNum c).eff = [] := h.1
    have hs : (resetSeqNum c).conn.state = c.state := h.2
    exact ⟨by rw [he]; rfl, by rw [hs]; exact hc⟩⟩

theorem handler_specs {sr : Msg → Bool} {ev : Event} {x : M Unit} (h : handler sr ev = some x) :
    QS (fun _ => True) x ∧ CalmFrom x ∧ M.Rel RAB x := by
  cases ev <;> simp [handler] at h <;> subst h
  · exact ⟨processMessage_QS _ _ _, processMessage_calm _ _ _, processMessage_AB _ _ _⟩
  · exact ⟨QS.of_plain (sendMsg_plain _ _), sendMsg_calm _ _, RPlain.toAB (sendMsg_plain _ _)⟩
  · exact ⟨QS.of_plain (sendTestReq_plain _), sendTestReq_calm _, RPlain.toAB (sendTestReq_plain _)⟩
  · exact ⟨disconnect_QS _ _ _, disconnect_calm _ _ _, disconnect_AB _ _ _⟩
  · exact ⟨tickBody_QS _, tickBody_calm _, tickBody_AB _⟩
  · exact ⟨disconnect_QS _ _ _, disconnect_calm _ _ _, disconnect_AB _ _ _⟩
  · exact ⟨QS.of_plain resetSeqNum_plain, resetSeqNum_calm, RPlain.toAB resetSeqNum_plain⟩

theorem connected_effects (c : Conn) (k : ConnKind) :
    nDisc (connected c k).2 = 0 ∧ (∀ s, nTrans s (connected c k).2 = 0) ∧
      (∀ e ∈ (connected c k).2, e.loud = false) := by
  unfold connected
  rw [M.run_eq]
  cases k <;> cases hs : c.sock <;>
    simp [connectedM, bind, M.bind', hs, raisedOf, nDisc, nTrans, Effect.loud]

end AsyncFix.Session
