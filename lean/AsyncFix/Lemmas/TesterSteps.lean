import AsyncFix.Lemmas.TesterSync

/-!
C20 helper lemmas: TestRequest round trips on established connections.
-/
namespace AsyncFix.Tester
open AsyncFix.Session AsyncFix.Generated AsyncFix.Generated.ConnEnum

theorem testReqMsg_eq (env : Env) : testReqMsg env = testReqOut env := rfl

/-- connection after `send_test_req()` -/
def afterTestReq (c : Conn) (env : Env) : Conn :=
  { afterSend c env (testReqOut env) with testReqId := some env.secs }

theorem testReqOut_latin1 (env : Env) : latin1Msg (testReqOut env) = true := by
  simp [latin1Msg, testReqOut, Msg.mk', latin1_pyStr]; decide

theorem appTestReq_est {env : Env} {c : Conn} (h : Est c) (henv : isLatin1 env.stamp = true) :
    appTestReq env c = (afterTestReq c env, [.write (sentFrame c env (testReqOut env))]) := by
  have := sendTestReq_closed (env := env) h.st h.noreq
    ((sentFrame_latin1 h.latinS h.latinT henv (testReqOut_latin1 env)))
    (jOut_spec env (testReqOut env) h.fresh) h.sock
  simp [appTestReq, M.run, this, afterTestReq, afterSend]

/-- the Heartbeat that answers the TestRequest sent at second `s` -/
theorem recv_answer_est {sr : Msg → Bool} {env : Env} {c : Conn} {g : Msg} {v w : String} (s : Int) (h : Est c)
    (ha : Addressed c g v c.sess.nextIn) (hty : g.mtype = mHeartbeat)
    (h112 : g.get? tTestReqID = some w) (hw : pyInt w = some s) :
    recv sr env { c with testReqId := some s } g = (afterIn c env g, []) := by
  have ha' : Addressed { c with testReqId := some s } g v ({ c with testReqId := some s } : Conn).sess.nextIn :=
    ⟨ha.bs, ha.s49, ha.s56, ha.s34, ha.int⟩
  have hf' : JFresh ({ c with testReqId := some s } : Conn) := ⟨h.fresh.out, h.fresh.inb⟩
  have := recv_hb_answer (sr := sr) (env := env) (t := s) ha' h.st hty rfl h112 hw h.posIn (jIn_spec g hf')
  rw [this]
  obtain ⟨state, role, wasActive, sess, maxResend, testReqId, lastTime, hb, sock, journal⟩ := c
  have := h.noreq
  simp only at this
  subst this
  rfl

/-- the TestReqID of the frame carrying `send_test_req`'s message, and of the Heartbeat answering it -/
theorem testreq_frame_id (c : Conn) (env : Env) :
    (sentFrame c env (testReqOut env)).get? tTestReqID = some (pyStr env.secs) := by
  unfold sentFrame
  rw [buildFrame_get?_body _ _ _ _ _ (by decide)]
  rfl

theorem hbReply_frame_id (c : Conn) (env : Env) (f : Msg) :
    (sentFrame c env (hbReply f)).get? tTestReqID = some ((f.get? tTestReqID).getD "0") := by
  unfold sentFrame
  rw [buildFrame_get?_body _ _ _ _ _ (by decide)]
  rfl

end AsyncFix.Tester
