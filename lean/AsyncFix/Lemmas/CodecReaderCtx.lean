/-
C03, part 4: shape of a valid frame (`mkFrame_shape`), where `decode` cuts it, and the facts
about `decode` the reader invariant needs: (2) junk + frame + anything, (3) junk + proper
prefix of a frame, (4) junk alone.
-/
import AsyncFix.Lemmas.CodecReaderFrame
namespace AsyncFix.Model.Codec

/-! ### shape of a valid frame -/

theorem rdr_okBegin_iff {bs : Bytes} (hb : okBegin bs = true) :
    marker <+: fieldBytes [56] bs ∧ SOH ∉ bs := by
  simp only [okBegin, Bool.and_eq_true, isPrefix_iff, Bool.not_eq_true', List.contains_eq_mem,
    decide_eq_false_iff_not] at hb
  exact hb

theorem mkFrame_marker {bs : Bytes} (hb : okBegin bs = true) (fs : List Fld) :
    marker <+: mkFrame bs fs := by
  have h := (rdr_okBegin_iff hb).1
  unfold mkFrame headBytes
  simp only [List.append_assoc]
  exact h.trans (List.prefix_append _ _)

theorem mkFrame_length_ge {bs : Bytes} (hb : okBegin bs = true) (fs : List Fld) :
    6 < (mkFrame bs fs).length := by
  have h := ((rdr_okBegin_iff hb).1).length_le
  rw [marker_length] at h
  unfold mkFrame headBytes
  simp only [List.length_append, List.length_cons, List.length_nil]
  omega

/-- shape of a valid frame: `pre ++ ck ++ [SOH]` where `ck` is SOH-free and the first `SOH 10=`
of the frame (followed by anything) is the last byte of `pre` -/
theorem mkFrame_shape {bs : Bytes} (hb : okBegin bs = true) (fs : List Fld) (hok : okFields fs = true) :
    ∃ pre ck : Bytes, mkFrame bs fs = pre ++ (ck ++ [SOH]) ∧ 0 < pre.length ∧ SOH ∉ ck ∧
      ∀ rest, findSub cksumPat (pre ++ (ck ++ SOH :: rest)) = some (pre.length - 1) := by
  obtain ⟨_, hsoh⟩ := rdr_okBegin_iff hb
  refine ⟨headBytes bs (bodyBytes fs).length ++ bodyBytes fs,
    fieldBytes [49, 48] (dec3 (sum (headBytes bs (bodyBytes fs).length ++ bodyBytes fs) % 256)), ?_, ?_, ?_, ?_⟩
  · simp only [mkFrame, List.append_assoc]
  · simp only [headBytes, List.length_append, List.length_cons]; omega
  · exact soh_not_mem_field (by decide) (not_mem_of_digits (by decide) (rdr_dec3_digits _))
  · intro rest
    generalize hck : fieldBytes [49, 48] (dec3 (sum (headBytes bs (bodyBytes fs).length ++ bodyBytes fs) % 256)) = ck
    have hckp : [49, 48, 61] <+: ck ++ SOH :: rest := by subst hck; simp [fieldBytes, EQS]
    generalize hn : (bodyBytes fs).length = n
    have hshape2 : headBytes bs n ++ bodyBytes fs ++ (ck ++ SOH :: rest) =
        fieldBytes [56] bs ++ SOH :: (fieldBytes [57] (natToDec n) ++ SOH :: (bodyBytes fs ++ (ck ++ SOH :: rest))) := by
      simp only [headBytes, List.append_assoc, List.cons_append, List.nil_append]
    have h8 : SOH ∉ fieldBytes [56] bs := by
      simp only [fieldBytes, List.mem_append, List.mem_cons, not_or]
      exact ⟨by decide, by decide, hsoh⟩
    have h9 : SOH ∉ fieldBytes [57] (natToDec n) :=
      soh_not_mem_field (by decide) (not_mem_of_digits (by decide) (rdr_natToDec_digits _))
    rw [hshape2, show cksumPat = SOH :: [49, 48, 61] from rfl, findSub_skip h8,
      show SOH :: [49, 48, 61] = cksumPat from rfl, findSub_ck_at_soh]
    have hn9 : ¬ [49, 48, 61] <+: fieldBytes [57] (natToDec n) ++ SOH :: (bodyBytes fs ++ (ck ++ SOH :: rest)) := by
      simp [fieldBytes]
    rw [if_neg hn9, findSub_ck_body fs hok _ hckp _ h9]
    simp only [Option.map_some, Option.some.injEq, headBytes, List.length_append, List.length_cons,
      List.length_nil, hn]
    omega

/-- a buffer that starts with a valid frame is closed exactly at the end of that frame -/
theorem closedAtOf_frame {bs : Bytes} (hb : okBegin bs = true) (fs : List Fld) (hok : okFields fs = true)
    (rest : Bytes) : closedAtOf (mkFrame bs fs ++ rest) = some (mkFrame bs fs).length := by
  obtain ⟨pre, ck, hsh, hpre, hck, hfind⟩ := mkFrame_shape hb fs hok
  have hshape : mkFrame bs fs ++ rest = pre ++ (ck ++ SOH :: rest) := by
    rw [hsh]; simp only [List.append_assoc, List.cons_append, List.nil_append]
  have hdrop : (pre ++ (ck ++ SOH :: rest)).drop (pre.length - 1 + 1) = ck ++ SOH :: rest := by
    rw [show pre.length - 1 + 1 = pre.length by omega, List.drop_left]
  have hlen : (mkFrame bs fs).length = pre.length + ck.length + 1 := by
    rw [hsh]; simp only [List.length_append, List.length_cons, List.length_nil]; omega
  unfold closedAtOf
  rw [hshape]
  simp only [hfind rest, hdrop, findChar_append_cons hck, hlen]
  congr 1
  omega

theorem waitCk_frame {bs : Bytes} (hb : okBegin bs = true) {f : Bytes} (hwf : WFFrame bs f)
    (rest : Bytes) : waitCk (f ++ rest) = false := by
  obtain ⟨fs, rfl, hok, _⟩ := hwf
  unfold waitCk
  rw [closedAtOf_frame hb fs hok]
  simp

theorem cutOf_frame {bs : Bytes} (hb : okBegin bs = true) (fs : List Fld) (hok : okFields fs = true)
    (rest : Bytes) : cutOf (mkFrame bs fs ++ rest) = (mkFrame bs fs).length := by
  unfold cutOf
  simp only [closedAtOf_frame hb fs hok, Option.getD_some]

/-- a proper prefix of a valid frame has no complete CheckSum field -/
theorem closedAtOf_prefix {bs : Bytes} (hb : okBegin bs = true) (fs : List Fld) (hok : okFields fs = true)
    {p : Bytes} (hp : p <+: mkFrame bs fs) (hlt : p.length < (mkFrame bs fs).length) :
    closedAtOf p = none := by
  obtain ⟨pre, ck, hsh, hpre, hck, hfind⟩ := mkFrame_shape hb fs hok
  unfold closedAtOf
  cases hf : findSub cksumPat p with
  | none => rfl
  | some ci =>
    simp only []
    obtain ⟨t, ht⟩ := hp
    have h1 := findSub_append_of_some (t := t) hf
    rw [ht, hsh] at h1
    have h2 := hfind []
    rw [h1] at h2
    simp only [Option.some.injEq] at h2
    subst h2
    have hp2 : p <+: pre ++ ck := by
      have hp' : p <+: (pre ++ ck) ++ [SOH] := by
        rw [List.append_assoc, ← hsh, ← ht]; exact List.prefix_append _ _
      refine prefix_of_prefix_append hp' ?_
      rw [hsh] at hlt
      simp only [List.length_append, List.length_cons, List.length_nil] at hlt ⊢
      omega
    have hple : pre.length ≤ p.length := by
      have := findSub_lt hf
      omega
    have hd : p.drop (pre.length - 1 + 1) <+: ck := by
      rw [show pre.length - 1 + 1 = pre.length by omega]
      obtain ⟨u, hu⟩ := hp2
      have : (p ++ u).drop pre.length = ck := by rw [hu, List.drop_left]
      rw [List.drop_append_of_le_length] at this
      · exact ⟨_, this⟩
      · exact hple
    have : SOH ∉ p.drop (pre.length - 1 + 1) := fun hm => hck (hd.subset hm)
    rw [findChar_none this]

theorem take_cutOf_frame {bs : Bytes} (hb : okBegin bs = true) {f : Bytes} (hwf : WFFrame bs f)
    (rest : Bytes) : (f ++ rest).take (cutOf (f ++ rest)) = f := by
  obtain ⟨fs, rfl, hok, _⟩ := hwf
  rw [cutOf_frame hb fs hok, List.take_left]

theorem WFFrame_marker {bs f : Bytes} (hb : okBegin bs = true) (hwf : WFFrame bs f) : marker <+: f := by
  obtain ⟨fs, rfl, _, _⟩ := hwf
  exact mkFrame_marker hb fs

theorem WFFrame_length {bs f : Bytes} (hb : okBegin bs = true) (hwf : WFFrame bs f) : 6 < f.length := by
  obtain ⟨fs, rfl, _, _⟩ := hwf
  exact mkFrame_length_ge hb fs

/-! ### the three decode facts -/

/-- what `decode f = msg` says in factored form -/
theorem decode_frame_alone {bs : Bytes} {tbl : Tbl} {f : Bytes} {m : Msg} (hb : okBegin bs = true)
    (hwf : WFFrame bs f) (hd : decode bs tbl f = .msg m f.length f) :
    ∃ few, decodeTail bs tbl f.length 0 few f = .msg m f.length f := by
  rw [decode_eq] at hd
  have hfm : findSub marker f = some 0 := by
    simpa using findSub_marker_junk (g := []) NoMarker_nil (WFFrame_marker hb hwf)
  rw [hfm] at hd
  have hw := waitCk_frame hb hwf []
  simp only [List.append_nil] at hw
  simp only [List.drop_zero, hw, Bool.false_eq_true, if_false] at hd
  have := take_cutOf_frame hb hwf []
  simp only [List.append_nil] at this
  rw [this] at hd
  exact ⟨_, hd⟩

/-- (2) context independence: junk + frame + anything decodes to that frame -/
theorem decode_frame_ctx {bs : Bytes} {tbl : Tbl} {f g : Bytes} {m : Msg} (hb : okBegin bs = true)
    (hwf : WFFrame bs f) (hd : decode bs tbl f = .msg m f.length f) (hg : NoMarker g) (rest : Bytes) :
    decode bs tbl (g ++ (f ++ rest)) = .msg m (g.length + f.length) f := by
  obtain ⟨f0, f1, r, ml, _, _, _, _, hn, _, htr⟩ := decodeTail_msg_inv (decode_frame_alone hb hwf hd).choose_spec
  have hml : ml = f.length := by omega
  rw [decode_eq, findSub_marker_junk hg ((WFFrame_marker hb hwf).trans (List.prefix_append _ _))]
  simp only [List.drop_left, take_cutOf_frame hb hwf, waitCk_frame hb hwf, Bool.false_eq_true, if_false]
  rw [htr _ _ _ (by simp only [List.length_append]; omega), hml]

/-- (3) junk + a proper prefix of a frame that already shows the marker: wait, keeping the prefix -/
theorem decode_frame_prefix {bs : Bytes} {tbl : Tbl} {f g p : Bytes} {m : Msg} (hb : okBegin bs = true)
    (hwf : WFFrame bs f) (hd : decode bs tbl f = .msg m f.length f) (hg : NoMarker g)
    (hp : p <+: f) (hlt : p.length < f.length) (h6 : 6 ≤ p.length) :
    decode bs tbl (g ++ p) = .none g.length := by
  obtain ⟨f0, f1, r, ml, hf, hf3, hh, _, hn, _, _⟩ := decodeTail_msg_inv (decode_frame_alone hb hwf hd).choose_spec
  have hml : ml = f.length := by omega
  have hmp : marker <+: p :=
    List.prefix_of_prefix_length_le (WFFrame_marker hb hwf) hp (by rw [marker_length]; exact h6)
  rw [decode_eq, findSub_marker_junk hg hmp]
  simp only [List.drop_left]
  split
  · rfl
  have hfew : fewOf g.length p = g.length := by
    obtain ⟨fs, rfl, hok, _⟩ := hwf
    unfold fewOf
    rw [closedAtOf_prefix hb fs hok hp hlt]
    rfl
  rw [hfew]
  generalize cutOf p = c
  have he : p.take c <+: f := (List.take_prefix c p).trans hp
  by_cases h3 : (fieldsOf (p.take c)).length < 3
  · exact decodeTail_few h3
  · have h2 := fieldsOf_prefix he (by omega) hf3
    rw [hf] at h2
    match hfe : fieldsOf (p.take c), h3, h2 with
    | a :: b :: r', _, h2 =>
      simp only [List.take_succ_cons, List.take_zero, List.cons.injEq, and_true] at h2
      obtain ⟨rfl, rfl⟩ := h2
      exact decodeTail_short hfe hh (by simp only [List.length_append]; omega) (by omega)
    | [], h3, _ => simp at h3
    | [_], h3, _ => simp at h3

/-- (4) marker-free bytes: everything is dropped except the longest proper marker prefix at the end -/
theorem decode_junk {bs : Bytes} {tbl : Tbl} {x : Bytes} (hx : NoMarker x) :
    decode bs tbl x = .none (x.length - partialMarkerKeep x) := by
  rw [decode_eq, show findSub marker x = none from hx]

end AsyncFix.Model.Codec
