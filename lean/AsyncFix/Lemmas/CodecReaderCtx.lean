import AsyncFix.Lemmas.CodecReaderFrame
namespace AsyncFix.Model.Codec

/-! ### shape of a valid frame -/

theorem okBegin_iff {bs : Bytes} (hb : okBegin bs = true) :
    marker <+: fieldBytes [56] bs ∧ SOH ∉ bs := by
  simp only [okBegin, Bool.and_eq_true, isPrefix_iff, Bool.not_eq_true', List.contains_eq_mem,
    decide_eq_false_iff_not] at hb
  exact hb

theorem mkFrame_marker {bs : Bytes} (hb : okBegin bs = true) (fs : List Fld) :
    marker <+: mkFrame bs fs := by
  have h := (okBegin_iff hb).1
  unfold mkFrame headBytes
  simp only [List.append_assoc]
  exact h.trans (List.prefix_append _ _)

theorem mkFrame_length_ge {bs : Bytes} (hb : okBegin bs = true) (fs : List Fld) :
    6 < (mkFrame bs fs).length := by
  have h := ((okBegin_iff hb).1).length_le
  rw [marker_length] at h
  unfold mkFrame headBytes
  simp only [List.length_append, List.length_cons, List.length_nil]
  omega

/-- the provisional cut of a buffer that starts with a valid frame is the end of that frame,
whatever follows it -/
theorem cutOf_frame {bs : Bytes} (hb : okBegin bs = true) (fs : List Fld) (hok : okFields fs = true)
    (rest : Bytes) : cutOf (mkFrame bs fs ++ rest) = (mkFrame bs fs).length := by
  obtain ⟨_, hsoh⟩ := okBegin_iff hb
  let n := (bodyBytes fs).length
  let pre := headBytes bs n ++ bodyBytes fs
  let ck := fieldBytes [49, 48] (dec3 (sum pre % 256))
  have hck : SOH ∉ ck := soh_not_mem_field (by decide) (not_mem_of_digits (by decide) (dec3_digits _))
  have hshape : mkFrame bs fs ++ rest = pre ++ (ck ++ SOH :: rest) := by
    simp only [mkFrame, List.append_assoc, List.cons_append, List.nil_append, pre, ck, n]
  have hshape2 : mkFrame bs fs ++ rest =
      fieldBytes [56] bs ++ SOH :: (fieldBytes [57] (natToDec n) ++ SOH :: (bodyBytes fs ++ (ck ++ SOH :: rest))) := by
    rw [hshape]
    simp only [pre, headBytes, List.append_assoc, List.cons_append, List.nil_append]
  have h8 : SOH ∉ fieldBytes [56] bs := by
    simp only [fieldBytes, List.mem_append, List.mem_cons, not_or]
    exact ⟨by decide, by decide, hsoh⟩
  have h9 : SOH ∉ fieldBytes [57] (natToDec n) :=
    soh_not_mem_field (by decide) (not_mem_of_digits (by decide) (natToDec_digits _))
  have hfind : findSub cksumPat (mkFrame bs fs ++ rest) = some (pre.length - 1) := by
    rw [hshape2, show cksumPat = SOH :: [49, 48, 61] from rfl, findSub_skip h8,
      show SOH :: [49, 48, 61] = cksumPat from rfl, findSub_ck_at_soh]
    have hn9 : ¬ [49, 48, 61] <+: fieldBytes [57] (natToDec n) ++ SOH :: (bodyBytes fs ++ (ck ++ SOH :: rest)) := by
      simp [fieldBytes]
    rw [if_neg hn9, findSub_ck_body fs hok _ (by simp [ck, fieldBytes, EQS]) _ h9]
    simp only [Option.map_some, Option.some.injEq, pre, headBytes, List.length_append, List.length_cons,
      List.length_nil]
    omega
  have hpre : 0 < pre.length := by
    simp only [pre, headBytes, List.length_append, List.length_cons]; omega
  have hdrop : (mkFrame bs fs ++ rest).drop (pre.length - 1 + 1) = ck ++ SOH :: rest := by
    rw [hshape, show pre.length - 1 + 1 = pre.length by omega, List.drop_left]
  have hlen : (mkFrame bs fs).length = pre.length + ck.length + 1 := by
    simp only [mkFrame, List.length_append, List.length_cons, List.length_nil, pre, ck, n]
  unfold cutOf
  simp only [hfind, hdrop, findChar_append_cons hck, hlen]
  omega

theorem take_cutOf_frame {bs : Bytes} (hb : okBegin bs = true) {f : Bytes} (hwf : WFFrame bs f)
    (rest : Bytes) : (f ++ rest).take (cutOf (f ++ rest)) = f := by
  obtain ⟨fs, rfl, hok, _⟩ := hwf
  rw [cutOf_frame hb fs hok, List.take_left]

theorem WFFrame_marker {bs f : Bytes} (hb : okBegin bs = true) (hwf : WFFrame bs f) : marker <+: f := by
  obtain ⟨fs, rfl, _, _⟩ := hwf
  exact mkFrame_marker hb fs

theorem WFFrame_length {bs f : Bytes} (hb : okBegin bs = true) (hwf : WFFrame bs f) : 6 < f.length := by
  obtain ⟨fs, rfl, _, _⟩ := hwf
  exact mkFrame_length_ge hb fs

/-! ### the three decode facts -/

/-- what `decode f = msg` says in factored form -/
theorem decode_frame_alone {bs : Bytes} {tbl : Tbl} {f : Bytes} {m : Msg} (hb : okBegin bs = true)
    (hwf : WFFrame bs f) (hd : decode bs tbl f = .msg m f.length f) :
    decodeTail bs tbl f.length 0 f = .msg m f.length f := by
  rw [decode_eq] at hd
  have hfm : findSub marker f = some 0 := by
    simpa using findSub_marker_junk (g := []) NoMarker_nil (WFFrame_marker hb hwf)
  rw [hfm] at hd
  simp only [List.drop_zero] at hd
  have := take_cutOf_frame hb hwf []
  simp only [List.append_nil] at this
  rwa [this] at hd

/-- (2) context independence: junk + frame + anything decodes to that frame -/
theorem decode_frame_ctx {bs : Bytes} {tbl : Tbl} {f g : Bytes} {m : Msg} (hb : okBegin bs = true)
    (hwf : WFFrame bs f) (hd : decode bs tbl f = .msg m f.length f) (hg : NoMarker g) (rest : Bytes) :
    decode bs tbl (g ++ (f ++ rest)) = .msg m (g.length + f.length) f := by
  obtain ⟨f0, f1, r, ml, _, _, _, _, hn, _, htr⟩ := decodeTail_msg_inv (decode_frame_alone hb hwf hd)
  have hml : ml = f.length := by omega
  rw [decode_eq, findSub_marker_junk hg ((WFFrame_marker hb hwf).trans (List.prefix_append _ _))]
  simp only [List.drop_left, take_cutOf_frame hb hwf]
  rw [htr _ _ (by simp only [List.length_append]; omega), hml]

/-- (3) junk + a proper prefix of a frame that already shows the marker: wait, keeping the prefix -/
theorem decode_frame_prefix {bs : Bytes} {tbl : Tbl} {f g p : Bytes} {m : Msg} (hb : okBegin bs = true)
    (hwf : WFFrame bs f) (hd : decode bs tbl f = .msg m f.length f) (hg : NoMarker g)
    (hp : p <+: f) (hlt : p.length < f.length) (h6 : 6 ≤ p.length) :
    decode bs tbl (g ++ p) = .none g.length := by
  obtain ⟨f0, f1, r, ml, hf, hf3, hh, _, hn, _, _⟩ := decodeTail_msg_inv (decode_frame_alone hb hwf hd)
  have hml : ml = f.length := by omega
  have hmp : marker <+: p :=
    List.prefix_of_prefix_length_le (WFFrame_marker hb hwf) hp (by rw [marker_length]; exact h6)
  rw [decode_eq, findSub_marker_junk hg hmp]
  simp only [List.drop_left]
  generalize cutOf p = c
  have he : p.take c <+: f := (List.take_prefix c p).trans hp
  by_cases h3 : (fieldsOf (p.take c)).length < 3
  · exact decodeTail_few h3
  · have h2 := fieldsOf_prefix he (by omega) hf3
    rw [hf] at h2
    match hfe : fieldsOf (p.take c), h3, h2 with
    | a :: b :: r', _, h2 =>
      simp only [List.take_succ_cons, List.take_zero, List.cons.injEq, and_true] at h2
      obtain ⟨rfl, rfl⟩ := h2
      exact decodeTail_short hfe hh (by simp only [List.length_append]; omega)
    | [], h3, _ => simp at h3
    | [_], h3, _ => simp at h3

/-- (4) marker-free bytes: everything is dropped except the longest proper marker prefix at the end -/
theorem decode_junk {bs : Bytes} {tbl : Tbl} {x : Bytes} (hx : NoMarker x) :
    decode bs tbl x = .none (x.length - partialMarkerKeep x) := by
  rw [decode_eq, show findSub marker x = none from hx]

end AsyncFix.Model.Codec
