import AsyncFix.Lemmas.SessionInHead

/-!
C04 helper: the dispatch and the whole of `_process_message`.
-/
namespace AsyncFix.Session
open AsyncFix.Generated AsyncFix.Generated.ConnEnum

/-- no change at all, no effect -/
def Pure : StepRel where
  R c c' e := c' = c ∧ e = []
  refl _ := ⟨rfl, rfl⟩
  trans := by
    intro a b c e1 e2 h1 h2
    simp [h1.1, h1.2, h2.1, h2.2]

theorem validateIntegrity_pure (m : Msg) : Sat Pure (validateIntegrity m) := by
  unfold validateIntegrity
  repeat' (first | sat_step | split)

theorem processHead_spec (env : Env) (m : Msg) (c : Conn) :
    Holds (processHead env m) c (fun r c1 e =>
      HeadPost c m r c1 e ∧ deliveries e = [] ∧ (m.mtype ≠ mSequenceReset → c1.sess.nextIn = c.sess.nextIn)) := by
  refine (processHead_path env m c).and (Holds.and ((processHead_noDeliver env m).holds c) ?_)
  by_cases hm : m.mtype = mSequenceReset
  · exact Holds.any fun _ _ _ h => absurd hm h
  · exact ((processHead_quiet env m hm).holds c).mono fun _ _ _ h _ => h.1

/-- the dispatch: the expected number stays; `on_message` at most once, with this very message, and
only when `is_valid_msg_num` and the number is the expected one -/
theorem processDispatch_spec (env : Env) (sr : Msg → Bool) (m : Msg) (valid : Bool) (n : Int) (c : Conn) :
    Holds (processDispatch env sr m valid n) c (fun _ c' e =>
      c'.sess.nextIn = c.sess.nextIn ∧
      (deliveries e = [] ∨
        (deliveries e = [m] ∧ valid = true ∧ n = c.sess.nextIn ∧ isApp m = true ∧ c' = c))) := by
  unfold processDispatch
  wp_simp
  repeat' (first
    | apply Holds.of_sat' (processResend_quiet _ _ _)
    | apply Holds.of_sat' (processTestRequest_quiet _ _)
    | apply Holds.of_sat' (processHeartbeat_quiet _ _)
    | intro _ | apply And.intro)
  all_goals simp_all [Quiet, deliveries, isApp, sessionTypes]

/-- a SequenceReset that the receiver acts on, moving the expected number to `k`: Reset mode – any
NewSeqNo `k`; GapFill mode – only when its own MsgSeqNum is the expected one and `k` is beyond it -/
def HonouredTo (c : Conn) (m : Msg) (k : Int) : Prop :=
  m.mtype = mSequenceReset ∧ ∃ n, seqOf m = some n ∧ newSeqOf m = some k ∧
    (isGapFill m = true → n = c.sess.nextIn ∧ n < k)

/-- how one inbound frame may move the expected number -/
def Moves (c : Conn) (m : Msg) (k : Int) : Prop :=
  k = c.sess.nextIn ∨
  (m.mtype ≠ mSequenceReset ∧ seqOf m = some c.sess.nextIn ∧ k = c.sess.nextIn + 1) ∨
  HonouredTo c m k

/-- result of one `_process_message`: `k` = expected number afterwards, `d` = messages delivered -/
def MsgOk (c : Conn) (m : Msg) (k : Int) (d : List Msg) : Prop :=
  (d = [] ∨
    (d = [m] ∧ seqOf m = some c.sess.nextIn ∧ isApp m = true ∧ m.mtype ≠ mLogout ∧
      st_LOGON_INITIAL_RECV ≤ c.state ∧ k = c.sess.nextIn + 1)) ∧
  Moves c m k

theorem isApp_not_session {m : Msg} (h : isApp m = true) :
    m.mtype ≠ mSequenceReset ∧ m.mtype ≠ mLogon := by
  simp [isApp, sessionTypes] at h
  exact ⟨h.2.1, h.2.2.1⟩

/-- the head ended without reaching the dispatch, or the dispatch ran with `is_valid_msg_num = False` -/
theorem msgOk_of_head {c : Conn} {m : Msg} {r : Except Exc (Option (Bool × Int))} {c1 : Conn}
    {e1 : List Effect} (hh : HeadPost c m r c1 e1)
    (hq : m.mtype ≠ mSequenceReset → c1.sess.nextIn = c.sess.nextIn) :
    MsgOk c m c1.sess.nextIn [] := by
  unfold HeadPost at hh
  refine ⟨Or.inl rfl, ?_⟩
  by_cases hm : m.mtype = mSequenceReset
  · rcases hh.2 hm with h | ⟨n, nw, h1, h2, h3, h4⟩
    · exact Or.inl h
    · exact Or.inr (Or.inr ⟨hm, n, h1, h4 ▸ h2, h4 ▸ h3⟩)
  · exact Or.inl (hq hm)

/-- the dispatch ran with `is_valid_msg_num = True` and `_finalize_message` after it -/
theorem msgOk_of_final {c : Conn} {m : Msg} {n : Int} {c1 : Conn} {e1 : List Effect}
    {d : List Msg} {k2 k : Int}
    (hh : HeadPost c m (.ok (some (true, n))) c1 e1)
    (hq : m.mtype ≠ mSequenceReset → c1.sess.nextIn = c.sess.nextIn)
    (h2 : k2 = c1.sess.nextIn)
    (hd : d = [] ∨ (d = [m] ∧ n = c1.sess.nextIn ∧ isApp m = true))
    (hf1 : m.mtype ≠ mSequenceReset →
        (k = k2 ∨ (seqOf m = some k2 ∧ k = k2 + 1)) ∧ (seqOf m = some k2 → k = k2 + 1))
    (hf2 : m.mtype = mSequenceReset → k = k2 ∨ newSeqOf m = some k) :
    MsgOk c m k d := by
  unfold HeadPost at hh
  obtain ⟨hs, hv, hst, hlo, h4⟩ := hh.1 true n rfl
  subst h2
  by_cases hm : m.mtype = mSequenceReset
  · obtain ⟨nw, hnw, hg, hk⟩ := h4 hm
    have hk' : k = nw := by
      rcases hf2 hm with h | h
      · omega
      · rw [hnw] at h; exact (Option.some.inj h).symm
    constructor
    · rcases hd with h | ⟨_, _, happ⟩
      · exact Or.inl h
      · exact absurd hm (isApp_not_session happ).1
    · exact Or.inr (Or.inr ⟨hm, n, hs, hk' ▸ hnw, hk' ▸ hg⟩)
  · have hc := hq hm
    obtain ⟨hfa, hfb⟩ := hf1 hm
    constructor
    · rcases hd with h | ⟨hd, hn, happ⟩
      · exact Or.inl h
      · refine Or.inr ⟨hd, ?_, happ, hlo, hst (isApp_not_session happ).2, ?_⟩
        · rw [hs, hn, hc]
        · have := hfb (by rw [hs, hn]); omega
    · rcases hfa with h | ⟨h, h'⟩
      · exact Or.inl (by omega)
      · exact Or.inr (Or.inl ⟨hm, by rw [h, hc], by omega⟩)

@[irreducible] def MsgPost (c : Conn) (m : Msg) : Post Unit := fun _ c' e =>
  MsgOk c m c'.sess.nextIn (deliveries e)

theorem msgOk_quiet {c c' : Conn} {m : Msg} {e : List Effect} (h : Quiet.R c c' e) :
    MsgOk c m c'.sess.nextIn (deliveries e) := by
  rw [h.2]
  exact ⟨Or.inl rfl, Or.inl h.1⟩

theorem processMessage_spec (env : Env) (sr : Msg → Bool) (m : Msg) (c : Conn) :
    Holds (processMessage env sr m) c (MsgPost c m) := by
  unfold processMessage swallow
  wp_simp
  refine Holds.of_sat' (validateIntegrity_pure _) ?_ ?_
  · rintro integ c0 e0 ⟨rfl, rfl⟩
    cases integ with
    | critical =>
      exact Holds.of_sat (disconnect_quiet _ _ _) fun _ _ _ h => by
        simpa [MsgPost] using msgOk_quiet h
    | reason text =>
      exact Holds.of_sat (disconnect_quiet _ _ _) fun _ _ _ h => by
        simpa [MsgPost] using msgOk_quiet h
    | good =>
      wp_simp
      refine Holds.of_spec (processHead_spec _ _ _) ?_ ?_
      · rintro head c1 e1 ⟨hh, hd1, hq⟩
        cases head with
        | none =>
          wp_simp
          simpa [MsgPost, hd1] using msgOk_of_head hh hq
        | some p =>
          obtain ⟨valid, n⟩ := p
          wp_simp
          have key : ∀ (c2 : Conn) (e2 extra : List Effect),
              (c2.sess.nextIn = c1.sess.nextIn ∧ (deliveries e2 = [] ∨
                (deliveries e2 = [m] ∧ valid = true ∧ n = c1.sess.nextIn ∧ isApp m = true ∧ c2 = c1))) →
              deliveries extra = [] →
              (valid = true → Holds (finalizeMessage env m) c2
                (fun r2 c3 e3 => MsgPost c0 m r2 c3 (e1 ++ (e2 ++ extra ++ e3)))) ∧
              (¬valid = true → MsgPost c0 m (Except.ok ()) c2 (e1 ++ (e2 ++ extra))) := by
            intro c2 e2 extra ⟨hk2, hd2⟩ hex
            constructor
            · intro hv
              subst hv
              refine (finalizeMessage_spec env m c2).mono ?_
              rintro r3 c3 e3 ⟨hd3, -, hf1, hf2, -⟩
              have := msgOk_of_final (k := c3.sess.nextIn) (d := deliveries e2) hh hq hk2
                (by rcases hd2 with h | ⟨h, -, h2, h3, -⟩
                    · exact Or.inl h
                    · exact Or.inr ⟨h, h2, h3⟩) hf1 hf2
              simpa [MsgPost, hd1, hd3, hex] using this
            · intro hv
              have hd2' : deliveries e2 = [] := by
                rcases hd2 with h | ⟨-, h, -⟩
                · exact h
                · exact absurd h hv
              have := msgOk_of_head hh hq
              rw [← hk2] at this
              simpa [MsgPost, hd1, hd2', hex] using this
          refine Holds.of_spec (processDispatch_spec _ _ _ _ _ _) ?_ ?_
          · intro a c2 e2 h
            simpa using key c2 e2 [] h rfl
          · intro ex c2 e2 h
            simpa using key c2 e2 [Effect.caught ex] h rfl
      · rintro ex c1 e1 ⟨hh, hd1, hq⟩
        wp_simp
        simpa [MsgPost, hd1, deliveries] using msgOk_of_head hh hq
  · rintro ex c0 e0 ⟨rfl, rfl⟩
    simpa [MsgPost] using msgOk_quiet (m := m) (Quiet.refl c0)

end AsyncFix.Session
