import AsyncFix.Lemmas.SessionStep

/-!
Session family: evaluation lemmas for the pre-logon and integrity clauses of C11.
-/
namespace AsyncFix.Session

open AsyncFix.Generated AsyncFix.Generated.ConnEnum

/-! ### `_validate_integrity` is a pure function of the connection and the frame -/

/-- nothing emitted, connection untouched -/
def RSame (c c' : Conn) (e : List Effect) : Prop := e = [] ∧ c' = c

instance : Compositional RSame where
  refl := fun _ => ⟨rfl, rfl⟩
  trans := by
    intro c c1 c2 e1 e2 h1 h2
    exact ⟨by rw [h1.1, h2.1]; rfl, by rw [h2.2, h1.2]⟩

section
attribute [local irreducible] M.bind' M.pure' M.throw M.tryCatch M.get M.modify M.emit M.liftE
  M.assert M.int
theorem validateIntegrity_same (m : Msg) : M.Rel RSame (validateIntegrity m) := by
  unfold validateIntegrity
  rel_tac []
end

/-- the verdict of `_validate_integrity` (`Except.error` = the exception it raises) -/
def integrityOf (c : Conn) (m : Msg) : Except Exc Integrity := (validateIntegrity m c).res

theorem validateIntegrity_eq (m : Msg) (c : Conn) :
    validateIntegrity m c = ⟨integrityOf c m, c, []⟩ := by
  have h := (validateIntegrity_same m).out c
  unfold integrityOf
  rcases hx : validateIntegrity m c with ⟨r, c1, e1⟩
  rw [hx] at h
  obtain ⟨h1, h2⟩ := h
  have h1 : e1 = [] := h1
  have h2 : c1 = c := h2
  subst h1; subst h2; rfl

/-! ### sends before the Logon exchange -/

theorem sendMsg_refused (env : Env) (c : Conn) (m : Msg)
    (h : c.state < st_NETWORK_CONN_ESTABLISHED ∨
      (c.state = st_NETWORK_CONN_ESTABLISHED ∧ m.mtype ≠ mLogon ∧ m.mtype ≠ mLogout) ∨
      (c.state = st_LOGON_INITIAL_SENT ∧ c.role = roleInitiator ∧ m.mtype ≠ mLogout)) :
    sendMsg env m c = ⟨.error .connection, c, []⟩ := by
  rcases h with h | ⟨h, h1, h2⟩ | ⟨h, h1, h2⟩
  · simp [sendMsg, sendGate, bind, M.bind', h]
  · simp [sendMsg, sendGate, bind, M.bind', h, h1, h2, st_NETWORK_CONN_ESTABLISHED]
  · simp [sendMsg, sendGate, bind, M.bind', h, h1, h2, st_NETWORK_CONN_ESTABLISHED, st_LOGON_INITIAL_SENT]

/-! ### before a Logon has been received: a frame other than Logon ends in `none` -/

theorem isDisc_broken : isDisc st_DISCONNECTED_BROKEN_CONN = true := rfl
theorem isDisc_wconn : isDisc st_DISCONNECTED_WCONN_TODAY = true := rfl

theorem processHead_first_not_logon (env : Env) (m : Msg) (c : Conn)
    (hs : c.state = st_NETWORK_CONN_ESTABLISHED) (hm : m.mtype ≠ mLogon) :
    processHead env m c =
      ⟨.ok none, (discTail (discReset c) st_DISCONNECTED_BROKEN_CONN).1,
        (discTail (discReset c) st_DISCONNECTED_BROKEN_CONN).2⟩ := by
  have hd : isDisc c.state = false := by rw [hs]; rfl
  simp [processHead, bind, M.bind', M.assert_apply, hs, hm,
    disconnect_plain_eval env _ c hd isDisc_broken]

theorem processHead_initiator_not_logon (env : Env) (m : Msg) (c : Conn)
    (hs : c.state = st_LOGON_INITIAL_SENT) (hm : m.mtype ≠ mLogon) (hm' : m.mtype ≠ mLogout) :
    processHead env m c =
      ⟨.ok none, (discTail (discReset c) st_DISCONNECTED_BROKEN_CONN).1,
        (discTail (discReset c) st_DISCONNECTED_BROKEN_CONN).2⟩ := by
  have hd : isDisc c.state = false := by rw [hs]; rfl
  simp [processHead, bind, M.bind', M.assert_apply, hs, hm, hm', st_LOGON_INITIAL_SENT,
    st_NETWORK_CONN_ESTABLISHED, disconnect_plain_eval env _ c hd isDisc_broken]

theorem processHead_initiator_logout (env : Env) (m : Msg) (c : Conn)
    (hs : c.state = st_LOGON_INITIAL_SENT) (hm : m.mtype = mLogout) :
    (processHead env m c).res = .ok none := by
  have hd : isDisc c.state = false := by rw [hs]; rfl
  have hne : mLogout ≠ mLogon := by decide
  have hne2 : mLogout ≠ mSequenceReset := by decide
  have h23 : st_DISCONNECTED_WCONN_TODAY ≤ st_DISCONNECTED_BROKEN_CONN := by decide
  have h76 : ¬ st_LOGON_INITIAL_SENT = st_NETWORK_CONN_ESTABLISHED := by decide
  have h7 : st_LOGON_INITIAL_SENT ≥ st_NETWORK_CONN_ESTABLISHED := by decide
  cases hw : c.wasActive <;> cases hk : c.sock <;>
    simp [processHead, processLogout, bind, M.bind', M.assert_apply, hs, hm, hne, hne2, hw, hk, h23, h76, h7,
      disconnect_plain_eval env _ c hd isDisc_broken,
      disconnect_plain_eval env _ c hd isDisc_wconn, discTail, discReset]

/-! ### nothing but the dispatcher delivers -/

def notDeliver : Effect → Bool
  | .deliver _ => false
  | _ => true

def RND (_ _ : Conn) (e : List Effect) : Prop := e.all notDeliver = true

instance : Compositional RND where
  refl := fun _ => rfl
  trans := by
    intro c c1 c2 e1 e2 h1 h2
    show (e1 ++ e2).all notDeliver = true
    rw [List.all_append, h1, h2]; rfl

theorem plain_notDeliver {e : List Effect} (h : e.all plainUp = true) : e.all notDeliver = true := by
  induction e with
  | nil => rfl
  | cons x xs ih =>
    simp only [List.all_cons, Bool.and_eq_true] at h ⊢
    exact ⟨by cases x <;> simp_all [plainUp, notDeliver], ih h.2⟩

theorem RPlain.toND {α : Type} {x : M α} (h : M.Rel RPlain x) : M.Rel RND x :=
  ⟨fun c => plain_notDeliver (h.out c).2⟩

theorem RND.modify (f : Conn → Conn) : M.Rel RND (M.modify f) := ⟨fun _ => rfl⟩
theorem RND.emit {e : Effect} (h : notDeliver e = true := by rfl) : M.Rel RND (M.emit e) :=
  ⟨fun _ => by show [e].all notDeliver = true; simp [h]⟩

section
attribute [local irreducible] M.bind' M.pure' M.throw M.tryCatch M.get M.modify M.emit M.liftE
  M.assert M.int

theorem stateSet_ND (s : Nat) : M.Rel RND (stateSet s) := by
  unfold stateSet
  rel_tac [RND.modify, RND.emit]

theorem disconnect_ND (env : Env) (d : Nat) (lo : Option String) : M.Rel RND (disconnect env d lo) := by
  unfold disconnect
  rel_tac [RND.modify, RND.emit, stateSet_ND, RPlain.toND (sendMsg_plain _ _)]

theorem processLogon_ND (env : Env) (m : Msg) : M.Rel RND (processLogon env m) := by
  unfold processLogon
  rel_tac [RND.modify, RND.emit, stateSet_ND, disconnect_ND, RPlain.toND (sendMsg_plain _ _)]

theorem processLogout_ND (env : Env) (m : Msg) : M.Rel RND (processLogout env m) := by
  unfold processLogout
  rel_tac [RND.modify, RND.emit, disconnect_ND]

theorem processHead_ND (env : Env) (m : Msg) : M.Rel RND (processHead env m) := by
  unfold processHead
  rel_tac [RND.modify, RND.emit, stateSet_ND, disconnect_ND, processLogon_ND, processLogout_ND,
    RPlain.toND (processSeqreset_plain _), RPlain.toND (checkSeqnumGaps_plain _ _)]

theorem swallow_ND {α : Type} (d : α) {x : M α} (h : M.Rel RND x) : M.Rel RND (swallow d x) := by
  unfold swallow
  rel_tac [RND.emit, h]
end

/-- with a Logon the dispatcher does nothing -/
theorem processDispatch_logon (env : Env) (sr : Msg → Bool) (m : Msg) (v : Bool) (n : Int)
    (hm : m.mtype = mLogon) (c : Conn) : processDispatch env sr m v n c = ⟨.ok (), c, []⟩ := by
  have h1 : mLogon ≠ mResendRequest := by decide
  have h2 : mLogon ≠ mSequenceReset := by decide
  simp [processDispatch, hm, h1, h2]

theorem processDispatch_logon' (env : Env) (sr : Msg → Bool) (m : Msg) (v : Bool) (n : Int)
    (hm : m.mtype = mLogon) : processDispatch env sr m v n = (pure () : M Unit) := by
  funext c; exact processDispatch_logon env sr m v n hm c

theorem swallow_ok {α : Type} {d : α} {x : M α} {c c1 : Conn} {a : α} {e1 : List Effect}
    (h : swallow d x c = ⟨.ok a, c1, e1⟩) : (x c).res = .ok a ∨ a = d := by
  unfold swallow at h
  rcases hx : x c with ⟨r, c2, e2⟩
  cases r with
  | ok b => rw [M.tryCatch_ok hx] at h; simp at h; exact Or.inl (by rw [h.1])
  | error ex =>
    rw [M.tryCatch_err hx] at h
    simp [bind, M.bind'] at h
    exact Or.inr h.1.symm

/-- before a Logon has been received, `processHead` hands a frame on to the dispatcher only if it is a
Logon -/
theorem processHead_some_prelogon (env : Env) (m : Msg) (c : Conn)
    (hs : c.state = st_NETWORK_CONN_ESTABLISHED ∨ c.state = st_LOGON_INITIAL_SENT) (p : Bool × Int)
    (h : (processHead env m c).res = .ok (some p)) : m.mtype = mLogon := by
  apply Classical.byContradiction
  intro hm
  rcases hs with hs | hs
  · rw [processHead_first_not_logon env m c hs hm] at h; cases h
  · by_cases hl : m.mtype = mLogout
    · rw [processHead_initiator_logout env m c hs hl] at h; cases h
    · rw [processHead_initiator_not_logon env m c hs hm hl] at h; cases h

/-- **no delivery before the Logon exchange**: in NETWORK_CONN_ESTABLISHED and in LOGON_INITIAL_SENT no
inbound frame, whatever it is, reaches `on_message` -/
theorem processMessage_prelogon_ND (env : Env) (sr : Msg → Bool) (m : Msg) (c : Conn)
    (hs : c.state = st_NETWORK_CONN_ESTABLISHED ∨ c.state = st_LOGON_INITIAL_SENT) :
    (processMessage env sr m c).eff.all notDeliver = true := by
  unfold processMessage
  have hv := validateIntegrity_eq m c
  cases hi : integrityOf c m with
  | error ex => rw [hi] at hv; rw [M.bind_err hv]; rfl
  | ok integ =>
    rw [hi] at hv; rw [M.bind_ok hv]
    simp only [List.nil_append]
    cases integ with
    | critical => exact (disconnect_ND env _ none).out c
    | reason t => exact (disconnect_ND env _ (some t)).out c
    | good =>
      simp only []
      have hnd := (swallow_ND none (processHead_ND env m)).out c
      rcases hsw : swallow none (processHead env m) c with ⟨r, c1, e1⟩
      rw [hsw] at hnd
      have hnd' : e1.all notDeliver = true := hnd
      clear hnd
      cases r with
      | error ex => rw [M.bind_err hsw]; exact hnd'
      | ok head =>
        rw [M.bind_ok hsw]
        cases head with
        | none => simpa using hnd'
        | some p =>
          obtain ⟨v, n⟩ := p
          have hm : m.mtype = mLogon := by
            rcases swallow_ok hsw with h | h
            · exact processHead_some_prelogon env m c hs (v, n) h
            · cases h
          simp only [processDispatch_logon' env sr m v n hm]
          have hrest : M.Rel RND (do
              swallow () (pure () : M Unit)
              if v then finalizeMessage env m else pure ()) := by
            have := RPlain.toND (finalizeMessage_plain env m)
            have h2 : M.Rel RND (swallow () (pure () : M Unit)) := swallow_ND () (M.Rel.pure ())
            exact M.Rel.bind h2 (fun _ => M.Rel.ite this (M.Rel.pure ()))
          show (e1 ++ _).all notDeliver = true
          rw [List.all_append, hnd']
          exact hrest.out c1

end AsyncFix.Session
