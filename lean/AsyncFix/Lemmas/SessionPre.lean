import AsyncFix.Lemmas.SessionStep
namespace AsyncFix.Session
end AsyncFix.Session
