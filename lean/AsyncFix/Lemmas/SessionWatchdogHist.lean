import AsyncFix.Lemmas.SessionWatchdogInbound

/-!
C12 helper lemmas, part 4: histories.  Tick sequences with bounded gaps (`Spaced`), the two phases of
dead-peer detection (first idle tick, expiry tick), and the summary of a benign inbound frame.
-/
namespace AsyncFix.Session.Watchdog

open AsyncFix.Generated AsyncFix.Generated.ConnEnum

/-- logged on, transport up, heartbeat interval `h` seconds -/
structure Up (h : Int) (c : Conn) : Prop where
  active : c.state = st_ACTIVE
  sock : c.sock = true
  hb : c.hb = h

/-! ### running histories -/

theorem run_cons (sr : Msg → Bool) (c : Conn) (ev : Event) (rest : List Event) :
    run sr c (ev :: rest) =
      ((run sr (step sr c ev).1 rest).1, (step sr c ev).2 ++ (run sr (step sr c ev).1 rest).2) := by
  simp [run]

theorem run_append (sr : Msg → Bool) (c : Conn) (a b : List Event) :
    run sr c (a ++ b) =
      ((run sr (run sr c a).1 b).1, (run sr c a).2 ++ (run sr (run sr c a).1 b).2) := by
  induction a generalizing c with
  | nil => simp [run]
  | cons ev r ih => simp [run_cons, ih, List.append_assoc]

/-- a watchdog history made of ticks only -/
def ticks (envs : List Env) : List Event := envs.map Event.tick

theorem ticks_append (a b : List Env) : ticks (a ++ b) = ticks a ++ ticks b := by simp [ticks]

theorem run_ticks_cons_silent (sr : Msg → Bool) {c c1 c2 : Conn} {e : Env} {r : List Env} {es : List Effect}
    (h1 : tick e c = (c1, [])) (h2 : run sr c1 (ticks r) = (c2, es)) :
    run sr c (ticks (e :: r)) = (c2, es) := by
  show run sr c (Event.tick e :: ticks r) = _
  rw [run_cons]
  show ((run sr (tick e c).1 (ticks r)).1, (tick e c).2 ++ (run sr (tick e c).1 (ticks r)).2) = _
  rw [h1]
  simp [h2]

theorem run_ticks_nosock (sr : Msg → Bool) (c : Conn) (envs : List Env) (hs : c.sock = false) :
    run sr c (ticks envs) = (c, []) := by
  induction envs with
  | nil => rfl
  | cons e r ih =>
    exact run_ticks_cons_silent sr (tick_nosock e c hs) ih

/-- consecutive ticks are in time order and at most `δ` ms apart; `p` = the previous tick
(or the moment the observation starts) -/
def Spaced (δ : Int) : Int → List Env → Prop
  | _, [] => True
  | p, e :: r => p ≤ e.now ∧ e.now ≤ p + δ ∧ Spaced δ e.now r

theorem Spaced.tail {δ p : Int} {pre : List Env} {e : Env} {post : List Env}
    (h : Spaced δ p (pre ++ e :: post)) : Spaced δ e.now post := by
  induction pre generalizing p with
  | nil => exact h.2.2
  | cons x r ih => exact ih h.2.2

/-! ### phase 1: the first tick beyond the idle threshold -/

theorem first_idle_tick (sr : Msg → Bool) (h δ : Int) (c : Conn) (hu : Up h c) (hh : 1 ≤ h)
    (hn : c.testReqId = none) (p : Int) (envs : List Env) (hsp : Spaced δ p envs)
    (hp : p - c.lastTime ≤ (h - 1) * 1000)
    (hex : ∃ e ∈ envs, (h - 1) * 1000 < e.now - c.lastTime) :
    ∃ pre e post, envs = pre ++ e :: post ∧ run sr c (ticks pre) = (c, []) ∧
      (∀ x ∈ pre, x.now - c.lastTime ≤ (h - 1) * 1000) ∧
      (h - 1) * 1000 < e.now - c.lastTime ∧ e.now ≤ c.lastTime + (h - 1) * 1000 + δ := by
  induction envs generalizing p with
  | nil => obtain ⟨e, he, _⟩ := hex; cases he
  | cons e r ih =>
    obtain ⟨h1, h2, h3⟩ := hsp
    by_cases hidle : (h - 1) * 1000 < e.now - c.lastTime
    · exact ⟨[], e, r, rfl, rfl, (by intro x hx; cases hx), hidle, (by omega)⟩
    · have hq : tick e c = (c, []) :=
        tick_none_quiet e c hu.sock hu.active hn (by rw [hu.hb]; exact hh) (by rw [hu.hb]; omega)
      have hex' : ∃ e' ∈ r, (h - 1) * 1000 < e'.now - c.lastTime := by
        obtain ⟨e', he', hb⟩ := hex
        rcases List.mem_cons.mp he' with rfl | hm
        · exact absurd hb hidle
        · exact ⟨e', hm, hb⟩
      obtain ⟨pre, e1, post, hsplit, hrun, hpre, hb1, hb2⟩ := ih e.now h3 (by omega) hex'
      refine ⟨e :: pre, e1, post, (by rw [hsplit]; rfl), run_ticks_cons_silent sr hq hrun, ?_, hb1, hb2⟩
      · intro x hx
        rcases List.mem_cons.mp hx with rfl | hm
        · omega
        · exact hpre x hm

/-! ### phase 2: a TestRequest is outstanding and nothing arrives -/

/-- logged on with TestReqID `id` outstanding -/
structure Armed (h id : Int) (c : Conn) : Prop extends Up h c where
  tid : c.testReqId = some id

/-- After fix e3d9663 silent ticks no longer touch `lastTime` while an id is outstanding, and the connection
is dropped by the first tick more than `2·h·1000` ms after `lastTime` (= the later of the last inbound frame
and the moment the TestRequest went out). -/
theorem expiry_tick (sr : Msg → Bool) (h δ id : Int) (h0 : id ≠ 0) (c : Conn)
    (ha : Armed h id c) (hL : c.lastTime ≠ 0) (p : Int) (envs : List Env) (hsp : Spaced δ p envs)
    (hex : ∃ e ∈ envs, c.lastTime + h * 2 * 1000 < e.now) :
    ∃ pre e post, envs = pre ++ e :: post ∧ run sr c (ticks pre) = (c, []) ∧
      tick e c = (dropped c, dropEff) ∧
      c.lastTime + h * 2 * 1000 < e.now ∧ (e.now ≤ p + δ ∨ e.now ≤ c.lastTime + h * 2 * 1000 + δ) := by
  induction envs generalizing p with
  | nil => obtain ⟨e, he, _⟩ := hex; cases he
  | cons e r ih =>
    obtain ⟨h1, h2, h3⟩ := hsp
    have ht := tick_outstanding e c id ha.sock ha.active ha.tid h0
    have hb := ha.hb
    by_cases hx : c.hb * 2 * 1000 < e.now - c.lastTime
    · rw [if_pos ⟨hx, Or.inl hL⟩] at ht
      exact ⟨[], e, r, rfl, rfl, ht, (by omega), Or.inl h2⟩
    · rw [if_neg (fun hc => hx hc.1)] at ht
      have hex' : ∃ e' ∈ r, c.lastTime + h * 2 * 1000 < e'.now := by
        obtain ⟨e', he', hb'⟩ := hex
        rcases List.mem_cons.mp he' with rfl | hm
        · exact absurd (by omega) hx
        · exact ⟨e', hm, hb'⟩
      obtain ⟨pre, e1, post, hsplit, hrun, htick, hb1, hb2⟩ := ih e.now h3 hex'
      exact ⟨e :: pre, e1, post, (by rw [hsplit]; rfl), run_ticks_cons_silent sr ht hrun, htick, hb1,
        Or.inr (by omega)⟩

end AsyncFix.Session.Watchdog
