import AsyncFix.Model.Session

/-!
Sched family, Python-level fact used by C14: `int(str(n)) == n` (the number a frame carries in tag 34
is the number it was encoded with).  The proof follows the one in the C05 family's
`Lemmas/SessionOutBase.lean` (kept separate, under different names, so that the two families build
independently).
-/
namespace AsyncFix.Sched

open AsyncFix.Session

theorem asciiDigit_of_isDigit {c : Char} (h : c.isDigit = true) : isAsciiDigit c = true := by
  simp only [Char.isDigit, Bool.and_eq_true, decide_eq_true_eq] at h
  have h1 : 48 ≤ c.toNat := by
    have := h.1; simp only [UInt32.le_iff_toNat_le] at this; simpa using this
  have h2 : c.toNat ≤ 57 := by
    have := h.2; simp only [UInt32.le_iff_toNat_le] at this; simpa using this
  simp [isAsciiDigit, h1, h2]

theorem toDigits_ascii (n : Nat) : ∀ c ∈ Nat.toDigits 10 n, isAsciiDigit c = true := fun _ hc =>
  asciiDigit_of_isDigit (Nat.isDigit_of_mem_toDigits (by decide) (by decide) hc)

theorem pyDigits_of_digits (cs : List Char) (h : ∀ c ∈ cs, isAsciiDigit c = true) (acc : Nat) (prev : Bool)
    (hne : cs ≠ [] ∨ prev = true) : pyDigits acc prev cs = some (Nat.ofDigitChars 10 cs acc) := by
  induction cs generalizing acc prev with
  | nil =>
    cases hne with
    | inl h => exact absurd rfl h
    | inr h => simp [pyDigits, h]
  | cons c r ih =>
    have hc := h c (by simp)
    rw [pyDigits, if_pos hc, ih (fun d hd => h d (by simp [hd])) _ true (Or.inr rfl),
      Nat.ofDigitChars_cons]
    simp [Nat.mul_comm]

theorem notWs_of_digit {c : Char} (h : isAsciiDigit c = true) : isPyWs c = false := by
  simp only [isAsciiDigit, Bool.and_eq_true, decide_eq_true_eq] at h
  have hne : c ≠ ' ' := by
    intro e; subst e; revert h; decide
  simp only [isPyWs, Bool.or_eq_false_iff, decide_eq_false_iff_not, Bool.and_eq_false_iff]
  refine ⟨hne, Or.inr ?_⟩
  omega

theorem dropWhile_ws_of_digits (cs : List Char) (h : ∀ c ∈ cs, isAsciiDigit c = true) :
    cs.dropWhile isPyWs = cs := by
  cases cs with
  | nil => rfl
  | cons c r => simp [List.dropWhile, notWs_of_digit (h c (by simp))]

theorem stripWs_of_digits (cs : List Char) (h : ∀ c ∈ cs, isAsciiDigit c = true) : stripWs cs = cs := by
  unfold stripWs
  rw [dropWhile_ws_of_digits cs h, dropWhile_ws_of_digits cs.reverse (fun c hc => h c (by simpa using hc))]
  simp

theorem stripWs_minus (cs : List Char) (h : ∀ c ∈ cs, isAsciiDigit c = true) (hne : cs ≠ []) :
    stripWs ('-' :: cs) = '-' :: cs := by
  unfold stripWs
  have h1 : ('-' :: cs).dropWhile isPyWs = '-' :: cs := by
    simp [List.dropWhile, isPyWs]
  rw [h1]
  have h2 : ('-' :: cs).reverse = cs.reverse ++ ['-'] := by simp
  rw [h2]
  obtain ⟨d, r, hr⟩ : ∃ d r, cs.reverse = d :: r := by
    cases hcs : cs.reverse with
    | nil => simp at hcs; exact absurd hcs hne
    | cons d r => exact ⟨d, r, rfl⟩
  have hd : isAsciiDigit d = true := h d (by
    have : d ∈ cs.reverse := by rw [hr]; simp
    simpa using this)
  rw [hr]
  simp only [List.cons_append, List.dropWhile, notWs_of_digit hd]
  rw [← List.cons_append, ← hr]
  simp

theorem pyIntChars_of_digits (cs : List Char) (h : ∀ c ∈ cs, isAsciiDigit c = true) (hne : cs ≠ []) :
    pyIntChars cs = some ((Nat.ofDigitChars 10 cs 0 : Nat) : Int) := by
  unfold pyIntChars
  rw [stripWs_of_digits cs h]
  have key := pyDigits_of_digits cs h 0 false (Or.inl hne)
  split
  · have hc := h '-' (by simp)
    exact absurd hc (by decide)
  · have hc := h '+' (by simp)
    exact absurd hc (by decide)
  · rw [key]; rfl

theorem pyIntChars_of_minus_digits (cs : List Char) (h : ∀ c ∈ cs, isAsciiDigit c = true) (hne : cs ≠ []) :
    pyIntChars ('-' :: cs) = some (- ((Nat.ofDigitChars 10 cs 0 : Nat) : Int)) := by
  unfold pyIntChars
  rw [stripWs_minus cs h hne]
  simp only
  rw [pyDigits_of_digits cs h 0 false (Or.inl hne)]
  rfl

/-- `int(str(n)) == n` for every Python int -/
theorem int_str_roundtrip (n : Int) : pyInt (pyStr n) = some n := by
  unfold pyInt pyStr
  rw [Int.toString_eq_repr, Int.repr_eq_if]
  by_cases h0 : 0 ≤ n
  · rw [if_pos h0, Nat.toList_repr, pyIntChars_of_digits _ (toDigits_ascii _) Nat.toDigits_ne_nil,
      Nat.ofDigitChars_ten_toDigits]
    simp [Int.toNat_of_nonneg h0]
  · rw [if_neg h0]
    have hl : ("-" ++ (-n).toNat.repr).toList = '-' :: Nat.toDigits 10 (-n).toNat := by
      simp [String.toList_append]
    rw [hl, pyIntChars_of_minus_digits _ (toDigits_ascii _) Nat.toDigits_ne_nil,
      Nat.ofDigitChars_ten_toDigits]
    congr 1
    have : ((-n).toNat : Int) = -n := Int.toNat_of_nonneg (by omega)
    omega

end AsyncFix.Sched
