/-
Injectivity of `FIXContainer.__str__` on safe containers (see ContainerRender.lean for the idea).
-/
import AsyncFix.Lemmas.ContainerRender
namespace AsyncFix.Model.Container
open AsyncFix.Py

/-! ### the safe fragment -/

/-- a string value without `|` `,` `[` `]` -/
def strOk (s : Str) : Bool := s.all fun c => !(c == 124 || c == 44 || c == 91 || c == 93)

/-- a tag without `=` `|` `,` `[` `]` `>` (every tag accepted by `set()` is one: `intLike_no_special`) -/
def tagOk (t : Str) : Bool := t.all fun c => !isSpecial c

mutual
/-- no class objects, only `strOk` strings and `tagOk` tags, recursively -/
def Val.safe : Val → Bool
  | .str s => strOk s
  | .cls _ => false
  | .group items => safeItems items
def safeItems : List (List (Str × Val)) → Bool
  | [] => true
  | g :: gs => safeFields g && safeItems gs
def safeFields : List (Str × Val) → Bool
  | [] => true
  | (t, v) :: rest => tagOk t && v.safe && safeFields rest
end

/-- the decidable hypothesis of `eq_iff_same_content_partial` -/
def Cont.safe (c : Cont) : Bool := safeFields c

/-! ### shape of the rendering -/

def itemsText (gs : List Cont) : Str := joinSep [44, 32] (renderItems gs)

def barTail : Cont → Str
  | [] => []
  | p :: r => 124 :: render (p :: r)

def commaTail : List Cont → Str
  | [] => []
  | g :: gs => 44 :: 32 :: itemsText (g :: gs)

theorem render_nil : render [] = [] := by simp [render, renderFields, joinSep]

theorem render_cons (t : Str) (v : Val) (r : Cont) :
    render ((t, v) :: r) = (t ++ 61 :: v.render) ++ barTail r := by
  cases r with
  | nil => simp [render, renderFields, joinSep, barTail]
  | cons p r' =>
    obtain ⟨t', v'⟩ := p
    simp [render, renderFields, joinSep, barTail]

theorem itemsText_nil : itemsText [] = [] := by simp [itemsText, renderItems, joinSep]

theorem itemsText_cons (g : Cont) (gs : List Cont) : itemsText (g :: gs) = render g ++ commaTail gs := by
  cases gs with
  | nil => simp [itemsText, renderItems, joinSep, commaTail, render]
  | cons g' gs' => simp [itemsText, renderItems, joinSep, commaTail, render]

theorem render_group (gs : List Cont) :
    (Val.group gs).render = natDigits gs.length ++ 61 :: 62 :: 91 :: (itemsText gs ++ [93]) := by
  simp [Val.render, itemsText]

theorem term_barTail (r : Cont) : Term isBar (barTail r) := by
  cases r with
  | nil => exact Or.inl rfl
  | cons p r' => exact Or.inr ⟨124, _, rfl, Or.inl (by decide)⟩

theorem term_commaTail (gs : List Cont) : Term isComma (commaTail gs) := by
  cases gs with
  | nil => exact Or.inl rfl
  | cons p r' => exact Or.inr ⟨44, _, rfl, Or.inl (by decide)⟩

/-! ### characters -/

theorem tagOk_mem (t : Str) (h : tagOk t = true) (c : Nat) (hc : c ∈ t) : isSpecial c = false := by
  simp only [tagOk, List.all_eq_true] at h
  simpa using h c hc

theorem special_cases (c : Nat) (h : isSpecial c = false) :
    c ≠ 61 ∧ c ≠ 124 ∧ c ≠ 44 ∧ c ≠ 91 ∧ c ≠ 93 ∧ c ≠ 62 := by
  simp only [isSpecial, Bool.or_eq_false_iff, beq_eq_false_iff_ne] at h
  omega

theorem strOk_mem (s : Str) (h : strOk s = true) (c : Nat) (hc : c ∈ s) :
    c ≠ 124 ∧ c ≠ 44 ∧ c ≠ 91 ∧ c ≠ 93 := by
  simp only [strOk, List.all_eq_true] at h
  have := h c hc
  simp only [Bool.not_eq_true', Bool.or_eq_false_iff, beq_eq_false_iff_ne] at this
  omega

theorem scan_tag (stop : Nat → Bool) (hstop : ∀ c, stop c = true → isSpecial c = true) (t : Str)
    (h : tagOk t = true) (d : Nat) : scan stop d t = some d := by
  apply scan_plain
  intro c hc
  have hs := tagOk_mem t h c hc
  obtain ⟨_, _, _, h91, h93, _⟩ := special_cases c hs
  refine ⟨h91, h93, ?_⟩
  cases hst : stop c with
  | false => rfl
  | true => rw [hstop c hst] at hs; exact absurd hs (by decide)

theorem scan_str (s : Str) (h : strOk s = true) (d : Nat) : scan isBarComma d s = some d := by
  apply scan_plain
  intro c hc
  obtain ⟨h1, h2, h3, h4⟩ := strOk_mem s h c hc
  refine ⟨h3, h4, ?_⟩
  simp [isBarComma, h1, h2]

theorem natDigits_plain (n : Nat) (c : Nat) (hc : c ∈ natDigits n) : 48 ≤ c ∧ c ≤ 57 := by
  have := natDigits_isDigit n c hc
  simpa [isDigit] using this

theorem scan_digits (stop : Nat → Bool) (hstop : ∀ c, stop c = true → isSpecial c = true) (n d : Nat) :
    scan stop d (natDigits n) = some d := by
  apply scan_plain
  intro c hc
  obtain ⟨h1, h2⟩ := natDigits_plain n c hc
  refine ⟨by omega, by omega, ?_⟩
  cases hst : stop c with
  | false => rfl
  | true =>
    have := hstop c hst
    simp only [isSpecial, Bool.or_eq_true, beq_iff_eq] at this
    omega

theorem isBarComma_special (c : Nat) (h : isBarComma c = true) : isSpecial c = true := by
  simp only [isBarComma, Bool.or_eq_true, beq_iff_eq] at h
  simp only [isSpecial, Bool.or_eq_true, beq_iff_eq]
  omega

/-! ### rendered safe values are balanced and have no top-level `|` / `,` -/

mutual
theorem scan_val (v : Val) (h : v.safe = true) : scan isBarComma 0 v.render = some 0 := by
  match v with
  | .str s => exact scan_str s (by simpa [Val.safe] using h) 0
  | .cls _ => simp [Val.safe] at h
  | .group gs =>
    have hb := bal_items gs (by simpa [Val.safe] using h)
    have hd := scan_deeper isBarComma _ _ _ hb
    rw [render_group, scan_append, scan_digits isBarComma isBarComma_special]
    simp only [Option.bind_some]
    have e1 : scan isBarComma 0 (61 :: 62 :: 91 :: (itemsText gs ++ [93]))
        = scan isBarComma 1 (itemsText gs ++ [93]) := by
      simp [scan, isBarComma]
    rw [e1, scan_append, hd]
    simp [scan]
theorem bal_items (gs : List (List (Str × Val))) (h : safeItems gs = true) :
    scan noStop 0 (itemsText gs) = some 0 := by
  match gs with
  | [] => simp [itemsText_nil, scan]
  | g :: rest =>
    simp only [safeItems, Bool.and_eq_true] at h
    have h1 := scan_mono isComma noStop (by simp [noStop]) _ _ _ (scan_fields g h.1)
    rw [itemsText_cons, scan_append, h1]
    simp only [Option.bind_some]
    match rest with
    | [] => simp [commaTail, scan]
    | g' :: rest' =>
      have h2 := bal_items (g' :: rest') h.2
      simp only [commaTail]
      have e : scan noStop 0 (44 :: 32 :: itemsText (g' :: rest')) = scan noStop 0 (itemsText (g' :: rest')) := by
        simp [scan, noStop]
      rw [e, h2]
theorem scan_fields (c : List (Str × Val)) (h : safeFields c = true) :
    scan isComma 0 (render c) = some 0 := by
  match c with
  | [] => simp [render_nil, scan]
  | (t, v) :: rest =>
    simp only [safeFields, Bool.and_eq_true] at h
    obtain ⟨⟨ht, hv⟩, hr⟩ := h
    have hv' := scan_mono isBarComma isComma (by intro c hc; simp only [isComma, beq_iff_eq] at hc; subst hc; decide) _ _ _
      (scan_val v hv)
    have htag := scan_tag isComma (by
      intro c hc
      simp only [isComma, beq_iff_eq] at hc
      subst hc; decide) t ht 0
    rw [render_cons, scan_append, scan_append, htag]
    simp only [Option.bind_some]
    have e : scan isComma 0 (61 :: v.render) = scan isComma 0 v.render := by simp [scan, isComma]
    rw [e, hv']
    simp only [Option.bind_some]
    match rest with
    | [] => simp [barTail, scan]
    | p :: rest' =>
      have h2 := scan_fields (p :: rest') hr
      simp only [barTail]
      have e2 : scan isComma 0 (124 :: render (p :: rest')) = scan isComma 0 (render (p :: rest')) := by
        simp [scan, isComma]
      rw [e2, h2]
end

/-- a rendered field `tag=value` is balanced and has no top-level `|` or `,` -/
theorem scan_field (t : Str) (v : Val) (ht : tagOk t = true) (hv : v.safe = true) :
    scan isBarComma 0 (t ++ 61 :: v.render) = some 0 := by
  rw [scan_append, scan_tag isBarComma isBarComma_special t ht 0]
  simp only [Option.bind_some]
  have e : scan isBarComma 0 (61 :: v.render) = scan isBarComma 0 v.render := by simp [scan, isBarComma]
  rw [e, scan_val v hv]

end AsyncFix.Model.Container
