/-
int(): what CPython's `int()` (model `pyInt`) does on the strings of the FIX int lexical space
`-?[0-9]+`, and the resulting characterisations of the INT / SEQNUM / NUMINGROUP / DAYOFMONTH validators.
-/
import AsyncFix.Model.Lexical
import AsyncFix.Model.LexSpec
import AsyncFix.Model.LexClass
namespace AsyncFix.Lemmas.LexInt
open AsyncFix.Py AsyncFix.Model AsyncFix.Model.Lexical AsyncFix.Model.LexClass

theorem digit_iff {a : Nat} : isAsciiDigit a = true ↔ 48 ≤ a ∧ a ≤ 57 := by
  simp [isAsciiDigit]

theorem xform_digit {c : Nat} (h : isAsciiDigit c = true) : xform c = c := by
  have := digit_iff.1 h
  simp [xform]; omega

theorem map_xform_digits {ds : Str} (h : ds.all isAsciiDigit = true) : ds.map xform = ds := by
  induction ds with
  | nil => rfl
  | cons c cs ih =>
    simp only [List.all_cons, Bool.and_eq_true] at h
    simp [xform_digit h.1, ih h.2]

theorem not_space_digit {c : Nat} (h : isAsciiDigit c = true) : isAsciiSpace c = false := by
  have := digit_iff.1 h
  simp [isAsciiSpace]; omega

theorem scanDigits_digits {ds : Str} (h : ds.all isAsciiDigit = true) :
    ∀ prev, prev ≠ 95 → scanDigits prev ds = some (ds.map (· - 48), []) := by
  induction ds with
  | nil => intro prev hp; simp [scanDigits, hp]
  | cons c cs ih =>
    intro prev hp
    simp only [List.all_cons, Bool.and_eq_true] at h
    have hc := digit_iff.1 h.1
    have hc95 : c ≠ 95 := by omega
    simp [scanDigits, hc95, h.1, ih h.2 c hc95]

/-- spec digits (LexSpec) are the model's ASCII digits -/
theorem spec_digits_iff {s : Str} : LexSpec.digits s = true ↔ s ≠ [] ∧ s.all isAsciiDigit = true := by
  unfold LexSpec.digits
  have : LexSpec.digit = isAsciiDigit := rfl
  rw [this]
  cases s <;> simp

theorem value_eq_decVal (s : Str) (acc : Nat) :
    LexSpec.value s acc = (s.map (· - 48)).foldl (fun a d => 10 * a + d) acc := by
  induction s generalizing acc with
  | nil => rfl
  | cons c cs ih => simp [LexSpec.value, ih]

theorem spec_value (s : Str) : LexSpec.value s 0 = decVal (s.map (· - 48)) := value_eq_decVal s 0

/-- `int()` on one or more ASCII digits -/
theorem pyInt_digits (m : Nat) {ds : Str} (hne : ds ≠ []) (h : ds.all isAsciiDigit = true) :
    pyInt m ds = if digitLimitOk m ds.length then some (decVal (ds.map (· - 48)) : Int) else none := by
  unfold pyInt
  rw [map_xform_digits h]
  obtain ⟨c, cs, rfl⟩ := List.exists_cons_of_ne_nil hne
  have hc : isAsciiDigit c = true := by
    simp only [List.all_cons, Bool.and_eq_true] at h; exact h.1
  have hcr := digit_iff.1 hc
  have e1 : (c :: cs).dropWhile isAsciiSpace = c :: cs := by
    simp [List.dropWhile, not_space_digit hc]
  have e2 : stripSign (c :: cs) = c :: cs := by
    unfold stripSign
    split
    · rename_i heq; injection heq with h1 _; omega
    · rename_i heq; injection heq with h1 _; omega
    · rfl
  unfold pyIntAscii
  simp only [e1, e2, scanDigits_digits h 0 (by decide)]
  have h45 : ¬ c = 45 := by omega
  have h95 : ¬ c = 95 := by omega
  simp [h45, h95, digitLimitOk]
  split <;> split <;> first | rfl | (exfalso; omega)

/-- `int()` on '-' followed by one or more ASCII digits -/
theorem pyInt_neg_digits (m : Nat) {ds : Str} (hne : ds ≠ []) (h : ds.all isAsciiDigit = true) :
    pyInt m (45 :: ds) =
      if digitLimitOk m ds.length then some (- (decVal (ds.map (· - 48)) : Int)) else none := by
  unfold pyInt
  have hx : xform 45 = 45 := by simp [xform]
  rw [List.map_cons, hx, map_xform_digits h]
  obtain ⟨c, cs, rfl⟩ := List.exists_cons_of_ne_nil hne
  have hc : isAsciiDigit c = true := by
    simp only [List.all_cons, Bool.and_eq_true] at h; exact h.1
  have hcr := digit_iff.1 hc
  have e1 : (45 :: c :: cs).dropWhile isAsciiSpace = 45 :: c :: cs := by
    simp [List.dropWhile, isAsciiSpace]
  have e2 : stripSign (45 :: c :: cs) = c :: cs := rfl
  unfold pyIntAscii
  simp only [e1, e2, scanDigits_digits h 0 (by decide)]
  have h95 : ¬ c = 95 := by omega
  simp [h95, digitLimitOk]
  split <;> split <;> first | rfl | (exfalso; omega)

theorem reInt_eq (s : Str) : reIntLexical s = LexSpec.isInt s := by
  unfold reIntLexical LexSpec.isInt
  split
  · rfl
  · rename_i hne
    split
    · rename_i r; exact absurd rfl (hne r)
    · rfl

/-- the two forms of the int lexical space -/
theorem isInt_cases {s : Str} : LexSpec.isInt s = true ↔
    (∃ ds, s = 45 :: ds ∧ ds ≠ [] ∧ ds.all isAsciiDigit = true) ∨ (s ≠ [] ∧ s.all isAsciiDigit = true) := by
  unfold LexSpec.isInt
  split
  · rename_i r
    rw [spec_digits_iff]
    constructor
    · rintro ⟨a, b⟩; exact Or.inl ⟨r, rfl, a, b⟩
    · rintro (⟨ds, he, a, b⟩ | ⟨-, b⟩)
      · injection he with _ he; subst he; exact ⟨a, b⟩
      · simp [isAsciiDigit] at b
  · rename_i hne
    rw [spec_digits_iff]
    constructor
    · intro h; exact Or.inr h
    · rintro (⟨ds, rfl, -, -⟩ | h)
      · exact absurd rfl (hne ds)
      · exact h

/-- `int()` of a member of the int lexical space: the value, unless the digit limit is exceeded -/
def specIntVal : Str → Int
  | 45 :: r => - (LexSpec.value r 0 : Int)
  | s => (LexSpec.value s 0 : Int)

theorem pyInt_of_isInt (cfg : Cfg) {s : Str} (h : LexSpec.isInt s = true) :
    pyInt cfg.maxStrDigits s = if overDigitLimit cfg s = false then some (specIntVal s) else none := by
  rcases isInt_cases.1 h with ⟨ds, rfl, hne, hd⟩ | ⟨hne, hd⟩
  · rw [pyInt_neg_digits _ hne hd]
    simp [overDigitLimit, dropMinus, specIntVal, spec_value]
  · rw [pyInt_digits _ hne hd]
    obtain ⟨c, cs, rfl⟩ := List.exists_cons_of_ne_nil hne
    have hc : isAsciiDigit c = true := by
      simp only [List.all_cons, Bool.and_eq_true] at hd; exact hd.1
    have hcr := digit_iff.1 hc
    have h45 : c ≠ 45 := by omega
    have e1 : dropMinus (c :: cs) = c :: cs := by
      unfold dropMinus; split
      · rename_i heq; injection heq with h1 _; omega
      · rfl
    have e2 : specIntVal (c :: cs) = (LexSpec.value (c :: cs) 0 : Int) := by
      unfold specIntVal; split
      · rename_i heq; injection heq with h1 _; omega
      · rfl
    simp [overDigitLimit, e1, e2, spec_value]

/-- `_validate_value_number(value, int, …)` never raises on a non-empty value and passes iff … -/
theorem validateNumber_int_pass (cfg : Cfg) (nz nn : Bool) (range : Option (Int × Int)) (s : Str) :
    validateNumber cfg .int nz nn false range s = .pass ↔
      s ≠ [] ∧ ∃ v, pyInt cfg.maxStrDigits s = some v ∧ (nz = true → v ≠ 0) ∧ (nn = true → ¬ v < 0) ∧
        reIntLexical s = true ∧ (∀ lo hi, range = some (lo, hi) → lo ≤ v ∧ v ≤ hi) := by
  unfold validateNumber
  cases s with
  | nil => simp
  | cons c cs =>
    cases hp : pyInt cfg.maxStrDigits (c :: cs) with
    | none => simp
    | some v =>
      cases nz <;> cases nn <;> cases hl : reIntLexical (c :: cs) <;> rcases range with _ | ⟨lo, hi⟩ <;>
        simp <;> (repeat' split) <;> simp_all <;> omega

theorem specIntVal_digits {s : Str} (hne : s ≠ []) (hd : s.all isAsciiDigit = true) :
    specIntVal s = (LexSpec.value s 0 : Int) := by
  obtain ⟨c, cs, rfl⟩ := List.exists_cons_of_ne_nil hne
  have hc : isAsciiDigit c = true := by
    simp only [List.all_cons, Bool.and_eq_true] at hd; exact hd.1
  have hcr := digit_iff.1 hc
  unfold specIntVal; split
  · rename_i heq; injection heq with h1 _; omega
  · rfl

theorem isInt_ne_nil {s : Str} (h : LexSpec.isInt s = true) : s ≠ [] := by
  rintro rfl; simp [LexSpec.isInt, LexSpec.digits] at h

/-- what the int-type validators see: the value of a member of the int lexical space -/
theorem int_core (cfg : Cfg) (nz nn : Bool) (range : Option (Int × Int)) (s : Str) :
    validateNumber cfg .int nz nn false range s = .pass ↔
      LexSpec.isInt s = true ∧ overDigitLimit cfg s = false ∧ (nz = true → specIntVal s ≠ 0) ∧
        (nn = true → ¬ specIntVal s < 0) ∧ (∀ lo hi, range = some (lo, hi) → lo ≤ specIntVal s ∧ specIntVal s ≤ hi) := by
  rw [validateNumber_int_pass, reInt_eq]
  constructor
  · rintro ⟨-, v, hp, h1, h2, hl, h3⟩
    have := pyInt_of_isInt cfg hl
    rw [hp] at this
    cases ho : overDigitLimit cfg s
    · rw [ho] at this; simp at this; subst this
      exact ⟨hl, rfl, h1, h2, h3⟩
    · rw [ho] at this; simp at this
  · rintro ⟨hl, ho, h1, h2, h3⟩
    refine ⟨isInt_ne_nil hl, specIntVal s, ?_, h1, h2, hl, h3⟩
    rw [pyInt_of_isInt cfg hl, ho]; rfl

/-- INT: accepted = `-?[0-9]+` within int()'s digit limit -/
theorem int_pass_iff (cfg : Cfg) (s : Str) :
    validateTyped cfg .int s = .pass ↔ LexSpec.isInt s = true ∧ overDigitLimit cfg s = false := by
  show validateNumber cfg .int false false false none s = .pass ↔ _
  rw [int_core]
  simp

/-- SEQNUM / NUMINGROUP: accepted = ASCII digits with a positive value, within the digit limit -/
theorem posInt_pass_iff (cfg : Cfg) (s : Str) :
    validateTyped cfg .posInt s = .pass ↔ LexSpec.isPositiveInt s = true ∧ overDigitLimit cfg s = false := by
  show validateNumber cfg .int true true false none s = .pass ↔ _
  rw [int_core]
  unfold LexSpec.isPositiveInt
  simp only [forall_const, reduceCtorEq, false_implies, and_true, Bool.and_eq_true,
    decide_eq_true_eq]
  constructor
  · rintro ⟨hl, ho, h1, h2⟩
    rcases isInt_cases.1 hl with ⟨ds, rfl, hne, hd⟩ | ⟨hne, hd⟩
    · exfalso
      have : specIntVal (45 :: ds) = - (LexSpec.value ds 0 : Int) := rfl
      rw [this] at h1 h2
      omega
    · rw [specIntVal_digits hne hd] at h1 h2
      exact ⟨⟨spec_digits_iff.2 ⟨hne, hd⟩, by omega⟩, ho⟩
  · rintro ⟨⟨hd, hv⟩, ho⟩
    obtain ⟨hne, hd⟩ := spec_digits_iff.1 hd
    refine ⟨isInt_cases.2 (Or.inr ⟨hne, hd⟩), ho, ?_, ?_⟩ <;> rw [specIntVal_digits hne hd] <;> omega

/-- DAYOFMONTH: accepted = ASCII digits with value 1..31, within the digit limit -/
theorem dayOfMonth_pass_iff (cfg : Cfg) (s : Str) :
    validateTyped cfg .dayOfMonth s = .pass ↔ LexSpec.isDayOfMonth s = true ∧ overDigitLimit cfg s = false := by
  show validateNumber cfg .int false false false (some (1, 31)) s = .pass ↔ _
  rw [int_core]
  unfold LexSpec.isDayOfMonth
  simp only [Bool.false_eq_true, false_implies, true_and, Option.some.injEq, Prod.mk.injEq, and_imp,
    Bool.and_eq_true, decide_eq_true_eq]
  constructor
  · rintro ⟨hl, ho, h3⟩
    obtain ⟨h1, h2⟩ := h3 1 31 rfl rfl
    rcases isInt_cases.1 hl with ⟨ds, rfl, hne, hd⟩ | ⟨hne, hd⟩
    · exfalso
      have : specIntVal (45 :: ds) = - (LexSpec.value ds 0 : Int) := rfl
      rw [this] at h1
      omega
    · rw [specIntVal_digits hne hd] at h1 h2
      exact ⟨⟨⟨spec_digits_iff.2 ⟨hne, hd⟩, by omega⟩, by omega⟩, ho⟩
  · rintro ⟨⟨⟨hd, hv1⟩, hv2⟩, ho⟩
    obtain ⟨hne, hd⟩ := spec_digits_iff.1 hd
    refine ⟨isInt_cases.2 (Or.inr ⟨hne, hd⟩), ho, ?_⟩
    rintro lo hi rfl rfl
    rw [specIntVal_digits hne hd]
    omega

end AsyncFix.Lemmas.LexInt
