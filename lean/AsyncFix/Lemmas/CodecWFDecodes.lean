/-
Every structurally valid frame decodes on its own.

`WFFrame bs f` (Model/Codec/Frame.lean) says: `f = mkFrame bs fs` for body fields with decodable
tags (none of them CheckSum(10)), SOH-free values, and a BodyLength within CPython's `int()` digit
limit.  Nothing is assumed about the group table or about the group structure of the fields.
Then `decode bs tbl f` is a message that consumes exactly `f`:

 * `decode_mkFrame_F` (CodecFrameB): `decode` on such a frame is the structured field loop
   `fieldLoopF` over `frameFlds bs fs = preFlds bs fs ++ [⟨"10", dec3 ck⟩]`, `ck = frameCk bs fs`;
 * the loop does not raise: `stepField_ok` with the invariant `Inv` (CodecNoRaise), whatever the
   group logic does with the fields;
 * it is not `none`: `fieldLoopF` has no guard left (`fieldLoopF_eq_stepAll`);
 * `ckPassed` is true at the end: the bookkeeping on (mtype, ckPassed) is independent of the group
   logic (`stepAll_eq`), the LAST field has tag "10" and sets `ckPassed := (ckParse (dec3 ck) == some ck)`
   (`bkAll_snd_tag10`), nothing after it can reset it, and `ckParse (dec3 ck) = some ck` for `ck < 1000`.
-/
import AsyncFix.Lemmas.CodecGroupsF
import AsyncFix.Lemmas.CodecNoRaise
namespace AsyncFix.Model.Codec

/-- the CheckSum text the encoder writes is read back as the same number -/
theorem ckParse_dec3' (k : Nat) (h : k < 1000) : ckParse (dec3 k) = some k := by
  have hl := dec3_length k h
  have hd := dec3_all_digit k
  have hv := decVal_dec3 k
  match hk : dec3 k, hl with
  | [a, b, c], _ =>
    rw [hk] at hd hv
    simp only [List.all_cons, List.all_nil, Bool.and_true, Bool.and_eq_true] at hd
    simp only [decVal, List.foldl_cons, List.foldl_nil] at hv
    simp only [ckParse, hd.1, hd.2.1, hd.2.2, Bool.and_self, if_true, Option.some.injEq]
    omega

/-- the structured loop never raises from a state satisfying the invariant, for ANY fields -/
theorem stepAll_ok (tbl : Tbl) (ck : Nat) (fs : List Fld) :
    ∀ (s : DState), Inv tbl s → ∃ s', stepAll tbl ck s fs = .ok s' ∧ Inv tbl s' := by
  induction fs with
  | nil => intro s hi; exact ⟨s, rfl, hi⟩
  | cons f rest ih =>
    intro s hi
    obtain ⟨s1, h1, h2⟩ := stepField_ok ck f.tag f.val hi
    simp only [stepAll, h1]
    exact ih s1 h2

/-- when the last field is CheckSum(10) the final `ckPassed` is the comparison made on that field,
whatever the earlier fields were and whatever the group logic did -/
theorem stepAll_ckPassed (tbl : Tbl) (ck : Nat) (d d' : DState) (fs : List Fld) (v : Bytes)
    (h : stepAll tbl ck d (fs ++ [⟨tag10, v⟩]) = .ok d') :
    d'.ckPassed = (ckParse v == some ck) := by
  rw [stepAll_eq] at h
  split at h
  · cases h
  · simp only [Except.ok.injEq] at h
    rw [← h]
    exact bkAll_snd_tag10 ck (d.mtype, d.ckPassed) fs v

/-- the field loop of `decode` on the fields of a valid frame: runs to the end, CheckSum passed -/
theorem fieldLoopF_frame (bs : Bytes) (tbl : Tbl) (fs : List Fld) :
    ∃ s, fieldLoopF tbl (frameCk bs fs) {} (frameFlds bs fs) = .ok (some s) ∧ s.ckPassed = true := by
  obtain ⟨s, hs, _⟩ := stepAll_ok tbl (frameCk bs fs) (frameFlds bs fs) {} (Inv_init tbl)
  refine ⟨s, ?_, ?_⟩
  · rw [fieldLoopF_eq_stepAll, hs]
  · have hck : ckFld bs fs = ⟨tag10, dec3 (frameCk bs fs)⟩ := rfl
    rw [frameFlds, hck] at hs
    rw [stepAll_ckPassed tbl _ _ _ _ _ hs,
      ckParse_dec3' _ (Nat.lt_trans (frameCk_lt bs fs) (by decide))]
    exact beq_self_eq_true _

/-- `decode` on `mkFrame bs fs`: a message, the whole frame consumed, the frame as raw bytes -/
theorem decode_mkFrame_msg (bs : Bytes) (tbl : Tbl) (fs : List Fld)
    (hb : okBegin bs = true) (hf : okFields fs = true)
    (hd : (natToDec (bodyBytes fs).length).length ≤ maxStrDigits) :
    ∃ m, decode bs tbl (mkFrame bs fs) = .msg m (mkFrame bs fs).length (mkFrame bs fs) := by
  obtain ⟨s, hs, hck⟩ := fieldLoopF_frame bs tbl fs
  refine ⟨{ mtype := s.mtype, body := s.top }, ?_⟩
  rw [decode_mkFrame_F bs tbl fs hb hf hd, hs]
  simp only [hck, if_true]

/-- **every valid frame decodes on its own** – for every group table and every `okFields`
field list (the fields need not form a well-formed group structure) -/
theorem wfframe_decodes (bs : Bytes) (tbl : Tbl) (f : Bytes) (hb : okBegin bs = true)
    (h : WFFrame bs f) :
    ∃ m, decode bs tbl f = .msg m f.length f := by
  obtain ⟨fs, rfl, hf, hd⟩ := h
  exact decode_mkFrame_msg bs tbl fs hb hf hd

/-! ### non-vacuity

`8=FIX.4.4|9=27|35=D|268=2|55=A|999=x|55=B|10=…|` against a table in which 268 is a group with
members 269, 270: the body fields do NOT form a well-formed group (55 is not a member, the count
says 2 and no item follows) – `WFFrame` holds and the theorem applies all the same. -/

def exBegin : Bytes := [70, 73, 88, 46, 52, 46, 52]
def exTblW : Tbl := [([50, 54, 56], [[50, 54, 57], [50, 55, 48]])]
def exFsW : List Fld := [⟨[51, 53], [68]⟩, ⟨[50, 54, 56], [50]⟩, ⟨[53, 53], [65]⟩,
  ⟨[57, 57, 57], [120]⟩, ⟨[53, 53], [66]⟩]

example : okBegin exBegin = true ∧ WFFrame exBegin (mkFrame exBegin exFsW) ∧
    (∃ m, decode exBegin exTblW (mkFrame exBegin exFsW) =
      .msg m (mkFrame exBegin exFsW).length (mkFrame exBegin exFsW)) := by
  have hb : okBegin exBegin = true := by decide +kernel
  have hw : WFFrame exBegin (mkFrame exBegin exFsW) :=
    ⟨exFsW, rfl, by decide +kernel, by decide +kernel⟩
  exact ⟨hb, hw, wfframe_decodes exBegin exTblW _ hb hw⟩

end AsyncFix.Model.Codec
