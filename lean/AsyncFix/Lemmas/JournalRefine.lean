/-
C13: every state-changing call refines its abstract counterpart:
`abs (method j args).1 = (abs j).method args` under `JInv j`.
-/
import AsyncFix.Lemmas.JournalInv
namespace AsyncFix.Model.Journal

/-- in a list without two rows of the same key, a member is what `find?` by its key returns -/
theorem find_of_mem_unique {α} {R : α → α → Prop} {p : α → Bool} {l : List α} {a : α}
    (hp : l.Pairwise R) (hR : ∀ x y, p x = true → p y = true → R x y → False)
    (ha : a ∈ l) (hpa : p a = true) : l.find? p = some a := by
  induction l with
  | nil => cases ha
  | cons x xs ih =>
    rw [List.pairwise_cons] at hp
    rcases List.mem_cons.mp ha with rfl | h
    · simp [hpa]
    · by_cases hx : p x = true
      · exact absurd (hp.1 a h) (fun hr => hR x a hx hpa hr)
      · simp only [List.find?_cons, hx]
        exact ih hp.2 h

theorem store_of_mem {j : Journal} (hinv : JInv j) {r : MsgRow} (hr : r ∈ j.msgs) :
    (abs j).store r.sid r.dir r.seq = some r.msg := by
  simp only [abs]
  rw [find_of_mem_unique hinv.keyUnique _ hr ((isKey_iff ..).mpr ⟨rfl, rfl, rfl⟩)]
  · rfl
  · intro x y hx hy hR
    rw [isKey_iff] at hx hy
    exact hR ⟨hx.1.trans hy.1.symm, hx.2.1.trans hy.2.1.symm, hx.2.2.trans hy.2.2.symm⟩

theorem mem_of_store {j : Journal} {key : Int} {dir : Dir} {n : Int} {m : Bytes}
    (h : (abs j).store key dir n = some m) :
    ∃ r ∈ j.msgs, r.seq = n ∧ r.sid = key ∧ r.dir = dir ∧ r.msg = m := by
  simp only [abs, Option.map_eq_some_iff] at h
  obtain ⟨r, hr, rfl⟩ := h
  have := List.find?_some hr
  rw [isKey_iff] at this
  exact ⟨r, List.mem_of_find?_eq_some hr, this.1, this.2.1, this.2.2, rfl⟩

theorem store_none_iff {j : Journal} {key : Int} {dir : Dir} {n : Int} :
    (abs j).store key dir n = none ↔ j.msgs.any (·.isKey n key dir) = false := by
  simp only [abs, Option.map_eq_none_iff, List.find?_eq_none, List.any_eq_false]

theorem sess_of_mem {j : Journal} (hinv : JInv j) {r : SessRow} (hr : r ∈ j.sessions) :
    j.sessions.find? (·.isPair r.target r.sender) = some r ∧ j.sessions.find? (·.sid == r.sid) = some r := by
  constructor
  · apply find_of_mem_unique hinv.pairUnique _ hr ((isPair_iff ..).mpr ⟨rfl, rfl⟩)
    intro x y hx hy hR
    rw [isPair_iff] at hx hy
    exact hR ⟨hx.1.trans hy.1.symm, hx.2.trans hy.2.symm⟩
  · apply find_of_mem_unique hinv.sidAsc _ hr (by simp)
    intro x y hx hy hR
    simp only [beq_iff_eq] at hx hy
    omega

theorem find_isPair_map {l : List SessRow} (f : SessRow → SessRow) (t s : String)
    (hf : ∀ r, (f r).target = r.target ∧ (f r).sender = r.sender) :
    (l.map f).find? (·.isPair t s) = (l.find? (·.isPair t s)).map f := by
  rw [List.find?_map]
  congr 2
  funext r
  simp [SessRow.isPair, (hf r).1, (hf r).2]

theorem find_sid_map {l : List SessRow} (f : SessRow → SessRow) (id : Nat)
    (hf : ∀ r, (f r).sid = r.sid) :
    (l.map f).find? (·.sid == id) = (l.find? (·.sid == id)).map f := by
  rw [List.find?_map]
  congr 2
  funext r
  simp [hf r]

/-! ### create_or_load -/

theorem selSession_find {j : Journal} {t s : String} :
    (selSession j t s).head? = j.sessions.find? (·.isPair t s) := by
  unfold selSession; exact List.head?_filter

theorem createOrLoad_refines {j : Journal} (hinv : JInv j) (t s : String) :
    (abs (createOrLoad j t s).1, (createOrLoad j t s).2) = (abs j).createOrLoad t s := by
  cases hf : j.sessions.find? (·.isPair t s) with
  | none =>
    have hall := List.find?_eq_none.mp hf
    have hany : j.sessions.any (·.isPair t s) = false := List.any_eq_false.mpr hall
    have hid : (abs j).ident t s = none := by simp [abs, hf]
    simp only [createOrLoad, insSession, hany, JSpec.createOrLoad, hid, Bool.false_eq_true, if_false]
    congr 1
    apply JSpec.ext'
    · funext t' s'
      simp only [abs, List.find?_append]
      by_cases hts : t' = t ∧ s' = s
      · obtain ⟨rfl, rfl⟩ := hts
        rw [hf]
        simp [SessRow.isPair]
      · have : (SessRow.mk j.nextSid t s 0 0).isPair t' s' = false := by
          simp only [SessRow.isPair, Bool.and_eq_false_imp, beq_iff_eq]
          intro h1; simp only [beq_eq_false_iff_ne]; intro h2; exact hts ⟨h1.symm, h2.symm⟩
        simp [hts, this]
    · funext id
      simp only [abs, List.find?_append]
      by_cases hid' : id = j.nextSid
      · subst hid'
        have : j.sessions.find? (·.sid == j.nextSid) = none := by
          rw [List.find?_eq_none]
          intro r hr
          have := hinv.sidLt r hr
          simp only [beq_iff_eq]; omega
        simp [this]
      · have : ¬ j.nextSid = id := fun h => hid' h.symm
        simp [hid', this]
    · rfl
    · rfl
  | some r =>
    have hm := List.mem_of_find?_eq_some hf
    have hp0 : r.isPair t s = true := List.find?_some (p := fun x : SessRow => x.isPair t s) hf
    have hp := (isPair_iff r t s).mp hp0
    have hany : j.sessions.any (·.isPair t s) = true :=
      List.any_eq_true.mpr ⟨r, hm, hp0⟩
    have hsel : ∃ rest, selSession j t s = r :: rest := by
      have := @selSession_find j t s
      rw [hf] at this
      cases h : selSession j t s with
      | nil => rw [h] at this; cases this
      | cons x xs => rw [h] at this; simp only [List.head?_cons, Option.some.injEq] at this; exact ⟨xs, by rw [this]⟩
    obtain ⟨rest, hsel⟩ := hsel
    have hid : (abs j).ident t s = some r.sid := by simp [abs, hf]
    have hc : (abs j).counters r.sid = some (r.outSeq, r.inSeq) := by
      simp only [abs, (sess_of_mem hinv hm).2, Option.map_some]
    simp only [createOrLoad, insSession, hany, hsel, JSpec.createOrLoad, hid, hc, if_true, handleOf, hp.1, hp.2]

/-! ### persist_msg -/

theorem persist_refines {j : Journal} (_hinv : JInv j) (msg : Bytes) (h : Handle) (dir : Dir) :
    (abs (persist j msg h dir).1, (persist j msg h dir).2) = (abs j).persist msg h dir := by
  unfold persist JSpec.persist
  cases findSeqNo msg with
  | none => rfl
  | some n =>
    simp only
    by_cases hfit : (!(fits n && fits h.key)) = true
    · simp only [hfit, if_true]
    · simp only [hfit, if_false, Bool.false_eq_true]
      by_cases hany : j.msgs.any (·.isKey n h.key dir) = true
      · have hs : ∃ m, (abs j).store h.key dir n = some m := by
          cases hst : (abs j).store h.key dir n with
          | none => rw [store_none_iff] at hst; rw [hst] at hany; cases hany
          | some m => exact ⟨m, rfl⟩
        obtain ⟨m, hs⟩ := hs
        simp only [insMsg, hany, if_true, hs]
      · have hany' : j.msgs.any (·.isKey n h.key dir) = false := by simpa using hany
        have hs : (abs j).store h.key dir n = none := store_none_iff.mpr hany'
        simp only [insMsg, hany', hs, Bool.false_eq_true, if_false]
        congr 1
        apply JSpec.ext'
        · funext t' s'
          simp only [abs, updCounter]
          rw [find_isPair_map]
          · simp only [Option.map_map]
            congr 1
            funext r
            simp only [Function.comp]
            split
            · cases dir <;> rfl
            · rfl
          · intro r; split
            · cases dir <;> simp
            · simp
        · funext id
          simp only [abs, updCounter]
          rw [find_sid_map]
          · cases hfd : j.sessions.find? (·.sid == id) with
            | none => simp
            | some r =>
              have hsid : r.sid = id := by simpa using List.find?_some hfd
              by_cases hk : (id : Int) = h.key
              · simp only [Option.map_some, hsid, hk, if_true]
                cases dir <;> simp [setCounter]
              · simp only [Option.map_some, hsid, hk, if_false]
          · intro r; split
            · cases dir <;> simp
            · simp
        · funext k d m
          simp only [abs, updCounter, List.find?_append]
          by_cases hkm : k = h.key ∧ d = dir ∧ m = n
          · obtain ⟨rfl, rfl, rfl⟩ := hkm
            have : j.msgs.find? (·.isKey m h.key d) = none := by
              rw [List.find?_eq_none]; exact List.any_eq_false.mp hany'
            rw [this]
            simp [MsgRow.isKey]
          · have : (MsgRow.mk (maxRowid j.msgs + 1) n h.key dir msg).isKey m k d = false := by
              rw [Bool.eq_false_iff]; intro hc
              rw [isKey_iff] at hc
              exact hkm ⟨hc.2.1.symm, hc.2.2.symm, hc.1.symm⟩
            simp [hkm, this]
        · rfl

/-! ### set_seq_num -/

theorem find_delFrom2 (l : List MsgRow) (key o i m k : Int) (d : Dir) :
    ((l.filter fun r => !(r.sid == key && decide (i ≤ r.seq) && r.dir == Dir.inbound)).filter
        fun r => !(r.sid == key && decide (o ≤ r.seq) && r.dir == Dir.outbound)).find? (·.isKey m k d) =
      if k = key ∧ d.pick o i ≤ m then none else l.find? (·.isKey m k d) := by
  rw [List.find?_filter, List.find?_filter]
  by_cases hc : k = key ∧ d.pick o i ≤ m
  · rw [if_pos hc, List.find?_eq_none]
    intro a _ ha
    simp only [decide_eq_true_eq, isKey_iff] at ha
    obtain ⟨h2, h1, rfl, rfl, rfl⟩ := ha
    obtain ⟨rfl, hc⟩ := hc
    cases hd : a.dir <;> simp_all [Dir.pick]
  · rw [if_neg hc]
    congr 1
    funext a
    by_cases hk : a.isKey m k d = true
    · have hk' := (isKey_iff ..).mp hk
      obtain ⟨rfl, rfl, rfl⟩ := hk'
      cases hd : a.dir <;> simp_all [Dir.pick] <;> omega
    · simp [hk]

theorem setNext_refines (j : Journal) (key o i : Int) :
    abs (delFrom (delFrom (updBoth j (i - 1) (o - 1) key) key i .inbound) key o .outbound) =
      (abs j).setNext key o i := by
  apply JSpec.ext'
  · funext t s
    simp only [abs, delFrom, updBoth, JSpec.setNext]
    rw [find_isPair_map]
    · simp only [Option.map_map]
      congr 1
      funext r
      simp only [Function.comp]
      split <;> rfl
    · intro r; split <;> simp
  · funext id
    simp only [abs, delFrom, updBoth, JSpec.setNext]
    rw [find_sid_map]
    · cases hfd : j.sessions.find? (·.sid == id) with
      | none => simp
      | some r =>
        have hsid : r.sid = id := by simpa using List.find?_some hfd
        by_cases hk : (id : Int) = key
        · simp [hsid, hk]
        · simp [hsid, hk]
    · intro r; split <;> simp
  · funext k d m
    simp only [abs, delFrom, updBoth, JSpec.setNext]
    rw [find_delFrom2]
    split <;> simp
  · rfl

theorem setSeqNum_refines {j : Journal} (h : Handle) (out inn : Option Int) :
    abs (setSeqNum j h out inn).1 = (abs j).setSeqNum h out inn := by
  unfold setSeqNum JSpec.setSeqNum
  by_cases h1 : out.any (· ≤ 0) = true
  · simp [h1]
  by_cases h2 : inn.any (· ≤ 0) = true
  · simp [h1, h2]
  by_cases h3 : (!(fits (effIn h inn - 1) && fits (effOut h out - 1) && fits h.key &&
      fits (effIn h inn) && fits (effOut h out))) = true
  · simp [h1, h2, h3]
  simp only [h1, h2, h3, Bool.false_eq_true, if_false, Bool.or_self]
  exact setNext_refines j h.key (effOut h out) (effIn h inn)

/-- every call refines its abstract effect (the state part) -/
theorem applyOp_refines {j : Journal} (hinv : JInv j) (op : Op) :
    abs (applyOp j op).1 = (abs j).applyOp op := by
  cases op with
  | createOrLoad t s => exact congrArg Prod.fst (createOrLoad_refines hinv t s)
  | persist msg h dir => exact congrArg Prod.fst (persist_refines hinv msg h dir)
  | setSeqNum h out inn => exact setSeqNum_refines h out inn
  | sessions => rfl
  | recover => rfl
  | recoverMsg => rfl
  | getAll => rfl

theorem applyOps_refines {j : Journal} (hinv : JInv j) (ops : List Op) :
    abs (applyOps j ops) = (abs j).applyOps ops := by
  induction ops generalizing j with
  | nil => rfl
  | cons op ops ih =>
    simp only [applyOps, JSpec.applyOps, List.foldl_cons]
    have h1 := applyOp_refines hinv op
    have := ih (applyOp_inv op hinv)
    simp only [applyOps, JSpec.applyOps] at this
    rw [this, h1]

end AsyncFix.Model.Journal
