import AsyncFix.Lemmas.SchedOk

/-!
Sched family: every handler-as-resumption is `ROk` – each of its segments, resumed on ANY connection that
satisfies the outbound invariant, re-establishes it and numbers / journals what it writes – up to the
segment in which `_process_resend` rewinds.
-/
namespace AsyncFix.Sched

open AsyncFix.Session AsyncFix.Generated AsyncFix.Generated.ConnEnum

variable {i : Bool}

-- rule matching is by head symbol: keep the unifier from unfolding the primitives
attribute [local irreducible] R.get R.modify R.throw R.liftE R.assert R.int R.yield R.hook R.ghost R.liftM swallowR

theorem stateSetR_ok (s : Nat) : ROk i (stateSetR s) := by
  unfold stateSetR
  rok_tac [ROk.liftM (stateSet_spec _)]

attribute [local irreducible] stateSetR

theorem sendGateR_ok (m : Msg) : ROk i (sendGateR m) := by
  unfold sendGateR
  rok_tac [stateSetR_ok]

attribute [local irreducible] sendGateR

theorem sendCoreR_ok (env : Env) {m : Msg} (hm : isNew m = true) : ROk i (sendCoreR env m) := by
  unfold sendCoreR
  exact ROk.bind (ROk.liftM (sendCore_spec env hm)) fun _ => ROk.yield _

attribute [local irreducible] sendCoreR

theorem sendMsgR_ok (env : Env) {m : Msg} (hm : isNew m = true) : ROk i (sendMsgR env m) := by
  unfold sendMsgR
  exact ROk.bind (sendGateR_ok m) fun _ => sendCoreR_ok env hm

attribute [local irreducible] sendMsgR

theorem sendMsgR_ok_unencodable (env : Env) {m : Msg} (hm : unencodable m = true) : ROk i (sendMsgR env m) := by
  unfold sendMsgR sendCoreR
  exact ROk.bind (sendGateR_ok m) fun _ =>
    ROk.bind (ROk.liftM (sendCore_spec_unencodable env hm)) fun _ => ROk.yield _

theorem isNew_mk' {ty : String} {tags : List (Nat × String)} (h1 : (ty == mSequenceReset) = false)
    (h2 : Msg.lookup tPossDupFlag tags = none) : isNew (Msg.mk' ty tags) = true := by
  simp [isNew, Msg.mk', Msg.get?, h1, h2]

theorem isNew_logoutMsg (text : String) : isNew (logoutMsg text) = true := by
  unfold logoutMsg
  split
  · exact isNew_mk' (by decide) rfl
  · exact isNew_mk' (by decide) (by simp [Msg.lookup, tText, tPossDupFlag])

theorem sendTestReqR_ok (env : Env) : ROk i (sendTestReqR env) := by
  unfold sendTestReqR
  have h : isNew (Msg.mk' mTestRequest [(tTestReqID, pyStr env.secs)]) = true :=
    isNew_mk' (by decide) (by simp [Msg.lookup, tTestReqID, tPossDupFlag])
  rok_tac [sendMsgR_ok env h]

attribute [local irreducible] sendTestReqR

theorem disconnectR_ok (env : Env) (d : Nat) (l : Option String) : ROk i (disconnectR env d l) := by
  unfold disconnectR
  rok_tac [stateSetR_ok, ROk.swallow () (sendMsgR_ok env (isNew_logoutMsg _))]

attribute [local irreducible] disconnectR

theorem processLogonR_ok (env : Env) (m : Msg) : ROk i (processLogonR env m) := by
  unfold processLogonR
  have h : ∀ e h, isNew (Msg.mk' mLogon [(tEncryptMethod, e), (tHeartBtInt, h)]) = true := fun e h =>
    isNew_mk' (by decide) (by simp [Msg.lookup, tEncryptMethod, tHeartBtInt, tPossDupFlag])
  rok_tac [stateSetR_ok, disconnectR_ok, sendMsgR_ok env (h _ _)]

attribute [local irreducible] processLogonR

theorem checkSeqnumGapsR_ok (env : Env) (n : Int) : ROk i (checkSeqnumGapsR env n) := by
  unfold checkSeqnumGapsR
  have h : ∀ s, isNew (Msg.mk' mResendRequest [(tBeginSeqNo, s), (tEndSeqNo, "0")]) = true := fun s =>
    isNew_mk' (by decide) (by simp [Msg.lookup, tBeginSeqNo, tEndSeqNo, tPossDupFlag])
  rok_tac [stateSetR_ok, sendMsgR_ok env (h _)]

attribute [local irreducible] checkSeqnumGapsR

theorem processLogoutR_ok (env : Env) (m : Msg) : ROk i (processLogoutR env m) := by
  unfold processLogoutR
  rok_tac [disconnectR_ok]

attribute [local irreducible] processLogoutR

/-- `_process_resend`: everything before the rewinding `set_seq_num` (state change, asserts, range
check); from the rewind on nothing is claimed -/
theorem processResendR_ok (env : Env) (sr : Msg → Bool) (m : Msg) : ROk i (processResendR env sr m) := by
  unfold processResendR
  rok_tac [stateSetR_ok, ROk.rewind_bind]

attribute [local irreducible] processResendR

theorem finalizeMessageR_ok (env : Env) (m : Msg) : ROk true (finalizeMessageR env m) := by
  unfold finalizeMessageR
  rok_tac [stateSetR_ok, ROk.liftM (setNextNumIn_spec _), ROk.liftM (persistInbound_spec _)]

attribute [local irreducible] finalizeMessageR

theorem processTestRequestR_ok (env : Env) (m : Msg) : ROk i (processTestRequestR env m) := by
  unfold processTestRequestR
  have h : ∀ s, isNew (Msg.mk' mHeartbeat [(tTestReqID, s)]) = true := fun s =>
    isNew_mk' (by decide) (by simp [Msg.lookup, tTestReqID, tPossDupFlag])
  rok_tac [sendMsgR_ok env (h _)]

attribute [local irreducible] processTestRequestR

theorem processHeartbeatR_ok (env : Env) (m : Msg) : ROk i (processHeartbeatR env m) := by
  unfold processHeartbeatR
  rok_tac [disconnectR_ok]

attribute [local irreducible] processHeartbeatR

theorem processHeadR_ok (env : Env) (m : Msg) : ROk i (processHeadR env m) := by
  unfold processHeadR
  rok_tac [stateSetR_ok, disconnectR_ok, processLogonR_ok, processLogoutR_ok, checkSeqnumGapsR_ok,
    ROk.liftM (processSeqreset_spec _)]

attribute [local irreducible] processHeadR

theorem processDispatchR_ok (env : Env) (sr : Msg → Bool) (m : Msg) (valid : Bool) (n : Int) :
    ROk i (processDispatchR env sr m valid n) := by
  unfold processDispatchR
  rok_tac [processResendR_ok, processTestRequestR_ok, processHeartbeatR_ok]

attribute [local irreducible] processDispatchR

/-- the reader task's coroutine, for ANY inbound frame -/
theorem processMessageR_ok (env : Env) (sr : Msg → Bool) (m : Msg) : ROk true (processMessageR env sr m) := by
  unfold processMessageR
  rok_tac [disconnectR_ok, ROk.liftM (validateIntegrity_spec _), finalizeMessageR_ok, ROk.swallow,
    processHeadR_ok, processDispatchR_ok]

/-- one iteration of the watchdog task -/
theorem tickBodyR_ok (env : Env) : ROk i (tickBodyR env) := by
  unfold tickBodyR
  rok_tac [disconnectR_ok, sendTestReqR_ok]

end AsyncFix.Sched
