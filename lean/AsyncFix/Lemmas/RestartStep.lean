import AsyncFix.Lemmas.RestartFinal

/-!
Restart family: every admissible event, run without exception from a quiescent state, satisfies the
history-level relation `GoodH`; hence so does every admissible history.
-/
set_option linter.unusedSectionVars false

namespace AsyncFix.Restart

open AsyncFix.Session AsyncFix.Generated AsyncFix.Generated.ConnEnum

variable {g : List Effect → Bool} [EffGuard g]

theorem dispatch_p2 (env : Env) (sr : Msg → Bool) (m : Msg) (valid : Bool) (n : Int) :
    OkSpec g (processDispatch env sr m valid n) (fun c _ c' _ => P2 m c → P2 m c') := by
  by_cases h4 : m.mtype = mSequenceReset
  case neg => exact ⟨fun _ _ _ _ _ _ _ h => absurd h h4⟩
  have : processDispatch env sr m valid n = pure () := by
    simp [processDispatch, h4, mResendRequest, mSequenceReset]
  rw [this]
  exact ⟨fun c _ c' _ hx _ hp => by cases hx; exact hp⟩

theorem processMessage_good (env : Env) (sr : Msg → Bool) (m : Msg) :
    OkSpec excFree (processMessage env sr m)
      (fun c _ c' e => 0 < c.sess.nextIn → Good (some m) c c' e) := by
  unfold processMessage
  refine OkSpec.bind (Q2 := fun _ c1 _ c2 e2 => 0 < c1.sess.nextIn → Good (some m) c1 c2 e2)
    (validateIntegrity_good (om := some m) m) ?_
    (fun _ _ _ _ _ _ _ h1 h2 hp => Compositional.trans h1 (h2 (h1.pos hp)))
  intro integ
  cases integ with
  | critical => exact (disconnect_good env _ _).conseq (fun _ _ _ _ h _ => h)
  | reason text => exact (disconnect_good env _ _).conseq (fun _ _ _ _ h _ => h)
  | good =>
    refine OkSpec.bind
      (Q1 := fun c r c1 e => Good (some m) c c1 e ∧ (r.isSome = true → P2 m c1))
      (Q2 := fun head c1 _ c2 e2 => (head.isSome = true → P2 m c1) → 0 < c1.sess.nextIn → Good (some m) c1 c2 e2)
      (OkSpec.swallow ((processHead_good env m).and (processHead_p2 env m))) ?_
      (fun _ _ _ _ _ _ _ h1 h2 hp => Compositional.trans h1.1 (h2 h1.2 (h1.1.pos hp)))
    intro head
    cases head with
    | none => exact ⟨fun c _ _ _ hx _ _ _ => by cases hx; exact Compositional.refl c⟩
    | some p =>
      obtain ⟨valid, n⟩ := p
      refine OkSpec.bind
        (Q1 := fun c _ c1 e => Good (some m) c c1 e ∧ (P2 m c → P2 m c1))
        (Q2 := fun _ c1 _ c2 e2 => P2 m c1 → 0 < c1.sess.nextIn → Good (some m) c1 c2 e2)
        (OkSpec.swallow ((processDispatch_good env sr m valid n).and (dispatch_p2 env sr m valid n))) ?_
        (fun _ _ _ _ _ _ _ h1 h2 hp2 hp =>
          Compositional.trans h1.1 (h2 (h1.2 (hp2 rfl)) (h1.1.pos hp)))
      intro _
      split
      · exact finalize_good env m
      · exact ⟨fun c _ _ _ hx _ _ _ => by cases hx; exact Compositional.refl c⟩

/-! ### the other entry points -/

variable {om : Option Msg}

section walk
-- the guard is `excFree` from here on: `disconnect` swallows the exception of an unsendable Logout
local notation "g" => excFree
attribute [local irreducible] disconnect stateSet sendMsg sendTestReq M.bind' M.pure' M.get M.modify M.emit M.throw
  M.liftE M.assert M.int

theorem tickBody_good (env : Env) : OkRel g (Good om) (tickBody env) := by
  unfold tickBody
  ok_tac [sendTestReq_good, disconnect_good, Good.modify]

theorem connectedM_good (k : ConnKind) : OkRel g (Good om) (connectedM k) := by
  cases k <;> unfold connectedM <;> ok_tac [Good.modify, Good.emit]

end walk

/-- an exception-free top-level run returned -/
theorem run_excFree {α : Type} {x : M α} {c : Conn} (h : excFree (x.run c).2 = true) :
    ∃ a, x c = ⟨.ok a, (x.run c).1, (x.run c).2⟩ := by
  unfold M.run at h ⊢
  rcases hx : x c with ⟨r, c1, e1⟩
  rw [hx] at h
  cases r with
  | ok a => exact ⟨a, rfl⟩
  | error ex => simp [excFree, List.all_append] at h

/-- events of the theorems' scope: no `reset_seq_num()`, and the application does not send frames that
carry their own MsgSeqNum (SequenceReset / PossDupFlag=Y) -/
def admissible : Event → Bool
  | .appSend _ m => !ownSeq m
  | .resetSeq => false
  | _ => true

/-- the inbound frame an event processes -/
def evMsg : Event → Option Msg
  | .recv _ m => some m
  | _ => none

theorem step_good (sr : Msg → Bool) (c : Conn) (ev : Event) (hadm : admissible ev = true)
    (hex : excFree (step sr c ev).2 = true) (hpos : 0 < c.sess.nextIn) :
    Good (evMsg ev) c (step sr c ev).1 (step sr c ev).2 := by
  cases ev with
  | recv env m =>
    obtain ⟨a, hx⟩ := run_excFree (x := processMessage env sr m) hex
    exact (processMessage_good env sr m).out _ _ _ _ hx hex hpos
  | appSend env m =>
    obtain ⟨a, hx⟩ := run_excFree (x := sendMsg env m) hex
    have hnew : ownSeq m = false := by simpa [admissible] using hadm
    exact (sendMsg_good (om := none) env m hnew).out _ _ _ _ hx hex
  | appTestReq env =>
    obtain ⟨a, hx⟩ := run_excFree (x := sendTestReq env) hex
    exact (sendTestReq_good (om := none) env).out _ _ _ _ hx hex
  | appDisconnect env d l =>
    obtain ⟨a, hx⟩ := run_excFree (x := disconnect env d l) hex
    exact (disconnect_good (om := none) env d l).out _ _ _ _ hx hex
  | tick env =>
    obtain ⟨a, hx⟩ := run_excFree (x := tickBody env) hex
    exact (tickBody_good (om := none) env).out _ _ _ _ hx hex
  | eof env =>
    change excFree (eof env c).2 = true at hex
    show Good none c (eof env c).1 (eof env c).2
    unfold eof at hex ⊢
    split
    · rename_i hs
      rw [if_pos hs] at hex
      obtain ⟨a, hx⟩ := run_excFree (x := disconnect env st_DISCONNECTED_BROKEN_CONN none) hex
      exact (disconnect_good (om := none) env _ _).out _ _ _ _ hx hex
    · exact Compositional.refl c
  | connected k =>
    obtain ⟨a, hx⟩ := run_excFree (x := connectedM k) hex
    exact (connectedM_good (om := none) k).out _ _ _ _ hx hex
  | resetSeq => simp [admissible] at hadm

theorem step_goodH (sr : Msg → Bool) (c : Conn) (ev : Event) (hadm : admissible ev = true)
    (hex : excFree (step sr c ev).2 = true) (hpos : 0 < c.sess.nextIn) :
    GoodH c (step sr c ev).1 (step sr c ev).2 := (step_good sr c ev hadm hex hpos).toH

/-- a SequenceReset whose NewSeqNo is not its MsgSeqNum + 1 (or cannot be read): the D13 class -/
def jumpReset : Event → Bool
  | .recv _ m =>
    m.mtype == mSequenceReset &&
      (match seqOf m, newSeqOf m with
       | some a, some b => b != a + 1
       | _, _ => true)
  | _ => false

/-- without a jump reset the stored inbound counter stays exactly one behind the live one -/
theorem step_exact (sr : Msg → Bool) (c : Conn) (ev : Event) (hadm : admissible ev = true)
    (hnj : jumpReset ev = false) (hex : excFree (step sr c ev).2 = true) (hpos : 0 < c.sess.nextIn)
    (hi : InExact c) : InExact (step sr c ev).1 := by
  have hg := step_good sr c ev hadm hex hpos
  rcases hg.inb with hs | hb | ⟨m, hm, hl⟩
  · exact hi.of_same hs
  · exact hb
  · cases ev with
    | recv env m' =>
      simp only [evMsg, Option.some.injEq] at hm
      subst hm
      simp only [lagBy, Bool.and_eq_true, beq_iff_eq] at hl
      obtain ⟨⟨⟨h4, _⟩, hsq⟩, hnq⟩ := hl
      simp only [jumpReset, h4, beq_self_eq_true, Bool.true_and, hsq, hnq] at hnj
      unfold InExact
      have : (step sr c (Event.recv env m')).1.sess.nextIn = (step sr c (Event.recv env m')).1.journal.inSeq + 1 := by
        simpa using hnj
      exact this.symm
    | _ => simp [evMsg] at hm

/-- histories -/
theorem run_goodH (sr : Msg → Bool) (evs : List Event) (c : Conn)
    (hadm : ∀ ev ∈ evs, admissible ev = true) (hex : excFree (run sr c evs).2 = true) (hq : Quiet c) :
    GoodH c (run sr c evs).1 (run sr c evs).2 := by
  induction evs generalizing c with
  | nil => exact Compositional.refl c
  | cons ev rest ih =>
    simp only [run] at hex ⊢
    rw [excFree_append, Bool.and_eq_true] at hex
    have h1 := step_goodH sr c ev (hadm ev (List.mem_cons_self ..)) hex.1 hq.2.1
    have h2 := ih (step sr c ev).1 (fun e he => hadm e (List.mem_cons_of_mem _ he)) hex.2 (h1.quiet hq)
    exact Compositional.trans h1 h2


theorem run_exact (sr : Msg → Bool) (evs : List Event) (c : Conn)
    (hadm : ∀ ev ∈ evs, admissible ev = true) (hnj : ∀ ev ∈ evs, jumpReset ev = false)
    (hex : excFree (run sr c evs).2 = true) (hq : Quiet c) (hi : InExact c) :
    InExact (run sr c evs).1 := by
  induction evs generalizing c with
  | nil => exact hi
  | cons ev rest ih =>
    simp only [run] at hex ⊢
    rw [excFree_append, Bool.and_eq_true] at hex
    have h1 := step_goodH sr c ev (hadm ev (List.mem_cons_self ..)) hex.1 hq.2.1
    have h1e := step_exact sr c ev (hadm ev (List.mem_cons_self ..)) (hnj ev (List.mem_cons_self ..)) hex.1
      hq.2.1 hi
    exact ih (step sr c ev).1 (fun e he => hadm e (List.mem_cons_of_mem _ he))
      (fun e he => hnj e (List.mem_cons_of_mem _ he)) hex.2 (h1.quiet hq) h1e

end AsyncFix.Restart
