import AsyncFix.Lemmas.LinkReplay

/-!
C07: the loop of `_process_resend` over the recovered journal rows agrees with the abstract `resendRows`.
-/
namespace AsyncFix.Link

open AsyncFix.Session AsyncFix.Generated AsyncFix.Generated.ConnEnum
open AsyncFix.Session.Msg

/-- what the resend loop needs of the connection it runs on -/
structure LoopConn (env : Env) (c : Conn) : Prop where
  h6 : st_NETWORK_CONN_ESTABLISHED < c.state
  h7 : c.state ≠ st_LOGON_INITIAL_SENT
  sock : c.sock = true
  l1 : isLatin1 c.sess.sender = true
  l2 : isLatin1 c.sess.target = true
  l3 : isLatin1 env.stamp = true

/-- the connection with another outbound journal -/
def withOut (c : Conn) (out : Rows) (os : Int) : Conn :=
  { c with journal := { c.journal with out := out, outSeq := os } }

theorem sentAt_eq (c : Conn) (n : Int) (f : Msg) : sentAt c n f = withOut c (c.journal.out ++ [(n, f)]) n := rfl

theorem withOut_withOut (c : Conn) (o1 o2 : Rows) (a b : Int) : withOut (withOut c o1 a) o2 b = withOut c o2 b := rfl

theorem loopConn_withOut {env : Env} {c : Conn} (h : LoopConn env c) (out : Rows) (os : Int) :
    LoopConn env (withOut c out os) := ⟨h.h6, h.h7, h.sock, h.l1, h.l2, h.l3⟩

theorem sendMsg_gapFill {env : Env} {c : Conn} (h : LoopConn env c) (a b : Int) (hrows : AllLt a c.journal.out) :
    sendMsg env (gapFillMsg a b) c = ⟨.ok (), sentAt c a (buildFrame c.sess env.stamp (gapFillMsg a b) a),
      [.write (buildFrame c.sess env.stamp (gapFillMsg a b) a)]⟩ := by
  rw [sendMsg, M.bind_ok (sendGate_pass _ c h.h6 (fun hh => h.h7 hh.2.1)),
    sendCore_seqreset env (gapFillMsg a b) a c rfl rfl (latin1_build_gapFill _ _ _ _ h.l1 h.l2 h.l3) hrows h.sock]
  rfl

theorem sendMsg_replay {env : Env} {c : Conn} (h : LoopConn env c) {row : Msg} {k : Int}
    (hg : FrameGood c.sess.sender c.sess.target row) (h34 : row.get? tMsgSeqNum = some (pyStr k))
    (ha : IsAppRow row) (hrows : AllLt k c.journal.out) :
    sendMsg env (replayMsg row) c = ⟨.ok (), sentAt c k (buildFrame c.sess env.stamp (replayMsg row) k),
      [.write (buildFrame c.sess env.stamp (replayMsg row) k)]⟩ := by
  obtain ⟨a0, a1, a2, a4, a5, aA⟩ := isAppRow_ne ha
  rw [sendMsg, M.bind_ok (sendGate_pass _ c h.h6 (fun hh => h.h7 hh.2.1)),
    sendCore_replay env (replayMsg row) k c (by rw [replayMsg_mtype]; exact a1) (by rw [replayMsg_mtype]; exact a4)
      (get?_replayMsg_43 row) (by rw [get?_replayMsg_34, h34])
      (frameGood_build_replay c.sess env.stamp k hg ha h.l1 h.l2 h.l3).lat hrows h.sock]
  rfl

/-- abstraction of a connection with another outbound journal -/
theorem absConn_withOut (c : Conn) (out : Rows) (os : Int) :
    absConn (withOut c out os) = { absConn c with out := out.map absRow } := rfl

/-- result of the loop -/
def LoopRes (env : Env) (endNo : Int) (c : Conn) (rows : Rows) (gfb gfe cur : Int) : Prop :=
  ∃ (out' : Rows) (os : Int) (eff : List Effect) (gfb' gfe' : Int),
    resendLoop env srAll endNo (rows.map (·.2)) gfb gfe c = ⟨.ok (gfb', gfe'), withOut c out' os, eff⟩ ∧
    (∀ (ac : AConn) acc, ac.out = c.journal.out.map absRow → resendRows (rows.map absRow) gfb ac acc =
      ({ ac with out := out'.map absRow }, acc ++ (writesOf eff).map absFrame, gfb')) ∧
    AllLt gfb' out' ∧ gfb ≤ gfb' ∧ gfb' ≤ cur ∧ gfe' ≤ cur ∧ deliveriesOf eff = [] ∧
    (∀ g ∈ writesOf eff, FrameGood c.sess.sender c.sess.target g) ∧
    (∃ new : Rows, out' = c.journal.out ++ new ∧ Sorted new ∧
      ∀ r ∈ new, gfb ≤ r.1 ∧ r.1 < gfb' ∧ FrameGood c.sess.sender c.sess.target r.2 ∧
        r.2.get? tMsgSeqNum = some (pyStr r.1))

theorem withOut_self (c : Conn) : withOut c c.journal.out c.journal.outSeq = c := rfl

theorem resendLoop_cons_sess {env : Env} {endNo : Int} {row : Msg} {k : Int} (rest : List Msg) (gfb gfe : Int)
    (c : Conn) (h34 : row.get? tMsgSeqNum = some (pyStr k)) (h35 : row.get? tMsgType = some row.mtype)
    (ha : ¬ IsAppRow row) (hle : ¬ k > endNo) :
    resendLoop env srAll endNo (row :: rest) gfb gfe c = resendLoop env srAll endNo rest gfb (k + 1) c := by
  have hc : ConnEnum.noReplay.contains row.mtype = true := by
    cases h : ConnEnum.noReplay.contains row.mtype
    · exact absurd h ha
    · rfl
  rw [resendLoop]
  simp only [M.bind_apply, M.liftE_apply, get_of_get? h34, M.int_apply, pyInt_pyStr, get_of_get? h35, hc,
    Bool.true_or, if_true, List.nil_append, hle, if_false]

theorem resendLoop_cons_app {env : Env} {endNo : Int} {row : Msg} {k : Int} (rest : List Msg) (gfb gfe : Int)
    (c : Conn) (h34 : row.get? tMsgSeqNum = some (pyStr k)) (h35 : row.get? tMsgType = some row.mtype)
    (ha : IsAppRow row) (hle : ¬ k > endNo) :
    resendLoop env srAll endNo (row :: rest) gfb gfe c =
      (((if gfb < k then sendMsg env (gapFillMsg gfb k) else pure ()) >>= fun _ =>
        M.liftE (prepareReplay row) >>= fun rp => sendMsg env rp >>= fun _ =>
        resendLoop env srAll endNo rest (k + 1) gfe) : M (Int × Int)) c := by
  have hc : ConnEnum.noReplay.contains row.mtype = false := ha
  rw [resendLoop]
  by_cases hlt : gfb < k <;>
    simp only [M.bind_apply, M.liftE_apply, get_of_get? h34, M.int_apply, pyInt_pyStr, get_of_get? h35, hc, srAll,
      Bool.not_true, Bool.or_self, Bool.false_eq_true, if_false, List.nil_append, hlt, if_true, M.pure_apply, hle]

theorem resendLoop_eval (env : Env) (endNo cur : Int) :
    ∀ (rows : Rows) (c : Conn) (gfb gfe : Int), LoopConn env c → Sorted rows →
      (∀ r ∈ rows, r.1 ≤ endNo) →
      (∀ r ∈ rows, gfb ≤ r.1 ∧ r.1 < cur) →
      (∀ r ∈ rows, FrameGood c.sess.sender c.sess.target r.2 ∧ r.2.get? tMsgSeqNum = some (pyStr r.1)) →
      AllLt gfb c.journal.out → gfb ≤ cur → gfe ≤ cur → LoopRes env endNo c rows gfb gfe cur := by
  intro rows
  induction rows with
  | nil =>
    intro c gfb gfe _ _ _ _ _ hlt hb he
    refine ⟨c.journal.out, c.journal.outSeq, [], gfb, gfe, ?_, ?_, hlt, Int.le_refl _, hb, he, rfl, by simp [writesOf], [], by simp,
      List.Pairwise.nil, by simp⟩
    · simp [resendLoop, withOut_self]
    · intro ac acc hac; simp [resendRows, writesOf, ← hac]
  | cons r rest ih =>
    intro c gfb gfe hL hs hend hk hg hlt hb he
    obtain ⟨k, row⟩ := r
    have hle : ¬ k > endNo := by have := hend (k, row) (by simp); simp only at this; omega
    have hend' : ∀ r ∈ rest, r.1 ≤ endNo := fun r hr => hend r (by simp [hr])
    have hs' := List.pairwise_cons.mp hs
    obtain ⟨hk1, hk2⟩ := hk (k, row) (by simp)
    obtain ⟨hgood, h34⟩ := hg (k, row) (by simp)
    simp only at hk1 hk2 hgood h34
    have h35 := hgood.ty
    have hrest_k : ∀ r ∈ rest, k + 1 ≤ r.1 ∧ r.1 < cur := by
      intro r hr
      have := hs'.1 r hr
      have := (hk r (by simp [hr])).2
      simp only at *
      omega
    have hrest_g : ∀ r ∈ rest, FrameGood c.sess.sender c.sess.target r.2 ∧
        r.2.get? tMsgSeqNum = some (pyStr r.1) := fun r hr => hg r (by simp [hr])
    by_cases ha : IsAppRow row
    · -- application row: optional gap fill, retransmission
      -- the connection after the optional gap fill
      have hstep : ∃ (o1 : Rows) (os1 : Int) (e1 : List Effect),
          ((if gfb < k then sendMsg env (gapFillMsg gfb k) else pure ()) : M Unit) c = ⟨.ok (), withOut c o1 os1, e1⟩ ∧
          AllLt k o1 ∧ deliveriesOf e1 = [] ∧
          (∀ g ∈ writesOf e1, FrameGood c.sess.sender c.sess.target g) ∧
          (∃ new1 : Rows, o1 = c.journal.out ++ new1 ∧ Sorted new1 ∧
            ∀ r ∈ new1, gfb ≤ r.1 ∧ r.1 < k ∧ FrameGood c.sess.sender c.sess.target r.2 ∧
              r.2.get? tMsgSeqNum = some (pyStr r.1)) ∧
          (∀ (ac : AConn) acc, ac.out = c.journal.out.map absRow → (if gfb < k then
              ((ac.pushAt gfb (.gapFill k)).1, acc ++ [(ac.pushAt gfb (.gapFill k)).2])
            else (ac, acc)) = ({ ac with out := o1.map absRow }, acc ++ (writesOf e1).map absFrame)) := by
        by_cases hlt' : gfb < k
        · have hfg := frameGood_build_gapFill c.sess env.stamp gfb k hL.l1 hL.l2 hL.l3
          refine ⟨c.journal.out ++ [(gfb, buildFrame c.sess env.stamp (gapFillMsg gfb k) gfb)], gfb,
            [.write (buildFrame c.sess env.stamp (gapFillMsg gfb k) gfb)], ?_, ?_, ?_, ?_,
            ⟨[(gfb, buildFrame c.sess env.stamp (gapFillMsg gfb k) gfb)], rfl, by simp [Sorted], ?_⟩, ?_⟩
          · rw [if_pos hlt', sendMsg_gapFill hL gfb k hlt, sentAt_eq]
          · exact allLt_append_last hlt hlt'
          · simp [deliveriesOf]
          · intro g hg'; simp [writesOf] at hg'; subst hg'; exact hfg
          · intro r hr
            simp only [List.mem_singleton] at hr
            subst hr
            exact ⟨Int.le_refl _, hlt', hfg, get?_build_34 ..⟩
          · intro ac acc hac
            simp [hlt', AConn.pushAt, writesOf, absFrame_build_gapFill, absRow_build_gapFill, AKind.entry, hac]
        · refine ⟨c.journal.out, c.journal.outSeq, [], ?_, ?_, rfl, by simp [writesOf], ⟨[], by simp, List.Pairwise.nil,
            by simp⟩, ?_⟩
          · rw [if_neg hlt', withOut_self]; rfl
          · exact allLt_mono (by omega) hlt
          · intro ac acc hac; simp [hlt', writesOf, ← hac]
      obtain ⟨o1, os1, e1, hs1, hl1, hd1, hf1, ⟨new1, hn1, hsn1, hnew1⟩, habs1⟩ := hstep
      -- the retransmission
      have hL1 := loopConn_withOut hL o1 os1
      have hsend := sendMsg_replay (c := withOut c o1 os1) hL1 hgood h34 ha hl1
      rw [sentAt_eq, withOut_withOut] at hsend
      obtain ⟨frame, hframe⟩ : ∃ fr, fr = buildFrame c.sess env.stamp (replayMsg row) k := ⟨_, rfl⟩
      rw [show (withOut c o1 os1).sess = c.sess from rfl, ← hframe] at hsend
      have hfg2 : FrameGood c.sess.sender c.sess.target frame := by
        rw [hframe]; exact frameGood_build_replay c.sess env.stamp k hgood ha hL.l1 hL.l2 hL.l3
      have h34f : frame.get? tMsgSeqNum = some (pyStr k) := by rw [hframe]; exact get?_build_34 ..
      have habsf : absFrame frame = ⟨k, .app (payloadOf row) true⟩ := by
        rw [hframe]; exact absFrame_build_replay c.sess env.stamp k ha
      have habsr : absRow (k, frame) = (k, some (payloadOf row)) := by
        rw [hframe]; exact absRow_build_replay c.sess env.stamp k ha k
      -- the rest of the loop
      have hL2 := loopConn_withOut hL (o1 ++ [(k, frame)]) k
      obtain ⟨out', os, eff, gfb', gfe', hr1, hr2, hr3, hr3', hr4, hr5, hr6, hr7, ⟨new2, hn2, hsn2, hnew2⟩⟩ :=
        ih (withOut c (o1 ++ [(k, frame)]) k) (k + 1) gfe hL2 hs'.2 hend' hrest_k hrest_g
          (allLt_push hl1) (by omega) he
      refine ⟨out', os, e1 ++ ([.write frame] ++ eff), gfb', gfe', ?_, ?_, hr3, by omega, hr4, hr5, ?_, ?_,
        ⟨new1 ++ [(k, frame)] ++ new2, ?_, ?_, ?_⟩⟩
      · rw [List.map_cons, resendLoop_cons_app _ _ _ _ h34 h35 ha hle, M.bind_ok hs1]
        simp only [M.bind_apply, M.liftE_apply, prepareReplay_ok hgood]
        rw [show (withOut c o1 os1).journal.out = o1 from rfl] at hsend
        simp only [hsend, hr1, withOut_withOut, List.nil_append]
      · intro ac acc hac
        have h2 := hr2 { ac with out := o1.map absRow ++ [(k, some (payloadOf row))] }
          (acc ++ (writesOf e1).map absFrame ++ [⟨k, .app (payloadOf row) true⟩])
          (by show _ = (o1 ++ [(k, frame)]).map absRow; simp [habsr])
        have h1 := habs1 ac acc hac
        simp only [AConn.pushAt] at h1
        simp only [List.map_cons, absRow_of_appRow ha, resendRows, AConn.pushAt]
        rw [h1]
        simp only [AKind.entry] at h2 ⊢
        rw [h2]
        simp [writesOf_append, writesOf, habsf, List.append_assoc]
      · simp [deliveriesOf_append, hd1, hr6, deliveriesOf]
      · intro g hg'
        simp only [writesOf_append, writesOf, List.mem_append, List.mem_cons, List.not_mem_nil, or_false] at hg'
        rcases hg' with hg' | hg' | hg'
        · exact hf1 g hg'
        · subst hg'; exact hfg2
        · exact hr7 g hg'
      · rw [hn2]; show (o1 ++ [(k, frame)]) ++ new2 = _; rw [hn1]; simp [List.append_assoc]
      · -- sorted
        unfold Sorted
        rw [List.pairwise_append, List.pairwise_append]
        refine ⟨⟨hsn1, by simp, ?_⟩, hsn2, ?_⟩
        · intro a ha' b hb'
          simp only [List.mem_singleton] at hb'
          subst hb'
          exact (hnew1 a ha').2.1
        · intro a ha' b hb'
          have hb2 := (hnew2 b hb').1
          rcases List.mem_append.mp ha' with ha' | ha'
          · have := (hnew1 a ha').2.1; omega
          · simp only [List.mem_singleton] at ha'; subst ha'; simp only; omega
      · intro r hr
        rcases List.mem_append.mp hr with hr | hr
        · rcases List.mem_append.mp hr with hr | hr
          · obtain ⟨a1, a2, a3, a4⟩ := hnew1 r hr
            exact ⟨a1, by omega, a3, a4⟩
          · simp only [List.mem_singleton] at hr
            subst hr
            exact ⟨hk1, by simp only; omega, hfg2, h34f⟩
        · obtain ⟨a1, a2, a3, a4⟩ := hnew2 r hr
          exact ⟨by omega, a2, a3, a4⟩
    · -- session-level row: skipped
      obtain ⟨out', os, eff, gfb', gfe', hr1, hr2, hr3, hr3', hr4, hr5, hr6, hr7, hr8⟩ :=
        ih c gfb (k + 1) hL hs'.2 hend' (fun r hr => ⟨by have := (hrest_k r hr).1; omega, (hrest_k r hr).2⟩) hrest_g hlt hb
          (by omega)
      refine ⟨out', os, eff, gfb', gfe', ?_, ?_, hr3, hr3', hr4, hr5, hr6, hr7, hr8⟩
      · rw [List.map_cons, resendLoop_cons_sess _ _ _ _ h34 h35 ha hle]; exact hr1
      · intro ac acc hac
        simp only [List.map_cons, absRow_of_sessRow ha, resendRows]
        exact hr2 ac acc hac

end AsyncFix.Link
