import AsyncFix.Lemmas.LinkSyncC

/-!
Link family, coverage invariant: `SyncInv'` (= `SyncInv` + "the Logon in flight is not numbered below what the
acceptor expects") holds initially and is preserved by every step of the abstract model, given `SafeInv` of the
pre-state; it implies `SyncInv`; on a quiescent state the counters agree (`sync_counters`).
-/
namespace AsyncFix.Link

open AsyncFix.Session

/-! ### the four phases as constructors / one case split -/

theorem mk0 {l : ALink} (hi : l.i.st = .disc) (ha : l.a.st = .disc) (hA : l.toA = []) (hI : l.toI = []) :
    SyncInv' l := by
  refine ⟨⟨Or.inl ⟨hi, ha, hA, hI⟩, by simp [hA, hI], by simp [hi], by simp [ha]⟩, by simp [hi]⟩

theorem mk1 {l : ALink} (hi : l.i.st = .sent) (ha : l.a.st = .conn) (hini : l.i.ini = true) (hI : l.toI = [])
    (hA : l.toA = [⟨l.i.o - 1, .logon⟩]) (hlt : l.a.e < l.i.o) : SyncInv' l := by
  refine ⟨⟨Or.inr (Or.inl ⟨hi, ha, hini, hI, hA⟩), by simp [hA, hI, isLogout], by simp [hi], by simp [ha]⟩,
    fun _ _ => hlt⟩

theorem mk2 {l : ALink} (h : P2 l.i l.a l.toI) (hA : l.toA = []) : SyncInv' l := by
  obtain ⟨h1, h2, h3, h4, ⟨f, rest, heq, h5, h6, h7, h8⟩, h9, h10⟩ := h
  refine ⟨⟨Or.inr (Or.inr (Or.inl ⟨h1, h2, h3, h4, hA, ?_, ?_, ?_⟩)), ?_, by simp [h1], h10⟩, ?_⟩
  · rw [heq]
    exact ⟨h5, h6, all_not_logon.2 fun g hg => (h7 g hg).1⟩
  · rw [heq] at h8 ⊢
    exact h8
  · rw [hA]; exact h9
  · rw [hA, heq, List.nil_append, all_not_logout]
    intro g hg
    rcases List.mem_cons.1 hg with rfl | hg
    · simp [h5]
    · exact (h7 g hg).2
  · intro _ hc
    rcases h2 with h | h <;> simp [h] at hc

theorem mk3 {l : ALink} (h : P3 l.i l.a l.toA l.toI) (hi : l.i.ini = true) (ha : l.a.ini = false) :
    SyncInv' l := by
  obtain ⟨hX, hY, hQ, hQ', d1, d2, wX, wY⟩ := h
  refine ⟨⟨Or.inr (Or.inr (Or.inr ⟨hX, hY, hi, ha, ?_, d1, d2⟩)), ?_, wX, wY⟩, ?_⟩
  · rw [all_not_logon]
    intro g hg
    rcases List.mem_append.1 hg with hg | hg
    · exact (hQ g hg).1
    · exact (hQ' g hg).1
  · rw [all_not_logout]
    intro g hg
    rcases List.mem_append.1 hg with hg | hg
    · exact (hQ g hg).2
    · exact (hQ' g hg).2
  · intro hc
    rcases hX with h | h <;> simp [h] at hc

theorem SyncInv'.phases {l : ALink} (h : SyncInv' l) :
    (l.i.st = .disc ∧ l.a.st = .disc ∧ l.toA = [] ∧ l.toI = []) ∨
    (l.i.st = .sent ∧ l.a.st = .conn ∧ l.i.ini = true ∧ l.toI = [] ∧ l.toA = [⟨l.i.o - 1, .logon⟩] ∧
      l.a.e < l.i.o) ∨
    (P2 l.i l.a l.toI ∧ l.toA = []) ∨
    (P3 l.i l.a l.toA l.toI ∧ l.i.ini = true ∧ l.a.ini = false) := by
  obtain ⟨⟨hp, hlo, wI, wA⟩, hlt⟩ := h
  rw [all_not_logout] at hlo
  rcases hp with p0 | ⟨h1, h2, h3, h4, h5⟩ | ⟨h1, h2, h3, h4, h5, h6, h7, h8⟩ | ⟨h1, h2, h3, h4, h5, h6, h7⟩
  · exact Or.inl p0
  · exact Or.inr (Or.inl ⟨h1, h2, h3, h4, h5, hlt h1 h2⟩)
  · refine Or.inr (Or.inr (Or.inl ⟨⟨h1, h2, h3, h4, ?_, h5 ▸ h8, wA⟩, h5⟩))
    cases hI : l.toI with
    | nil => simp [hI] at h6
    | cons f rest =>
      rw [hI] at h6 h7
      obtain ⟨g1, g2, g3⟩ := h6
      rw [all_not_logon] at g3
      refine ⟨f, rest, rfl, g1, g2, fun g hg => ⟨g3 g hg, hlo g ?_⟩, h7⟩
      simp [hI, hg]
  · rw [all_not_logon] at h5
    refine Or.inr (Or.inr (Or.inr ⟨⟨h1, h2, ?_, ?_, h6, h7, wI, wA⟩, h3, h4⟩))
    · exact fun g hg => ⟨h5 g (by simp [hg]), hlo g (by simp [hg])⟩
    · exact fun g hg => ⟨h5 g (by simp [hg]), hlo g (by simp [hg])⟩

/-! ### initial state, steps -/

theorem syncInv'_init :
    SyncInv' { i := ⟨.disc, true, 1, 1, 0, []⟩, a := ⟨.disc, false, 1, 1, 0, []⟩ } :=
  mk0 rfl rfl rfl rfl

theorem step_break (l : ALink) : SyncInv' (astep l .breakConn) := by
  apply mk0 <;> simp only [astep, AConn.eof, AConn.drop]
  · split <;> simp_all
  · split <;> simp_all

theorem step_reconnect (l : ALink) (hs : SafeInv l) (h : SyncInv' l) : SyncInv' (astep l .reconnect) := by
  by_cases hd : l.i.st = .disc ∧ l.a.st = .disc
  · obtain ⟨hi, ha⟩ := hd
    have hle := hs.1.s2
    apply mk1 <;> simp [astep, hi, ha, AConn.push]
    omega
  · have : astep l .reconnect = l := by
      simp only [astep]
      rw [if_pos]
      simp only [Bool.or_eq_true, decide_eq_true_eq]
      by_cases hi : l.i.st = .disc
      · exact Or.inr fun ha => hd ⟨hi, ha⟩
      · exact Or.inl hi
    rw [this]; exact h

theorem step_appSend (l : ALink) (s : Side) (p : Payload) (ok : Bool) (h : SyncInv' l) :
    SyncInv' (astep l (.appSend s p ok)) := by
  by_cases hc : ((l.conn s).canSend && ok) = true
  · have hcs : (l.conn s).canSend = true := by simp at hc; exact hc.1
    cases s with
    | I =>
      simp only [ALink.conn] at hcs hc
      rcases h.phases with ⟨h1, _⟩ | ⟨h1, _, h3, _⟩ | ⟨⟨h1, _, h3, _⟩, _⟩ | ⟨h3, hi, ha⟩
      · simp [AConn.canSend, h1] at hcs
      · simp [AConn.canSend, h1, h3] at hcs
      · simp [AConn.canSend, h1, h3] at hcs
      · have := push3 h3 p false
        apply mk3 <;> simp only [astep, hc, if_true, ALink.conn, ALink.absorb, ALink.noteAccepted]
        · exact this
        · exact hi
        · exact ha
    | A =>
      simp only [ALink.conn] at hcs hc
      rcases h.phases with ⟨_, h1, _⟩ | ⟨_, h1, _⟩ | ⟨h2, hA⟩ | ⟨h3, hi, ha⟩
      · simp [AConn.canSend, h1] at hcs
      · simp [AConn.canSend, h1] at hcs
      · have := push_p2 h2 p false
        apply mk2 <;> simp only [astep, hc, if_true, ALink.conn, ALink.absorb, ALink.noteAccepted]
        · exact this
        · exact hA
      · have := (push3 h3.symm p false).symm
        apply mk3 <;> simp only [astep, hc, if_true, ALink.conn, ALink.absorb, ALink.noteAccepted]
        · exact this
        · exact hi
        · exact ha
  · have : astep l (.appSend s p ok) = l := by simp only [astep, hc]; rfl
    rw [this]; exact h

theorem astep_deliverA {l : ALink} {f : AFrame} {rest : List AFrame} (hq : l.toA = f :: rest)
    (hst : l.a.st ≠ .disc) :
    (astep l (.deliverNext .A)).i = l.i ∧ (astep l (.deliverNext .A)).a = (arecv l.a f).c ∧
    (astep l (.deliverNext .A)).toA = rest ∧ (astep l (.deliverNext .A)).toI = l.toI ++ (arecv l.a f).wr := by
  simp [astep, ALink.queueTo, hq, ALink.conn, hst, ALink.pop, ALink.absorb]

theorem astep_deliverI {l : ALink} {f : AFrame} {rest : List AFrame} (hq : l.toI = f :: rest)
    (hst : l.i.st ≠ .disc) :
    (astep l (.deliverNext .I)).i = (arecv l.i f).c ∧ (astep l (.deliverNext .I)).a = l.a ∧
    (astep l (.deliverNext .I)).toA = l.toA ++ (arecv l.i f).wr ∧ (astep l (.deliverNext .I)).toI = rest := by
  simp [astep, ALink.queueTo, hq, ALink.conn, hst, ALink.pop, ALink.absorb]

theorem step_deliverA (l : ALink) (hs : SafeInv l) (h : SyncInv' l) (hb : Bounded l) :
    SyncInv' (astep l (.deliverNext .A)) := by
  cases hq : l.toA with
  | nil =>
    have : astep l (.deliverNext .A) = l := by simp [astep, ALink.queueTo, hq]
    rw [this]; exact h
  | cons f rest =>
    rcases h.phases with ⟨_, _, hA, _⟩ | ⟨h1, h2, h3, hI, hA, hlt⟩ | ⟨_, hA⟩ | ⟨h3, hi, ha⟩
    · simp [hA] at hq
    · obtain ⟨e1, e2, e3, e4⟩ := astep_deliverA hq (by simp [h2])
      rw [hA] at hq
      obtain ⟨rfl, rfl⟩ := List.cons.inj hq
      have := step_p1 h1 h2 h3 hlt hs.1.e1 hs.2.s2
      apply mk2
      · rw [e1, e2, e4, hI, List.nil_append]; exact this
      · exact e3
    · simp [hA] at hq
    · have hst : l.a.st ≠ .disc := by rcases h3.2.1 with h | h <;> simp [h]
      obtain ⟨e1, e2, e3, e4⟩ := astep_deliverA hq hst
      rw [hq] at h3
      obtain ⟨r1, r2⟩ := recv3 h3 hs.2.e1 hs.2.keys hb.2
      apply mk3
      · rw [e1, e2, e3, e4]; exact r1
      · rw [e1]; exact hi
      · rw [e2, r2]; exact ha

theorem step_deliverI (l : ALink) (hs : SafeInv l) (h : SyncInv' l) (hb : Bounded l) :
    SyncInv' (astep l (.deliverNext .I)) := by
  cases hq : l.toI with
  | nil =>
    have : astep l (.deliverNext .I) = l := by simp [astep, ALink.queueTo, hq]
    rw [this]; exact h
  | cons f rest =>
    rcases h.phases with ⟨_, _, _, hI⟩ | ⟨_, _, _, hI, _⟩ | ⟨h2, hA⟩ | ⟨h3, hi, ha⟩
    · simp [hI] at hq
    · simp [hI] at hq
    · obtain ⟨e1, e2, e3, e4⟩ := astep_deliverI hq (by simp [h2.1])
      have ha := h2.2.2.2.1
      rw [hq] at h2
      obtain ⟨r1, r2⟩ := step_p2 h2 hs.2.e1
      apply mk3
      · rw [e1, e2, e3, e4, hA, List.nil_append]; exact r1
      · rw [e1]; exact r2
      · rw [e2]; exact ha
    · have hst : l.i.st ≠ .disc := by rcases h3.1 with h | h <;> simp [h]
      obtain ⟨e1, e2, e3, e4⟩ := astep_deliverI hq hst
      have h3' := h3.symm
      rw [hq] at h3'
      obtain ⟨r1, r2⟩ := recv3 h3' hs.1.e1 hs.1.keys hb.1
      apply mk3
      · rw [e1, e2, e3, e4]; exact r1.symm
      · rw [e1, r2]; exact hi
      · rw [e2]; exact ha

/-- `SyncInv'` is inductive relative to `SafeInv` (of the pre-state) -/
theorem syncInv'_step (l : ALink) (ev : AEv) (hs : SafeInv l) (h : SyncInv' l) (hb : Bounded l) :
    SyncInv' (astep l ev) := by
  cases ev with
  | appSend s p ok => exact step_appSend l s p ok h
  | deliverNext to =>
    cases to with
    | I => exact step_deliverI l hs h hb
    | A => exact step_deliverA l hs h hb
  | breakConn => exact step_break l
  | reconnect => exact step_reconnect l hs h

/-- G1 with empty queues: the property's conclusion on the counters -/
theorem sync_counters (l : ALink) (h : SyncInv l) (hq : l.quiescent = true) :
    l.a.e = l.i.o ∧ l.i.e = l.a.o := by
  simp only [ALink.quiescent, Bool.and_eq_true, decide_eq_true_eq, List.isEmpty_iff] at hq
  obtain ⟨⟨⟨hi, ha⟩, hA⟩, hI⟩ := hq
  rcases h.1 with ⟨h1, _⟩ | ⟨h1, _⟩ | ⟨h1, _⟩ | ⟨_, _, _, _, _, d1, d2⟩
  · simp [hi] at h1
  · simp [hi] at h1
  · simp [hi] at h1
  · have c1 := (d1.1 ha).1
    have c2 := (d2.1 hi).1
    rw [hA] at c1
    rw [hI] at c2
    exact ⟨c1, c2⟩

theorem syncInv_init : SyncInv { i := ⟨.disc, true, 1, 1, 0, []⟩, a := ⟨.disc, false, 1, 1, 0, []⟩ } :=
  syncInv'_init.1

/-- `SyncInv` as stated in `Model/LinkInv.lean` is NOT inductive, even relative to `SafeInv` of both states and
`Bounded`: phase (1) allows `A.e = I.o` (the Logon in flight is numbered `I.o - 1 < A.e`), and then the acceptor
answers the Logon with a Logout ("MsgSeqNum too low").  `SyncInv'` excludes the state by `A.e < I.o`. -/
theorem syncInv_not_inductive :
    ∃ (l : ALink) (ev : AEv), SafeInv l ∧ SyncInv l ∧ SafeInv (astep l ev) ∧ Bounded (astep l ev) ∧
      ¬ SyncInv (astep l ev) :=
  ⟨{ i := ⟨.sent, true, 1, 2, 0, [(1, none)]⟩, a := ⟨.conn, false, 2, 1, 0, []⟩, toA := [⟨1, .logon⟩],
     wireI := [⟨1, .logon⟩] }, .deliverNext .A, by decide⟩

theorem sync_counters' (l : ALink) (h : SyncInv' l) (hq : l.quiescent = true) :
    l.a.e = l.i.o ∧ l.i.e = l.a.o := sync_counters l h.1 hq

end AsyncFix.Link
