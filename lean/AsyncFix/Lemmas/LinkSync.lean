import AsyncFix.Lemmas.LinkSyncC

/-!
Link family, coverage invariant: `SyncInv'` (= `SyncInv` + "the Logon in flight is not numbered below what the
acceptor expects") holds initially and is preserved by every step of the abstract model, given `SafeInv` of the
pre-state; it implies `SyncInv`; on a quiescent state the counters agree (`sync_counters`).
-/
namespace AsyncFix.Link

open AsyncFix.Session

/-! ### the four phases as constructors / one case split -/

theorem mk0 {l : ALink} (hi : l.i.st = .disc) (ha : l.a.st = .disc) (hA : l.toA = []) (hI : l.toI = []) :
    SyncInv' l := by
  refine ⟨⟨Or.inl ⟨hi, ha, hA, hI⟩, by simp [hA, hI], by simp [hi], by simp [ha]⟩, by simp [hi]⟩

theorem mk1 {l : ALink} (hi : l.i.st = .sent) (ha : l.a.st = .conn) (hini : l.i.ini = true) (hI : l.toI = [])
    (hA : l.toA = [⟨l.i.o - 1, .logon⟩]) (hlt : l.a.e < l.i.o) : SyncInv' l := by
  refine ⟨⟨Or.inr (Or.inl ⟨hi, ha, hini, hI, hA⟩), by simp [hA, hI, isLogout], by simp [hi], by simp [ha]⟩,
    fun _ _ => hlt⟩

theorem mk2 {l : ALink} (h : P2 l.i l.a l.toI) (hA : l.toA = []) : SyncInv' l := by
  obtain ⟨h1, h2, h3, h4, ⟨f, rest, heq, h5, h6, h7, h8⟩, h9, h10⟩ := h
  refine ⟨⟨Or.inr (Or.inr (Or.inl ⟨h1, h2, h3, h4, hA, ?_, ?_, ?_⟩)), ?_, by simp [h1], h10⟩, ?_⟩
  · rw [heq]
    exact ⟨h5, h6, all_not_logon.2 fun g hg => (h7 g hg).1⟩
  · rw [heq] at h8 ⊢
    exact h8
  · rw [hA]; exact h9
  · rw [hA, heq, List.nil_append, all_not_logout]
    intro g hg
    rcases List.mem_cons.1 hg with rfl | hg
    · simp [h5]
    · exact (h7 g hg).2
  · intro _ hc
    rcases h2 with h | h <;> simp [h] at hc

theorem mk3 {l : ALink} (h : P3 l.i l.a l.toA l.toI) (hi : l.i.ini = true) (ha : l.a.ini = false) :
    SyncInv' l := by
  obtain ⟨hX, hY, hQ, hQ', d1, d2, wX, wY⟩ := h
  refine ⟨⟨Or.inr (Or.inr (Or.inr ⟨hX, hY, hi, ha, ?_, d1, d2⟩)), ?_, wX, wY⟩, ?_⟩
  · rw [all_not_logon]
    intro g hg
    rcases List.mem_append.1 hg with hg | hg
    · exact (hQ g hg).1
    · exact (hQ' g hg).1
  · rw [all_not_logout]
    intro g hg
    rcases List.mem_append.1 hg with hg | hg
    · exact (hQ g hg).2
    · exact (hQ' g hg).2
  · intro hc
    rcases hX with h | h <;> simp [h] at hc

theorem SyncInv'.phases {l : ALink} (h : SyncInv' l) :
    (l.i.st = .disc ∧ l.a.st = .disc ∧ l.toA = [] ∧ l.toI = []) ∨
    (l.i.st = .sent ∧ l.a.st = .conn ∧ l.i.ini = true ∧ l.toI = [] ∧ l.toA = [⟨l.i.o - 1, .logon⟩] ∧
      l.a.e < l.i.o) ∨
    (P2 l.i l.a l.toI ∧ l.toA = []) ∨
    (P3 l.i l.a l.toA l.toI ∧ l.i.ini = true ∧ l.a.ini = false) := by
  obtain ⟨⟨hp, hlo, wI, wA⟩, hlt⟩ := h
  rw [all_not_logout] at hlo
  rcases hp with p0 | ⟨h1, h2, h3, h4, h5⟩ | ⟨h1, h2, h3, h4, h5, h6, h7, h8⟩ | ⟨h1, h2, h3, h4, h5, h6, h7⟩
  · exact Or.inl p0
  · exact Or.inr (Or.inl ⟨h1, h2, h3, h4, h5, hlt h1 h2⟩)
  · refine Or.inr (Or.inr (Or.inl ⟨⟨h1, h2, h3, h4, ?_, h5 ▸ h8, wA⟩, h5⟩))
    cases hI : l.toI with
    | nil => simp [hI] at h6
    | cons f rest =>
      rw [hI] at h6 h7
      obtain ⟨g1, g2, g3⟩ := h6
      rw [all_not_logon] at g3
      refine ⟨f, rest, rfl, g1, g2, fun g hg => ⟨g3 g hg, hlo g ?_⟩, h7⟩
      simp [hI, hg]
  · rw [all_not_logon] at h5
    refine Or.inr (Or.inr (Or.inr ⟨⟨h1, h2, ?_, ?_, h6, h7, wI, wA⟩, h3, h4⟩))
    · exact fun g hg => ⟨h5 g (by simp [hg]), hlo g (by simp [hg])⟩
    · exact fun g hg => ⟨h5 g (by simp [hg]), hlo g (by simp [hg])⟩

/-! ### initial state, steps -/

theorem syncInv'_init :
    SyncInv' { i := ⟨.disc, true, 1, 1, 0, []⟩, a := ⟨.disc, false, 1, 1, 0, []⟩ } :=
  mk0 rfl rfl rfl rfl

theorem step_break (l : ALink) : SyncInv' (astep l .breakConn) := by
  apply mk0 <;> simp only [astep, AConn.eof, AConn.drop]
  · split <;> simp_all
  · split <;> simp_all

theorem step_reconnect (l : ALink) (hs : SafeInv l) (h : SyncInv' l) : SyncInv' (astep l .reconnect) := by
  by_cases hd : l.i.st = .disc ∧ l.a.st = .disc
  · obtain ⟨hi, ha⟩ := hd
    have hle := hs.1.s2
    apply mk1 <;> simp [astep, hi, ha, AConn.push]
    omega
  · have : astep l .reconnect = l := by
      simp only [astep]
      rw [if_pos]
      simp only [Bool.or_eq_true, decide_eq_true_eq]
      by_cases hi : l.i.st = .disc
      · exact Or.inr fun ha => hd ⟨hi, ha⟩
      · exact Or.inl hi
    rw [this]; exact h

theorem step_appSend (l : ALink) (s : Side) (p : Payload) (ok : Bool) (h : SyncInv' l) :
    SyncInv' (astep l (.appSend s p ok)) := by
  by_cases hc : ((l.conn s).canSend && ok) = true
  · have hcs : (l.conn s).canSend = true := by simp at hc; exact hc.1
    cases s with
    | I =>
      simp only [ALink.conn] at hcs hc
      rcases h.phases with ⟨h1, _⟩ | ⟨h1, _, h3, _⟩ | ⟨⟨h1, _, h3, _⟩, _⟩ | ⟨h3, hi, ha⟩
      · simp [AConn.canSend, h1] at hcs
      · simp [AConn.canSend, h1, h3] at hcs
      · simp [AConn.canSend, h1, h3] at hcs
      · have := push3 h3 p false
        apply mk3 <;> simp only [astep, hc, if_true, ALink.conn, ALink.absorb, ALink.noteAccepted]
        · exact this
        · exact hi
        · exact ha
    | A =>
      simp only [ALink.conn] at hcs hc
      rcases h.phases with ⟨_, h1, _⟩ | ⟨_, h1, _⟩ | ⟨h2, hA⟩ | ⟨h3, hi, ha⟩
      · simp [AConn.canSend, h1] at hcs
      · simp [AConn.canSend, h1] at hcs
      · have := push_p2 h2 p false
        apply mk2 <;> simp only [astep, hc, if_true, ALink.conn, ALink.absorb, ALink.noteAccepted]
        · exact this
        · exact hA
      · have := (push3 h3.symm p false).symm
        apply mk3 <;> simp only [astep, hc, if_true, ALink.conn, ALink.absorb, ALink.noteAccepted]
        · exact this
        · exact hi
        · exact ha
  · have : astep l (.appSend s p ok) = l := by simp only [astep, hc]; rfl
    rw [this]; exact h

end AsyncFix.Link
