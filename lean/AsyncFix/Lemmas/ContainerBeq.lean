/-
Container `==` after fix 7c684d5 (`list(self.tags.items()) == list(other.tags.items())`, group containers
compare their item lists): it decides equality of content, for all containers.  Core Lean only.
-/
import AsyncFix.Model.Container
namespace AsyncFix.Model.Container
open AsyncFix.Py

theorem Cls.beq_iff (a b : Cls) : a.beq b = true ↔ a = b := by
  cases a <;> cases b <;> simp [Cls.beq]

mutual
theorem Val.beq_iff (v₁ : Val) : ∀ v₂ : Val, v₁.beq v₂ = true ↔ v₁ = v₂ := by
  intro v₂
  match v₁, v₂ with
  | .str s₁, .str s₂ => simp [Val.beq]
  | .cls k₁, .cls k₂ => simp [Val.beq, Cls.beq_iff]
  | .group g₁, .group g₂ => simp [Val.beq, beqItems_iff g₁ g₂]
  | .str _, .cls _ => simp [Val.beq]
  | .str _, .group _ => simp [Val.beq]
  | .cls _, .str _ => simp [Val.beq]
  | .cls _, .group _ => simp [Val.beq]
  | .group _, .str _ => simp [Val.beq]
  | .group _, .cls _ => simp [Val.beq]
theorem beqItems_iff (g₁ : List (List (Str × Val))) : ∀ g₂ : List (List (Str × Val)),
    beqItems g₁ g₂ = true ↔ g₁ = g₂ := by
  intro g₂
  match g₁, g₂ with
  | [], [] => simp [beqItems]
  | [], _ :: _ => simp [beqItems]
  | _ :: _, [] => simp [beqItems]
  | a :: as, b :: bs => simp [beqItems, beqFields_iff a b, beqItems_iff as bs]
theorem beqFields_iff (c₁ : List (Str × Val)) : ∀ c₂ : List (Str × Val),
    beqFields c₁ c₂ = true ↔ c₁ = c₂ := by
  intro c₂
  match c₁, c₂ with
  | [], [] => simp [beqFields]
  | [], _ :: _ => simp [beqFields]
  | _ :: _, [] => simp [beqFields]
  | (t₁, v₁) :: r₁, (t₂, v₂) :: r₂ =>
    simp [beqFields, Val.beq_iff v₁ v₂, beqFields_iff r₁ r₂, and_assoc]
end

/-- container `==` holds exactly when the contents are the same -/
theorem eq_iff (a b : Cont) : eq a b = true ↔ a = b := beqFields_iff a b

end AsyncFix.Model.Container
