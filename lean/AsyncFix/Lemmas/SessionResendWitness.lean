import AsyncFix.Lemmas.SessionResendMain

/-!
C06: concrete connections and requests for the non-vacuity examples (`Props/C06.lean`) and the
machine-checked counter-example (`Findings/C06.lean`).  Rows are built by the model's own encoder
(`buildFrame`), i.e. they are what `send_msg` journals.
-/
namespace AsyncFix.Session.C06.Witness
open Msg AsyncFix.Generated AsyncFix.Generated.ConnEnum

def stamp0 : String := "20240102-00:00:00.000"
def envW : Env := { now := 1000, stamp := "20240102-00:00:01.000" }

/-- journal row `n`: message of type `ty` with content `tags`, as `send_msg` journals it -/
def row (n : Int) (ty : String) (tags : List (Nat × String)) : Int × Msg :=
  (n, buildFrame { sender := "S", target := "T" } stamp0 (Msg.mk' ty tags) n)

/-- application message `n` -/
def app (n : Int) : Int × Msg := row n "D" [(11, "o" ++ pyStr n), (58, "x")]

/-- ACTIVE initiator "S"→"T", next inbound 3, next outbound `nextOut`, the given outbound rows -/
def conn (nextOut : Int) (rows : Rows) : Conn :=
  { state := st_ACTIVE, role := roleInitiator, wasActive := true, sock := true,
    sess := { sender := "S", target := "T", nextIn := 3, nextOut := nextOut },
    journal := { out := rows, outSeq := nextOut - 1, inSeq := 2 } }

/-- ResendRequest(b, e) from the peer, numbered 3 -/
def req (b e : Int) : Msg :=
  buildFrame { sender := "T", target := "S" } envW.stamp
    (Msg.mk' mResendRequest [(tBeginSeqNo, pyStr b), (tEndSeqNo, pyStr e)]) 3

theorem rowOK_row (n : Int) (ty : String) (tags : List (Nat × String)) (hn : 0 ≤ n)
    (hty : isLatin1 ty = true) (htags : tags.all (fun p => isLatin1 p.2) = true)
    (h10 : (Msg.mk' ty tags).has tCheckSum = false) : RowOK (row n ty tags).1 (row n ty tags).2 :=
  rowOK_buildFrame _ _ _ n (by decide) (by decide) (by decide) hty htags hn h10

theorem envelope_req (nextOut : Int) (rows : Rows) (b e : Int) :
    Envelope (conn nextOut rows) (req b e) where
  begin_ := get?_buildFrame_8 _ _ _ _
  sender := get?_buildFrame_49 _ _ _ _
  target := get?_buildFrame_56 _ _ _ _
  seq := ⟨pyStr 3, get?_buildFrame_34 _ _ _ _, pyInt_pyStr 3 (by decide)⟩

theorem req_req (b e : Int) (hb : 0 ≤ b) (he : 0 ≤ e) : Req (req b e) b e where
  mtype := rfl
  begin_ := ⟨pyStr b, by rw [req, get?_buildFrame_other _ _ _ _ _ (by decide)]; rfl, pyInt_pyStr b hb⟩
  end_ := ⟨pyStr e, by rw [req, get?_buildFrame_other _ _ _ _ _ (by decide)]; rfl, pyInt_pyStr e he⟩

end AsyncFix.Session.C06.Witness
