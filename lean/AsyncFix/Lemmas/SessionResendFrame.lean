import AsyncFix.Lemmas.SessionResendTags

/-!
C06 helper lemmas, part 3: the message `_process_resend` builds from a journal row
(`prepareReplay`, as the total function `replayMsg` on well-formed rows) and the fields of the frame
`Codec.encode` makes of a message (`buildFrame`).
-/
namespace AsyncFix.Session.C06
open Msg

def delHeader (r : Msg) : Msg :=
  ((((((r.delR tMsgType).delR tBeginString).delR tBodyLength).delR tSendingTime).delR
    tSenderCompID).delR tTargetCompID).delR tCheckSum

def replayMsg (row : Msg) : Msg :=
  let r1 := row.setR tPossDupFlag "Y"
  delHeader (if r1.has tOrigSendingTime then r1
            else r1.setR tOrigSendingTime ((r1.get? tSendingTime).getD ""))

theorem dels_ok (r : Msg) (h35 : r.has tMsgType = true) (h8 : r.has tBeginString = true)
    (h9 : r.has tBodyLength = true) (h52 : r.has tSendingTime = true)
    (h49 : r.has tSenderCompID = true) (h56 : r.has tTargetCompID = true)
    (h10 : r.has tCheckSum = true) :
    (do let r ← r.del tMsgType
        let r ← r.del tBeginString
        let r ← r.del tBodyLength
        let r ← r.del tSendingTime
        let r ← r.del tSenderCompID
        let r ← r.del tTargetCompID
        r.del tCheckSum) = .ok (delHeader r) := by
  simp only [has_eq] at *
  have e1 := del_of_has r tMsgType (by rw [has_eq]; exact h35)
  have e2 := del_of_has (r.delR tMsgType) tBeginString
    (by rw [has_eq, get?_delR]; simpa [tBeginString, tMsgType] using h8)
  have e3 := del_of_has ((r.delR tMsgType).delR tBeginString) tBodyLength
    (by rw [has_eq]; simp only [get?_delR]; simpa [tBeginString, tMsgType, tBodyLength] using h9)
  have e4 := del_of_has (((r.delR tMsgType).delR tBeginString).delR tBodyLength) tSendingTime
    (by rw [has_eq]; simp only [get?_delR]
        simpa [tBeginString, tMsgType, tBodyLength, tSendingTime] using h52)
  have e5 := del_of_has ((((r.delR tMsgType).delR tBeginString).delR tBodyLength).delR tSendingTime)
    tSenderCompID
    (by rw [has_eq]; simp only [get?_delR]
        simpa [tBeginString, tMsgType, tBodyLength, tSendingTime, tSenderCompID] using h49)
  have e6 := del_of_has (((((r.delR tMsgType).delR tBeginString).delR tBodyLength).delR
      tSendingTime).delR tSenderCompID) tTargetCompID
    (by rw [has_eq]; simp only [get?_delR]
        simpa [tBeginString, tMsgType, tBodyLength, tSendingTime, tSenderCompID, tTargetCompID]
          using h56)
  have e7 := del_of_has ((((((r.delR tMsgType).delR tBeginString).delR tBodyLength).delR
      tSendingTime).delR tSenderCompID).delR tTargetCompID) tCheckSum
    (by rw [has_eq]; simp only [get?_delR]
        simpa [tBeginString, tMsgType, tBodyLength, tSendingTime, tSenderCompID, tTargetCompID,
          tCheckSum] using h10)
  simp only [bind, Except.bind, e1, e2, e3, e4, e5, e6, e7, delHeader]

theorem prepareReplay_ok {n : Int} {row : Msg} (h : RowOK n row) :
    prepareReplay row = .ok (replayMsg row) := by
  have h35 : row.has tMsgType = true := by rw [has_eq, h.tag35]; rfl
  have h8 := h.has8; have h9 := h.has9; have h52 := h.has52; have h49 := h.has49
  have h56 := h.has56; have h10 := h.has10
  have keep : ∀ t, t ≠ tPossDupFlag → row.has t = true →
      (row.setR tPossDupFlag "Y").has t = true := by
    intro t ht hh
    rw [has_eq, get?_setR, if_neg ht]; exact hh
  unfold prepareReplay replayMsg
  simp only [set_replace]
  by_cases h122 : (row.setR tPossDupFlag "Y").has tOrigSendingTime = true
  · have key := dels_ok _ (keep _ (by decide) h35) (keep _ (by decide) h8) (keep _ (by decide) h9)
      (keep _ (by decide) h52) (keep _ (by decide) h49) (keep _ (by decide) h56)
      (keep _ (by decide) h10)
    simp only [bind, Except.bind, pure, Except.pure, h122, if_true] at key ⊢
    exact key
  · have h122' : (row.setR tPossDupFlag "Y").has tOrigSendingTime = false := by simpa using h122
    have hst : ∃ st, (row.setR tPossDupFlag "Y").get? tSendingTime = some st := by
      have := keep _ (by decide) h52
      rw [has_eq, Option.isSome_iff_exists] at this; exact this
    obtain ⟨st, hst⟩ := hst
    have keep2 : ∀ t, t ≠ tOrigSendingTime → (row.setR tPossDupFlag "Y").has t = true →
        ((row.setR tPossDupFlag "Y").setR tOrigSendingTime st).has t = true := by
      intro t ht hh
      rw [has_eq, get?_setR, if_neg ht]; exact hh
    have key := dels_ok _ (keep2 _ (by decide) (keep _ (by decide) h35))
      (keep2 _ (by decide) (keep _ (by decide) h8)) (keep2 _ (by decide) (keep _ (by decide) h9))
      (keep2 _ (by decide) (keep _ (by decide) h52)) (keep2 _ (by decide) (keep _ (by decide) h49))
      (keep2 _ (by decide) (keep _ (by decide) h56)) (keep2 _ (by decide) (keep _ (by decide) h10))
    simp only [bind, Except.bind, pure, Except.pure, h122', Msg.get, hst, set_new _ _ _ h122',
      Option.getD, Bool.false_eq_true, if_false] at key ⊢
    exact key

/-! ### fields of `replayMsg` -/

theorem get?_delHeader (r : Msg) (t : Nat)
    (ht : t ≠ tMsgType ∧ t ≠ tBeginString ∧ t ≠ tBodyLength ∧ t ≠ tSendingTime ∧ t ≠ tSenderCompID ∧
      t ≠ tTargetCompID ∧ t ≠ tCheckSum) : (delHeader r).get? t = r.get? t := by
  obtain ⟨a1, a2, a3, a4, a5, a6, a7⟩ := ht
  simp only [delHeader, get?_delR, a1, a2, a3, a4, a5, a6, a7, if_false]

theorem filter_delHeader (q : Nat × String → Bool) (r : Msg)
    (h : ∀ t w, t ∈ [tMsgType, tBeginString, tBodyLength, tSendingTime, tSenderCompID, tTargetCompID,
      tCheckSum] → q (t, w) = false) : (delHeader r).tags.filter q = r.tags.filter q := by
  unfold delHeader
  rw [filter_delR q _ _ (fun w => h _ w (by simp)), filter_delR q _ _ (fun w => h _ w (by simp)),
    filter_delR q _ _ (fun w => h _ w (by simp)), filter_delR q _ _ (fun w => h _ w (by simp)),
    filter_delR q _ _ (fun w => h _ w (by simp)), filter_delR q _ _ (fun w => h _ w (by simp)),
    filter_delR q _ _ (fun w => h _ w (by simp))]

theorem all_delHeader (f : Nat × String → Bool) (r : Msg) (h : r.tags.all f = true) :
    (delHeader r).tags.all f = true := by
  unfold delHeader
  exact all_delR _ _ _ (all_delR _ _ _ (all_delR _ _ _ (all_delR _ _ _ (all_delR _ _ _
    (all_delR _ _ _ (all_delR _ _ _ h))))))

@[simp] theorem mtype_delHeader (r : Msg) : (delHeader r).mtype = r.mtype := rfl

theorem mtype_replayMsg (row : Msg) : (replayMsg row).mtype = row.mtype := by
  unfold replayMsg
  simp only [mtype_delHeader]
  split <;> rfl

theorem seq_replayMsg (row : Msg) : (replayMsg row).get? tMsgSeqNum = row.get? tMsgSeqNum := by
  unfold replayMsg
  simp only
  rw [get?_delHeader _ _ (by decide)]
  split
  · rw [get?_setR, if_neg (by decide)]
  · rw [get?_setR, if_neg (by decide), get?_setR, if_neg (by decide)]

theorem possDup_replayMsg (row : Msg) : (replayMsg row).get? tPossDupFlag = some "Y" := by
  unfold replayMsg
  simp only
  rw [get?_delHeader _ _ (by decide)]
  split
  · rw [get?_setR, if_pos rfl]
  · rw [get?_setR, if_neg (by decide), get?_setR, if_pos rfl]

theorem orig_replayMsg {n : Int} {row : Msg} (h : RowOK n row) :
    ∃ t, origTime row = some t ∧ (replayMsg row).get? tOrigSendingTime = some t := by
  unfold replayMsg origTime
  simp only
  rw [get?_delHeader _ _ (by decide)]
  have e122 : (row.setR tPossDupFlag "Y").get? tOrigSendingTime = row.get? tOrigSendingTime := by
    rw [get?_setR, if_neg (by decide)]
  have e52 : (row.setR tPossDupFlag "Y").get? tSendingTime = row.get? tSendingTime := by
    rw [get?_setR, if_neg (by decide)]
  rw [has_eq, e122, e52]
  cases h122 : row.get? tOrigSendingTime with
  | some t =>
    refine ⟨t, rfl, ?_⟩
    simp only [Option.isSome_some, if_true]
    rw [e122, h122]
  | none =>
    have := h.has52
    rw [has_eq, Option.isSome_iff_exists] at this
    obtain ⟨st, hst⟩ := this
    refine ⟨st, hst, ?_⟩
    simp only [Option.isSome_none, Bool.false_eq_true, if_false]
    rw [get?_setR, if_pos rfl, hst]; rfl

theorem body_replayMsg (row : Msg) :
    (replayMsg row).tags.filter (fun p => !envelopeTags.contains p.1) = appBody row := by
  unfold replayMsg appBody
  simp only
  rw [filter_delHeader _ _ (by intro t w ht; simp at ht; rcases ht with h|h|h|h|h|h|h <;> subst h <;> rfl)]
  split
  · exact filter_setR _ _ _ _ (by intro w; rfl)
  · rw [filter_setR _ _ _ _ (by intro w; rfl)]
    exact filter_setR _ _ _ _ (by intro w; rfl)

theorem latin_replayMsg {n : Int} {row : Msg} (h : RowOK n row) :
    (replayMsg row).tags.all (fun p => isLatin1 p.2) = true := by
  have hl : row.tags.all (fun p => isLatin1 p.2) = true := h.latin
  have h1 : (row.setR tPossDupFlag "Y").tags.all (fun p => isLatin1 p.2) = true :=
    all_setR _ _ _ _ hl (by decide)
  unfold replayMsg
  simp only
  apply all_delHeader
  split
  · exact h1
  · apply all_setR _ _ _ _ h1
    cases hst : (row.setR tPossDupFlag "Y").get? tSendingTime with
    | none => decide
    | some st => exact all_of_lookup (fun p => isLatin1 p.2) _ tSendingTime st h1 hst

/-! ### fields of `buildFrame` -/

theorem get?_buildFrame_8 (s : Session) (st : String) (m : Msg) (k : Int) :
    (buildFrame s st m k).get? tBeginString = some Generated.Proto.beginString := by
  simp [buildFrame, Msg.get?, lookup, tBeginString]

theorem get?_buildFrame_35 (s : Session) (st : String) (m : Msg) (k : Int) :
    (buildFrame s st m k).get? tMsgType = some m.mtype := by
  simp [buildFrame, Msg.get?, lookup, tBeginString, tBodyLength, tMsgType]

theorem get?_buildFrame_49 (s : Session) (st : String) (m : Msg) (k : Int) :
    (buildFrame s st m k).get? tSenderCompID = some s.sender := by
  simp [buildFrame, bodyFields, Msg.get?, lookup, tBeginString, tBodyLength, tMsgType, tSenderCompID]

theorem get?_buildFrame_56 (s : Session) (st : String) (m : Msg) (k : Int) :
    (buildFrame s st m k).get? tTargetCompID = some s.target := by
  simp [buildFrame, bodyFields, Msg.get?, lookup, tBeginString, tBodyLength, tMsgType, tSenderCompID,
    tTargetCompID]

theorem get?_buildFrame_34 (s : Session) (st : String) (m : Msg) (k : Int) :
    (buildFrame s st m k).get? tMsgSeqNum = some (pyStr k) := by
  simp [buildFrame, bodyFields, Msg.get?, lookup, tBeginString, tBodyLength, tMsgType, tSenderCompID,
    tTargetCompID, tMsgSeqNum]

theorem get?_buildFrame_52 (s : Session) (st : String) (m : Msg) (k : Int) :
    (buildFrame s st m k).get? tSendingTime = some st := by
  simp [buildFrame, bodyFields, Msg.get?, lookup, tBeginString, tBodyLength, tMsgType, tSenderCompID,
    tTargetCompID, tMsgSeqNum, tSendingTime]

theorem has_buildFrame_9 (s : Session) (st : String) (m : Msg) (k : Int) :
    (buildFrame s st m k).has tBodyLength = true := by
  simp [buildFrame, Msg.has, Msg.get?, lookup, tBeginString, tBodyLength]

end AsyncFix.Session.C06
