import AsyncFix.Lemmas.BridgeRender
import AsyncFix.Lemmas.CodecEncodeShape
import AsyncFix.Props.C02

/-!
Bridge between the two model families, part 2: **the session model's abstract frame IS the codec's
byte frame**.

* `buildFrame_flds` / `render_buildFrame`: the fields of `Session.buildFrame` are, one for one, the
  fields of the codec's `mkFrame` for the wire fields `sessFlds` (35, 49, 56, 34, 52, then the
  message's own tags minus 34/52/49/56): BodyLength computed from `fieldLen` is the byte count,
  CheckSum computed from `fieldSum` is the byte sum.
* `bodyOf_toCodec`: the session model's tag filter is the codec's `bodyOf` (`skipTags`).
* `render_buildFrame_assemble` / `render_buildFrame_encode`: hence the codec encoder, run on the
  corresponding codec message / session, returns exactly `render (buildFrame …)`.
* `buildFrame_refframe`, `render_lt_256`: the rendered frame is a `RefFrame` of single bytes.
-/
namespace AsyncFix.Bridge

open AsyncFix.Model AsyncFix.Generated
open AsyncFix.Model.Codec (Bytes SOH EQS natToDec intToDec dec3 Fld fieldBytes bodyBytes mkFrame
  Node skipTags tag34 tag49 tag52 tag56 tag43 tag35 bodyOf hdrFlds assemble encode selectSeq)

/-- the wire fields between BodyLength and CheckSum of the frame `buildFrame` describes -/
def sessFlds (s : Session.Session) (stamp : String) (m : Session.Msg) (seq : Int) : List Fld :=
  ((Session.tMsgType, m.mtype) :: Session.bodyFields s stamp m seq).map toFld

/-- rendering is `bodyBytes` of the frame's fields -/
theorem render_eq_bodyBytes (f : Session.Msg) : render f = bodyBytes (f.tags.map toFld) :=
  flatten_render_eq_bodyBytes f.tags

theorem sum_bodyBytes_toFld (ps : List (Nat × String)) :
    Codec.sum (bodyBytes (ps.map toFld)) = (ps.map Session.fieldSum).sum := by
  rw [← flatten_render_eq_bodyBytes, sum_flatten_render]

theorem length_bodyBytes_toFld (ps : List (Nat × String)) :
    (bodyBytes (ps.map toFld)).length = (ps.map Session.fieldLen).sum := by
  rw [← flatten_render_eq_bodyBytes, length_flatten_render]

theorem natToDec_small :
    natToDec 8 = [56] ∧ natToDec 9 = [57] ∧ natToDec 10 = [49, 48] ∧ natToDec 34 = tag34 ∧
    natToDec 35 = tag35 ∧ natToDec 49 = tag49 ∧ natToDec 52 = tag52 ∧ natToDec 56 = tag56 ∧
    natToDec 43 = tag43 := by
  refine ⟨?_, ?_, ?_, ?_, ?_, ?_, ?_, ?_, ?_⟩ <;> simp [natToDec, tag34, tag35, tag49, tag52, tag56, tag43]

/-- BodyLength as `buildFrame` computes it -/
def blenOf (s : Session.Session) (stamp : String) (m : Session.Msg) (seq : Int) : Nat :=
  ((Session.bodyFields s stamp m seq).map Session.fieldLen).sum + Session.fieldLen (Session.tMsgType, m.mtype)

/-- the frame's fields in front of CheckSum: everything the checksum covers -/
def preTags (s : Session.Session) (stamp : String) (m : Session.Msg) (seq : Int) : List (Nat × String) :=
  [(Session.tBeginString, Proto.beginString), (Session.tBodyLength, toString (blenOf s stamp m seq)),
   (Session.tMsgType, m.mtype)] ++ Session.bodyFields s stamp m seq

/-- CheckSum as `buildFrame` computes it -/
def ckOf (s : Session.Session) (stamp : String) (m : Session.Msg) (seq : Int) : Nat :=
  ((preTags s stamp m seq).map Session.fieldSum).sum % 256

theorem buildFrame_tags (s : Session.Session) (stamp : String) (m : Session.Msg) (seq : Int) :
    (Session.buildFrame s stamp m seq).tags =
      preTags s stamp m seq ++ [(Session.tCheckSum, Session.pad3 (ckOf s stamp m seq))] := rfl

/-- BodyLength: the session model's `fieldLen` sum is the byte count of the body -/
theorem length_sessFlds (s : Session.Session) (stamp : String) (m : Session.Msg) (seq : Int) :
    (bodyBytes (sessFlds s stamp m seq)).length = blenOf s stamp m seq := by
  rw [sessFlds, length_bodyBytes_toFld, List.map_cons, List.sum_cons, blenOf]; omega

theorem preFlds_sessFlds (s : Session.Session) (stamp : String) (m : Session.Msg) (seq : Int) :
    Codec.preFlds Proto.beginStringBytes (sessFlds s stamp m seq) = (preTags s stamp m seq).map toFld := by
  obtain ⟨h8, h9, -⟩ := natToDec_small
  rw [Codec.preFlds, length_sessFlds]
  simp only [preTags, sessFlds, List.map_cons, List.cons_append, List.nil_append, toFld,
    Session.tBeginString, Session.tBodyLength, h8, h9, beginString_agree, cps_toString_nat]

/-- CheckSum: the session model's `fieldSum` sum is the byte sum of everything in front of it -/
theorem frameCk_sessFlds (s : Session.Session) (stamp : String) (m : Session.Msg) (seq : Int) :
    Codec.frameCk Proto.beginStringBytes (sessFlds s stamp m seq) = ckOf s stamp m seq := by
  rw [Codec.frameCk, Codec.framePre_eq, preFlds_sessFlds, sum_bodyBytes_toFld, ckOf]

/-- **the fields of the session model's frame are the fields of the codec's `mkFrame`** -/
theorem buildFrame_flds (s : Session.Session) (stamp : String) (m : Session.Msg) (seq : Int) :
    (Session.buildFrame s stamp m seq).tags.map toFld =
      Codec.frameFlds Proto.beginStringBytes (sessFlds s stamp m seq) := by
  obtain ⟨-, -, h10, -⟩ := natToDec_small
  have hpad : cps (Session.pad3 (ckOf s stamp m seq)) = dec3 (ckOf s stamp m seq) :=
    cps_pad3 _ (by unfold ckOf; omega)
  rw [Codec.frameFlds, preFlds_sessFlds, Codec.ckFld, frameCk_sessFlds, buildFrame_tags]
  simp only [List.map_append, List.map_cons, List.map_nil, toFld, Session.tCheckSum, h10, hpad]

/-- **Bridge, frame level**: the wire bytes of the session model's frame are the codec's `mkFrame`
of the protocol's BeginString and the wire fields. -/
theorem render_buildFrame (s : Session.Session) (stamp : String) (m : Session.Msg) (seq : Int) :
    render (Session.buildFrame s stamp m seq) =
      mkFrame Proto.beginStringBytes (sessFlds s stamp m seq) := by
  rw [render_eq_bodyBytes, buildFrame_flds, Codec.mkFrame_eq_bodyBytes']

/-! ### the tag filter: `bodyFields` skips 34 / 52 / 49 / 56 exactly as `bodyOf` does -/

theorem natToDec_inj {a b : Nat} (h : natToDec a = natToDec b) : a = b := by
  rw [← Codec.decVal_natToDec a, ← Codec.decVal_natToDec b, h]

/-- the session model's filter predicate on a tag -/
def keepTag (t : Nat) : Bool :=
  decide (t ≠ Session.tMsgSeqNum) && decide (t ≠ Session.tSendingTime) &&
    decide (t ≠ Session.tSenderCompID) && decide (t ≠ Session.tTargetCompID)

theorem skipTags_natToDec (t : Nat) : (!skipTags.contains (natToDec t)) = keepTag t := by
  obtain ⟨-, -, -, h34, -, h49, h52, h56, -⟩ := natToDec_small
  have e : ∀ k : Nat, (natToDec t == natToDec k) = decide (t = k) := by
    intro k
    by_cases h : t = k
    · subst h; simp
    · have : natToDec t ≠ natToDec k := fun hh => h (natToDec_inj hh)
      simp [h, this]
  simp only [skipTags, List.contains_cons, List.contains_nil, Bool.or_false, ← h34, ← h49, ← h52,
    ← h56, e, keepTag, Session.tMsgSeqNum, Session.tSendingTime, Session.tSenderCompID,
    Session.tTargetCompID]
  by_cases a : t = 34 <;> by_cases b : t = 52 <;> by_cases c : t = 49 <;> by_cases d : t = 56 <;>
    simp [a, b, c, d]

/-- a session-model field as a codec dict entry -/
def toLeaf (p : Nat × String) : Node := .leaf (natToDec p.1) (cps p.2)

theorem toCodec_body (m : Session.Msg) : (toCodec m).body = m.tags.map toLeaf := rfl

/-- the codec's `bodyOf` of the corresponding message = the session model's filtered tags -/
theorem bodyOf_toCodec (m : Session.Msg) :
    bodyOf (toCodec m) = (m.tags.filter fun p => keepTag p.1).map toLeaf := by
  rw [bodyOf, toCodec_body, List.filter_map]
  congr 1
  apply List.filter_congr
  intro p _
  simp only [Function.comp, toLeaf, Node.tag]
  exact skipTags_natToDec p.1

theorem bodyFields_eq (s : Session.Session) (stamp : String) (m : Session.Msg) (seq : Int) :
    Session.bodyFields s stamp m seq =
      [(Session.tSenderCompID, s.sender), (Session.tTargetCompID, s.target),
       (Session.tMsgSeqNum, Session.pyStr seq), (Session.tSendingTime, stamp)]
        ++ m.tags.filter fun p => keepTag p.1 := by
  unfold Session.bodyFields keepTag
  rfl

theorem addCont_leaves (ps : List (Nat × String)) :
    Codec.addCont (ps.map toLeaf) = .ok ((ps.map toFld).map fun f => fieldBytes f.tag f.val) := by
  induction ps with
  | nil => rfl
  | cons p r ih =>
    simp only [List.map_cons, Codec.addCont, ih, toLeaf, Codec.addTag, toFld, Codec.field_eq_fieldBytes]
    rfl

/-- the codec's header + body field list for the corresponding message is `sessFlds` -/
theorem hdrFlds_sessFlds (s : Session.Session) (stamp : String) (m : Session.Msg) (seq : Int) :
    hdrFlds (cps m.mtype) (cps s.sender) (cps s.target) (intToDec seq) (cps stamp)
        ++ (m.tags.filter fun p => keepTag p.1).map toFld = sessFlds s stamp m seq := by
  obtain ⟨-, -, -, h34, h35, h49, h52, h56, -⟩ := natToDec_small
  simp only [sessFlds, bodyFields_eq, hdrFlds, List.map_cons, List.cons_append,
    List.nil_append, toFld, Session.tMsgType, Session.tSenderCompID, Session.tTargetCompID,
    Session.tMsgSeqNum, Session.tSendingTime, h34, h35, h49, h52, h56, cps_pyStr]

/-- **Bridge, encoder level (sequence number given)**: the codec's `assemble`, run on the
corresponding codec message and session with the same number and clock text, returns exactly the
bytes of the session model's frame. -/
theorem render_buildFrame_assemble (s : Session.Session) (stamp : String) (m : Session.Msg) (seq : Int) :
    assemble Proto.beginStringBytes (toCodec m) (toCodecSession s) (intToDec seq) (cps stamp) =
      .ok (render (Session.buildFrame s stamp m seq)) := by
  have hflat : Codec.addCont (bodyOf (toCodec m)) =
      .ok (((m.tags.filter fun p => keepTag p.1).map toFld).map fun f => fieldBytes f.tag f.val) := by
    rw [bodyOf_toCodec, addCont_leaves]
  rw [Codec.assemble_eq_mkFrame _ _ _ _ _ _ hflat, render_buildFrame]
  show Except.ok (mkFrame _ (hdrFlds (cps m.mtype) (cps s.sender) (cps s.target) (intToDec seq) (cps stamp)
    ++ _)) = _
  rw [hdrFlds_sessFlds]

/-! ### `Codec.encode` for a message that gets a fresh number -/

theorem find_toLeaf (t : Nat) (ps : List (Nat × String)) :
    List.find? (fun n => n.tag == natToDec t) (ps.map toLeaf) =
      (Session.Msg.lookup t ps).map fun v => Node.leaf (natToDec t) (cps v) := by
  induction ps with
  | nil => rfl
  | cons p r ih =>
    obtain ⟨k, v⟩ := p
    by_cases h : k = t
    · subst h; simp [toLeaf, Node.tag, Session.Msg.lookup]
    · have : natToDec k ≠ natToDec t := fun hh => h (natToDec_inj hh)
      simp [toLeaf, Node.tag, Session.Msg.lookup, h, this] at ih ⊢
      exact ih

/-- **Bridge, encoder level (allocating case)**: for a message that is not a SequenceReset and
does not carry PossDupFlag=Y, `Codec.encode` on the corresponding codec message / session returns the
bytes of `buildFrame` with the session's next number, and consumes that number – as
`Session.encodeSeq` + `buildFrame` in `sendCore` do. -/
theorem render_buildFrame_encode (s : Session.Session) (stamp : String) (m : Session.Msg)
    (hm : m.mtype ≠ Session.mSequenceReset) (hpd : m.get? Session.tPossDupFlag ≠ some "Y") :
    encode Proto.beginStringBytes (toCodec m) (toCodecSession s) false (cps stamp) =
      (.ok (render (Session.buildFrame { s with nextOut := s.nextOut + 1 } stamp m s.nextOut)),
       toCodecSession { s with nextOut := s.nextOut + 1 }) := by
  obtain ⟨-, -, -, -, -, -, -, -, h43⟩ := natToDec_small
  have hmt : ((toCodec m).mtype == Codec.mtSeqReset) = false := by
    have : cps m.mtype ≠ cps Session.mSequenceReset := fun hh => hm (cps_inj hh)
    have e : cps Session.mSequenceReset = Codec.mtSeqReset := by decide
    rw [e] at this
    simpa [toCodec] using this
  have hsel : selectSeq (toCodec m) (toCodecSession s) false =
      .ok (intToDec s.nextOut, toCodecSession { s with nextOut := s.nextOut + 1 }) := by
    have hf := find_toLeaf Session.tPossDupFlag m.tags
    rw [show Session.tPossDupFlag = 43 from rfl, h43] at hf
    unfold Session.Msg.get? at hpd
    cases hl : Session.Msg.lookup Session.tPossDupFlag m.tags with
    | none =>
      rw [show Session.tPossDupFlag = 43 from rfl] at hl
      rw [hl] at hf
      simp [selectSeq, hmt, Codec.Cont.find?, toCodec_body, hf, bind, Except.bind, pure, Except.pure,
        toCodecSession]
    | some v =>
      have hv : (cps v == [89]) = false := by
        have hne : v ≠ "Y" := fun hh => hpd (by rw [hl, hh])
        have : cps v ≠ cps "Y" := fun hh => hne (cps_inj hh)
        have e : cps "Y" = [89] := by decide
        rw [e] at this
        simpa using this
      rw [show Session.tPossDupFlag = 43 from rfl] at hl
      rw [hl] at hf
      simp [selectSeq, hmt, Codec.Cont.find?, toCodec_body, hf, bind, Except.bind, pure, Except.pure,
        toCodecSession, hv]
  unfold encode
  rw [hsel]
  simp only
  rw [show toCodecSession { s with nextOut := s.nextOut + 1 } =
      toCodecSession ({ s with nextOut := s.nextOut + 1 } : Session.Session) from rfl,
    render_buildFrame_assemble]

/-! ### the rendered frame is a well-formed frame of single bytes -/

theorem beginStringBytes_no_SOH : SOH ∉ Proto.beginStringBytes := by decide

theorem buildFrame_refframe (s : Session.Session) (stamp : String) (m : Session.Msg) (seq : Int) :
    AsyncFix.Props.C02.RefFrame (render (Session.buildFrame s stamp m seq)) :=
  AsyncFix.Props.C02.assemble_refframe _ _ _ _ _ _ beginStringBytes_no_SOH
    (render_buildFrame_assemble s stamp m seq)

/-- what `frameLatin1` buys: every byte handed to the transport is a single byte -/
theorem render_lt_256 (f : Session.Msg) (h : Session.frameLatin1 f = true) :
    ∀ b ∈ render f, b < 256 := by
  intro b hb
  simp only [render, List.mem_flatten, List.mem_map] at hb
  obtain ⟨l, ⟨p, hp, rfl⟩, hb⟩ := hb
  simp only [Session.frameLatin1, List.all_eq_true] at h
  have hp2 := h p hp
  simp only [Session.isLatin1, List.all_eq_true, decide_eq_true_eq] at hp2
  simp only [renderField, List.mem_append, List.mem_cons, List.not_mem_nil, or_false] at hb
  rcases hb with hb | rfl | hb | rfl
  · have := List.all_eq_true.mp (Codec.natToDec_all_digit p.1) b hb
    simp [Codec.isDigit] at this; omega
  · decide
  · simp only [cps, List.mem_map] at hb
    obtain ⟨c, hc, rfl⟩ := hb
    exact hp2 c hc
  · decide

end AsyncFix.Bridge
