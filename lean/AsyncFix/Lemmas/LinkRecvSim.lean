import AsyncFix.Lemmas.LinkRecvB
import AsyncFix.Lemmas.LinkRecvD
import AsyncFix.Lemmas.LinkRecvE

/-!
C07: `Session.recv` on a well-formed frame agrees with the abstract receiver `arecv` (assembly of the cases).
-/
namespace AsyncFix.Link

open AsyncFix.Session AsyncFix.Generated AsyncFix.Generated.ConnEnum
open AsyncFix.Session.Msg

/-- a connection with a transport rests in one of four states -/
theorem state_of_sock {s : Side} {c : Conn} (hc : ConnGood s c) (hs : c.sock = true) :
    c.state = st_NETWORK_CONN_ESTABLISHED ∨ c.state = st_LOGON_INITIAL_SENT ∨ c.state = st_RESENDREQ_AWAITING ∨
      c.state = st_ACTIVE := by
  have h := hc.sock
  rw [hs] at h
  have h3 : st_DISCONNECTED_BROKEN_CONN < c.state := by simpa using h.symm
  rcases hc.st with h | h | h | h | h | h | h
  · rw [h] at h3; exact absurd h3 (by decide)
  · rw [h] at h3; exact absurd h3 (by decide)
  · rw [h] at h3; exact absurd h3 (by decide)
  · exact Or.inl h
  · exact Or.inr (Or.inl h)
  · exact Or.inr (Or.inr (Or.inl h))
  · exact Or.inr (Or.inr (Or.inr h))

theorem absSt_conn {c : Conn} (h : c.state = st_NETWORK_CONN_ESTABLISHED) : (absConn c).st = .conn := by
  simp [absConn, absSt, h, st_NETWORK_CONN_ESTABLISHED, st_DISCONNECTED_BROKEN_CONN]
theorem absSt_sent {c : Conn} (h : c.state = st_LOGON_INITIAL_SENT) : (absConn c).st = .sent := by
  simp [absConn, absSt, h, st_NETWORK_CONN_ESTABLISHED, st_DISCONNECTED_BROKEN_CONN, st_LOGON_INITIAL_SENT]
theorem absSt_awaiting {c : Conn} (h : c.state = st_RESENDREQ_AWAITING) : (absConn c).st = .awaiting := by
  simp [absConn, absSt, h, st_NETWORK_CONN_ESTABLISHED, st_DISCONNECTED_BROKEN_CONN, st_LOGON_INITIAL_SENT,
    st_RESENDREQ_AWAITING]
theorem absSt_active {c : Conn} (h : c.state = st_ACTIVE) : (absConn c).st = .active := by
  simp [absConn, absSt, h, st_NETWORK_CONN_ESTABLISHED, st_DISCONNECTED_BROKEN_CONN, st_LOGON_INITIAL_SENT,
    st_RESENDREQ_AWAITING, st_ACTIVE]

theorem absConn_e (c : Conn) : (absConn c).e = c.sess.nextIn := rfl
theorem absConn_ini (c : Conn) : (absConn c).ini = (c.role == roleInitiator) := rfl

theorem ne_Y_of_none {f : Msg} (h : f.get? tPossDupFlag = none) : f.get? tPossDupFlag ≠ some "Y" := by
  rw [h]; exact fun hh => nomatch hh

/-- close a case: rewrite `arecv` on the abstract frame to the value the case lemma talks about -/
macro "arecv_case" h:term "using" "[" ts:Lean.Parser.Tactic.simpLemma,* "]" : tactic =>
  `(tactic| (have hh := $h
             have ee : arecv _ _ = _ := by
               simp [arecv, absConn_e, absConn_ini, AKind.pd, $ts,*]
               rfl
             rw [ee]; exact hh))

theorem recv_sim_app {s : Side} {env : Env} {c : Conn} {f : Msg} {n : Int}
    (hc : ConnGood s c) (hs : c.sock = true) (hi : InFrame c f n) (hl3 : isLatin1 env.stamp = true)
    (hA : f.mtype ≠ mLogon) (h2 : f.mtype ≠ mResendRequest) (h4 : f.mtype ≠ mSequenceReset) (h5 : f.mtype ≠ mLogout)
    (h0 : f.mtype ≠ mHeartbeat) (h1 : f.mtype ≠ mTestRequest) :
    StepOK s (arecv (absConn c) (absFrame f)) (recv srAll env c f).1 (recv srAll env c f).2 := by
  have hpd : f.get? tPossDupFlag ≠ some "Y" ∨ f.get? tPossDupFlag = some "Y" := by
    by_cases h : f.get? tPossDupFlag = some "Y"
    · exact Or.inr h
    · exact Or.inl h
  have hframe : absFrame f = ⟨n, .app (payloadOf f) (f.get? tPossDupFlag == some "Y")⟩ := by
    have hk := absFrame_app hA h2 h4 h5
    have hsq := absFrame_seq hi.h34
    cases hf : absFrame f with
    | mk sq kd => rw [hf] at hk hsq; simp_all
  rw [hframe]
  rcases state_of_sock hc hs with hst | hst | hst | hst
  · have ha := absSt_conn hst
    by_cases hn : n < c.sess.nextIn
    · have hh := recv_tooLow (env := env) hc hi hl3 (Or.inl hst) h4 hn
      have ee : arecv (absConn c) ⟨n, .app (payloadOf f) (f.get? tPossDupFlag == some "Y")⟩ =
          (absConn c).dropLogout := by simp [arecv, absConn_e, ha, hn]
      rw [ee]; exact hh
    · have hh := recv_conn_drop (env := env) hc hi hst hA (Or.inl (by omega))
      have ee : arecv (absConn c) ⟨n, .app (payloadOf f) (f.get? tPossDupFlag == some "Y")⟩ =
          { c := (absConn c).drop } := by simp [arecv, absConn_e, ha, hn]
      rw [ee]; exact hh
  · have ha := absSt_sent hst
    by_cases hn : n < c.sess.nextIn
    · have hh := recv_tooLow (env := env) hc hi hl3 (Or.inr (Or.inl hst)) h4 hn
      have ee : arecv (absConn c) ⟨n, .app (payloadOf f) (f.get? tPossDupFlag == some "Y")⟩ =
          (absConn c).dropLogout := by simp [arecv, absConn_e, ha, hn]
      rw [ee]; exact hh
    · have hh := recv_sent_drop (env := env) hc hi hst hA h5 (Or.inl (by omega))
      have ee : arecv (absConn c) ⟨n, .app (payloadOf f) (f.get? tPossDupFlag == some "Y")⟩ =
          { c := (absConn c).drop } := by simp [arecv, absConn_e, ha, hn]
      rw [ee]; exact hh
  · have ha := absSt_awaiting hst
    by_cases hn : n < c.sess.nextIn
    · rcases hpd with hpd | hpd
      · have hh := recv_tooLow (env := env) hc hi hl3 (Or.inr (Or.inr (Or.inr ⟨hst, hpd⟩))) h4 hn
        have ee : arecv (absConn c) ⟨n, .app (payloadOf f) (f.get? tPossDupFlag == some "Y")⟩ =
            (absConn c).dropLogout := by
          have : (f.get? tPossDupFlag == some "Y") = false := by simpa using hpd
          simp [arecv, absConn_e, ha, hn, this, AKind.pd]
        rw [ee]; exact hh
      · have hh := recv_app_dup_awaiting (env := env) hc hi hst hA h2 h4 h5 h0 h1 hpd hn
        have hn1 : ¬ n > c.sess.nextIn := by omega
        have hn2 : ¬ n = c.sess.nextIn := by omega
        have ee : arecv (absConn c) ⟨n, .app (payloadOf f) (f.get? tPossDupFlag == some "Y")⟩ =
            { c := absConn c } := by simp [arecv, absConn_e, ha, hn, hpd, AKind.pd, hn1, hn2]
        rw [ee]; exact hh
    · by_cases hn' : n = c.sess.nextIn
      · have hh := recv_app_accept (env := env) hc hi (Or.inr hst) hA h2 h4 h5 h0 h1 hn'
        have ee : arecv (absConn c) ⟨n, .app (payloadOf f) (f.get? tPossDupFlag == some "Y")⟩ =
            { c := (absConn c).advance (c.sess.nextIn + 1), dl := [(n, payloadOf f)] } := by
          simp [arecv, absConn_e, ha, hn', AKind.pd]
        rw [ee]; exact hh
      · have hgt : c.sess.nextIn < n := by omega
        have hh := recv_app_gap_awaiting (env := env) hc hi hst hA h2 h4 h5 h0 h1 hgt
        have ee : arecv (absConn c) ⟨n, .app (payloadOf f) (f.get? tPossDupFlag == some "Y")⟩ =
            { c := absConn c } := by simp [arecv, absConn_e, ha, hn, AKind.pd, hgt]
        rw [ee]; exact hh
  · have ha := absSt_active hst
    by_cases hn : n < c.sess.nextIn
    · have hh := recv_tooLow (env := env) hc hi hl3 (Or.inr (Or.inr (Or.inl hst))) h4 hn
      have ee : arecv (absConn c) ⟨n, .app (payloadOf f) (f.get? tPossDupFlag == some "Y")⟩ =
          (absConn c).dropLogout := by simp [arecv, absConn_e, ha, hn]
      rw [ee]; exact hh
    · by_cases hn' : n = c.sess.nextIn
      · have hh := recv_app_accept (env := env) hc hi (Or.inl hst) hA h2 h4 h5 h0 h1 hn'
        have ee : arecv (absConn c) ⟨n, .app (payloadOf f) (f.get? tPossDupFlag == some "Y")⟩ =
            { c := (absConn c).advance (c.sess.nextIn + 1), dl := [(n, payloadOf f)] } := by
          simp [arecv, absConn_e, ha, hn', AKind.pd]
        rw [ee]; exact hh
      · have hgt : c.sess.nextIn < n := by omega
        have hh := recv_app_gap_active (env := env) hc hi hl3 hst hA h2 h4 h5 h0 h1 hgt
        have ee : arecv (absConn c) ⟨n, .app (payloadOf f) (f.get? tPossDupFlag == some "Y")⟩ =
            { c := ((absConn c).askResend n).1, wr := [((absConn c).askResend n).2] } := by
          simp [arecv, absConn_e, ha, hn, AKind.pd, hgt]
        rw [ee]; exact hh

theorem absFrame_eq {f : Msg} {n : Int} {k : AKind} (hs : f.get? tMsgSeqNum = some (pyStr n))
    (hk : (absFrame f).kind = k) : absFrame f = ⟨n, k⟩ := by
  have hsq := absFrame_seq hs
  cases hf : absFrame f with
  | mk sq kd => rw [hf] at hk hsq; simp_all

theorem recv_sim_logout {s : Side} {env : Env} {c : Conn} {f : Msg} {n : Int}
    (hc : ConnGood s c) (hs : c.sock = true) (hi : InFrame c f n) (hl3 : isLatin1 env.stamp = true)
    (h5 : f.mtype = mLogout) (hpd : f.get? tPossDupFlag = none) :
    StepOK s (arecv (absConn c) (absFrame f)) (recv srAll env c f).1 (recv srAll env c f).2 := by
  rw [absFrame_eq hi.h34 (absFrame_logout h5)]
  have hA : f.mtype ≠ mLogon := by rw [h5]; decide
  have h4 : f.mtype ≠ mSequenceReset := by rw [h5]; decide
  by_cases hn : n < c.sess.nextIn
  · rcases state_of_sock hc hs with hst | hst | hst | hst
    · have hh := recv_tooLow (env := env) hc hi hl3 (Or.inl hst) h4 hn
      have ee : arecv (absConn c) ⟨n, .logout⟩ = (absConn c).dropLogout := by
        simp [arecv, absConn_e, absSt_conn hst, hn, AKind.pd]
      rw [ee]; exact hh
    · have hh := recv_tooLow (env := env) hc hi hl3 (Or.inr (Or.inl hst)) h4 hn
      have ee : arecv (absConn c) ⟨n, .logout⟩ = (absConn c).dropLogout := by
        simp [arecv, absConn_e, absSt_sent hst, hn, AKind.pd]
      rw [ee]; exact hh
    · have hh := recv_tooLow (env := env) hc hi hl3 (Or.inr (Or.inr (Or.inr ⟨hst, ne_Y_of_none hpd⟩))) h4 hn
      have ee : arecv (absConn c) ⟨n, .logout⟩ = (absConn c).dropLogout := by
        simp [arecv, absConn_e, absSt_awaiting hst, hn, AKind.pd]
      rw [ee]; exact hh
    · have hh := recv_tooLow (env := env) hc hi hl3 (Or.inr (Or.inr (Or.inl hst))) h4 hn
      have ee : arecv (absConn c) ⟨n, .logout⟩ = (absConn c).dropLogout := by
        simp [arecv, absConn_e, absSt_active hst, hn, AKind.pd]
      rw [ee]; exact hh
  · rcases state_of_sock hc hs with hst | hst | hst | hst
    · have hh := recv_conn_drop (env := env) hc hi hst hA (Or.inl (by omega))
      have ee : arecv (absConn c) ⟨n, .logout⟩ = { c := (absConn c).drop } := by
        simp [arecv, absConn_e, absSt_conn hst, hn]
      rw [ee]; exact hh
    · have hh := recv_logout (env := env) hc hi (Or.inl hst) h5 (by omega)
      have ee : arecv (absConn c) ⟨n, .logout⟩ = { c := (absConn c).drop } := by
        simp [arecv, absConn_e, absSt_sent hst, hn]
      rw [ee]; exact hh
    · have hh := recv_logout (env := env) hc hi (Or.inr (Or.inl hst)) h5 (by omega)
      have ee : arecv (absConn c) ⟨n, .logout⟩ = { c := (absConn c).drop } := by
        simp [arecv, absConn_e, absSt_awaiting hst, hn]
      rw [ee]; exact hh
    · have hh := recv_logout (env := env) hc hi (Or.inr (Or.inr hst)) h5 (by omega)
      have ee : arecv (absConn c) ⟨n, .logout⟩ = { c := (absConn c).drop } := by
        simp [arecv, absConn_e, absSt_active hst, hn]
      rw [ee]; exact hh

theorem recv_sim_gapFill {s : Side} {env : Env} {c : Conn} {f : Msg} {n nw : Int}
    (hc : ConnGood s c) (hs : c.sock = true) (hi : InFrame c f n) (hl3 : isLatin1 env.stamp = true)
    (hg : GapFrame f nw) :
    StepOK s (arecv (absConn c) (absFrame f)) (recv srAll env c f).1 (recv srAll env c f).2 := by
  rw [absFrame_eq hi.h34 (absFrame_gapFill hg.h4 hg.h36)]
  have hA : f.mtype ≠ mLogon := by rw [hg.h4]; decide
  have h5 : f.mtype ≠ mLogout := by rw [hg.h4]; decide
  rcases state_of_sock hc hs with hst | hst | hst | hst
  · have hh := recv_conn_drop (env := env) hc hi hst hA (Or.inr hg.h4)
    have ee : arecv (absConn c) ⟨n, .gapFill nw⟩ = { c := (absConn c).drop } := by
      simp [arecv, absConn_e, absSt_conn hst]
    rw [ee]; exact hh
  · have hh := recv_sent_drop (env := env) hc hi hst hA h5 (Or.inr hg.h4)
    have ee : arecv (absConn c) ⟨n, .gapFill nw⟩ = { c := (absConn c).drop } := by
      simp [arecv, absConn_e, absSt_sent hst]
    rw [ee]; exact hh
  · by_cases h1 : n = c.sess.nextIn ∧ n < nw
    · have hh := recv_gapFill_honoured (env := env) hc hi hg (Or.inr hst) h1.1 h1.2
      have ee : arecv (absConn c) ⟨n, .gapFill nw⟩ = { c := (absConn c).advance nw } := by
        simp [arecv, absConn_e, absSt_awaiting hst, h1.1, h1.2]
        intro h; omega
      rw [ee]; exact hh
    · have hcase : n < c.sess.nextIn ∨ (n = c.sess.nextIn ∧ nw ≤ n) ∨
          (c.sess.nextIn < n ∧ c.state = st_RESENDREQ_AWAITING) := by
        by_cases a : n < c.sess.nextIn
        · exact Or.inl a
        · by_cases b : n = c.sess.nextIn
          · exact Or.inr (Or.inl ⟨b, by omega⟩)
          · exact Or.inr (Or.inr ⟨by omega, hst⟩)
      have hh := recv_gapFill_ignored (env := env) hc hi hg (Or.inr hst) hcase
      have ee : arecv (absConn c) ⟨n, .gapFill nw⟩ = { c := absConn c } := by
        simp [arecv, absConn_e, absSt_awaiting hst]
        intro a b; exact absurd ⟨of_decide_eq_true a, by omega⟩ h1
      rw [ee]; exact hh
  · by_cases h1 : n = c.sess.nextIn ∧ n < nw
    · have hh := recv_gapFill_honoured (env := env) hc hi hg (Or.inl hst) h1.1 h1.2
      have ee : arecv (absConn c) ⟨n, .gapFill nw⟩ = { c := (absConn c).advance nw } := by
        simp [arecv, absConn_e, absSt_active hst, h1.1, h1.2]
        intro h; omega
      rw [ee]; exact hh
    · by_cases hgt : c.sess.nextIn < n
      · have hh := recv_gapFill_gap_active (env := env) hc hi hg hl3 hst hgt
        have ee : arecv (absConn c) ⟨n, .gapFill nw⟩ =
            { c := ((absConn c).askResend n).1, wr := [((absConn c).askResend n).2] } := by
          have : ¬ n = c.sess.nextIn := by omega
          simp [arecv, absConn_e, absSt_active hst, this, hgt]
        rw [ee]; exact hh
      · have hcase : n < c.sess.nextIn ∨ (n = c.sess.nextIn ∧ nw ≤ n) ∨
            (c.sess.nextIn < n ∧ c.state = st_RESENDREQ_AWAITING) := by
          by_cases a : n < c.sess.nextIn
          · exact Or.inl a
          · exact Or.inr (Or.inl ⟨by omega, by omega⟩)
        have hh := recv_gapFill_ignored (env := env) hc hi hg (Or.inl hst) hcase
        have ee : arecv (absConn c) ⟨n, .gapFill nw⟩ = { c := absConn c } := by
          simp [arecv, absConn_e, absSt_active hst, hgt]
          intro a b; exact absurd ⟨of_decide_eq_true a, by omega⟩ h1
        rw [ee]; exact hh

end AsyncFix.Link
