import AsyncFix.Lemmas.SessionResendStep

/-!
C06 helper lemmas, part 5: the replay / gap-fill loop of `_process_resend`.

`resendLoop_spec` is the induction over the recovered rows with the loop state
(`gap_fill_begin`, `gap_fill_end`, the journal written so far) as invariant: the frames written so far
form a `Chain` from the initial `gap_fill_begin` to the current one, every journal row is below the
current `gap_fill_begin` (so the next `persist_msg` cannot collide), and no replayable row of the
original journal `J` lies between the current `gap_fill_begin` and the next recovered row.
-/
namespace AsyncFix.Session.C06
open Msg AsyncFix.Generated AsyncFix.Generated.ConnEnum

/-- what stays fixed while the loop runs -/
structure LoopCtx (env : Env) (c : Conn) : Prop where
  inres : InResend c
  lsender : isLatin1 c.sess.sender = true
  ltarget : isLatin1 c.sess.target = true
  lstamp : isLatin1 env.stamp = true

theorem LoopCtx.withOut {env : Env} {c : Conn} (h : LoopCtx env c) (o : Rows) (os : Int) :
    LoopCtx env (withOut c o os) :=
  ⟨h.inres, h.lsender, h.ltarget, h.lstamp⟩

theorem chain_append {s : Session} {J : Rows} {sr : Msg → Bool} {a m z : Int} {xs ys : List Msg}
    (h1 : Chain s J sr a m xs) (h2 : Chain s J sr m z ys) : Chain s J sr a z (xs ++ ys) := by
  induction h1 with
  | nil => exact h2
  | replay hf hr hi _ ih => exact Chain.replay hf hr hi (ih h2)
  | gap hl hg hn _ ih => exact Chain.gap hl hg hn (ih h2)

theorem chain_le {s : Session} {J : Rows} {sr : Msg → Bool} {a z : Int} {xs : List Msg}
    (h : Chain s J sr a z xs) : a ≤ z := by
  induction h with
  | nil => exact Int.le_refl _
  | replay _ _ _ _ ih => omega
  | gap hl _ _ _ ih => omega

/-! ### the two kinds of frames -/

theorem isGapFill_buildFrame (s : Session) (st : String) (a z : Int) :
    IsGapFill s a z (buildFrame s st (gapFillMsg a z) a) where
  mtype := rfl
  tag35 := get?_buildFrame_35 s st _ a
  seq := get?_buildFrame_34 s st _ a
  newSeq := by rw [get?_buildFrame_other _ _ _ _ _ (by decide)]; rfl
  gapFill := by rw [get?_buildFrame_other _ _ _ _ _ (by decide)]; rfl
  body := by rw [appBody_buildFrame]; rfl
  begin_ := get?_buildFrame_8 s st _ a
  sender := get?_buildFrame_49 s st _ a
  target := get?_buildFrame_56 s st _ a

theorem isRetransmission_buildFrame (s : Session) (st : String) {n : Int} {row : Msg}
    (h : RowOK n row) : IsRetransmission s n row (buildFrame s st (replayMsg row) n) where
  mtype := mtype_replayMsg row
  tag35 := by rw [get?_buildFrame_35, mtype_replayMsg]
  seq := get?_buildFrame_34 s st _ n
  possDup := by rw [get?_buildFrame_other _ _ _ _ _ (by decide)]; exact possDup_replayMsg row
  orig := by rw [get?_buildFrame_other _ _ _ _ _ (by decide)]; exact orig_replayMsg h
  body := by rw [appBody_buildFrame]; exact body_replayMsg row
  begin_ := get?_buildFrame_8 s st _ n
  sender := get?_buildFrame_49 s st _ n
  target := get?_buildFrame_56 s st _ n

theorem rowOK_gapFrame {env : Env} {c : Conn} (h : LoopCtx env c) (a z : Int) (ha : 0 ≤ a) :
    RowOK a (buildFrame c.sess env.stamp (gapFillMsg a z) a) := by
  by_cases hz : 0 ≤ z
  · exact rowOK_buildFrame _ _ _ _ h.lsender h.ltarget h.lstamp (by show isLatin1 mSequenceReset = true; decide)
      (by simp [gapFillMsg, Msg.mk', isLatin1_pyStr a ha, isLatin1_pyStr z hz]; decide) ha rfl
  · -- a negative NewSeqNo renders as "-digits": still latin-1
    have hl : isLatin1 (pyStr z) = true := by
      unfold pyStr
      rw [Int.toString_eq_repr, Int.repr_eq_if, if_neg hz, isLatin1_append]
      have := isLatin1_natRepr (-z).toNat
      rw [Nat.toString_eq_repr] at this
      rw [this]; decide
    exact rowOK_buildFrame _ _ _ _ h.lsender h.ltarget h.lstamp (by show isLatin1 mSequenceReset = true; decide)
      (by simp [gapFillMsg, Msg.mk', isLatin1_pyStr a ha, hl]; decide) ha rfl

theorem rowOK_replayFrame {env : Env} {c : Conn} (h : LoopCtx env c) {n : Int} {row : Msg}
    (hr : RowOK n row) (hn : 0 ≤ n) : RowOK n (buildFrame c.sess env.stamp (replayMsg row) n) := by
  have hm : isLatin1 row.mtype = true :=
    all_of_lookup (fun p => isLatin1 p.2) _ tMsgType _ hr.latin hr.tag35
  refine rowOK_buildFrame _ _ _ _ h.lsender h.ltarget h.lstamp (by rw [mtype_replayMsg]; exact hm)
    (latin_replayMsg hr) hn ?_
  unfold replayMsg
  simp only [has_eq, delHeader, get?_delR, if_true]
  rfl

/-! ### an optional gap fill `[a, k)` -/

theorem gap_step (env : Env) (sr : Msg → Bool) (J : Rows) (c : Conn) (a k : Int)
    (hctx : LoopCtx env c) (ha : 0 ≤ a) (hak : a ≤ k)
    (hsorted : Rows.Sorted c.journal.out) (hlt : Rows.AllLt a c.journal.out)
    (hno : ∀ n row, a ≤ n → n < k → J.find n = some row → ¬ Replayable sr row) :
    ∃ (pre : Rows) (os : Int),
      (if a < k then sendMsg env (gapFillMsg a k) else pure ()) c =
        ⟨.ok (), withOut c (c.journal.out ++ pre) os, pre.map fun p => Effect.write p.2⟩ ∧
      Chain c.sess J sr a k (pre.map (·.2)) ∧
      Rows.Sorted (c.journal.out ++ pre) ∧ Rows.AllLt k (c.journal.out ++ pre) ∧
      (∀ p ∈ pre, RowOK p.1 p.2 ∧ a ≤ p.1) := by
  by_cases h : a < k
  · have hrow := rowOK_gapFrame hctx a k ha
    refine ⟨[(a, buildFrame c.sess env.stamp (gapFillMsg a k) a)], a, ?_, ?_, ?_, ?_, ?_⟩
    · rw [if_pos h]
      exact sendMsg_keep env _ c a (pyStr a) hctx.inres (Or.inl rfl) rfl (pyInt_pyStr a ha)
        hrow.latin hlt
    · exact Chain.gap h (isGapFill_buildFrame _ _ _ _) hno (Chain.nil k)
    · exact Rows.sorted_append_singleton hsorted hlt
    · exact Rows.allLt_append_singleton (Rows.allLt_mono hak hlt) h
    · intro p hp
      simp only [List.mem_singleton] at hp
      subst hp
      exact ⟨hrow, Int.le_refl _⟩
  · have hk : k = a := by omega
    subst hk
    refine ⟨[], c.journal.outSeq, ?_, Chain.nil _, ?_, ?_, ?_⟩
    · rw [if_neg h]; simp [withOut]
    · simpa using hsorted
    · simpa using hlt
    · intro p hp; simp at hp

/-! ### the loop -/

theorem resendLoop_spec (env : Env) (sr : Msg → Bool) (J : Rows) (hJ : Rows.Sorted J) (hi : Int) :
    ∀ (rs : Rows) (gfb gfe : Int) (c : Conn),
      LoopCtx env c → 0 ≤ gfb → gfb ≤ hi → gfe ≤ hi →
      Rows.Sorted c.journal.out → Rows.AllLt gfb c.journal.out →
      Rows.Sorted rs → (∀ p ∈ rs, gfb ≤ p.1 ∧ p.1 < hi ∧ p ∈ J ∧ RowOK p.1 p.2) →
      (∀ n row, gfb ≤ n → n < hi → (n, row) ∈ J → Replayable sr row → (n, row) ∈ rs) →
      ∃ (sent : Rows) (gfb' gfe' os : Int),
        resendLoop env sr (rs.map (·.2)) gfb gfe c =
          ⟨.ok (gfb', gfe'), withOut c (c.journal.out ++ sent) os,
            sent.map fun p => Effect.write p.2⟩ ∧
        Chain c.sess J sr gfb gfb' (sent.map (·.2)) ∧ gfb' ≤ hi ∧ gfe' ≤ hi ∧
        Rows.Sorted (c.journal.out ++ sent) ∧ Rows.AllLt gfb' (c.journal.out ++ sent) ∧
        (∀ p ∈ sent, RowOK p.1 p.2 ∧ gfb ≤ p.1) ∧
        (∀ n row, gfb' ≤ n → n < hi → (n, row) ∈ J → ¬ Replayable sr row) := by
  intro rs
  induction rs with
  | nil =>
    intro gfb gfe c hctx h0 hb he hsorted hlt _ _ hacc
    refine ⟨[], gfb, gfe, c.journal.outSeq, ?_, Chain.nil _, hb, he, by simpa using hsorted,
      by simpa using hlt, by intro p hp; simp at hp, ?_⟩
    · simp [resendLoop, withOut]
    · intro n row h1 h2 h3 h4
      have := hacc n row h1 h2 h3 h4
      simp at this
  | cons p rest ih =>
    intro gfb gfe c hctx h0 hb he hsorted hlt hrs hrows hacc
    obtain ⟨k, row⟩ := p
    obtain ⟨hk1, hk2, hkJ, hrow⟩ := hrows (k, row) (by simp)
    simp only at hk1 hk2 hrow
    have hrs' := List.pairwise_cons.mp hrs
    obtain ⟨v, hv34, hvk⟩ := hrow.seq
    have hrest : ∀ q ∈ rest, k + 1 ≤ q.1 ∧ q.1 < hi ∧ q ∈ J ∧ RowOK q.1 q.2 := by
      intro q hq
      obtain ⟨_, b2, b3, b4⟩ := hrows q (by simp [hq])
      have := hrs'.1 q hq
      simp only at this
      exact ⟨by omega, b2, b3, b4⟩
    -- the common prefix of the loop body
    have hhead : ∀ (f : Int → String → M (Int × Int)),
        (do let v ← M.liftE (row.get tMsgSeqNum)
            let n ← M.int v
            let ty ← M.liftE (row.get tMsgType)
            f n ty) c = f k row.mtype c := by
      intro f
      simp [M.bind_apply, Msg.get, hv34, hrow.tag35, M.int, hvk]
    simp only [List.map_cons]
    rw [resendLoop, hhead]
    by_cases hrep : Replayable sr row
    · -- replayed (after an optional gap fill)
      obtain ⟨hnr, hsr⟩ := hrep
      have hcond : (ConnEnum.noReplay.contains row.mtype || !sr row) = false := by
        rw [hnr, hsr]; rfl
      simp only [hcond, Bool.false_eq_true, if_false]
      have hno : ∀ n row', gfb ≤ n → n < k → J.find n = some row' → ¬ Replayable sr row' := by
        intro n row' h1 h2 h3 h4
        have hm := hacc n row' h1 (by omega) ((Rows.find_eq_some_iff hJ _ _).mp h3) h4
        simp only [List.mem_cons, Prod.mk.injEq] at hm
        rcases hm with ⟨hm, _⟩ | hm
        · omega
        · have := hrs'.1 _ hm; simp at this; omega
      obtain ⟨pre, os1, e1, ch1, so1, lt1, ok1⟩ := gap_step env sr J c gfb k hctx h0 hk1 hsorted hlt hno
      have hctx1 := hctx.withOut (c.journal.out ++ pre) os1
      have hk0 : 0 ≤ k := by omega
      have hfr := rowOK_replayFrame hctx1 hrow hk0
      have hnot4 : row.mtype ≠ mSequenceReset := by
        intro h; rw [h] at hnr; exact absurd hnr (by decide)
      have hnot1 : row.mtype ≠ mTestRequest := by
        intro h; rw [h] at hnr; exact absurd hnr (by decide)
      have e2 := sendMsg_keep env (replayMsg row) (withOut c (c.journal.out ++ pre) os1) k v
        hctx1.inres
        (Or.inr ⟨by rw [mtype_replayMsg]; exact hnot4, by rw [mtype_replayMsg]; exact hnot1,
          possDup_replayMsg row⟩)
        (by rw [seq_replayMsg]; exact hv34) hvk hfr.latin (by simpa using lt1)
      simp only [withOut_out, withOut_sess, withOut_withOut] at e2
      have hctx2 := hctx.withOut
        (c.journal.out ++ pre ++ [(k, buildFrame c.sess env.stamp (replayMsg row) k)]) k
      have so2 : Rows.Sorted
          (c.journal.out ++ pre ++ [(k, buildFrame c.sess env.stamp (replayMsg row) k)]) :=
        Rows.sorted_append_singleton so1 lt1
      have lt2 : Rows.AllLt (k + 1)
          (c.journal.out ++ pre ++ [(k, buildFrame c.sess env.stamp (replayMsg row) k)]) :=
        Rows.allLt_append_singleton (Rows.allLt_mono (by omega) lt1) (by omega)
      obtain ⟨sent, gfb', gfe', os, e3, ch3, b1, b2, so3, lt3, ok3, no3⟩ :=
        ih (k + 1) gfe _ hctx2 (by omega) (by omega) he (by simpa using so2) (by simpa using lt2)
          hrs'.2 hrest
          (by
            intro n row' h1 h2 h3 h4
            have hm := hacc n row' (by omega) h2 h3 h4
            simp only [List.mem_cons, Prod.mk.injEq] at hm
            rcases hm with ⟨hm, _⟩ | hm
            · omega
            · exact hm)
      simp only [withOut_out, withOut_sess, withOut_withOut] at e3 ch3 so3 lt3
      refine ⟨pre ++ [(k, buildFrame c.sess env.stamp (replayMsg row) k)] ++ sent, gfb', gfe', os,
        ?_, ?_, b1, b2, ?_, ?_, ?_, no3⟩
      · have hsplit : ∀ (F : M (Int × Int)),
            (if gfb < k then (do sendMsg env (gapFillMsg gfb k); F) else F) c =
              ((if gfb < k then sendMsg env (gapFillMsg gfb k) else pure ()) >>= fun _ => F) c := by
          intro F; split <;> rfl
        rw [hsplit, M.bind_ok e1, M.bind_apply]
        simp only [prepareReplay_ok hrow, M.liftE_apply, M.bind_ok e2, e3]
        simp [List.append_assoc]
      · have chk : Chain c.sess J sr k (k + 1) [buildFrame c.sess env.stamp (replayMsg row) k] :=
          Chain.replay ((Rows.find_eq_some_iff hJ _ _).mpr hkJ) ⟨hnr, hsr⟩
            (isRetransmission_buildFrame _ _ hrow) (Chain.nil _)
        have := chain_append (chain_append ch1 chk) ch3
        simpa [List.map_append] using this
      · simpa [List.append_assoc] using so3
      · simpa [List.append_assoc] using lt3
      · intro q hq
        simp only [List.mem_append, List.mem_singleton] at hq
        rcases hq with (hq | hq) | hq
        · exact ok1 q hq
        · subst hq; exact ⟨hfr, hk1⟩
        · obtain ⟨c1, c2⟩ := ok3 q hq
          exact ⟨c1, by omega⟩
    · -- session-level or declined: only `gap_fill_end` moves
      have hcond : (ConnEnum.noReplay.contains row.mtype || !sr row) = true := by
        unfold Replayable at hrep
        cases h1 : ConnEnum.noReplay.contains row.mtype <;> cases h2 : sr row <;> simp_all
      simp only [hcond, if_true]
      obtain ⟨sent, gfb', gfe', os, e3, ch3, b1, b2, so3, lt3, ok3, no3⟩ :=
        ih gfb (k + 1) c hctx h0 hb (by omega) hsorted hlt hrs'.2
          (by
            intro q hq
            obtain ⟨c1, c2, c3, c4⟩ := hrest q hq
            exact ⟨by omega, c2, c3, c4⟩)
          (by
            intro n row' h1 h2 h3 h4
            have hm := hacc n row' h1 h2 h3 h4
            simp only [List.mem_cons, Prod.mk.injEq] at hm
            rcases hm with ⟨_, hm⟩ | hm
            · subst hm; exact absurd h4 hrep
            · exact hm)
      exact ⟨sent, gfb', gfe', os, e3, ch3, b1, b2, so3, lt3, ok3, no3⟩

end AsyncFix.Session.C06
