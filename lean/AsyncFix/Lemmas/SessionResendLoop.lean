import AsyncFix.Lemmas.SessionResendStep

/-!
C06 helper lemmas, part 5: the replay / gap-fill loop of `_process_resend`.

`resendLoop_spec` is the induction over the recovered rows `rs1 ++ rs2` (`rs1` = rows up to EndSeqNo,
`rs2` = rows after it) with the loop state (`gap_fill_begin`, `gap_fill_end`, the journal written so far)
as invariant: the frames written so far form a `Chain` from the initial `gap_fill_begin` to the current
one, every journal row is below the current `gap_fill_begin` (so the next `persist_msg` cannot collide),
and no replayable row of the original journal `J` lies between the current `gap_fill_begin` and the next
recovered row.  `resendLoop_tail`: the rows after EndSeqNo go back into the journal unchanged and unsent.
-/
namespace AsyncFix.Session.C06
open Msg AsyncFix.Generated AsyncFix.Generated.ConnEnum

/-- what stays fixed while the loop runs -/
structure LoopCtx (env : Env) (c : Conn) : Prop where
  inres : InResend c
  lsender : isLatin1 c.sess.sender = true
  ltarget : isLatin1 c.sess.target = true
  lstamp : isLatin1 env.stamp = true

theorem LoopCtx.withOut {env : Env} {c : Conn} (h : LoopCtx env c) (o : Rows) (os : Int) :
    LoopCtx env (withOut c o os) :=
  ⟨h.inres, h.lsender, h.ltarget, h.lstamp⟩

theorem chain_append {s : Session} {J : Rows} {sr : Msg → Bool} {a m z : Int} {xs ys : List Msg}
    (h1 : Chain s J sr a m xs) (h2 : Chain s J sr m z ys) : Chain s J sr a z (xs ++ ys) := by
  induction h1 with
  | nil => exact h2
  | replay hf hr hi _ ih => exact Chain.replay hf hr hi (ih h2)
  | gap hl hg hn _ ih => exact Chain.gap hl hg hn (ih h2)

theorem chain_le {s : Session} {J : Rows} {sr : Msg → Bool} {a z : Int} {xs : List Msg}
    (h : Chain s J sr a z xs) : a ≤ z := by
  induction h with
  | nil => exact Int.le_refl _
  | replay _ _ _ _ ih => omega
  | gap hl _ _ _ ih => omega

/-! ### the two kinds of frames -/

theorem isGapFill_buildFrame (s : Session) (st : String) (a z : Int) :
    IsGapFill s a z (buildFrame s st (gapFillMsg a z) a) where
  mtype := rfl
  tag35 := get?_buildFrame_35 s st _ a
  seq := get?_buildFrame_34 s st _ a
  newSeq := by rw [get?_buildFrame_other _ _ _ _ _ (by decide)]; rfl
  gapFill := by rw [get?_buildFrame_other _ _ _ _ _ (by decide)]; rfl
  body := by rw [appBody_buildFrame]; rfl
  begin_ := get?_buildFrame_8 s st _ a
  sender := get?_buildFrame_49 s st _ a
  target := get?_buildFrame_56 s st _ a

theorem isRetransmission_buildFrame (s : Session) (st : String) {n : Int} {row : Msg}
    (h : RowOK n row) : IsRetransmission s n row (buildFrame s st (replayMsg row) n) where
  mtype := mtype_replayMsg row
  tag35 := by rw [get?_buildFrame_35, mtype_replayMsg]
  seq := get?_buildFrame_34 s st _ n
  possDup := by rw [get?_buildFrame_other _ _ _ _ _ (by decide)]; exact possDup_replayMsg row
  orig := by rw [get?_buildFrame_other _ _ _ _ _ (by decide)]; exact orig_replayMsg h
  body := by rw [appBody_buildFrame]; exact body_replayMsg row
  begin_ := get?_buildFrame_8 s st _ n
  sender := get?_buildFrame_49 s st _ n
  target := get?_buildFrame_56 s st _ n

theorem rowOK_gapFrame {env : Env} {c : Conn} (h : LoopCtx env c) (a z : Int) (ha : 0 ≤ a) :
    RowOK a (buildFrame c.sess env.stamp (gapFillMsg a z) a) := by
  by_cases hz : 0 ≤ z
  · exact rowOK_buildFrame _ _ _ _ h.lsender h.ltarget h.lstamp (by show isLatin1 mSequenceReset = true; decide)
      (by simp [gapFillMsg, Msg.mk', isLatin1_pyStr a ha, isLatin1_pyStr z hz]; decide) ha rfl
  · -- a negative NewSeqNo renders as "-digits": still latin-1
    have hl : isLatin1 (pyStr z) = true := by
      unfold pyStr
      rw [Int.toString_eq_repr, Int.repr_eq_if, if_neg hz, isLatin1_append]
      have := isLatin1_natRepr (-z).toNat
      rw [Nat.toString_eq_repr] at this
      rw [this]; decide
    exact rowOK_buildFrame _ _ _ _ h.lsender h.ltarget h.lstamp (by show isLatin1 mSequenceReset = true; decide)
      (by simp [gapFillMsg, Msg.mk', isLatin1_pyStr a ha, hl]; decide) ha rfl

theorem rowOK_replayFrame {env : Env} {c : Conn} (h : LoopCtx env c) {n : Int} {row : Msg}
    (hr : RowOK n row) (hn : 0 ≤ n) : RowOK n (buildFrame c.sess env.stamp (replayMsg row) n) := by
  have hm : isLatin1 row.mtype = true :=
    all_of_lookup (fun p => isLatin1 p.2) _ tMsgType _ hr.latin hr.tag35
  refine rowOK_buildFrame _ _ _ _ h.lsender h.ltarget h.lstamp (by rw [mtype_replayMsg]; exact hm)
    (latin_replayMsg hr) hn ?_
  unfold replayMsg
  simp only [has_eq, delHeader, get?_delR, if_true]
  rfl

/-! ### an optional gap fill `[a, k)` -/

/-- optional gap fill when the journal is `l1 ++ l2` with `l1` below `a` and `l2` above `k` (the rows
after EndSeqNo that were put back) -/
theorem gap_step_mid (env : Env) (sr : Msg → Bool) (J : Rows) (c : Conn) (a k : Int) (l1 l2 : Rows)
    (hctx : LoopCtx env c) (ha : 0 ≤ a) (hak : a ≤ k) (hout : c.journal.out = l1 ++ l2)
    (hsorted : Rows.Sorted (l1 ++ l2)) (hlt : Rows.AllLt a l1) (hgt : Rows.AllGt (k - 1) l2)
    (hno : ∀ n row, a ≤ n → n < k → J.find n = some row → ¬ Replayable sr row) :
    ∃ (pre : Rows) (os : Int),
      (if a < k then sendMsg env (gapFillMsg a k) else pure ()) c =
        ⟨.ok (), withOut c (l1 ++ pre ++ l2) os, pre.map fun p => Effect.write p.2⟩ ∧
      Chain c.sess J sr a k (pre.map (·.2)) ∧
      Rows.Sorted (l1 ++ pre ++ l2) ∧ Rows.AllLt k (l1 ++ pre) ∧
      (∀ p ∈ pre, RowOK p.1 p.2 ∧ a ≤ p.1) := by
  by_cases h : a < k
  · have hrow := rowOK_gapFrame hctx a k ha
    have hgt' : Rows.AllGt a l2 := fun p hp => by have := hgt p hp; omega
    refine ⟨[(a, buildFrame c.sess env.stamp (gapFillMsg a k) a)], a, ?_, ?_, ?_, ?_, ?_⟩
    · rw [if_pos h]
      exact sendMsg_keep_mid env _ c a (pyStr a) l1 l2 hctx.inres (Or.inl rfl) rfl (pyInt_pyStr a ha)
        hrow.latin hout hlt hgt'
    · exact Chain.gap h (isGapFill_buildFrame _ _ _ _) hno (Chain.nil k)
    · refine Rows.sorted_append
        (Rows.sorted_append_singleton (Rows.sorted_append_left hsorted) hlt)
        (Rows.sorted_append_right hsorted) ?_
      intro p hp q hq
      rcases List.mem_append.mp hp with hp | hp
      · exact Rows.sorted_append_lt hsorted p hp q hq
      · simp only [List.mem_singleton] at hp; subst hp; exact hgt' q hq
    · exact Rows.allLt_append_singleton (Rows.allLt_mono hak hlt) h
    · intro p hp
      simp only [List.mem_singleton] at hp
      subst hp
      exact ⟨hrow, Int.le_refl _⟩
  · have hk : k = a := by omega
    subst hk
    refine ⟨[], c.journal.outSeq, ?_, Chain.nil _, ?_, ?_, ?_⟩
    · rw [if_neg h]; simp [withOut, ← hout]
    · simpa using hsorted
    · simpa using hlt
    · intro p hp; simp at hp

theorem gap_step (env : Env) (sr : Msg → Bool) (J : Rows) (c : Conn) (a k : Int)
    (hctx : LoopCtx env c) (ha : 0 ≤ a) (hak : a ≤ k)
    (hsorted : Rows.Sorted c.journal.out) (hlt : Rows.AllLt a c.journal.out)
    (hno : ∀ n row, a ≤ n → n < k → J.find n = some row → ¬ Replayable sr row) :
    ∃ (pre : Rows) (os : Int),
      (if a < k then sendMsg env (gapFillMsg a k) else pure ()) c =
        ⟨.ok (), withOut c (c.journal.out ++ pre) os, pre.map fun p => Effect.write p.2⟩ ∧
      Chain c.sess J sr a k (pre.map (·.2)) ∧
      Rows.Sorted (c.journal.out ++ pre) ∧ Rows.AllLt k (c.journal.out ++ pre) ∧
      (∀ p ∈ pre, RowOK p.1 p.2 ∧ a ≤ p.1) := by
  obtain ⟨pre, os, h1, h2, h3, h4, h5⟩ :=
    gap_step_mid env sr J c a k c.journal.out [] hctx ha hak (by simp) (by simpa using hsorted) hlt
      (by intro p hp; simp at hp) hno
  exact ⟨pre, os, by simpa using h1, h2, by simpa using h3, h4, h5⟩

/-! ### rows after EndSeqNo: back into the journal, unsent -/

theorem resendLoop_tail (env : Env) (sr : Msg → Bool) (e : Int) :
    ∀ (rs2 : Rows) (gfb gfe : Int) (c : Conn),
      Rows.Sorted (c.journal.out ++ rs2) → (∀ p ∈ rs2, e < p.1 ∧ RowOK p.1 p.2) →
      ∃ os : Int,
        resendLoop env sr e (rs2.map (·.2)) gfb gfe c =
          ⟨.ok (gfb, gfe), withOut c (c.journal.out ++ rs2) os, []⟩ := by
  intro rs2
  induction rs2 with
  | nil =>
    intro gfb gfe c _ _
    exact ⟨c.journal.outSeq, by simp [resendLoop, withOut]⟩
  | cons p rest ih =>
    intro gfb gfe c hs hrows
    obtain ⟨k, row⟩ := p
    obtain ⟨hk, hrow⟩ := hrows (k, row) (by simp)
    simp only at hk hrow
    obtain ⟨v, hv34, hvk⟩ := hrow.seq
    have hlt : Rows.AllLt k c.journal.out := fun q hq =>
      Rows.sorted_append_lt hs q hq (k, row) (by simp)
    have hpers : persistOutboundRow k row c =
        ⟨.ok (), withOut c (c.journal.out ++ [(k, row)]) k, []⟩ := by
      simp [persistOutboundRow, M.bind_apply, Journal.persist, Rows.insert_append k row _ hlt, withOut]
    have hs' : Rows.Sorted ((withOut c (c.journal.out ++ [(k, row)]) k).journal.out ++ rest) := by
      simpa [List.append_assoc] using hs
    obtain ⟨os, e2⟩ := ih gfb gfe (withOut c (c.journal.out ++ [(k, row)]) k) hs'
      (fun q hq => hrows q (by simp [hq]))
    refine ⟨os, ?_⟩
    simp only [List.map_cons]
    rw [resendLoop]
    simp only [M.bind_apply, Msg.get, hv34, M.liftE_apply, M.int_apply_of hvk, if_true, hpers,
      e2, gt_iff_lt, hk]
    simp [List.append_assoc]

/-! ### the loop -/

theorem resendLoop_spec (env : Env) (sr : Msg → Bool) (J : Rows) (hJ : Rows.Sorted J) (hi e : Int)
    (rs2 : Rows) (hrs2 : ∀ p ∈ rs2, e < p.1 ∧ RowOK p.1 p.2) :
    ∀ (rs1 : Rows) (gfb gfe : Int) (c : Conn),
      LoopCtx env c → 0 ≤ gfb → gfb ≤ hi → gfe ≤ hi →
      Rows.Sorted c.journal.out → Rows.AllLt gfb c.journal.out →
      Rows.Sorted (rs1 ++ rs2) →
      (∀ p ∈ rs1, gfb ≤ p.1 ∧ p.1 < hi ∧ p.1 ≤ e ∧ p ∈ J ∧ RowOK p.1 p.2) →
      (∀ p ∈ rs2, gfb ≤ p.1) →
      (∀ n row, gfb ≤ n → n < hi → (n, row) ∈ J → Replayable sr row → (n, row) ∈ rs1) →
      ∃ (sent : Rows) (gfb' gfe' os : Int),
        resendLoop env sr e ((rs1 ++ rs2).map (·.2)) gfb gfe c =
          ⟨.ok (gfb', gfe'), withOut c (c.journal.out ++ sent ++ rs2) os,
            sent.map fun p => Effect.write p.2⟩ ∧
        Chain c.sess J sr gfb gfb' (sent.map (·.2)) ∧ gfb' ≤ hi ∧ gfe' ≤ hi ∧
        Rows.Sorted (c.journal.out ++ sent ++ rs2) ∧ Rows.AllLt gfb' (c.journal.out ++ sent) ∧
        (∀ p ∈ sent, RowOK p.1 p.2 ∧ gfb ≤ p.1) ∧ (∀ p ∈ rs2, gfb' ≤ p.1) ∧
        (∀ n row, gfb' ≤ n → n < hi → (n, row) ∈ J → ¬ Replayable sr row) := by
  intro rs1
  induction rs1 with
  | nil =>
    intro gfb gfe c hctx h0 hb he hsorted hlt hs2 _ hge2 hacc
    have hs : Rows.Sorted (c.journal.out ++ rs2) :=
      Rows.sorted_append hsorted (by simpa using hs2)
        (fun p hp q hq => by have := hlt p hp; have := hge2 q hq; omega)
    obtain ⟨os, e1⟩ := resendLoop_tail env sr e rs2 gfb gfe c hs hrs2
    refine ⟨[], gfb, gfe, os, ?_, Chain.nil _, hb, he, by simpa using hs, by simpa using hlt,
      by intro p hp; simp at hp, hge2, ?_⟩
    · simpa using e1
    · intro n row h1 h2 h3 h4
      have := hacc n row h1 h2 h3 h4
      simp at this
  | cons p rest ih =>
    intro gfb gfe c hctx h0 hb he hsorted hlt hrs hrows hge2 hacc
    obtain ⟨k, row⟩ := p
    obtain ⟨hk1, hk2, hke, hkJ, hrow⟩ := hrows (k, row) (by simp)
    simp only at hk1 hk2 hke hrow
    have hrs' := List.pairwise_cons.mp (by simpa using hrs : Rows.Sorted ((k, row) :: (rest ++ rs2)))
    obtain ⟨v, hv34, hvk⟩ := hrow.seq
    have hrest : ∀ q ∈ rest, k + 1 ≤ q.1 ∧ q.1 < hi ∧ q.1 ≤ e ∧ q ∈ J ∧ RowOK q.1 q.2 := by
      intro q hq
      obtain ⟨_, b2, b3, b4, b5⟩ := hrows q (by simp [hq])
      have := hrs'.1 q (List.mem_append.mpr (Or.inl hq))
      simp only at this
      exact ⟨by omega, b2, b3, b4, b5⟩
    have hge2' : ∀ q ∈ rs2, k + 1 ≤ q.1 := by
      intro q hq
      have := hrs'.1 q (List.mem_append.mpr (Or.inr hq))
      simp only at this
      omega
    -- the common prefix of the loop body: the row's number, not above EndSeqNo, its type
    have hhead : ∀ (f : Int → String → M (Int × Int)) (g : Int → M (Int × Int)),
        (do let v ← M.liftE (row.get tMsgSeqNum)
            let n ← M.int v
            if n > e then g n
            else do
              let ty ← M.liftE (row.get tMsgType)
              f n ty) c = f k row.mtype c := by
      intro f g
      have : ¬ k > e := by omega
      simp [M.bind_apply, Msg.get, hv34, hrow.tag35, M.int, hvk, this]
    simp only [List.cons_append, List.map_cons]
    rw [resendLoop]
    by_cases hrep : Replayable sr row
    · -- replayed (after an optional gap fill)
      obtain ⟨hnr, hsr⟩ := hrep
      have hcond : (ConnEnum.noReplay.contains row.mtype || !sr row) = false := by
        rw [hnr, hsr]; rfl
      have hno : ∀ n row', gfb ≤ n → n < k → J.find n = some row' → ¬ Replayable sr row' := by
        intro n row' h1 h2 h3 h4
        have hm := hacc n row' h1 (by omega) ((Rows.find_eq_some_iff hJ _ _).mp h3) h4
        simp only [List.mem_cons, Prod.mk.injEq] at hm
        rcases hm with ⟨hm, _⟩ | hm
        · omega
        · have := (hrest _ hm).1; simp at this; omega
      obtain ⟨pre, os1, e1, ch1, so1, lt1, ok1⟩ := gap_step env sr J c gfb k hctx h0 hk1 hsorted hlt hno
      have hctx1 := hctx.withOut (c.journal.out ++ pre) os1
      have hk0 : 0 ≤ k := by omega
      have hfr := rowOK_replayFrame hctx1 hrow hk0
      have hnot4 : row.mtype ≠ mSequenceReset := by
        intro h; rw [h] at hnr; exact absurd hnr (by decide)
      have hnot1 : row.mtype ≠ mTestRequest := by
        intro h; rw [h] at hnr; exact absurd hnr (by decide)
      have e2 := sendMsg_keep env (replayMsg row) (withOut c (c.journal.out ++ pre) os1) k v
        hctx1.inres
        (Or.inr ⟨by rw [mtype_replayMsg]; exact hnot4, by rw [mtype_replayMsg]; exact hnot1,
          possDup_replayMsg row⟩)
        (by rw [seq_replayMsg]; exact hv34) hvk hfr.latin (by simpa using lt1)
      simp only [withOut_out, withOut_sess, withOut_withOut] at e2
      have hctx2 := hctx.withOut
        (c.journal.out ++ pre ++ [(k, buildFrame c.sess env.stamp (replayMsg row) k)]) k
      have so2 : Rows.Sorted
          (c.journal.out ++ pre ++ [(k, buildFrame c.sess env.stamp (replayMsg row) k)]) :=
        Rows.sorted_append_singleton so1 lt1
      have lt2 : Rows.AllLt (k + 1)
          (c.journal.out ++ pre ++ [(k, buildFrame c.sess env.stamp (replayMsg row) k)]) :=
        Rows.allLt_append_singleton (Rows.allLt_mono (by omega) lt1) (by omega)
      obtain ⟨sent, gfb', gfe', os, e3, ch3, b1, b2, so3, lt3, ok3, ge3, no3⟩ :=
        ih (k + 1) gfe _ hctx2 (by omega) (by omega) he (by simpa using so2) (by simpa using lt2)
          hrs'.2 hrest hge2'
          (by
            intro n row' h1 h2 h3 h4
            have hm := hacc n row' (by omega) h2 h3 h4
            simp only [List.mem_cons, Prod.mk.injEq] at hm
            rcases hm with ⟨hm, _⟩ | hm
            · omega
            · exact hm)
      simp only [withOut_out, withOut_sess, withOut_withOut] at e3 ch3 so3 lt3
      refine ⟨pre ++ [(k, buildFrame c.sess env.stamp (replayMsg row) k)] ++ sent, gfb', gfe', os,
        ?_, ?_, b1, b2, ?_, ?_, ?_, ge3, no3⟩
      · have hsplit : ∀ (F : M (Int × Int)),
            (if gfb < k then (do sendMsg env (gapFillMsg gfb k); F) else F) c =
              ((if gfb < k then sendMsg env (gapFillMsg gfb k) else pure ()) >>= fun _ => F) c := by
          intro F; split <;> rfl
        rw [hhead]
        simp only [hcond, Bool.false_eq_true, if_false]
        rw [hsplit, M.bind_ok e1, M.bind_apply]
        simp only [prepareReplay_ok hrow, M.liftE_apply, M.bind_ok e2, e3]
        simp [List.append_assoc]
      · have chk : Chain c.sess J sr k (k + 1) [buildFrame c.sess env.stamp (replayMsg row) k] :=
          Chain.replay ((Rows.find_eq_some_iff hJ _ _).mpr hkJ) ⟨hnr, hsr⟩
            (isRetransmission_buildFrame _ _ hrow) (Chain.nil _)
        have := chain_append (chain_append ch1 chk) ch3
        simpa [List.map_append] using this
      · simpa [List.append_assoc] using so3
      · simpa [List.append_assoc] using lt3
      · intro q hq
        simp only [List.mem_append, List.mem_singleton] at hq
        rcases hq with (hq | hq) | hq
        · exact ok1 q hq
        · subst hq; exact ⟨hfr, hk1⟩
        · obtain ⟨c1, c2⟩ := ok3 q hq
          exact ⟨c1, by omega⟩
    · -- session-level or declined: only `gap_fill_end` moves
      have hcond : (ConnEnum.noReplay.contains row.mtype || !sr row) = true := by
        unfold Replayable at hrep
        cases h1 : ConnEnum.noReplay.contains row.mtype <;> cases h2 : sr row <;> simp_all
      obtain ⟨sent, gfb', gfe', os, e3, ch3, b1, b2, so3, lt3, ok3, ge3, no3⟩ :=
        ih gfb (k + 1) c hctx h0 hb (by omega) hsorted hlt hrs'.2
          (by
            intro q hq
            obtain ⟨c1, c2, c3, c4, c5⟩ := hrest q hq
            exact ⟨by omega, c2, c3, c4, c5⟩)
          hge2
          (by
            intro n row' h1 h2 h3 h4
            have hm := hacc n row' h1 h2 h3 h4
            simp only [List.mem_cons, Prod.mk.injEq] at hm
            rcases hm with ⟨_, hm⟩ | hm
            · subst hm; exact absurd h4 hrep
            · exact hm)
      refine ⟨sent, gfb', gfe', os, ?_, ch3, b1, b2, so3, lt3, ok3, ge3, no3⟩
      rw [hhead]
      simp only [hcond, if_true]
      exact e3

end AsyncFix.Session.C06
